import MuscleModel.Reflector.Traverse

/-!
# Lemmas for property C05 (wildcard traversal = brute force), part 1: one child

`checkEntries`/`checkChild` under the continue-callback: never aborts; the recorded visits are a permutation of
`[child path]` (if some active terminal entry hits and passes the guard) ++ the recursive visits (if some active
non-terminal entry hits).
-/

namespace Muscle.Reflector
open Muscle

/-- entry `e`'s clause at relative depth `rel` matches the name -/
def hitB (rel : Nat) (nm : Bytes) (e : Entry) : Bool :=
  match e.clauses[rel]? with
  | some c => clauseMatch c nm
  | none => false

/-- the clause at relative depth `rel` is the last one of `e` (absolute form, as in the code) -/
def termB (ctx : TCtx) (depth : Nat) (e : Entry) : Bool := decide (depth + 1 = ctx.rootDepth + e.clauses.length)

/-- the multi-pattern guard of `CheckChildForTraversal` -/
def guardB (ctx : TCtx) (cn : Visit) (d : Option Nat) (e : Entry) : Bool :=
  (onlyOneEntry ctx.pm && (!ctx.useFilters || e.filter.isNone)) || matchesNode ctx.pm cn ctx.useFilters d

/-- some entry records the child -/
def anyT (ctx : TCtx) (depth : Nat) (child : Node) (cn : Visit) (es : List Entry) : Bool :=
  es.any (fun e => hitB (depth - ctx.rootDepth) child.name e && termB ctx depth e && guardB ctx cn child.data e)

/-- some entry descends into the child -/
def anyR (ctx : TCtx) (depth : Nat) (child : Node) (es : List Entry) : Bool :=
  es.any (fun e => hitB (depth - ctx.rootDepth) child.name e && !termB ctx depth e)

theorem checkEntries_nil (ctx : TCtx) (rec : Rec) (child : Node) (cn : Visit) (depth : Nat) (known : Option Nat)
    (idx : Nat) (st : CState) : checkEntries ctx rec child cn depth known [] idx st = st := rfl

theorem checkEntries_stop (ctx : TCtx) (rec : Rec) (child : Node) (cn : Visit) (depth : Nat) (known : Option Nat)
    (es : List Entry) (idx : Nat) (st : CState) (h : (st.done || st.abort.isSome) = true) :
    checkEntries ctx rec child cn depth known es idx st = st := by
  cases es with
  | nil => rfl
  | cons e es => simp only [checkEntries, h, if_true]


/-- one iteration of the entry loop under the continue-callback and a non-aborting recursive call -/
def stepC (ctx : TCtx) (R : List Visit) (child : Node) (cn : Visit) (depth : Nat) (hit : Bool) (e : Entry) (st : CState) : CState :=
  if !hit then st
  else if termB ctx depth e then
    (if st.matched then st else
     if guardB ctx cn child.data e then { st with visits := st.visits ++ [cn], matched := true, done := st.recursed } else st)
  else if st.recursed then st else { st with visits := st.visits ++ R, recursed := true, done := st.matched }

theorem checkEntries_cons_cont (ctx : TCtx) (rec : Rec) (child : Node) (cn : Visit) (depth : Nat) (known : Option Nat)
    (hcb : ctx.cb = cbContinue) (hrec : (rec child cn (depth+1)).2 = ((depth+1 : Nat) : Int))
    (e : Entry) (es : List Entry) (idx : Nat) (st : CState) (h : (st.done || st.abort.isSome) = false) :
    checkEntries ctx rec child cn depth known (e :: es) idx st =
      checkEntries ctx rec child cn depth known es (idx + 1)
        (stepC ctx (rec child cn (depth+1)).1 child cn depth
          (decide (known = some idx) || hitB (depth - ctx.rootDepth) child.name e) e st) := by
  simp only [checkEntries, h, stepC, hitB, termB, guardB, hcb, cbContinue]
  have h1 : ¬ (((depth + 1 : Nat) : Int) < (depth : Int) + 1 - 1) := by omega
  -- a non-aborting level returns its own depth: the F27 conditions `nd < childDepth` are never true here
  have h2 : decide (((depth + 1 : Nat) : Int) < (depth : Int) + 1) = false := by
    simp only [decide_eq_false_iff_not]; omega
  rw [hrec]
  simp only [h1, h2, Bool.or_false, if_false, if_true, Bool.false_eq_true, decide_eq_true_eq]
  rfl

/-- invariant of the loop state -/
def CState.ok (st : CState) : Prop := st.abort = none ∧ (st.done = true → st.matched = true ∧ st.recursed = true)

theorem stepC_ok (ctx : TCtx) (R : List Visit) (child : Node) (cn : Visit) (depth : Nat) (hit : Bool) (e : Entry)
    (st : CState) (h : st.ok) : (stepC ctx R child cn depth hit e st).ok := by
  obtain ⟨h1, h2⟩ := h
  unfold stepC CState.ok
  split
  · exact ⟨h1, h2⟩
  · split
    · split
      · exact ⟨h1, h2⟩
      · split
        · simp_all
        · exact ⟨h1, h2⟩
    · split
      · exact ⟨h1, h2⟩
      · simp_all

theorem checkEntries_ok (ctx : TCtx) (rec : Rec) (child : Node) (cn : Visit) (depth : Nat) (known : Option Nat)
    (hcb : ctx.cb = cbContinue) (hrec : (rec child cn (depth+1)).2 = ((depth+1 : Nat) : Int)) :
    ∀ (es : List Entry) (idx : Nat) (st : CState), st.ok → (checkEntries ctx rec child cn depth known es idx st).ok := by
  intro es
  induction es with
  | nil => intro idx st h; exact h
  | cons e es ih =>
    intro idx st h
    cases hs : (st.done || st.abort.isSome) with
    | true => rw [checkEntries_stop _ _ _ _ _ _ _ _ _ hs]; exact h
    | false =>
      rw [checkEntries_cons_cont ctx rec child cn depth known hcb hrec e es idx st hs]
      exact ih _ _ (stepC_ok _ _ _ _ _ _ _ _ h)



theorem anyT_cons (ctx : TCtx) (depth : Nat) (child : Node) (cn : Visit) (e : Entry) (es : List Entry) :
    anyT ctx depth child cn (e :: es) =
      ((hitB (depth - ctx.rootDepth) child.name e && termB ctx depth e && guardB ctx cn child.data e) || anyT ctx depth child cn es) := by
  simp [anyT]

theorem anyR_cons (ctx : TCtx) (depth : Nat) (child : Node) (e : Entry) (es : List Entry) :
    anyR ctx depth child (e :: es) =
      ((hitB (depth - ctx.rootDepth) child.name e && !termB ctx depth e) || anyR ctx depth child es) := by
  simp [anyR]

theorem checkEntries_perm (ctx : TCtx) (rec : Rec) (child : Node) (cn : Visit) (depth : Nat)
    (hcb : ctx.cb = cbContinue) (hrec : (rec child cn (depth+1)).2 = ((depth+1 : Nat) : Int)) :
    ∀ (es : List Entry) (idx : Nat) (st : CState), st.ok →
      (checkEntries ctx rec child cn depth none es idx st).visits.Perm
        (st.visits ++ ((if (!st.matched && anyT ctx depth child cn es) = true then [cn] else []) ++
                       (if (!st.recursed && anyR ctx depth child es) = true then (rec child cn (depth+1)).1 else []))) := by
  intro es
  induction es with
  | nil => intro idx st h; simp [checkEntries_nil, anyT, anyR]
  | cons e es ih =>
    intro idx st h
    cases hs : (st.done || st.abort.isSome) with
    | true =>
      rw [checkEntries_stop _ _ _ _ _ _ _ _ _ hs]
      have hd : st.done = true := by
        have := h.1; simp [this] at hs; exact hs
      have := h.2 hd
      simp [this.1, this.2]
    | false =>
      rw [checkEntries_cons_cont ctx rec child cn depth none hcb hrec e es idx st hs]
      have ih' := ih (idx + 1) _ (stepC_ok ctx (rec child cn (depth+1)).1 child cn depth
          (decide ((none : Option Nat) = some idx) || hitB (depth - ctx.rootDepth) child.name e) e st h)
      refine ih'.trans ?_
      rw [anyT_cons, anyR_cons]
      have hk : decide ((none : Option Nat) = some idx) = false := by simp
      rw [hk, Bool.false_or]
      unfold stepC
      cases hh : hitB (depth - ctx.rootDepth) child.name e with
      | false => simp
      | true =>
        cases ht : termB ctx depth e with
        | true =>
          cases hm : st.matched with
          | true => simp [hm]
          | false =>
            cases hg : guardB ctx cn child.data e with
            | true => simp
            | false => simp [hm]
        | false =>
          cases hr : st.recursed with
          | true => simp [hr]
          | false =>
            simp
            exact List.Perm.append_left _ List.perm_append_comm


/-- the state `checkChild` starts from -/
theorem CState.ok_init : ({} : CState).ok := ⟨rfl, by intro h; cases h⟩

/-- under the continue-callback `CheckChildForTraversal` never returns `true` -/
theorem checkChild_snd (ctx : TCtx) (rec : Rec) (child : Node) (names : Visit) (depth : Nat) (known : Option Nat)
    (hcb : ctx.cb = cbContinue) (hrec : ∀ k n d, (rec k n d).2 = (d : Int)) :
    (checkChild ctx rec child names depth known).2 = none :=
  (checkEntries_ok ctx rec child _ depth known hcb (hrec _ _ _) _ 0 {} CState.ok_init).1

/-- what `CheckChildForTraversal` records for one child (general case, no known-matching entry) -/
theorem checkChild_perm (ctx : TCtx) (rec : Rec) (child : Node) (names : Visit) (depth : Nat)
    (hcb : ctx.cb = cbContinue) (hrec : ∀ k n d, (rec k n d).2 = (d : Int)) :
    (checkChild ctx rec child names depth none).1.Perm
      ((if anyT ctx depth child (names ++ [child.name]) (activeEntries ctx.pm (depth - ctx.rootDepth)) = true
          then [names ++ [child.name]] else []) ++
       (if anyR ctx depth child (activeEntries ctx.pm (depth - ctx.rootDepth)) = true
          then (rec child (names ++ [child.name]) (depth+1)).1 else [])) := by
  have := checkEntries_perm ctx rec child (names ++ [child.name]) depth hcb (hrec _ _ _)
    (activeEntries ctx.pm (depth - ctx.rootDepth)) 0 {} CState.ok_init
  simpa [checkChild] using this


/-- one iteration of the entry loop, any callback -/
def stepG (ctx : TCtx) (rec : Rec) (child : Node) (cnames : Visit) (depth : Nat) (hit : Bool) (e : Entry) (st : CState) : CState :=
  let childDepth : Int := depth + 1
  if !hit then st
  else if depth + 1 = ctx.rootDepth + e.clauses.length then
    if st.matched then st else
    if (onlyOneEntry ctx.pm && (!ctx.useFilters || e.filter.isNone)) || matchesNode ctx.pm cnames ctx.useFilters child.data then
      let (rc, nd) := ctx.cb cnames (depth + 1) child
      let vs := if rc then st.visits ++ [cnames] else st.visits
      if nd < childDepth - 1 then { st with visits := vs, abort := some nd }
      else { st with visits := vs, matched := true, recursed := st.recursed || decide (nd < childDepth),
                     done := st.recursed || decide (nd < childDepth) }
    else st
  else
    if st.recursed then st else
    let (vs, nd) := rec child cnames (depth + 1)
    if nd < childDepth - 1 then { st with visits := st.visits ++ vs, abort := some nd }
    else { st with visits := st.visits ++ vs, recursed := true, matched := st.matched || decide (nd < childDepth),
                   done := st.matched || decide (nd < childDepth) }

theorem checkEntries_cons (ctx : TCtx) (rec : Rec) (child : Node) (cn : Visit) (depth : Nat) (known : Option Nat)
    (e : Entry) (es : List Entry) (idx : Nat) (st : CState) :
    checkEntries ctx rec child cn depth known (e :: es) idx st =
      if st.done || st.abort.isSome then st else
      checkEntries ctx rec child cn depth known es (idx + 1)
        (stepG ctx rec child cn depth (decide (known = some idx) || hitB (depth - ctx.rootDepth) child.name e) e st) := rfl

/-- the known-matching-entry short cut changes nothing when that entry's clause does match the child's name -/
theorem checkEntries_known (ctx : TCtx) (rec : Rec) (child : Node) (cn : Visit) (depth : Nat) (i : Nat) :
    ∀ (es : List Entry) (idx : Nat) (st : CState),
      (∀ e, idx ≤ i → es[i - idx]? = some e → hitB (depth - ctx.rootDepth) child.name e = true) →
      checkEntries ctx rec child cn depth (some i) es idx st = checkEntries ctx rec child cn depth none es idx st := by
  intro es
  induction es with
  | nil => intros; rfl
  | cons e es ih =>
    intro idx st h
    rw [checkEntries_cons, checkEntries_cons]
    have hb : (decide (some i = some idx) || hitB (depth - ctx.rootDepth) child.name e)
            = (decide ((none : Option Nat) = some idx) || hitB (depth - ctx.rootDepth) child.name e) := by
      by_cases hi : i = idx
      · subst hi
        have := h e (Nat.le_refl _) (by simp)
        simp [this]
      · simp [hi]
    rw [hb, ih]
    intro e' hle hget
    apply h e' (by omega)
    have : i - idx = (i - (idx + 1)) + 1 := by omega
    rw [this]; simpa using hget

end Muscle.Reflector
