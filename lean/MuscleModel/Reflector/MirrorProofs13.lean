import MuscleModel.Reflector.MirrorProofs12

/-!
# C04 lemmas, part 13: PR_COMMAND_SETDATA creating the LAST clause of its path (the parent exists)
-/

set_option linter.unusedSimpArgs false
set_option linter.unusedVariables false

namespace Muscle.Reflector
open Muscle

theorem putChild_quiet (sv : Server) (by_ : Nat) (parent : List Bytes) (child : Node) :
    putChild sv by_ parent child false =
      setNode sv parent (fun q => q.setKids (putKid (child.setSubs (marksForNewNode sv (parent ++ [child.name]))) q.kids)) := by
  unfold putChild
  simp

theorem setDataClauses_create_last (by_ : Nat) (d : Option Nat) (cl : Bytes) :
    ∀ (cls : List Bytes) (sv : Server) (cur : List Bytes) (p : Node), getNode sv (cur ++ cls) = some p →
      findKid cl p.kids = none → (cur ++ cls).length < fuelDepth →
      setDataClauses by_ d false sv cur (cls ++ [cl]) =
        notifyChanged (putChild sv by_ (cur ++ cls) (Node.fresh cl d) false) by_ (cur ++ cls ++ [cl])
          ((Node.fresh cl d).setSubs (marksForNewNode sv (cur ++ cls ++ [cl]))) none false := by
  intro cls
  induction cls with
  | nil =>
    intro sv cur p hp hk hlen
    simp only [List.append_nil] at hp hlen ⊢
    have hg : getNode (putChild sv by_ cur (Node.fresh cl d) false) (cur ++ [cl]) =
        some ((Node.fresh cl d).setSubs (marksForNewNode sv (cur ++ [cl]))) := by
      rw [putChild_quiet]
      exact mr_putKid_at sv cur ((Node.fresh cl d).setSubs (marksForNewNode sv (cur ++ [cl]))) hp hlen
    simp [setDataClauses, hp, hk, hg]
  | cons c1 rest ih =>
    intro sv cur p hp hk hlen
    have hsplit : cur ++ c1 :: rest = (cur ++ [c1]) ++ rest := by simp
    have hcl : ∃ c, getNode sv (cur ++ [c1]) = some c := by
      rw [hsplit, mr_getNode_append] at hp
      cases hc : getNode sv (cur ++ [c1]) with
      | none => rw [hc] at hp; cases hp
      | some c => exact ⟨c, rfl⟩
    obtain ⟨c, hc⟩ := hcl
    obtain ⟨p0, hp0, hk0⟩ := getNode_snoc hc
    have hne : (rest ++ [cl]).isEmpty = false := by cases rest <;> rfl
    have := ih sv (cur ++ [c1]) p (by rw [← hsplit]; exact hp) hk (by rw [← hsplit]; exact hlen)
    rw [List.cons_append, setDataClauses]
    simp only [hp0, hk0, hne, Bool.false_and, Bool.false_eq_true, if_false]
    rw [this, hsplit]

/-- WHOLE COMMAND, creation of the last clause: session `a` sets a path whose parent node exists and whose last clause
    does not. -/
theorem sync_set_create_last {sv : Server} (hk : MK sv) {a : Nat} {sa : Sess} (hsa : sv.sess? a = some sa)
    (cls : List Bytes) (cl : Bytes) (path : Bytes) (hpath : ∀ c r, path = c :: r → c ≠ cSlash)
    (hsp : pathClauses path = cls ++ [cl]) (d : Option Nat) {p : Node}
    (hp : getNode sv (sessNames sa ++ cls) = some p) (hkid : findKid cl p.kids = none)
    (hlen : (sessNames sa ++ cls).length < fuelDepth)
    (hu1 : Unamb (putChild sv a (sessNames sa ++ cls) (Node.fresh cl d) false) (sessNames sa ++ cls ++ [cl]))
    {sid : Nat} {s : Sess} (hs : sv.sess? sid = some s) (hen : s.subsEnabled = true) (m : Mirror) :
    Sync sid s sv (setDataNode sv a path d false) m
      (evsFor sid (changeEvents (putChild sv a (sessNames sa ++ cls) (Node.fresh cl d) false) a
        (sessNames sa ++ cls ++ [cl]) ((Node.fresh cl d).setSubs (marksForNewNode sv (sessNames sa ++ cls ++ [cl])))
        none false)) := by
  have heq : setDataNode sv a path d false =
      notifyChanged (putChild sv a (sessNames sa ++ cls) (Node.fresh cl d) false) a (sessNames sa ++ cls ++ [cl])
        ((Node.fresh cl d).setSubs (marksForNewNode sv (sessNames sa ++ cls ++ [cl]))) none false := by
    unfold setDataNode
    rw [hsa]
    simp only []
    cases path with
    | nil => exact absurd hsp (by simp [pathClauses, splitSlash, splitSlashAux])
    | cons c r =>
      simp only [hpath c r rfl, if_false]
      have hsp' : (splitSlash (c :: r)).filter (· ≠ []) = cls ++ [cl] := hsp
      rw [hsp']
      exact setDataClauses_create_last a d cl cls sv _ p hp hkid hlen
  rw [heq]
  rw [putChild_quiet] at hu1 ⊢
  have hcv : (sid ≠ a ∨ bySelfOf sv a = true) ↔ visible s (sessNames sa ++ cls ++ [cl]) = true := by
    rw [List.append_assoc]; exact caller_visible hsa hs _
  exact sync_create hk (sessNames sa ++ cls) (Node.fresh cl d) rfl hp hkid hlen hu1 hs hen a hcv m

end Muscle.Reflector
