import MuscleModel.Reflector.MirrorProofs10

/-!
# C04 lemmas, part 11: one notified node change on the server keeps a subscriber's mirror right

`Sync sid s sv sv' m evs`: session `sid` (record `s` in `sv`) receives through its pipe exactly the events `evs`
(`PipeStep`) and a mirror that was right for `sv` is right for `sv'` after applying them.
* `sync_overwrite`: `SetData` on an existing node followed by `NotifySubscribersThatNodeChanged` (old payload given);
* `sync_create`: `PutChild` of a leaf followed by the notification with a NULL old payload;
* `setDataNode_overwrite`: PR_COMMAND_SETDATA on a path whose node exists IS the first pattern, whence
  `sync_set_overwrite` for the whole command.
-/

set_option linter.unusedSimpArgs false
set_option linter.unusedVariables false

namespace Muscle.Reflector
open Muscle

/-! ## session names are injective in the id -/

theorem decOf_eq_decB (n : Nat) : decOf n = decB n := by
  unfold decOf decB
  rw [Nat.toString_eq_ofList_toDigits, asciiBytes]
  intro c hc
  have := digit_val (Nat.isDigit_of_mem_toDigits (by decide) (by decide) hc)
  have h2 : c.val.toNat ≤ 127 := by omega
  exact UInt32.le_iff_toNat_le.2 h2

theorem sidName_inj {a b : Nat} (h : sidName a = sidName b) : a = b := by
  unfold sidName at h
  rw [decOf_eq_decB, decOf_eq_decB] at h
  have := congrArg decValB h
  rwa [decValB_decB, decValB_decB] at this

/-! ## payload reads after the two tree changes -/

theorem mr_setField_data {f : Node → Node} (hname : ∀ n, (f n).name = n.name) (hkids : ∀ n, (f n).kids = n.kids)
    (sv : Server) (v w : List Bytes) (hw : w ≠ v) :
    (getNode (setNode sv v f) w).map Node.data = (getNode sv w).map Node.data := by
  by_cases hp : v <+: w
  · obtain ⟨ext, rfl⟩ := hp
    rw [mr_getNode_setNode_below hname, mr_getNode_append]
    cases getNode sv v with
    | none => rfl
    | some t =>
      simp only [Option.bind_some]
      cases ext with
      | nil => exact absurd (by simp) hw
      | cons b r' =>
        cases fuelDepth - v.length with
        | zero => simp [nodeAt_zero_cons]
        | succ k => rw [nodeAt_succ_cons, nodeAt_succ_cons, hkids]
  · exact mr_getNode_setNode_off Node.data (by intro _ _; rfl) hname sv v w hp

theorem oneChange_setField {f : Node → Node} (hname : ∀ n, (f n).name = n.name) (hkids : ∀ n, (f n).kids = n.kids)
    (sv : Server) (v : List Bytes) : OneChange sv (setNode sv v f) v :=
  fun w hw => mr_setField_data hname hkids sv v w hw

theorem mr_putKid_data (sv : Server) (parent : List Bytes) (child : Node) (hc : child.kids = []) {p : Node}
    (hp : getNode sv parent = some p) (hk : findKid child.name p.kids = none) (w : List Bytes)
    (hw : w ≠ parent ++ [child.name]) :
    (getNode (setNode sv parent (fun q => q.setKids (putKid child q.kids))) w).map Node.data =
      (getNode sv w).map Node.data := by
  by_cases hpre : parent <+: w
  · obtain ⟨ext, rfl⟩ := hpre
    rw [mr_getNode_setNode_below (by intro _; rfl), mr_getNode_append, hp]
    simp only [Option.bind_some]
    cases ext with
    | nil => simp [nodeAt_nil]
    | cons b r =>
      cases fuelDepth - parent.length with
      | zero => simp [nodeAt_zero_cons]
      | succ k =>
        rw [nodeAt_succ_cons, nodeAt_succ_cons, setKids_kids]
        by_cases hb : b = child.name
        · subst hb
          rw [findKid_putKid_same, hk]
          simp only []
          cases r with
          | nil => exact absurd rfl hw
          | cons b' r' =>
            cases k with
            | zero => simp [nodeAt_zero_cons]
            | succ k' => rw [nodeAt_succ_cons, hc]; rfl
        · rw [findKid_putKid_ne (fun e => hb e.symm)]
  · exact mr_getNode_setNode_off Node.data (by intro _ _; rfl) (by intro _; rfl) sv parent w hpre

theorem mr_putKid_at (sv : Server) (parent : List Bytes) (child : Node) {p : Node}
    (hp : getNode sv parent = some p) (hlen : parent.length < fuelDepth) :
    getNode (setNode sv parent (fun q => q.setKids (putKid child q.kids))) (parent ++ [child.name]) = some child := by
  rw [mr_getNode_setNode_below (by intro _; rfl), hp]
  simp only [Option.bind_some]
  obtain ⟨k, hk⟩ : ∃ k, fuelDepth - parent.length = k + 1 := ⟨fuelDepth - parent.length - 1, by omega⟩
  rw [hk, nodeAt_succ_cons, setKids_kids, findKid_putKid_same]
  simp [nodeAt_nil]

theorem mr_absent_of_findKid_none (sv : Server) (parent : List Bytes) (nm : Bytes) {p : Node}
    (hp : getNode sv parent = some p) (hk : findKid nm p.kids = none) : getNode sv (parent ++ [nm]) = none := by
  rw [mr_getNode_append, hp]
  simp only [Option.bind_some]
  cases fuelDepth - parent.length with
  | zero => simp [nodeAt_zero_cons]
  | succ k => rw [nodeAt_succ_cons, hk]

/-! ## `MirrorOK`, `Unamb` transfer along equal payload maps -/

theorem matches_congr {a b : Server} (h : ∀ w, (getNode b w).map Node.data = (getNode a w).map Node.data) (s : Sess)
    (p : Bytes) (d : Option Nat) : Matches b s p d ↔ Matches a s p d := by
  have key : ∀ (a b : Server), (∀ w, (getNode b w).map Node.data = (getNode a w).map Node.data) →
      Matches b s p d → Matches a s p d := by
    intro a b hab ⟨w, n, hw0, hn, hpw, hvis, hw, hd⟩
    have := hab w
    rw [hn] at this
    cases ha : getNode a w with
    | none => rw [ha] at this; simp at this
    | some n0 =>
      rw [ha] at this
      simp only [Option.map_some, Option.some.injEq] at this
      exact ⟨w, n0, hw0, ha, hpw, hvis, by rw [← this]; exact hw, by rw [← this]; exact hd⟩
  exact ⟨key a b h, key b a (fun w => (h w).symm)⟩

theorem mirrorOK_of_root {a b : Server} (h : b.root = a.root) {s : Sess} {m : Mirror} (hm : MirrorOK a s m) :
    MirrorOK b s m := by
  intro p d
  rw [matches_congr (a := a) (b := b) (fun w => by rw [getNode_congr h]) s p d]
  exact hm p d

theorem isSome_of_map_eq {a b : Option Node} (h : a.map Node.data = b.map Node.data) : a.isSome = b.isSome := by
  cases a <;> cases b <;> simp_all

/-! ## `Sync` -/

def Sync (sid : Nat) (s : Sess) (sv sv' : Server) (m : Mirror) (evs : List Ev) : Prop :=
  PipeStep sid sv sv' evs ∧ (MirrorOK sv s m → MirrorOK sv' s (evs.foldl applyEv m))

theorem pipeStep_sessions {sid : Nat} {sv sv' : Server} (h : sv'.sessions = sv.sessions) : PipeStep sid sv sv' [] := by
  intro s hs
  refine ⟨s, [], ?_, rfl, by simp, fun m => rfl⟩
  unfold Server.sess? at hs ⊢
  rw [h]; exact hs

/-- does session `s` (id `sid`) hold a mark on a node with this table -/
theorem any_entry_iff {sv : Server} (h : MK sv) {v : List Bytes} {n : Node} (hv : v ≠ []) (hn : getNode sv v = some n)
    {sid : Nat} {s : Sess} (hs : sv.sess? sid = some s) :
    n.subs.any (fun p => p.1 = sid) = decide (0 < pmMatchCount s.subs v) := by
  obtain ⟨h1, h2⟩ := h.2 v n hv hn
  have hc : subCount n.subs sid = pmMatchCount s.subs v := by
    rw [h1, mr_expCount_self (mr_sessKeys_find hs)]
  rw [← hc]
  cases ha : n.subs.any (fun p => p.1 = sid) with
  | false =>
    have : subCount n.subs sid = 0 := by
      apply mr_subCount_not_any
      rw [← ha]
    simp [this]
  | true =>
    rw [List.any_eq_true] at ha
    obtain ⟨⟨k, c⟩, hm, hk⟩ := ha
    simp only [decide_eq_true_eq] at hk
    subst hk
    have hpos := h2.2 (k, c) hm
    have : subCount n.subs k = c := by
      unfold subCount
      have hnd := h2.1
      generalize n.subs = l at hm hnd
      induction l with
      | nil => cases hm
      | cons a r ih =>
        obtain ⟨k', c'⟩ := a
        simp only [List.map_cons, List.nodup_cons] at hnd
        rcases List.mem_cons.1 hm with heq | hm'
        · cases heq; simp
        · have hne : k' ≠ k := fun e => hnd.1 (e ▸ List.mem_map_of_mem (f := (·.1)) hm')
          simp only [List.find?_cons, hne, decide_false]
          exact ih hm' hnd.2
    rw [this]
    simp [hpos]

/-- the events `NotifySubscribersThatNodeChanged` holds for `sid`, decided -/
theorem evsFor_notify {sv : Server} (h : MK sv) {v : List Bytes} {n : Node} (hv : v ≠ []) (hn : getNode sv v = some n)
    {sid : Nat} {s : Sess} (hs : sv.sess? sid = some s) (by_ : Nat) (od : Option (Option Nat)) (removed : Bool) :
    evsFor sid (changeEvents sv by_ v n od removed) =
      if 0 < pmMatchCount s.subs v ∧ (sid ≠ by_ ∨ bySelfOf sv by_ = true) then
        (changeEv s v n.data od removed).toList else [] := by
  rw [evsFor_changeEvents sv by_ v n od removed sid (h.2 v n hv hn).2.1, any_entry_iff h hv hn hs]
  have : sessEv sv sid v n.data od removed = changeEv s v n.data od removed := by
    unfold sessEv; rw [hs]; rfl
  rw [this]
  by_cases h1 : 0 < pmMatchCount s.subs v <;> by_cases h2 : sid = by_ <;> cases h3 : bySelfOf sv by_ <;> simp [h1, h2, h3]

/-- the shape shared by the notified changes: the tree changes at `v` only (from `sv` to `sv1`), then the subscribers
    of the node `n1` now at `v` (`x1` = its payload, `none` after a removal… here always the node exists) are notified -/
theorem sync_notify {sv sv1 : Server} (hk : MK sv1) (hsess : sv1.sessions = sv.sessions) {v : List Bytes} (hv : v ≠ [])
    (hc : OneChange sv sv1 v) (hu : Unamb sv v) (hu1 : Unamb sv1 v) {n1 : Node} (hn1 : getNode sv1 v = some n1)
    {sid : Nat} {s : Sess} (hs : sv.sess? sid = some s) (hen : s.subsEnabled = true) (by_ : Nat)
    (hcaller : (sid ≠ by_ ∨ bySelfOf sv1 by_ = true) ↔ visible s v = true)
    (od : Option (Option Nat)) (m : Mirror)
    (hat : visible s v = true → 0 < pmMatchCount s.subs v →
      m (pathString v) = expected s v ((getNode sv v).map Node.data) →
      (applyOpt m (changeEv s v n1.data od false)) (pathString v) = expected s v (some n1.data)) :
    Sync sid s sv (notifyChanged sv1 by_ v n1 od false) m (evsFor sid (changeEvents sv1 by_ v n1 od false)) := by
  have hs1 : sv1.sess? sid = some s := by
    unfold Server.sess? at hs ⊢; rw [hsess]; exact hs
  refine ⟨?_, fun hm => ?_⟩
  · have := (pipeStep_sessions (sid := sid) hsess).trans (pipeStep_notifyChanged sid sv1 by_ v n1 od false)
    simpa using this
  · apply mirrorOK_of_root (a := sv1) (by simp)
    rw [evsFor_notify hk hv hn1 hs1]
    split
    · rename_i hcond
      rw [applyOpt_toList]
      have hvis := hcaller.1 hcond.2
      apply mirror_step hv hc hu hu1 _ _ (fun q hq => changeEv_other s v _ _ _ m q hq) hm
      intro hmv
      rw [hn1]
      exact hat hvis hcond.1 hmv
    · rename_i hcond
      simp only [List.foldl_nil]
      apply mirror_step_silent hv hc hu hu1 _ hm
      by_cases hpos : 0 < pmMatchCount s.subs v
      · have hvis : visible s v = false := by
          cases hvv : visible s v with
          | false => rfl
          | true => exact absurd ⟨hpos, hcaller.2 hvv⟩ hcond
        rw [expected_invisible hvis, expected_invisible hvis]
      · have h0 : pmMatchCount s.subs v = 0 := by omega
        rw [expected_nomatch h0, expected_nomatch h0]

/-- overwrite: `SetData(d)` on the existing node `n0` at `v`, then the notification with the old payload -/
theorem sync_overwrite {sv : Server} (hk : MK sv) {v : List Bytes} (hv : v ≠ []) {n0 : Node}
    (hn0 : getNode sv v = some n0) (d : Option Nat) (hu : Unamb sv v)
    {sid : Nat} {s : Sess} (hs : sv.sess? sid = some s) (hen : s.subsEnabled = true) (by_ : Nat)
    (hcaller : (sid ≠ by_ ∨ bySelfOf sv by_ = true) ↔ visible s v = true) (m : Mirror) :
    Sync sid s sv
      (notifyChanged (setNode sv v (fun n => n.setData d)) by_ v (n0.setData d) (some n0.data) false) m
      (evsFor sid (changeEvents (setNode sv v (fun n => n.setData d)) by_ v (n0.setData d) (some n0.data) false)) := by
  have hk1 : MK (setNode sv v (fun n => n.setData d)) := hk.setField v _ (fun _ => rfl) (fun _ => rfl) (fun _ => rfl)
  have hn1 : getNode (setNode sv v (fun n => n.setData d)) v = some (n0.setData d) := by
    rw [getNode_setNode (by intro _; rfl), hn0]; rfl
  have hc := oneChange_setField (f := fun n => n.setData d) (fun _ => rfl) (fun _ => rfl) sv v
  have hu1 : Unamb (setNode sv v (fun n => n.setData d)) v := by
    intro w hw hsome
    by_cases hwv : w = v
    · exact hwv
    · apply hu w hw
      rw [← isSome_of_map_eq (hc w hwv)]; exact hsome
  apply sync_notify (sv := sv) hk1 rfl hv hc hu hu1 hn1 hs hen by_ hcaller (some n0.data) m
  intro hvis hpos hmv
  rw [hn0] at hmv
  exact expected_overwrite hen hvis hpos m n0.data d hmv

/-- creation of a leaf: `PutChild` (absent name, visible depth), then the notification with a NULL old payload -/
theorem sync_create {sv : Server} (hk : MK sv) (parent : List Bytes) (child : Node) (hleaf : child.kids = [])
    {p : Node} (hp : getNode sv parent = some p) (hkid : findKid child.name p.kids = none)
    (hlen : parent.length < fuelDepth)
    (hu1 : Unamb (setNode sv parent (fun q => q.setKids (putKid (child.setSubs (marksForNewNode sv (parent ++ [child.name])))
      q.kids))) (parent ++ [child.name]))
    {sid : Nat} {s : Sess} (hs : sv.sess? sid = some s) (hen : s.subsEnabled = true) (by_ : Nat)
    (hcaller : (sid ≠ by_ ∨ bySelfOf sv by_ = true) ↔ visible s (parent ++ [child.name]) = true) (m : Mirror) :
    Sync sid s sv
      (notifyChanged (setNode sv parent (fun q => q.setKids (putKid
        (child.setSubs (marksForNewNode sv (parent ++ [child.name]))) q.kids))) by_ (parent ++ [child.name])
        (child.setSubs (marksForNewNode sv (parent ++ [child.name]))) none false) m
      (evsFor sid (changeEvents (setNode sv parent (fun q => q.setKids (putKid
        (child.setSubs (marksForNewNode sv (parent ++ [child.name]))) q.kids))) by_ (parent ++ [child.name])
        (child.setSubs (marksForNewNode sv (parent ++ [child.name]))) none false)) := by
  generalize hch : child.setSubs (marksForNewNode sv (parent ++ [child.name])) = ch at hu1 ⊢
  have hchn : ch.name = child.name := by rw [← hch]; rfl
  have hchk : ch.kids = [] := by rw [← hch]; exact hleaf
  have hkid' : findKid ch.name p.kids = none := by rw [hchn]; exact hkid
  have hk1 : MK (setNode sv parent (fun q => q.setKids (putKid ch q.kids))) := by
    have := hk.putChild by_ parent child false hleaf
    unfold putChild at this
    simp only [Bool.false_eq_true, if_false] at this
    rw [hch] at this
    exact this
  have hv : parent ++ [child.name] ≠ [] := by simp
  have hn1 : getNode (setNode sv parent (fun q => q.setKids (putKid ch q.kids))) (parent ++ [child.name]) = some ch := by
    rw [← hchn]; exact mr_putKid_at sv parent ch hp hlen
  have hc : OneChange sv (setNode sv parent (fun q => q.setKids (putKid ch q.kids))) (parent ++ [child.name]) := by
    intro w hw
    rw [← hchn] at hw
    exact mr_putKid_data sv parent ch hchk hp hkid' w hw
  have habs : getNode sv (parent ++ [child.name]) = none := mr_absent_of_findKid_none sv parent child.name hp hkid
  have hu : Unamb sv (parent ++ [child.name]) := by
    intro w hw hsome
    by_cases hwv : w = parent ++ [child.name]
    · exact hwv
    · apply hu1 w hw
      rw [isSome_of_map_eq (hc w hwv)]; exact hsome
  apply sync_notify (sv := sv) hk1 rfl hv hc hu hu1 hn1 hs hen by_ hcaller none m
  intro hvis hpos hmv
  rw [habs] at hmv
  exact expected_create hen hvis hpos m ch.data hmv

/-! ## PR_COMMAND_SETDATA on an existing node -/

theorem setDataClauses_existing (by_ : Nat) (d : Option Nat) :
    ∀ (cls : List Bytes) (sv : Server) (cur : List Bytes) (n0 : Node), cls ≠ [] → getNode sv (cur ++ cls) = some n0 →
      setDataClauses by_ d false sv cur cls =
        notifyChanged (setNode sv (cur ++ cls) (fun n => n.setData d)) by_ (cur ++ cls) (n0.setData d)
          (some n0.data) false := by
  intro cls
  induction cls with
  | nil => intro sv cur n0 h; exact absurd rfl h
  | cons cl rest ih =>
    intro sv cur n0 _ hn
    have hsplit : cur ++ cl :: rest = (cur ++ [cl]) ++ rest := by simp
    have hcl : ∃ c, getNode sv (cur ++ [cl]) = some c := by
      rw [hsplit, mr_getNode_append] at hn
      cases hc : getNode sv (cur ++ [cl]) with
      | none => rw [hc] at hn; cases hn
      | some c => exact ⟨c, rfl⟩
    obtain ⟨c, hc⟩ := hcl
    obtain ⟨p, hp, hk⟩ := getNode_snoc hc
    cases rest with
    | nil =>
      have hcn : c = n0 := by
        rw [hc] at hn; exact Option.some.inj hn
      subst hcn
      have hg : getNode (setNode sv (cur ++ [cl]) (fun n => n.setData d)) (cur ++ [cl]) = some (c.setData d) := by
        rw [getNode_setNode (by intro _; rfl), hc]; rfl
      simp [setDataClauses, hp, hk, hg]
    | cons r1 rs =>
      have hne : (r1 :: rs).isEmpty = false := rfl
      have := ih sv (cur ++ [cl]) n0 (by simp) (by rw [← hsplit]; exact hn)
      rw [setDataClauses]
      simp only [hp, hk, hne, Bool.false_and, Bool.false_eq_true, if_false]
      rw [this, hsplit]

/-- the clauses PR_COMMAND_SETDATA walks: the `/`-split of the path without its empty clauses (`a//b` means `a/b`) -/
def pathClauses (path : Bytes) : List Bytes := (splitSlash path).filter (· ≠ [])

/-- PR_COMMAND_SETDATA (no flags) on a path whose node exists is `SetData` + notification with the old payload -/
theorem setDataNode_overwrite {sv : Server} {a : Nat} {sa : Sess} (hsa : sv.sess? a = some sa) (path : Bytes)
    (hpath : ∀ c r, path = c :: r → c ≠ cSlash) (hne : pathClauses path ≠ []) (d : Option Nat) {n0 : Node}
    (hn : getNode sv (sessNames sa ++ pathClauses path) = some n0) :
    setDataNode sv a path d false =
      notifyChanged (setNode sv (sessNames sa ++ pathClauses path) (fun n => n.setData d)) a
        (sessNames sa ++ pathClauses path) (n0.setData d) (some n0.data) false := by
  unfold setDataNode
  rw [hsa]
  simp only []
  cases path with
  | nil => exact absurd (by decide) hne
  | cons c r =>
    simp only [hpath c r rfl, if_false]
    exact setDataClauses_existing a d _ sv _ n0 hne hn

/-- the caller test agrees with `visible` for a node in the caller's own subtree -/
theorem caller_visible {sv : Server} {a sid : Nat} {sa s : Sess} (hsa : sv.sess? a = some sa)
    (hs : sv.sess? sid = some s) (w : List Bytes) :
    (sid ≠ a ∨ bySelfOf sv a = true) ↔ visible s (sessNames sa ++ w) = true := by
  have hsaid : sa.sid = a := by simpa using List.find?_some hsa
  have hsid : s.sid = sid := by simpa using List.find?_some hs
  have hown : ownerName (sessNames sa ++ w) = some (sidName a) := by
    simp [ownerName, sessNames, hsaid]
  unfold visible
  rw [hown]
  by_cases he : sid = a
  · subst he
    have : s = sa := by rw [hs] at hsa; exact Option.some.inj hsa
    subst this
    simp [bySelfOf, hs, hsid]
  · have : sidName a ≠ sidName s.sid := by
      intro e; rw [hsid] at e; exact he (sidName_inj e).symm
    simp [he, this]

/-- WHOLE COMMAND, overwrite.  Session `a` sets an existing node of its own subtree to `d`: every attached session `sid`
    with subscriptions enabled receives through its pipe exactly the events `evs` below, and a mirror that was right
    before is right afterwards. -/
theorem sync_set_overwrite {sv : Server} (hk : MK sv) {a : Nat} {sa : Sess} (hsa : sv.sess? a = some sa) (path : Bytes)
    (hpath : ∀ c r, path = c :: r → c ≠ cSlash) (hne : pathClauses path ≠ []) (d : Option Nat) {n0 : Node}
    (hn : getNode sv (sessNames sa ++ pathClauses path) = some n0)
    (hu : Unamb sv (sessNames sa ++ pathClauses path))
    {sid : Nat} {s : Sess} (hs : sv.sess? sid = some s) (hen : s.subsEnabled = true) (m : Mirror) :
    Sync sid s sv (setDataNode sv a path d false) m
      (evsFor sid (changeEvents (setNode sv (sessNames sa ++ pathClauses path) (fun n => n.setData d)) a
        (sessNames sa ++ pathClauses path) (n0.setData d) (some n0.data) false)) := by
  rw [setDataNode_overwrite hsa path hpath hne d hn]
  exact sync_overwrite hk (by simp [sessNames]) hn d hu hs hen a (caller_visible hsa hs _) m

end Muscle.Reflector
