import MuscleModel.Reflector.IndexProofsRemove

/-!
# C13: one operation on a parent node — replay of its log, the invariant — and sequences of operations
-/

set_option linter.unusedSimpArgs false
set_option linter.unusedVariables false

namespace Muscle.Reflector
open Muscle

/-! ## the parent node after each operation, and replay of what the operation emitted -/

/-- the parent's index after the operation, from the parent node before (and whether the named child exists) -/
def IdxOp.nextIndex (parent : List Bytes) (sv : Server) (p : Node) : IdxOp → List Bytes
  | .insert _ _ before name _ => insertIndexAfter p before name
  | .reorder child before => reorderIndex p child before
  | .removeEntry key => eraseLast p.index key
  | .removeOne _ key | .removeChild _ key =>
    if (getNode sv (parent ++ [key])).isSome then eraseLast p.index key else p.index
  | .put _ _ _ => p.index

theorem IdxOp.getNode_run {sv : Server} {parent : List Bytes} {p : Node} (op : IdxOp)
    (h : getNode sv parent = some p) :
    ∃ p', getNode (op.run parent sv) parent = some p' ∧ p'.index = op.nextIndex parent sv p := by
  cases op with
  | insert by_ d before name nc =>
    exact ⟨_, getNode_insertOrderedChild by_ d before name nc h, by simp [IdxOp.nextIndex, insertOrderedResult_index]⟩
  | reorder child before =>
    exact ⟨_, getNode_reorderChild child before h, by simp [IdxOp.nextIndex]⟩
  | removeEntry key =>
    exact ⟨_, getNode_removeIndexEntry key true h, by simp [IdxOp.nextIndex]⟩
  | removeOne by_ key =>
    simp only [IdxOp.run, IdxOp.nextIndex]
    cases hc : getNode sv (parent ++ [key]) with
    | none => rw [removeOne_absent by_ true hc]; exact ⟨p, h, by simp⟩
    | some c => exact ⟨_, getNode_removeOne by_ true h hc, by simp⟩
  | removeChild by_ key =>
    simp only [IdxOp.run, IdxOp.nextIndex]
    cases hc : getNode sv (parent ++ [key]) with
    | none => rw [removeChild_absent by_ true hc]; exact ⟨p, h, by simp⟩
    | some c =>
      obtain ⟨p', _, _, hp'⟩ := getNode_removeChild by_ true h hc
      exact ⟨_, hp', by simp⟩
  | put by_ child notify =>
    exact ⟨_, getNode_putChild by_ child notify h, by simp [IdxOp.nextIndex]⟩

theorem IdxOp.applyAll_log {sv : Server} {parent : List Bytes} {p : Node} (op : IdxOp)
    (h : getNode sv parent = some p) :
    applyAll p.index (op.log parent sv) = some (op.nextIndex parent sv p) := by
  cases op with
  | insert by_ d before name nc =>
    simp only [IdxOp.log, IdxOp.nextIndex, h, insertIndexAfter]
    split <;> simp [applyAll, apply_ins_insertPos]
  | reorder child before => simp [IdxOp.log, IdxOp.nextIndex, h, applyAll_reorderLog]
  | removeEntry key => simp [IdxOp.log, IdxOp.nextIndex, h, applyAll_remLog]
  | removeOne by_ key =>
    simp only [IdxOp.log, IdxOp.nextIndex, h]
    cases hc : getNode sv (parent ++ [key]) <;> simp [applyAll, applyAll_remLog]
  | removeChild by_ key =>
    simp only [IdxOp.log, IdxOp.nextIndex, h]
    cases hc : getNode sv (parent ++ [key]) <;> simp [applyAll, applyAll_remLog]
  | put by_ child notify => simp [IdxOp.log, IdxOp.nextIndex, applyAll]

/-- one operation: the client that applies what the operation emitted holds the parent's new index -/
theorem IdxOp.step_replay {sv : Server} {parent : List Bytes} {p : Node} (op : IdxOp)
    (h : getNode sv parent = some p) :
    ∃ p', getNode (op.run parent sv) parent = some p' ∧
      replayAll p.index ((op.log parent sv).map Instr.render) = some p'.index := by
  obtain ⟨p', hp', hi⟩ := op.getNode_run h
  exact ⟨p', hp', by rw [replayAll_render, op.applyAll_log h, hi]⟩

/-- sequences of operations -/
theorem runOps_replay {parent : List Bytes} (ops : List IdxOp) {sv : Server} {p : Node}
    (h : getNode sv parent = some p) :
    ∃ p', getNode (runOps parent sv ops).1 parent = some p' ∧
      replayAll p.index (runOps parent sv ops).2 = some p'.index := by
  induction ops generalizing sv p with
  | nil => exact ⟨p, h, rfl⟩
  | cons op r ih =>
    obtain ⟨p1, hp1, hr1⟩ := op.step_replay h
    obtain ⟨p2, hp2, hr2⟩ := ih hp1
    refine ⟨p2, by simpa [runOps] using hp2, ?_⟩
    simp only [runOps]
    rw [replayAll_append, hr1]
    exact hr2

/-! ## the invariant, per operation -/

theorem idxInv_insert {p p' : Node} {i : Nat} {nm : Bytes} (h : IdxInv p)
    (hok : findKid nm p.kids = none ∨ nm ∉ p.index)
    (hi : p'.index = insertAt p.index i nm) (hk : ∃ c, c.name = nm ∧ p'.kids = putKid c p.kids) : IdxInv p' := by
  obtain ⟨c, hcn, hk⟩ := hk
  have hnm : nm ∉ p.index := by
    rcases hok with hok | hok
    · intro hc
      have := h.2 nm hc
      rw [hok] at this; simp at this
    · exact hok
  refine ⟨by rw [hi]; exact nodup_insertAt i h.1 hnm, ?_⟩
  intro x hx
  rw [hi, mem_insertAt] at hx
  rw [hk]
  rcases hx with hx | hx
  · subst hx; rw [← hcn, ix_findKid_putKid_same]; rfl
  · exact findKid_putKid_isSome c (h.2 x hx)

/-- the child is put, the index is left alone -/
theorem idxInv_put {p p' : Node} (h : IdxInv p) (hi : p'.index = p.index) (hk : ∃ c, p'.kids = putKid c p.kids) :
    IdxInv p' := by
  obtain ⟨c, hk⟩ := hk
  refine ⟨by rw [hi]; exact h.1, ?_⟩
  intro x hx
  rw [hi] at hx
  rw [hk]
  exact findKid_putKid_isSome c (h.2 x hx)

theorem idxInv_insertResult {sv : Server} {parent : List Bytes} {p : Node} {d : Option Nat} {before name : Bytes}
    (h : IdxInv p)
    (hok : before = removeFromIndexName ∨ findKid (ordPair p name).1 p.kids = none ∨ (ordPair p name).1 ∉ p.index) :
    IdxInv (insertOrderedResult sv parent p d before name) := by
  obtain ⟨c, hc1, _, _, hc2⟩ := insertOrderedResult_kids sv parent p d before name
  have hi := insertOrderedResult_index sv parent p d before name
  unfold insertIndexAfter at hi
  by_cases hb : before = removeFromIndexName
  · rw [if_pos hb] at hi
    exact idxInv_put h hi ⟨c, hc2⟩
  · rw [if_neg hb] at hi
    rcases hok with hok | hok
    · exact absurd hok hb
    · exact idxInv_insert h hok hi ⟨c, hc1, hc2⟩

theorem idxInv_eraseLast {p p' : Node} (key : Bytes) (h : IdxInv p) (hi : p'.index = eraseLast p.index key)
    (hk : ∀ c, c ≠ key → (findKid c p'.kids).isSome = (findKid c p.kids).isSome) : IdxInv p' := by
  refine ⟨by rw [hi]; exact nodup_eraseLast key h.1, ?_⟩
  intro x hx
  rw [hi] at hx
  have hne : x ≠ key := by
    intro he; subst he; exact not_mem_eraseLast x h.1 hx
  rw [hk x hne]
  exact h.2 x (mem_of_mem_eraseLast hx)

theorem idxInv_reorder {p : Node} {child before : Bytes} (h : IdxInv p)
    (hok : before = removeFromIndexName ∨ (findKid child p.kids).isSome) :
    IdxInv (p.setIndex (reorderIndex p child before)) := by
  unfold reorderIndex
  by_cases hb : before = child
  · rw [if_pos hb, Node.setIndex_self]; exact h
  · rw [if_neg hb]
    split
    · rw [Node.setIndex_self]; exact h
    · by_cases hr : before = removeFromIndexName
      · rw [if_pos hr]
        exact idxInv_eraseLast child h (by simp) (by intro c _; simp)
      · rw [if_neg hr]
        have hk : (findKid child p.kids).isSome := by
          rcases hok with hok | hok
          · exact absurd hok hr
          · exact hok
        refine ⟨by simpa using nodup_insertAt _ (nodup_eraseLast child h.1) (not_mem_eraseLast child h.1), ?_⟩
        intro x hx
        simp only [Node.setIndex_index, mem_insertAt] at hx
        simp only [Node.setIndex_kids]
        rcases hx with hx | hx
        · subst hx; exact hk
        · exact h.2 x (mem_of_mem_eraseLast hx)

theorem idxInv_removeKid {p : Node} (key : Bytes) (h : IdxInv p) :
    IdxInv ((p.setIndex (eraseLast p.index key)).setKids (removeKid key p.kids)) :=
  idxInv_eraseLast key h (by simp) (by intro c hc; simp [ix_findKid_removeKid_ne _ hc])

theorem idxInv_removeKid_same {p p' : Node} (key : Bytes) (h : IdxInv p) (hs : Same p p') :
    IdxInv ((p'.setIndex (eraseLast p.index key)).setKids (removeKid key p'.kids)) :=
  idxInv_eraseLast key h (by simp) (by intro c hc; simp [ix_findKid_removeKid_ne _ hc, hs.2])

/-- one operation keeps the invariant of the parent node -/
theorem IdxOp.step_inv {sv : Server} {parent : List Bytes} {p : Node} (op : IdxOp)
    (h : getNode sv parent = some p) (hinv : IdxInv p) (hok : op.ok p) :
    ∃ p', getNode (op.run parent sv) parent = some p' ∧ IdxInv p' := by
  cases op with
  | insert by_ d before name nc =>
    refine ⟨_, getNode_insertOrderedChild by_ d before name nc h, ?_⟩
    exact idxInv_insertResult hinv hok
  | reorder child before =>
    exact ⟨_, getNode_reorderChild child before h, idxInv_reorder hinv hok⟩
  | removeEntry key =>
    exact ⟨_, getNode_removeIndexEntry key true h, idxInv_eraseLast key hinv (by simp) (by intro c _; simp)⟩
  | removeOne by_ key =>
    simp only [IdxOp.run]
    cases hc : getNode sv (parent ++ [key]) with
    | none => rw [removeOne_absent by_ true hc]; exact ⟨p, h, hinv⟩
    | some c => exact ⟨_, getNode_removeOne by_ true h hc, idxInv_removeKid key hinv⟩
  | removeChild by_ key =>
    simp only [IdxOp.run]
    cases hc : getNode sv (parent ++ [key]) with
    | none => rw [removeChild_absent by_ true hc]; exact ⟨p, h, hinv⟩
    | some c =>
      obtain ⟨p', hs, _, hp'⟩ := getNode_removeChild by_ true h hc
      exact ⟨_, hp', idxInv_removeKid_same key hinv hs⟩
  | put by_ child notify =>
    exact ⟨_, getNode_putChild by_ child notify h, IdxInv.putKid _ hinv⟩

/-- the preconditions along a run -/
def OpsOk (parent : List Bytes) : Server → List IdxOp → Prop
  | _, [] => True
  | sv, op :: r => (∀ p, getNode sv parent = some p → op.ok p) ∧ OpsOk parent (op.run parent sv) r

theorem runOps_inv {parent : List Bytes} (ops : List IdxOp) {sv : Server} {p : Node}
    (h : getNode sv parent = some p) (hinv : IdxInv p) (hok : OpsOk parent sv ops) :
    ∃ p', getNode (runOps parent sv ops).1 parent = some p' ∧ IdxInv p' := by
  induction ops generalizing sv p with
  | nil => exact ⟨p, h, hinv⟩
  | cons op r ih =>
    obtain ⟨p1, hp1, hi1⟩ := op.step_inv h hinv (hok.1 p h)
    obtain ⟨p2, hp2, hi2⟩ := ih hp1 hi1 hok.2
    exact ⟨p2, by simpa [runOps] using hp2, hi2⟩


/-! ## structured log of a run, ranges -/

/-- the instructions of a run, before rendering -/
def opsLog (parent : List Bytes) : Server → List IdxOp → List Instr
  | _, [] => []
  | sv, op :: r => op.log parent sv ++ opsLog parent (op.run parent sv) r

theorem runOps_log (parent : List Bytes) (sv : Server) (ops : List IdxOp) :
    (runOps parent sv ops).2 = (opsLog parent sv ops).map Instr.render := by
  induction ops generalizing sv with
  | nil => rfl
  | cons op r ih => simp [runOps, opsLog, ih]

theorem opsLog_inRange {parent : List Bytes} (ops : List IdxOp) {sv : Server} {p : Node}
    (h : getNode sv parent = some p) : InRange p.index (opsLog parent sv ops) := by
  obtain ⟨p', _, hr⟩ := runOps_replay ops h
  rw [runOps_log, replayAll_render] at hr
  exact inRange_of_applyAll hr

/-! ## removal drops the entry -/

theorem removeOne_drops {sv : Server} {parent : List Bytes} {p c : Node} {key : Bytes} (by_ : Nat) (notify : Bool)
    (h : getNode sv parent = some p) (hc : getNode sv (parent ++ [key]) = some c) (hn : p.index.Nodup) :
    ∃ p', getNode (removeOne sv by_ notify (parent ++ [key])) parent = some p' ∧
      key ∉ p'.index ∧ findKid key p'.kids = findKid key (removeKid key p.kids) := by
  refine ⟨_, getNode_removeOne by_ notify h hc, ?_, by simp⟩
  simpa using not_mem_eraseLast key hn

theorem removeChild_drops {sv : Server} {parent : List Bytes} {p c : Node} {key : Bytes} (by_ : Nat) (notify : Bool)
    (h : getNode sv parent = some p) (hc : getNode sv (parent ++ [key]) = some c) (hn : p.index.Nodup) :
    ∃ p', getNode (removeChild sv by_ notify (parent ++ [key])) parent = some p' ∧ key ∉ p'.index := by
  obtain ⟨p', _, _, hp'⟩ := getNode_removeChild by_ notify h hc
  refine ⟨_, hp', ?_⟩
  simpa using not_mem_eraseLast key hn

end Muscle.Reflector
