import MuscleModel.Reflector.IndexProofsSrv

/-!
# C13: each index-changing model function, on the parent node

For every function: the equation that exposes the instruction handed to `notifyIndex` (`…_emits`), and the
parent node afterwards (`getNode_…`).
-/

set_option linter.unusedSimpArgs false
set_option linter.unusedVariables false

namespace Muscle.Reflector
open Muscle

theorem Node.setIndex_self (n : Node) : n.setIndex n.index = n := by cases n; rfl
@[simp] theorem Node.setIndex_setIndex (n : Node) (a b : List Bytes) : (n.setIndex a).setIndex b = n.setIndex b := by
  cases n; rfl

theorem setIndex_name_pres (g : Node → List Bytes) : ∀ n : Node, (n.setIndex (g n)).name = n.name := by
  intro n; simp
theorem setKids_name_pres (g : Node → List Node) : ∀ n : Node, (n.setKids (g n)).name = n.name := by
  intro n; simp
theorem setCtr_name_pres (c : Nat) : ∀ n : Node, (n.setCtr c).name = n.name := by
  intro n; simp

/-! ## `removeIndexEntry` -/

theorem removeIndexEntry_none {sv : Server} {parent : List Bytes} {p : Node} {key : Bytes} (notify : Bool)
    (h : getNode sv parent = some p) (hi : lastIndexOf p.index key = none) :
    removeIndexEntry sv parent key notify = sv := by
  simp [removeIndexEntry, h, hi]

theorem getNode_setIndex {sv : Server} {parent : List Bytes} {p : Node} (g : Node → List Bytes)
    (h : getNode sv parent = some p) :
    getNode (setNode sv parent (fun q => q.setIndex (g q))) parent = some (p.setIndex (g p)) := by
  rw [getNode_setNode (setIndex_name_pres g), h]; rfl

/-- the equation exposing what `RemoveIndexEntry(key, notify := true)` hands to `notifyIndex` -/
theorem removeIndexEntry_emits {sv : Server} {parent : List Bytes} {p : Node} {key : Bytes} {i : Nat}
    (h : getNode sv parent = some p) (hi : lastIndexOf p.index key = some i) :
    removeIndexEntry sv parent key true =
      notifyIndex (setNode sv parent (fun q => q.setIndex (q.index.eraseIdx i))) parent
        (p.setIndex (p.index.eraseIdx i)) (instrOf 'r' i key) := by
  have := getNode_setIndex (fun q => q.index.eraseIdx i) h
  simp only [removeIndexEntry, h, hi, this, if_true]

theorem removeIndexEntry_quiet {sv : Server} {parent : List Bytes} {p : Node} {key : Bytes} {i : Nat}
    (h : getNode sv parent = some p) (hi : lastIndexOf p.index key = some i) :
    removeIndexEntry sv parent key false = setNode sv parent (fun q => q.setIndex (q.index.eraseIdx i)) := by
  simp [removeIndexEntry, h, hi]

theorem getNode_removeIndexEntry {sv : Server} {parent : List Bytes} {p : Node} (key : Bytes) (notify : Bool)
    (h : getNode sv parent = some p) :
    getNode (removeIndexEntry sv parent key notify) parent = some (p.setIndex (eraseLast p.index key)) := by
  unfold eraseLast
  cases hi : lastIndexOf p.index key with
  | none => simp only [removeIndexEntry_none notify h hi, h, Node.setIndex_self]
  | some i =>
    cases notify with
    | true =>
      rw [removeIndexEntry_emits h hi, getNode_notifyIndex]
      exact getNode_setIndex (fun q => q.index.eraseIdx i) h
    | false =>
      rw [removeIndexEntry_quiet h hi]
      exact getNode_setIndex (fun q => q.index.eraseIdx i) h


/-! ## `putChild` -/

/-- the child as stored: with the subscriber table every session's `NodeCreated` gives it -/
def storedChild (sv : Server) (parent : List Bytes) (child : Node) : Node :=
  child.setSubs (marksForNewNode sv (parent ++ [child.name]))

@[simp] theorem storedChild_name (sv : Server) (parent : List Bytes) (child : Node) :
    (storedChild sv parent child).name = child.name := by simp [storedChild]
@[simp] theorem storedChild_index (sv : Server) (parent : List Bytes) (child : Node) :
    (storedChild sv parent child).index = child.index := by simp [storedChild]
@[simp] theorem storedChild_kids (sv : Server) (parent : List Bytes) (child : Node) :
    (storedChild sv parent child).kids = child.kids := by simp [storedChild]

theorem putChild_root (sv : Server) (by_ : Nat) (parent : List Bytes) (child : Node) (notify : Bool) :
    (putChild sv by_ parent child notify).root =
      (setNode sv parent (fun p => p.setKids (putKid (storedChild sv parent child) p.kids))).root := by
  unfold putChild storedChild
  simp only
  split <;> simp

theorem getNode_putChild {sv : Server} {parent : List Bytes} {p : Node} (by_ : Nat) (child : Node) (notify : Bool)
    (h : getNode sv parent = some p) :
    getNode (putChild sv by_ parent child notify) parent =
      some (p.setKids (putKid (storedChild sv parent child) p.kids)) := by
  rw [getNode_congr (putChild_root sv by_ parent child notify),
    getNode_setNode (setKids_name_pres _), h]; rfl

/-! ## `insertOrderedChild` -/

/-- the state of `InsertOrderedChild` after the child has been put: counter advanced, child stored -/
def insertOrderedPut (sv : Server) (by_ : Nat) (parent : List Bytes) (d : Option Nat) (nm : Bytes) (ctr' : Nat)
    (nc : Bool) : Server :=
  putChild (setNode sv parent (fun p => p.setCtr ctr')) by_ parent (Node.fresh nm d) nc

/-- the parent node at that point -/
def insertOrderedPutNode (sv : Server) (parent : List Bytes) (p : Node) (d : Option Nat) (nm : Bytes) (ctr' : Nat) : Node :=
  (p.setCtr ctr').setKids (putKid (storedChild (setNode sv parent (fun p => p.setCtr ctr')) parent (Node.fresh nm d)) p.kids)

/-- the state `InsertOrderedChild` is in when it notifies: counter advanced, child put, index entry inserted -/
def insertOrderedPre (sv : Server) (by_ : Nat) (parent : List Bytes) (d : Option Nat) (nm : Bytes) (ctr' i : Nat)
    (nc : Bool) : Server :=
  setNode (insertOrderedPut sv by_ parent d nm ctr' nc) parent
    (fun p => p.setIndex (p.index.take i ++ [nm] ++ p.index.drop i))

/-- the parent node at that point -/
def insertOrderedNode (sv : Server) (parent : List Bytes) (p : Node) (d : Option Nat) (nm : Bytes) (ctr' i : Nat) : Node :=
  (insertOrderedPutNode sv parent p d nm ctr').setIndex (insertAt p.index i nm)

theorem getNode_insertOrderedPut {sv : Server} {parent : List Bytes} {p : Node} (by_ : Nat) (d : Option Nat)
    (nm : Bytes) (ctr' : Nat) (nc : Bool) (h : getNode sv parent = some p) :
    getNode (insertOrderedPut sv by_ parent d nm ctr' nc) parent = some (insertOrderedPutNode sv parent p d nm ctr') := by
  unfold insertOrderedPut insertOrderedPutNode
  have h1 : getNode (setNode sv parent (fun p => p.setCtr ctr')) parent = some (p.setCtr ctr') := by
    rw [getNode_setNode (setCtr_name_pres ctr'), h]; rfl
  have h2 := getNode_putChild by_ (Node.fresh nm d) nc h1
  simpa using h2

theorem getNode_insertOrderedPre {sv : Server} {parent : List Bytes} {p : Node} (by_ : Nat) (d : Option Nat)
    (nm : Bytes) (ctr' i : Nat) (nc : Bool) (h : getNode sv parent = some p) :
    getNode (insertOrderedPre sv by_ parent d nm ctr' i nc) parent =
      some (insertOrderedNode sv parent p d nm ctr' i) := by
  unfold insertOrderedPre insertOrderedNode
  rw [getNode_setIndex (fun q => q.index.take i ++ [nm] ++ q.index.drop i)
    (getNode_insertOrderedPut by_ d nm ctr' nc h)]
  simp [insertAt, insertOrderedPutNode]

/-- `optInsertBefore == "!Rmv"`: the child is created but not indexed, and nothing is handed to `notifyIndex` -/
theorem insertOrderedChild_unindexed {sv : Server} {parent : List Bytes} {p : Node} (by_ : Nat) (d : Option Nat)
    {before : Bytes} (name : Bytes) (nc : Bool) (h : getNode sv parent = some p) (hb : before = removeFromIndexName) :
    insertOrderedChild sv by_ parent d before name nc =
      insertOrderedPut sv by_ parent d (ordPair p name).1 (ordPair p name).2 nc := by
  unfold insertOrderedChild
  simp only [h]
  show (if before = removeFromIndexName then
      insertOrderedPut sv by_ parent d (ordPair p name).1 (ordPair p name).2 nc else _) = _
  rw [if_pos hb]

/-- the equation exposing what `InsertOrderedChild` hands to `notifyIndex` -/
theorem insertOrderedChild_emits {sv : Server} {parent : List Bytes} {p : Node} (by_ : Nat) (d : Option Nat)
    {before : Bytes} (name : Bytes) (nc : Bool) (h : getNode sv parent = some p) (hb : before ≠ removeFromIndexName) :
    insertOrderedChild sv by_ parent d before name nc =
      notifyIndex (insertOrderedPre sv by_ parent d (ordPair p name).1 (ordPair p name).2 (insertPos p.index before) nc)
        parent (insertOrderedNode sv parent p d (ordPair p name).1 (ordPair p name).2 (insertPos p.index before))
        (instrOf 'i' (insertPos p.index before) (ordPair p name).1) := by
  have hg := getNode_insertOrderedPre by_ d (ordPair p name).1 (ordPair p name).2 (insertPos p.index before) nc h
  unfold insertOrderedChild
  simp only [h]
  show (if before = removeFromIndexName then
      insertOrderedPut sv by_ parent d (ordPair p name).1 (ordPair p name).2 nc else
    match getNode (insertOrderedPre sv by_ parent d (ordPair p name).1 (ordPair p name).2 (insertPos p.index before) nc) parent with
    | some p' => notifyIndex (insertOrderedPre sv by_ parent d (ordPair p name).1 (ordPair p name).2 (insertPos p.index before) nc)
        parent p' (instrOf 'i' (insertPos p.index before) (ordPair p name).1)
    | none => insertOrderedPre sv by_ parent d (ordPair p name).1 (ordPair p name).2 (insertPos p.index before) nc) = _
  rw [if_neg hb, hg]

/-- the parent node after `InsertOrderedChild` -/
def insertOrderedResult (sv : Server) (parent : List Bytes) (p : Node) (d : Option Nat) (before name : Bytes) : Node :=
  if before = removeFromIndexName then insertOrderedPutNode sv parent p d (ordPair p name).1 (ordPair p name).2
  else insertOrderedNode sv parent p d (ordPair p name).1 (ordPair p name).2 (insertPos p.index before)

theorem getNode_insertOrderedChild {sv : Server} {parent : List Bytes} {p : Node} (by_ : Nat) (d : Option Nat)
    (before name : Bytes) (nc : Bool) (h : getNode sv parent = some p) :
    getNode (insertOrderedChild sv by_ parent d before name nc) parent =
      some (insertOrderedResult sv parent p d before name) := by
  unfold insertOrderedResult
  by_cases hb : before = removeFromIndexName
  · rw [insertOrderedChild_unindexed by_ d name nc h hb, if_pos hb]
    exact getNode_insertOrderedPut _ _ _ _ _ h
  · rw [insertOrderedChild_emits by_ d name nc h hb, getNode_notifyIndex, if_neg hb]
    exact getNode_insertOrderedPre _ _ _ _ _ _ h

@[simp] theorem insertOrderedPutNode_index (sv : Server) (parent : List Bytes) (p : Node) (d : Option Nat) (nm : Bytes)
    (ctr' : Nat) : (insertOrderedPutNode sv parent p d nm ctr').index = p.index := by
  simp [insertOrderedPutNode]

@[simp] theorem insertOrderedNode_index (sv : Server) (parent : List Bytes) (p : Node) (d : Option Nat) (nm : Bytes)
    (ctr' i : Nat) : (insertOrderedNode sv parent p d nm ctr' i).index = insertAt p.index i nm := by
  simp [insertOrderedNode]

theorem insertOrderedPutNode_kids (sv : Server) (parent : List Bytes) (p : Node) (d : Option Nat) (nm : Bytes)
    (ctr' : Nat) : ∃ c, c.name = nm ∧ c.index = [] ∧ c.kids = [] ∧
      (insertOrderedPutNode sv parent p d nm ctr').kids = putKid c p.kids := by
  refine ⟨storedChild (setNode sv parent (fun p => p.setCtr ctr')) parent (Node.fresh nm d), ?_, ?_, ?_, ?_⟩ <;>
    simp [insertOrderedPutNode]

theorem insertOrderedNode_kids (sv : Server) (parent : List Bytes) (p : Node) (d : Option Nat) (nm : Bytes)
    (ctr' i : Nat) : ∃ c, c.name = nm ∧ c.index = [] ∧ c.kids = [] ∧
      (insertOrderedNode sv parent p d nm ctr' i).kids = putKid c p.kids := by
  obtain ⟨c, h1, h2, h3, h4⟩ := insertOrderedPutNode_kids sv parent p d nm ctr'
  exact ⟨c, h1, h2, h3, by simp [insertOrderedNode, h4]⟩

/-- the parent's index after `InsertOrderedChild` -/
def insertIndexAfter (p : Node) (before name : Bytes) : List Bytes :=
  if before = removeFromIndexName then p.index else insertAt p.index (insertPos p.index before) (ordPair p name).1

theorem insertOrderedResult_index (sv : Server) (parent : List Bytes) (p : Node) (d : Option Nat) (before name : Bytes) :
    (insertOrderedResult sv parent p d before name).index = insertIndexAfter p before name := by
  unfold insertOrderedResult insertIndexAfter
  split <;> simp

theorem insertOrderedResult_kids (sv : Server) (parent : List Bytes) (p : Node) (d : Option Nat) (before name : Bytes) :
    ∃ c, c.name = (ordPair p name).1 ∧ c.index = [] ∧ c.kids = [] ∧
      (insertOrderedResult sv parent p d before name).kids = putKid c p.kids := by
  unfold insertOrderedResult
  split
  · exact insertOrderedPutNode_kids _ _ _ _ _ _
  · exact insertOrderedNode_kids _ _ _ _ _ _ _

theorem removeFromIndexName_bytes : removeFromIndexName = [33, 82, 109, 118] := by
  unfold removeFromIndexName
  have : "!Rmv" = String.ofList ['!', 'R', 'm', 'v'] := rfl
  rw [this, asciiBytes _ (by decide)]
  rfl

theorem nil_ne_removeFromIndexName : ([] : Bytes) ≠ removeFromIndexName := by
  rw [removeFromIndexName_bytes]; simp

/-! ## `reorderChild` -/

/-- the parent's index after `ReorderChild(child, before)` -/
def reorderIndex (p : Node) (child before : Bytes) : List Bytes :=
  if before = child then p.index else
  if p.index.isEmpty && !(p.index.contains child) && before = removeFromIndexName then p.index else
  if before = removeFromIndexName then eraseLast p.index child
  else insertAt (eraseLast p.index child) (reorderTarget p child before) child

theorem reorderChild_self {sv : Server} {parent : List Bytes} {p : Node} {child before : Bytes}
    (h : getNode sv parent = some p) (hb : before = child) : reorderChild sv parent child before = sv := by
  simp [reorderChild, h, hb]

theorem reorderChild_nothing {sv : Server} {parent : List Bytes} {p : Node} {child before : Bytes}
    (h : getNode sv parent = some p)
    (hg : (p.index.isEmpty && !(p.index.contains child) && before = removeFromIndexName) = true) :
    reorderChild sv parent child before = sv := by
  unfold reorderChild
  simp only [h]
  split
  · rfl
  · first | rfl | rw [if_pos hg]

/-- move out of the index: exactly the removal -/
theorem reorderChild_remove {sv : Server} {parent : List Bytes} {p : Node} {child before : Bytes}
    (h : getNode sv parent = some p) (hb : before ≠ child)
    (hg : ¬ (p.index.isEmpty && !(p.index.contains child) && before = removeFromIndexName) = true)
    (hr : before = removeFromIndexName) :
    reorderChild sv parent child before = removeIndexEntry sv parent child true := by
  unfold reorderChild
  simp only [h]
  rw [if_neg hb, if_neg hg, if_pos hr]

/-- the equation exposing the insert `ReorderChild` hands to `notifyIndex` (after the removal, which is
    `removeIndexEntry … true`, see `removeIndexEntry_emits`) -/
theorem reorderChild_emits {sv : Server} {parent : List Bytes} {p : Node} {child before : Bytes}
    (h : getNode sv parent = some p) (hb : before ≠ child)
    (hg : ¬ (p.index.isEmpty && !(p.index.contains child) && before = removeFromIndexName) = true)
    (hr : before ≠ removeFromIndexName) :
    reorderChild sv parent child before =
      notifyIndex
        (setNode (removeIndexEntry sv parent child true) parent
          (fun q => q.setIndex (q.index.take (reorderTarget p child before) ++ [child] ++
            q.index.drop (reorderTarget p child before))))
        parent
        (p.setIndex (insertAt (eraseLast p.index child) (reorderTarget p child before) child))
        (instrOf 'i' (reorderTarget p child before) child) := by
  have h1 := getNode_removeIndexEntry child true h
  have h2 := getNode_setIndex (fun q => q.index.take (reorderTarget p child before) ++ [child] ++
            q.index.drop (reorderTarget p child before)) h1
  simp only [Node.setIndex_setIndex, Node.setIndex_index] at h2
  unfold reorderChild
  simp only [h]
  rw [if_neg hb, if_neg hg]
  rw [if_neg hr]
  simp only [h1]
  show (match getNode (setNode (removeIndexEntry sv parent child true) parent
          (fun q => q.setIndex (q.index.take (reorderTarget p child before) ++ [child] ++
            q.index.drop (reorderTarget p child before)))) parent with
    | some p2 => notifyIndex (setNode (removeIndexEntry sv parent child true) parent
          (fun q => q.setIndex (q.index.take (reorderTarget p child before) ++ [child] ++
            q.index.drop (reorderTarget p child before)))) parent p2 (instrOf 'i' (reorderTarget p child before) child)
    | none => _) = _
  rw [h2]
  rfl

theorem getNode_reorderChild {sv : Server} {parent : List Bytes} {p : Node} (child before : Bytes)
    (h : getNode sv parent = some p) :
    getNode (reorderChild sv parent child before) parent = some (p.setIndex (reorderIndex p child before)) := by
  unfold reorderIndex
  by_cases hb : before = child
  · rw [reorderChild_self h hb, if_pos hb, Node.setIndex_self, h]
  · rw [if_neg hb]
    by_cases hg : (p.index.isEmpty && !(p.index.contains child) && before = removeFromIndexName) = true
    · rw [reorderChild_nothing h hg, if_pos hg, Node.setIndex_self, h]
    · rw [if_neg hg]
      by_cases hr : before = removeFromIndexName
      · rw [reorderChild_remove h hb hg hr, if_pos hr]
        exact getNode_removeIndexEntry child true h
      · rw [reorderChild_emits h hb hg hr, if_neg hr, getNode_notifyIndex]
        have h1 := getNode_removeIndexEntry child true h
        have h2 := getNode_setIndex (fun q => q.index.take (reorderTarget p child before) ++ [child] ++
            q.index.drop (reorderTarget p child before)) h1
        simp only [Node.setIndex_setIndex, Node.setIndex_index] at h2
        exact h2

theorem reorderTarget_le (p : Node) (child before : Bytes) :
    reorderTarget p child before ≤ (eraseLast p.index child).length := by
  unfold reorderTarget
  split
  · exact insertPos_le _ _
  · exact Nat.le_refl _

/-- replaying what `ReorderChild` emits gives the index it leaves -/
theorem applyAll_reorderLog (p : Node) (child before : Bytes) :
    applyAll p.index (reorderLog p child before) = some (reorderIndex p child before) := by
  unfold reorderLog reorderIndex
  by_cases hb : before = child
  · simp [hb, applyAll]
  · rw [if_neg hb, if_neg hb]
    by_cases hg : (p.index.isEmpty && !(p.index.contains child) && before = removeFromIndexName) = true
    · rw [if_pos hg, if_pos hg]; rfl
    · rw [if_neg hg, if_neg hg, applyAll_append, applyAll_remLog]
      by_cases hr : before = removeFromIndexName
      · simp [hr, applyAll]
      · simp [hr, applyAll, apply_ins_le child (reorderTarget_le p child before)]

/-! ## `removeOne` -/

/-- `RemoveChild` after `RemoveIndexEntry`: the removed-notification (tree untouched) -/
def removeOneMid (sv1 : Server) (by_ : Nat) (notify : Bool) (parent : List Bytes) (key : Bytes) : Server :=
  match getNode sv1 (parent ++ [key]) with
  | some c => if notify then notifyChanged sv1 by_ (parent ++ [key]) c (some c.data) true else sv1
  | none => sv1

@[simp] theorem removeOneMid_root (sv1 : Server) (by_ : Nat) (notify : Bool) (parent : List Bytes) (key : Bytes) :
    (removeOneMid sv1 by_ notify parent key).root = sv1.root := by
  unfold removeOneMid
  repeat' split
  all_goals simp

/-- what `RemoveChild` does after `RemoveIndexEntry`: the removed-notification, then the child goes -/
def removeOneRest (sv1 : Server) (by_ : Nat) (notify : Bool) (parent : List Bytes) (key : Bytes) : Server :=
  setNode (removeOneMid sv1 by_ notify parent key) parent (fun p => p.setKids (removeKid key p.kids))

theorem removeOne_eq {sv : Server} {parent : List Bytes} {key : Bytes} {c : Node} (by_ : Nat) (notify : Bool)
    (hc : getNode sv (parent ++ [key]) = some c) :
    removeOne sv by_ notify (parent ++ [key]) =
      removeOneRest (removeIndexEntry sv parent key notify) by_ notify parent key := by
  unfold removeOne removeOneRest removeOneMid
  simp only [List.getLast?_append, List.getLast?_singleton, Option.some_or, hc, List.dropLast_concat]
  rfl

theorem removeOne_absent {sv : Server} {names : List Bytes} (by_ : Nat) (notify : Bool)
    (hc : getNode sv names = none) : removeOne sv by_ notify names = sv := by
  unfold removeOne
  simp only [hc]
  split <;> simp_all

theorem getNode_removeOneRest {sv1 : Server} {parent : List Bytes} {p1 : Node} (by_ : Nat) (notify : Bool)
    (key : Bytes) (h : getNode sv1 parent = some p1) :
    getNode (removeOneRest sv1 by_ notify parent key) parent = some (p1.setKids (removeKid key p1.kids)) := by
  unfold removeOneRest
  rw [getNode_setNode (setKids_name_pres _), getNode_congr (removeOneMid_root sv1 by_ notify parent key), h]; rfl

theorem getNode_removeOne {sv : Server} {parent : List Bytes} {p c : Node} {key : Bytes} (by_ : Nat) (notify : Bool)
    (h : getNode sv parent = some p) (hc : getNode sv (parent ++ [key]) = some c) :
    getNode (removeOne sv by_ notify (parent ++ [key])) parent =
      some ((p.setIndex (eraseLast p.index key)).setKids (removeKid key p.kids)) := by
  rw [removeOne_eq by_ notify hc, getNode_removeOneRest by_ notify key (getNode_removeIndexEntry key notify h)]
  simp

end Muscle.Reflector
