import MuscleModel.Reflector.FrameProofs7
import MuscleModel.Reflector.IndexProofsReach
import MuscleModel.Props.C05

/-!
# C04 lemmas, part 1: reading the tree after an update, subscriber tables, path-matcher algebra

* `mr_nodeAt_append`, `mr_nodeAt_updateAt_below`, `mr_nodeAt_updateAt_off`: exact reads of `nodeAt` after `updateAt`;
* `mr_mem_descendants`: with distinct sibling names the brute-force enumeration `descendants` lists exactly the
  nodes `nodeAt` finds (below the root);
* `mr_subCount_adjust_*`: what `adjustSubs` does to the count of the adjusted session id;
* `SubsWF`: the well-formedness of a session's `NodePathMatcher` that `PutPathString`/`RemovePathString` maintain,
  and `pmMatchCount` after `pmPut` (new entry: +1 on the paths its clauses match; existing entry: unchanged) and
  after `pmRemove` (−1 on the paths the removed entry's clauses match).
-/

set_option linter.unusedSimpArgs false
set_option linter.unusedVariables false

namespace Muscle.Reflector
open Muscle

/-! ## reads after `updateAt` -/

theorem mr_nodeAt_append : ∀ (p : List Bytes) (fuel : Nat) (n : Node) (w : List Bytes),
    nodeAt fuel n (p ++ w) = (nodeAt fuel n p).bind (fun t => nodeAt (fuel - p.length) t w) := by
  intro p
  induction p with
  | nil => intro fuel n w; simp [nodeAt_nil]
  | cons a r ih =>
    intro fuel n w
    cases fuel with
    | zero => simp [nodeAt_zero_cons]
    | succ fuel =>
      rw [List.cons_append, nodeAt_succ_cons, nodeAt_succ_cons]
      cases hk : findKid a n.kids with
      | none => rfl
      | some k =>
        simp only [List.length_cons, Nat.add_sub_add_right]
        exact ih fuel k w

theorem mr_nodeAt_updateAt_below {f : Node → Node} (hname : ∀ n, (f n).name = n.name) :
    ∀ (path : List Bytes) (fuel : Nat) (n : Node) (ext : List Bytes),
      nodeAt fuel (updateAt fuel n path f) (path ++ ext) =
        (nodeAt fuel n path).bind (fun t => nodeAt (fuel - path.length) (f t) ext) := by
  intro path
  induction path with
  | nil => intro fuel n ext; simp [updateAt_nil, nodeAt_nil]
  | cons a r ih =>
    intro fuel n ext
    cases fuel with
    | zero => simp [updateAt_zero_cons, nodeAt_zero_cons]
    | succ fuel =>
      rw [updateAt_succ_cons]
      cases hk : findKid a n.kids with
      | none => simp [nodeAt_succ_cons, hk]
      | some k =>
        simp only []
        have hk'n : (updateAt fuel k r f).name = a := by rw [updateAt_name hname]; exact findKid_name hk
        rw [List.cons_append, nodeAt_succ_cons, nodeAt_succ_cons, setKids_kids, hk]
        have : findKid a (putKid (updateAt fuel k r f) n.kids) = some (updateAt fuel k r f) := by
          have := findKid_putKid_same (updateAt fuel k r f) n.kids
          rw [hk'n] at this; exact this
        rw [this]
        simp only [List.length_cons, Nat.add_sub_add_right]
        exact ih fuel k ext

/-- away from `path` (not below it) an update is invisible through any projection that ignores the children -/
theorem mr_nodeAt_updateAt_off {α : Type} (π : Node → α) (hπ : ∀ n k, π (n.setKids k) = π n)
    {f : Node → Node} (hname : ∀ n, (f n).name = n.name) :
    ∀ (fuel : Nat) (n : Node) (path w : List Bytes), ¬ path <+: w →
      (nodeAt fuel (updateAt fuel n path f) w).map π = (nodeAt fuel n w).map π := by
  intro fuel
  induction fuel with
  | zero =>
    intro n path w h
    cases path with
    | nil => exact absurd (List.nil_prefix) h
    | cons a r => rw [updateAt_zero_cons]
  | succ fuel ih =>
    intro n path w h
    cases path with
    | nil => exact absurd (List.nil_prefix) h
    | cons a r =>
      rw [updateAt_succ_cons]
      cases hk : findKid a n.kids with
      | none => rfl
      | some k =>
        simp only []
        have hk'n : (updateAt fuel k r f).name = a := by rw [updateAt_name hname]; exact findKid_name hk
        cases w with
        | nil => simp only [nodeAt_nil, Option.map_some, hπ]
        | cons b rest =>
          rw [nodeAt_succ_cons, nodeAt_succ_cons, setKids_kids]
          by_cases hb : b = a
          · subst hb
            have : findKid b (putKid (updateAt fuel k r f) n.kids) = some (updateAt fuel k r f) := by
              have := findKid_putKid_same (updateAt fuel k r f) n.kids
              rw [hk'n] at this; exact this
            rw [this, hk]
            simp only []
            apply ih
            intro hp
            apply h
            obtain ⟨t, ht⟩ := hp
            exact ⟨t, by simp [← ht]⟩
          · have : findKid b (putKid (updateAt fuel k r f) n.kids) = findKid b n.kids := by
              apply findKid_putKid_ne
              rw [hk'n]; exact fun e => hb e.symm
            rw [this]

/-- the server-level form: reads below the updated path -/
theorem mr_getNode_setNode_below {f : Node → Node} (hname : ∀ n, (f n).name = n.name) (sv : Server)
    (path ext : List Bytes) :
    getNode (setNode sv path f) (path ++ ext) =
      (getNode sv path).bind (fun t => nodeAt (fuelDepth - path.length) (f t) ext) := by
  simp only [getNode, setNode]
  exact mr_nodeAt_updateAt_below hname path _ _ ext

theorem mr_getNode_setNode_off {α : Type} (π : Node → α) (hπ : ∀ n k, π (n.setKids k) = π n)
    {f : Node → Node} (hname : ∀ n, (f n).name = n.name) (sv : Server) (path w : List Bytes) (h : ¬ path <+: w) :
    (getNode (setNode sv path f) w).map π = (getNode sv w).map π := by
  simp only [getNode, setNode]
  exact mr_nodeAt_updateAt_off π hπ hname _ _ _ _ h

theorem mr_getNode_append (sv : Server) (p w : List Bytes) :
    getNode sv (p ++ w) = (getNode sv p).bind (fun t => nodeAt (fuelDepth - p.length) t w) := by
  simp only [getNode]
  exact mr_nodeAt_append p _ _ w

/-! ## `descendants` vs `nodeAt` -/

theorem mr_kidsNodup_of_allNodes : ∀ (fuel : Nat) (n : Node), AllNodes NodeInv n → kidsNodup fuel n = true := by
  intro fuel
  induction fuel with
  | zero => intro n _; rfl
  | succ fuel ih =>
    intro n h
    simp only [kidsNodup, Bool.and_eq_true, decide_eq_true_eq, List.all_eq_true]
    exact ⟨h.here.2, fun k hk => ih k (h.kid k hk)⟩

theorem mr_mem_descendants : ∀ (fuel : Nat) (n : Node) (pre v : List Bytes) (t : Node),
    kidsNodup fuel n = true →
    ((pre ++ v, t) ∈ descendants fuel n pre ↔ v ≠ [] ∧ nodeAt fuel n v = some t) := by
  intro fuel
  induction fuel with
  | zero =>
    intro n pre v t _
    simp only [descendants, List.not_mem_nil, false_iff, not_and]
    intro hv
    cases v with
    | nil => exact absurd rfl hv
    | cons a r => simp [nodeAt_zero_cons]
  | succ fuel ih =>
    intro n pre v t hk
    obtain ⟨hnd, hkids⟩ := kidsNodup_succ hk
    rw [descendants, List.mem_flatMap]
    constructor
    · rintro ⟨k, hkm, hmem⟩
      rcases List.mem_cons.1 hmem with heq | hmem
      · simp only [Prod.mk.injEq, List.append_cancel_left_eq] at heq
        obtain ⟨hv, ht⟩ := heq
        subst hv ht
        refine ⟨by simp, ?_⟩
        rw [nodeAt_succ_cons, findKid_of_mem_distinct hnd hkm]
        simp [nodeAt_nil]
      · obtain ⟨hp, _⟩ := descendants_prefix fuel k _ _ hmem
        obtain ⟨u, hu⟩ := hp
        simp only [List.append_assoc] at hu
        have hv : v = [k.name] ++ u := (List.append_cancel_left hu).symm
        subst hv
        have hmem' : ((pre ++ [k.name]) ++ u, t) ∈ descendants fuel k (pre ++ [k.name]) := by
          simpa [List.append_assoc] using hmem
        obtain ⟨hu0, hnode⟩ := (ih k (pre ++ [k.name]) u t (hkids k hkm)).1 hmem'
        refine ⟨by simp, ?_⟩
        rw [List.singleton_append, nodeAt_succ_cons, findKid_of_mem_distinct hnd hkm]
        exact hnode
    · rintro ⟨hv, hnode⟩
      cases v with
      | nil => exact absurd rfl hv
      | cons a r =>
        rw [nodeAt_succ_cons] at hnode
        cases hf : findKid a n.kids with
        | none => rw [hf] at hnode; cases hnode
        | some k =>
          rw [hf] at hnode
          simp only [] at hnode
          have hkm := findKid_some_mem hf
          have hkn : k.name = a := findKid_name hf
          refine ⟨k, hkm, ?_⟩
          cases r with
          | nil =>
            rw [nodeAt_nil] at hnode
            cases hnode
            rw [hkn]; exact List.mem_cons_self
          | cons b r' =>
            apply List.mem_cons_of_mem
            have := (ih k (pre ++ [k.name]) (b :: r') t (hkids k hkm)).2 ⟨by simp, hnode⟩
            rw [hkn] at this ⊢
            simpa [List.append_assoc] using this

/-! ## subscriber tables -/

theorem mr_subCount_nil (sid : Nat) : subCount [] sid = 0 := rfl

theorem mr_subCount_not_any (l : List (Nat × Nat)) (sid : Nat) (h : l.any (fun (k, _) => k = sid) = false) :
    subCount l sid = 0 := by
  unfold subCount
  have : l.find? (fun (k, _) => decide (k = sid)) = none := by
    rw [List.find?_eq_none]
    intro x hx
    have := List.any_eq_false.1 h x hx
    simpa using this
  rw [this]

theorem mr_subCount_append_new (l : List (Nat × Nat)) (sid new : Nat) (h : l.any (fun (k, _) => k = sid) = false) :
    subCount (l ++ [(sid, new)]) sid = new := by
  unfold subCount
  have : l.find? (fun (k, _) => decide (k = sid)) = none := by
    rw [List.find?_eq_none]
    intro x hx
    have := List.any_eq_false.1 h x hx
    simpa using this
  rw [List.find?_append, this]
  simp

theorem mr_subCount_map_set (l : List (Nat × Nat)) (sid new : Nat) (h : l.any (fun (k, _) => k = sid) = true) :
    subCount (l.map (fun (k, c) => if k = sid then (k, new) else (k, c))) sid = new := by
  induction l with
  | nil => simp at h
  | cons a r ih =>
    obtain ⟨k, c⟩ := a
    by_cases hk : k = sid
    · subst hk
      simp [subCount, List.find?_cons]
    · have hr : r.any (fun (k, _) => k = sid) = true := by
        simpa [List.any_cons, hk] using h
      have := ih hr
      simp only [subCount, List.map_cons, List.find?_cons, hk, if_false, decide_false] at this ⊢
      exact this

theorem mr_subCount_filter_ne (l : List (Nat × Nat)) (sid : Nat) :
    subCount (l.filter (fun (k, _) => k ≠ sid)) sid = 0 := by
  apply mr_subCount_not_any
  rw [List.any_eq_false]
  intro x hx
  have := (List.mem_filter.1 hx).2
  obtain ⟨k, c⟩ := x
  simpa using this

/-- the new count of the adjusted id -/
def adjNew (cur : Nat) : Option Int → Nat
  | none => 0
  | some d => if d ≥ 0 then cur + d.toNat else (if cur ≥ (-d).toNat then cur - (-d).toNat else 0)

theorem mr_subCount_adjust_same (subs : List (Nat × Nat)) (sid : Nat) (delta : Option Int) :
    subCount (adjustSubs subs sid delta) sid = adjNew (subCount subs sid) delta := by
  have hnew : adjustSubs subs sid delta =
      if adjNew (subCount subs sid) delta > 0 then
        (if subs.any (fun (k, _) => k = sid) then
          subs.map (fun (k, c) => if k = sid then (k, adjNew (subCount subs sid) delta) else (k, c))
         else subs ++ [(sid, adjNew (subCount subs sid) delta)])
      else subs.filter (fun (k, _) => k ≠ sid) := by
    unfold adjustSubs adjNew
    cases delta <;> rfl
  rw [hnew]
  split
  · split
    · rename_i h; exact mr_subCount_map_set _ _ _ h
    · rename_i h; exact mr_subCount_append_new _ _ _ (Bool.eq_false_iff.2 h)
  · rename_i h
    rw [mr_subCount_filter_ne]; omega

theorem mr_subCount_adjust (subs : List (Nat × Nat)) (sid o : Nat) (delta : Option Int) :
    subCount (adjustSubs subs sid delta) o = if o = sid then adjNew (subCount subs sid) delta else subCount subs o := by
  split
  · rename_i h; subst h; exact mr_subCount_adjust_same _ _ _
  · rename_i h; exact adjustSubs_subCount_ne _ _ _ _ h

theorem mr_adjNew_add (cur c : Nat) : adjNew cur (some (c : Int)) = cur + c := by
  simp [adjNew]

theorem mr_adjNew_one (cur : Nat) : adjNew cur (some 1) = cur + 1 := by
  simp [adjNew]

theorem mr_adjNew_dec (cur : Nat) : adjNew cur (some (-1)) = cur - 1 := by
  simp only [adjNew]
  have : ¬ ((-1 : Int) ≥ 0) := by omega
  rw [if_neg this]
  have h1 : (-(-1 : Int)).toNat = 1 := by decide
  rw [h1]
  split <;> omega

/-- the keys of a subscriber table stay pairwise distinct -/
theorem mr_adjustSubs_keys_nodup (subs : List (Nat × Nat)) (sid : Nat) (delta : Option Int)
    (h : (subs.map (·.1)).Nodup) : ((adjustSubs subs sid delta).map (·.1)).Nodup := by
  obtain ⟨new, he⟩ := adjustSubs_eq subs sid delta
  rw [he]
  split
  · split
    · have : (subs.map (fun (k, c) => if k = sid then (k, new) else (k, c))).map (·.1) = subs.map (·.1) := by
        rw [List.map_map]
        apply List.map_congr_left
        intro ⟨k, c⟩ _
        simp only [Function.comp]
        split <;> rfl
      rw [this]; exact h
    · rename_i hany
      rw [List.map_append, List.nodup_append]
      refine ⟨h, by simp, ?_⟩
      intro a ha b hb
      simp only [List.map_cons, List.map_nil, List.mem_singleton] at hb
      subst hb
      intro e; subst e
      apply hany
      obtain ⟨x, hx, hx1⟩ := List.mem_map.1 ha
      rw [List.any_eq_true]
      exact ⟨x, hx, by obtain ⟨k, c⟩ := x; simpa using hx1⟩
  · exact (List.filter_sublist.map _).nodup h

/-- a positive count means the id has an entry, and conversely when no entry carries a zero -/
theorem mr_subCount_pos_mem {subs : List (Nat × Nat)} {sid : Nat} (h : subCount subs sid > 0) :
    ∃ c, (sid, c) ∈ subs := by
  unfold subCount at h
  cases hf : subs.find? (fun (k, _) => decide (k = sid)) with
  | none => rw [hf] at h; simp at h
  | some p =>
    obtain ⟨k, c⟩ := p
    have hm := List.mem_of_find?_eq_some hf
    have hp := List.find?_some hf
    simp at hp; subst hp
    exact ⟨c, hm⟩

end Muscle.Reflector
