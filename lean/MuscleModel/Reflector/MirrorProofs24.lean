import MuscleModel.Reflector.MirrorProofs23

/-!
# C04 lemmas, part 24: the children of host nodes are named by ids below the id counter

`HK sv`: every node at depth 2 (`[host, x]`) has `x = sidName k` for some `k < sv.nextSid`.  Kept by `attach` (the new
session node is named by the counter, which then advances), by every command (`frame_tree` of C06: a command creates no
node outside the sender's subtree; the id counter is untouched), by `detach` and the pushes.  Hence `FreshSessNode` holds
in every `CReach` state (`CReach.fresh`): arrivals need no hypothesis.
-/

set_option linter.unusedSimpArgs false
set_option linter.unusedVariables false

namespace Muscle.Reflector
open Muscle Muscle.Eng.SrvEngine

/-! ## the id counter is touched by `attach` only -/

theorem foldl_nextSid {α} (f : Server → α → Server) (h : ∀ sv x, (f sv x).nextSid = sv.nextSid) (xs : List α) (sv : Server) :
    (xs.foldl f sv).nextSid = sv.nextSid := by
  induction xs generalizing sv with
  | nil => rfl
  | cons x r ih => simp only [List.foldl_cons]; rw [ih, h]

theorem nextSid_of_skel {a b : Server} (h : skel b = skel a) : b.nextSid = a.nextSid := congrArg Prod.fst h

@[simp] theorem nextSid_updSess (sv : Server) (sid : Nat) (f : Sess → Sess) : (sv.updSess sid f).nextSid = sv.nextSid := rfl
@[simp] theorem nextSid_setNode (sv : Server) (p : List Bytes) (f : Node → Node) : (setNode sv p f).nextSid = sv.nextSid := rfl
@[simp] theorem nextSid_notifyChanged (sv : Server) (by_ : Nat) (names : List Bytes) (node : Node) (od : Option (Option Nat))
    (removed : Bool) : (notifyChanged sv by_ names node od removed).nextSid = sv.nextSid := nextSid_of_skel (by simp)
@[simp] theorem nextSid_notifyIndex (sv : Server) (names : List Bytes) (node : Node) (instr : Bytes) :
    (notifyIndex sv names node instr).nextSid = sv.nextSid := nextSid_of_skel (by simp)
@[simp] theorem nextSid_pushAll (sv : Server) : (pushAll sv).nextSid = sv.nextSid := nextSid_of_skel (by simp)
@[simp] theorem nextSid_nodeChangedAux (sv : Server) (sid : Nat) (np : Bytes) (d : Option Nat) (removed : Bool) :
    (nodeChangedAux sv sid np d removed).nextSid = sv.nextSid := nextSid_of_skel (by simp)
@[simp] theorem nextSid_removeIndexEntry (sv : Server) (parent : List Bytes) (key : Bytes) (notify : Bool) :
    (removeIndexEntry sv parent key notify).nextSid = sv.nextSid := nextSid_of_skel (by simp)
@[simp] theorem nextSid_removeChild (sv : Server) (by_ : Nat) (notify : Bool) (names : List Bytes) :
    (removeChild sv by_ notify names).nextSid = sv.nextSid := nextSid_of_skel (by simp)
@[simp] theorem nextSid_doGetData (sv : Server) (sid : Nat) (keys : List (Bytes × Option Filt)) :
    (doGetData sv sid keys).nextSid = sv.nextSid := nextSid_of_skel (mr_skel_doGetData sv sid keys)
@[simp] theorem nextSid_sendMsg (sv : Server) (sid tag : Nat) (keys : List Bytes) :
    (sendMsg sv sid tag keys).nextSid = sv.nextSid := nextSid_of_skel (mr_skel_sendMsg sv sid tag keys)
@[simp] theorem nextSid_deliver (sv : Server) (sid : Nat) (w : String) : (sv.deliver sid w).nextSid = sv.nextSid := rfl

@[simp] theorem nextSid_refsFold (sid : Nat) (delta : Option Int) (V : List (List Bytes)) (X : Server) :
    (V.foldl (fun sv v => setNode sv v (fun n => n.setSubs (adjustSubs n.subs sid delta))) X).nextSid = X.nextSid :=
  nextSid_of_skel (mr_skel_refs sid delta V X)

@[simp] theorem nextSid_subscribeRefs (sv : Server) (sid : Nat) (pm : PM) (delta : Option Int) :
    (subscribeRefs sv sid pm delta).nextSid = sv.nextSid := by
  unfold subscribeRefs; simp

@[simp] theorem nextSid_putChild (sv : Server) (by_ : Nat) (parent : List Bytes) (child : Node) (notify : Bool) :
    (putChild sv by_ parent child notify).nextSid = sv.nextSid := by
  unfold putChild
  simp only []
  split <;> simp

@[simp] theorem nextSid_insertOrderedChild (sv : Server) (by_ : Nat) (parent : List Bytes) (d : Option Nat)
    (before name : Bytes) (nc : Bool) : (insertOrderedChild sv by_ parent d before name nc).nextSid = sv.nextSid := by
  unfold insertOrderedChild
  split
  · rfl
  · simp only []
    repeat' split
    all_goals simp

@[simp] theorem nextSid_reorderChild (sv : Server) (parent : List Bytes) (child before : Bytes) :
    (reorderChild sv parent child before).nextSid = sv.nextSid := by
  unfold reorderChild
  repeat' (first | split | simp only [])
  all_goals simp

theorem nextSid_setDataClauses (by_ : Nat) (d : Option Nat) (ati : Bool) :
    ∀ (cls : List Bytes) (sv : Server) (cur : List Bytes), (setDataClauses by_ d ati sv cur cls).nextSid = sv.nextSid := by
  intro cls
  induction cls with
  | nil => intro sv cur; simp only [setDataClauses]
  | cons cl rest ih =>
    intro sv cur
    simp only [setDataClauses]
    split
    · rfl
    · split
      · rw [ih]
        repeat' (first | split | simp only [])
        all_goals simp
      · rw [ih]
        repeat' (first | split | simp only [])
        all_goals simp

theorem nextSid_runCmd (sv : Server) (a : Nat) (c : Cmd) : (runCmd sv a c).nextSid = sv.nextSid := by
  cases c with
  | set path v ati =>
    show (setDataNode sv a path (some v) ati).nextSid = _
    unfold setDataNode
    repeat' split
    all_goals first | rfl | exact nextSid_setDataClauses _ _ _ _ _ _
  | rm keys =>
    show (removeData sv a keys).nextSid = _
    unfold removeData
    split
    · rfl
    · simp only []
      exact foldl_nextSid _ (fun _ _ => nextSid_removeChild ..) _ _
  | sub path f =>
    show (subscribe sv a path f).nextSid = _
    unfold subscribe
    split
    · rfl
    · simp only [nextSid_doGetData, nextSid_updSess]
      split
      · simp only [nextSid_updSess]
        split
        · apply foldl_nextSid
          intro X v
          repeat' split
          all_goals simp
        · rfl
      · split
        · rfl
        · simp
  | unsub path =>
    show (unsubscribe sv a path).nextSid = _
    unfold unsubscribe
    split
    · rfl
    · simp only []
      split
      · rfl
      · simp only [nextSid_updSess]
        split
        · simp
        · rfl
  | ins key before vals =>
    show (insertOrdered sv a key before vals).nextSid = _
    unfold insertOrdered
    split
    · rfl
    · simp only []
      apply foldl_nextSid
      intro X v
      apply foldl_nextSid
      intro Y x
      simp
  | reorder key before =>
    show (Reflector.reorder sv a key before).nextSid = _
    have hcore : (reorderCore sv a key before).nextSid = sv.nextSid := by
      unfold reorderCore
      split
      · rfl
      · simp only []
        apply foldl_nextSid
        intro X v
        repeat' split
        all_goals simp
    unfold Reflector.reorder
    simp only []
    repeat' split
    all_goals simp [hcore]
  | send tag keys => exact nextSid_sendMsg sv a tag keys
  | getparams =>
    simp only [runCmd]
    split <;> rfl
  | _ => rfl

theorem nextSid_detach (sv : Server) (t : Nat) : (detach sv t).nextSid = sv.nextSid := by
  unfold detach
  split
  · rfl
  · simp only []
    repeat' split
    all_goals simp

/-! ## the invariant -/

def HK (sv : Server) : Prop :=
  ∀ host x n, getNode sv [host, x] = some n → ∃ k, k < sv.nextSid ∧ x = sidName k

theorem HK.of_root {a b : Server} (hr : b.root = a.root) (hn : a.nextSid ≤ b.nextSid) (h : HK a) : HK b := by
  intro host x n hg
  rw [getNode_congr hr] at hg
  obtain ⟨k, hk, hx⟩ := h host x n hg
  exact ⟨k, by omega, hx⟩

theorem isSome_of_strip_eq {sid : Nat} {a b : Option Node} (h : a.map (strip sid) = b.map (strip sid)) :
    a.isSome = b.isSome := by
  cases a <;> cases b <;> simp_all

theorem HK.runCmd {sv : Server} (h : HK sv) (hs : SessOK sv) (a : Nat) (c : Cmd) : HK (runCmd sv a c) := by
  intro host x n hg
  rw [nextSid_runCmd]
  cases hsa : sv.sess? a with
  | none =>
    rw [getNode_congr (runCmd_root_none sv a hsa c)] at hg
    exact h host x n hg
  | some sa =>
    by_cases hown : sessNames sa <+: [host, x]
    · -- the sender's own session node
      have heq : [host, x] = sessNames sa := by
        obtain ⟨t, ht⟩ := hown
        cases t with
        | nil => simpa using ht.symm
        | cons y ys => have hl := congrArg List.length ht; simp [sessNames] at hl
      have hx : x = sidName sa.sid := by
        simp [sessNames] at heq; exact heq.2
      have hm := List.mem_of_find?_eq_some hsa
      have := hs.bound (sa.sid, sa.subs) (List.mem_map.2 ⟨sa, hm, rfl⟩)
      exact ⟨sa.sid, this, hx⟩
    · have := (runCmd_own sv a sa hsa c).1 [host, x] hown
      have hsome := isSome_of_strip_eq this
      rw [hg] at hsome
      obtain ⟨n0, hn0⟩ := Option.isSome_iff_exists.1 hsome.symm
      exact h host x n0 hn0

theorem hostWF_of_treeInv {sv : Server} (h : TreeInv sv) (s : Sess) : HostWF sv s :=
  ⟨h.here.2, fun p hp => (treeInv_getNode h hp).here.2⟩

theorem HK.detach {sv : Server} (h : HK sv) (hti : TreeInv sv) (hs : SessOK sv) (t : Nat) : HK (Reflector.detach sv t) := by
  intro host x n hg
  rw [nextSid_detach]
  cases hst : sv.sess? t with
  | none =>
    have : Reflector.detach sv t = sv := by unfold Reflector.detach; rw [hst]
    rw [this] at hg; exact h host x n hg
  | some st =>
    by_cases hown : sessNames st <+: [host, x]
    · have heq : [host, x] = sessNames st := by
        obtain ⟨u, hu⟩ := hown
        cases u with
        | nil => simpa using hu.symm
        | cons y ys => have hl := congrArg List.length hu; simp [sessNames] at hl
      have hx : x = sidName st.sid := by
        simp [sessNames] at heq; exact heq.2
      have hm := List.mem_of_find?_eq_some hst
      have := hs.bound (st.sid, st.subs) (List.mem_map.2 ⟨st, hm, rfl⟩)
      exact ⟨st.sid, this, hx⟩
    · have := detach_frame sv t st hst (hostWF_of_treeInv hti st) [host, x] (by simp) (by simp) hown
      have hsome := isSome_of_strip_eq this
      rw [hg] at hsome
      obtain ⟨n0, hn0⟩ := Option.isSome_iff_exists.1 hsome.symm
      exact h host x n0 hn0

theorem FreshSessNode.of_hk {sv : Server} (h : HK sv) (host : Bytes) : FreshSessNode sv host := by
  intro hn hg
  cases hf : findKid (sidName sv.nextSid) hn.kids with
  | none => rfl
  | some c =>
    have hc : getNode sv ([host] ++ [sidName sv.nextSid]) = some c :=
      getNode_child hg (sidName sv.nextSid) hf (by simp [fuelDepth])
    obtain ⟨k, hk, hx⟩ := h host (sidName sv.nextSid) c (by simpa using hc)
    have := sidName_inj hx
    omega

theorem HK.attach {sv : Server} (h : HK sv) (slot : Nat) (host : Bytes) : HK (attach sv slot host).1 := by
  obtain ⟨A, hAr, hAn, _, hshape⟩ := attach_shape sv slot host
  rw [hshape]
  intro h' x n hg
  rw [nextSid_pushAll, nextSid_putChild] at *
  have hn2 : (if (findKid host A.root.kids).isSome then A else putChild A sv.nextSid [] (Node.fresh host none) true).nextSid
      = sv.nextSid + 1 := by
    split
    · exact hAn
    · rw [nextSid_putChild]; exact hAn
  rw [hn2]
  rw [getNode_congr (pushAll_root _)] at hg
  -- the session-node put
  unfold putChild at hg
  simp only [if_true, getNode_notifyChanged] at hg
  rcases mr_nodeAt_putKid [host] _ rfl [h', x] n hg with ⟨hv, _⟩ | ⟨n1, hn1, _, _⟩
  · have hx : x = sidName sv.nextSid := by simp at hv; exact hv.2
    exact ⟨sv.nextSid, by omega, hx⟩
  · -- an older node: before the host put
    have hold : ∃ n0, getNode sv [h', x] = some n0 := by
      have hn1' : getNode (if (findKid host A.root.kids).isSome then A
          else putChild A sv.nextSid [] (Node.fresh host none) true) [h', x] = some n1 := hn1
      split at hn1'
      · exact ⟨n1, by rw [← getNode_congr hAr]; exact hn1'⟩
      · unfold putChild at hn1'
        simp only [if_true, getNode_notifyChanged] at hn1'
        rcases mr_nodeAt_putKid [] _ rfl [h', x] n1 hn1' with ⟨hv, _⟩ | ⟨n0, hn0, _, _⟩
        · simp at hv
        · exact ⟨n0, by rw [← getNode_congr hAr]; exact hn0⟩
    obtain ⟨n0, hn0⟩ := hold
    obtain ⟨k, hk, hx⟩ := h h' x n0 hn0
    exact ⟨k, by omega, hx⟩

theorem hk_init : HK ({} : Server) := by
  intro host x n hg
  have : getNode ({} : Server) [host, x] = none := by
    simp [getNode, fuelDepth, nodeAt, Node.fresh, Node.kids, findKid]
  rw [this] at hg; cases hg

theorem CReach.hk {sv : Server} (h : CReach sv) : HK sv := by
  induction h with
  | init => exact hk_init
  | attach slot host _ _ ih => exact ih.attach slot host
  | @detach sv0 sid hr ih => exact ih.detach (mkt_reach hr.mreach).1 (mkt_reach hr.mreach).2.1 sid
  | @cmd sv0 sid c _ hr ih => exact ih.runCmd (mkt_reach hr.mreach).2.1 sid c
  | push _ ih => exact ih.of_root (pushAll_root _) (by simp)
  | pump _ ih => exact ih.of_root rfl (Nat.le_refl _)

/-- arrivals need no hypothesis in a reachable state -/
theorem CReach.fresh {sv : Server} (h : CReach sv) (host : Bytes) : FreshSessNode sv host :=
  FreshSessNode.of_hk h.hk host

end Muscle.Reflector
