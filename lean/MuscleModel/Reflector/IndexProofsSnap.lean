import MuscleModel.Reflector.IndexProofsSet

/-!
# C13: the index part of `doGetData` appends exactly `snapshotLog` to the node's field of the result Message
-/

set_option linter.unusedSimpArgs false
set_option linter.unusedVariables false

namespace Muscle.Reflector
open Muscle

/-- the strings of field `np` of a PR_RESULT_INDEXUPDATED Message under construction -/
def idxField (m : IdxMsg) (np : Bytes) : List Bytes :=
  match m.find? (fun (p, _) => p = np) with
  | some (_, xs) => xs
  | none => []

theorem idxField_add (m : IdxMsg) (np s : Bytes) : idxField (IdxMsg.add m np s) np = idxField m np ++ [s] := by
  unfold IdxMsg.add
  induction m with
  | nil => simp [idxField]
  | cons e r ih =>
    obtain ⟨p, xs⟩ := e
    by_cases hp : p = np
    · subst hp
      simp [idxField]
    · have hany : (((p, xs) :: r).any fun x => decide (x.1 = np)) = (r.any fun x => decide (x.1 = np)) := by
        simp [hp]
      simp only [hany]
      split
      · rename_i hr
        simp only [hr, if_true] at ih
        simp only [List.map_cons, hp, if_false]
        simpa [idxField, hp] using ih
      · rename_i hr
        simp only [hr] at ih
        simpa [idxField, hp] using ih

theorem idxField_foldl_add {α} (g : α → Bytes) (np : Bytes) (l : List α) (m : IdxMsg) :
    idxField (l.foldl (fun im x => IdxMsg.add im np (g x)) m) np = idxField m np ++ l.map g := by
  induction l generalizing m with
  | nil => simp
  | cons x r ih => simp [ih, idxField_add]

/-- the exact expression `doGetData` builds for a node with a non-empty index -/
theorem doGetData_snapshot (im : IdxMsg) (np : Bytes) (ix : List Bytes) :
    idxField ((ix.zipIdx).foldl (fun im (nm, i) => IdxMsg.add im np (instrOf 'i' i nm))
      (IdxMsg.add im np "c".toUTF8.toList)) np = idxField im np ++ snapshotLog ix := by
  have := idxField_foldl_add (fun (x : Bytes × Nat) => instrOf 'i' x.2 x.1) np ix.zipIdx (IdxMsg.add im np "c".toUTF8.toList)
  rw [idxField_add] at this
  simpa [snapshotLog] using this

end Muscle.Reflector
