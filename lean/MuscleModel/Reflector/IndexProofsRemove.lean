import MuscleModel.Reflector.IndexProofsOps

/-!
# C13: `removeChild` (recursive removal) seen from the parent of the removed child

The descendants are taken apart first (`removalOrder`); each of those steps changes the tree strictly below
the parent, so the parent keeps its index and the set of its children's names, and the child itself is
still there when its own `removeOne` comes.
-/

set_option linter.unusedSimpArgs false
set_option linter.unusedVariables false

namespace Muscle.Reflector
open Muscle

/-- same index, same set of child names -/
def Same (p q : Node) : Prop := q.index = p.index ∧ ∀ c, (findKid c q.kids).isSome = (findKid c p.kids).isSome

theorem Same.refl (p : Node) : Same p p := ⟨rfl, fun _ => rfl⟩
theorem Same.trans {p q r : Node} (h1 : Same p q) (h2 : Same q r) : Same p r :=
  ⟨h2.1.trans h1.1, fun c => (h2.2 c).trans (h1.2 c)⟩

/-- `sv'` differs from `sv` in the tree at most by one name-preserving update at `path` -/
def RootStep (path : List Bytes) (sv sv' : Server) : Prop :=
  sv'.root = sv.root ∨ ∃ f : Node → Node, (∀ n, (f n).name = n.name) ∧ sv'.root = updateAt fuelDepth sv.root path f

/-- the node at `pre` keeps index and child names (and stays) -/
def SameAt (pre : List Bytes) (sv sv' : Server) : Prop :=
  ∀ p, getNode sv pre = some p → ∃ p', getNode sv' pre = some p' ∧ Same p p'

def KeepsNode (pre : List Bytes) (sv sv' : Server) : Prop :=
  (getNode sv pre).isSome → (getNode sv' pre).isSome

theorem SameAt.refl (pre : List Bytes) (sv : Server) : SameAt pre sv sv := fun p h => ⟨p, h, Same.refl p⟩
theorem SameAt.trans {pre : List Bytes} {a b c : Server} (h1 : SameAt pre a b) (h2 : SameAt pre b c) : SameAt pre a c := by
  intro p hp
  obtain ⟨p1, hp1, s1⟩ := h1 p hp
  obtain ⟨p2, hp2, s2⟩ := h2 p1 hp1
  exact ⟨p2, hp2, s1.trans s2⟩
theorem KeepsNode.refl (pre : List Bytes) (sv : Server) : KeepsNode pre sv sv := fun h => h
theorem KeepsNode.trans {pre : List Bytes} {a b c : Server} (h1 : KeepsNode pre a b) (h2 : KeepsNode pre b c) :
    KeepsNode pre a c := fun h => h2 (h1 h)

theorem RootStep.sameAt {pre : List Bytes} {a : Bytes} {r : List Bytes} {sv sv' : Server}
    (h : RootStep (pre ++ a :: r) sv sv') : SameAt pre sv sv' := by
  intro p hp
  rcases h with h | ⟨f, hf, h⟩
  · exact ⟨p, by rw [getNode_congr h]; exact hp, Same.refl p⟩
  · have : getNode sv' pre = getNode (setNode sv (pre ++ a :: r) f) pre := getNode_congr (by simp [h]) pre
    rw [this, getNode_setNode_prefix hf, hp]
    exact ⟨_, rfl, updateAt_cons_index f _ p a r, updateAt_cons_findKid hf _ p a r⟩

theorem RootStep.keepsNode {pre ext : List Bytes} {sv sv' : Server}
    (h : RootStep (pre ++ ext) sv sv') : KeepsNode pre sv sv' := by
  intro hp
  rcases h with h | ⟨f, hf, h⟩
  · rw [getNode_congr h]; exact hp
  · have : getNode sv' pre = getNode (setNode sv (pre ++ ext) f) pre := getNode_congr (by simp [h]) pre
    rw [this, getNode_setNode_prefix hf]
    cases hg : getNode sv pre with
    | none => simp [hg] at hp
    | some p => simp

theorem removeIndexEntry_rootStep (sv : Server) (parent : List Bytes) (key : Bytes) (notify : Bool) :
    RootStep parent sv (removeIndexEntry sv parent key notify) := by
  cases h : getNode sv parent with
  | none => left; simp [removeIndexEntry, h]
  | some p =>
    cases hi : lastIndexOf p.index key with
    | none => left; rw [removeIndexEntry_none notify h hi]
    | some i =>
      right
      refine ⟨fun q => q.setIndex (q.index.eraseIdx i), setIndex_name_pres _, ?_⟩
      cases notify with
      | true => rw [removeIndexEntry_emits h hi]; simp
      | false => rw [removeIndexEntry_quiet h hi]; simp

theorem removeOneRest_rootStep (sv : Server) (by_ : Nat) (notify : Bool) (parent : List Bytes) (key : Bytes) :
    RootStep parent sv (removeOneRest sv by_ notify parent key) := by
  right
  refine ⟨fun p => p.setKids (removeKid key p.kids), setKids_name_pres _, ?_⟩
  unfold removeOneRest
  simp only [setNode_root, removeOneMid_root]

/-- one `removeOne` strictly below `pre`: the node at `pre` keeps index and child names -/
theorem removeOne_sameAt (sv : Server) (by_ : Nat) (notify : Bool) (pre : List Bytes) (a : Bytes) (r : List Bytes)
    (k : Bytes) : SameAt pre sv (removeOne sv by_ notify ((pre ++ a :: r) ++ [k])) := by
  cases hc : getNode sv ((pre ++ a :: r) ++ [k]) with
  | none => rw [removeOne_absent by_ notify hc]; exact SameAt.refl _ _
  | some c =>
    rw [removeOne_eq by_ notify hc]
    exact ((removeIndexEntry_rootStep sv _ k notify).sameAt).trans ((removeOneRest_rootStep _ by_ notify _ k).sameAt)

/-- one `removeOne` of something below `pre` (not `pre` itself): the node at `pre` stays -/
theorem removeOne_keepsNode (sv : Server) (by_ : Nat) (notify : Bool) (pre ext : List Bytes) (k : Bytes) :
    KeepsNode pre sv (removeOne sv by_ notify ((pre ++ ext) ++ [k])) := by
  cases hc : getNode sv ((pre ++ ext) ++ [k]) with
  | none => rw [removeOne_absent by_ notify hc]; exact KeepsNode.refl _ _
  | some c =>
    rw [removeOne_eq by_ notify hc]
    exact ((removeIndexEntry_rootStep sv _ k notify).keepsNode).trans ((removeOneRest_rootStep _ by_ notify _ k).keepsNode)

/-! ## the removal order -/

/-- the descendants' part of `removalOrder` -/
def removalDesc : Nat → List Bytes → Node → List (List Bytes)
  | 0, _, _ => []
  | fuel+1, names, n => n.kids.flatMap (fun k => removalOrder fuel (names ++ [k.name]) k)

theorem removalOrder_eq (fuel : Nat) (names : List Bytes) (n : Node) :
    removalOrder fuel names n = removalDesc fuel names n ++ [names] := by
  cases fuel <;> simp [removalOrder, removalDesc]

theorem removalOrder_ext (fuel : Nat) (names : List Bytes) (n : Node) :
    ∀ q ∈ removalOrder fuel names n, ∃ e, q = names ++ e := by
  induction fuel generalizing names n with
  | zero => intro q hq; simp [removalOrder] at hq; exact ⟨[], by simp [hq]⟩
  | succ fuel ih =>
    intro q hq
    simp only [removalOrder, List.mem_append, List.mem_flatMap, List.mem_singleton] at hq
    rcases hq with ⟨k, _, hk⟩ | hq
    · obtain ⟨e, he⟩ := ih _ _ q hk
      exact ⟨k.name :: e, by simp [he]⟩
    · exact ⟨[], by simp [hq]⟩

theorem removalDesc_ext (fuel : Nat) (names : List Bytes) (n : Node) :
    ∀ q ∈ removalDesc fuel names n, ∃ e k, q = (names ++ e) ++ [k] := by
  intro q hq
  cases fuel with
  | zero => simp [removalDesc] at hq
  | succ fuel =>
    simp only [removalDesc, List.mem_flatMap] at hq
    obtain ⟨c, _, hc⟩ := hq
    obtain ⟨e, he⟩ := removalOrder_ext _ _ _ q hc
    have hne : [c.name] ++ e ≠ [] := by simp
    refine ⟨([c.name] ++ e).dropLast, ([c.name] ++ e).getLast hne, ?_⟩
    rw [List.append_assoc, List.dropLast_concat_getLast, he]
    simp

/-- the state after the descendants of `parent ++ [key]` have been removed -/
def removeDescs (sv : Server) (by_ : Nat) (notify : Bool) (names : List Bytes) (n : Node) : Server :=
  (removalDesc fuelDepth names n).foldl (fun sv nm => removeOne sv by_ notify nm) sv

theorem removeChild_eq {sv : Server} {names : List Bytes} {n : Node} (by_ : Nat) (notify : Bool)
    (h : getNode sv names = some n) :
    removeChild sv by_ notify names = removeOne (removeDescs sv by_ notify names n) by_ notify names := by
  simp [removeChild, h, removalOrder_eq, List.foldl_append, removeDescs]

theorem removeChild_absent {sv : Server} {names : List Bytes} (by_ : Nat) (notify : Bool)
    (h : getNode sv names = none) : removeChild sv by_ notify names = sv := by
  simp [removeChild, h]

theorem foldl_removeOne_frame (by_ : Nat) (notify : Bool) (parent : List Bytes) (key : Bytes)
    (qs : List (List Bytes)) (hq : ∀ q ∈ qs, ∃ e k, q = ((parent ++ [key]) ++ e) ++ [k]) (sv : Server) :
    SameAt parent sv (qs.foldl (fun sv nm => removeOne sv by_ notify nm) sv) ∧
    KeepsNode (parent ++ [key]) sv (qs.foldl (fun sv nm => removeOne sv by_ notify nm) sv) := by
  induction qs generalizing sv with
  | nil => exact ⟨SameAt.refl _ _, KeepsNode.refl _ _⟩
  | cons q r ih =>
    simp only [List.foldl_cons]
    obtain ⟨e, k, rfl⟩ := hq q (by simp)
    have ih' := ih (fun q hq' => hq q (List.mem_cons_of_mem _ hq')) (removeOne sv by_ notify (parent ++ [key] ++ e ++ [k]))
    constructor
    · have h1 : SameAt parent sv (removeOne sv by_ notify (parent ++ [key] ++ e ++ [k])) := by
        have := removeOne_sameAt sv by_ notify parent key e k
        simpa using this
      exact h1.trans ih'.1
    · exact (removeOne_keepsNode sv by_ notify (parent ++ [key]) e k).trans ih'.2

theorem removeDescs_frame (sv : Server) (by_ : Nat) (notify : Bool) (parent : List Bytes) (key : Bytes) (n : Node) :
    SameAt parent sv (removeDescs sv by_ notify (parent ++ [key]) n) ∧
    KeepsNode (parent ++ [key]) sv (removeDescs sv by_ notify (parent ++ [key]) n) :=
  foldl_removeOne_frame by_ notify parent key _ (removalDesc_ext _ _ _) sv

/-- the parent after `RemoveChild(key, recurse)`: last index entry named `key` gone, child gone; nothing else
    about its index or the names of its children changed -/
theorem getNode_removeChild {sv : Server} {parent : List Bytes} {p c : Node} {key : Bytes} (by_ : Nat) (notify : Bool)
    (h : getNode sv parent = some p) (hc : getNode sv (parent ++ [key]) = some c) :
    ∃ p', Same p p' ∧ getNode (removeDescs sv by_ notify (parent ++ [key]) c) parent = some p' ∧
      getNode (removeChild sv by_ notify (parent ++ [key])) parent =
        some ((p'.setIndex (eraseLast p.index key)).setKids (removeKid key p'.kids)) := by
  obtain ⟨hs, hk⟩ := removeDescs_frame sv by_ notify parent key c
  obtain ⟨p', hp', hsame⟩ := hs p h
  have hc' := hk (by simp [hc])
  obtain ⟨c', hc'⟩ := Option.isSome_iff_exists.mp hc'
  refine ⟨p', hsame, hp', ?_⟩
  rw [removeChild_eq by_ notify hc, getNode_removeOne by_ notify hp' hc', hsame.1]

end Muscle.Reflector
