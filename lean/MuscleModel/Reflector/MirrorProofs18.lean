import MuscleModel.Reflector.MirrorProofs17

/-!
# C04 lemmas, part 18: `DoGetData` — the snapshot a SUBSCRIBE sends straight to the inbox

* `gdStep`, `doGetData_eq`: the fold of `DoGetData` with its step function named (equal to the model by `rfl`);
* `SD C sid sC X sent`: the server `X` has the tree of `C`, and session `sid` is `sC` except for its inbox, whose data lines
  grew by the text of the structured Messages `sent`;
* `doGetData_replay`: after `DoGetData` the data lines grew by `sent.map dataText` with
  `applyMsgs m sent = (snapEvs …).foldl applyEv m`, where `snapEvs` = one `set` per visited (existing) node, in order —
  whatever `maxItems` is, and with the index Messages (not data lines) interleaved.
-/

set_option linter.unusedSimpArgs false
set_option linter.unusedVariables false

namespace Muscle.Reflector
open Muscle

/-- one visit of `DoGetData` -/
def gdStep (s : Sess) (sid : Nat) (st : Server × UpdMsg × IdxMsg) (v : Visit) : Server × UpdMsg × IdxMsg :=
  let (sv, dm, im) := st
  match getNode sv v with
  | none => st
  | some n =>
    let dm := dm.addSet (pathString v) n.data
    let (sv, dm) := if dm.numNames ≥ s.maxItems then (sv.deliver sid (dataText dm), ({} : UpdMsg)) else (sv, dm)
    if n.index.isEmpty then (sv, dm, im) else
      let np := pathString v
      let im := IdxMsg.add im np "c".toUTF8.toList
      let im := (n.index.zipIdx).foldl (fun im (nm, i) => IdxMsg.add im np (instrOf 'i' i nm)) im
      if im.length ≥ s.maxItems then (sv.deliver sid (idxText im), dm, []) else (sv, dm, im)

theorem doGetData_eq (sv : Server) (sid : Nat) (keys : List (Bytes × Option Filt)) :
    doGetData sv sid keys =
      match sv.sess? sid with
      | none => sv
      | some s =>
        let res := (travGlobal sv (pmOfKeys keys (some defaultPrefix)) true (getDataCb s)).foldl (gdStep s sid) (sv, {}, [])
        let sv1 := if res.2.1.numNames > 0 then res.1.deliver sid (dataText res.2.1) else res.1
        if res.2.2.length > 0 then sv1.deliver sid (idxText res.2.2) else sv1 := by
  unfold doGetData
  cases sv.sess? sid with
  | none => rfl
  | some s => rfl

/-- the tree of `C`; session `sid` is `sC` but for the inbox, whose data lines grew by the text of `sent` -/
def SD (C : Server) (sid : Nat) (sC : Sess) (X : Server) (sent : List UpdMsg) : Prop :=
  X.root = C.root ∧ ∃ si, X.sess? sid = some si ∧ si.core = sC.core ∧ si.nextData = sC.nextData ∧
    dataLines si = dataLines sC ++ sent.map dataText

theorem SD.deliver_data {C : Server} {sid : Nat} {sC : Sess} {X : Server} {sent : List UpdMsg} (h : SD C sid sC X sent)
    (u : UpdMsg) : SD C sid sC (X.deliver sid (dataText u)) (sent ++ [u]) := by
  obtain ⟨hr, si, hs, hc, hn, hd⟩ := h
  refine ⟨hr, { si with inbox := si.inbox ++ [dataText u] }, ?_, hc, hn, ?_⟩
  · unfold Server.deliver
    refine sess?_updSess_same X sid _ ?_ hs
    intro _; rfl
  · show List.filter isData (si.inbox ++ [dataText u]) = _
    rw [List.filter_append]
    have : List.filter isData si.inbox = dataLines si := rfl
    rw [this, hd]
    simp [isData_dataText]

theorem SD.deliver_idx {C : Server} {sid : Nat} {sC : Sess} {X : Server} {sent : List UpdMsg} (h : SD C sid sC X sent)
    (im : IdxMsg) : SD C sid sC (X.deliver sid (idxText im)) sent := by
  obtain ⟨hr, si, hs, hc, hn, hd⟩ := h
  refine ⟨hr, { si with inbox := si.inbox ++ [idxText im] }, ?_, hc, hn, ?_⟩
  · unfold Server.deliver
    refine sess?_updSess_same X sid _ ?_ hs
    intro _; rfl
  · show List.filter isData (si.inbox ++ [idxText im]) = _
    rw [List.filter_append]
    have : List.filter isData si.inbox = dataLines si := rfl
    rw [this, hd]
    simp [isData_idxText]

/-- the events of a snapshot: one `set` per visited node that exists, in the order of the visits -/
def snapEvs (C : Server) (vs : List Visit) : List Ev :=
  vs.filterMap (fun v => (getNode C v).map (fun n => Ev.set (pathString v) n.data))

theorem gdStep_spec (C : Server) (sid : Nat) (sC s : Sess) (m : Mirror) (st : Server × UpdMsg × IdxMsg)
    (sent : List UpdMsg) (h : SD C sid sC st.1 sent) (v : Visit) :
    ∃ sent', SD C sid sC (gdStep s sid st v).1 sent' ∧
      applyMsg (applyMsgs m sent') (gdStep s sid st v).2.1 =
        (snapEvs C [v]).foldl applyEv (applyMsg (applyMsgs m sent) st.2.1) := by
  obtain ⟨X, dm, im⟩ := st
  simp only at h
  have hg : getNode X v = getNode C v := getNode_congr h.1 v
  unfold gdStep snapEvs
  simp only [hg, List.filterMap_cons, List.filterMap_nil]
  cases hn : getNode C v with
  | none => exact ⟨sent, h, rfl⟩
  | some n =>
    simp only [Option.map_some, List.foldl_cons, List.foldl_nil, applyEv]
    have hview : applyMsg (applyMsgs m sent) (dm.addSet (pathString v) n.data) =
        (applyMsg (applyMsgs m sent) dm).upd (pathString v) (some n.data) := applyMsg_addSet _ _ _ _
    by_cases hfl : (dm.addSet (pathString v) n.data).numNames ≥ s.maxItems
    · simp only [hfl, if_true]
      have h1 := h.deliver_data (dm.addSet (pathString v) n.data)
      have hv1 : applyMsg (applyMsgs m (sent ++ [dm.addSet (pathString v) n.data])) {} =
          (applyMsg (applyMsgs m sent) dm).upd (pathString v) (some n.data) := by
        rw [applyMsg_empty, applyMsgs_append]
        simp only [applyMsgs, List.foldl_cons, List.foldl_nil]
        exact hview
      repeat' split
      all_goals first
        | exact ⟨_, h1, hv1⟩
        | exact ⟨_, h1.deliver_idx _, hv1⟩
    · simp only [hfl, if_false]
      repeat' split
      all_goals first
        | exact ⟨_, h, hview⟩
        | exact ⟨_, h.deliver_idx _, hview⟩

theorem snapEvs_append (C : Server) (a b : List Visit) : snapEvs C (a ++ b) = snapEvs C a ++ snapEvs C b := by
  simp [snapEvs, List.filterMap_append]

theorem gdFold_spec (C : Server) (sid : Nat) (sC s : Sess) (m : Mirror) :
    ∀ (vs : List Visit) (st : Server × UpdMsg × IdxMsg) (sent : List UpdMsg), SD C sid sC st.1 sent →
      ∃ sent', SD C sid sC (vs.foldl (gdStep s sid) st).1 sent' ∧
        applyMsg (applyMsgs m sent') (vs.foldl (gdStep s sid) st).2.1 =
          (snapEvs C vs).foldl applyEv (applyMsg (applyMsgs m sent) st.2.1) := by
  intro vs
  induction vs with
  | nil => intro st sent h; exact ⟨sent, h, rfl⟩
  | cons v r ih =>
    intro st sent h
    simp only [List.foldl_cons]
    obtain ⟨sent1, h1, hv1⟩ := gdStep_spec C sid sC s m st sent h v
    obtain ⟨sent2, h2, hv2⟩ := ih (gdStep s sid st v) sent1 h1
    refine ⟨sent2, h2, ?_⟩
    rw [hv2, hv1]
    have : snapEvs C (v :: r) = snapEvs C [v] ++ snapEvs C r := snapEvs_append C [v] r
    rw [this, List.foldl_append]

/-- SNAPSHOT.  `DoGetData` for session `sid` (record `sC`, nothing else assumed): tree unchanged, session unchanged but for
    the inbox, whose data lines grew by the text of Messages `sent` whose in-order application is the fold of one `set`
    per visited node. -/
theorem doGetData_replay (C : Server) (sid : Nat) (sC : Sess) (hs : C.sess? sid = some sC)
    (keys : List (Bytes × Option Filt)) (m : Mirror) :
    ∃ sent, SD C sid sC (doGetData C sid keys) sent ∧
      applyMsgs m sent =
        (snapEvs C (travGlobal C (pmOfKeys keys (some defaultPrefix)) true (getDataCb sC))).foldl applyEv m := by
  rw [doGetData_eq, hs]
  simp only []
  have h0 : SD C sid sC (C, ({} : UpdMsg), ([] : IdxMsg)).1 [] := ⟨rfl, sC, hs, rfl, rfl, by simp⟩
  obtain ⟨sent1, h1, hv1⟩ := gdFold_spec C sid sC sC m
    (travGlobal C (pmOfKeys keys (some defaultPrefix)) true (getDataCb sC)) (C, {}, []) [] h0
  simp only [applyMsgs, List.foldl_nil, applyMsg_empty] at hv1
  generalize (travGlobal C (pmOfKeys keys (some defaultPrefix)) true (getDataCb sC)).foldl (gdStep sC sid) (C, {}, []) = res
    at h1 hv1
  by_cases hnn : res.2.1.numNames > 0
  · simp only [hnn, if_true]
    have h2 := h1.deliver_data res.2.1
    have hv2 : applyMsgs m (sent1 ++ [res.2.1]) = List.foldl applyEv m
        (snapEvs C (travGlobal C (pmOfKeys keys (some defaultPrefix)) true (getDataCb sC))) := by
      rw [applyMsgs_append]
      simp only [applyMsgs, List.foldl_cons, List.foldl_nil]
      exact hv1
    split
    · exact ⟨_, h2.deliver_idx _, hv2⟩
    · exact ⟨_, h2, hv2⟩
  · simp only [hnn, if_false]
    have hz : res.2.1.numNames = 0 := by omega
    rw [applyMsg_noNames _ _ hz] at hv1
    split
    · exact ⟨_, h1.deliver_idx _, hv1⟩
    · exact ⟨_, h1, hv1⟩

/-! ## the value of a fold of sets -/

theorem foldSets_other (C : Server) (vs : List Visit) (m : Mirror) (p : Bytes)
    (h : ∀ v ∈ vs, (getNode C v).isSome → pathString v ≠ p) : ((snapEvs C vs).foldl applyEv m) p = m p := by
  induction vs generalizing m with
  | nil => rfl
  | cons v r ih =>
    have hr := fun w hw => h w (List.mem_cons_of_mem _ hw)
    unfold snapEvs
    simp only [List.filterMap_cons]
    cases hn : getNode C v with
    | none => simp only [Option.map_none]; exact ih m hr
    | some n =>
      simp only [Option.map_some, List.foldl_cons]
      have := ih (applyEv m (.set (pathString v) n.data)) hr
      unfold snapEvs at this
      rw [this]
      have hne : p ≠ pathString v := fun e => h v List.mem_cons_self (by rw [hn]; rfl) e.symm
      simp [applyEv, Mirror.upd, hne]

theorem foldSets_hit (C : Server) (vs : List Visit) (m : Mirror) (p : Bytes) (d : Option Nat)
    (hall : ∀ v ∈ vs, ∀ n, getNode C v = some n → pathString v = p → n.data = d)
    (hex : ∃ v ∈ vs, ∃ n, getNode C v = some n ∧ pathString v = p) : ((snapEvs C vs).foldl applyEv m) p = some d := by
  induction vs generalizing m with
  | nil => obtain ⟨v, hv, _⟩ := hex; cases hv
  | cons v r ih =>
    have hallr := fun w hw => hall w (List.mem_cons_of_mem _ hw)
    unfold snapEvs
    simp only [List.filterMap_cons]
    by_cases hexr : ∃ w ∈ r, ∃ n, getNode C w = some n ∧ pathString w = p
    · have := ih (match (getNode C v).map (fun n => Ev.set (pathString v) n.data) with
        | none => m | some e => applyEv m e) hallr hexr
      unfold snapEvs at this
      cases hn : getNode C v with
      | none => simp only [hn, Option.map_none] at this ⊢; exact this
      | some n => simp only [hn, Option.map_some, List.foldl_cons] at this ⊢; exact this
    · obtain ⟨w, hw, n, hn, hp⟩ := hex
      rcases List.mem_cons.1 hw with rfl | hw
      · simp only [hn, Option.map_some, List.foldl_cons]
        have hoth : ∀ u ∈ r, (getNode C u).isSome → pathString u ≠ p := by
          intro u hu hsome e
          obtain ⟨nu, hnu⟩ := Option.isSome_iff_exists.1 hsome
          exact hexr ⟨u, hu, nu, hnu, e⟩
        have := foldSets_other C r (applyEv m (.set (pathString w) n.data)) p hoth
        unfold snapEvs at this
        rw [this]
        have hd := hall w List.mem_cons_self n hn hp
        simp [applyEv, Mirror.upd, hp, hd]
      · exact absurd ⟨w, hw, n, hn, hp⟩ hexr

end Muscle.Reflector
