import MuscleModel.Reflector.MirrorProofs9

/-!
# C04 lemmas, part 10: the specification `Matches` / `MirrorOK` and one node change

* `visible s v`: the node at name path `v` is not one of `s`'s own (`ownerName v ≠ s`'s session-node name) or `s`
  reflects to itself — the rule of `NotifySubscribersThatNodeChanged`'s caller test and of `GetDataCallback`.
* `Matches sv s p d`: some node below the root, at a name path with path string `p`, visible to `s`, wanted by `s`
  (an entry of `s.subs` matches the path and its filter accepts the payload), has payload `d`.
* `MirrorOK sv s m`: the client mirror `m` holds exactly that: `m p = some d ↔ Matches sv s p d` — nothing missing,
  nothing stale, nothing extra.
* `OneChange sv sv' v`: the two trees have the same payloads at every name path except `v`.
* `mirror_step`: if the tree changes at `v` only, `v`'s path string is unambiguous, and the (optional) event handed to `s`
  turns the right entry for the old node into the right entry for the new node and touches no other path, then
  `MirrorOK` is kept.
-/

set_option linter.unusedSimpArgs false
set_option linter.unusedVariables false

namespace Muscle.Reflector
open Muscle

def visible (s : Sess) (v : List Bytes) : Bool := decide (ownerName v ≠ some (sidName s.sid)) || s.reflectSelf

def Matches (sv : Server) (s : Sess) (p : Bytes) (d : Option Nat) : Prop :=
  ∃ v n, v ≠ [] ∧ getNode sv v = some n ∧ pathString v = p ∧ visible s v = true ∧ wants s v n.data = true ∧ n.data = d

def MirrorOK (sv : Server) (s : Sess) (m : Mirror) : Prop := ∀ p d, m p = some d ↔ Matches sv s p d

/-- what the mirror of `s` must hold at the path string of `v` when the node there has payload `x` (`none`: no node) -/
def expected (s : Sess) (v : List Bytes) (x : Option (Option Nat)) : Option (Option Nat) :=
  if visible s v then entryFor s v x else none

/-- the path string of `v` belongs to no other existing node of `sv` -/
def Unamb (sv : Server) (v : List Bytes) : Prop := ∀ w, pathString w = pathString v → (getNode sv w).isSome → w = v

theorem matches_at {sv : Server} {s : Sess} {v : List Bytes} (hv : v ≠ []) (hu : Unamb sv v) (d : Option Nat) :
    Matches sv s (pathString v) d ↔ expected s v ((getNode sv v).map Node.data) = some d := by
  unfold expected
  constructor
  · rintro ⟨w, n, _, hn, hp, hvis, hw, hd⟩
    have hwv : w = v := hu w hp (by rw [hn]; rfl)
    subst hwv
    rw [hn]
    subst hd
    simp [hvis, entryFor, hw]
  · intro h
    by_cases hvis : visible s v = true
    · rw [if_pos hvis] at h
      cases hn : getNode sv v with
      | none => rw [hn] at h; simp [entryFor] at h
      | some n =>
        rw [hn] at h
        simp only [Option.map_some, entryFor] at h
        by_cases hw : wants s v n.data = true
        · rw [if_pos hw] at h
          exact ⟨v, n, hv, hn, rfl, hvis, hw, by simpa using h⟩
        · rw [if_neg hw] at h; cases h
    · rw [if_neg hvis] at h; cases h

theorem option_eq_of_some_iff {α} {a b : Option α} (h : ∀ d, a = some d ↔ b = some d) : a = b := by
  cases a with
  | none =>
    cases b with
    | none => rfl
    | some y => exact absurd ((h y).2 rfl) (by simp)
  | some x => exact ((h x).1 rfl).symm

theorem mirror_at {sv : Server} {s : Sess} {m : Mirror} (hm : MirrorOK sv s m) {v : List Bytes} (hv : v ≠ [])
    (hu : Unamb sv v) : m (pathString v) = expected s v ((getNode sv v).map Node.data) :=
  option_eq_of_some_iff (fun d => (hm (pathString v) d).trans (matches_at hv hu d))

/-- the payloads of the two trees agree at every name path except `v` -/
def OneChange (sv sv' : Server) (v : List Bytes) : Prop :=
  ∀ w, w ≠ v → (getNode sv' w).map Node.data = (getNode sv w).map Node.data

theorem matches_other {sv sv' : Server} {v : List Bytes} (hc : OneChange sv sv' v) (s : Sess) {p : Bytes}
    (hp : p ≠ pathString v) (d : Option Nat) : Matches sv' s p d ↔ Matches sv s p d := by
  have key : ∀ (a b : Server), (∀ w, w ≠ v → (getNode b w).map Node.data = (getNode a w).map Node.data) →
      Matches b s p d → Matches a s p d := by
    intro a b hab ⟨w, n, hw0, hn, hpw, hvis, hw, hd⟩
    have hwv : w ≠ v := by intro e; subst e; exact hp hpw.symm
    have := hab w hwv
    rw [hn] at this
    cases ha : getNode a w with
    | none => rw [ha] at this; simp at this
    | some n0 =>
      rw [ha] at this
      simp only [Option.map_some, Option.some.injEq] at this
      exact ⟨w, n0, hw0, ha, hpw, hvis, by rw [← this]; exact hw, by rw [← this]; exact hd⟩
  exact ⟨key sv sv' hc, key sv' sv (fun w hw => (hc w hw).symm)⟩

/-- MAIN step lemma.  The tree changes at `v` only; the (optional) event handed to `s` maps the right entry for the old
    node to the right entry for the new node and touches nothing else: `MirrorOK` is kept. -/
theorem mirror_step {sv sv' : Server} {s : Sess} {m : Mirror} {v : List Bytes} (hv : v ≠ [])
    (hc : OneChange sv sv' v) (hu : Unamb sv v) (hu' : Unamb sv' v) (ev : Option Ev)
    (hat : m (pathString v) = expected s v ((getNode sv v).map Node.data) →
      (applyOpt m ev) (pathString v) = expected s v ((getNode sv' v).map Node.data))
    (hother : ∀ q, q ≠ pathString v → (applyOpt m ev) q = m q)
    (hm : MirrorOK sv s m) : MirrorOK sv' s (applyOpt m ev) := by
  intro p d
  by_cases hp : p = pathString v
  · subst hp
    rw [hat (mirror_at hm hv hu), matches_at hv hu' d]
  · rw [hother p hp, matches_other hc s hp d]
    exact hm p d

/-- nothing is sent and the wanted entry at `v` does not change (invisible node, or no entry matches the path) -/
theorem mirror_step_silent {sv sv' : Server} {s : Sess} {m : Mirror} {v : List Bytes} (hv : v ≠ [])
    (hc : OneChange sv sv' v) (hu : Unamb sv v) (hu' : Unamb sv' v)
    (hsame : expected s v ((getNode sv' v).map Node.data) = expected s v ((getNode sv v).map Node.data))
    (hm : MirrorOK sv s m) : MirrorOK sv' s m :=
  mirror_step hv hc hu hu' none (fun h => by rw [hsame]; exact h) (fun _ _ => rfl) hm

theorem expected_invisible {s : Sess} {v : List Bytes} (h : visible s v = false) (x : Option (Option Nat)) :
    expected s v x = none := by
  unfold expected; rw [h]; rfl

theorem expected_nomatch {s : Sess} {v : List Bytes} (h : pmMatchCount s.subs v = 0) (x : Option (Option Nat)) :
    expected s v x = none := by
  unfold expected
  split
  · cases x with
    | none => rfl
    | some d =>
      simp only [entryFor]
      split
      · rename_i hw; have := mr_wants_pos hw; omega
      · rfl
  · rfl

/-- the three notified kinds of change, for a visible node with a positive match count and subscriptions enabled -/
theorem expected_overwrite {s : Sess} (hen : s.subsEnabled = true) {v : List Bytes} (hvis : visible s v = true)
    (hpos : 0 < pmMatchCount s.subs v) (m : Mirror) (od d : Option Nat)
    (h : m (pathString v) = expected s v (some od)) :
    (applyOpt m (changeEv s v d (some od) false)) (pathString v) = expected s v (some d) := by
  unfold expected at h ⊢
  rw [if_pos hvis] at h ⊢
  exact changeEv_overwrite s hen v hpos m od d h

theorem expected_create {s : Sess} (hen : s.subsEnabled = true) {v : List Bytes} (hvis : visible s v = true)
    (hpos : 0 < pmMatchCount s.subs v) (m : Mirror) (d : Option Nat)
    (h : m (pathString v) = expected s v none) :
    (applyOpt m (changeEv s v d none false)) (pathString v) = expected s v (some d) := by
  unfold expected at h ⊢
  rw [if_pos hvis] at h ⊢
  exact changeEv_create s hen v hpos m d h

theorem expected_remove {s : Sess} (hen : s.subsEnabled = true) {v : List Bytes} (hvis : visible s v = true)
    (m : Mirror) (od : Option Nat) (h : m (pathString v) = expected s v (some od)) :
    (applyOpt m (changeEv s v od (some od) true)) (pathString v) = expected s v none := by
  unfold expected at h ⊢
  rw [if_pos hvis] at h ⊢
  exact changeEv_remove s hen v m od h

/-! ## the events `changeEvents` holds for one session -/

theorem applyOpt_toList (m : Mirror) (e : Option Ev) : e.toList.foldl applyEv m = applyOpt m e := by
  cases e <;> rfl

theorem evsFor_filterMap (sid : Nat) (F : Nat → Option Ev) (cond : Nat → Bool) (subs : List (Nat × Nat)) :
    evsFor sid (subs.filterMap (fun (p : Nat × Nat) => if cond p.1 then (F p.1).map (fun ev => (p.1, ev)) else none)) =
      (subs.filter (fun p => p.1 = sid)).flatMap (fun _ => if cond sid then (F sid).toList else []) := by
  generalize hX : (if cond sid = true then (F sid).toList else []) = X
  induction subs with
  | nil => rfl
  | cons a r ih =>
    unfold evsFor at ih ⊢
    simp only [List.filterMap_cons, List.filter_cons]
    by_cases hk : a.1 = sid
    · simp only [hk, decide_true, if_true, List.flatMap_cons]
      by_cases hcd : cond sid = true
      · rw [if_pos hcd] at hX
        simp only [hcd, if_true]
        cases hF : F sid with
        | none =>
          rw [hF] at hX
          simp only [Option.toList_none] at hX
          subst hX
          simp only [Option.map_none, List.nil_append]; exact ih
        | some e =>
          rw [hF] at hX
          simp only [Option.toList_some] at hX
          subst hX
          simp only [Option.map_some, List.filterMap_cons, if_true, List.singleton_append]
          rw [ih]
      · rw [if_neg hcd] at hX
        subst hX
        simp only [hcd, if_false, Bool.false_eq_true, List.nil_append]; exact ih
    · simp only [hk, decide_false, Bool.false_eq_true, if_false]
      split
      · exact ih
      · rename_i b hb
        have hb1 : b.1 = a.1 := by
          split at hb
          · cases hF : F a.1 with
            | none => rw [hF] at hb; cases hb
            | some e => rw [hF] at hb; simp at hb; rw [← hb]
          · cases hb
        have : ¬ b.1 = sid := by rw [hb1]; exact hk
        simp only [List.filterMap_cons, this, if_false]
        exact ih

theorem filter_key_nodup (sid : Nat) (subs : List (Nat × Nat)) (h : (subs.map (·.1)).Nodup) :
    subs.filter (fun p => p.1 = sid) = [] ∨ ∃ c, subs.filter (fun p => p.1 = sid) = [(sid, c)] := by
  induction subs with
  | nil => left; rfl
  | cons a r ih =>
    simp only [List.map_cons, List.nodup_cons] at h
    simp only [List.filter_cons]
    by_cases hk : a.1 = sid
    · right
      obtain ⟨k, c⟩ := a
      simp only at hk; subst hk
      refine ⟨c, ?_⟩
      simp only [decide_true, if_true]
      have : r.filter (fun p => p.1 = k) = [] := by
        rw [List.filter_eq_nil_iff]
        intro p hp
        simp only [decide_eq_true_eq]
        intro e
        exact h.1 (e ▸ List.mem_map_of_mem (f := (·.1)) hp)
      rw [this]
    · simp only [hk, decide_false, Bool.false_eq_true, if_false]
      exact ih h.2

/-- with pairwise distinct ids: the event for `sid`, if it has an entry and passes the caller test -/
theorem evsFor_changeEvents (sv : Server) (by_ : Nat) (names : List Bytes) (node : Node) (od : Option (Option Nat))
    (removed : Bool) (sid : Nat) (h : (node.subs.map (·.1)).Nodup) :
    evsFor sid (changeEvents sv by_ names node od removed) =
      if node.subs.any (fun p => p.1 = sid) && (sid ≠ by_ || bySelfOf sv by_) then
        (sessEv sv sid names node.data od removed).toList else [] := by
  unfold changeEvents
  have := evsFor_filterMap sid (fun k => sessEv sv k names node.data od removed)
    (fun k => k ≠ by_ || bySelfOf sv by_) node.subs
  rw [this]
  rcases filter_key_nodup sid node.subs h with h0 | ⟨c, h1⟩
  · have hany : node.subs.any (fun p => p.1 = sid) = false := by
      rw [List.any_eq_false]
      intro p hp hps
      have : p ∈ node.subs.filter (fun p => p.1 = sid) := List.mem_filter.2 ⟨hp, hps⟩
      rw [h0] at this; cases this
    rw [h0, hany]; rfl
  · have hany : node.subs.any (fun p => p.1 = sid) = true := by
      rw [List.any_eq_true]
      have : (sid, c) ∈ node.subs.filter (fun p => p.1 = sid) := by rw [h1]; exact List.mem_cons_self
      exact ⟨(sid, c), (List.mem_filter.1 this).1, by simp⟩
    rw [h1, hany]
    simp

end Muscle.Reflector
