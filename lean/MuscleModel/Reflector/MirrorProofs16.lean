import MuscleModel.Reflector.MirrorProofs15

/-!
# C04 lemmas, part 16: `RemoveChild` (recursive), REMOVEDATA

* `DataKept`: every session keeps core, pending data Message and inbox (what `NodeIndexChanged` does) — an empty pipe step;
* `syncAll_removeIndexEntry`, `syncAll_removeOne` (a node without visible descendants), and by induction over
  `removalOrder` (children first, always the first remaining child) `syncAll_removeChild`;
* `syncAll_removeData`: the handler (a fold of `removeChild` over the visits of the session traversal).
-/

set_option linter.unusedSimpArgs false
set_option linter.unusedVariables false

namespace Muscle.Reflector
open Muscle Muscle.Eng.SrvEngine

/-! ## sessions untouched in everything the data pipe reads -/

def DataKept (sv sv' : Server) : Prop :=
  ∀ sid s, sv.sess? sid = some s → ∃ s', sv'.sess? sid = some s' ∧ s'.core = s.core ∧ s'.nextData = s.nextData ∧
    s'.inbox = s.inbox

theorem DataKept.refl (sv : Server) : DataKept sv sv := fun _ s hs => ⟨s, hs, rfl, rfl, rfl⟩

theorem DataKept.trans {a b c : Server} (h1 : DataKept a b) (h2 : DataKept b c) : DataKept a c := by
  intro sid s hs
  obtain ⟨s1, hs1, c1, d1, i1⟩ := h1 sid s hs
  obtain ⟨s2, hs2, c2, d2, i2⟩ := h2 sid s1 hs1
  exact ⟨s2, hs2, c2.trans c1, d2.trans d1, i2.trans i1⟩

theorem DataKept.of_sessions {sv sv' : Server} (h : sv'.sessions = sv.sessions) : DataKept sv sv' := by
  intro sid s hs
  refine ⟨s, ?_, rfl, rfl, rfl⟩
  unfold Server.sess? at hs ⊢; rw [h]; exact hs

theorem dataKept_updSess (sv : Server) (t : Nat) (f : Sess → Sess)
    (hf : ∀ s, (f s).sid = s.sid ∧ (f s).core = s.core ∧ (f s).nextData = s.nextData ∧ (f s).inbox = s.inbox) :
    DataKept sv (sv.updSess t f) := by
  intro sid s hs
  rw [sess?_updSess sv t f (fun s => (hf s).1), hs]
  simp only [Option.map_some]
  split
  · exact ⟨f s, rfl, (hf s).2.1, (hf s).2.2.1, (hf s).2.2.2⟩
  · exact ⟨s, rfl, rfl, rfl, rfl⟩

theorem dataKept_notifyIndex (sv : Server) (names : List Bytes) (node : Node) (instr : Bytes) :
    DataKept sv (notifyIndex sv names node instr) := by
  unfold notifyIndex
  apply foldl_inv (fun x => DataKept sv x) _ _ _ _ (DataKept.refl sv)
  intro cur x hcur
  repeat' split
  all_goals first
    | exact hcur
    | (refine hcur.trans (DataKept.trans (dataKept_updSess cur _ _ ?_) (DataKept.of_sessions rfl))
       intro s; exact ⟨rfl, rfl, rfl, rfl⟩)

theorem pipeStep_of_dataKept {sv sv' : Server} (h : DataKept sv sv') (sid : Nat) : PipeStep sid sv sv' [] := by
  intro s hs
  obtain ⟨s', hs', hc, hd, hi⟩ := h sid s hs
  refine ⟨s', [], hs', vcore_of_core hc, by simp [dataLines, hi], fun m => ?_⟩
  simp [pend, hd, applyMsgs]

/-- an operation that keeps every payload of the tree and the data pipes is an empty step for everybody -/
theorem syncAll_of_kept {sv sv' : Server} (hd : DataKept sv sv')
    (hdata : ∀ w, (getNode sv' w).map Node.data = (getNode sv w).map Node.data) : SyncAll sv sv' := by
  intro sid s hs hen m
  refine ⟨[], pipeStep_of_dataKept hd sid, fun hm => ?_⟩
  intro p d
  rw [matches_congr (a := sv) (b := sv') hdata s p d]
  exact hm p d

theorem mr_setField_data_all {f : Node → Node} (hname : ∀ n, (f n).name = n.name) (hkids : ∀ n, (f n).kids = n.kids)
    (hdata : ∀ n, (f n).data = n.data) (sv : Server) (v w : List Bytes) :
    (getNode (setNode sv v f) w).map Node.data = (getNode sv w).map Node.data := by
  by_cases hw : w = v
  · subst hw
    rw [getNode_setNode hname, Option.map_map]
    congr 1
    funext n; exact hdata n
  · exact mr_setField_data hname hkids sv v w hw

/-- the three shapes of `removeIndexEntry` -/
theorem removeIndexEntry_shape (sv : Server) (parent : List Bytes) (key : Bytes) (notify : Bool) :
    removeIndexEntry sv parent key notify = sv ∨
    (∃ i, removeIndexEntry sv parent key notify = setNode sv parent (fun q => q.setIndex (q.index.eraseIdx i))) ∨
    (∃ i p' ins, removeIndexEntry sv parent key notify =
      notifyIndex (setNode sv parent (fun q => q.setIndex (q.index.eraseIdx i))) parent p' ins) := by
  cases h : getNode sv parent with
  | none => left; simp [removeIndexEntry, h]
  | some p =>
    cases hi : lastIndexOf p.index key with
    | none => left; exact removeIndexEntry_none notify h hi
    | some i =>
      cases notify with
      | true => right; right; exact ⟨i, _, _, removeIndexEntry_emits h hi⟩
      | false => right; left; exact ⟨i, removeIndexEntry_quiet h hi⟩

theorem removeIndexEntry_kept (sv : Server) (parent : List Bytes) (key : Bytes) (notify : Bool) :
    DataKept sv (removeIndexEntry sv parent key notify) ∧
    ∀ w, (getNode (removeIndexEntry sv parent key notify) w).map Node.data = (getNode sv w).map Node.data := by
  have hset : ∀ i : Nat, DataKept sv (setNode sv parent (fun p => p.setIndex (p.index.eraseIdx i))) ∧
      ∀ w, (getNode (setNode sv parent (fun p => p.setIndex (p.index.eraseIdx i))) w).map Node.data =
        (getNode sv w).map Node.data :=
    fun i => ⟨DataKept.of_sessions rfl, fun w => mr_setField_data_all (f := fun p => p.setIndex (p.index.eraseIdx i))
      (fun _ => rfl) (fun _ => rfl) (fun _ => rfl) sv parent w⟩
  rcases removeIndexEntry_shape sv parent key notify with h | ⟨i, h⟩ | ⟨i, p', ins, h⟩
  · rw [h]; exact ⟨DataKept.refl sv, fun _ => rfl⟩
  · rw [h]; exact hset i
  · rw [h]
    refine ⟨(hset i).1.trans (dataKept_notifyIndex _ parent p' ins), fun w => ?_⟩
    rw [getNode_notifyIndex]; exact (hset i).2 w

theorem syncAll_removeIndexEntry (sv : Server) (parent : List Bytes) (key : Bytes) (notify : Bool) :
    SyncAll sv (removeIndexEntry sv parent key notify) :=
  syncAll_of_kept (removeIndexEntry_kept sv parent key notify).1 (removeIndexEntry_kept sv parent key notify).2

/-! ## cores of the sessions -/

def CoreKept (sv sv' : Server) : Prop := sv'.sessions.map Sess.core = sv.sessions.map Sess.core

theorem CoreKept.trans {a b c : Server} (h1 : CoreKept a b) (h2 : CoreKept b c) : CoreKept a c := Eq.trans h2 h1

theorem sameOwn_of_coreKept {a : Nat} {own : List Bytes} {X Y : Server} (h : CoreKept X Y) (hx : SameOwn a own X) :
    SameOwn a own Y :=
  sameOwn_of_notify (X := { X with root := Y.root }) (Y := Y) ⟨rfl, h⟩ hx

theorem coreKept_removeOne (sv : Server) (by_ : Nat) (notify : Bool) (names : List Bytes) :
    CoreKept sv (removeOne sv by_ notify names) := by
  have hidx : ∀ p k n, CoreKept sv (removeIndexEntry sv p k n) := by
    intro p k n
    rcases removeIndexEntry_shape sv p k n with h | ⟨i, h⟩ | ⟨i, p', ins, h⟩
    · rw [h]; rfl
    · rw [h]; rfl
    · rw [h]; exact (notifyIndex_notify (setNode sv p _) p p' ins).2
  unfold removeOne
  split
  · simp only []
    show CoreKept sv (setNode _ _ _)
    repeat' split
    all_goals first
      | exact hidx _ _ _
      | exact (hidx _ _ _).trans (notifyChanged_notify ..).2
  · rfl

/-! ## one node without visible descendants -/

/-- no node strictly below `v` is visible -/
def NoDesc (sv : Server) (v : List Bytes) : Prop := ∀ ext, ext ≠ [] → getNode sv (v ++ ext) = none

theorem mr_removeKid_data' {sv : Server} (hti : TreeInv sv) (parent : List Bytes) (key : Bytes) {c : Node}
    (hc : getNode sv (parent ++ [key]) = some c) (hnd : NoDesc sv (parent ++ [key])) (w : List Bytes)
    (hw : w ≠ parent ++ [key]) :
    (getNode (setNode sv parent (fun q => q.setKids (removeKid key q.kids))) w).map Node.data =
      (getNode sv w).map Node.data := by
  obtain ⟨p, hp, hk⟩ := getNode_snoc hc
  by_cases hpre : parent <+: w
  · obtain ⟨ext, rfl⟩ := hpre
    cases ext with
    | nil =>
      rw [List.append_nil, getNode_setNode (by intro _; rfl), hp]; rfl
    | cons b r =>
      by_cases hb : b = key
      · subst hb
        cases r with
        | nil => exact absurd rfl hw
        | cons b' r' =>
          have hold : getNode sv (parent ++ b :: b' :: r') = none := by
            have := hnd (b' :: r') (by simp)
            simpa using this
          rw [hold]
          rw [mr_getNode_setNode_below (by intro _; rfl), hp]
          simp only [Option.bind_some]
          cases fuelDepth - parent.length with
          | zero => simp [nodeAt_zero_cons]
          | succ k =>
            rw [nodeAt_succ_cons, setKids_kids,
              findKid_removeKid_nodup b p.kids (treeInv_getNode hti hp).here.2]
      · rw [mr_getNode_setNode_below (by intro _; rfl), mr_getNode_append, hp]
        simp only [Option.bind_some]
        cases fuelDepth - parent.length with
        | zero => simp [nodeAt_zero_cons]
        | succ k => rw [nodeAt_succ_cons, nodeAt_succ_cons, setKids_kids, findKid_removeKid_ne hb]
  · exact mr_getNode_setNode_off Node.data (by intro _ _; rfl) (by intro _; rfl) sv parent w hpre

/-- `sync_removeRest` with "no visible descendants" in place of "childless" -/
theorem sync_removeRest' {sv : Server} (hti : TreeInv sv) (hk : MK sv) (parent : List Bytes) (key : Bytes) {c : Node}
    (hc : getNode sv (parent ++ [key]) = some c) (hnd : NoDesc sv (parent ++ [key])) (hu : Unamb sv (parent ++ [key]))
    {sid : Nat} {s : Sess} (hs : sv.sess? sid = some s) (hen : s.subsEnabled = true) (by_ : Nat)
    (hcaller : (sid ≠ by_ ∨ bySelfOf sv by_ = true) ↔ visible s (parent ++ [key]) = true) (m : Mirror) :
    Sync sid s sv (removeOneRest sv by_ true parent key) m
      (evsFor sid (changeEvents sv by_ (parent ++ [key]) c (some c.data) true)) := by
  have hv : parent ++ [key] ≠ [] := by simp
  obtain ⟨p, hp, _⟩ := getNode_snoc hc
  unfold removeOneRest removeOneMid
  rw [hc]
  simp only [if_true]
  generalize hmid : notifyChanged sv by_ (parent ++ [key]) c (some c.data) true = mid
  have hmr : mid.root = sv.root := by rw [← hmid]; simp
  have hmt : TreeInv mid := treeInv_of_root hmr hti
  have hcm : getNode mid (parent ++ [key]) = some c := by rw [getNode_congr hmr]; exact hc
  have hpm : getNode mid parent = some p := by rw [getNode_congr hmr]; exact hp
  have hndm : NoDesc mid (parent ++ [key]) := by
    intro ext he; rw [getNode_congr hmr]; exact hnd ext he
  refine ⟨?_, fun hm => ?_⟩
  · have h1 := pipeStep_notifyChanged sid sv by_ (parent ++ [key]) c (some c.data) true
    rw [hmid] at h1
    have := h1.trans (pipeStep_sessions (sid := sid)
      (sv' := setNode mid parent (fun q => q.setKids (removeKid key q.kids))) rfl)
    simpa using this
  · have hcdata : OneChange sv (setNode mid parent (fun q => q.setKids (removeKid key q.kids))) (parent ++ [key]) := by
      intro w hw
      rw [mr_removeKid_data' hmt parent key hcm hndm w hw, getNode_congr hmr]
    have hgone : getNode (setNode mid parent (fun q => q.setKids (removeKid key q.kids))) (parent ++ [key]) = none :=
      mr_removeKid_gone hmt parent key hpm
    have hu' : Unamb (setNode mid parent (fun q => q.setKids (removeKid key q.kids))) (parent ++ [key]) := by
      intro w hw hsome
      by_cases hwv : w = parent ++ [key]
      · exact hwv
      · apply hu w hw
        rw [← isSome_of_map_eq (hcdata w hwv)]; exact hsome
    rw [evsFor_notify hk hv hc hs]
    split
    · rename_i hcond
      rw [applyOpt_toList]
      have hvis := hcaller.1 hcond.2
      apply mirror_step hv hcdata hu hu' _ _ (fun q hq => changeEv_other s _ _ _ _ m q hq) hm
      intro hmv
      rw [hgone]
      rw [hc] at hmv
      exact expected_remove hen hvis m c.data hmv
    · rename_i hcond
      simp only [List.foldl_nil]
      apply mirror_step_silent hv hcdata hu hu' _ hm
      by_cases hpos : 0 < pmMatchCount s.subs (parent ++ [key])
      · have hvis : visible s (parent ++ [key]) = false := by
          cases hvv : visible s (parent ++ [key]) with
          | false => rfl
          | true => exact absurd ⟨hpos, hcaller.2 hvv⟩ hcond
        rw [expected_invisible hvis, expected_invisible hvis]
      · have h0 : pmMatchCount s.subs (parent ++ [key]) = 0 := by omega
        rw [expected_nomatch h0, expected_nomatch h0]

/-- the invariants the removal needs -/
def Inv (sv : Server) : Prop := TreeInv sv ∧ Good sv

theorem Inv.removeOne {sv : Server} (h : Inv sv) (by_ : Nat) (names : List Bytes) : Inv (removeOne sv by_ true names) :=
  ⟨treeInv_removeOne by_ true names h.1, (MKT.removeOne by_ true names ⟨h.1, h.2.1⟩).2, NS.removeOne by_ true names h.2.2⟩

/-- `removeOne` of a node without visible descendants, for one subscriber, with the caller test given on the state the
    notification runs on (after `removeIndexEntry`) -/
theorem sync_removeOne_core {sv : Server} (h : Inv sv) (a : Nat) (parent : List Bytes) (key : Bytes) {c : Node}
    (hc : getNode sv (parent ++ [key]) = some c) (hnd : NoDesc sv (parent ++ [key]))
    {sid : Nat} {s : Sess} (hs : sv.sess? sid = some s) (hen : s.subsEnabled = true)
    (hcv : (sid ≠ a ∨ bySelfOf (removeIndexEntry sv parent key true) a = true) ↔ visible s (parent ++ [key]) = true)
    (m : Mirror) : ∃ evs, Sync sid s sv (removeOne sv a true (parent ++ [key])) m evs := by
  rw [removeOne_eq a true hc]
  obtain ⟨e1, h1⟩ := syncAll_removeIndexEntry sv parent key true sid s hs hen m
  obtain ⟨hkept, hdata⟩ := removeIndexEntry_kept sv parent key true
  generalize hX : removeIndexEntry sv parent key true = X at hkept hdata h1 hcv
  have hXt : TreeInv X := by rw [← hX]; exact treeInv_removeIndexEntry _ _ _ h.1
  have hXk : MK X := by rw [← hX]; exact h.2.1.removeIndexEntry ..
  have hXn : NS X := by rw [← hX]; exact NS.removeIndexEntry _ _ _ h.2.2
  have hcX : ∃ c', getNode X (parent ++ [key]) = some c' := by
    have := hdata (parent ++ [key])
    rw [hc] at this
    cases hg : getNode X (parent ++ [key]) with
    | none => rw [hg] at this; simp at this
    | some c' => exact ⟨c', rfl⟩
  obtain ⟨c', hc'⟩ := hcX
  have hndX : NoDesc X (parent ++ [key]) := by
    intro ext he
    have := hdata (parent ++ [key] ++ ext)
    rw [hnd ext he] at this
    cases hg : getNode X (parent ++ [key] ++ ext) with
    | none => rfl
    | some _ => rw [hg] at this; simp at this
  obtain ⟨s1, hs1, hc1, _, _⟩ := hkept sid s hs
  have hen1 : s1.subsEnabled = true := by
    have := congrArg Sess.subsEnabled hc1
    have h' : s1.subsEnabled = s.subsEnabled := this
    rw [h']; exact hen
  have hcv1 : (sid ≠ a ∨ bySelfOf X a = true) ↔ visible s1 (parent ++ [key]) = true := by
    rw [hcv]
    have h2 : s1.sid = s.sid := by have := congrArg Sess.sid hc1; exact this
    have h3 : s1.reflectSelf = s.reflectSelf := by have := congrArg Sess.reflectSelf hc1; exact this
    unfold visible; rw [h2, h3]
  have h2 := sync_removeRest' hXt hXk parent key hc' hndX (hXn.unamb (hXn.names hc')) hs1 hen1 a hcv1
    (e1.foldl applyEv m)
  exact ⟨_, h1.trans (sync_core (vcore_of_core hc1) h2)⟩

/-- `removeOne` of a node without visible descendants in the sender's subtree -/
theorem syncAll_removeOne {sv : Server} (h : Inv sv) {a : Nat} {own : List Bytes} (hown : SameOwn a own sv)
    (parent : List Bytes) (key : Bytes) (hpre : own <+: parent ++ [key]) {c : Node}
    (hc : getNode sv (parent ++ [key]) = some c)
    (hnd : NoDesc sv (parent ++ [key])) : SyncAll sv (removeOne sv a true (parent ++ [key])) := by
  intro sid s hs hen m
  apply sync_removeOne_core h a parent key hc hnd hs hen _ m
  obtain ⟨hkept, _⟩ := removeIndexEntry_kept sv parent key true
  obtain ⟨sa, hsa, hn⟩ := hown
  obtain ⟨sa', hsa', hca, _, _⟩ := hkept a sa hsa
  obtain ⟨s1, hs1, hc1, _, _⟩ := hkept sid s hs
  have hn' : sessNames sa' = own := by
    rw [← hn]
    have h1 : sa'.host = sa.host := by have := congrArg Sess.host hca; exact this
    have h2 : sa'.sid = sa.sid := by have := congrArg Sess.sid hca; exact this
    simp [sessNames, h1, h2]
  obtain ⟨w, hw⟩ := hpre
  have := caller_visible hsa' hs1 w
  rw [hn', hw] at this
  rw [this]
  have h2 : s1.sid = s.sid := by have := congrArg Sess.sid hc1; exact this
  have h3 : s1.reflectSelf = s.reflectSelf := by have := congrArg Sess.reflectSelf hc1; exact this
  unfold visible; rw [h2, h3]

/-! ## the recursion -/

theorem getNode_too_long (sv : Server) (w : List Bytes) (h : fuelDepth < w.length) : getNode sv w = none := by
  unfold getNode
  have : ∀ (fuel : Nat) (n : Node) (w : List Bytes), fuel < w.length → nodeAt fuel n w = none := by
    intro fuel
    induction fuel with
    | zero =>
      intro n w hw
      cases w with
      | nil => simp at hw
      | cons a r => exact nodeAt_zero_cons n a r
    | succ fuel ih =>
      intro n w hw
      cases w with
      | nil => simp at hw
      | cons a r =>
        rw [nodeAt_succ_cons]
        cases findKid a n.kids with
        | none => rfl
        | some k => exact ih k r (by simp at hw; omega)
  exact this _ _ _ h

/-- the kids of the node at `parent`, apart from the one named `key`, are the same -/
def ModKey (parent : List Bytes) (key : Bytes) (sv sv' : Server) : Prop :=
  ∀ p, getNode sv parent = some p → ∃ p', getNode sv' parent = some p' ∧ removeKid key p'.kids = removeKid key p.kids

theorem ModKey.refl (parent : List Bytes) (key : Bytes) (sv : Server) : ModKey parent key sv sv :=
  fun p hp => ⟨p, hp, rfl⟩

theorem ModKey.trans {parent : List Bytes} {key : Bytes} {a b c : Server} (h1 : ModKey parent key a b)
    (h2 : ModKey parent key b c) : ModKey parent key a c := by
  intro p hp
  obtain ⟨p1, hp1, e1⟩ := h1 p hp
  obtain ⟨p2, hp2, e2⟩ := h2 p1 hp1
  exact ⟨p2, hp2, e2.trans e1⟩

theorem removeKid_putKid_same (c : Node) (kids : List Node) : removeKid c.name (putKid c kids) = removeKid c.name kids := by
  induction kids with
  | nil => simp [putKid, removeKid]
  | cons k r ih =>
    rw [putKid]
    by_cases hk : k.name = c.name
    · rw [if_pos hk]; simp [removeKid, hk]
    · rw [if_neg hk]; simp [removeKid, hk, ih]

theorem RootStep.modKey {parent : List Bytes} {key : Bytes} {r : List Bytes} {sv sv' : Server}
    (h : RootStep (parent ++ key :: r) sv sv') : ModKey parent key sv sv' := by
  intro p hp
  rcases h with h | ⟨f, hf, h⟩
  · exact ⟨p, by rw [getNode_congr h]; exact hp, rfl⟩
  · have : getNode sv' parent = getNode (setNode sv (parent ++ key :: r) f) parent := getNode_congr (by simp [h]) parent
    rw [this, getNode_setNode_prefix hf, hp]
    refine ⟨_, rfl, ?_⟩
    dsimp only
    cases hk : fuelDepth - parent.length with
    | zero => rw [updateAt_zero_cons]
    | succ k =>
      rw [updateAt_succ_cons]
      cases hf' : findKid key p.kids with
      | none => rfl
      | some c =>
        simp only [setKids_kids]
        have hn : (updateAt k c r f).name = key := by rw [updateAt_name hf]; exact findKid_name hf'
        rw [← hn, removeKid_putKid_same]

theorem removeOne_modKey (sv : Server) (by_ : Nat) (parent : List Bytes) (key : Bytes) (e : List Bytes) (x : Bytes) :
    ModKey parent key sv (removeOne sv by_ true (((parent ++ [key]) ++ e) ++ [x])) := by
  have e1 : ((parent ++ [key]) ++ e) ++ [x] = (parent ++ key :: e) ++ [x] := by simp
  rw [e1]
  cases hc : getNode sv ((parent ++ key :: e) ++ [x]) with
  | none => rw [removeOne_absent by_ true hc]; exact ModKey.refl _ _ _
  | some c =>
    rw [removeOne_eq by_ true hc]
    have h1 := removeIndexEntry_rootStep sv (parent ++ key :: e) x true
    have h2 := removeOneRest_rootStep (removeIndexEntry sv (parent ++ key :: e) x true) by_ true (parent ++ key :: e) x
    exact h1.modKey.trans h2.modKey

theorem foldl_removeOne_modKey (by_ : Nat) (parent : List Bytes) (key : Bytes) (qs : List (List Bytes))
    (hq : ∀ q ∈ qs, ∃ e x, q = ((parent ++ [key]) ++ e) ++ [x]) (sv : Server) :
    ModKey parent key sv (qs.foldl (fun sv nm => removeOne sv by_ true nm) sv) := by
  induction qs generalizing sv with
  | nil => exact ModKey.refl _ _ _
  | cons q r ih =>
    simp only [List.foldl_cons]
    obtain ⟨e, x, rfl⟩ := hq q (by simp)
    exact (removeOne_modKey sv by_ parent key e x).trans (ih (fun q hq' => hq q (List.mem_cons_of_mem _ hq')) _)

theorem foldl_absent (by_ : Nat) (qs : List (List Bytes)) (sv : Server) (h : ∀ q ∈ qs, fuelDepth < q.length) :
    qs.foldl (fun sv nm => removeOne sv by_ true nm) sv = sv := by
  induction qs generalizing sv with
  | nil => rfl
  | cons q r ih =>
    simp only [List.foldl_cons]
    rw [removeOne_absent by_ true (getNode_too_long sv q (h q List.mem_cons_self))]
    exact ih sv (fun q' hq' => h q' (List.mem_cons_of_mem _ hq'))

theorem foldl_flatMap_eq {α β γ} (g : α → List β) (f : γ → β → γ) (l : List α) (init : γ) :
    (l.flatMap g).foldl f init = l.foldl (fun acc a => (g a).foldl f acc) init := by
  induction l generalizing init with
  | nil => rfl
  | cons a r ih => simp only [List.flatMap_cons, List.foldl_append, List.foldl_cons, ih]

/-- MAIN: `RemoveChild` of the subtree at `parent ++ [key]` (node `n0` with the kids of the static node `n` the order was
    computed from), in the sender's own subtree -/
theorem syncAll_removalOrder (a : Nat) (own : List Bytes) :
    ∀ (fuel : Nat) (parent : List Bytes) (key : Bytes) (n : Node) (sv : Server), Inv sv → SameOwn a own sv →
      own <+: parent ++ [key] → ∀ n0, getNode sv (parent ++ [key]) = some n0 → n0.kids = n.kids →
      fuelDepth ≤ fuel + (parent ++ [key]).length →
      SyncAll sv ((removalOrder fuel (parent ++ [key]) n).foldl (fun sv nm => removeOne sv a true nm) sv) ∧
      Inv ((removalOrder fuel (parent ++ [key]) n).foldl (fun sv nm => removeOne sv a true nm) sv) ∧
      SameOwn a own ((removalOrder fuel (parent ++ [key]) n).foldl (fun sv nm => removeOne sv a true nm) sv) ∧
      (∀ p, getNode sv parent = some p → ∃ p',
        getNode ((removalOrder fuel (parent ++ [key]) n).foldl (fun sv nm => removeOne sv a true nm) sv) parent = some p' ∧
        p'.kids = removeKid key p.kids) := by
  intro fuel
  induction fuel with
  | zero =>
    intro parent key n sv hinv hown hpre n0 hn0 _ hlen
    simp only [removalOrder, List.foldl_cons, List.foldl_nil]
    have hnd : NoDesc sv (parent ++ [key]) := by
      intro ext he
      apply getNode_too_long
      have : 0 < ext.length := List.length_pos_iff.2 he
      simp at hlen ⊢; omega
    refine ⟨syncAll_removeOne hinv hown parent key hpre hn0 hnd, hinv.removeOne a _,
      sameOwn_of_coreKept (coreKept_removeOne ..) hown, ?_⟩
    intro p hp
    exact ⟨_, getNode_removeOne a true hp hn0, by simp⟩
  | succ fuel ih =>
    intro parent key n sv hinv hown hpre n0 hn0 hkids hlen
    rw [removalOrder_eq, List.foldl_append]
    simp only [List.foldl_cons, List.foldl_nil]
    -- the descendants' phase
    have hdesc : ∃ sv1, sv1 = (removalDesc (fuel + 1) (parent ++ [key]) n).foldl (fun sv nm => removeOne sv a true nm) sv ∧
        SyncAll sv sv1 ∧ Inv sv1 ∧ SameOwn a own sv1 ∧ (∃ nf, getNode sv1 (parent ++ [key]) = some nf ∧ NoDesc sv1 (parent ++ [key])) := by
      refine ⟨_, rfl, ?_⟩
      by_cases hdeep : fuelDepth ≤ (parent ++ [key]).length
      · -- nothing below is visible: every step is a no-op
        have hall : ∀ q ∈ removalDesc (fuel + 1) (parent ++ [key]) n, fuelDepth < q.length := by
          intro q hq
          obtain ⟨e, x, rfl⟩ := removalDesc_ext _ _ _ q hq
          simp at hdeep ⊢; omega
        rw [foldl_absent a _ sv hall]
        refine ⟨SyncAll.refl sv, hinv, hown, n0, hn0, ?_⟩
        intro ext he
        apply getNode_too_long
        have : 0 < ext.length := List.length_pos_iff.2 he
        simp at hdeep ⊢; omega
      · have hshort : (parent ++ [key]).length < fuelDepth := by omega
        simp only [removalDesc]
        rw [foldl_flatMap_eq]
        -- fold over the remaining kids `ks` of the node at `parent ++ [key]`
        have kidsFold : ∀ (ks : List Node) (sv0 : Server) (ni : Node), Inv sv0 → SameOwn a own sv0 →
            getNode sv0 (parent ++ [key]) = some ni → ni.kids = ks →
            SyncAll sv0 (ks.foldl (fun acc k => (removalOrder fuel ((parent ++ [key]) ++ [k.name]) k).foldl
              (fun sv nm => removeOne sv a true nm) acc) sv0) ∧
            Inv (ks.foldl (fun acc k => (removalOrder fuel ((parent ++ [key]) ++ [k.name]) k).foldl
              (fun sv nm => removeOne sv a true nm) acc) sv0) ∧
            SameOwn a own (ks.foldl (fun acc k => (removalOrder fuel ((parent ++ [key]) ++ [k.name]) k).foldl
              (fun sv nm => removeOne sv a true nm) acc) sv0) ∧
            ∃ nf, getNode (ks.foldl (fun acc k => (removalOrder fuel ((parent ++ [key]) ++ [k.name]) k).foldl
              (fun sv nm => removeOne sv a true nm) acc) sv0) (parent ++ [key]) = some nf ∧ nf.kids = [] := by
          intro ks
          induction ks with
          | nil => intro sv0 ni hi ho hni hk; exact ⟨SyncAll.refl sv0, hi, ho, ni, hni, hk⟩
          | cons k ks' ihk =>
            intro sv0 ni hi ho hni hk
            simp only [List.foldl_cons]
            have hfk : findKid k.name ni.kids = some k := by rw [hk]; simp [findKid]
            have hck : getNode sv0 ((parent ++ [key]) ++ [k.name]) = some k := getNode_child hni k.name hfk hshort
            obtain ⟨s1, i1, o1, pk⟩ := ih (parent ++ [key]) k.name k sv0 hi ho
              (hpre.trans (List.prefix_append _ _)) k hck rfl (by simp at hlen ⊢; omega)
            obtain ⟨p', hp', hpk⟩ := pk ni hni
            have hks' : p'.kids = ks' := by rw [hpk, hk]; simp [removeKid]
            obtain ⟨s2, i2, o2, nf⟩ := ihk _ p' i1 o1 hp' hks'
            exact ⟨s1.trans s2, i2, o2, nf⟩
        obtain ⟨s1, i1, o1, nf, hnf, hnfk⟩ := kidsFold n.kids sv n0 hinv hown hn0 hkids
        refine ⟨s1, i1, o1, nf, hnf, ?_⟩
        intro ext he
        cases ext with
        | nil => exact absurd rfl he
        | cons b r =>
          rw [mr_getNode_append, hnf]
          simp only [Option.bind_some]
          cases fuelDepth - (parent ++ [key]).length with
          | zero => exact nodeAt_zero_cons _ _ _
          | succ k => rw [nodeAt_succ_cons, hnfk]; rfl
    obtain ⟨sv1, hsv1, s1, i1, o1, nf, hnf, hnd⟩ := hdesc
    rw [← hsv1]
    have hmk : ModKey parent key sv sv1 := by
      rw [hsv1]
      apply foldl_removeOne_modKey
      intro q hq
      obtain ⟨e, x, rfl⟩ := removalDesc_ext _ _ _ q hq
      exact ⟨e, x, rfl⟩
    refine ⟨s1.trans (syncAll_removeOne i1 o1 parent key hpre hnf hnd), i1.removeOne a _,
      sameOwn_of_coreKept (coreKept_removeOne ..) o1, ?_⟩
    intro p hp
    obtain ⟨p1, hp1, hpk⟩ := hmk p hp
    exact ⟨_, getNode_removeOne a true hp1 hnf, by simp [hpk]⟩

/-- `parent.RemoveChild(key, notify := a, recurse := true)` for a node of the sender's subtree (strictly below its
    session node) -/
theorem syncAll_removeChild {sv : Server} (h : Inv sv) {a : Nat} {own : List Bytes} (hown : SameOwn a own sv)
    (parent : List Bytes) (key : Bytes) (hpre : own <+: parent ++ [key]) :
    SyncAll sv (removeChild sv a true (parent ++ [key])) ∧ Inv (removeChild sv a true (parent ++ [key])) ∧
      SameOwn a own (removeChild sv a true (parent ++ [key])) := by
  unfold removeChild
  cases hn : getNode sv (parent ++ [key]) with
  | none => exact ⟨SyncAll.refl sv, h, hown⟩
  | some n =>
    simp only []
    have := syncAll_removalOrder a own fuelDepth parent key n sv h hown hpre n hn rfl (by omega)
    exact ⟨this.1, this.2.1, this.2.2.1⟩

/-- PR_COMMAND_REMOVEDATA -/
theorem syncAll_removeData {sv : Server} (h : Inv sv) (a : Nat) (keys : List Bytes) :
    SyncAll sv (removeData sv a keys) ∧ Inv (removeData sv a keys) := by
  unfold removeData
  cases hsa : sv.sess? a with
  | none => exact ⟨SyncAll.refl sv, h⟩
  | some sa =>
    simp only []
    have hvis : ∀ v ∈ (travSession sv sa (pmOfKeys (keys.map (fun k => (k, none))) none) removeDataCb).reverse,
        ∃ parent key, v = parent ++ [key] ∧ sessNames sa <+: parent := by
      intro v hv
      have hv' := List.mem_reverse.1 hv
      have hp := travSession_prefix sv sa _ _ v hv'
      have hl := travSession_length sv sa _ _ v hv'
      obtain ⟨t, rfl⟩ := hp
      have hne : t ≠ [] := by
        intro e; subst e; simp [sessNames] at hl
      refine ⟨sessNames sa ++ t.dropLast, t.getLast hne, ?_, List.prefix_append _ _⟩
      rw [List.append_assoc, List.dropLast_concat_getLast]
    generalize (travSession sv sa (pmOfKeys (keys.map (fun k => (k, none))) none) removeDataCb).reverse = V at hvis
    have : ∀ (V : List (List Bytes)) (sv0 : Server), Inv sv0 → SameOwn a (sessNames sa) sv0 →
        (∀ v ∈ V, ∃ parent key, v = parent ++ [key] ∧ sessNames sa <+: parent) →
        SyncAll sv0 (V.foldl (fun sv v => removeChild sv a true v) sv0) ∧
          Inv (V.foldl (fun sv v => removeChild sv a true v) sv0) := by
      intro V
      induction V with
      | nil => intro sv0 hi _ _; exact ⟨SyncAll.refl sv0, hi⟩
      | cons v r ih =>
        intro sv0 hi ho hV
        simp only [List.foldl_cons]
        obtain ⟨parent, key, rfl, hpre⟩ := hV _ List.mem_cons_self
        obtain ⟨s1, i1, o1⟩ := syncAll_removeChild hi ho parent key (hpre.trans (List.prefix_append _ _))
        obtain ⟨s2, i2⟩ := ih _ i1 o1 (fun v hv => hV v (List.mem_cons_of_mem _ hv))
        exact ⟨s1.trans s2, i2⟩
    exact this V sv h ⟨sa, hsa, rfl⟩ hvis

end Muscle.Reflector
