import MuscleModel.Reflector.IndexProofsList

/-!
# C13: `Instr.parse (Instr.render i) = some i` for every instruction (names may contain `:`)

Bytes of `toString n` = the ASCII decimal digits of `n`; the client's `atol`/`strchr` reading recovers
position and name.
-/

set_option linter.unusedSimpArgs false
set_option linter.unusedVariables false

namespace Muscle.Reflector
open Muscle

theorem byteArray_toList_loop_eq (bs : ByteArray) (k i : Nat) (r : List UInt8) (h : bs.size - i = k) :
    ByteArray.toList.loop bs i r = r.reverse ++ bs.data.toList.drop i := by
  have hsz : bs.size = bs.data.toList.length := by cases bs; rfl
  induction k generalizing i r with
  | zero =>
    rw [ByteArray.toList.loop]
    have : ¬ i < bs.size := by omega
    simp only [this, if_false]
    have : bs.data.toList.length ≤ i := by omega
    simp [List.drop_eq_nil_of_le this]
  | succ k ih =>
    rw [ByteArray.toList.loop]
    have hlt : i < bs.size := by omega
    simp only [hlt, if_true]
    rw [ih (i+1) _ (by omega)]
    have h2 : i < bs.data.toList.length := by omega
    rw [List.drop_eq_getElem_cons h2]
    cases bs with | mk d =>
    have h3 : i < d.size := by simpa using h2
    simp [ByteArray.get!, h3]

theorem byteArray_toList_eq (bs : ByteArray) : bs.toList = bs.data.toList := by
  simp [ByteArray.toList, byteArray_toList_loop_eq bs _ 0 [] rfl]

/-- UTF-8 of an ASCII string is one byte per character -/
theorem asciiBytes (l : List Char) (h : ∀ c ∈ l, c.val ≤ 127) :
    (String.ofList l).toUTF8.toList = l.map (fun c => c.val.toUInt8) := by
  rw [byteArray_toList_eq]
  simp only [String.toUTF8, String.toByteArray_ofList]
  induction l with
  | nil => simp
  | cons c r ih =>
    rw [← List.singleton_append, List.utf8Encode_append, ByteArray.data_append, List.utf8Encode_singleton]
    have : c.utf8Size = 1 := Char.utf8Size_eq_one_iff.mpr (h c (by simp))
    rw [String.utf8EncodeChar_eq_singleton this]
    simp [ih (fun c hc => h c (List.mem_cons_of_mem _ hc))]

/-- the decimal digits of `n` as bytes -/
def decB (n : Nat) : Bytes := (Nat.toDigits 10 n).map (fun c => c.val.toUInt8)

theorem digit_val {c : Char} (h : c.isDigit = true) : 48 ≤ c.val.toNat ∧ c.val.toNat ≤ 57 := by
  simp only [Char.isDigit, Bool.and_eq_true, decide_eq_true_eq, ge_iff_le, UInt32.le_iff_toNat_le] at h
  exact h

theorem isDigitB_decB (n : Nat) : ∀ b ∈ decB n, isDigitB b = true := by
  intro b hb
  simp only [decB, List.mem_map] at hb
  obtain ⟨c, hc, rfl⟩ := hb
  have := digit_val (Nat.isDigit_of_mem_toDigits (by decide) (by decide) hc)
  simp only [isDigitB, Bool.and_eq_true, decide_eq_true_eq, UInt32.toNat_toUInt8]
  omega

theorem decValB_map_aux (l : List Char) (init : Nat) (h : ∀ c ∈ l, c.isDigit = true) :
    (l.map (fun c => c.val.toUInt8)).foldl (fun a b => 10 * a + (b.toNat - 48)) init =
      Nat.ofDigitChars 10 l init := by
  induction l generalizing init with
  | nil => simp
  | cons c r ih =>
    simp only [List.map_cons, List.foldl_cons, Nat.ofDigitChars_cons]
    rw [ih _ (fun c hc => h c (List.mem_cons_of_mem _ hc))]
    have := digit_val (h c (by simp))
    congr 2
    simp only [UInt32.toNat_toUInt8, Char.toNat]
    have h0 : '0'.val.toNat = 48 := by decide
    omega

theorem decValB_decB (n : Nat) : decValB (decB n) = n := by
  unfold decValB decB
  rw [decValB_map_aux _ _ (fun c hc => Nat.isDigit_of_mem_toDigits (by decide) (by decide) hc)]
  exact Nat.ofDigitChars_ten_toDigits

/-- the bytes of an instruction string -/
theorem instrOf_bytes (op : Char) (hop : op.val ≤ 127) (pos : Nat) (key : Bytes) :
    instrOf op pos key = op.val.toUInt8 :: (decB pos ++ 58 :: key) := by
  unfold instrOf
  have h1 : String.singleton op ++ toString pos ++ ":" = String.ofList ([op] ++ Nat.toDigits 10 pos ++ [':']) := by
    rw [String.ofList_append, String.ofList_append, ← String.singleton_eq_ofList,
      ← Nat.toString_eq_ofList_toDigits]
  rw [h1, asciiBytes]
  · have : ':'.toUInt8 = 58 := by decide
    simp [decB, this]
  · intro c hc
    simp only [List.mem_append, List.mem_singleton] at hc
    rcases hc with (hc | hc) | hc
    · subst hc; exact hop
    · have := digit_val (Nat.isDigit_of_mem_toDigits (by decide) (by decide) hc)
      rw [UInt32.le_iff_toNat_le]
      have : (127 : UInt32).toNat = 127 := by decide
      omega
    · subst hc; decide

theorem parse_tail (pos : Nat) (key : Bytes) :
    decValB ((decB pos ++ 58 :: key).takeWhile isDigitB) = pos ∧
    ((decB pos ++ 58 :: key).dropWhile (fun b => b != 58)).drop 1 = key := by
  constructor
  · rw [List.takeWhile_append_of_pos (isDigitB_decB pos),
      List.takeWhile_cons_of_neg (by decide), List.append_nil, decValB_decB]
  · rw [List.dropWhile_append_of_pos]
    · rw [List.dropWhile_cons_of_neg (by decide)]; rfl
    · intro b hb
      have := isDigitB_decB pos b hb
      simp only [isDigitB, Bool.and_eq_true, decide_eq_true_eq] at this
      simp only [bne_iff_ne, ne_eq]
      intro hc; subst hc
      have : (58 : UInt8).toNat = 58 := by decide
      omega

theorem render_clear : Instr.clear.render = [99] := by
  unfold Instr.render
  have : "c" = String.ofList ['c'] := rfl
  rw [this, asciiBytes _ (by decide)]
  rfl

/-- the client's reading of a rendered instruction is that instruction -/
theorem parse_render (i : Instr) : Instr.parse i.render = some i := by
  cases i with
  | clear => rw [render_clear]; rfl
  | ins p n =>
    simp only [Instr.render]
    rw [instrOf_bytes 'i' (by decide)]
    have := parse_tail p n
    simp only [Instr.parse, this.1, this.2]
    rfl
  | rem p n =>
    simp only [Instr.render]
    rw [instrOf_bytes 'r' (by decide)]
    have := parse_tail p n
    simp only [Instr.parse, this.1, this.2]
    rfl

theorem replay_render (ix : List Bytes) (i : Instr) : replay ix i.render = i.apply ix := by
  simp [replay, parse_render]

theorem replayAll_render (ix : List Bytes) (l : List Instr) :
    replayAll ix (l.map Instr.render) = applyAll ix l := by
  induction l generalizing ix with
  | nil => rfl
  | cons i r ih =>
    simp only [List.map_cons, replayAll, applyAll, replay_render]
    cases i.apply ix with
    | none => rfl
    | some ix' => simp [ih]

theorem replayAll_append (ix : List Bytes) (a b : List Bytes) :
    replayAll ix (a ++ b) = (replayAll ix a).bind (fun ix' => replayAll ix' b) := by
  induction a generalizing ix with
  | nil => simp [replayAll]
  | cons i r ih =>
    simp only [List.cons_append, replayAll]
    cases replay ix i with
    | none => rfl
    | some ix' => simp [ih]

theorem snapshotLog_eq (ix : List Bytes) :
    snapshotLog ix = (Instr.clear :: (ix.zipIdx.map (fun (nm, i) => Instr.ins i nm))).map Instr.render := by
  simp [snapshotLog, Instr.render, List.map_map, Function.comp_def]

end Muscle.Reflector
