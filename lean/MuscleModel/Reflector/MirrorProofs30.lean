import MuscleModel.Reflector.MirrorProofs29

/-!
# C04 lemmas, part 30: the subscriber's own parameter commands at quiescent points

`OwnParamCmd c`: the parameter commands that do not touch what the data view reads (`subs`, `subsEnabled`, `reflectSelf`):
max-items-per-update and the default-route parameters, set or removed.  Sent by the subscriber itself at a quiescent point
they change its `maxItems` / `params` / route fields only: the tree, the pending Message, the inbox and the mirror's
specification are untouched (`ownParam_quiescent`).  `Run2` = `Run` with these commands.  (The reflect-to-self parameter is
NOT among them: it changes which nodes are visible, and the server sends no snapshot for it.)
-/

set_option linter.unusedSimpArgs false
set_option linter.unusedVariables false

namespace Muscle.Reflector
open Muscle Muscle.Eng.SrvEngine

def OwnParamCmd : Cmd → Prop
  | .paramMax _ => True
  | .unparamMax => True
  | .paramRoute _ => True
  | .paramRouteF _ _ => True
  | .unparamRoute => True
  | .unparamRouteF => True
  | _ => False

/-- the session after such a command keeps everything the data view and the data pipe read -/
theorem ownParam_sess {sv : Server} {sid : Nat} {s : Sess} (hs : sv.sess? sid = some s) (c : Cmd) (hc : OwnParamCmd c) :
    ∃ s', (runCmd sv sid c).sess? sid = some s' ∧ s'.sid = s.sid ∧ s'.subs = s.subs ∧ s'.subsEnabled = s.subsEnabled ∧
      s'.reflectSelf = s.reflectSelf ∧ s'.nextData = s.nextData ∧ s'.inbox = s.inbox ∧ (runCmd sv sid c).root = sv.root := by
  cases c with
  | paramMax n =>
    exact ⟨_, sess?_updSess_same sv sid _ (by intro _; rfl) hs, rfl, rfl, rfl, rfl, rfl, rfl, rfl⟩
  | paramRoute keys =>
    exact ⟨_, sess?_updSess_same sv sid _ (by intro _; rfl) hs, rfl, rfl, rfl, rfl, rfl, rfl, rfl⟩
  | paramRouteF keys fs =>
    exact ⟨_, sess?_updSess_same sv sid _ (by intro _; rfl) hs, rfl, rfl, rfl, rfl, rfl, rfl, rfl⟩
  | unparamMax =>
    refine ⟨_, sess?_updSess_same sv sid _ (by intro _; split <;> rfl) hs, ?_, ?_, ?_, ?_, ?_, ?_, rfl⟩ <;>
      (split <;> rfl)
  | unparamRoute =>
    refine ⟨_, sess?_updSess_same sv sid _ (by intro _; split <;> rfl) hs, ?_, ?_, ?_, ?_, ?_, ?_, rfl⟩ <;>
      (split <;> rfl)
  | unparamRouteF =>
    refine ⟨_, sess?_updSess_same sv sid _ (by intro _; split <;> rfl) hs, ?_, ?_, ?_, ?_, ?_, ?_, rfl⟩ <;>
      (split <;> rfl)
  | set _ _ _ => exact absurd hc (by simp [OwnParamCmd])
  | rm _ => exact absurd hc (by simp [OwnParamCmd])
  | sub _ _ => exact absurd hc (by simp [OwnParamCmd])
  | unsub _ => exact absurd hc (by simp [OwnParamCmd])
  | paramSelf => exact absurd hc (by simp [OwnParamCmd])
  | getparams => exact absurd hc (by simp [OwnParamCmd])
  | ins _ _ _ => exact absurd hc (by simp [OwnParamCmd])
  | reorder _ _ => exact absurd hc (by simp [OwnParamCmd])
  | send _ _ => exact absurd hc (by simp [OwnParamCmd])
  | ping _ => exact absurd hc (by simp [OwnParamCmd])

theorem cmdOK_of_ownParam {c : Cmd} (hc : OwnParamCmd c) : CmdOK c := by
  cases c <;> first | trivial | exact absurd hc (by simp [OwnParamCmd])

theorem ownParam_quiescent {sid : Nat} {sv : Server} {s : Sess} {m : Mirror} (q : Quiescent sid sv s m) (c : Cmd)
    (hc : OwnParamCmd c) :
    ∃ s', Quiescent sid (runCmd sv sid c) s' m ∧ dataLines s' = dataLines s ∧ s'.sid = s.sid ∧
      s'.reflectSelf = s.reflectSelf := by
  obtain ⟨s', hs', hsid, hsubs, hen, hrs, hnd, hin, hroot⟩ := ownParam_sess q.sess c hc
  refine ⟨s', ⟨q.inv.runCmd sid c (cmdOK_of_ownParam hc), hs', by rw [hen]; exact q.enabled, ?_, ?_⟩, ?_, hsid, hrs⟩
  · have := q.nothing; unfold pend at this ⊢; rw [hnd]; exact this
  · intro p d
    have hm : ∀ p d, Matches (runCmd sv sid c) s' p d ↔ Matches sv s p d := by
      intro p d
      unfold Matches visible wants
      rw [hsid, hrs, hsubs]
      constructor
      · rintro ⟨v, n, h1, h2, h3⟩; exact ⟨v, n, h1, by rw [← getNode_congr hroot]; exact h2, h3⟩
      · rintro ⟨v, n, h1, h2, h3⟩; exact ⟨v, n, h1, by rw [getNode_congr hroot]; exact h2, h3⟩
    rw [hm]; exact q.mirror p d
  · simp [dataLines, hin]

/-- `Run` plus the subscriber's own quiet parameter commands -/
inductive Run2 (sid : Nat) : Server → Server → Prop
  | run {a b : Server} : Run sid a b → Run2 sid a b
  | ownParam {sv : Server} (c : Cmd) : OwnParamCmd c → Run2 sid sv (runCmd sv sid c)
  | trans {a b c : Server} : Run2 sid a b → Run2 sid b c → Run2 sid a c

theorem run2_step {sid : Nat} {sv sv' : Server} (hr : Run2 sid sv sv') :
    ∀ {s : Sess} {m : Mirror}, Quiescent sid sv s m →
      ∃ s' items, Quiescent sid sv' s' (client m items) ∧
        dataLines s' = dataLines s ++ (msgsOf items).map dataText ∧ s'.sid = s.sid ∧ s'.reflectSelf = s.reflectSelf := by
  induction hr with
  | run h => intro s m q; exact run_step h q
  | ownParam c hc =>
    intro s m q
    obtain ⟨s', q', hd, hsid, hrs⟩ := ownParam_quiescent q c hc
    exact ⟨s', [], q', by simp [msgsOf, hd], hsid, hrs⟩
  | trans _ _ ih1 ih2 =>
    intro s m q
    obtain ⟨s1, it1, q1, hd1, hsid1, hrs1⟩ := ih1 q
    obtain ⟨s2, it2, q2, hd2, hsid2, hrs2⟩ := ih2 q1
    refine ⟨s2, it1 ++ it2, by rw [client_append]; exact q2, ?_, hsid2.trans hsid1, hrs2.trans hrs1⟩
    rw [msgsOf_append, List.map_append, ← List.append_assoc, ← hd1, hd2]

theorem converges_run2 {sid : Nat} {sv0 sv' : Server} (h0 : Inv2 sv0) {s0 : Sess} (hs0 : sv0.sess? sid = some s0)
    (hnos : s0.subs = []) (hen : s0.subsEnabled = true) (hq0 : pend s0 = {}) (hr : Run2 sid sv0 sv') :
    ∃ s' items, sv'.sess? sid = some s' ∧ pend s' = {} ∧
      dataLines s' = dataLines s0 ++ (msgsOf items).map dataText ∧
      MirrorOK sv' s' (client (fun _ => none) items) := by
  obtain ⟨s', items, q', hd, _, _⟩ := run2_step hr (quiescent_nosubs h0 hs0 hnos hen hq0)
  exact ⟨s', items, q'.sess, q'.nothing, hd, q'.mirror⟩

end Muscle.Reflector
