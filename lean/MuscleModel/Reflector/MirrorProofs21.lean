import MuscleModel.Reflector.MirrorProofs20

/-!
# C04 lemmas, part 21: arrival of another session

`attach sv slot host`: the new session joins the table (no subscription), its host node is created if absent, its session
node is created, pending updates are pushed.  For a subscriber `sid` that is already attached these are two (or one)
notified creations.  `FreshSessNode sv host`: the host node (if it exists) has no child named like the id the new session
gets — true in every reachable state (ids are never reused and session-node names are injective in the id), taken as a
hypothesis here.
-/

set_option linter.unusedSimpArgs false
set_option linter.unusedVariables false

namespace Muscle.Reflector
open Muscle Muscle.Eng.SrvEngine

def FreshSessNode (sv : Server) (host : Bytes) : Prop :=
  ∀ hn, getNode sv [host] = some hn → findKid (sidName sv.nextSid) hn.kids = none

theorem putChild_notify_absent (sv : Server) (by_ : Nat) (parent : List Bytes) (nm : Bytes) (dd : Option Nat) {p : Node}
    (hp : getNode sv parent = some p) (hk : findKid nm p.kids = none) :
    putChild sv by_ parent (Node.fresh nm dd) true = createStep sv by_ parent nm dd := by
  unfold putChild createStep
  simp [hp, hk]

/-- one notified creation by the arriving session `new`, seen by an older subscriber -/
theorem syncFor_create_by_new {sv : Server} (h : Good sv) (new : Nat) {sid : Nat} (hne : sid ≠ new) (parent : List Bytes)
    (nm : Bytes) {p : Node} (hp : getNode sv parent = some p) (hk : findKid nm p.kids = none)
    (hlen : parent.length < fuelDepth) (hnm : cSlash ∉ nm)
    (hvis : ∀ s, sv.sess? sid = some s → visible s (parent ++ [nm]) = true) :
    SyncFor sid sv (createStep sv new parent nm none) := by
  intro s hs hen m
  have hg1 := good_createStep h new parent nm none hnm
  unfold createStep at hg1 ⊢
  have hns1 := (ns_notifyChanged _ _ _ _ _ _).1 hg1.2
  have hnames : ∀ x ∈ parent ++ [nm], cSlash ∉ x := by
    intro x hx
    rcases List.mem_append.1 hx with hx | hx
    · exact h.2.names hp x hx
    · simp at hx; subst hx; exact hnm
  have hcv : (sid ≠ new ∨ bySelfOf sv new = true) ↔ visible s (parent ++ [nm]) = true := by
    simp [hne, hvis s hs]
  exact ⟨_, sync_create h.1 parent (Node.fresh nm none) rfl hp hk hlen (hns1.unamb hnames) hs hen new hcv m⟩

theorem sess?_append_old (l : List Sess) (ns : Sess) (sid : Nat) {s : Sess}
    (h : l.find? (fun x => x.sid = sid) = some s) : (l ++ [ns]).find? (fun x => x.sid = sid) = some s := by
  rw [List.find?_append, h]; rfl

def newSess (sv : Server) (slot : Nat) (host : Bytes) : Sess :=
  { slot := slot, sid := sv.nextSid, host := host, maxItems := sv.maxItemsDefault }

def addSessSv (sv : Server) (ns : Sess) : Server :=
  { sv with nextSid := sv.nextSid + 1, live := true, sessions := sv.sessions ++ [ns] }

theorem attach_shape (sv : Server) (slot : Nat) (host : Bytes) :
    ∃ A : Server, A.root = sv.root ∧ A.nextSid = sv.nextSid + 1 ∧
      (∃ ns : Sess, A.sessions = sv.sessions ++ [ns] ∧ ns.sid = sv.nextSid ∧ ns.subs = []) ∧
      (attach sv slot host).1 = pushAll (putChild (if (findKid host A.root.kids).isSome then A
        else putChild A sv.nextSid [] (Node.fresh host none) true) sv.nextSid [host]
        (Node.fresh (sidName sv.nextSid) none) true) :=
  ⟨addSessSv sv (newSess sv slot host), rfl, rfl, ⟨newSess sv slot host, rfl, rfl, rfl⟩, rfl⟩

/-- arrival of another session, seen by a subscriber that is already attached -/
theorem syncFor_attach {sv : Server} (h : Inv sv) (slot : Nat) (host : Bytes) (hh : cSlash ∉ host)
    (hfresh : FreshSessNode sv host) {sid : Nat} (hold : (sv.sess? sid).isSome) :
    SyncFor sid sv (attach sv slot host).1 := by
  obtain ⟨s0, hs0⟩ := Option.isSome_iff_exists.1 hold
  have hlt : sid < sv.nextSid := by
    have hm := List.mem_of_find?_eq_some hs0
    have hsid : s0.sid = sid := by simpa using List.find?_some hs0
    have := h.2.1.1.bound (s0.sid, s0.subs) (List.mem_map.2 ⟨s0, hm, rfl⟩)
    simpa [hsid] using this
  have hne : sid ≠ sv.nextSid := by omega
  obtain ⟨A, hAr, hAn, ⟨ns, hAss, hns1, hns2⟩, hshape⟩ := attach_shape sv slot host
  rw [hshape]
  have hAs : ∀ t s, sv.sess? t = some s → A.sess? t = some s := by
    intro t s hs
    unfold Server.sess? at hs ⊢
    rw [hAss]; exact sess?_append_old _ _ t hs
  have hAg : Good A := ⟨h.2.1.addSess ns hAr hAn hAss hns1 hns2, NS.of_root hAr h.2.2⟩
  have q1 : SyncFor sid sv A := (quiet_of_sess (sid := sid) (by rw [hAs sid s0 hs0, hs0]) hAr).syncFor
  have hvis1 : ∀ s, A.sess? sid = some s → visible s ([] ++ [host]) = true := by
    intro s _; simp [visible, ownerName]
  have hvis2 : ∀ (X : Server) s, X.sess? sid = some s → s.sid = sid →
      visible s ([host] ++ [sidName sv.nextSid]) = true := by
    intro X s _ hsid
    have : sidName sv.nextSid ≠ sidName s.sid := by
      intro e; rw [hsid] at e; exact hne (sidName_inj e).symm
    simp [visible, ownerName, this]
  -- the host node
  have step2 : ∃ B, B = (if (findKid host A.root.kids).isSome then A
      else putChild A sv.nextSid [] (Node.fresh host none) true) ∧ SyncFor sid A B ∧ Good B ∧
      (∃ hn, getNode B [host] = some hn ∧ findKid (sidName sv.nextSid) hn.kids = none) := by
    refine ⟨_, rfl, ?_⟩
    have hroot : getNode A [] = some A.root := rfl
    split
    · rename_i hex
      refine ⟨SyncFor.refl sid A, hAg, ?_⟩
      obtain ⟨hn, hhn⟩ := Option.isSome_iff_exists.1 hex
      have hg : getNode A [host] = some hn := by
        have := getNode_child hroot host hhn (by decide)
        simpa using this
      refine ⟨hn, hg, ?_⟩
      apply hfresh hn
      rw [← getNode_congr hAr]; exact hg
    · rename_i hex
      have hk : findKid host A.root.kids = none := by
        cases hf : findKid host A.root.kids with
        | none => rfl
        | some _ => rw [hf] at hex; simp at hex
      rw [putChild_notify_absent A sv.nextSid [] host none hroot hk]
      refine ⟨syncFor_create_by_new hAg sv.nextSid hne [] host hroot hk (by decide) hh hvis1,
        good_createStep hAg _ _ _ _ hh, ?_⟩
      unfold createStep
      refine ⟨(Node.fresh host none).setSubs (marksForNewNode A ([] ++ [host])), ?_, rfl⟩
      rw [getNode_notifyChanged]
      have := mr_putKid_at A [] ((Node.fresh host none).setSubs (marksForNewNode A ([] ++ [host]))) hroot (by decide)
      simpa using this
  obtain ⟨B, hB, s2, gB, hn, hhn, hkn⟩ := step2
  rw [← hB]
  -- the session node, the push
  rw [putChild_notify_absent B sv.nextSid [host] (sidName sv.nextSid) none hhn hkn]
  have s3 : SyncFor sid B (createStep B sv.nextSid [host] (sidName sv.nextSid) none) := by
    apply syncFor_create_by_new gB sv.nextSid hne [host] _ hhn hkn (by simp [fuelDepth]) (noSlash_sidName _)
    intro s hs
    exact hvis2 B s hs (by simpa using List.find?_some hs)
  exact q1.trans (s2.trans (s3.trans ((SyncAll.pushAll _).for sid)))

end Muscle.Reflector
