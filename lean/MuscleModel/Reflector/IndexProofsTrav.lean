import MuscleModel.Reflector.IndexProofsSnap

/-!
# C13: every visit of the wildcard traversal is the name path of an existing node

No pattern laws are needed: whatever the matcher and the callback, `doTraversal` only ever records paths it
reached by descending through children.  With pairwise different sibling names (part of `NodeInv`) such a path is
found again by name lookup (`below`).
-/

set_option linter.unusedSimpArgs false
set_option linter.unusedVariables false

namespace Muscle.Reflector
open Muscle

/-- `ext` is the name path of a node below `n` (lookup by name at every level; no fuel) -/
def below : Node → List Bytes → Bool
  | _, [] => true
  | n, a :: r =>
    match findKid a n.kids with
    | some k => below k r
    | none => false

/-- every recorded visit is `names ++ ext` with `ext` a path below `node` -/
def VOK (node : Node) (names : Visit) (vs : List Visit) : Prop :=
  ∀ v ∈ vs, ∃ ext, v = names ++ ext ∧ below node ext = true

theorem VOK.nil (node : Node) (names : Visit) : VOK node names [] := by intro v hv; simp at hv

theorem VOK.append {node : Node} {names : Visit} {a b : List Visit} (ha : VOK node names a) (hb : VOK node names b) :
    VOK node names (a ++ b) := by
  intro v hv
  rcases List.mem_append.mp hv with h | h
  · exact ha v h
  · exact hb v h

def RecOK (rec : Rec) : Prop := ∀ child cn depth, AllNodes NodeInv child → VOK child cn (rec child cn depth).1

theorem checkEntries_visits (ctx : TCtx) (rec : Rec) (child : Node) (cn : Visit) (depth : Nat) (known : Option Nat)
    (P : List Visit → Prop) (hcn : ∀ vs, P vs → P (vs ++ [cn]))
    (hrec : ∀ vs, P vs → P (vs ++ (rec child cn (depth + 1)).1)) :
    ∀ (es : List Entry) (idx : Nat) (st : CState), P st.visits →
      P (checkEntries ctx rec child cn depth known es idx st).visits := by
  intro es
  induction es with
  | nil => intro idx st h; exact h
  | cons e es ih =>
    intro idx st h
    rw [checkEntries]
    split
    · exact h
    · apply ih
      simp only []
      repeat' split
      all_goals first
        | exact h
        | exact hcn _ h
        | exact hrec _ h


theorem findKid_of_mem_distinct {kids : List Node} (hn : (kids.map Node.name).Nodup) {k : Node} (hk : k ∈ kids) :
    findKid k.name kids = some k := by
  induction kids with
  | nil => simp at hk
  | cons x r ih =>
    simp only [List.map_cons, List.nodup_cons] at hn
    simp only [findKid]
    rcases List.mem_cons.mp hk with h | h
    · subst h; simp
    · have : x.name ≠ k.name := by
        intro e; apply hn.1; rw [e]; exact List.mem_map_of_mem h
      simp [this, ih hn.2 h]

/-- visits recorded for child `k` of `node` are visits below `node` -/
theorem VOK.lift {node k : Node} {names : Visit} {vs : List Visit} (hf : findKid k.name node.kids = some k)
    (h : VOK k (names ++ [k.name]) vs) : VOK node names vs := by
  intro v hv
  obtain ⟨ext, rfl, hb⟩ := h v hv
  exact ⟨k.name :: ext, by simp, by simp [below, hf, hb]⟩

theorem checkChild_vok (ctx : TCtx) (rec : Rec) (hrec : RecOK rec) (node k : Node) (names : Visit) (depth : Nat)
    (known : Option Nat) (hf : findKid k.name node.kids = some k) (hk : AllNodes NodeInv k) :
    VOK node names (checkChild ctx rec k names depth known).1 := by
  unfold checkChild
  simp only
  apply VOK.lift hf
  apply checkEntries_visits ctx rec k (names ++ [k.name]) depth known (VOK k (names ++ [k.name]))
  · intro vs h
    exact h.append (by intro v hv; simp at hv; exact ⟨[], by simp [hv], rfl⟩)
  · intro vs h
    exact h.append (hrec k _ _ hk)
  · exact VOK.nil _ _

theorem travKids_vok (ctx : TCtx) (rec : Rec) (hrec : RecOK rec) (node : Node) (hnode : AllNodes NodeInv node)
    (names : Visit) (depth : Nat) :
    ∀ (ks : List Node) (acc : List Visit), (∀ k ∈ ks, k ∈ node.kids) → VOK node names acc →
      VOK node names (travKids ctx rec names depth ks acc).1 := by
  intro ks
  induction ks with
  | nil => intro acc _ h; exact h
  | cons k r ih =>
    intro acc hks h
    have hk : k ∈ node.kids := hks k (by simp)
    have hv := checkChild_vok ctx rec hrec node k names depth none
      (findKid_of_mem_distinct hnode.here.2 hk) (hnode.kid k hk)
    simp only [travKids]
    split
    · rename_i vs d heq
      rw [heq] at hv
      exact h.append hv
    · rename_i vs heq
      rw [heq] at hv
      exact ih _ (fun k' hk' => hks k' (List.mem_cons_of_mem _ hk')) (h.append hv)

theorem lookupElems_vok (ctx : TCtx) (rec : Rec) (hrec : RecOK rec) (node : Node) (hnode : AllNodes NodeInv node)
    (names : Visit) (depth idx : Nat) :
    ∀ (els did : List Bytes) (acc : List Visit), VOK node names acc →
      VOK node names (lookupElems ctx rec node names depth idx els did acc).1 := by
  intro els
  induction els with
  | nil => intro did acc h; exact h
  | cons el els ih =>
    intro did acc h
    simp only [lookupElems]
    split
    · exact ih _ _ h
    · rename_i k hk
      split
      · exact ih _ _ h
      · have hf : findKid k.name node.kids = some k := by rw [findKid_some_name hk]; exact hk
        have hv := checkChild_vok ctx rec hrec node k names depth (some idx) hf (hnode.kid k (findKid_some_mem hk))
        split
        · rename_i vs d heq
          rw [heq] at hv
          exact h.append hv
        · rename_i vs heq
          rw [heq] at hv
          exact ih _ _ (h.append hv)

theorem travLookups_vok (ctx : TCtx) (rec : Rec) (hrec : RecOK rec) (node : Node) (hnode : AllNodes NodeInv node)
    (names : Visit) (depth : Nat) :
    ∀ (es : List Entry) (idx : Nat) (did : List Bytes) (acc : List Visit), VOK node names acc →
      VOK node names (travLookups ctx rec node names depth es idx did acc).1 := by
  intro es
  induction es with
  | nil => intro idx did acc h; exact h
  | cons e es ih =>
    intro idx did acc h
    simp only [travLookups]
    have hv := lookupElems_vok ctx rec hrec node hnode names depth idx
      (if isUVList ((e.clauses[depth - ctx.rootDepth]?).getD []) = true then
        (splitCommas ((e.clauses[depth - ctx.rootDepth]?).getD [])).filter (fun x => !x.isEmpty)
       else [(e.clauses[depth - ctx.rootDepth]?).getD []]) did acc h
    split
    · rename_i acc' x d heq
      rw [heq] at hv
      exact hv
    · rename_i acc' did' heq
      rw [heq] at hv
      exact ih _ _ _ hv

theorem travLevel_vok (ctx : TCtx) (rec : Rec) (hrec : RecOK rec) (node : Node) (hnode : AllNodes NodeInv node)
    (names : Visit) (depth : Nat) : VOK node names (travLevel ctx rec node names depth).1 := by
  unfold travLevel
  simp only
  split
  · exact travKids_vok ctx rec hrec node hnode names depth _ _ (fun k hk => hk) (VOK.nil _ _)
  · exact travLookups_vok ctx rec hrec node hnode names depth _ _ _ _ (VOK.nil _ _)

theorem travAux_recOK (ctx : TCtx) (fuel : Nat) : RecOK (travAux ctx fuel) := by
  induction fuel with
  | zero => intro child cn depth _; simp [travAux]; exact VOK.nil _ _
  | succ fuel ih =>
    intro child cn depth hc
    simp only [travAux]
    exact travLevel_vok ctx _ ih child hc cn depth

/-- every visit of `DoTraversal` from `node` is the name path of a node below `node` — for every matcher, every
    callback, every fuel -/
theorem doTraversal_sound (pm : PM) (uf : Bool) (rd : Nat) (cb : Visit → Nat → Node → Bool × Int) (node : Node)
    (fuel : Nat) (hnode : AllNodes NodeInv node) : ∀ v ∈ doTraversal pm uf rd cb node fuel, below node v = true := by
  intro v hv
  obtain ⟨ext, he, hb⟩ := travAux_recOK _ fuel node [] rd hnode v hv
  simp at he; subst he; exact hb

end Muscle.Reflector
