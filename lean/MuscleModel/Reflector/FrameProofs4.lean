import MuscleModel.Reflector.FrameProofs3

/-!
# Frame lemmas, part 4: from `OnlyOwn` to the statements of `Props/C06.lean`
-/

set_option linter.unusedSimpArgs false
set_option linter.unusedVariables false

namespace Muscle.Reflector
open Muscle

/-- what a command of session `sid` must leave alone in session `t` (after: `t'`): identity always;
    every parameter and the subscription set when `t` is another session.  (`nextData`, `nextIdx`,
    `inbox` may change: that is how `t` is notified.) -/
def SessKept (sid : Nat) (t t' : Sess) : Prop :=
  t'.sid = t.sid ∧ t'.host = t.host ∧ t'.slot = t.slot ∧
  (t.sid ≠ sid →
    t'.subs = t.subs ∧ t'.params = t.params ∧ t'.reflectSelf = t.reflectSelf ∧ t'.maxItems = t.maxItems ∧
    t'.subsEnabled = t.subsEnabled ∧ t'.indexingPresent = t.indexingPresent ∧ t'.route = t.route ∧
    t'.hasRouteKeys = t.hasRouteKeys)

theorem Sess.view_sid (sid : Nat) (t : Sess) : (Sess.view sid t).sid = t.sid := by
  unfold Sess.view; split <;> rfl
theorem Sess.view_host (sid : Nat) (t : Sess) : (Sess.view sid t).host = t.host := by
  unfold Sess.view; split <;> rfl
theorem Sess.view_slot (sid : Nat) (t : Sess) : (Sess.view sid t).slot = t.slot := by
  unfold Sess.view; split <;> rfl

theorem sessKept_of_view {sid : Nat} {t t' : Sess} (h : Sess.view sid t' = Sess.view sid t) : SessKept sid t t' := by
  have h1 : t'.sid = t.sid := by
    have := congrArg Sess.sid h; rwa [Sess.view_sid, Sess.view_sid] at this
  have h2 : t'.host = t.host := by
    have := congrArg Sess.host h; rwa [Sess.view_host, Sess.view_host] at this
  have h3 : t'.slot = t.slot := by
    have := congrArg Sess.slot h; rwa [Sess.view_slot, Sess.view_slot] at this
  refine ⟨h1, h2, h3, fun hne => ?_⟩
  have hne' : t'.sid ≠ sid := by rw [h1]; exact hne
  simp only [Sess.view, hne, hne', if_false] at h
  have e1 : t'.core.subs = t.core.subs := congrArg Sess.subs h
  have e2 : t'.core.params = t.core.params := congrArg Sess.params h
  have e3 : t'.core.reflectSelf = t.core.reflectSelf := congrArg Sess.reflectSelf h
  have e4 : t'.core.maxItems = t.core.maxItems := congrArg Sess.maxItems h
  have e5 : t'.core.subsEnabled = t.core.subsEnabled := congrArg Sess.subsEnabled h
  have e6 : t'.core.indexingPresent = t.core.indexingPresent := congrArg Sess.indexingPresent h
  have e7 : t'.core.route = t.core.route := congrArg Sess.route h
  have e8 : t'.core.hasRouteKeys = t.core.hasRouteKeys := congrArg Sess.hasRouteKeys h
  exact ⟨e1, e2, e3, e4, e5, e6, e7, e8⟩

/-- positional form of the session part of `OnlyOwn` -/
theorem sessions_kept_of_view {sid : Nat} {l l' : List Sess} (h : l'.map (Sess.view sid) = l.map (Sess.view sid)) :
    l'.length = l.length ∧ ∀ (i : Nat) (t : Sess), l[i]? = some t → ∃ t', l'[i]? = some t' ∧ SessKept sid t t' := by
  refine ⟨by simpa using congrArg List.length h, fun i t ht => ?_⟩
  have hi : (l'.map (Sess.view sid))[i]? = (l.map (Sess.view sid))[i]? := by rw [h]
  rw [List.getElem?_map, List.getElem?_map, ht] at hi
  cases ht' : l'[i]? with
  | none => rw [ht'] at hi; simp at hi
  | some t' =>
    rw [ht'] at hi
    simp only [Option.map_some, Option.some.injEq] at hi
    exact ⟨t', rfl, sessKept_of_view hi⟩

/-- the session that `sess? sid` finds keeps its identity -/
theorem sess?_of_view {sid : Nat} {sv sv' : Server} (h : sv'.sessions.map (Sess.view sid) = sv.sessions.map (Sess.view sid))
    (tid : Nat) {t : Sess} (ht : sv.sess? tid = some t) : ∃ t', sv'.sess? tid = some t' ∧ SessKept sid t t' := by
  have e : ∀ l : List Sess, (l.find? (fun s => s.sid = tid)).map (Sess.view sid)
      = (l.map (Sess.view sid)).find? (fun w => w.sid = tid) := by
    intro l
    rw [List.find?_map]
    congr 2
    funext a
    simp only [Function.comp, Sess.view_sid]
  have h' : (sv'.sess? tid).map (Sess.view sid) = (sv.sess? tid).map (Sess.view sid) := by
    unfold Server.sess?
    rw [e, e, h]
  rw [ht] at h'
  cases ht' : sv'.sess? tid with
  | none => rw [ht'] at h'; simp at h'
  | some t' =>
    rw [ht'] at h'
    simp only [Option.map_some, Option.some.injEq] at h'
    exact ⟨t', rfl, sessKept_of_view h'⟩

theorem OnlyOwn.sess {sid : Nat} {own : List Bytes} {sv sv' : Server} (h : OnlyOwn sid own sv sv') {s : Sess}
    (hs : sv.sess? sid = some s) : ∃ s', sv'.sess? sid = some s' ∧ sessNames s' = sessNames s := by
  obtain ⟨s', hs', hk⟩ := sess?_of_view h.2 sid hs
  refine ⟨s', hs', ?_⟩
  simp only [sessNames, hk.1, hk.2.1]

/-! ## paths of length one and two -/

theorem getNode_two (sv : Server) (h n : Bytes) :
    getNode sv [h, n] = (getNode sv [h]).bind (fun p => findKid n p.kids) := by
  simp only [getNode, fuelDepth]
  rw [show (110 : Nat) = 108 + 1 + 1 from rfl, nodeAt_succ_cons, nodeAt_succ_cons]
  cases findKid h sv.root.kids with
  | none => rfl
  | some k =>
    simp only [nodeAt_nil, Option.bind_some, nodeAt_succ_cons]
    cases findKid n k.kids <;> rfl

theorem not_two_prefix_one (a b c : Bytes) : ¬ [a, b] <+: [c] := by
  intro h
  have := h.length_le
  simp at this

/-- two different two-element paths: nothing extends both -/
theorem not_prefix_of_other {p q names : List Bytes} (hl : p.length = q.length) (hne : q ≠ p) (hq : q <+: names) :
    ¬ p <+: names := by
  intro hp
  rw [List.prefix_iff_eq_take] at hp hq
  apply hne
  rw [hp, hq, hl]

/-- marks of another session are readable through `strip sid` -/
theorem subCount_of_strip {sid o : Nat} (h : o ≠ sid) {n n' : Node} (hs : strip sid n' = strip sid n) :
    subCount n'.subs o = subCount n.subs o := by
  have hf : n'.subs.filter (fun p => p.1 ≠ sid) = n.subs.filter (fun p => p.1 ≠ sid) := congrArg Stripped.subs hs
  have key : ∀ l : List (Nat × Nat), l.find? (fun (k, _) => k = o) = (l.filter (fun p => p.1 ≠ sid)).find? (fun (k, _) => k = o) := by
    intro l
    rw [find?_filter_of_imp]
    intro ⟨k, c⟩ hx
    simp at hx
    simp [hx, h]
  unfold subCount
  rw [key n'.subs, key n.subs, hf]

end Muscle.Reflector

namespace Muscle.Eng.SrvEngine
open Muscle Muscle.Eng Muscle.Reflector

/-- without a session of that id a command does nothing to the tree or the session table's views -/
theorem runCmd_sessions (sv : Server) (sid : Nat) (c : Cmd) :
    (runCmd sv sid c).sessions.map (Sess.view sid) = sv.sessions.map (Sess.view sid) := by
  cases hs : sv.sess? sid with
  | some s => exact (runCmd_own sv sid s hs c).2
  | none =>
    cases c with
    | set path v ati => simp only [runCmd, setDataNode, hs]
    | rm keys => simp only [runCmd, removeData, hs]
    | sub path f => simp only [runCmd, subscribe, hs]
    | unsub path => simp only [runCmd, unsubscribe, hs]
    | paramSelf => exact (updSess_own sv sid [] _ (by intro _; exact ⟨rfl, rfl, rfl⟩)).2
    | paramMax n => exact (updSess_own sv sid [] _ (by intro _; exact ⟨rfl, rfl, rfl⟩)).2
    | paramRoute keys => exact (updSess_own sv sid [] _ (by intro _; exact ⟨rfl, rfl, rfl⟩)).2
    | paramRouteF keys fs => exact (updSess_own sv sid [] _ (by intro _; exact ⟨rfl, rfl, rfl⟩)).2
    | unparamMax => exact (updSess_own sv sid [] _ (by intro _; split <;> exact ⟨rfl, rfl, rfl⟩)).2
    | unparamRoute => exact (updSess_own sv sid [] _ (by intro _; split <;> exact ⟨rfl, rfl, rfl⟩)).2
    | unparamRouteF => exact (updSess_own sv sid [] _ (by intro _; split <;> exact ⟨rfl, rfl, rfl⟩)).2
    | getparams => simp only [runCmd, hs]
    | ins key before vals => simp only [runCmd, insertOrdered, hs]
    | reorder key before => simp only [runCmd, Muscle.Reflector.reorder, Muscle.Reflector.reorderCore, hs]
    | send tag keys => simp only [runCmd, sendMsg, hs]
    | ping tag => exact ((deliver_notify sv sid _).onlyOwn sid []).2

/-! ## a concrete state for the non-vacuity examples of `Props/C06.lean`

Two sessions on two hosts; session 1 owns the node `x` = 7, on which session 0 holds one subscription mark.
(`sidName` is left symbolic: `toString` does not reduce in the kernel.) -/

def demoS0 : Sess := { slot := 0, sid := 0, host := [104] }
def demoS1 : Sess := { slot := 1, sid := 1, host := [105] }

def demoSv : Server :=
  { root := .mk [] none
      [ .mk [104] none [ .mk (sidName 0) none [] [] 0 [] ] [] 0 [],
        .mk [105] none [ .mk (sidName 1) none [ .mk [120] (some 7) [] [] 0 [(0, 1)] ] [] 0 [] ] [] 0 [] ] [] 0 [],
    live := true,
    sessions := [ demoS0, demoS1 ],
    nextSid := 2 }

/-- a session's commands, each followed by the push of pending update Messages (what the engine's `step` and
    a BATCH do) -/
def runHistory (sv : Server) (sid : Nat) (cmds : List Cmd) : Server :=
  cmds.foldl (fun sv c => pushAll (runCmd sv sid c)) sv

theorem runHistory_own (sid : Nat) (cmds : List Cmd) :
    ∀ (sv : Server) (s : Sess), sv.sess? sid = some s → OnlyOwn sid (sessNames s) sv (runHistory sv sid cmds) := by
  induction cmds with
  | nil => intro sv s _; exact OnlyOwn.refl ..
  | cons c r ih =>
    intro sv s hs
    have h1 : OnlyOwn sid (sessNames s) sv (pushAll (runCmd sv sid c)) :=
      (runCmd_own sv sid s hs c).trans ((pushAll_notify _).onlyOwn _ _)
    obtain ⟨s', hs', he⟩ := h1.sess hs
    have h2 := ih _ s' hs'
    rw [he] at h2
    exact h1.trans h2

end Muscle.Eng.SrvEngine
