import MuscleModel.Reflector.Server

/-! Command handlers of `StorageReflectSession` (second part of the reflector model). -/

namespace Muscle.Reflector
open Muscle

def sessNames (s : Sess) : List Bytes := [s.host, sidName s.sid]

/-! ## ordered children (`DataNode::InsertOrderedChild`, `ReorderChild`) -/

def removeFromIndexName : Bytes := "!Rmv".toUTF8.toList     -- PR_NAME_REMOVE_FROM_INDEX

/-- first free auto-name `I<ctr>`, and the counter after it -/
def autoName : Nat → Nat → List Node → Bytes × Nat
  | 0, ctr, _ => ((("I" ++ toString ctr).toUTF8.toList), ctr + 1)
  | fuel+1, ctr, kids =>
    let nm := ("I" ++ toString ctr).toUTF8.toList
    if (findKid nm kids).isSome then autoName fuel (ctr + 1) kids else (nm, ctr + 1)

/-- `parent.InsertOrderedChild(data, insertBefore, optNodeName, this, notifyChanged ? this : NULL)` -/
def insertOrderedChild (sv : Server) (by_ : Nat) (parent : List Bytes) (d : Option Nat) (before name : Bytes)
    (notifyChanged : Bool) : Server :=
  match getNode sv parent with
  | none => sv
  | some p =>
    let (nm, ctr') := if name.isEmpty then autoName (p.kids.length + 1) p.ctr p.kids else (name, p.ctr)
    let sv := setNode sv parent (fun p => p.setCtr ctr')
    let insertIndex := match lastIndexOf p.index before with
      | some i => i
      | none => p.index.length
    let sv := putChild sv by_ parent (Node.fresh nm d) notifyChanged
    -- `optInsertBefore == PR_NAME_REMOVE_FROM_INDEX`: the child is created but not indexed (insertIndex stays −1)
    if before = removeFromIndexName then sv else
    let sv := setNode sv parent (fun p => p.setIndex (p.index.take insertIndex ++ [nm] ++ p.index.drop insertIndex))
    match getNode sv parent with
    | some p' => notifyIndex sv parent p' (instrOf 'i' insertIndex nm)
    | none => sv

/-- `parent.ReorderChild(child, moveToBeforeThis, this)` -/
def reorderChild (sv : Server) (parent : List Bytes) (child before : Bytes) : Server :=
  match getNode sv parent with
  | none => sv
  | some p =>
    if before = child then sv else      -- moving a child to before itself is a no-op
    if p.index.isEmpty && !(p.index.contains child) && before = removeFromIndexName then sv else
    let sv := removeIndexEntry sv parent child true
    if before = removeFromIndexName then sv else
    match getNode sv parent with
    | none => sv
    | some p1 =>
      let target :=
        if (findKid before p1.kids).isSome then
          (match lastIndexOf p1.index before with | some i => i | none => p1.index.length)
        else p1.index.length
      let sv := setNode sv parent (fun q => q.setIndex (q.index.take target ++ [child] ++ q.index.drop target))
      match getNode sv parent with
      | some p2 => notifyIndex sv parent p2 (instrOf 'i' target child)
      | none => sv

/-! ## PR_COMMAND_SETDATA → `SetDataNode` -/

/-- the clause loop of `SetDataNode(nodePath, data, flags)`; `addToIndex` = SETDATANODE_FLAG_ADDTOINDEX -/
def setDataClauses (by_ : Nat) (d : Option Nat) (addToIndex : Bool) : Server → List Bytes → List Bytes → Server
  | sv, _, [] => sv
  | sv, cur, cl :: rest =>
    let last := rest.isEmpty
    match getNode sv cur with
    | none => sv
    | some node =>
      match findKid cl node.kids with
      | none =>
        -- create the child
        let sv :=
          if last && addToIndex then
            let sv := insertOrderedChild sv by_ cur d [] cl true
            sv.updSess by_ (fun s => { s with indexingPresent := true })
          else
            putChild sv by_ cur (Node.fresh cl (if last && !addToIndex then d else none)) (!last)
        let sv :=
          if last && !addToIndex then
            -- SetData(data, this, ISBEINGCREATED): changed-notification with a NULL old payload
            match getNode sv (cur ++ [cl]) with
            | some n => notifyChanged sv by_ (cur ++ [cl]) n none false
            | none => sv
          else sv
        setDataClauses by_ d addToIndex sv (cur ++ [cl]) rest
      | some child =>
        let sv :=
          if last && !addToIndex then
            let sv := setNode sv (cur ++ [cl]) (fun n => n.setData d)
            match getNode sv (cur ++ [cl]) with
            | some n => notifyChanged sv by_ (cur ++ [cl]) n (some child.data) false
            | none => sv
          else sv
        setDataClauses by_ d addToIndex sv (cur ++ [cl]) rest

def setDataNode (sv : Server) (by_ : Nat) (path : Bytes) (d : Option Nat) (addToIndex : Bool) : Server :=
  match sv.sess? by_ with
  | none => sv
  | some s =>
    match path with
    | [] => sv
    -- empty clauses ("a//b", "a/") are left out, as every path-string consumer of the library does
    | c :: _ => if c = cSlash then sv else setDataClauses by_ d addToIndex sv (sessNames s) ((splitSlash path).filter (· ≠ []))

/-! ## traversal-driven handlers -/

def pmOfKeys (keys : List (Bytes × Option Filt)) (prepend : Option Bytes) : PM :=
  keys.foldl (fun pm (k, f) => pmPutFrom pm k f prepend) []

/-- traversal from the global root (`rootDepth = 0`) -/
def travGlobal (sv : Server) (pm : PM) (useFilters : Bool) (cb : Visit → Nat → Node → Bool × Int) : List Visit :=
  doTraversal pm useFilters 0 cb sv.root fuelDepth

/-- traversal from a session's own node (`rootDepth = 2`); visits are made absolute -/
def travSession (sv : Server) (s : Sess) (pm : PM) (cb : Visit → Nat → Node → Bool × Int) : List Visit :=
  match getNode sv (sessNames s) with
  | none => []
  | some n => (doTraversal pm true 2 cb n fuelDepth).map (fun v => sessNames s ++ v)

/-- `DoSubscribeRefCallback` over every node a path pattern matches -/
def subscribeRefs (sv : Server) (sid : Nat) (pm : PM) (delta : Option Int) : Server :=
  (travGlobal sv pm false cbContinue).foldl (fun sv v => setNode sv v (fun n => n.setSubs (adjustSubs n.subs sid delta))) sv

/-- `GetDataCallback`: skip the session's own nodes unless it indexes or reflects to itself -/
def getDataCb (s : Sess) : Visit → Nat → Node → Bool × Int := fun names depth _ =>
  if !s.indexingPresent && !s.reflectSelf && ownerName names = some (sidName s.sid) then (false, 2) else (true, depth)

/-- `DoGetData`: result Messages go out immediately, flushed at `maxItems` names -/
def doGetData (sv : Server) (sid : Nat) (keys : List (Bytes × Option Filt)) : Server :=
  match sv.sess? sid with
  | none => sv
  | some s =>
    let pm := pmOfKeys keys (some defaultPrefix)
    let visits := travGlobal sv pm true (getDataCb s)
    let step := fun (st : Server × UpdMsg × IdxMsg) (v : Visit) =>
      let (sv, dm, im) := st
      match getNode sv v with
      | none => st
      | some n =>
        let dm := dm.addSet (pathString v) n.data
        let (sv, dm) := if dm.numNames ≥ s.maxItems then (sv.deliver sid (dataText dm), ({} : UpdMsg)) else (sv, dm)
        if n.index.isEmpty then (sv, dm, im) else
          let np := pathString v
          let im := IdxMsg.add im np "c".toUTF8.toList
          let im := (n.index.zipIdx).foldl (fun im (nm, i) => IdxMsg.add im np (instrOf 'i' i nm)) im
          if im.length ≥ s.maxItems then (sv.deliver sid (idxText im), dm, []) else (sv, dm, im)
    let (sv, dm, im) := visits.foldl step (sv, {}, [])
    let sv := if dm.numNames > 0 then sv.deliver sid (dataText dm) else sv
    if im.length > 0 then sv.deliver sid (idxText im) else sv

def subscribePrefix : Bytes := "SUBSCRIBE:".toUTF8.toList

/-- the parameter list after SUBSCRIBE:<path>: one subscription, one listed spelling — another SUBSCRIBE: name that normalises
    to the same path is dropped, the current spelling is listed (once) -/
def subParams (params : List Bytes) (path : Bytes) : List Bytes :=
  let pname := subscribePrefix ++ path
  let fix := adjustPrefix path (some defaultPrefix)
  let ps := params.filter (fun n => n = pname ||
    !(subscribePrefix.isPrefixOf n && adjustPrefix (n.drop subscribePrefix.length) (some defaultPrefix) = fix))
  if ps.contains pname then ps else ps ++ [pname]

/-- PR_COMMAND_SETPARAMETERS with one `SUBSCRIBE:<path>` field (optionally holding a filter) -/
def subscribe (sv : Server) (sid : Nat) (path : Bytes) (f : Option Filt) : Server :=
  match sv.sess? sid with
  | none => sv
  | some s =>
    let fix := adjustPrefix path (some defaultPrefix)
    let sv :=
      match pmFind s.subs fix with
      | some e =>
        -- re-subscription: `ChangeQueryFilterCallback` on every node the path matches, then the new filter
        let sv :=
          if s.subsEnabled && (f.isSome || e.filter.isSome) then
            -- (own nodes are skipped unless the session indexes or reflects to itself, as in `GetDataCallback`)
            (travGlobal sv (pmPut [] fix none) false (getDataCb s)).foldl (fun sv v =>
              match getNode sv v with
              | none => sv
              | some n =>
                let oldM := match e.filter with | none => true | some g => g.eval n.data
                let newM := match f with | none => true | some g => g.eval n.data
                -- the client's view changes only if no OTHER subscription of the session matches the node
                if oldM ≠ newM && !pmMatchesPath (pmRemove s.subs fix) v true n.data then
                  nodeChangedAux sv sid (pathString v) n.data oldM else sv) sv
          else sv
        sv.updSess sid (fun s => { s with subs := pmPut s.subs fix f })
      | none =>
        if fix.isEmpty then sv else
        let sv := sv.updSess sid (fun s => { s with subs := pmPut s.subs fix f })
        subscribeRefs sv sid (pmPut [] fix none) (some 1)
    let pname := subscribePrefix ++ path
    let sv := sv.updSess sid (fun s => { s with params := subParams s.params path })
    doGetData sv sid [(path, f)]

/-- `RemoveParameter("SUBSCRIBE:<path>")` -/
def unsubscribe (sv : Server) (sid : Nat) (path : Bytes) : Server :=
  match sv.sess? sid with
  | none => sv
  | some s =>
    let pname := subscribePrefix ++ path
    if !s.params.contains pname then sv else
    let str := adjustPrefix path (some defaultPrefix)
    let sv :=
      if (pmFind s.subs str).isSome then
        let sv := sv.updSess sid (fun s => { s with subs := pmRemove s.subs str })
        subscribeRefs sv sid (pmPut [] str none) (some (-1))
      else sv
    sv.updSess sid (fun s => { s with params := s.params.filter (· ≠ pname) })

/-- `RemoveDataCallback`: never host or session nodes; no descent below a node that goes away -/
def removeDataCb : Visit → Nat → Node → Bool × Int := fun _ depth _ =>
  if depth > 2 then (true, (depth : Int) - 1) else (false, depth)

/-- PR_COMMAND_REMOVEDATA -/
def removeData (sv : Server) (sid : Nat) (keys : List Bytes) : Server :=
  match sv.sess? sid with
  | none => sv
  | some s =>
    let pm := pmOfKeys (keys.map (fun k => (k, none))) none
    let set := travSession sv s pm removeDataCb
    set.reverse.foldl (fun sv v => removeChild sv sid true v) sv

/-- PR_COMMAND_INSERTORDEREDDATA with one key and one field (name = insert-before, items = payloads) -/
def insertOrdered (sv : Server) (sid : Nat) (key before : Bytes) (vals : List Nat) : Server :=
  match sv.sess? sid with
  | none => sv
  | some s =>
    let pm := pmOfKeys [(key, none)] none
    let visits := travSession sv s pm cbContinue
    visits.foldl (fun sv v =>
      vals.foldl (fun sv x =>
        let sv := insertOrderedChild sv sid v (some x) before [] true
        sv.updSess sid (fun s => { s with indexingPresent := true })) sv) sv

/-- PR_COMMAND_REORDERDATA with one string field (name = node pattern, value = move-before): the index moves -/
def reorderCore (sv : Server) (sid : Nat) (key before : Bytes) : Server :=
  match sv.sess? sid with
  | none => sv
  | some s =>
    let pm := pmOfKeys [(key, none)] none
    let visits := travSession sv s pm cbContinue
    visits.foldl (fun sv v =>
      match v.getLast? with
      | none => sv
      | some nm => if v.length ≤ 2 then sv else reorderChild sv v.dropLast nm before) sv

/-- PR_COMMAND_REORDERDATA: `ReorderDataCallback` also sets `_indexingPresent` whenever it calls `ReorderChild` (the call may give
    the parent an index, which the session's own client has to be told about) -/
def reorder (sv : Server) (sid : Nat) (key before : Bytes) : Server :=
  let sv' := reorderCore sv sid key before
  match sv.sess? sid with
  | none => sv'
  | some s =>
    if (travSession sv s (pmOfKeys [(key, none)] none) cbContinue).any (fun v => decide (2 < v.length))
    then sv'.updSess sid (fun s => { s with indexingPresent := true }) else sv'

/-- `PassMessageCallbackAux`: deliver to the owning session, then on to the next session -/
def route (sv : Server) (sid : Nat) (pm : PM) (what : String) : Server :=
  match sv.sess? sid with
  | none => sv
  | some s =>
    let visits := travGlobal sv pm true (fun _ _ _ => (true, 1))
    visits.foldl (fun sv v =>
      match ownerName v with
      | none => sv
      | some o =>
        match sv.sessions.find? (fun t => sidName t.sid = o) with
        | none => sv
        | some t => if t.sid ≠ sid || s.reflectSelf then sv.deliver t.sid what else sv) sv

/-- a client-to-client Message (`what` outside the command range) -/
def sendMsg (sv : Server) (sid : Nat) (tag : Nat) (keys : List Bytes) : Server :=
  match sv.sess? sid with
  | none => sv
  | some s =>
    let text := "MSG 1234 from=" ++ toString sid ++ " tag=" ++ toString tag
    if !keys.isEmpty then route sv sid (pmOfKeys (keys.map (fun k => (k, none))) (some defaultPrefix)) text
    else if s.hasRouteKeys then route sv sid s.route text
    else
      -- `BroadcastToAllSessions(msg, userData, reflect-to-self)`
      sv.sessions.foldl (fun sv t => if t.sid ≠ sid || s.reflectSelf then sv.deliver t.sid text else sv) sv

/-- `FindMatchingNodes(path, no filter)` -/
def findNodes (sv : Server) (sid : Nat) (path : Bytes) : List Visit :=
  match sv.sess? sid with
  | none => []
  | some s =>
    match path with
    | c :: r => if c = cSlash then travGlobal sv (pmPut [] r none) true cbContinue
                else travSession sv s (pmPut [] path none) cbContinue
    | [] => []

/-! ## attach / detach -/

/-- `AttachedToServer` -/
def attach (sv : Server) (slot : Nat) (host : Bytes) : Server × Nat :=
  let sid := sv.nextSid
  let ns : Sess := { slot := slot, sid := sid, host := host, maxItems := sv.maxItemsDefault }
  let sv := { sv with nextSid := sid + 1, live := true, sessions := sv.sessions ++ [ns] }
  let sv := if (findKid host sv.root.kids).isSome then sv else putChild sv sid [] (Node.fresh host none) true
  let sv := putChild sv sid [host] (Node.fresh (sidName sid) none) true
  (pushAll sv, sid)

/-- `Cleanup` + removal from the session table -/
def detach (sv : Server) (sid : Nat) : Server :=
  match sv.sess? sid with
  | none => sv
  | some s =>
    let sv := removeChild sv sid true (sessNames s)
    let sv := match getNode sv [s.host] with
      | some h => if h.kids.isEmpty then removeChild sv sid true [s.host] else sv
      | none => sv
    let sv := pushAll sv
    let sv :=
      if sv.root.kids.isEmpty then { sv with live := false }
      else (travGlobal sv s.subs false cbContinue).foldl (fun sv v => setNode sv v (fun n => n.setSubs (adjustSubs n.subs sid none))) sv
    { sv with sessions := sv.sessions.filter (fun t => t.sid ≠ sid) }

end Muscle.Reflector
