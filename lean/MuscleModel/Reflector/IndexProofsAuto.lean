import MuscleModel.Reflector.IndexProofsAll

/-!
# C13: the generated name `I<n>` of `InsertOrderedChild` is always an unused name

`autoName` is given `kids.length + 1` attempts; the candidate names are pairwise different, so by the
pigeonhole principle one of them is free.
-/

set_option linter.unusedSimpArgs false
set_option linter.unusedVariables false

namespace Muscle.Reflector
open Muscle

def autoNm (ctr : Nat) : Bytes := ("I" ++ toString ctr).toUTF8.toList

theorem autoNm_bytes (ctr : Nat) : autoNm ctr = 73 :: decB ctr := by
  unfold autoNm
  have h1 : "I" ++ toString ctr = String.ofList (['I'] ++ Nat.toDigits 10 ctr) := by
    rw [String.ofList_append, ← Nat.toString_eq_ofList_toDigits]
  rw [h1, asciiBytes]
  · have : 'I'.toUInt8 = 73 := by decide
    simp [decB, this]
  · intro c hc
    simp only [List.mem_append, List.mem_singleton] at hc
    rcases hc with hc | hc
    · subst hc; decide
    · have := digit_val (Nat.isDigit_of_mem_toDigits (by decide) (by decide) hc)
      rw [UInt32.le_iff_toNat_le]
      have : (127 : UInt32).toNat = 127 := by decide
      omega

theorem autoNm_inj {a b : Nat} (h : autoNm a = autoNm b) : a = b := by
  rw [autoNm_bytes, autoNm_bytes] at h
  have h2 : decB a = decB b := by simpa using h
  have := congrArg decValB h2
  simpa [decValB_decB] using this

theorem autoName_fresh_of_exists (fuel ctr : Nat) (kids : List Node)
    (h : ∃ j, j < fuel ∧ findKid (autoNm (ctr + j)) kids = none) :
    findKid (autoName fuel ctr kids).1 kids = none := by
  induction fuel generalizing ctr with
  | zero => obtain ⟨j, hj, _⟩ := h; omega
  | succ fuel ih =>
    simp only [autoName]
    split
    · rename_i hs
      apply ih
      obtain ⟨j, hj, hn⟩ := h
      cases j with
      | zero =>
        simp only [Nat.add_zero, autoNm] at hn
        rw [hn] at hs; simp at hs
      | succ j => exact ⟨j, by omega, by rw [← hn]; congr 2; omega⟩
    · rename_i hs
      simpa using hs

theorem findKid_isSome_mem {nm : Bytes} {kids : List Node} (h : (findKid nm kids).isSome) :
    nm ∈ kids.map Node.name := by
  obtain ⟨k, hk⟩ := Option.isSome_iff_exists.mp h
  rw [← findKid_some_name hk]
  exact List.mem_map_of_mem (findKid_some_mem hk)

theorem exists_free_autoNm (ctr : Nat) (kids : List Node) :
    ∃ j, j < kids.length + 1 ∧ findKid (autoNm (ctr + j)) kids = none := by
  apply Classical.byContradiction
  intro hno
  have hall : ∀ j, j < kids.length + 1 → (findKid (autoNm (ctr + j)) kids).isSome := by
    intro j hj
    cases hf : findKid (autoNm (ctr + j)) kids with
    | none => exact absurd ⟨j, hj, hf⟩ hno
    | some k => rfl
  let s := (List.range (kids.length + 1)).map (fun j => autoNm (ctr + j))
  have hnd : s.Nodup := by
    apply List.Pairwise.map _ _ (List.nodup_range (n := kids.length + 1))
    intro a b hab hc
    exact hab (by have := autoNm_inj hc; omega)
  have hsub : s ⊆ kids.map Node.name := by
    intro x hx
    simp only [s, List.mem_map, List.mem_range] at hx
    obtain ⟨j, hj, rfl⟩ := hx
    exact findKid_isSome_mem (hall j hj)
  have := hnd.length_le_of_subset hsub
  simp [s] at this
  omega

/-- the generated name is not the name of an existing child -/
theorem ordPair_fresh (p : Node) {name : Bytes} (h : name.isEmpty = true) : findKid (ordPair p name).1 p.kids = none := by
  unfold ordPair
  rw [if_pos h]
  exact autoName_fresh_of_exists _ _ _ (exists_free_autoNm p.ctr p.kids)

/-- `InsertOrderedChild` with a generated name always satisfies the precondition of the invariant theorems -/
theorem insert_ok_of_generated (p : Node) (by_ : Nat) (d : Option Nat) (before : Bytes) (nc : Bool) :
    (IdxOp.insert by_ d before [] nc).ok p :=
  Or.inr (Or.inl (ordPair_fresh p rfl))

/-- …and so does one with an explicit name that is not yet a child (what `SetDataNode` does) -/
theorem insert_ok_of_absent (p : Node) (by_ : Nat) (d : Option Nat) (before name : Bytes) (nc : Bool)
    (h : findKid name p.kids = none) : (IdxOp.insert by_ d before name nc).ok p := by
  by_cases he : name.isEmpty = true
  · exact Or.inr (Or.inl (ordPair_fresh p he))
  · right; left; unfold ordPair; rw [if_neg he]; exact h

end Muscle.Reflector
