import MuscleModel.Reflector.MirrorProofs14

/-!
# C04 lemmas, part 15: `SyncAll` (every enabled subscriber at once), PR_COMMAND_SETDATA in general, `setm`

* `SyncAll sv sv'`: for EVERY attached session with subscriptions enabled and every mirror there is a list of events with
  `Sync` — the session's pipe is fed exactly those events and a right mirror stays right.  Reflexive, transitive.
* `Good sv` = `MK sv ∧ NS sv` (marking invariant, slash-free names).
* `syncAll_setDataClauses`: the clause loop of `SetDataNode` (no index flag) — any mix of existing clauses, created inner
  nodes (no payload) and a created or overwritten last node — is `SyncAll`, for every path within the depth the model sees.
* `syncAll_set`, `syncAll_setm`: the commands.
-/

set_option linter.unusedSimpArgs false
set_option linter.unusedVariables false

namespace Muscle.Reflector
open Muscle Muscle.Eng.SrvEngine

/-! ## the specification reads only the `core` of the session record -/

theorem matches_core {s t : Sess} (h : s.vcore = t.vcore) (sv : Server) (p : Bytes) (d : Option Nat) :
    Matches sv s p d ↔ Matches sv t p d := by
  have h1 : s.subs = t.subs := by have := congrArg Sess.subs h; exact this
  have h2 : s.sid = t.sid := by have := congrArg Sess.sid h; exact this
  have h3 : s.reflectSelf = t.reflectSelf := by have := congrArg Sess.reflectSelf h; exact this
  unfold Matches visible wants
  rw [h1, h2, h3]

theorem mirrorOK_core {s t : Sess} (h : s.vcore = t.vcore) (sv : Server) (m : Mirror) : MirrorOK sv s m ↔ MirrorOK sv t m := by
  unfold MirrorOK
  constructor
  · intro hm p d; rw [← matches_core h]; exact hm p d
  · intro hm p d; rw [matches_core h]; exact hm p d

theorem sync_core {s t : Sess} (h : s.vcore = t.vcore) {sid : Nat} {a b : Server} {m : Mirror} {evs : List Ev}
    (hs : Sync sid s a b m evs) : Sync sid t a b m evs :=
  ⟨hs.1, fun hm => (mirrorOK_core h b _).1 (hs.2 ((mirrorOK_core h a m).2 hm))⟩

def SyncAll (sv sv' : Server) : Prop :=
  ∀ sid s, sv.sess? sid = some s → s.subsEnabled = true → ∀ m, ∃ evs, Sync sid s sv sv' m evs

theorem SyncAll.refl (sv : Server) : SyncAll sv sv := fun sid s _ _ m => ⟨[], Sync.refl sid s sv m⟩

theorem SyncAll.trans {a b c : Server} (h1 : SyncAll a b) (h2 : SyncAll b c) : SyncAll a c := by
  intro sid s hs hen m
  obtain ⟨e1, hs1⟩ := h1 sid s hs hen m
  obtain ⟨s1, _, hs1', hc1, _, _⟩ := hs1.1 s hs
  have hen1 : s1.subsEnabled = true := by
    have := congrArg Sess.subsEnabled hc1
    have h' : s1.subsEnabled = s.subsEnabled := this
    rw [h']; exact hen
  obtain ⟨e2, hs2⟩ := h2 sid s1 hs1' hen1 (e1.foldl applyEv m)
  exact ⟨e1 ++ e2, hs1.trans (sync_core hc1 hs2)⟩

theorem SyncAll.pushAll (sv : Server) : SyncAll sv (pushAll sv) := fun sid s _ _ m => ⟨[], sync_pushAll sid s sv m⟩

def Good (sv : Server) : Prop := MK sv ∧ NS sv

/-- the sender is still attached, under the same names -/
def SameOwn (a : Nat) (own : List Bytes) (sv : Server) : Prop := ∃ sa, sv.sess? a = some sa ∧ sessNames sa = own

theorem sameOwn_of_notify {a : Nat} {own : List Bytes} {X Y : Server} (h : NotifyOnly X Y) (hx : SameOwn a own X) :
    SameOwn a own Y := by
  obtain ⟨sa, hsa, hn⟩ := hx
  have := mr_sess_core_of_notify h a
  rw [hsa] at this
  cases hy : Y.sess? a with
  | none => rw [hy] at this; simp at this
  | some sb =>
    rw [hy] at this
    simp only [Option.map_some, Option.some.injEq] at this
    refine ⟨sb, hy, ?_⟩
    rw [← hn]
    have h1 : sb.host = sa.host := by have := congrArg Sess.host this; exact this
    have h2 : sb.sid = sa.sid := by have := congrArg Sess.sid this; exact this
    simp [sessNames, h1, h2]

theorem sameOwn_setNode {a : Nat} {own : List Bytes} {X : Server} (p : List Bytes) (f : Node → Node)
    (hx : SameOwn a own X) : SameOwn a own (setNode X p f) := hx

/-! ## the two step shapes -/

/-- `PutChild` of a fresh leaf (payload `dd`) and the created-notification -/
def createStep (sv : Server) (a : Nat) (cur : List Bytes) (cl : Bytes) (dd : Option Nat) : Server :=
  notifyChanged
    (setNode sv cur (fun q => q.setKids (putKid ((Node.fresh cl dd).setSubs (marksForNewNode sv (cur ++ [cl]))) q.kids)))
    a (cur ++ [cl]) ((Node.fresh cl dd).setSubs (marksForNewNode sv (cur ++ [cl]))) none false

/-- `SetData(d)` on the node `n0` at `v` and the changed-notification -/
def overStep (sv : Server) (a : Nat) (v : List Bytes) (n0 : Node) (d : Option Nat) : Server :=
  notifyChanged (setNode sv v (fun n => n.setData d)) a v (n0.setData d) (some n0.data) false

theorem good_createStep {sv : Server} (h : Good sv) (a : Nat) (cur : List Bytes) (cl : Bytes) (dd : Option Nat)
    (hcl : cSlash ∉ cl) : Good (createStep sv a cur cl dd) := by
  unfold createStep
  constructor
  · apply MK.notifyChanged
    have := h.1.putChild a cur (Node.fresh cl dd) false rfl
    rw [putChild_quiet] at this
    exact this
  · rw [ns_notifyChanged]
    exact NS.putKid cur _ (allNodes_leaf (c := (Node.fresh cl dd).setSubs _) hcl rfl) h.2

theorem good_overStep {sv : Server} (h : Good sv) (a : Nat) (v : List Bytes) (n0 : Node) (d : Option Nat) :
    Good (overStep sv a v n0 d) := by
  unfold overStep
  constructor
  · apply MK.notifyChanged
    exact h.1.setField v _ (fun _ => rfl) (fun _ => rfl) (fun _ => rfl)
  · rw [ns_notifyChanged]
    exact NS.setField v _ (fun _ => rfl) (fun _ => rfl) h.2

theorem sameOwn_createStep {sv : Server} {a : Nat} {own : List Bytes} (h : SameOwn a own sv) (cur : List Bytes)
    (cl : Bytes) (dd : Option Nat) : SameOwn a own (createStep sv a cur cl dd) := by
  unfold createStep
  exact sameOwn_of_notify (notifyChanged_notify ..) (sameOwn_setNode _ _ h)

theorem sameOwn_overStep {sv : Server} {a : Nat} {own : List Bytes} (h : SameOwn a own sv) (v : List Bytes)
    (n0 : Node) (d : Option Nat) : SameOwn a own (overStep sv a v n0 d) := by
  unfold overStep
  exact sameOwn_of_notify (notifyChanged_notify ..) (sameOwn_setNode _ _ h)

theorem syncAll_createStep {sv : Server} (h : Good sv) {a : Nat} {own : List Bytes} (hown : SameOwn a own sv)
    {cur : List Bytes} (hpre : own <+: cur) {node : Node} (hp : getNode sv cur = some node) (cl : Bytes)
    (hk : findKid cl node.kids = none) (hlen : cur.length < fuelDepth) (hcl : cSlash ∉ cl) (dd : Option Nat) :
    SyncAll sv (createStep sv a cur cl dd) := by
  intro sid s hs hen m
  obtain ⟨sa, hsa, hn⟩ := hown
  obtain ⟨w, rfl⟩ := hpre
  have hg1 := good_createStep h a (own ++ w) cl dd hcl
  unfold createStep at hg1 ⊢
  have hns1 : NS (setNode sv (own ++ w) (fun q => q.setKids (putKid
      ((Node.fresh cl dd).setSubs (marksForNewNode sv (own ++ w ++ [cl]))) q.kids))) :=
    (ns_notifyChanged _ _ _ _ _ _).1 hg1.2
  have hnames : ∀ x ∈ own ++ w ++ [cl], cSlash ∉ x := by
    intro x hx
    rcases List.mem_append.1 hx with hx | hx
    · exact h.2.names hp x hx
    · simp at hx; subst hx; exact hcl
  have hcv : (sid ≠ a ∨ bySelfOf sv a = true) ↔ visible s (own ++ w ++ [cl]) = true := by
    rw [← hn, List.append_assoc]; exact caller_visible hsa hs _
  exact ⟨_, sync_create h.1 (own ++ w) (Node.fresh cl dd) rfl hp hk hlen (hns1.unamb hnames) hs hen a hcv m⟩

theorem syncAll_overStep {sv : Server} (h : Good sv) {a : Nat} {own : List Bytes} (hown : SameOwn a own sv)
    {v : List Bytes} (hpre : own <+: v) (hv : v ≠ []) {n0 : Node} (hn0 : getNode sv v = some n0) (d : Option Nat) :
    SyncAll sv (overStep sv a v n0 d) := by
  intro sid s hs hen m
  obtain ⟨sa, hsa, hn⟩ := hown
  obtain ⟨w, rfl⟩ := hpre
  unfold overStep
  have hcv : (sid ≠ a ∨ bySelfOf sv a = true) ↔ visible s (own ++ w) = true := by
    rw [← hn]; exact caller_visible hsa hs _
  exact ⟨_, sync_overwrite h.1 hv hn0 d (h.2.unamb (h.2.names hn0)) hs hen a hcv m⟩

/-! ## one clause of `setDataClauses` -/

theorem getNode_child {sv : Server} {cur : List Bytes} {node child : Node} (hp : getNode sv cur = some node) (cl : Bytes)
    (hk : findKid cl node.kids = some child) (hlen : cur.length < fuelDepth) : getNode sv (cur ++ [cl]) = some child := by
  rw [mr_getNode_append, hp]
  simp only [Option.bind_some]
  obtain ⟨k, hk'⟩ : ∃ k, fuelDepth - cur.length = k + 1 := ⟨fuelDepth - cur.length - 1, by omega⟩
  rw [hk', nodeAt_succ_cons, hk]
  simp [nodeAt_nil]

theorem setDataClauses_step (a : Nat) (d : Option Nat) {sv : Server} {cur : List Bytes} {node : Node}
    (hp : getNode sv cur = some node) (cl : Bytes) (rest : List Bytes) (hlen : cur.length < fuelDepth) :
    (findKid cl node.kids = none → rest = [] → setDataClauses a d false sv cur (cl :: rest) = createStep sv a cur cl d) ∧
    (findKid cl node.kids = none → rest ≠ [] →
      setDataClauses a d false sv cur (cl :: rest) = setDataClauses a d false (createStep sv a cur cl none) (cur ++ [cl]) rest) ∧
    (∀ child, findKid cl node.kids = some child → rest = [] →
      setDataClauses a d false sv cur (cl :: rest) = overStep sv a (cur ++ [cl]) child d) ∧
    (∀ child, findKid cl node.kids = some child → rest ≠ [] →
      setDataClauses a d false sv cur (cl :: rest) = setDataClauses a d false sv (cur ++ [cl]) rest) := by
  refine ⟨?_, ?_, ?_, ?_⟩
  · intro hk hr
    subst hr
    have := setDataClauses_create_last a d cl [] sv cur node (by simpa using hp) hk (by simpa using hlen)
    simp only [List.nil_append, List.append_nil] at this
    rw [this, putChild_quiet]
    rfl
  · intro hk hr
    have hre : rest.isEmpty = false := by cases rest <;> simp_all
    rw [setDataClauses]
    simp only [hp, hk, hre, Bool.false_and, Bool.false_eq_true, if_false, Bool.not_false]
    congr 1
    unfold putChild createStep
    simp [hp, hk]
  · intro child hk hr
    subst hr
    have hc := getNode_child hp cl hk hlen
    have := setDataClauses_existing a d [cl] sv cur child (by simp) hc
    rw [this]; rfl
  · intro child hk hr
    have hre : rest.isEmpty = false := by cases rest <;> simp_all
    rw [setDataClauses]
    simp only [hp, hk, hre, Bool.false_and, Bool.false_eq_true, if_false]

/-- the clause loop of `SetDataNode` (no index flag), within the depth the model sees -/
theorem syncAll_setDataClauses (a : Nat) (d : Option Nat) (own : List Bytes) :
    ∀ (cls : List Bytes) (sv : Server) (cur : List Bytes), Good sv → SameOwn a own sv → own <+: cur →
      (∀ c ∈ cls, cSlash ∉ c) → cur.length + cls.length ≤ fuelDepth →
      SyncAll sv (setDataClauses a d false sv cur cls) ∧ Good (setDataClauses a d false sv cur cls) ∧
        SameOwn a own (setDataClauses a d false sv cur cls) := by
  intro cls
  induction cls with
  | nil => intro sv cur h ho _ _ _; simp only [setDataClauses]; exact ⟨SyncAll.refl sv, h, ho⟩
  | cons cl rest ih =>
    intro sv cur h ho hpre hcls hlen
    have hcl : cSlash ∉ cl := hcls cl List.mem_cons_self
    have hrs : ∀ c ∈ rest, cSlash ∉ c := fun c hc => hcls c (List.mem_cons_of_mem _ hc)
    have hlen1 : cur.length < fuelDepth := by simp at hlen; omega
    have hlen2 : (cur ++ [cl]).length + rest.length ≤ fuelDepth := by simp at hlen ⊢; omega
    have hpre2 : own <+: cur ++ [cl] := hpre.trans (List.prefix_append _ _)
    cases hp : getNode sv cur with
    | none =>
      have : setDataClauses a d false sv cur (cl :: rest) = sv := by simp [setDataClauses, hp]
      rw [this]; exact ⟨SyncAll.refl sv, h, ho⟩
    | some node =>
      obtain ⟨e1, e2, e3, e4⟩ := setDataClauses_step a d hp cl rest hlen1
      cases hk : findKid cl node.kids with
      | none =>
        by_cases hr : rest = []
        · rw [e1 hk hr]
          exact ⟨syncAll_createStep h ho hpre hp cl hk hlen1 hcl d, good_createStep h a cur cl d hcl,
            sameOwn_createStep ho cur cl d⟩
        · rw [e2 hk hr]
          have s1 := syncAll_createStep h ho hpre hp cl hk hlen1 hcl none
          obtain ⟨s2, g2, o2⟩ := ih (createStep sv a cur cl none) (cur ++ [cl]) (good_createStep h a cur cl none hcl)
            (sameOwn_createStep ho cur cl none) hpre2 hrs hlen2
          exact ⟨s1.trans s2, g2, o2⟩
      | some child =>
        by_cases hr : rest = []
        · rw [e3 child hk hr]
          have hc := getNode_child hp cl hk hlen1
          exact ⟨syncAll_overStep h ho hpre2 (by simp) hc d, good_overStep h a _ child d, sameOwn_overStep ho _ child d⟩
        · rw [e4 child hk hr]
          exact ih sv (cur ++ [cl]) h ho hpre2 hrs hlen2

/-- the depth the model sees: session-node depth 2 plus the clauses -/
def SetOK (path : Bytes) : Prop := 2 + (pathClauses path).length ≤ fuelDepth

/-- PR_COMMAND_SETDATA (no flags), any path within the depth bound -/
theorem syncAll_setDataNode {sv : Server} (h : Good sv) (a : Nat) (path : Bytes) (hok : SetOK path) (d : Option Nat) :
    SyncAll sv (setDataNode sv a path d false) ∧ Good (setDataNode sv a path d false) := by
  unfold setDataNode
  cases hsa : sv.sess? a with
  | none => exact ⟨SyncAll.refl sv, h⟩
  | some sa =>
    simp only []
    cases path with
    | nil => exact ⟨SyncAll.refl sv, h⟩
    | cons c r =>
      simp only []
      split
      · exact ⟨SyncAll.refl sv, h⟩
      · have := syncAll_setDataClauses a d (sessNames sa) (pathClauses (c :: r)) sv (sessNames sa) h ⟨sa, hsa, rfl⟩
          (List.prefix_refl _) (noSlash_pathClauses _) (by unfold SetOK at hok; simpa [sessNames] using hok)
        exact ⟨this.1, this.2.1⟩

theorem syncAll_set {sv : Server} (h : Good sv) (a : Nat) (path : Bytes) (hok : SetOK path) (x : Nat) :
    SyncAll sv (runCmd sv a (.set path x false)) ∧ Good (runCmd sv a (.set path x false)) :=
  syncAll_setDataNode h a path hok (some x)

/-- `setm`: several payloads set one after the other without a push in between -/
theorem syncAll_setm {sv : Server} (h : Good sv) (a : Nat) (path : Bytes) (hok : SetOK path) (vs : List Nat) :
    SyncAll sv (vs.foldl (fun sv v => runCmd sv a (.set path v false)) sv) ∧
      Good (vs.foldl (fun sv v => runCmd sv a (.set path v false)) sv) := by
  induction vs generalizing sv with
  | nil => exact ⟨SyncAll.refl sv, h⟩
  | cons v r ih =>
    simp only [List.foldl_cons]
    obtain ⟨s1, g1⟩ := syncAll_set h a path hok v
    obtain ⟨s2, g2⟩ := ih g1
    exact ⟨s1.trans s2, g2⟩

end Muscle.Reflector
