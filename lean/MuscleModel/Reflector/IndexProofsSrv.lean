import MuscleModel.Reflector.IndexProofsTree

/-!
# C13 server lemmas: notifications never touch the tree; what each index-changing function does to the
parent node, and the instruction it hands to `notifyIndex`
-/

set_option linter.unusedSimpArgs false
set_option linter.unusedVariables false

namespace Muscle.Reflector
open Muscle

/-! ## the notification pipeline leaves the tree alone -/

theorem foldl_root {α} (f : Server → α → Server) (h : ∀ sv x, (f sv x).root = sv.root) (xs : List α) (sv : Server) :
    (xs.foldl f sv).root = sv.root := by
  induction xs generalizing sv with
  | nil => rfl
  | cons x r ih => simp only [List.foldl_cons]; rw [ih, h]

@[simp] theorem updSess_root (sv : Server) (sid : Nat) (f : Sess → Sess) : (sv.updSess sid f).root = sv.root := rfl
@[simp] theorem deliver_root (sv : Server) (sid : Nat) (w : String) : (sv.deliver sid w).root = sv.root := rfl
@[simp] theorem pushOnce_root (sv : Server) : (pushOnce sv).root = sv.root := rfl
@[simp] theorem pushAll_root (sv : Server) : (pushAll sv).root = sv.root := by
  unfold pushAll; split <;> simp

@[simp] theorem nodeChangedAux_root (sv : Server) (sid : Nat) (np : Bytes) (d : Option Nat) (removed : Bool) :
    (nodeChangedAux sv sid np d removed).root = sv.root := by
  unfold nodeChangedAux
  cases hs : sv.sess? sid with
  | none => rfl
  | some s =>
    simp only
    cases removed with
    | false =>
      simp only [Bool.false_eq_true, if_false]
      repeat' split
      all_goals simp
    | true =>
      cases hh : (s.nextData.getD {}).hasSet np with
      | false =>
        simp only [Bool.false_eq_true, if_false, if_true]
        repeat' split
        all_goals simp
      | true =>
        simp only [if_true]
        repeat' split
        all_goals simp

@[simp] theorem nodeChanged_root (sv : Server) (sid : Nat) (names : List Bytes) (nd : Option Nat)
    (od : Option (Option Nat)) (removed : Bool) : (nodeChanged sv sid names nd od removed).root = sv.root := by
  unfold nodeChanged
  split
  · rfl
  · simp only
    repeat' split
    all_goals simp

@[simp] theorem notifyChanged_root (sv : Server) (by_ : Nat) (names : List Bytes) (node : Node)
    (od : Option (Option Nat)) (removed : Bool) : (notifyChanged sv by_ names node od removed).root = sv.root := by
  unfold notifyChanged
  apply foldl_root
  intro sv x
  repeat' split
  all_goals simp

@[simp] theorem notifyIndex_root (sv : Server) (names : List Bytes) (node : Node) (instr : Bytes) :
    (notifyIndex sv names node instr).root = sv.root := by
  unfold notifyIndex
  apply foldl_root
  intro sv x
  repeat' split
  all_goals simp

/-! ## `getNode` / `setNode` -/

theorem getNode_congr {sv sv' : Server} (h : sv'.root = sv.root) (names : List Bytes) :
    getNode sv' names = getNode sv names := by
  simp [getNode, h]

@[simp] theorem setNode_root (sv : Server) (names : List Bytes) (f : Node → Node) :
    (setNode sv names f).root = updateAt fuelDepth sv.root names f := rfl

theorem getNode_setNode {f : Node → Node} (hf : ∀ n, (f n).name = n.name) (sv : Server) (path : List Bytes) :
    getNode (setNode sv path f) path = (getNode sv path).map f := by
  simp only [getNode, setNode_root]
  exact ix_nodeAt_updateAt_same hf _ _ _

theorem getNode_setNode_prefix {f : Node → Node} (hf : ∀ n, (f n).name = n.name) (sv : Server)
    (pre ext : List Bytes) :
    getNode (setNode sv (pre ++ ext) f) pre =
      (getNode sv pre).map (fun p => updateAt (fuelDepth - pre.length) p ext f) := by
  simp only [getNode, setNode_root]
  exact nodeAt_updateAt_append hf _ _ _ _

theorem getNode_snoc {sv : Server} {pre : List Bytes} {k : Bytes} {c : Node}
    (h : getNode sv (pre ++ [k]) = some c) : ∃ p, getNode sv pre = some p ∧ findKid k p.kids = some c :=
  nodeAt_snoc h

@[simp] theorem getNode_notifyIndex (sv : Server) (names : List Bytes) (node : Node) (instr : Bytes) (q : List Bytes) :
    getNode (notifyIndex sv names node instr) q = getNode sv q := getNode_congr (by simp) q

@[simp] theorem getNode_notifyChanged (sv : Server) (by_ : Nat) (names : List Bytes) (node : Node)
    (od : Option (Option Nat)) (removed : Bool) (q : List Bytes) :
    getNode (notifyChanged sv by_ names node od removed) q = getNode sv q := getNode_congr (by simp) q

@[simp] theorem getNode_updSess (sv : Server) (sid : Nat) (f : Sess → Sess) (q : List Bytes) :
    getNode (sv.updSess sid f) q = getNode sv q := rfl

end Muscle.Reflector
