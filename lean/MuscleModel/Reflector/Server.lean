import MuscleModel.Reflector.Traverse

/-!
# The reflector: sessions, subscriptions, notification pipeline, command handlers

Mirrors `reflector/StorageReflectSession.cpp` (and the parts of `DataNode.cpp` that notify):
`AttachedToServer`, `Cleanup`, `NotifySubscribersThatNodeChanged / …IndexChanged / …OfNewNode`,
`NodeCreated`, `NodeChanged`, `NodeChangedAux` (flush on remove-after-set conflict, flush at
`maxItems`), `NodeIndexChanged`, `PushSubscriptionMessages`, `SetDataNode`, `InsertOrderedChild`,
`ReorderChild`, `RemoveChild`, `RemoveIndexEntry`, and the handlers of PR_COMMAND_SETDATA,
REMOVEDATA, SETPARAMETERS (SUBSCRIBE:, reflect-to-self, max items, default route), REMOVEPARAMETERS,
GETPARAMETERS, INSERTORDEREDDATA, REORDERDATA, PING, BATCH, client-to-client routing, and
`FindMatchingNodes`.  What a client receives is recorded per session as canonical text, exactly as
`harness/srv.cpp` prints it.
-/

namespace Muscle.Reflector
open Muscle

/-- PR_RESULT_DATAITEMS under construction: the removed-paths field and the Message fields in order -/
structure UpdMsg where
  removed : List Bytes := []
  sets : List (Bytes × List (Option Nat)) := []

def UpdMsg.numNames (m : UpdMsg) : Nat := (if m.removed.isEmpty then 0 else 1) + m.sets.length
def UpdMsg.hasSet (m : UpdMsg) (np : Bytes) : Bool := m.sets.any (fun (p, _) => p = np)
def UpdMsg.addSet (m : UpdMsg) (np : Bytes) (d : Option Nat) : UpdMsg :=
  if m.hasSet np then { m with sets := m.sets.map (fun (p, xs) => if p = np then (p, xs ++ [d]) else (p, xs)) }
  else { m with sets := m.sets ++ [(np, [d])] }

/-- PR_RESULT_INDEXUPDATED under construction: string fields (node path → instructions) in order -/
abbrev IdxMsg := List (Bytes × List Bytes)

def IdxMsg.add (m : IdxMsg) (np s : Bytes) : IdxMsg :=
  if m.any (fun (p, _) => p = np) then m.map (fun (p, xs) => if p = np then (p, xs ++ [s]) else (p, xs))
  else m ++ [(np, [s])]

structure Sess where
  slot : Nat
  sid : Nat
  host : Bytes
  subs : PM := []
  params : List Bytes := []          -- names of the fields in `_parameters`
  reflectSelf : Bool := false
  maxItems : Nat := 50
  subsEnabled : Bool := true
  indexingPresent : Bool := false
  route : PM := []                   -- `_defaultMessageRoute`, rebuilt from the two lists below
  hasRouteKeys : Bool := false
  routeKeys : List Bytes := []       -- PR_NAME_KEYS of `_defaultMessageRouteMessage`
  routeFilts : Option (List (Option Filt)) := none   -- PR_NAME_FILTERS of it, if present (an item that is no filter archive = none)
  nextData : Option UpdMsg := none
  nextIdx : Option IdxMsg := none
  inbox : List String := []          -- what the client received since the last `pump` line

structure Server where
  root : Node := Node.fresh [] none
  live : Bool := false               -- the shared data (global root) exists
  sessions : List Sess := []         -- `GetSessions()`: attach order
  nextSid : Nat := 0
  subsDirty : Bool := false
  maxItemsDefault : Nat := 50        -- DEFAULT_MAX_SUBSCRIPTION_MESSAGE_SIZE (a tunable)

def fuelDepth : Nat := 110           -- > MUSCLE_MAX_NODE_DEPTH

/-! ## small helpers -/

def decOf (n : Nat) : Bytes := (toString n).toUTF8.toList
def sidName (sid : Nat) : Bytes := decOf sid

def Server.sess? (sv : Server) (sid : Nat) : Option Sess := sv.sessions.find? (fun s => s.sid = sid)
def Server.updSess (sv : Server) (sid : Nat) (f : Sess → Sess) : Server :=
  { sv with sessions := sv.sessions.map (fun s => if s.sid = sid then f s else s) }
def Server.deliver (sv : Server) (sid : Nat) (what : String) : Server :=
  sv.updSess sid (fun s => { s with inbox := s.inbox ++ [what] })

/-- id of the session owning the node with these names (`GetAncestorNode(NODE_DEPTH_SESSIONNAME)`) -/
def ownerName (names : List Bytes) : Option Bytes := names[1]?

def subCount (subs : List (Nat × Nat)) (sid : Nat) : Nat :=
  match subs.find? (fun (k, _) => k = sid) with
  | some (_, c) => c
  | none => 0

/-- `GetDataNodeSubscribersTableFromPool(cur, sid, delta)`; `delta = none` = "remove all" (−2147483647) -/
def adjustSubs (subs : List (Nat × Nat)) (sid : Nat) (delta : Option Int) : List (Nat × Nat) :=
  let cur := subCount subs sid
  let new : Nat := match delta with
    | none => 0
    | some d => if d ≥ 0 then cur + d.toNat else (if cur ≥ (-d).toNat then cur - (-d).toNat else 0)
  let rest := subs.filter (fun (k, _) => k ≠ sid)
  if new > 0 then (if subs.any (fun (k, _) => k = sid) then subs.map (fun (k, c) => if k = sid then (k, new) else (k, c)) else subs ++ [(sid, new)])
  else rest

def hexS (b : Bytes) : String := tokOfBytes b

/-! ## canonical text of deliveries -/

def dataText (m : UpdMsg) : String :=
  "D[" ++ String.join (m.removed.map (fun r => "-" ++ hexS r ++ " ")) ++
    String.join (m.sets.map (fun (p, xs) => String.join (xs.map (fun d => "+" ++ hexS p ++ "=" ++ payloadDump d ++ " ")))) ++ "]"

def idxText (m : IdxMsg) : String :=
  "I[" ++ String.join (m.map (fun (p, xs) => String.join (xs.map (fun s => hexS p ++ ":" ++ hexS s ++ " ")))) ++ "]"

/-! ## notification pipeline -/

/-- `PushSubscriptionMessages()`: every session's pending update Messages go out, data before index -/
def pushOnce (sv : Server) : Server :=
  { sv with subsDirty := false, sessions := sv.sessions.map (fun s =>
      let s1 := match s.nextData with
        | some m => { s with nextData := none, inbox := s.inbox ++ [dataText m] }
        | none => s
      match s1.nextIdx with
      | some m => { s1 with nextIdx := none, inbox := s1.inbox ++ [idxText m] }
      | none => s1) }

def pushAll (sv : Server) : Server := if sv.subsDirty then pushOnce sv else sv

/-- `NodeChangedAux(node, data, flags)` for session `sid`; `np` = the node's path string -/
def nodeChangedAux (sv : Server) (sid : Nat) (np : Bytes) (d : Option Nat) (removed : Bool) : Server :=
  match sv.sess? sid with
  | none => sv
  | some s =>
    let cur := s.nextData.getD {}
    let sv := { sv with subsDirty := true }
    let sv :=
      if removed then
        if cur.hasSet np then
          -- remove-after-set for one path cannot be expressed in one Message: flush, then start again
          let sv := pushAll (sv.updSess sid (fun s => { s with nextData := some cur }))
          sv.updSess sid (fun s => { s with nextData := some { removed := [np] } }) |> fun sv => { sv with subsDirty := true }
        else sv.updSess sid (fun s => { s with nextData := some { cur with removed := cur.removed ++ [np] } })
      else sv.updSess sid (fun s => { s with nextData := some (cur.addSet np d) })
    match sv.sess? sid with
    | none => sv
    | some s =>
      match s.nextData with
      | some m => if m.numNames ≥ s.maxItems then pushAll sv else sv
      | none => sv

/-- `NodeChanged(node, oldData, flags)`; `oldData = none` is the NULL reference (a created node) -/
def nodeChanged (sv : Server) (sid : Nat) (names : List Bytes) (newData : Option Nat)
    (oldData : Option (Option Nat)) (removed : Bool) : Server :=
  match sv.sess? sid with
  | none => sv
  | some s =>
    if !s.subsEnabled then sv else
    let np := pathString names
    if pmNumFilters s.subs > 0 then
      let matchedBefore := match oldData with
        | none => pmMatchesPath s.subs names false none
        | some od => pmMatchesPath s.subs names true od
      if removed then
        if !matchedBefore then sv else nodeChangedAux sv sid np newData true
      else
        let matchesNow := pmMatchesPath s.subs names true newData
        match oldData with
        | some _ =>
          if !matchesNow then (if matchedBefore then nodeChangedAux sv sid np newData true else sv)
          else nodeChangedAux sv sid np newData false
        | none => if !matchesNow then sv else nodeChangedAux sv sid np newData false
    else nodeChangedAux sv sid np newData removed

/-- `NotifySubscribersThatNodeChanged(node, oldData, flags)` called by session `by_` -/
def notifyChanged (sv : Server) (by_ : Nat) (names : List Bytes) (node : Node) (oldData : Option (Option Nat))
    (removed : Bool) : Server :=
  let bySelf := match sv.sess? by_ with | some s => s.reflectSelf | none => false
  node.subs.foldl (fun sv (sid, _) =>
    if sid ≠ by_ || bySelf then nodeChanged sv sid names node.data oldData removed else sv) sv

/-- `NodeIndexChanged` for every subscriber of the node (no self filter) -/
def notifyIndex (sv : Server) (names : List Bytes) (node : Node) (instr : Bytes) : Server :=
  node.subs.foldl (fun sv (sid, _) =>
    match sv.sess? sid with
    | none => sv
    | some s =>
      if !s.subsEnabled then sv else
      { sv.updSess sid (fun s => { s with nextIdx := some (IdxMsg.add (s.nextIdx.getD []) (pathString names) instr) }) with subsDirty := true }) sv

def instrOf (op : Char) (pos : Nat) (key : Bytes) : Bytes :=
  (String.singleton op ++ toString pos ++ ":").toUTF8.toList ++ key

/-- `NotifySubscribersOfNewNode` → `NodeCreated` in every session: the new node's subscriber table -/
def marksForNewNode (sv : Server) (names : List Bytes) : List (Nat × Nat) :=
  sv.sessions.foldl (fun acc s =>
    let c := pmMatchCount s.subs names
    adjustSubs acc s.sid (some c)) []

/-! ## tree mutation with notification -/

def getNode (sv : Server) (names : List Bytes) : Option Node := nodeAt fuelDepth sv.root names
def setNode (sv : Server) (names : List Bytes) (f : Node → Node) : Server :=
  { sv with root := updateAt fuelDepth sv.root names f }

/-- `parent.PutChild(child, notifyParent := by, notifyChanged)`: the child gets its subscriber table from
    every session's `NodeCreated`; `notify` = whether `optNotifyChangedData` was given -/
def putChild (sv : Server) (by_ : Nat) (parent : List Bytes) (child : Node) (notify : Bool) : Server :=
  let names := parent ++ [child.name]
  let old := (getNode sv parent).bind (fun p => findKid child.name p.kids)
  let child := child.setSubs (marksForNewNode sv names)
  let sv := setNode sv parent (fun p => p.setKids (putKid child p.kids))
  if notify then notifyChanged sv by_ names child (old.map (·.data)) false else sv

/-- `RemoveIndexEntry(key, notify)`: search from the back -/
def lastIndexOf (xs : List Bytes) (k : Bytes) : Option Nat :=
  let rec go : List Bytes → Nat → Option Nat → Option Nat
    | [], _, acc => acc
    | x :: r, i, acc => go r (i + 1) (if x = k then some i else acc)
  go xs 0 none

def removeIndexEntry (sv : Server) (parent : List Bytes) (key : Bytes) (notify : Bool) : Server :=
  match getNode sv parent with
  | none => sv
  | some p =>
    match lastIndexOf p.index key with
    | none => sv
    | some i =>
      let sv := setNode sv parent (fun p => p.setIndex (p.index.eraseIdx i))
      if notify then
        match getNode sv parent with
        | some p' => notifyIndex sv parent p' (instrOf 'r' i key)
        | none => sv
      else sv

/-- the order in which `RemoveChild(…, recurse := true)` takes a subtree apart: children first
    (always the first remaining child, i.e. in child order), then the node itself -/
def removalOrder : Nat → List Bytes → Node → List (List Bytes)
  | 0, names, _ => [names]
  | fuel+1, names, n => (n.kids.flatMap (fun k => removalOrder fuel (names ++ [k.name]) k)) ++ [names]

/-- the body of `RemoveChild` for one (by now childless) node -/
def removeOne (sv : Server) (by_ : Nat) (notify : Bool) (names : List Bytes) : Server :=
  match names.getLast?, getNode sv names with
  | some key, some _ =>
    let parent := names.dropLast
    let sv := removeIndexEntry sv parent key notify
    let sv := match getNode sv names with
      | some c => if notify then notifyChanged sv by_ names c (some c.data) true else sv
      | none => sv
    setNode sv parent (fun p => p.setKids (removeKid key p.kids))
  | _, _ => sv

/-- `parent.RemoveChild(key, notify := by, recurse := true)` -/
def removeChild (sv : Server) (by_ : Nat) (notify : Bool) (names : List Bytes) : Server :=
  match getNode sv names with
  | none => sv
  | some n => (removalOrder fuelDepth names n).foldl (fun sv nm => removeOne sv by_ notify nm) sv

end Muscle.Reflector
