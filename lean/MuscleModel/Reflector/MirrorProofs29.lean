import MuscleModel.Reflector.MirrorProofs28

/-!
# C04 lemmas, part 29: `SubNewOK` for every session whose snapshot rule and notification rule agree
(it reflects to itself, or it does not carry the indexing flag)
-/

set_option linter.unusedSimpArgs false
set_option linter.unusedVariables false

namespace Muscle.Reflector
open Muscle Muscle.Eng.SrvEngine

theorem subNewOK_of_rule {sid : Nat} {sv : Server} (hti : TreeInv sv) (path : Bytes) (f : Option Filt)
    (hgood : GoodPath (adjustPrefix path (some defaultPrefix)))
    (h : ∀ s, sv.sess? sid = some s → (s.reflectSelf = true ∨ s.indexingPresent = false) ∧
      pmFind s.subs (adjustPrefix path (some defaultPrefix)) = none) :
    SubNewOK sid sv path f :=
  ⟨hgood, fun s hs => ⟨(h s hs).2, snapVisits_of (treeInv_subC hti sid path f) (sC := subSess s path f) (h s hs).1 hgood f⟩⟩

end Muscle.Reflector
