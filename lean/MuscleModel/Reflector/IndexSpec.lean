import MuscleModel.Reflector.Handlers

/-!
# C13 specification side: index instructions, the client's replay, the index invariant

An index instruction is the byte string `<op><decimal position>:<name>`, op ∈ {`c`,`i`,`r`}
(`UpdateSubscriptionIndexMessage`, `INDEX_OP_CLEARED / ENTRYINSERTED / ENTRYREMOVED`).  The client
(`received()` in `harness/srv.cpp`, i.e. what every MUSCLE client does with PR_RESULT_INDEXUPDATED)
looks at the first byte, reads the decimal number that follows (`atol`), splits at the FIRST `:`
(`strchr`), and applies

* `c` → clear,
* `i` → insert the name at the position (which must be ≤ the length),
* `r` → remove the entry at the position (which must be < the length and hold that name).

`replay` is that client on raw byte strings; it answers `none` where the client would refuse or not
understand the instruction, so `replayAll … = some ix` also says that every position was in range.

Nothing here changes the model: these are new definitions *about* `Reflector/Server.lean` and
`Reflector/Handlers.lean`.
-/

namespace Muscle.Reflector
open Muscle

/-! ## instructions -/

inductive Instr where
  | clear
  | ins (pos : Nat) (name : Bytes)
  | rem (pos : Nat) (name : Bytes)
  deriving DecidableEq, Repr

/-- the bytes the server hands to `notifyIndex` (`instrOf`), resp. the `"c"` of the GETDATA snapshot -/
def Instr.render : Instr → Bytes
  | .clear => "c".toUTF8.toList
  | .ins p n => instrOf 'i' p n
  | .rem p n => instrOf 'r' p n

def isDigitB (b : UInt8) : Bool := decide (48 ≤ b.toNat) && decide (b.toNat ≤ 57)

/-- `atol` on a run of digits -/
def decValB (ds : Bytes) : Nat := ds.foldl (fun a b => 10 * a + (b.toNat - 48)) 0

/-- the client's reading of one instruction string: op = first byte, position = the digits after it,
    name = everything after the first `:` (so names may themselves contain `:`) -/
def Instr.parse : Bytes → Option Instr
  | [] => none
  | op :: rest =>
    let pos := decValB (rest.takeWhile isDigitB)
    let name := (rest.dropWhile (fun b => b != 58)).drop 1
    if op = 99 then some .clear
    else if op = 105 then some (.ins pos name)
    else if op = 114 then some (.rem pos name)
    else none

/-- `InsertItemAt(i, x)` on the list of names -/
def insertAt (xs : List Bytes) (i : Nat) (x : Bytes) : List Bytes := xs.take i ++ [x] ++ xs.drop i

/-- the client applying one parsed instruction (strict: `none` = out of range / wrong name) -/
def Instr.apply (ix : List Bytes) : Instr → Option (List Bytes)
  | .clear => some []
  | .ins p n => if p ≤ ix.length then some (insertAt ix p n) else none
  | .rem p n => if ix[p]? = some n then some (ix.eraseIdx p) else none

def applyAll (ix : List Bytes) : List Instr → Option (List Bytes)
  | [] => some ix
  | i :: r => (i.apply ix).bind (fun ix' => applyAll ix' r)

/-- the client on one raw instruction string -/
def replay (ix : List Bytes) (s : Bytes) : Option (List Bytes) := (Instr.parse s).bind (Instr.apply ix)

/-- the client on a log of raw instruction strings, in order -/
def replayAll (ix : List Bytes) : List Bytes → Option (List Bytes)
  | [] => some ix
  | s :: r => (replay ix s).bind (fun ix' => replayAll ix' r)

/-- "every insert position ≤ current length, every remove position < current length and names the entry
    at that position", along a log that starts at index `ix` -/
def InRange : List Bytes → List Instr → Prop
  | _, [] => True
  | _, .clear :: r => InRange [] r
  | ix, .ins p n :: r => p ≤ ix.length ∧ InRange (insertAt ix p n) r
  | ix, .rem p n :: r => p < ix.length ∧ ix[p]? = some n ∧ InRange (ix.eraseIdx p) r

/-! ## what the model functions compute, as functions of the parent node before the call -/

/-- `insertIndex` of `InsertOrderedChild` / `targetIndex` of `ReorderChild`: position of the last entry
    named `before`, default end of index -/
def insertPos (ix : List Bytes) (before : Bytes) : Nat :=
  match lastIndexOf ix before with
  | some i => i
  | none => ix.length

/-- (name, counter after) chosen by `InsertOrderedChild` -/
def ordPair (p : Node) (name : Bytes) : Bytes × Nat :=
  if name.isEmpty then autoName (p.kids.length + 1) p.ctr p.kids else (name, p.ctr)

/-- the index after `RemoveIndexEntry(key)` -/
def eraseLast (ix : List Bytes) (key : Bytes) : List Bytes :=
  match lastIndexOf ix key with
  | some i => ix.eraseIdx i
  | none => ix

/-- the instruction `RemoveIndexEntry(key, notify)` emits -/
def remLog (ix : List Bytes) (key : Bytes) : List Instr :=
  match lastIndexOf ix key with
  | some i => [.rem i key]
  | none => []

/-- `targetIndex` of `ReorderChild`, computed on the index after the removal -/
def reorderTarget (p : Node) (child before : Bytes) : Nat :=
  if (findKid before p.kids).isSome then insertPos (eraseLast p.index child) before
  else (eraseLast p.index child).length

/-- the instructions `ReorderChild(child, before)` emits -/
def reorderLog (p : Node) (child before : Bytes) : List Instr :=
  if before = child then [] else
  if p.index.isEmpty && !(p.index.contains child) && before = removeFromIndexName then [] else
  remLog p.index child ++
    (if before = removeFromIndexName then [] else [.ins (reorderTarget p child before) child])

/-! ## the invariant -/

/-- the index lists existing children only, each at most once -/
def IdxInv (n : Node) : Prop := n.index.Nodup ∧ ∀ c ∈ n.index, (findKid c n.kids).isSome

/-- sibling names are pairwise different (the children live in a `Hashtable` keyed by name) -/
def KidsDistinct (n : Node) : Prop := (n.kids.map Node.name).Nodup

/-- the per-node invariant: sound index, distinct child names -/
def NodeInv (n : Node) : Prop := IdxInv n ∧ KidsDistinct n

/-- `P` holds at a node and everywhere below it -/
inductive AllNodes (P : Node → Prop) : Node → Prop
  | mk (n : Node) : P n → (∀ k ∈ n.kids, AllNodes P k) → AllNodes P n

/-! ## operations on one parent node, for the statements over op sequences -/

/-- the index-relevant operations the server performs on the children of one node (`parent`) -/
inductive IdxOp where
  /-- `InsertOrderedChild(data, before, name)` -/
  | insert (by_ : Nat) (d : Option Nat) (before name : Bytes) (notifyChanged : Bool)
  /-- `ReorderChild(child, before)` -/
  | reorder (child before : Bytes)
  /-- `RemoveIndexEntry(key, notify)` -/
  | removeEntry (key : Bytes)
  /-- the body of `RemoveChild(key, notify)` for a childless child -/
  | removeOne (by_ : Nat) (key : Bytes)
  /-- `RemoveChild(key, notify, recurse)` -/
  | removeChild (by_ : Nat) (key : Bytes)
  /-- plain `PutChild` (no index change, nothing emitted) -/
  | put (by_ : Nat) (child : Node) (notify : Bool)
  deriving Inhabited

/-- the model function each operation stands for (notifying variants) -/
def IdxOp.run (parent : List Bytes) (sv : Server) : IdxOp → Server
  | .insert by_ d before name nc => insertOrderedChild sv by_ parent d before name nc
  | .reorder child before => reorderChild sv parent child before
  | .removeEntry key => removeIndexEntry sv parent key true
  | .removeOne by_ key => Reflector.removeOne sv by_ true (parent ++ [key])
  | .removeChild by_ key => Reflector.removeChild sv by_ true (parent ++ [key])
  | .put by_ child notify => putChild sv by_ parent child notify

/-- the instructions the operation hands to `notifyIndex` for `parent` (justified per function by the
    `…_emits` equations in `Props/C13.lean`), as a function of the state before -/
def IdxOp.log (parent : List Bytes) (sv : Server) : IdxOp → List Instr
  | .insert _ _ before name _ =>
    match getNode sv parent with
    | some p =>
      -- `optInsertBefore == "!Rmv"`: the child is created but not indexed, nothing is emitted
      if before = removeFromIndexName then [] else [.ins (insertPos p.index before) (ordPair p name).1]
    | none => []
  | .reorder child before =>
    match getNode sv parent with
    | some p => reorderLog p child before
    | none => []
  | .removeEntry key =>
    match getNode sv parent with
    | some p => remLog p.index key
    | none => []
  | .removeOne _ key | .removeChild _ key =>
    match getNode sv parent, getNode sv (parent ++ [key]) with
    | some p, some _ => remLog p.index key
    | _, _ => []
  | .put _ _ _ => []

/-- run a list of operations, collecting the rendered log -/
def runOps (parent : List Bytes) : Server → List IdxOp → Server × List Bytes
  | sv, [] => (sv, [])
  | sv, op :: r =>
    let (sv', l) := runOps parent (op.run parent sv) r
    (sv', (op.log parent sv).map Instr.render ++ l)

/-- what an operation needs for the invariant to survive: unless it does not index at all (`before = "!Rmv"`),
    the name `InsertOrderedChild` uses (the given one, or
    the generated `I<n>`, which is always unused: `ordPair_fresh`) is not already an indexed child;
    `ReorderChild` is called for an existing child (the REORDERDATA handler looks it up first) -/
def IdxOp.ok (p : Node) : IdxOp → Prop
  | .insert _ _ before name _ =>
    before = removeFromIndexName ∨ findKid (ordPair p name).1 p.kids = none ∨ (ordPair p name).1 ∉ p.index
  | .reorder child before => before = removeFromIndexName ∨ (findKid child p.kids).isSome
  | _ => True

/-- the index part of what `doGetData` sends for one node: `c`, then `i0:n0`, `i1:n1`, … -/
def snapshotLog (ix : List Bytes) : List Bytes :=
  "c".toUTF8.toList :: (ix.zipIdx.map (fun (nm, i) => instrOf 'i' i nm))

end Muscle.Reflector
