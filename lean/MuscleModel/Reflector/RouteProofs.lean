import MuscleModel.Reflector.FrameProofs5
import MuscleModel.Reflector.IndexProofsInstr

/-!
# The compiled default route is coherent with the two parameters it is compiled from (C05)

`Sess.route` (`_defaultMessageRoute`) is a cache of `buildRoute s.routeKeys s.routeFilts`
(`PutPathsFromMessage(PR_NAME_KEYS, PR_NAME_FILTERS, …)` of `_defaultMessageRouteMessage`); the two parameters are set
and removed separately (`.paramRoute`, `.paramRouteF`, `.unparamRoute`, `.unparamRouteF`).

* `rk s` = the route-related part of a session: the cache, the two parameters, `hasRouteKeys`, and whether the
  parameter names `keyName` / `filtName` are in `params`.
* `RouteOK (rk s)` = the cache-coherence invariant; `RC sv` = it holds for every session.
* `RK sv sv'` = `sv'.sessions.map rk = sv.sessions.map rk`: what every data command satisfies (for EVERY session,
  the acting one included).  Reflexive, transitive; one lemma per primitive / handler (prefix `rt_`).
* `RReach` = the states reachable from the empty server by attach, detach, any `runCmd`, `pushAll`, pump
  (no side condition on the commands).
* `rt_buildRouteAux_pairs`: `buildRouteAux` without recursion (`List.zip` of the keys with the assigned filters).
-/

set_option linter.unusedSimpArgs false
set_option linter.unusedVariables false

namespace Muscle.Reflector
open Muscle Muscle.Eng.SrvEngine

/-! ## the parameter names as bytes -/

theorem rt_keyName : keyName = [33, 83, 110, 75, 121] := by
  unfold keyName
  rw [show "!SnKy" = String.ofList ['!', 'S', 'n', 'K', 'y'] from rfl, asciiBytes _ (by decide)]
  decide
theorem rt_filtName : filtName = [33, 83, 110, 70, 108] := by
  unfold filtName
  rw [show "!SnFl" = String.ofList ['!', 'S', 'n', 'F', 'l'] from rfl, asciiBytes _ (by decide)]
  decide
theorem rt_selfName : selfName = [33, 83, 101, 108, 102] := by
  unfold selfName
  rw [show "!Self" = String.ofList ['!', 'S', 'e', 'l', 'f'] from rfl, asciiBytes _ (by decide)]
  decide
theorem rt_maxName : maxName = [33, 77, 120, 85, 112] := by
  unfold maxName
  rw [show "!MxUp" = String.ofList ['!', 'M', 'x', 'U', 'p'] from rfl, asciiBytes _ (by decide)]
  decide
theorem rt_subscribePrefix : subscribePrefix = [83, 85, 66, 83, 67, 82, 73, 66, 69, 58] := by
  unfold subscribePrefix
  rw [show "SUBSCRIBE:" = String.ofList ['S','U','B','S','C','R','I','B','E',':'] from rfl, asciiBytes _ (by decide)]
  decide

theorem rt_key_ne_filt : keyName ≠ filtName := by rw [rt_keyName, rt_filtName]; decide
theorem rt_key_ne_self : keyName ≠ selfName := by rw [rt_keyName, rt_selfName]; decide
theorem rt_key_ne_max : keyName ≠ maxName := by rw [rt_keyName, rt_maxName]; decide
theorem rt_filt_ne_self : filtName ≠ selfName := by rw [rt_filtName, rt_selfName]; decide
theorem rt_filt_ne_max : filtName ≠ maxName := by rw [rt_filtName, rt_maxName]; decide
theorem rt_key_ne_sub (path : Bytes) : keyName ≠ subscribePrefix ++ path := by
  rw [rt_keyName, rt_subscribePrefix]; intro h; injection h with h _; exact absurd h (by decide)
theorem rt_filt_ne_sub (path : Bytes) : filtName ≠ subscribePrefix ++ path := by
  rw [rt_filtName, rt_subscribePrefix]; intro h; injection h with h _; exact absurd h (by decide)

theorem rt_key_noprefix : subscribePrefix.isPrefixOf keyName = false := by rw [rt_keyName, rt_subscribePrefix]; decide
theorem rt_filt_noprefix : subscribePrefix.isPrefixOf filtName = false := by rw [rt_filtName, rt_subscribePrefix]; decide

/-! ## `params` membership under `addParam` / removal -/

theorem rt_contains_filter_keep {l : List Bytes} {p : Bytes → Bool} {m : Bytes} (h : p m = true) :
    (l.filter p).contains m = l.contains m := by
  rw [Bool.eq_iff_iff]
  simp only [List.contains_iff_mem, List.mem_filter]
  constructor
  · exact fun h1 => h1.1
  · exact fun h1 => ⟨h1, h⟩

theorem rt_contains_add {l : List Bytes} {n m : Bytes} (h : m ≠ n) :
    (if l.contains n then l else l ++ [n]).contains m = l.contains m := by
  split
  · rfl
  · rw [Bool.eq_iff_iff]
    simp only [List.contains_iff_mem, List.mem_append, List.mem_singleton]
    constructor
    · rintro (h1 | h1)
      · exact h1
      · exact absurd h1 h
    · exact Or.inl

theorem rt_contains_add_self (l : List Bytes) (n : Bytes) :
    (if l.contains n then l else l ++ [n]).contains n = true := by
  split
  · assumption
  · simp

theorem rt_contains_filter {l : List Bytes} {n m : Bytes} (h : m ≠ n) :
    (l.filter (· ≠ n)).contains m = l.contains m := by
  rw [Bool.eq_iff_iff]
  simp only [List.contains_iff_mem, List.mem_filter, decide_eq_true_eq]
  constructor
  · exact fun h1 => h1.1
  · exact fun h1 => ⟨h1, h⟩

theorem rt_contains_filter_self (l : List Bytes) (n : Bytes) : (l.filter (· ≠ n)).contains n = false := by
  rw [Bool.eq_false_iff]
  intro h
  rw [List.contains_iff_mem, List.mem_filter] at h
  simpa using h.2

/-! ## the route part of a session, the invariant, the relation -/

structure RKey where
  route : PM
  hasRouteKeys : Bool
  routeKeys : List Bytes
  routeFilts : Option (List (Option Filt))
  keyParam : Bool
  filtParam : Bool

def rk (s : Sess) : RKey :=
  { route := s.route, hasRouteKeys := s.hasRouteKeys, routeKeys := s.routeKeys, routeFilts := s.routeFilts,
    keyParam := s.params.contains keyName, filtParam := s.params.contains filtName }

/-- cache coherence of one session -/
def RouteOK (k : RKey) : Prop :=
  k.route = buildRoute k.routeKeys k.routeFilts ∧
  (k.hasRouteKeys = false → k.routeKeys = []) ∧
  k.hasRouteKeys = k.keyParam ∧
  k.routeFilts.isSome = k.filtParam

def RC (sv : Server) : Prop := ∀ s ∈ sv.sessions, RouteOK (rk s)

def RK (sv sv' : Server) : Prop := sv'.sessions.map rk = sv.sessions.map rk

theorem RK.refl (sv : Server) : RK sv sv := rfl
theorem RK.trans {a b c : Server} (h1 : RK a b) (h2 : RK b c) : RK a c := Eq.trans h2 h1

theorem RK.rc {sv sv' : Server} (h : RK sv sv') (hc : RC sv) : RC sv' := by
  intro s' hs'
  have : rk s' ∈ sv'.sessions.map rk := List.mem_map_of_mem hs'
  rw [h] at this
  obtain ⟨s, hs, e⟩ := List.mem_map.mp this
  rw [← e]; exact hc s hs

theorem RK.foldl {α} (g : Server → α → Server) (hg : ∀ sv a, RK sv (g sv a)) (l : List α) (sv : Server) :
    RK sv (l.foldl g sv) := by
  induction l generalizing sv with
  | nil => exact RK.refl sv
  | cons a r ih => exact (hg sv a).trans (ih (g sv a))

theorem NotifyOnly.rk {sv sv' : Server} (h : NotifyOnly sv sv') : RK sv sv' := by
  have e : ∀ l : List Sess, l.map Muscle.Reflector.rk = (l.map Sess.core).map Muscle.Reflector.rk := by
    intro l; rw [List.map_map]; rfl
  unfold RK
  rw [e sv'.sessions, e sv.sessions, h.2]

theorem rt_setNode (sv : Server) (path : List Bytes) (f : Node → Node) : RK sv (setNode sv path f) := rfl

theorem rt_updSess (sv : Server) (sid : Nat) (f : Sess → Sess) (hf : ∀ t, rk (f t) = rk t) : RK sv (sv.updSess sid f) := by
  unfold RK
  simp only [Server.updSess, List.map_map]
  apply List.map_congr_left
  intro t _
  simp only [Function.comp]
  split
  · exact hf t
  · rfl

/-- peel known primitives off the outside of the target state of an `RK` goal -/
macro "rt_chain" : tactic => `(tactic| repeat (first
  | exact RK.refl _
  | refine RK.trans ?_ (NotifyOnly.rk (notifyChanged_notify ..))
  | refine RK.trans ?_ (NotifyOnly.rk (notifyIndex_notify ..))
  | refine RK.trans ?_ (NotifyOnly.rk (deliver_notify ..))
  | refine RK.trans ?_ (NotifyOnly.rk (nodeChangedAux_notify ..))
  | refine RK.trans ?_ (rt_updSess _ _ _ (by intro _; rfl))
  | refine RK.trans ?_ (rt_setNode ..)))

/-! ## tree primitives and handlers: the route part of EVERY session is kept -/

theorem rt_putChild (sv : Server) (by_ : Nat) (parent : List Bytes) (child : Node) (notify : Bool) :
    RK sv (putChild sv by_ parent child notify) := by
  unfold putChild
  simp only []
  split <;> rt_chain

theorem rt_removeIndexEntry (sv : Server) (parent : List Bytes) (key : Bytes) (notify : Bool) :
    RK sv (removeIndexEntry sv parent key notify) := by
  unfold removeIndexEntry
  repeat' (first | split | simp only [])
  all_goals rt_chain

theorem rt_removeOne (sv : Server) (by_ : Nat) (notify : Bool) (names : List Bytes) :
    RK sv (removeOne sv by_ notify names) := by
  unfold removeOne
  split
  · simp only []
    refine RK.trans ?_ (rt_setNode ..)
    repeat' (first | split | simp only [])
    all_goals first
      | exact rt_removeIndexEntry ..
      | exact (rt_removeIndexEntry ..).trans (NotifyOnly.rk (notifyChanged_notify ..))
  · exact RK.refl _

theorem rt_removeChild (sv : Server) (by_ : Nat) (notify : Bool) (names : List Bytes) :
    RK sv (removeChild sv by_ notify names) := by
  unfold removeChild
  split
  · exact RK.refl _
  · apply RK.foldl
    intro sv1 nm
    exact rt_removeOne ..

theorem rt_insertOrderedChild (sv : Server) (by_ : Nat) (parent : List Bytes) (d : Option Nat)
    (before name : Bytes) (nc : Bool) : RK sv (insertOrderedChild sv by_ parent d before name nc) := by
  unfold insertOrderedChild
  split
  · exact RK.refl _
  · simp only []
    repeat' split
    all_goals first
      | (refine RK.trans ?_ (NotifyOnly.rk (notifyIndex_notify ..))
         refine RK.trans ?_ (rt_setNode ..)
         refine RK.trans ?_ (rt_putChild ..)
         exact rt_setNode ..)
      | (refine RK.trans ?_ (rt_putChild ..)
         exact rt_setNode ..)
      | (refine RK.trans ?_ (rt_setNode ..)
         refine RK.trans ?_ (rt_putChild ..)
         exact rt_setNode ..)

theorem rt_reorderChild (sv : Server) (parent : List Bytes) (child before : Bytes) :
    RK sv (reorderChild sv parent child before) := by
  unfold reorderChild
  repeat' (first | split | simp only [])
  all_goals first
    | exact RK.refl _
    | exact rt_removeIndexEntry ..
    | (refine RK.trans ?_ (NotifyOnly.rk (notifyIndex_notify ..))
       refine RK.trans ?_ (rt_setNode ..)
       exact rt_removeIndexEntry ..)
    | (refine RK.trans ?_ (rt_setNode ..)
       exact rt_removeIndexEntry ..)

theorem rt_setDataClauses (by_ : Nat) (d : Option Nat) (ati : Bool) :
    ∀ (cls : List Bytes) (sv : Server) (cur : List Bytes), RK sv (setDataClauses by_ d ati sv cur cls) := by
  intro cls
  induction cls with
  | nil => intro sv cur; simp only [setDataClauses]; exact RK.refl _
  | cons cl rest ih =>
    intro sv cur
    simp only [setDataClauses]
    split
    · exact RK.refl _
    · split
      · refine RK.trans ?_ (ih _ _)
        repeat' (first | split | simp only [])
        all_goals repeat (first
          | exact RK.refl _
          | refine RK.trans ?_ (NotifyOnly.rk (notifyChanged_notify ..))
          | refine RK.trans ?_ (rt_updSess _ _ _ (by intro _; rfl))
          | refine RK.trans ?_ (rt_setNode ..)
          | refine RK.trans ?_ (rt_putChild ..)
          | refine RK.trans ?_ (rt_insertOrderedChild ..))
      · refine RK.trans ?_ (ih _ _)
        repeat' (first | split | simp only [])
        all_goals repeat (first
          | exact RK.refl _
          | refine RK.trans ?_ (NotifyOnly.rk (notifyChanged_notify ..))
          | refine RK.trans ?_ (rt_updSess _ _ _ (by intro _; rfl))
          | refine RK.trans ?_ (rt_setNode ..)
          | refine RK.trans ?_ (rt_putChild ..)
          | refine RK.trans ?_ (rt_insertOrderedChild ..))

theorem rt_setDataNode (sv : Server) (sid : Nat) (path : Bytes) (d : Option Nat) (ati : Bool) :
    RK sv (setDataNode sv sid path d ati) := by
  unfold setDataNode
  repeat' (first | split | simp only [])
  all_goals first
    | exact RK.refl _
    | exact rt_setDataClauses ..

theorem rt_subscribeRefs (sv : Server) (sid : Nat) (pm : PM) (delta : Option Int) :
    RK sv (subscribeRefs sv sid pm delta) := by
  unfold subscribeRefs
  apply RK.foldl
  intro sv1 v
  exact rt_setNode ..

theorem rt_subscribe (sv : Server) (sid : Nat) (path : Bytes) (f : Option Filt) : RK sv (subscribe sv sid path f) := by
  unfold subscribe
  split
  · exact RK.refl _
  · rename_i s hs
    simp only []
    refine RK.trans ?_ (NotifyOnly.rk (doGetData_notify ..))
    refine RK.trans ?_ (rt_updSess _ sid _ ?_)
    · split
      · refine RK.trans ?_ (rt_updSess _ sid _ (by intro _; rfl))
        split
        · apply NotifyOnly.rk
          apply NotifyOnly.foldl
          intro sv1 v
          try simp only []
          repeat' (first | split | simp only [])
          all_goals first
            | exact NotifyOnly.refl _
            | exact nodeChangedAux_notify ..
        · exact RK.refl _
      · split
        · exact RK.refl _
        · refine RK.trans ?_ (rt_subscribeRefs ..)
          exact rt_updSess _ sid _ (by intro _; rfl)
    · intro t
      simp only [rk, subParams, rt_contains_add (rt_key_ne_sub path), rt_contains_add (rt_filt_ne_sub path)]
      rw [rt_contains_filter_keep (m := keyName) (by simp [rt_key_noprefix]),
          rt_contains_filter_keep (m := filtName) (by simp [rt_filt_noprefix])]

theorem rt_unsubscribe (sv : Server) (sid : Nat) (path : Bytes) : RK sv (unsubscribe sv sid path) := by
  unfold unsubscribe
  split
  · exact RK.refl _
  · rename_i s hs
    simp only []
    split
    · exact RK.refl _
    · refine RK.trans ?_ (rt_updSess _ sid _ ?_)
      · split
        · refine RK.trans ?_ (rt_subscribeRefs ..)
          exact rt_updSess _ sid _ (by intro _; rfl)
        · exact RK.refl _
      · intro t
        simp only [rk, rt_contains_filter (rt_key_ne_sub path), rt_contains_filter (rt_filt_ne_sub path)]

theorem rt_removeData (sv : Server) (sid : Nat) (keys : List Bytes) : RK sv (removeData sv sid keys) := by
  unfold removeData
  split
  · exact RK.refl _
  · simp only []
    apply RK.foldl
    intro sv1 v
    exact rt_removeChild ..

theorem rt_insertOrdered (sv : Server) (sid : Nat) (key before : Bytes) (vals : List Nat) :
    RK sv (insertOrdered sv sid key before vals) := by
  unfold insertOrdered
  split
  · exact RK.refl _
  · simp only []
    apply RK.foldl
    intro sv1 v
    apply RK.foldl
    intro sv2 x
    try simp only []
    refine RK.trans ?_ (rt_updSess _ sid _ (by intro _; rfl))
    exact rt_insertOrderedChild ..

theorem rt_reorderCore (sv : Server) (sid : Nat) (key before : Bytes) : RK sv (reorderCore sv sid key before) := by
  unfold reorderCore
  split
  · exact RK.refl _
  · simp only []
    apply RK.foldl
    intro sv1 v
    try simp only []
    repeat' split
    all_goals first
      | exact RK.refl _
      | exact rt_reorderChild ..

theorem rt_reorder (sv : Server) (sid : Nat) (key before : Bytes) : RK sv (Muscle.Reflector.reorder sv sid key before) := by
  unfold Muscle.Reflector.reorder
  simp only []
  repeat' split
  all_goals first
    | exact rt_reorderCore ..
    | exact (rt_reorderCore ..).trans (rt_updSess _ sid _ (by intro _; rfl))

/-! ## `runCmd` -/

theorem rt_addParam_key (s : Sess) (n : Bytes) (h : keyName ≠ n) :
    (addParam s n).params.contains keyName = s.params.contains keyName := by
  simp only [addParam, rt_contains_add h]

theorem rt_addParam_filt (s : Sess) (n : Bytes) (h : filtName ≠ n) :
    (addParam s n).params.contains filtName = s.params.contains filtName := by
  simp only [addParam, rt_contains_add h]

/-- the data commands keep the route part of every session -/
theorem rt_runCmd_data (sv : Server) (sid : Nat) (c : Cmd)
    (hc : match c with
      | .paramRoute _ | .paramRouteF _ _ | .unparamRoute | .unparamRouteF => False
      | _ => True) : RK sv (runCmd sv sid c) := by
  cases c with
  | set path v ati => exact rt_setDataNode ..
  | rm keys => exact rt_removeData ..
  | sub path f => exact rt_subscribe ..
  | unsub path => exact rt_unsubscribe ..
  | paramSelf =>
    apply rt_updSess
    intro t
    simp only [rk, addParam, rt_contains_add rt_key_ne_self, rt_contains_add rt_filt_ne_self]
  | paramMax n =>
    apply rt_updSess
    intro t
    simp only [rk, addParam, rt_contains_add rt_key_ne_max, rt_contains_add rt_filt_ne_max]
  | paramRoute keys => exact absurd hc (by simp)
  | paramRouteF keys fs => exact absurd hc (by simp)
  | unparamMax =>
    apply rt_updSess
    intro t
    split
    · simp only [rk, rt_contains_filter rt_key_ne_max, rt_contains_filter rt_filt_ne_max]
    · rfl
  | unparamRoute => exact absurd hc (by simp)
  | unparamRouteF => exact absurd hc (by simp)
  | getparams =>
    simp only [runCmd]
    split
    · exact RK.refl _
    · exact NotifyOnly.rk (deliver_notify ..)
  | ins key before vals => exact rt_insertOrdered ..
  | reorder key before => exact rt_reorder ..
  | send tag keys => exact NotifyOnly.rk (sendMsg_notify ..)
  | ping tag => exact NotifyOnly.rk (deliver_notify ..)

theorem rt_updSess_rc (sv : Server) (sid : Nat) (f : Sess → Sess) (hf : ∀ t, RouteOK (rk t) → RouteOK (rk (f t)))
    (hc : RC sv) : RC (sv.updSess sid f) := by
  intro s' hs'
  simp only [Server.updSess, List.mem_map] at hs'
  obtain ⟨t, ht, rfl⟩ := hs'
  split
  · exact hf t (hc t ht)
  · exact hc t ht

theorem rt_buildRoute_nil (fs : Option (List (Option Filt))) : buildRoute [] fs = [] := by
  simp [buildRoute, buildRouteAux]

/-- every command keeps the invariant -/
theorem rt_runCmd_rc (sv : Server) (sid : Nat) (c : Cmd) (hc : RC sv) : RC (runCmd sv sid c) := by
  cases c with
  | paramRoute keys =>
    apply rt_updSess_rc _ _ _ _ hc
    intro t ⟨h1, h2, h3, h4⟩
    refine ⟨rfl, ?_, ?_, ?_⟩
    · intro h; simp [rk, addParam] at h
    · simp only [rk, addParam, rt_contains_add_self]
    · simp only [rk] at h4 ⊢
      rw [rt_addParam_filt _ _ (fun e => rt_key_ne_filt e.symm)]
      exact h4
  | paramRouteF keys fs =>
    apply rt_updSess_rc _ _ _ _ hc
    intro t ⟨h1, h2, h3, h4⟩
    refine ⟨rfl, ?_, ?_, ?_⟩
    · intro h; simp [rk, addParam] at h
    · simp only [rk]
      rw [rt_addParam_key _ _ rt_key_ne_filt]
      simp only [addParam, rt_contains_add_self]
    · simp only [rk, addParam, rt_contains_add_self, Option.isSome_some]
  | unparamRoute =>
    apply rt_updSess_rc _ _ _ _ hc
    intro t ⟨h1, h2, h3, h4⟩
    split
    · refine ⟨?_, ?_, ?_, ?_⟩
      · simp only [rk, rt_buildRoute_nil]
      · intro _; rfl
      · simp only [rk, rt_contains_filter_self]
      · simp only [rk] at h4 ⊢
        rw [rt_contains_filter (fun e => rt_key_ne_filt e.symm)]
        exact h4
    · exact ⟨h1, h2, h3, h4⟩
  | unparamRouteF =>
    apply rt_updSess_rc _ _ _ _ hc
    intro t ⟨h1, h2, h3, h4⟩
    split
    · refine ⟨rfl, ?_, ?_, ?_⟩
      · exact h2
      · simp only [rk] at h3 ⊢
        rw [rt_contains_filter rt_key_ne_filt]
        exact h3
      · simp only [rk, rt_contains_filter_self, Option.isSome_none]
    · exact ⟨h1, h2, h3, h4⟩
  | set path v ati => exact (rt_runCmd_data sv sid _ trivial).rc hc
  | rm keys => exact (rt_runCmd_data sv sid _ trivial).rc hc
  | sub path f => exact (rt_runCmd_data sv sid _ trivial).rc hc
  | unsub path => exact (rt_runCmd_data sv sid _ trivial).rc hc
  | paramSelf => exact (rt_runCmd_data sv sid _ trivial).rc hc
  | paramMax n => exact (rt_runCmd_data sv sid _ trivial).rc hc
  | unparamMax => exact (rt_runCmd_data sv sid _ trivial).rc hc
  | getparams => exact (rt_runCmd_data sv sid _ trivial).rc hc
  | ins key before vals => exact (rt_runCmd_data sv sid _ trivial).rc hc
  | reorder key before => exact (rt_runCmd_data sv sid _ trivial).rc hc
  | send tag keys => exact (rt_runCmd_data sv sid _ trivial).rc hc
  | ping tag => exact (rt_runCmd_data sv sid _ trivial).rc hc

/-! ## attach, detach, pump; reachable states -/

theorem rt_attach_rc (sv : Server) (slot : Nat) (host : Bytes) (hc : RC sv) : RC (attach sv slot host).1 := by
  unfold attach
  simp only []
  apply (NotifyOnly.rk (pushAll_notify _)).rc
  apply (rt_putChild ..).rc
  have h0 : ∀ x : Server,
      x.sessions = sv.sessions ++ [({ slot := slot, sid := sv.nextSid, host := host, maxItems := sv.maxItemsDefault } : Sess)] →
      RC x := by
    intro x hx s hs
    rw [hx] at hs
    simp only [List.mem_append, List.mem_singleton] at hs
    rcases hs with hs | hs
    · exact hc s hs
    · subst hs
      refine ⟨?_, fun _ => rfl, rfl, rfl⟩
      simp only [rk, rt_buildRoute_nil]
  split
  · exact h0 _ rfl
  · exact (rt_putChild ..).rc (h0 _ rfl)

theorem rt_detachPre (sv : Server) (sid : Nat) (s : Sess) : RK sv (detachPre sv sid s) := by
  unfold detachPre
  simp only []
  refine RK.trans ?_ (NotifyOnly.rk (pushAll_notify _))
  repeat' split
  all_goals first
    | exact rt_removeChild ..
    | exact (rt_removeChild sv sid true (sessNames s)).trans (rt_removeChild ..)

theorem rt_detach_rc (sv : Server) (sid : Nat) (hc : RC sv) : RC (detach sv sid) := by
  cases hs : sv.sess? sid with
  | none => unfold detach; rw [hs]; exact hc
  | some s =>
    have e0 : detach sv sid =
        (let pre := detachPre sv sid s
         let sv4 := if pre.root.kids.isEmpty then { pre with live := false }
                    else (travGlobal pre s.subs false cbContinue).foldl (unmark sid) pre
         { sv4 with sessions := sv4.sessions.filter (fun t => t.sid ≠ sid) }) := by
      unfold detach; rw [hs]; rfl
    have hpre : RC (detachPre sv sid s) := (rt_detachPre sv sid s).rc hc
    have hfold : RC ((travGlobal (detachPre sv sid s) s.subs false cbContinue).foldl (unmark sid) (detachPre sv sid s)) := by
      refine RK.rc ?_ hpre
      apply RK.foldl
      intro sv1 v
      exact rt_setNode ..
    rw [e0]
    intro t ht
    simp only [List.mem_filter] at ht
    by_cases hk : (detachPre sv sid s).root.kids.isEmpty
    · simp only [hk, if_true] at ht
      exact hpre t ht.1
    · simp only [hk, Bool.false_eq_true, if_false] at ht
      exact hfold t ht.1

theorem rt_pump_rc (sv : Server) (hc : RC sv) :
    RC { sv with sessions := sv.sessions.map (fun s => { s with inbox := [] }) } := by
  intro s' hs'
  simp only [List.mem_map] at hs'
  obtain ⟨t, ht, rfl⟩ := hs'
  exact hc t ht

/-- the states reachable from the empty server by attach, detach, ANY command, `pushAll` and pump -/
inductive RReach : Server → Prop
  | init : RReach {}
  | attach {sv : Server} (slot : Nat) (host : Bytes) : RReach sv → RReach (attach sv slot host).1
  | detach {sv : Server} (sid : Nat) : RReach sv → RReach (detach sv sid)
  | cmd {sv : Server} (sid : Nat) (c : Cmd) : RReach sv → RReach (runCmd sv sid c)
  | push {sv : Server} : RReach sv → RReach (pushAll sv)
  | pump {sv : Server} : RReach sv → RReach { sv with sessions := sv.sessions.map (fun s => { s with inbox := [] }) }

theorem rt_reach_rc {sv : Server} (h : RReach sv) : RC sv := by
  induction h with
  | init => intro s hs; simp at hs
  | attach slot host _ ih => exact rt_attach_rc _ slot host ih
  | detach sid _ ih => exact rt_detach_rc _ sid ih
  | cmd sid c _ ih => exact rt_runCmd_rc _ sid c ih
  | push _ ih => exact (NotifyOnly.rk (pushAll_notify _)).rc ih
  | pump _ ih => exact rt_pump_rc _ ih

theorem rt_sess?_mem {sv : Server} {sid : Nat} {s : Sess} (h : sv.sess? sid = some s) : s ∈ sv.sessions :=
  List.mem_of_find?_eq_some h

/-! ## `buildRouteAux` without recursion -/

/-- the filter the `i`-th key gets: item `i` of the filter field, or (bleed-down) its last item; `cur` when the field is empty -/
def assignedFilt (fs : List (Option Filt)) (cur : Option Filt) (i : Nat) : Option Filt :=
  fs.getD i (fs.getLast?.getD cur)

/-- the (key, filter) pairs `PutPathsFromMessage` puts, in order -/
def routePairs (keys : List Bytes) (fs : List (Option Filt)) (cur : Option Filt) : List (Bytes × Option Filt) :=
  keys.zip ((List.range keys.length).map (assignedFilt fs cur))

theorem rt_assigned_nil (cur : Option Filt) : assignedFilt [] cur = fun _ => cur := by
  funext i; simp [assignedFilt]

theorem rt_assigned_cons (f : Option Filt) (fs : List (Option Filt)) (cur : Option Filt) :
    (assignedFilt (f :: fs) cur ∘ Nat.succ) = assignedFilt fs f ∧ assignedFilt (f :: fs) cur 0 = f := by
  constructor
  · funext i
    simp only [Function.comp, assignedFilt, List.getD_cons_succ]
    cases fs with
    | nil => simp
    | cons g r =>
      simp only [List.getLast?_cons_cons]
      cases h : (g :: r).getLast? with
      | none => simp at h
      | some x => simp
  · simp [assignedFilt]

theorem rt_routePairs_cons (k : Bytes) (ks : List Bytes) (fs : List (Option Filt)) (cur : Option Filt) :
    routePairs (k :: ks) fs cur =
      (k, assignedFilt fs cur 0) :: ks.zip ((List.range ks.length).map (assignedFilt fs cur ∘ Nat.succ)) := by
  simp only [routePairs, List.length_cons, List.range_succ_eq_map, List.map_cons, List.zip_cons_cons, List.map_map]

theorem rt_buildRouteAux_pairs (keys : List Bytes) :
    ∀ (fs : List (Option Filt)) (cur : Option Filt) (pm : PM),
      buildRouteAux keys fs cur pm =
        (routePairs keys fs cur).foldl (fun pm (k, f) => pmPutFrom pm k f (some defaultPrefix)) pm := by
  induction keys with
  | nil => intro fs cur pm; simp [buildRouteAux, routePairs]
  | cons k ks ih =>
    intro fs cur pm
    rw [rt_routePairs_cons, List.foldl_cons]
    cases fs with
    | nil =>
      simp only [buildRouteAux]
      rw [ih [] cur]
      simp only [routePairs, rt_assigned_nil]
      rfl
    | cons f fs' =>
      simp only [buildRouteAux]
      rw [ih fs' f, (rt_assigned_cons f fs' cur).1, (rt_assigned_cons f fs' cur).2]
      rfl

theorem rt_buildRoute_pairs (keys : List Bytes) (fs : Option (List (Option Filt))) :
    buildRoute keys fs = pmOfKeys (routePairs keys (fs.getD []) none) (some defaultPrefix) := by
  unfold buildRoute pmOfKeys
  exact rt_buildRouteAux_pairs keys _ _ _

theorem rt_routePairs_length (keys : List Bytes) (fs : List (Option Filt)) (cur : Option Filt) :
    (routePairs keys fs cur).length = keys.length := by
  simp [routePairs]

theorem rt_routePairs_get (keys : List Bytes) (fs : List (Option Filt)) (cur : Option Filt) (i : Nat) (hi : i < keys.length) :
    (routePairs keys fs cur)[i]? =
      some (keys[i], if h : i < fs.length then fs[i] else fs.getLast?.getD cur) := by
  simp only [routePairs, List.getElem?_zip_eq_some.symm]
  rw [List.getElem?_eq_getElem (by simp [hi])]
  simp only [List.getElem_zip, List.getElem_map, List.getElem_range, assignedFilt, Option.some.injEq, Prod.mk.injEq, true_and]
  split
  · rename_i h; simp [List.getD_eq_getElem?_getD, h]
  · rename_i h; simp [List.getD_eq_getElem?_getD, h]

/-! ## no filter parameter: no filter in the route -/

def pmNoFilters (pm : PM) : Prop := ∀ g ∈ pm, ∀ e ∈ g.2, e.filter = none

theorem rt_putEntry_nofilt (e : Entry) (he : e.filter = none) (es : List Entry) (h : ∀ x ∈ es, x.filter = none) :
    ∀ x ∈ putEntry e es, x.filter = none := by
  induction es with
  | nil => intro x hx; simp [putEntry] at hx; subst hx; exact he
  | cons a r ih =>
    intro x hx
    simp only [putEntry] at hx
    split at hx
    · rcases List.mem_cons.mp hx with hx | hx
      · subst hx; exact he
      · exact h x (List.mem_cons_of_mem _ hx)
    · rcases List.mem_cons.mp hx with hx | hx
      · subst hx; exact h _ (List.mem_cons_self ..)
      · exact ih (fun y hy => h y (List.mem_cons_of_mem _ hy)) x hx

theorem rt_pmPutGroup_nofilt (d : Nat) (e : Entry) (he : e.filter = none) (pm : PM) (h : pmNoFilters pm) :
    pmNoFilters (pmPutGroup d e pm) := by
  induction pm with
  | nil =>
    intro g hg x hx
    simp [pmPutGroup] at hg; subst hg
    simp at hx; subst hx; exact he
  | cons a r ih =>
    obtain ⟨k, es⟩ := a
    intro g hg
    simp only [pmPutGroup] at hg
    split at hg
    · rcases List.mem_cons.mp hg with hg | hg
      · subst hg
        exact rt_putEntry_nofilt e he es (h (k, es) (List.mem_cons_self ..))
      · exact h g (List.mem_cons_of_mem _ hg)
    · rcases List.mem_cons.mp hg with hg | hg
      · subst hg; exact h (k, es) (List.mem_cons_self ..)
      · exact ih (fun g' hg' => h g' (List.mem_cons_of_mem _ hg')) g hg

theorem rt_pmPutFrom_nofilt (pm : PM) (k : Bytes) (pre : Option Bytes) (h : pmNoFilters pm) :
    pmNoFilters (pmPutFrom pm k none pre) := by
  unfold pmPutFrom pmPut
  split
  · exact h
  · exact rt_pmPutGroup_nofilt _ _ rfl pm h

theorem rt_buildRouteAux_nofilt (keys : List Bytes) : ∀ (pm : PM), pmNoFilters pm →
    pmNoFilters (buildRouteAux keys [] none pm) := by
  induction keys with
  | nil => intro pm h; simpa [buildRouteAux] using h
  | cons k ks ih =>
    intro pm h
    simp only [buildRouteAux]
    exact ih _ (rt_pmPutFrom_nofilt pm k _ h)

theorem rt_numFilters_zero (pm : PM) (h : pmNoFilters pm) : pmNumFilters pm = 0 := by
  unfold pmNumFilters
  induction pm with
  | nil => rfl
  | cons a r ih =>
    obtain ⟨k, es⟩ := a
    simp only [List.map_cons, List.sum_cons]
    rw [ih (fun g hg => h g (List.mem_cons_of_mem _ hg))]
    have : es.filter (fun e => e.filter.isSome) = [] := by
      rw [List.filter_eq_nil_iff]
      intro e he
      rw [h (k, es) (List.mem_cons_self ..) e he]; simp
    simp [this]

theorem rt_buildRoute_none (keys : List Bytes) :
    pmNoFilters (buildRoute keys none) ∧ pmNumFilters (buildRoute keys none) = 0 := by
  have : pmNoFilters (buildRoute keys none) := by
    unfold buildRoute
    exact rt_buildRouteAux_nofilt keys [] (by intro g hg; simp at hg)
  exact ⟨this, rt_numFilters_zero _ this⟩

end Muscle.Reflector
