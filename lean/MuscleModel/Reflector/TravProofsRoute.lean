import MuscleModel.Reflector.TravProofsMain

/-!
# Lemmas for property C05, part 4: the skip-to-next-session callback of `PassMessageCallbackAux`

With the callback `fun _ _ _ => (true, 1)` (deliver, then return `NODE_DEPTH_HOSTNAME`) and `rootDepth = 0`:
below a session node (depth ≥ 2) a traversal records at most one visit and then unwinds to the host level; for a
session node itself (child of a host node) the loop of `CheckChildForTraversal` records at most one visit — the
session node or one node below it — by the rule repaired for finding F27 (a returned depth above the child's level
sets the other flag too); at the root level nothing is terminal once every pattern has ≥ 2 clauses.
-/

namespace Muscle.Reflector
open Muscle

/-- the callback `route` uses: record, then skip to the next session -/
def cbSkip : Visit → Nat → Node → Bool × Int := fun _ _ _ => (true, 1)

/-! ## children at depth ≥ 2 (`depth` ≥ 1): at most one visit; below a session node, then unwind -/

/-- outcome of a (sub)traversal started at depth ≥ 2 -/
def Deep (names : Visit) (depth : Nat) (r : List Visit × Int) : Prop :=
  r = ([], (depth : Int)) ∨ ∃ v, r = ([v], 1) ∧ names <+: v ∧ names.length < v.length

/-- what the loop leaves in `abort` after its single record: unwind to depth 1 from below a session node
    (depth ≥ 2); at the host level (depth 1) the traversal goes on with the next session (no abort, loop done) -/
def skipAbort (depth : Nat) : Option Int := if 2 ≤ depth then some 1 else none

/-- loop state of `checkEntries` for a child at depth ≥ 2 (`depth` ≥ 1): nothing recorded yet, or exactly one
    visit recorded and the loop is over -/
def DeepSt (depth : Nat) (cn : Visit) (st : CState) : Prop :=
  (st.visits = [] ∧ st.abort = none) ∨
  ∃ v, st.visits = [v] ∧ cn <+: v ∧ st.abort = skipAbort depth ∧ (st.done || st.abort.isSome) = true

theorem stepG_deep (ctx : TCtx) (rec : Rec) (child : Node) (cn : Visit) (depth : Nat) (hit : Bool) (e : Entry)
    (hcb : ctx.cb = cbSkip) (hd : 1 ≤ depth) (hrec : Deep cn (depth+1) (rec child cn (depth+1)))
    (st : CState) (h : st.visits = [] ∧ st.abort = none) : DeepSt depth cn (stepG ctx rec child cn depth hit e st) := by
  obtain ⟨hv, ha⟩ := h
  have h2 : ¬ (((depth + 1 : Nat) : Int) < (depth : Int) + 1 - 1) := by omega
  by_cases hd2 : 2 ≤ depth
  · -- below a session node: the callback's answer 1 unwinds
    have h1 : ((1 : Int) < (depth : Int) + 1 - 1) := by omega
    have hsa : skipAbort depth = some 1 := by simp [skipAbort, hd2]
    unfold stepG
    simp only [hcb, cbSkip, h1, if_true]
    split
    · exact Or.inl ⟨hv, ha⟩
    · split
      · split
        · exact Or.inl ⟨hv, ha⟩
        · split
          · exact Or.inr ⟨cn, by simp [hv], List.prefix_refl _, hsa.symm, by simp⟩
          · exact Or.inl ⟨hv, ha⟩
      · split
        · exact Or.inl ⟨hv, ha⟩
        · rcases hrec with hr | ⟨v, hr, hp, _⟩
          · rw [hr]; simp only [h2, if_false]
            exact Or.inl ⟨by simp [hv], ha⟩
          · rw [hr]; simp only [h1, if_true]
            exact Or.inr ⟨v, by simp [hv], hp, hsa.symm, by simp⟩
  · -- the child is a session node: no unwinding, but the repaired rule ends the loop after the single record
    obtain rfl : depth = 1 := by omega
    have hsa : skipAbort 1 = none := by simp [skipAbort]
    unfold stepG
    simp only [hcb, cbSkip]
    split
    · exact Or.inl ⟨hv, ha⟩
    · split
      · split
        · exact Or.inl ⟨hv, ha⟩
        · split
          · exact Or.inr ⟨cn, by simp [hv], List.prefix_refl _, by simp [hsa, ha], by simp⟩
          · exact Or.inl ⟨hv, ha⟩
      · split
        · exact Or.inl ⟨hv, ha⟩
        · rcases hrec with hr | ⟨v, hr, hp, _⟩
          · rw [hr]; simp
            exact Or.inl ⟨hv, ha⟩
          · rw [hr]; simp
            exact Or.inr ⟨v, by simp [hv], hp, by simp [hsa, ha], by simp⟩

theorem checkEntries_deep (ctx : TCtx) (rec : Rec) (child : Node) (cn : Visit) (depth : Nat) (known : Option Nat)
    (hcb : ctx.cb = cbSkip) (hd : 1 ≤ depth) (hrec : Deep cn (depth+1) (rec child cn (depth+1))) :
    ∀ (es : List Entry) (idx : Nat) (st : CState), DeepSt depth cn st →
      DeepSt depth cn (checkEntries ctx rec child cn depth known es idx st) := by
  intro es
  induction es with
  | nil => intro idx st h; exact h
  | cons e es ih =>
    intro idx st h
    rw [checkEntries_cons]
    split
    · exact h
    · rename_i hs
      apply ih
      rcases h with h | ⟨v, _, _, _, hstop⟩
      · exact stepG_deep ctx rec child cn depth _ e hcb hd hrec st h
      · exact absurd hstop hs

/-- one child at depth ≥ 2 (`depth` ≥ 1): nothing and no abort, or exactly one visit -/
theorem checkChild_deep1 (ctx : TCtx) (rec : Rec) (k : Node) (names : Visit) (depth : Nat) (known : Option Nat)
    (hcb : ctx.cb = cbSkip) (hd : 1 ≤ depth) (hrec : ∀ k n, Deep n (depth+1) (rec k n (depth+1))) :
    checkChild ctx rec k names depth known = ([], none) ∨
    ∃ v, checkChild ctx rec k names depth known = ([v], skipAbort depth) ∧ (names ++ [k.name]) <+: v := by
  have := checkEntries_deep ctx rec k (names ++ [k.name]) depth known hcb hd (hrec _ _)
    (activeEntries ctx.pm (depth - ctx.rootDepth)) 0 {} (Or.inl ⟨rfl, rfl⟩)
  unfold checkChild
  rcases this with ⟨h1, h2⟩ | ⟨v, h1, h2, h3, _⟩
  · left; simp [h1, h2]
  · right; exact ⟨v, by simp [h1, h3], h2⟩

/-- one child at depth ≥ 3: nothing and no abort, or exactly one visit and unwind to depth 1 -/
theorem checkChild_deep (ctx : TCtx) (rec : Rec) (k : Node) (names : Visit) (depth : Nat) (known : Option Nat)
    (hcb : ctx.cb = cbSkip) (hd : 2 ≤ depth) (hrec : ∀ k n, Deep n (depth+1) (rec k n (depth+1))) :
    checkChild ctx rec k names depth known = ([], none) ∨
    ∃ v, checkChild ctx rec k names depth known = ([v], some 1) ∧ (names ++ [k.name]) <+: v := by
  have := checkChild_deep1 ctx rec k names depth known hcb (by omega) hrec
  simpa [skipAbort, hd] using this

theorem snoc_prefix_lt {names v : Visit} {x : Bytes} (h : (names ++ [x]) <+: v) : names <+: v ∧ names.length < v.length := by
  refine ⟨(List.prefix_append _ _).trans h, ?_⟩
  have := h.length_le; simp at this; omega

theorem travKids_deep (ctx : TCtx) (rec : Rec) (names : Visit) (depth : Nat)
    (hcb : ctx.cb = cbSkip) (hd : 2 ≤ depth) (hrec : ∀ k n, Deep n (depth+1) (rec k n (depth+1))) :
    ∀ kids : List Node, Deep names depth (travKids ctx rec names depth kids []) := by
  intro kids
  induction kids with
  | nil => left; rfl
  | cons k r ih =>
    rw [travKids]
    rcases checkChild_deep ctx rec k names depth none hcb hd hrec with h | ⟨v, h, hp⟩
    · rw [h]; simpa using ih
    · rw [h]; right
      exact ⟨v, by simp, (snoc_prefix_lt hp).1, (snoc_prefix_lt hp).2⟩

theorem lookupElems_deep (ctx : TCtx) (rec : Rec) (node : Node) (names : Visit) (depth idx : Nat)
    (hcb : ctx.cb = cbSkip) (hd : 2 ≤ depth) (hrec : ∀ k n, Deep n (depth+1) (rec k n (depth+1))) :
    ∀ (els did : List Bytes),
      (∃ did', lookupElems ctx rec node names depth idx els did [] = ([], did', none)) ∨
      (∃ v did', lookupElems ctx rec node names depth idx els did [] = ([v], did', some 1) ∧
         names <+: v ∧ names.length < v.length) := by
  intro els
  induction els with
  | nil => intro did; left; exact ⟨did, rfl⟩
  | cons el els ih =>
    intro did
    rw [lookupElems]
    split
    · exact ih did
    · rename_i k _
      split
      · exact ih did
      · rcases checkChild_deep ctx rec k names depth (some idx) hcb hd hrec with h | ⟨v, h, hp⟩
        · rw [h]; simpa using ih _
        · rw [h]; right
          exact ⟨v, did, by simp, (snoc_prefix_lt hp).1, (snoc_prefix_lt hp).2⟩

theorem travLookups_deep (ctx : TCtx) (rec : Rec) (node : Node) (names : Visit) (depth : Nat)
    (hcb : ctx.cb = cbSkip) (hd : 2 ≤ depth) (hrec : ∀ k n, Deep n (depth+1) (rec k n (depth+1))) :
    ∀ (es : List Entry) (idx : Nat) (did : List Bytes),
      Deep names depth (travLookups ctx rec node names depth es idx did []) := by
  intro es
  induction es with
  | nil => intro idx did; left; rfl
  | cons e es ih =>
    intro idx did
    rw [travLookups]
    rcases lookupElems_deep ctx rec node names depth idx hcb hd hrec
      (if isUVList ((e.clauses[depth - ctx.rootDepth]?).getD []) = true then
          (splitCommas ((e.clauses[depth - ctx.rootDepth]?).getD [])).filter (fun x => !x.isEmpty)
        else [(e.clauses[depth - ctx.rootDepth]?).getD []]) did with ⟨did', h⟩ | ⟨v, did', h, hp⟩
    · rw [h]; exact ih _ _
    · rw [h]; right; exact ⟨v, rfl, hp⟩

/-- below a session node the skip callback lets at most one visit through -/
theorem travAux_deep (ctx : TCtx) (hcb : ctx.cb = cbSkip) :
    ∀ (fuel : Nat) (node : Node) (names : Visit) (depth : Nat), 2 ≤ depth →
      Deep names depth (travAux ctx fuel node names depth) := by
  intro fuel
  induction fuel with
  | zero => intro node names depth _; left; rfl
  | succ fuel ih =>
    intro node names depth hd
    rw [travAux]
    unfold travLevel
    simp only
    have hrec : ∀ k n, Deep n (depth+1) (travAux ctx fuel k n (depth+1)) := fun k n => ih k n (depth+1) (by omega)
    split
    · exact travKids_deep ctx _ names depth hcb hd hrec _
    · exact travLookups_deep ctx _ node names depth hcb hd hrec _ _ _


/-! ## levels where no active entry is terminal and the recursive call returns at least the child's depth
    (the root level when every pattern has ≥ 2 clauses) -/

/-- loop state of `checkEntries` at such a level; `R` = what the recursive call records -/
def NoTermSt (R : List Visit) (st : CState) : Prop :=
  st.abort = none ∧ st.matched = false ∧ st.done = false ∧
    ((st.recursed = false ∧ st.visits = []) ∨ (st.recursed = true ∧ st.visits = R))

theorem stepG_noterm (ctx : TCtx) (rec : Rec) (child : Node) (cn : Visit) (depth : Nat) (hit : Bool) (e : Entry)
    (ht : ¬ (depth + 1 = ctx.rootDepth + e.clauses.length))
    (hnr : ¬ ((rec child cn (depth+1)).2 < (depth : Int) + 1))
    (st : CState) (h : NoTermSt (rec child cn (depth+1)).1 st) :
    NoTermSt (rec child cn (depth+1)).1 (stepG ctx rec child cn depth hit e st) ∧
    (stepG ctx rec child cn depth hit e st).recursed = (st.recursed || hit) := by
  obtain ⟨ha, hm, hdn, hr⟩ := h
  have hnr0 : ¬ ((rec child cn (depth+1)).2 < (depth : Int) + 1 - 1) := by omega
  have hdec : decide ((rec child cn (depth+1)).2 < (depth : Int) + 1) = false := by simpa using hnr
  unfold stepG
  simp only [ht, if_false, hnr0, hdec, Bool.or_false]
  split
  · rename_i hh
    have : hit = false := by simpa using hh
    exact ⟨⟨ha, hm, hdn, hr⟩, by simp [this]⟩
  · rename_i hh
    have : hit = true := by simpa using hh
    split
    · rename_i hrt
      exact ⟨⟨ha, hm, hdn, hr⟩, by simp [hrt]⟩
    · rename_i hrf
      rcases hr with ⟨_, hv⟩ | ⟨hr, _⟩
      · exact ⟨⟨ha, hm, hm, Or.inr ⟨rfl, by simp [hv]⟩⟩, by simp [this]⟩
      · exact absurd hr hrf

theorem checkEntries_noterm (ctx : TCtx) (rec : Rec) (child : Node) (cn : Visit) (depth : Nat) (known : Option Nat)
    (hnr : ¬ ((rec child cn (depth+1)).2 < (depth : Int) + 1)) :
    ∀ (es : List Entry), (∀ e ∈ es, ¬ (depth + 1 = ctx.rootDepth + e.clauses.length)) →
      ∀ (idx : Nat) (st : CState), NoTermSt (rec child cn (depth+1)).1 st →
        NoTermSt (rec child cn (depth+1)).1 (checkEntries ctx rec child cn depth known es idx st) := by
  intro es
  induction es with
  | nil => intro _ idx st h; exact h
  | cons e es ih =>
    intro ht idx st h
    rw [checkEntries_cons]
    split
    · exact h
    · apply ih (fun e' he' => ht e' (List.mem_cons_of_mem _ he'))
      exact (stepG_noterm ctx rec child cn depth _ e (ht e List.mem_cons_self) hnr st h).1

/-- one child at a level without terminal entries: no abort; nothing, or exactly what the recursive call records -/
theorem checkChild_noterm (ctx : TCtx) (rec : Rec) (k : Node) (names : Visit) (depth : Nat) (known : Option Nat)
    (ht : ∀ e ∈ activeEntries ctx.pm (depth - ctx.rootDepth), ¬ (depth + 1 = ctx.rootDepth + e.clauses.length))
    (hnr : ¬ ((rec k (names ++ [k.name]) (depth+1)).2 < (depth : Int) + 1)) :
    (checkChild ctx rec k names depth known).2 = none ∧
    ((checkChild ctx rec k names depth known).1 = [] ∨
     (checkChild ctx rec k names depth known).1 = (rec k (names ++ [k.name]) (depth+1)).1) := by
  have := checkEntries_noterm ctx rec k (names ++ [k.name]) depth known hnr _ ht 0 {} ⟨rfl, rfl, rfl, Or.inl ⟨rfl, rfl⟩⟩
  unfold checkChild
  obtain ⟨ha, _, _, hr⟩ := this
  refine ⟨ha, ?_⟩
  rcases hr with ⟨_, hv⟩ | ⟨_, hv⟩
  · left; exact hv
  · right; exact hv

/-- one level without aborts, any callback: `checkChild` over children with pairwise distinct names -/
theorem travLevel_shape_gen (ctx : TCtx) (rec : Rec) (node : Node) (names : Visit) (depth : Nat)
    (hna : ∀ k known, (checkChild ctx rec k names depth known).2 = none)
    (hkn : (node.kids.map Node.name).Nodup) :
    ∃ ps : List (Node × Option Nat), (∀ p ∈ ps, p.1 ∈ node.kids) ∧ ps.Pairwise (fun a b => a.1.name ≠ b.1.name) ∧
      travLevel ctx rec node names depth =
        (ps.flatMap (fun p => (checkChild ctx rec p.1 names depth p.2).1), (depth : Int)) := by
  unfold travLevel
  cases hw : parsersHaveWildcards ctx.pm (depth - ctx.rootDepth) with
  | true =>
    refine ⟨node.kids.map (fun k => (k, none)), ?_, ?_, ?_⟩
    · intro p hp; obtain ⟨k, hk, rfl⟩ := List.mem_map.1 hp; exact hk
    · rw [List.pairwise_map]; exact List.pairwise_map.1 hkn
    · simp only [hw, if_true]
      rw [travKids_eq ctx rec names depth hna, List.flatMap_map, List.nil_append]
  | false =>
    obtain ⟨a, b, _⟩ := lkEntries_spec node (depth - ctx.rootDepth) (activeEntries ctx.pm (depth - ctx.rootDepth)) 0 []
    refine ⟨(lkEntries node (depth - ctx.rootDepth) (activeEntries ctx.pm (depth - ctx.rootDepth)) 0 []).map
      (fun p => (p.1, some p.2)), ?_, ?_, ?_⟩
    · intro p hp
      obtain ⟨q, hq, rfl⟩ := List.mem_map.1 hp
      obtain ⟨_, _, e, _, el, _, hf⟩ := a q hq
      exact (findKid_some hf).1
    · rw [List.pairwise_map]; exact b
    · simp only [hw, Bool.false_eq_true, if_false]
      rw [travLookups_eq ctx rec node names depth hna, List.flatMap_map, List.nil_append]



theorem travLevel_snd_gen (ctx : TCtx) (rec : Rec) (node : Node) (names : Visit) (depth : Nat)
    (hna : ∀ k known, (checkChild ctx rec k names depth known).2 = none) :
    (travLevel ctx rec node names depth).2 = (depth : Int) := by
  unfold travLevel
  simp only
  split
  · rw [travKids_eq ctx rec names depth hna]
  · rw [travLookups_eq ctx rec node names depth hna]

/-- every pattern has at least `n` clauses -/
def pmMinClauses (n : Nat) (pm : PM) : Bool := pm.all (fun g => g.2.all (fun e => decide (n ≤ e.clauses.length)))

theorem minClauses_active {pm : PM} {n rel : Nat} {e : Entry} (h : pmMinClauses n pm = true)
    (he : e ∈ activeEntries pm rel) : n ≤ e.clauses.length := by
  obtain ⟨g, hg, _, heg⟩ := mem_activeEntries.1 he
  simp only [pmMinClauses, List.all_eq_true, decide_eq_true_eq] at h
  exact h g hg e heg

theorem pmMinClauses_mono {pm : PM} {m n : Nat} (hmn : m ≤ n) (h : pmMinClauses n pm = true) :
    pmMinClauses m pm = true := by
  simp only [pmMinClauses, List.all_eq_true, decide_eq_true_eq] at h ⊢
  intro g hg e he; exact Nat.le_trans hmn (h g hg e he)

theorem take2_of_prefix {a b : Bytes} {x : Visit} (h : [a, b] <+: x) : x.take 2 = [a, b] := by
  obtain ⟨t, rfl⟩ := h; simp

/-! ## host level (depth 1) -/

/-- a session node as child of a host node: no abort; nothing, or exactly one visit (the session node itself or
    one node below it).  No hypothesis on the patterns: this is the repaired rule of `CheckChildForTraversal`. -/
theorem host_checkChild (ctx : TCtx) (hcb : ctx.cb = cbSkip) (fuel : Nat) (names : Visit) (k : Node) (known : Option Nat) :
    (checkChild ctx (travAux ctx fuel) k names 1 known).2 = none ∧
    ((checkChild ctx (travAux ctx fuel) k names 1 known).1 = [] ∨
     ∃ v, (checkChild ctx (travAux ctx fuel) k names 1 known).1 = [v] ∧ (names ++ [k.name]) <+: v) := by
  have hrec : ∀ k n, Deep n (1+1) (travAux ctx fuel k n (1+1)) := fun k n => travAux_deep ctx hcb fuel k n 2 (Nat.le_refl _)
  rcases checkChild_deep1 ctx (travAux ctx fuel) k names 1 known hcb (Nat.le_refl _) hrec with h | ⟨v, h, hp⟩
  · rw [h]; exact ⟨rfl, Or.inl rfl⟩
  · rw [h]; exact ⟨by simp [skipAbort], Or.inr ⟨v, rfl, hp⟩⟩

theorem travAux_host_snd (ctx : TCtx) (hcb : ctx.cb = cbSkip) (fuel : Nat) (h : Node) (names : Visit) :
    (travAux ctx fuel h names 1).2 = 1 := by
  cases fuel with
  | zero => rfl
  | succ fuel =>
    rw [travAux]
    exact travLevel_snd_gen ctx _ h names 1 (fun k known => (host_checkChild ctx hcb fuel names k known).1)

/-- below one host node: at most one visit per session node -/
theorem travAux_host (ctx : TCtx) (hcb : ctx.cb = cbSkip) (fuel : Nat) (h : Node) (hn : Bytes)
    (hk : kidsNodup fuel h = true) :
    ((travAux ctx fuel h [hn] 1).1.map (List.take 2)).Nodup ∧
    ∀ x ∈ (travAux ctx fuel h [hn] 1).1, ∃ s ∈ h.kids, [hn, s.name] <+: x := by
  cases fuel with
  | zero => simp [travAux]
  | succ fuel =>
    obtain ⟨hkn, _⟩ := kidsNodup_succ hk
    rw [travAux]
    have hcc := fun k known => host_checkChild ctx hcb fuel [hn] k known
    obtain ⟨ps, hsub, hpw, heq⟩ := travLevel_shape_gen ctx (travAux ctx fuel) h [hn] 1 (fun k known => (hcc k known).1) hkn
    rw [heq]
    simp only
    constructor
    · show List.Pairwise (· ≠ ·) _
      rw [List.pairwise_map, List.pairwise_flatMap]
      constructor
      · intro p _
        rcases (hcc p.1 p.2).2 with h | ⟨v, h, _⟩ <;> (rw [h]; simp)
      · refine List.Pairwise.imp_of_mem ?_ hpw
        intro a b _ _ hab x hx y hy hxy
        rcases (hcc a.1 a.2).2 with h | ⟨v, h, hpa⟩
        · rw [h] at hx; cases hx
        · rcases (hcc b.1 b.2).2 with h' | ⟨w, h', hpb⟩
          · rw [h'] at hy; cases hy
          · rw [h] at hx; rw [h'] at hy
            simp at hx hy; subst hx hy
            rw [take2_of_prefix hpa, take2_of_prefix hpb] at hxy
            apply hab; simpa using hxy
    · intro x hx
      obtain ⟨p, hp, hxp⟩ := List.mem_flatMap.1 hx
      rcases (hcc p.1 p.2).2 with h | ⟨v, h, hpa⟩
      · rw [h] at hxp; cases hxp
      · rw [h] at hxp; simp at hxp; subst hxp
        exact ⟨p.1, hsub p hp, hpa⟩



/-! ## root level (depth 0) -/

theorem root_checkChild (ctx : TCtx) (hcb : ctx.cb = cbSkip) (hrd : ctx.rootDepth = 0)
    (hmin : pmMinClauses 2 ctx.pm = true) (fuel : Nat) (k : Node) (known : Option Nat) :
    (checkChild ctx (travAux ctx fuel) k [] 0 known).2 = none ∧
    ((checkChild ctx (travAux ctx fuel) k [] 0 known).1 = [] ∨
     (checkChild ctx (travAux ctx fuel) k [] 0 known).1 = (travAux ctx fuel k [k.name] 1).1) := by
  have hnr : ¬ ((travAux ctx fuel k ([] ++ [k.name]) (0+1)).2 < ((0 : Nat) : Int) + 1) := by
    rw [travAux_host_snd ctx hcb]; simp
  have ht : ∀ e ∈ activeEntries ctx.pm (0 - ctx.rootDepth), ¬ (0 + 1 = ctx.rootDepth + e.clauses.length) := by
    intro e he; have := minClauses_active hmin he; omega
  simpa using checkChild_noterm ctx (travAux ctx fuel) k [] 0 known ht hnr

/-- the whole traversal: at most one visit per (host, session) pair, and every visit lies below a session node of the tree -/
theorem travAux_root (ctx : TCtx) (hcb : ctx.cb = cbSkip) (hrd : ctx.rootDepth = 0)
    (hmin : pmMinClauses 2 ctx.pm = true) (fuel : Nat) (node : Node) (hk : kidsNodup fuel node = true) :
    ((travAux ctx fuel node [] 0).1.map (List.take 2)).Nodup ∧
    ∀ x ∈ (travAux ctx fuel node [] 0).1, ∃ h ∈ node.kids, ∃ s ∈ h.kids, [h.name, s.name] <+: x := by
  cases fuel with
  | zero => simp [travAux]
  | succ fuel =>
    obtain ⟨hkn, hkk⟩ := kidsNodup_succ hk
    rw [travAux]
    have hcc := fun k known => root_checkChild ctx hcb hrd hmin fuel k known
    obtain ⟨ps, hsub, hpw, heq⟩ := travLevel_shape_gen ctx (travAux ctx fuel) node [] 0 (fun k known => (hcc k known).1) hkn
    rw [heq]
    simp only
    have hhost := fun p (hp : p ∈ ps) => travAux_host ctx hcb fuel p.1 p.1.name (hkk p.1 (hsub p hp))
    have hmem : ∀ p ∈ ps, ∀ x ∈ (checkChild ctx (travAux ctx fuel) p.1 [] 0 p.2).1, ∃ s ∈ p.1.kids, [p.1.name, s.name] <+: x := by
      intro p hp x hx
      rcases (hcc p.1 p.2).2 with h | h
      · rw [h] at hx; cases hx
      · rw [h] at hx; exact (hhost p hp).2 x hx
    constructor
    · show List.Pairwise (· ≠ ·) _
      rw [List.pairwise_map, List.pairwise_flatMap]
      constructor
      · intro p hp
        rcases (hcc p.1 p.2).2 with h | h
        · rw [h]; simp
        · rw [h]; exact List.pairwise_map.1 (hhost p hp).1
      · refine List.Pairwise.imp_of_mem ?_ hpw
        intro a b ha hb hab x hx y hy hxy
        obtain ⟨s, _, hpa⟩ := hmem a ha x hx
        obtain ⟨s', _, hpb⟩ := hmem b hb y hy
        rw [take2_of_prefix hpa, take2_of_prefix hpb] at hxy
        apply hab; simp at hxy; exact hxy.1
    · intro x hx
      obtain ⟨p, hp, hxp⟩ := List.mem_flatMap.1 hx
      obtain ⟨s, hs, hpa⟩ := hmem p hp x hxp
      exact ⟨p.1, hsub p hp, s, hs, hpa⟩

/-- session names are unique across hosts (session ids are server-wide unique) -/
def SessUnique (node : Node) : Prop :=
  ∀ h ∈ node.kids, ∀ h' ∈ node.kids, ∀ s ∈ h.kids, ∀ s' ∈ h'.kids, s.name = s'.name → h.name = h'.name

theorem nodup_map_of_pairwise {α β γ : Type} {l : List α} {f : α → β} {g : α → γ} (h : (l.map f).Nodup)
    (hfg : ∀ x ∈ l, ∀ y ∈ l, g x = g y → f x = f y) : (l.map g).Nodup := by
  show List.Pairwise (· ≠ ·) _
  rw [List.pairwise_map]
  refine List.Pairwise.imp_of_mem ?_ (List.pairwise_map.1 h)
  intro a b ha hb hab hg
  exact hab (hfg a ha b hb hg)

end Muscle.Reflector
