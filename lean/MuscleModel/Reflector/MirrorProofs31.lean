import MuscleModel.Reflector.MirrorProofs30

/-!
# C04 lemmas, part 31: groundwork for the re-subscription with another filter

* `mr_matches_split`, `mr_matches_replace`: `MatchesPath` of a matcher holding an entry for `fix` = the other entries
  (`pmRemove`) or that entry; the same after `pmPut` replaces the entry's filter;
* `Prov evs u`: every removed path and every set value of the update Message `u` stems from an event of `evs`; kept by
  `feed` (`prov_feed`);
* `nodeChangedAux_quiet`: after `NodeChangedAux` the server is dirty or the session has nothing pending;
* `doGetData` does not touch the dirty flag.
-/

set_option linter.unusedSimpArgs false
set_option linter.unusedVariables false

namespace Muscle.Reflector
open Muscle

/-! ## one entry against the rest -/

theorem any_split_path {es : List Entry} (P : Entry → Bool) {e : Entry} (hnd : (es.map Entry.path).Nodup) (he : e ∈ es) :
    es.any P = ((es.filter (fun x => x.path ≠ e.path)).any P || P e) := by
  induction es with
  | nil => cases he
  | cons x r ih =>
    simp only [List.map_cons, List.nodup_cons] at hnd
    rcases List.mem_cons.1 he with rfl | he
    · have hrest : r.filter (fun x => x.path ≠ e.path) = r := by
        rw [List.filter_eq_self]
        intro y hy
        have : y.path ≠ e.path := fun h => hnd.1 (h ▸ List.mem_map_of_mem hy)
        simpa using this
      simp only [List.filter_cons, ne_eq, not_true_eq_false, decide_false, Bool.false_eq_true, if_false, hrest, List.any_cons]
      exact Bool.or_comm _ _
    · have hxe : x.path ≠ e.path := fun h => hnd.1 (h ▸ List.mem_map_of_mem he)
      simp only [List.filter_cons, ne_eq, hxe, not_false_eq_true, decide_true, if_true, List.any_cons, ih hnd.2 he,
        Bool.or_assoc]

theorem putEntry_any {e' : Entry} {es : List Entry} (P : Entry → Bool) (hnd : (es.map Entry.path).Nodup)
    (hex : ∃ x ∈ es, x.path = e'.path) :
    (putEntry e' es).any P = ((es.filter (fun x => x.path ≠ e'.path)).any P || P e') := by
  induction es with
  | nil => obtain ⟨x, hx, _⟩ := hex; cases hx
  | cons x r ih =>
    simp only [List.map_cons, List.nodup_cons] at hnd
    rw [putEntry]
    by_cases hx : x.path = e'.path
    · rw [if_pos hx]
      have hrest : r.filter (fun y => y.path ≠ e'.path) = r := by
        rw [List.filter_eq_self]
        intro y hy
        have : y.path ≠ e'.path := fun h => hnd.1 (by rw [hx, ← h]; exact List.mem_map_of_mem hy)
        simpa using this
      simp only [List.filter_cons, ne_eq, hx, not_true_eq_false, decide_false, Bool.false_eq_true, if_false, hrest,
        List.any_cons]
      exact Bool.or_comm _ _
    · rw [if_neg hx]
      have hex' : ∃ y ∈ r, y.path = e'.path := by
        obtain ⟨y, hy, hye⟩ := hex
        rcases List.mem_cons.1 hy with rfl | hy
        · exact absurd hye hx
        · exact ⟨y, hy, hye⟩
      simp only [List.filter_cons, ne_eq, hx, not_false_eq_true, decide_true, if_true, List.any_cons, ih hnd.2 hex',
        Bool.or_assoc]

/-- `MatchesPath` of a matcher holding the entry `e` for `fix`: the other entries, or `e` -/
theorem mr_matches_split {pm : PM} (h : SubsWF pm) {fix : Bytes} {e : Entry} (hf : pmFind pm fix = some e)
    (v : List Bytes) (uf : Bool) (d : Option Nat) :
    pmMatchesPath pm v uf d =
      (pmMatchesPath (pmRemove pm fix) v uf d || (clausesMatch (splitSlash fix) v && e.filterOk uf d)) := by
  obtain ⟨hm, hp, hc, hd, hgood⟩ := mr_found h hf
  unfold pmMatchesPath
  rw [mr_pmGroup_remove h.keys]
  by_cases hv : v.length = pathDepth fix
  · rw [if_pos hv, hv]
    obtain ⟨g, hg, hg1, heg⟩ := pmGroup_mem hm
    have hnd : ((pmGroup pm (pathDepth fix)).map Entry.path).Nodup := by
      have : pmGroup pm (pathDepth fix) = g.2 := by rw [← hg1]; exact mr_pmGroup_of_mem h.keys hg
      rw [this]; exact h.paths g hg
    have := any_split_path (fun x => clausesMatch x.clauses v && x.filterOk uf d) hnd hm
    rw [hp, hc] at this
    exact this
  · rw [if_neg hv, mr_clausesMatch_len (by rw [← hd]; exact fun x => hv x.symm)]
    simp

/-- the same after `pmPut` has replaced the entry's filter by `f` -/
theorem mr_matches_replace {pm : PM} (h : SubsWF pm) {fix : Bytes} {e : Entry} (hf : pmFind pm fix = some e)
    (f : Option Filt) (v : List Bytes) (uf : Bool) (d : Option Nat) :
    pmMatchesPath (pmPut pm fix f) v uf d =
      (pmMatchesPath (pmRemove pm fix) v uf d ||
        (clausesMatch (splitSlash fix) v && ({ path := fix, clauses := splitSlash fix, filter := f } : Entry).filterOk uf d)) := by
  obtain ⟨hm, hp, hc, hd, hgood⟩ := mr_found h hf
  rw [mr_pmPut_eq (mr_good_ne_nil hgood.1)]
  unfold pmMatchesPath
  rw [mr_pmGroup_putGroup, mr_pmGroup_remove h.keys]
  by_cases hv : v.length = (splitSlash fix).length
  · have hv' : v.length = pathDepth fix := by rw [hd]; exact hv
    rw [if_pos hv, if_pos hv', hv, ← hd]
    obtain ⟨g, hg, hg1, heg⟩ := pmGroup_mem hm
    have hnd : ((pmGroup pm (pathDepth fix)).map Entry.path).Nodup := by
      have : pmGroup pm (pathDepth fix) = g.2 := by rw [← hg1]; exact mr_pmGroup_of_mem h.keys hg
      rw [this]; exact h.paths g hg
    exact putEntry_any (e' := { path := fix, clauses := splitSlash fix, filter := f })
      (fun x => clausesMatch x.clauses v && x.filterOk uf d) hnd ⟨e, hm, hp⟩
  · have hv' : ¬ v.length = pathDepth fix := by rw [hd]; exact hv
    rw [if_neg hv, if_neg hv', mr_clausesMatch_len (fun x => hv x.symm)]
    simp

/-! ## provenance of the pending Message -/

def Prov (evs : List Ev) (u : UpdMsg) : Prop :=
  (∀ q ∈ u.removed, Ev.removed q ∈ evs) ∧ (∀ q ds d, (q, ds) ∈ u.sets → d ∈ ds → Ev.set q d ∈ evs)

theorem Prov.empty (evs : List Ev) : Prov evs {} := by
  constructor
  · intro q hq; cases hq
  · intro q ds d h; cases h

theorem Prov.mono {evs : List Ev} {u : UpdMsg} (h : Prov evs u) (more : List Ev) : Prov (evs ++ more) u :=
  ⟨fun q hq => List.mem_append_left _ (h.1 q hq), fun q ds d h1 h2 => List.mem_append_left _ (h.2 q ds d h1 h2)⟩

theorem mem_addSet {u : UpdMsg} {p : Bytes} {d : Option Nat} {q : Bytes} {ds : List (Option Nat)} {x : Option Nat}
    (h : (q, ds) ∈ (u.addSet p d).sets) (hx : x ∈ ds) :
    (∃ ds0, (q, ds0) ∈ u.sets ∧ x ∈ ds0) ∨ (q = p ∧ x = d) := by
  unfold UpdMsg.addSet at h
  split at h
  · simp only [List.mem_map] at h
    obtain ⟨⟨p0, xs0⟩, hm, heq⟩ := h
    simp only at heq
    split at heq
    · rename_i hp0
      have h1 := (Prod.mk.inj heq).1
      have h2 := (Prod.mk.inj heq).2
      subst h1 h2
      rcases List.mem_append.1 hx with hx | hx
      · exact Or.inl ⟨xs0, hm, hx⟩
      · simp at hx; exact Or.inr ⟨hp0, hx⟩
    · have h1 := (Prod.mk.inj heq).1
      have h2 := (Prod.mk.inj heq).2
      subst h1 h2
      exact Or.inl ⟨xs0, hm, hx⟩
  · simp only [List.mem_append, List.mem_singleton] at h
    rcases h with h | h
    · exact Or.inl ⟨ds, h, hx⟩
    · cases h; simp at hx; exact Or.inr ⟨rfl, hx⟩

theorem prov_feed (k : Nat) (P : Pipe) (evs : List Ev) (ev : Ev) (h : Prov evs P.cur) :
    Prov (evs ++ [ev]) (feed k P ev).cur := by
  have hflush : ∀ (Q : Pipe) (es : List Ev), Prov es Q.cur → Prov es Q.flush.cur := by
    intro Q es hq
    unfold Pipe.flush
    split
    · exact hq
    · exact Prov.empty es
  cases ev with
  | removed p =>
    simp only [feed]
    have h1 : Prov evs (if P.cur.hasSet p then P.flush else P).cur := by
      split
      · exact hflush P evs h
      · exact h
    generalize (if P.cur.hasSet p then P.flush else P) = Q at h1
    have h2 : Prov (evs ++ [Ev.removed p]) ({ Q with cur := { Q.cur with removed := Q.cur.removed ++ [p] } } : Pipe).cur := by
      constructor
      · intro q hq
        simp only [List.mem_append, List.mem_singleton] at hq
        rcases hq with hq | hq
        · exact List.mem_append_left _ (h1.1 q hq)
        · subst hq; simp
      · intro q ds d hm hd
        exact List.mem_append_left _ (h1.2 q ds d hm hd)
    split
    · exact hflush _ _ h2
    · exact h2
  | set p d =>
    simp only [feed]
    have h2 : Prov (evs ++ [Ev.set p d]) ({ P with cur := P.cur.addSet p d } : Pipe).cur := by
      constructor
      · intro q hq
        have : q ∈ P.cur.removed := by
          unfold UpdMsg.addSet at hq
          split at hq <;> exact hq
        exact List.mem_append_left _ (h.1 q this)
      · intro q ds x hm hx
        rcases mem_addSet hm hx with ⟨ds0, h0, hx0⟩ | ⟨rfl, rfl⟩
        · exact List.mem_append_left _ (h.2 q ds0 x h0 hx0)
        · simp
    split
    · exact hflush _ _ h2
    · exact h2

/-! ## the dirty flag -/

/-- the state `NodeChangedAux` is in before its flush-at-`maxItems` test -/
def ncaPre (sv : Server) (sid : Nat) (s : Sess) (np : Bytes) (d : Option Nat) (removed : Bool) : Server :=
  let cur := s.nextData.getD {}
  let sv := { sv with subsDirty := true }
  if removed then
    if cur.hasSet np then
      let sv := pushAll (sv.updSess sid (fun s => { s with nextData := some cur }))
      sv.updSess sid (fun s => { s with nextData := some { removed := [np] } }) |> fun sv => { sv with subsDirty := true }
    else sv.updSess sid (fun s => { s with nextData := some { cur with removed := cur.removed ++ [np] } })
  else sv.updSess sid (fun s => { s with nextData := some (cur.addSet np d) })

/-- the flush-at-`maxItems` test -/
def ncaTail (sid : Nat) (X : Server) : Server :=
  match X.sess? sid with
  | none => X
  | some s =>
    match s.nextData with
    | some m => if m.numNames ≥ s.maxItems then pushAll X else X
    | none => X

theorem nodeChangedAux_eq_tail {sv : Server} {sid : Nat} {s : Sess} (hs : sv.sess? sid = some s) (np : Bytes)
    (d : Option Nat) (removed : Bool) :
    nodeChangedAux sv sid np d removed = ncaTail sid (ncaPre sv sid s np d removed) := by
  unfold nodeChangedAux
  rw [hs]
  rfl

theorem ncaPre_dirty (sv : Server) (sid : Nat) (s : Sess) (np : Bytes) (d : Option Nat) (removed : Bool) :
    (ncaPre sv sid s np d removed).subsDirty = true := by
  unfold ncaPre
  simp only []
  repeat' split
  all_goals rfl

theorem ncaTail_quiet (sid : Nat) (X : Server) (hX : X.subsDirty = true) {y : Sess} (hy : (ncaTail sid X).sess? sid = some y) :
    (ncaTail sid X).subsDirty = true ∨ pend y = {} := by
  unfold ncaTail at hy ⊢
  cases hx : X.sess? sid with
  | none => left; exact hX
  | some x =>
    rw [hx] at hy
    simp only [] at hy ⊢
    cases hn : x.nextData with
    | none => left; exact hX
    | some m =>
      rw [hn] at hy
      simp only [] at hy ⊢
      by_cases hge : m.numNames ≥ x.maxItems
      · right
        rw [if_pos hge, sess?_pushAll_dirty X hX, hx] at hy
        simp only [Option.map_some, Option.some.injEq] at hy
        rw [← hy]; simp [pend, pushSess_nextData]
      · left; rw [if_neg hge]; exact hX

/-- after `NodeChangedAux` for an attached session: the server is dirty, or the session has nothing pending -/
theorem nodeChangedAux_quiet {sv : Server} {sid : Nat} {s : Sess} (hs : sv.sess? sid = some s) (np : Bytes) (d : Option Nat)
    (removed : Bool) :
    (nodeChangedAux sv sid np d removed).subsDirty = true ∨ pend (auxSess s np d removed) = {} := by
  have hsess := nodeChangedAux_sess hs np d removed
  rw [nodeChangedAux_eq_tail hs] at hsess ⊢
  exact ncaTail_quiet sid _ (ncaPre_dirty sv sid s np d removed) hsess

theorem subsDirty_doGetData (sv : Server) (sid : Nat) (keys : List (Bytes × Option Filt)) :
    (doGetData sv sid keys).subsDirty = sv.subsDirty := by
  rw [doGetData_eq]
  cases hs : sv.sess? sid with
  | none => rfl
  | some s =>
    simp only []
    have hfold : ∀ (vs : List Visit) (st : Server × UpdMsg × IdxMsg), st.1.subsDirty = sv.subsDirty →
        (vs.foldl (gdStep s sid) st).1.subsDirty = sv.subsDirty := by
      intro vs
      induction vs with
      | nil => intro st h; exact h
      | cons v r ih =>
        intro st h
        simp only [List.foldl_cons]
        apply ih
        obtain ⟨X, dm, im⟩ := st
        unfold gdStep
        simp only []
        repeat' split
        all_goals exact h
    have h1 := hfold (travGlobal sv (pmOfKeys keys (some defaultPrefix)) true (getDataCb s)) (sv, {}, []) rfl
    repeat' split
    all_goals exact h1

end Muscle.Reflector
