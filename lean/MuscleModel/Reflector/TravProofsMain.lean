import MuscleModel.Reflector.TravProofsLevel

/-!
# Lemmas for property C05, part 3: induction over the tree (fuel)

`travAux` under the continue-callback: returns its own depth, records no path twice, records only proper
extensions of `names`, and records exactly the descendants whose path the matcher accepts.
-/

namespace Muscle.Reflector
open Muscle

/-- sibling names pairwise distinct at every level reachable with `fuel` -/
def kidsNodup : Nat → Node → Bool
  | 0, _ => true
  | fuel+1, n => decide ((n.kids.map Node.name).Nodup) && n.kids.all (kidsNodup fuel)


/-- pointwise: clause `i` matches name `i` wherever both exist -/
def PrefOK (cs ns : List Bytes) : Prop := ∀ (i : Nat) (c x : Bytes), cs[i]? = some c → ns[i]? = some x → clauseMatch c x = true

theorem clausesMatch_iff (cs ns : List Bytes) :
    clausesMatch cs ns = true ↔ cs.length = ns.length ∧ PrefOK cs ns := by
  induction cs generalizing ns with
  | nil =>
    cases ns with
    | nil => simp [clausesMatch, PrefOK]
    | cons n ns => simp [clausesMatch]
  | cons c cs ih =>
    cases ns with
    | nil => simp [clausesMatch]
    | cons n ns =>
      simp only [clausesMatch, Bool.and_eq_true, ih, List.length_cons, Nat.add_right_cancel_iff, PrefOK]
      constructor
      · rintro ⟨h0, hl, hp⟩
        refine ⟨hl, ?_⟩
        intro i c' x hc hx
        cases i with
        | zero => simp at hc hx; subst hc hx; exact h0
        | succ i => simp at hc hx; exact hp i c' x hc hx
      · rintro ⟨hl, hp⟩
        refine ⟨hp 0 c n (by simp) (by simp), hl, ?_⟩
        intro i c' x hc hx
        exact hp (i+1) c' x (by simpa using hc) (by simpa using hx)

theorem PrefOK_snoc {cs ns : List Bytes} {y : Bytes} (h : PrefOK cs ns)
    (hy : ∀ c, cs[ns.length]? = some c → clauseMatch c y = true) : PrefOK cs (ns ++ [y]) := by
  intro i c x hc hx
  by_cases hi : i < ns.length
  · rw [List.getElem?_append_left hi] at hx; exact h i c x hc hx
  · by_cases hi2 : i = ns.length
    · subst hi2
      simp at hx; subst hx; exact hy c hc
    · have : (ns ++ [y])[i]? = none := by
        apply List.getElem?_eq_none; simp; omega
      rw [this] at hx; cases hx

theorem PrefOK_of_snoc {cs ns : List Bytes} {y : Bytes} (h : PrefOK cs (ns ++ [y])) :
    PrefOK cs ns ∧ ∀ c, cs[ns.length]? = some c → clauseMatch c y = true := by
  constructor
  · intro i c x hc hx
    apply h i c x hc
    have hi : i < ns.length := by
      rcases Nat.lt_or_ge i ns.length with h | h
      · exact h
      · rw [List.getElem?_eq_none h] at hx; cases hx
    rw [List.getElem?_append_left hi]; exact hx
  · intro c hc
    exact h ns.length c y hc (by simp)

theorem PrefOK_prefix {cs ns ms : List Bytes} (h : PrefOK cs ms) (hp : ns <+: ms) : PrefOK cs ns := by
  obtain ⟨t, rfl⟩ := hp
  intro i c x hc hx
  apply h i c x hc
  have hi : i < ns.length := by
    rcases Nat.lt_or_ge i ns.length with h | h
    · exact h
    · rw [List.getElem?_eq_none h] at hx; cases hx
  rw [List.getElem?_append_left hi]; exact hx



/-! ## the returned depth, duplicates, prefixes -/

theorem travLevel_snd (ctx : TCtx) (rec : Rec) (node : Node) (names : Visit) (depth : Nat)
    (hcb : ctx.cb = cbContinue) (hrec : ∀ k n d, (rec k n d).2 = (d : Int)) :
    (travLevel ctx rec node names depth).2 = (depth : Int) := by
  have hna : ∀ k known, (checkChild ctx rec k names depth known).2 = none :=
    fun k known => checkChild_snd ctx rec k names depth known hcb hrec
  unfold travLevel
  simp only
  split
  · rw [travKids_eq ctx rec names depth hna]
  · rw [travLookups_eq ctx rec node names depth hna]

/-- under the continue-callback `DoTraversalAux` returns the node's own depth -/
theorem travAux_snd (ctx : TCtx) (hcb : ctx.cb = cbContinue) :
    ∀ (fuel : Nat) (node : Node) (names : Visit) (depth : Nat), (travAux ctx fuel node names depth).2 = (depth : Int) := by
  intro fuel
  induction fuel with
  | zero => intros; rfl
  | succ fuel ih =>
    intro node names depth
    rw [travAux]
    exact travLevel_snd ctx _ node names depth hcb ih

theorem kidsNodup_succ {fuel : Nat} {n : Node} (h : kidsNodup (fuel+1) n = true) :
    (n.kids.map Node.name).Nodup ∧ ∀ k ∈ n.kids, kidsNodup fuel k = true := by
  simpa [kidsNodup] using h

/-- what one child contributes, as a set, and without duplicates -/
theorem checkChild_props (ctx : TCtx) (rec : Rec) (k : Node) (names : Visit) (depth : Nat)
    (hcb : ctx.cb = cbContinue) (hrec : ∀ k n d, (rec k n d).2 = (d : Int))
    (hnd : (rec k (names ++ [k.name]) (depth+1)).1.Nodup)
    (hpre : ∀ v ∈ (rec k (names ++ [k.name]) (depth+1)).1,
        (names ++ [k.name]) <+: v ∧ (names ++ [k.name]).length < v.length) :
    (checkChild ctx rec k names depth none).1.Nodup ∧
    ∀ v ∈ (checkChild ctx rec k names depth none).1, (names ++ [k.name]) <+: v := by
  have hp := checkChild_perm ctx rec k names depth hcb hrec
  constructor
  · rw [hp.nodup_iff, List.nodup_append]
    refine ⟨by split <;> simp, by split <;> simp [hnd], ?_⟩
    intro a ha b hb hab
    split at ha
    · split at hb
      · simp at ha; subst ha hab
        have := (hpre _ hb).2; omega
      · cases hb
    · cases ha
  · intro v hv
    rw [hp.mem_iff, List.mem_append] at hv
    rcases hv with hv | hv
    · split at hv
      · simp at hv; subst hv; exact List.prefix_refl _
      · cases hv
    · split at hv
      · exact (hpre v hv).1
      · cases hv

theorem travAux_nodup_prefix (ctx : TCtx) (hcb : ctx.cb = cbContinue) (hwf : pmWF ctx.pm = true) (hl : ClauseLaws ctx.pm) :
    ∀ (fuel : Nat) (node : Node) (names : Visit) (depth : Nat), kidsNodup fuel node = true →
      (travAux ctx fuel node names depth).1.Nodup ∧
      ∀ v ∈ (travAux ctx fuel node names depth).1, names <+: v ∧ names.length < v.length := by
  intro fuel
  induction fuel with
  | zero => intro node names depth _; simp [travAux]
  | succ fuel ih =>
    intro node names depth hk
    obtain ⟨hkn, hkk⟩ := kidsNodup_succ hk
    rw [travAux]
    obtain ⟨ks, hsub, hpw, heq, _⟩ :=
      travLevel_shape ctx (travAux ctx fuel) node names depth hcb (travAux_snd ctx hcb fuel) hwf hl hkn
    rw [heq]
    have hprops : ∀ k ∈ ks, _ := fun k hk' =>
      checkChild_props ctx (travAux ctx fuel) k names depth hcb (travAux_snd ctx hcb fuel)
        (ih k _ _ (hkk k (hsub k hk'))).1 (ih k _ _ (hkk k (hsub k hk'))).2
    constructor
    · show List.Pairwise (· ≠ ·) _
      rw [List.pairwise_flatMap]
      refine ⟨fun k hk' => (hprops k hk').1, ?_⟩
      refine List.Pairwise.imp_of_mem ?_ hpw
      intro a b ha hb hab x hx y hy hxy
      subst hxy
      have h1 := (hprops a ha).2 x hx
      have h2 := (hprops b hb).2 x hy
      have h3 := List.prefix_of_prefix_length_le h1 h2 (by simp)
      have h4 := h3.eq_of_length (by simp)
      apply hab
      simpa using h4
    · intro v hv
      simp only at hv
      obtain ⟨k, hk', hvk⟩ := List.mem_flatMap.1 hv
      have h1 := (hprops k hk').2 v hvk
      refine ⟨(List.prefix_append _ _).trans h1, ?_⟩
      have := h1.length_le; simp at this; omega


/-! ## membership -/

/-- the single-match-string invariant: the names on the way down matched that string's clauses -/
def SingleInv (pm : PM) (names : Visit) : Prop := ∀ kk e, pm = [(kk, [e])] → PrefOK e.clauses names

theorem onlyOneEntry_iff (pm : PM) : onlyOneEntry pm = true ↔ ∃ kk e, pm = [(kk, [e])] := by
  unfold onlyOneEntry
  split
  · simp
  · rename_i h
    simp only [Bool.false_eq_true, false_iff]
    rintro ⟨kk, e, rfl⟩
    exact h kk e rfl

theorem pmGroup_mem {pm : PM} {d : Nat} {e : Entry} (h : e ∈ pmGroup pm d) : ∃ g ∈ pm, g.1 = d ∧ e ∈ g.2 := by
  induction pm with
  | nil => simp [pmGroup] at h
  | cons g r ih =>
    obtain ⟨k, es⟩ := g
    rw [pmGroup] at h
    split at h
    · exact ⟨(k, es), List.mem_cons_self, by assumption, h⟩
    · obtain ⟨g, hg, h2⟩ := ih h
      exact ⟨g, List.mem_cons_of_mem _ hg, h2⟩

theorem hitB_iff (rel : Nat) (nm : Bytes) (e : Entry) :
    hitB rel nm e = true ↔ ∃ c, e.clauses[rel]? = some c ∧ clauseMatch c nm = true := by
  unfold hitB
  split <;> simp_all

/-- an entry matching a whole path hits at every level of it -/
theorem hit_of_match {e : Entry} {v : Visit} (hm : clausesMatch e.clauses v = true) {i : Nat} {x : Bytes}
    (hx : v[i]? = some x) : hitB i x e = true := by
  obtain ⟨hl, hp⟩ := (clausesMatch_iff _ _).1 hm
  have hi : i < v.length := by
    rcases Nat.lt_or_ge i v.length with h | h
    · exact h
    · rw [List.getElem?_eq_none h] at hx; cases hx
  rw [hitB_iff]
  exact ⟨e.clauses[i]'(by omega), List.getElem?_eq_getElem _, hp i _ x (List.getElem?_eq_getElem _) hx⟩

theorem termB_iff (ctx : TCtx) (names : Visit) (e : Entry) :
    termB ctx (ctx.rootDepth + names.length) e = true ↔ names.length + 1 = e.clauses.length := by
  simp only [termB, decide_eq_true_eq]; omega

/-- recording condition = the matcher accepts the child's path -/
theorem anyT_iff (ctx : TCtx) (hwf : pmWF ctx.pm = true) (names : Visit) (hinv : SingleInv ctx.pm names) (k : Node) :
    anyT ctx (ctx.rootDepth + names.length) k (names ++ [k.name])
        (activeEntries ctx.pm (ctx.rootDepth + names.length - ctx.rootDepth)) = true ↔
      pmMatchesPath ctx.pm (names ++ [k.name]) ctx.useFilters k.data = true := by
  have hrel : ctx.rootDepth + names.length - ctx.rootDepth = names.length := by omega
  rw [hrel]
  simp only [anyT, hrel, List.any_eq_true, Bool.and_eq_true, termB_iff]
  constructor
  · rintro ⟨e, he, ⟨hh, ht⟩, hg⟩
    simp only [guardB, Bool.or_eq_true, Bool.and_eq_true] at hg
    rcases hg with ⟨h1, hf⟩ | hg
    · obtain ⟨kk, e0, hpm⟩ := (onlyOneEntry_iff _).1 h1
      have hinv' := hinv kk e0 hpm
      rw [hpm] at he hwf ⊢
      have hee : e = e0 := by
        obtain ⟨g, hg, _, heg⟩ := mem_activeEntries.1 he
        simp at hg; subst hg; simpa using heg
      subst hee
      have hkk : e.clauses.length = kk := by simpa [pmWF] using hwf
      have hcm : clausesMatch e.clauses (names ++ [k.name]) = true := by
        rw [clausesMatch_iff]
        refine ⟨by simp; omega, PrefOK_snoc hinv' ?_⟩
        intro c hc
        obtain ⟨c', hc', hm⟩ := (hitB_iff _ _ _).1 hh
        rw [hc] at hc'; cases hc'; exact hm
      have hfo : e.filterOk ctx.useFilters k.data = true := by
        unfold Entry.filterOk
        split
        · rfl
        · rename_i f hf'
          simp [hf'] at hf
          simp [hf]
      simp [pmMatchesPath, pmGroup, ← ht, hkk.symm, hcm, hfo]
    · exact hg
  · intro hP
    have hP' := hP
    simp only [pmMatchesPath, List.any_eq_true, Bool.and_eq_true] at hP'
    obtain ⟨e, he, hcm, hfo⟩ := hP'
    obtain ⟨g, hg, hg1, heg⟩ := pmGroup_mem he
    refine ⟨e, mem_activeEntries.2 ⟨g, hg, by rw [hg1]; simp, heg⟩, ⟨?_, ?_⟩, ?_⟩
    · exact hit_of_match hcm (by simp)
    · have := ((clausesMatch_iff _ _).1 hcm).1; simp at this; omega
    · simp only [guardB, Bool.or_eq_true]; right; exact hP



theorem anyR_iff (ctx : TCtx) (names : Visit) (k : Node) :
    anyR ctx (ctx.rootDepth + names.length) k
        (activeEntries ctx.pm (ctx.rootDepth + names.length - ctx.rootDepth)) = true ↔
      ∃ e ∈ activeEntries ctx.pm names.length, hitB names.length k.name e = true ∧ names.length + 1 ≠ e.clauses.length := by
  have hrel : ctx.rootDepth + names.length - ctx.rootDepth = names.length := by omega
  rw [hrel]
  simp only [anyR, hrel, List.any_eq_true, Bool.and_eq_true, Bool.not_eq_true', ← Bool.not_eq_true, termB_iff]

/-- descending keeps the single-match-string invariant -/
theorem SingleInv_snoc {pm : PM} {names : Visit} (hinv : SingleInv pm names) {x : Bytes}
    (h : ∃ e ∈ activeEntries pm names.length, hitB names.length x e = true) : SingleInv pm (names ++ [x]) := by
  intro kk e0 hpm
  obtain ⟨e, he, hh⟩ := h
  apply PrefOK_snoc (hinv kk e0 hpm)
  intro c hc
  rw [hpm] at he
  have hee : e = e0 := by
    obtain ⟨g, hg, _, heg⟩ := mem_activeEntries.1 he
    simp at hg; subst hg; simpa using heg
  subst hee
  obtain ⟨c', hc', hm⟩ := (hitB_iff _ _ _).1 hh
  rw [hc] at hc'; cases hc'; exact hm

theorem descendants_prefix : ∀ (fuel : Nat) (n : Node) (pre : List Bytes) (p : List Bytes × Node),
    p ∈ descendants fuel n pre → pre <+: p.1 ∧ pre.length < p.1.length := by
  intro fuel
  induction fuel with
  | zero => intro n pre p h; simp [descendants] at h
  | succ fuel ih =>
    intro n pre p h
    rw [descendants] at h
    obtain ⟨k, _, hk⟩ := List.mem_flatMap.1 h
    rcases List.mem_cons.1 hk with rfl | hk
    · simp
    · obtain ⟨h1, h2⟩ := ih k _ p hk
      refine ⟨(List.prefix_append _ _).trans h1, ?_⟩
      simp at h2; omega

/-- a matching node strictly below child `k` forces the descent into `k` -/
theorem anyR_of_deeper_match (pm : PM) (names : Visit) (x : Bytes) (v : Visit) (uf : Bool) (d : Option Nat)
    (hpre : (names ++ [x]) <+: v) (hlen : (names ++ [x]).length < v.length)
    (hP : pmMatchesPath pm v uf d = true) :
    ∃ e ∈ activeEntries pm names.length, hitB names.length x e = true ∧ names.length + 1 ≠ e.clauses.length := by
  simp only [pmMatchesPath, List.any_eq_true, Bool.and_eq_true] at hP
  obtain ⟨e, he, hcm, _⟩ := hP
  obtain ⟨g, hg, hg1, heg⟩ := pmGroup_mem he
  simp at hlen
  refine ⟨e, mem_activeEntries.2 ⟨g, hg, by rw [hg1]; omega, heg⟩, ?_, ?_⟩
  · apply hit_of_match hcm
    obtain ⟨t, rfl⟩ := hpre
    simp
  · have := ((clausesMatch_iff _ _).1 hcm).1; omega

/-- the traversal records exactly the descendants whose path the matcher accepts -/
theorem travAux_mem (ctx : TCtx) (hcb : ctx.cb = cbContinue) (hwf : pmWF ctx.pm = true) (hl : ClauseLaws ctx.pm) :
    ∀ (fuel : Nat) (node : Node) (names : Visit), kidsNodup fuel node = true → SingleInv ctx.pm names →
      ∀ v, v ∈ (travAux ctx fuel node names (ctx.rootDepth + names.length)).1 ↔
        ∃ n, (v, n) ∈ descendants fuel node names ∧ pmMatchesPath ctx.pm v ctx.useFilters n.data = true := by
  intro fuel
  induction fuel with
  | zero => intro node names _ _ v; simp [travAux, descendants]
  | succ fuel ih =>
    intro node names hk hinv v
    obtain ⟨hkn, hkk⟩ := kidsNodup_succ hk
    rw [travAux]
    obtain ⟨ks, hsub, _, heq, hnil⟩ :=
      travLevel_shape ctx (travAux ctx fuel) node names _ hcb (travAux_snd ctx hcb fuel) hwf hl hkn
    rw [heq]
    simp only
    have hdep : ∀ k : Node, ctx.rootDepth + names.length + 1 = ctx.rootDepth + (names ++ [k.name]).length := by
      intro k; simp; omega
    have hperm := fun k => checkChild_perm ctx (travAux ctx fuel) k names (ctx.rootDepth + names.length) hcb
      (travAux_snd ctx hcb fuel)
    -- membership in one child's contribution
    have hone : ∀ k ∈ node.kids, (v ∈ (checkChild ctx (travAux ctx fuel) k names (ctx.rootDepth + names.length) none).1 ↔
        (v = names ++ [k.name] ∧ pmMatchesPath ctx.pm v ctx.useFilters k.data = true) ∨
        (∃ n, (v, n) ∈ descendants fuel k (names ++ [k.name]) ∧ pmMatchesPath ctx.pm v ctx.useFilters n.data = true)) := by
      intro k hk'
      rw [(hperm k).mem_iff, List.mem_append]
      constructor
      · rintro (h | h)
        · split at h
          · rename_i hT
            simp at h; subst h
            left; exact ⟨rfl, (anyT_iff ctx hwf names hinv k).1 hT⟩
          · cases h
        · split at h
          · rename_i hR
            right
            obtain ⟨e, he, hh, _⟩ := (anyR_iff ctx names k).1 hR
            have hinv' := SingleInv_snoc hinv ⟨e, he, hh⟩
            rw [hdep k] at h
            exact (ih k _ (hkk k hk') hinv' v).1 h
          · cases h
      · rintro (⟨rfl, hP⟩ | ⟨n, hd, hP⟩)
        · left
          rw [if_pos ((anyT_iff ctx hwf names hinv k).2 hP)]; simp
        · right
          obtain ⟨h1, h2⟩ := descendants_prefix fuel k _ _ hd
          have hR := anyR_of_deeper_match ctx.pm names k.name v ctx.useFilters n.data h1 h2 hP
          rw [if_pos ((anyR_iff ctx names k).2 hR)]
          obtain ⟨e, he, hh, _⟩ := hR
          have hinv' := SingleInv_snoc hinv ⟨e, he, hh⟩
          rw [hdep k]
          exact (ih k _ (hkk k hk') hinv' v).2 ⟨n, hd, hP⟩
    constructor
    · intro hv
      obtain ⟨k, hk', hvk⟩ := List.mem_flatMap.1 hv
      have hkm := hsub k hk'
      rcases (hone k hkm).1 hvk with ⟨rfl, hP⟩ | ⟨n, hd, hP⟩
      · refine ⟨k, ?_, hP⟩
        rw [descendants]; exact List.mem_flatMap.2 ⟨k, hkm, List.mem_cons_self⟩
      · refine ⟨n, ?_, hP⟩
        rw [descendants]; exact List.mem_flatMap.2 ⟨k, hkm, List.mem_cons_of_mem _ hd⟩
    · rintro ⟨n, hd, hP⟩
      rw [descendants] at hd
      obtain ⟨k, hkm, hd⟩ := List.mem_flatMap.1 hd
      have hvk : v ∈ (checkChild ctx (travAux ctx fuel) k names (ctx.rootDepth + names.length) none).1 := by
        apply (hone k hkm).2
        rcases List.mem_cons.1 hd with h | h
        · cases h; left; exact ⟨rfl, hP⟩
        · right; exact ⟨n, h, hP⟩
      have hks : k ∈ ks := by
        apply Classical.byContradiction
        intro hn
        rw [hnil k hkm hn] at hvk; cases hvk
      exact List.mem_flatMap.2 ⟨k, hks, hvk⟩


/-! ## fuel that covers the whole tree -/

/-- the tree below `n` is at most `fuel` levels deep -/
def fits : Nat → Node → Bool
  | 0, n => n.kids.isEmpty
  | fuel+1, n => n.kids.all (fits fuel)

theorem descendants_stable : ∀ (fuel : Nat) (n : Node) (pre : List Bytes), fits fuel n = true →
    ∀ j, descendants (fuel + j) n pre = descendants fuel n pre := by
  intro fuel
  induction fuel with
  | zero =>
    intro n pre h j
    simp only [fits, List.isEmpty_iff] at h
    cases j with
    | zero => rfl
    | succ j => simp [descendants, h]
  | succ fuel ih =>
    intro n pre h j
    simp only [fits, List.all_eq_true] at h
    rw [show fuel + 1 + j = (fuel + j) + 1 by omega, descendants, descendants]
    apply flatMap_congr_mem
    intro k hk
    rw [ih k _ (h k hk) j]

theorem SingleInv_nil (pm : PM) : SingleInv pm [] := by
  intro kk e _ i c x _ hx; simp at hx

/-! ## concrete instances of the pattern laws (for the non-vacuity examples) -/

theorem matchToks_lit1 (c : UInt8) (s : Bytes) : matchToks [.lit c] s = (s == [c]) := by
  cases s with
  | nil => simp [matchToks]
  | cons x r => cases r <;> simp [matchToks]

theorem uniqueLaw_a : UniqueLaw [97] := by
  intro _ s
  simp [clauseMatch, globMatch, splitCommas, splitCommasAux, toksOf, matchToks_lit1, unescape, unescapeAux, cStar, cBackslash, cComma, cQuestion]

theorem uvListLaw_a : UVListLaw [97] := by
  intro h; exact absurd h (by decide)

theorem uniqueLaw_ab : UniqueLaw [97, 44, 98] := by
  intro h; exact absurd h (by decide)

theorem uvListLaw_ab : UVListLaw [97, 44, 98] := by
  intro _ s
  simp [clauseMatch, globMatch, splitCommas, splitCommasAux, toksOf, matchToks_lit1, unescape, unescapeAux, cStar, cBackslash, cComma, cQuestion]

theorem laws_star : UniqueLaw [42] ∧ UVListLaw [42] := by
  constructor <;> (intro h; exact absurd h (by decide))


/-- a matcher whose clauses are all `*` satisfies the laws vacuously -/
theorem laws_of_star_only {pm : PM} (h : ∀ e ∈ allEntries pm, ∀ c ∈ e.clauses, c = [42]) : ClauseLaws pm := by
  intro e he c hc
  rw [h e he c hc]; exact laws_star

end Muscle.Reflector
