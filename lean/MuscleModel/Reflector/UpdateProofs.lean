import MuscleModel.Reflector.Update

/-! Batching of update Messages is invisible to the subscriber (lemmas for C04). -/

set_option linter.unusedSimpArgs false

namespace Muscle.Reflector
open Muscle

def applyMsgs (m : Mirror) (us : List UpdMsg) : Mirror := us.foldl applyMsg m

/-- value of one path after the removals -/
theorem removed_fold_val (rs : List Bytes) (m : Mirror) (q : Bytes) :
    (rs.foldl (fun m p => m.upd p none) m) q = if q ∈ rs then none else m q := by
  induction rs generalizing m with
  | nil => simp
  | cons p r ih =>
    simp only [List.foldl_cons, ih, Mirror.upd, List.mem_cons]
    by_cases h1 : q ∈ r
    · simp [h1]
    · by_cases h2 : q = p <;> simp [h1, h2]

/-- value of one path after the items of one field -/
theorem items_fold_val (ds : List (Option Nat)) (p : Bytes) (m : Mirror) (q : Bytes) :
    (ds.foldl (fun m d => m.upd p (some d)) m) q =
      if q = p then ds.foldl (fun _ d => some d) (m q) else m q := by
  induction ds generalizing m with
  | nil => simp
  | cons d r ih =>
    simp only [List.foldl_cons, ih, Mirror.upd]
    by_cases h : q = p <;> simp [h]

/-- what the sets make of the value `v` a path had before them -/
def setsVal (q : Bytes) : List (Bytes × List (Option Nat)) → Option (Option Nat) → Option (Option Nat)
  | [], v => v
  | (p, ds) :: r, v => setsVal q r (if q = p then ds.foldl (fun _ d => some d) v else v)

theorem sets_fold_val (sets : List (Bytes × List (Option Nat))) (m : Mirror) (q : Bytes) :
    (sets.foldl (fun m (x : Bytes × List (Option Nat)) => x.2.foldl (fun m d => m.upd x.1 (some d)) m) m) q
      = setsVal q sets (m q) := by
  induction sets generalizing m with
  | nil => simp [setsVal]
  | cons x r ih =>
    obtain ⟨p, ds⟩ := x
    simp only [List.foldl_cons, ih, setsVal, items_fold_val]

theorem applyMsg_val (m : Mirror) (u : UpdMsg) (q : Bytes) :
    applyMsg m u q = setsVal q u.sets (if q ∈ u.removed then none else m q) := by
  unfold applyMsg
  have := sets_fold_val u.sets (u.removed.foldl (fun m p => m.upd p none) m) q
  simp only [removed_fold_val] at this
  simpa using this

theorem setsVal_no_entry (q : Bytes) (sets : List (Bytes × List (Option Nat))) (v : Option (Option Nat))
    (h : ∀ x ∈ sets, x.1 ≠ q) : setsVal q sets v = v := by
  induction sets generalizing v with
  | nil => rfl
  | cons x r ih =>
    obtain ⟨p, ds⟩ := x
    have hp : q ≠ p := fun e => h (p, ds) (by simp) e.symm
    simp only [setsVal, hp, if_false]
    exact ih v (fun y hy => h y (by simp [hy]))

theorem setsVal_append_new (q p : Bytes) (d : Option Nat) (sets : List (Bytes × List (Option Nat)))
    (v : Option (Option Nat)) :
    setsVal q (sets ++ [(p, [d])]) v = if q = p then some d else setsVal q sets v := by
  induction sets generalizing v with
  | nil => simp [setsVal]
  | cons x r ih =>
    obtain ⟨p', ds⟩ := x
    simp only [List.cons_append, setsVal, ih]

theorem foldl_last_some (ds : List (Option Nat)) (d : Option Nat) (v : Option (Option Nat)) :
    (ds ++ [d]).foldl (fun _ x => some x) v = some d := by
  simp [List.foldl_append]

/-- appending `d` to every entry for `p`: other paths keep their value; `p` gets `d` if it has an entry -/
theorem setsVal_map_append (q p : Bytes) (d : Option Nat) (sets : List (Bytes × List (Option Nat)))
    (v : Option (Option Nat)) :
    setsVal q (sets.map (fun x => if x.1 = p then (x.1, x.2 ++ [d]) else (x.1, x.2))) v =
      if q = p ∧ sets.any (fun x => x.1 = p) then some d else setsVal q sets v := by
  induction sets generalizing v with
  | nil => simp [setsVal]
  | cons x r ih =>
    obtain ⟨p', ds⟩ := x
    by_cases hp : p' = p
    · subst hp
      by_cases hq : q = p'
      · subst hq
        simp only [List.map_cons, if_true, setsVal, ih, foldl_last_some, List.any_cons, decide_true, Bool.true_or, and_true]
        by_cases hr : r.any (fun x => x.1 = q) = true
        · simp [hr]
        · have hno : ∀ y ∈ r, y.1 ≠ q := by
            intro y hy e
            apply hr
            simp only [List.any_eq_true, decide_eq_true_eq]
            exact ⟨y, hy, e⟩
          simp [hr, setsVal_no_entry q r _ hno]
      · simp [setsVal, ih, hq]
    · have hne : ¬ (p' = p) := hp
      by_cases hq : q = p'
      · subst hq
        have : ¬ (q = p) := hne
        simp [setsVal, ih, hne, this]
      · have hd : decide (p' = p) = false := by simpa using hne
        have hc : (decide (p' = p) || r.any fun x => decide (x.fst = p)) = (r.any fun x => decide (x.fst = p)) := by
          rw [hd]; rfl
        simp only [List.map_cons, hne, if_false, setsVal, hq, ih, List.any_cons]
        by_cases hr : (r.any fun x => decide (x.fst = p)) = true <;> by_cases hqp : q = p <;> simp [hr, hqp, hd]

theorem applyMsg_addSet (m : Mirror) (u : UpdMsg) (p : Bytes) (d : Option Nat) :
    applyMsg m (u.addSet p d) = (applyMsg m u).upd p (some d) := by
  funext q
  simp only [applyMsg_val, Mirror.upd]
  unfold UpdMsg.addSet UpdMsg.hasSet
  by_cases hs : (u.sets.any fun x => decide (x.1 = p)) = true
  · have hs' : (u.sets.any fun (x : Bytes × List (Option Nat)) => match x with | (p_1, _) => decide (p_1 = p)) = true := by
      simpa using hs
    simp only [hs', if_true]
    have := setsVal_map_append q p d u.sets (if q ∈ u.removed then none else m q)
    have hmap : (u.sets.map fun (x : Bytes × List (Option Nat)) => match x with | (p_1, xs) => if p_1 = p then (p_1, xs ++ [d]) else (p_1, xs))
        = u.sets.map (fun x => if x.1 = p then (x.1, x.2 ++ [d]) else (x.1, x.2)) := by
      apply List.map_congr_left
      intro x _
      obtain ⟨a, b⟩ := x
      rfl
    rw [hmap, this]
    by_cases hq : q = p <;> simp [hq, hs]
  · have hs' : ¬ (u.sets.any fun (x : Bytes × List (Option Nat)) => match x with | (p_1, _) => decide (p_1 = p)) = true := by
      simpa using hs
    simp only [hs', if_false, Bool.false_eq_true]
    rw [setsVal_append_new]

theorem applyMsg_addRemoved (m : Mirror) (u : UpdMsg) (p : Bytes) (h : u.hasSet p = false) :
    applyMsg m { u with removed := u.removed ++ [p] } = (applyMsg m u).upd p none := by
  funext q
  simp only [applyMsg_val, Mirror.upd, List.mem_append, List.mem_singleton]
  by_cases hq : q = p
  · subst hq
    have hno : ∀ x ∈ u.sets, x.1 ≠ q := by
      intro x hx e
      have : u.hasSet q = true := by
        unfold UpdMsg.hasSet
        simp only [List.any_eq_true]
        exact ⟨x, hx, by obtain ⟨a, b⟩ := x; simpa using e⟩
      rw [h] at this; cases this
    simp [setsVal_no_entry q u.sets _ hno]
  · simp [hq]

theorem applyMsg_empty (m : Mirror) : applyMsg m {} = m := by
  funext q; simp [applyMsg_val, setsVal]

theorem applyMsg_noNames (m : Mirror) (u : UpdMsg) (h : u.numNames = 0) : applyMsg m u = m := by
  unfold UpdMsg.numNames at h
  have h1 : u.removed = [] := by
    by_cases e : u.removed.isEmpty = true
    · simpa using e
    · simp [e] at h
  have h2 : u.sets = [] := by
    have : u.sets.length = 0 := by omega
    simpa using this
  funext q
  simp [applyMsg_val, h1, h2, setsVal]

/-- the state of the client if everything built so far were delivered now -/
def Pipe.view (s : Pipe) (m : Mirror) : Mirror := applyMsg (applyMsgs m s.sent) s.cur

theorem view_flush (s : Pipe) (m : Mirror) : s.flush.view m = s.view m := by
  unfold Pipe.flush Pipe.view
  by_cases h : s.cur.numNames = 0
  · simp [h]
  · simp [h, applyMsgs, List.foldl_append, applyMsg_empty]

theorem view_feed (k : Nat) (s : Pipe) (m : Mirror) (e : Ev) : (feed k s e).view m = applyEv (s.view m) e := by
  cases e with
  | set p d =>
    simp only [feed, applyEv]
    split
    · rw [view_flush]; simp [Pipe.view, applyMsg_addSet]
    · simp [Pipe.view, applyMsg_addSet]
  | removed p =>
    simp only [feed, applyEv]
    have key : ∀ (t : Pipe), t.cur.hasSet p = false → t.view m = s.view m →
        (Pipe.view { t with cur := { t.cur with removed := t.cur.removed ++ [p] } } m) = (s.view m).upd p none := by
      intro t ht hv
      simp only [Pipe.view] at hv ⊢
      rw [applyMsg_addRemoved _ _ _ ht, hv]
    by_cases hc : s.cur.hasSet p = true
    · simp only [hc, if_true]
      have hf : s.flush.cur.hasSet p = false := by
        unfold Pipe.flush
        by_cases h0 : s.cur.numNames = 0
        · -- no names at all: there is no set either
          exfalso
          unfold UpdMsg.numNames at h0
          unfold UpdMsg.hasSet at hc
          have : s.cur.sets.length = 0 := by omega
          have : s.cur.sets = [] := by simpa using this
          simp [this] at hc
        · simp [h0, UpdMsg.hasSet]
      have := key s.flush hf (view_flush s m)
      split
      · rw [view_flush]; exact this
      · exact this
    · have hc' : s.cur.hasSet p = false := by simpa using hc
      simp only [hc', Bool.false_eq_true, if_false]
      have := key s hc' rfl
      split
      · rw [view_flush]; exact this
      · exact this

theorem view_run (k : Nat) (evs : List (Ev × Bool)) (s : Pipe) (m : Mirror) :
    (run k s evs).view m = (evs.map (·.1)).foldl applyEv (s.view m) := by
  induction evs generalizing s with
  | nil => simp [run]
  | cons x r ih =>
    obtain ⟨e, f⟩ := x
    simp only [run, List.map_cons, List.foldl_cons]
    rw [ih]
    by_cases hf : f = true
    · simp [hf, view_flush, view_feed]
    · simp [hf, view_feed]

end Muscle.Reflector
