import MuscleModel.Base.Bytes

/-!
# Clause patterns of node paths (the fragment the reflector model needs)

A clause pattern is matched by `StringMatcher` (regex/StringMatcher.cpp).  The reflector model uses
the fragment {literal characters, `\c`, `*`, `?`, top-level `,` alternatives}; the full documented
syntax and its translation to POSIX ERE are modelled in `Wildcard/*` (property C15).  The flag
functions mirror `CanWildcardStringMatchMultipleValues`, `IsRegexToken`, `RemoveEscapeChars`.
-/

namespace Muscle.Reflector
open Muscle

inductive Tok where
  | lit (c : UInt8) | star | any
  deriving DecidableEq, Repr

def cBackslash : UInt8 := 92
def cComma : UInt8 := 44
def cStar : UInt8 := 42
def cQuestion : UInt8 := 63
def cSlash : UInt8 := 47

/-- tokens of one alternative (no top-level comma inside) -/
def toksOf : Bytes → List Tok
  | [] => []
  | c :: r =>
    if c = cBackslash then
      match r with
      | [] => [.lit cBackslash]          -- trailing backslash: a literal backslash
      | d :: r' => .lit d :: toksOf r'
    else if c = cStar then .star :: toksOf r
    else if c = cQuestion then .any :: toksOf r
    else .lit c :: toksOf r

/-- split on unescaped commas, keeping the escape characters -/
def splitCommasAux : Bytes → Bytes → Bool → List Bytes
  | [], cur, _ => [cur.reverse]
  | c :: r, cur, esc =>
    if esc then splitCommasAux r (c :: cur) false
    else if c = cBackslash then splitCommasAux r (c :: cur) true
    else if c = cComma then cur.reverse :: splitCommasAux r [] false
    else splitCommasAux r (c :: cur) false

def splitCommas (p : Bytes) : List Bytes := splitCommasAux p [] false

/-- whole-string match of a token list -/
def matchToks : List Tok → Bytes → Bool
  | [], s => s.isEmpty
  | .lit c :: r, s =>
    match s with
    | [] => false
    | x :: s' => x == c && matchToks r s'
  | .any :: r, s =>
    match s with
    | [] => false
    | _ :: s' => matchToks r s'
  | .star :: r, s =>
    matchToks r s ||
    (match s with
     | [] => false
     | _ :: s' => matchToks (.star :: r) s')
termination_by ts s => (ts.length, s.length)

/-- `StringMatcher(pattern).Match(s)` on the fragment -/
def globMatch (p s : Bytes) : Bool := (splitCommas p).any (fun alt => matchToks (toksOf alt) s)

/-- `IsRegexToken(c, isFirst)` -/
def isRegexToken (c : UInt8) (isFirst : Bool) : Bool :=
  c = 91 || c = 93 || c = 42 || c = 63 || c = 92 || c = 44 || c = 124 || c = 40 || c = 41 ||
  c = 61 || c = 94 || c = 43 || c = 36 || c = 123 || c = 125 ||
  ((c = 60 || c = 126) && isFirst)

/-- `CanWildcardStringMatchMultipleValues(str, &onlyCommas)` → (canMatchMultiple, onlySpecialCharIsCommas) -/
def cwsmmvAux : Bytes → Bool → Bool → Bool → Option Bool
  -- returns none = "return true" early (a non-comma special character), some sawComma otherwise
  | [], _, _, saw => some saw
  | c :: r, first, prevEsc, saw =>
    let isEsc := c = cBackslash && !prevEsc
    if !isEsc && c ≠ 45 && !prevEsc && isRegexToken c first then
      (if c = cComma then cwsmmvAux r false isEsc true else none)
    else cwsmmvAux r false isEsc saw

def canMatchMultiple (p : Bytes) : Bool × Bool :=
  match p with
  | 96 :: _ => (true, false)
  | _ => match cwsmmvAux p true false false with
    | none => (true, false)
    | some saw => (saw, saw)

/-- `IsPatternUnique()` (no ranges, no negation in the fragment) -/
def isUnique (p : Bytes) : Bool := !(canMatchMultiple p).1
/-- `IsPatternListOfUniqueValues()` -/
def isUVList (p : Bytes) : Bool := (canMatchMultiple p).2

/-- `RemoveEscapeChars` -/
def unescapeAux : Bytes → Bool → Bytes
  | [], _ => []
  | c :: r, lastEsc =>
    let isEsc := c = cBackslash
    if lastEsc || !isEsc then c :: unescapeAux r (isEsc && !lastEsc) else unescapeAux r (isEsc && !lastEsc)

def unescape (p : Bytes) : Bytes := unescapeAux p false

/-- split a path string on '/' (`PutPathString` clause loop) -/
def splitSlashAux : Bytes → Bytes → List Bytes
  | [], cur => [cur.reverse]
  | c :: r, cur => if c = cSlash then cur.reverse :: splitSlashAux r [] else splitSlashAux r (c :: cur)

def splitSlash (p : Bytes) : List Bytes := splitSlashAux p []

def joinSlash : List Bytes → Bytes
  | [] => []
  | [x] => x
  | x :: r => x ++ (cSlash :: joinSlash r)

end Muscle.Reflector
