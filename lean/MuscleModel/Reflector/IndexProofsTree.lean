import MuscleModel.Reflector.IndexProofsInstr

/-!
# C13 tree lemmas: `findKid`/`putKid`/`removeKid`, `nodeAt` after `updateAt`, `AllNodes`
-/

set_option linter.unusedSimpArgs false
set_option linter.unusedVariables false

namespace Muscle.Reflector
open Muscle

/-! ## field accessors of the setters -/

@[simp] theorem Node.setData_name (n : Node) (v) : (n.setData v).name = n.name := by cases n; rfl
@[simp] theorem Node.setData_data (n : Node) (v) : (n.setData v).data = v := by cases n; rfl
@[simp] theorem Node.setData_kids (n : Node) (v) : (n.setData v).kids = n.kids := by cases n; rfl
@[simp] theorem Node.setData_index (n : Node) (v) : (n.setData v).index = n.index := by cases n; rfl
@[simp] theorem Node.setData_ctr (n : Node) (v) : (n.setData v).ctr = n.ctr := by cases n; rfl
@[simp] theorem Node.setData_subs (n : Node) (v) : (n.setData v).subs = n.subs := by cases n; rfl
@[simp] theorem Node.setKids_name (n : Node) (v) : (n.setKids v).name = n.name := by cases n; rfl
@[simp] theorem Node.setKids_data (n : Node) (v) : (n.setKids v).data = n.data := by cases n; rfl
@[simp] theorem Node.setKids_kids (n : Node) (v) : (n.setKids v).kids = v := by cases n; rfl
@[simp] theorem Node.setKids_index (n : Node) (v) : (n.setKids v).index = n.index := by cases n; rfl
@[simp] theorem Node.setKids_ctr (n : Node) (v) : (n.setKids v).ctr = n.ctr := by cases n; rfl
@[simp] theorem Node.setKids_subs (n : Node) (v) : (n.setKids v).subs = n.subs := by cases n; rfl
@[simp] theorem Node.setIndex_name (n : Node) (v) : (n.setIndex v).name = n.name := by cases n; rfl
@[simp] theorem Node.setIndex_data (n : Node) (v) : (n.setIndex v).data = n.data := by cases n; rfl
@[simp] theorem Node.setIndex_kids (n : Node) (v) : (n.setIndex v).kids = n.kids := by cases n; rfl
@[simp] theorem Node.setIndex_index (n : Node) (v) : (n.setIndex v).index = v := by cases n; rfl
@[simp] theorem Node.setIndex_ctr (n : Node) (v) : (n.setIndex v).ctr = n.ctr := by cases n; rfl
@[simp] theorem Node.setIndex_subs (n : Node) (v) : (n.setIndex v).subs = n.subs := by cases n; rfl
@[simp] theorem Node.setCtr_name (n : Node) (v) : (n.setCtr v).name = n.name := by cases n; rfl
@[simp] theorem Node.setCtr_data (n : Node) (v) : (n.setCtr v).data = n.data := by cases n; rfl
@[simp] theorem Node.setCtr_kids (n : Node) (v) : (n.setCtr v).kids = n.kids := by cases n; rfl
@[simp] theorem Node.setCtr_index (n : Node) (v) : (n.setCtr v).index = n.index := by cases n; rfl
@[simp] theorem Node.setCtr_ctr (n : Node) (v) : (n.setCtr v).ctr = v := by cases n; rfl
@[simp] theorem Node.setCtr_subs (n : Node) (v) : (n.setCtr v).subs = n.subs := by cases n; rfl
@[simp] theorem Node.setSubs_name (n : Node) (v) : (n.setSubs v).name = n.name := by cases n; rfl
@[simp] theorem Node.setSubs_data (n : Node) (v) : (n.setSubs v).data = n.data := by cases n; rfl
@[simp] theorem Node.setSubs_kids (n : Node) (v) : (n.setSubs v).kids = n.kids := by cases n; rfl
@[simp] theorem Node.setSubs_index (n : Node) (v) : (n.setSubs v).index = n.index := by cases n; rfl
@[simp] theorem Node.setSubs_ctr (n : Node) (v) : (n.setSubs v).ctr = n.ctr := by cases n; rfl
@[simp] theorem Node.setSubs_subs (n : Node) (v) : (n.setSubs v).subs = v := by cases n; rfl
@[simp] theorem Node.fresh_name (nm : Bytes) (d : Option Nat) : (Node.fresh nm d).name = nm := rfl
@[simp] theorem Node.fresh_data (nm : Bytes) (d : Option Nat) : (Node.fresh nm d).data = d := rfl
@[simp] theorem Node.fresh_kids (nm : Bytes) (d : Option Nat) : (Node.fresh nm d).kids = [] := rfl
@[simp] theorem Node.fresh_index (nm : Bytes) (d : Option Nat) : (Node.fresh nm d).index = [] := rfl
@[simp] theorem Node.fresh_ctr (nm : Bytes) (d : Option Nat) : (Node.fresh nm d).ctr = 0 := rfl
@[simp] theorem Node.fresh_subs (nm : Bytes) (d : Option Nat) : (Node.fresh nm d).subs = [] := rfl

/-! ## children -/

theorem findKid_some_name {nm : Bytes} {ks : List Node} {k : Node} (h : findKid nm ks = some k) : k.name = nm := by
  induction ks with
  | nil => simp [findKid] at h
  | cons x r ih =>
    simp only [findKid] at h
    split at h
    · cases h; assumption
    · exact ih h

theorem findKid_some_mem {nm : Bytes} {ks : List Node} {k : Node} (h : findKid nm ks = some k) : k ∈ ks := by
  induction ks with
  | nil => simp [findKid] at h
  | cons x r ih =>
    simp only [findKid] at h
    split at h
    · cases h; simp
    · exact List.mem_cons_of_mem _ (ih h)

theorem ix_findKid_putKid_same (c : Node) (ks : List Node) : findKid c.name (putKid c ks) = some c := by
  induction ks with
  | nil => simp [putKid, findKid]
  | cons x r ih =>
    simp only [putKid]
    split
    · simp [findKid]
    · rename_i h; simp [findKid, h, ih]

theorem ix_findKid_putKid_ne {nm : Bytes} (c : Node) (ks : List Node) (h : c.name ≠ nm) :
    findKid nm (putKid c ks) = findKid nm ks := by
  induction ks with
  | nil => simp [putKid, findKid, h]
  | cons x r ih =>
    simp only [putKid]
    split
    · rename_i hx
      have : x.name ≠ nm := by rw [hx]; exact h
      simp [findKid, h, this]
    · simp [findKid, ih]

theorem findKid_putKid_isSome {nm : Bytes} (c : Node) {ks : List Node} (h : (findKid nm ks).isSome) :
    (findKid nm (putKid c ks)).isSome := by
  by_cases hc : c.name = nm
  · subst hc; simp [ix_findKid_putKid_same]
  · rw [ix_findKid_putKid_ne c ks hc]; exact h

/-- replacing a child by one of the same name does not change which names exist -/
theorem findKid_putKid_isSome_eq {nm : Bytes} (c : Node) {ks : List Node} (hc : (findKid c.name ks).isSome) :
    (findKid nm (putKid c ks)).isSome = (findKid nm ks).isSome := by
  by_cases h : c.name = nm
  · subst h; simp [ix_findKid_putKid_same, hc]
  · rw [ix_findKid_putKid_ne c ks h]

theorem ix_findKid_removeKid_ne {nm key : Bytes} (ks : List Node) (h : nm ≠ key) :
    findKid nm (removeKid key ks) = findKid nm ks := by
  induction ks with
  | nil => simp [removeKid]
  | cons x r ih =>
    simp only [removeKid]
    split
    · rename_i hx
      have : x.name ≠ nm := by rw [hx]; exact fun e => h e.symm
      simp [findKid, this]
    · simp [findKid, ih]

theorem mem_putKid {c k : Node} {ks : List Node} (h : k ∈ putKid c ks) : k = c ∨ k ∈ ks := by
  induction ks with
  | nil => simp [putKid] at h; exact Or.inl h
  | cons x r ih =>
    simp only [putKid] at h
    split at h
    · simp only [List.mem_cons] at h ⊢
      rcases h with h | h
      · exact Or.inl h
      · exact Or.inr (Or.inr h)
    · simp only [List.mem_cons] at h ⊢
      rcases h with h | h
      · exact Or.inr (Or.inl h)
      · rcases ih h with h | h
        · exact Or.inl h
        · exact Or.inr (Or.inr h)

theorem mem_removeKid {nm : Bytes} {k : Node} {ks : List Node} (h : k ∈ removeKid nm ks) : k ∈ ks := by
  induction ks with
  | nil => simp [removeKid] at h
  | cons x r ih =>
    simp only [removeKid] at h
    split at h
    · exact List.mem_cons_of_mem _ h
    · simp only [List.mem_cons] at h ⊢
      rcases h with h | h
      · exact Or.inl h
      · exact Or.inr (ih h)

/-! ## `updateAt` / `nodeAt` -/

theorem ix_updateAt_nil (fuel : Nat) (n : Node) (f : Node → Node) : updateAt fuel n [] f = f n := by
  cases fuel <;> rfl

theorem ix_nodeAt_nil (fuel : Nat) (n : Node) : nodeAt fuel n [] = some n := by
  cases fuel <;> rfl

theorem ix_updateAt_name {f : Node → Node} (hf : ∀ n, (f n).name = n.name) (fuel : Nat) (n : Node) (path : List Bytes) :
    (updateAt fuel n path f).name = n.name := by
  cases path with
  | nil => rw [ix_updateAt_nil]; exact hf n
  | cons a r =>
    cases fuel with
    | zero => rfl
    | succ fuel =>
      simp only [updateAt]
      split
      · rfl
      · simp

/-- a step into a non-empty path changes neither the node's own fields nor the set of child names -/
theorem updateAt_cons_index (f : Node → Node) (fuel : Nat) (n : Node) (a : Bytes) (r : List Bytes) :
    (updateAt fuel n (a :: r) f).index = n.index := by
  cases fuel with
  | zero => rfl
  | succ fuel =>
    simp only [updateAt]
    split <;> simp

theorem updateAt_cons_findKid {f : Node → Node} (hf : ∀ n, (f n).name = n.name) (fuel : Nat) (n : Node)
    (a : Bytes) (r : List Bytes) (c : Bytes) :
    (findKid c (updateAt fuel n (a :: r) f).kids).isSome = (findKid c n.kids).isSome := by
  cases fuel with
  | zero => rfl
  | succ fuel =>
    simp only [updateAt]
    split
    · rfl
    · rename_i k hk
      simp only [Node.setKids_kids]
      apply findKid_putKid_isSome_eq
      rw [ix_updateAt_name hf, findKid_some_name hk, hk]; rfl

/-- the node at a prefix of the updated path: the same node, updated along the rest of the path -/
theorem nodeAt_updateAt_append {f : Node → Node} (hf : ∀ n, (f n).name = n.name) (fuel : Nat) (n : Node)
    (pre ext : List Bytes) :
    nodeAt fuel (updateAt fuel n (pre ++ ext) f) pre =
      (nodeAt fuel n pre).map (fun p => updateAt (fuel - pre.length) p ext f) := by
  induction pre generalizing fuel n with
  | nil => simp [ix_nodeAt_nil]
  | cons a r ih =>
    cases fuel with
    | zero => simp [updateAt, nodeAt]
    | succ fuel =>
      simp only [List.cons_append, updateAt, nodeAt]
      cases hk : findKid a n.kids with
      | none => simp [hk]
      | some k =>
        simp only [Node.setKids_kids]
        have hn : (updateAt fuel k (r ++ ext) f).name = a := by
          rw [ix_updateAt_name hf, findKid_some_name hk]
        have := ix_findKid_putKid_same (updateAt fuel k (r ++ ext) f) n.kids
        rw [hn] at this
        rw [this]
        simp only [ih, List.length_cons, Nat.add_sub_add_right]

theorem ix_nodeAt_updateAt_same {f : Node → Node} (hf : ∀ n, (f n).name = n.name) (fuel : Nat) (n : Node)
    (path : List Bytes) :
    nodeAt fuel (updateAt fuel n path f) path = (nodeAt fuel n path).map f := by
  have := nodeAt_updateAt_append hf fuel n path []
  simpa [ix_updateAt_nil] using this

theorem nodeAt_snoc {fuel : Nat} {n : Node} {pre : List Bytes} {k : Bytes} {c : Node}
    (h : nodeAt fuel n (pre ++ [k]) = some c) :
    ∃ p, nodeAt fuel n pre = some p ∧ findKid k p.kids = some c := by
  induction pre generalizing fuel n with
  | nil =>
    cases fuel with
    | zero => simp [nodeAt] at h
    | succ fuel =>
      simp only [List.nil_append, nodeAt] at h
      cases hk : findKid k n.kids with
      | none => simp [hk] at h
      | some k' =>
        simp only [hk, ix_nodeAt_nil] at h
        exact ⟨n, rfl, by rw [hk, h]⟩
  | cons a r ih =>
    cases fuel with
    | zero => simp [nodeAt] at h
    | succ fuel =>
      simp only [List.cons_append, nodeAt] at h ⊢
      cases hk : findKid a n.kids with
      | none => simp [hk] at h
      | some k' =>
        simp only [hk] at h ⊢
        exact ih h

/-! ## `AllNodes` -/

theorem AllNodes.here {P : Node → Prop} {n : Node} (h : AllNodes P n) : P n := by
  cases h; assumption

theorem AllNodes.kid {P : Node → Prop} {n : Node} (h : AllNodes P n) : ∀ k ∈ n.kids, AllNodes P k := by
  cases h; assumption

theorem AllNodes.nodeAt {P : Node → Prop} {fuel : Nat} {n : Node} {path : List Bytes} {t : Node}
    (h : AllNodes P n) (ht : nodeAt fuel n path = some t) : AllNodes P t := by
  induction path generalizing fuel n with
  | nil => rw [ix_nodeAt_nil] at ht; cases ht; exact h
  | cons a r ih =>
    cases fuel with
    | zero => simp [Reflector.nodeAt] at ht
    | succ fuel =>
      simp only [Reflector.nodeAt] at ht
      cases hk : findKid a n.kids with
      | none => simp [hk] at ht
      | some k =>
        simp only [hk] at ht
        exact ih (h.kid k (findKid_some_mem hk)) ht

/-- `P` survives an update below a node when it is insensitive to replacing a child by a same-named one
    and the update itself re-establishes it at the target -/
theorem AllNodes.updateAt {P : Node → Prop} {f : Node → Node} (hf : ∀ n, (f n).name = n.name)
    (hstable : ∀ n c, P n → P (n.setKids (putKid c n.kids)))
    (fuel : Nat) (n : Node) (path : List Bytes) (h : AllNodes P n)
    (ht : ∀ t, Reflector.nodeAt fuel n path = some t → AllNodes P t → AllNodes P (f t)) :
    AllNodes P (Reflector.updateAt fuel n path f) := by
  induction path generalizing fuel n with
  | nil => rw [ix_updateAt_nil]; exact ht n (ix_nodeAt_nil _ _) h
  | cons a r ih =>
    cases fuel with
    | zero => exact h
    | succ fuel =>
      simp only [Reflector.updateAt]
      cases hk : findKid a n.kids with
      | none => exact h
      | some k =>
        simp only
        refine AllNodes.mk _ (hstable _ _ h.here) ?_
        intro x hx
        simp only [Node.setKids_kids] at hx
        rcases mem_putKid hx with hx | hx
        · subst hx
          apply ih fuel k (h.kid k (findKid_some_mem hk))
          intro t ht'
          apply ht
          simp only [Reflector.nodeAt, hk]
          exact ht'
        · exact h.kid x hx

/-! ## `IdxInv` basics -/

theorem IdxInv.putKid {n : Node} (c : Node) (h : IdxInv n) : IdxInv (n.setKids (putKid c n.kids)) := by
  refine ⟨by simpa using h.1, ?_⟩
  intro x hx
  simp only [Node.setKids_index] at hx
  simp only [Node.setKids_kids]
  exact findKid_putKid_isSome c (h.2 x hx)

theorem IdxInv.fresh (nm : Bytes) (d : Option Nat) : IdxInv (Node.fresh nm d) := by
  refine ⟨by simp, ?_⟩
  intro c hc; simp at hc

theorem findKid_none_not_mem {nm : Bytes} {ks : List Node} (h : findKid nm ks = none) : nm ∉ ks.map Node.name := by
  induction ks with
  | nil => simp
  | cons x r ih =>
    simp only [findKid] at h
    split at h
    · cases h
    · rename_i hx
      simp only [List.map_cons, List.mem_cons, not_or]
      exact ⟨fun e => hx e.symm, ih h⟩

theorem ix_map_name_putKid (c : Node) (ks : List Node) :
    (putKid c ks).map Node.name =
      if (findKid c.name ks).isSome then ks.map Node.name else ks.map Node.name ++ [c.name] := by
  induction ks with
  | nil => simp [putKid, findKid]
  | cons x r ih =>
    simp only [putKid, findKid]
    by_cases hx : x.name = c.name
    · simp [hx]
    · simp only [hx, if_false, List.map_cons, ih]
      split <;> simp

theorem KidsDistinct.putKid {n : Node} (c : Node) (h : KidsDistinct n) :
    KidsDistinct (n.setKids (Reflector.putKid c n.kids)) := by
  unfold KidsDistinct at *
  simp only [Node.setKids_kids, ix_map_name_putKid]
  split
  · exact h
  · rename_i hf
    have hnone : findKid c.name n.kids = none := by
      cases hh : findKid c.name n.kids with
      | none => rfl
      | some k => simp [hh] at hf
    rw [List.nodup_append]
    refine ⟨h, by simp, ?_⟩
    intro a ha b hb
    simp only [List.mem_singleton] at hb
    subst hb
    intro e; subst e
    exact findKid_none_not_mem hnone ha

theorem removeKid_sublist (nm : Bytes) (ks : List Node) : (removeKid nm ks).Sublist ks := by
  induction ks with
  | nil => simp [removeKid]
  | cons x r ih =>
    simp only [removeKid]
    split
    · exact List.sublist_cons_self x r
    · exact List.Sublist.cons_cons x ih

theorem KidsDistinct.removeKid {n : Node} (key : Bytes) (h : KidsDistinct n) :
    KidsDistinct (n.setKids (Reflector.removeKid key n.kids)) := by
  unfold KidsDistinct at *
  simp only [Node.setKids_kids]
  exact List.Sublist.nodup (List.Sublist.map _ (removeKid_sublist key n.kids)) h

theorem NodeInv.putKid {n : Node} (c : Node) (h : NodeInv n) : NodeInv (n.setKids (Reflector.putKid c n.kids)) :=
  ⟨IdxInv.putKid c h.1, KidsDistinct.putKid c h.2⟩

theorem NodeInv.fresh (nm : Bytes) (d : Option Nat) : NodeInv (Node.fresh nm d) :=
  ⟨IdxInv.fresh nm d, by simp [KidsDistinct]⟩

theorem AllNodes.fresh (nm : Bytes) (d : Option Nat) : AllNodes NodeInv (Node.fresh nm d) :=
  AllNodes.mk _ (NodeInv.fresh nm d) (by intro k hk; simp at hk)

theorem IdxInv.of_same {p q : Node} (hi : q.index = p.index)
    (hk : ∀ c, (findKid c q.kids).isSome = (findKid c p.kids).isSome) (h : IdxInv p) : IdxInv q := by
  refine ⟨by rw [hi]; exact h.1, ?_⟩
  intro c hc
  rw [hi] at hc
  rw [hk]; exact h.2 c hc

end Muscle.Reflector
