import MuscleModel.Reflector.MirrorProofs3

/-!
# C04 lemmas, part 4: the marking invariant `MK` under the tree primitives and the data handlers
(`SetDataNode`, `InsertOrderedChild`, `ReorderChild`, `RemoveChild`, REMOVEDATA, INSERTORDEREDDATA, REORDERDATA,
`DoGetData`, client-to-client routing)
-/

set_option linter.unusedSimpArgs false
set_option linter.unusedVariables false

namespace Muscle.Reflector
open Muscle

theorem SessOK.of_skel {a b : Server} (h : skel b = skel a) (hs : SessOK a) : SessOK b := by
  have h1 : b.nextSid = a.nextSid := congrArg Prod.fst h
  have h2 : sessKeys b = sessKeys a := congrArg Prod.snd h
  exact ⟨by rw [h2]; exact hs.nodup, by rw [h1, h2]; exact hs.bound, by rw [h2]; exact hs.wf⟩

theorem MK.of_same {a b : Server} (hr : b.root = a.root) (hk : skel b = skel a) (h : MK a) : MK b := by
  have h2 : sessKeys b = sessKeys a := congrArg Prod.snd hk
  exact ⟨h.1.of_skel hk, by rw [hr, h2]; exact h.2⟩

theorem MK.notifyChanged {sv : Server} (by_ : Nat) (names : List Bytes) (node : Node) (od : Option (Option Nat))
    (removed : Bool) (h : MK sv) : MK (notifyChanged sv by_ names node od removed) :=
  h.of_same (by simp) (by simp)

theorem MK.notifyIndex {sv : Server} (names : List Bytes) (node : Node) (instr : Bytes) (h : MK sv) :
    MK (notifyIndex sv names node instr) :=
  h.of_same (by simp) (by simp)

theorem MK.pushAll {sv : Server} (h : MK sv) : MK (pushAll sv) := h.of_same (by simp) (by simp)

theorem MK.deliver {sv : Server} (sid : Nat) (w : String) (h : MK sv) : MK (sv.deliver sid w) :=
  h.of_same (by simp) (by simp)

theorem MK.nodeChangedAux {sv : Server} (sid : Nat) (np : Bytes) (d : Option Nat) (removed : Bool) (h : MK sv) :
    MK (nodeChangedAux sv sid np d removed) :=
  h.of_same (by simp) (by simp)

theorem MK.updSess_keep {sv : Server} (sid : Nat) (f : Sess → Sess)
    (hf : ∀ t, (f t).sid = t.sid ∧ (f t).subs = t.subs) (h : MK sv) : MK (sv.updSess sid f) :=
  MK.of_same (a := sv) rfl (mr_skel_updSess sv sid f hf) h

theorem MK.setField {sv : Server} (path : List Bytes) (f : Node → Node)
    (hname : ∀ n, (f n).name = n.name) (hkids : ∀ n, (f n).kids = n.kids) (hsubs : ∀ n, (f n).subs = n.subs)
    (h : MK sv) : MK (setNode sv path f) :=
  ⟨h.1.of_skel (mr_skel_setNode ..), mr_marks_setField path f hname hkids hsubs h.2⟩

theorem MK.putChild {sv : Server} (by_ : Nat) (parent : List Bytes) (child : Node) (notify : Bool)
    (hc : child.kids = []) (h : MK sv) : MK (putChild sv by_ parent child notify) := by
  have core : MK (setNode sv parent (fun p => p.setKids (putKid
      (child.setSubs (marksForNewNode sv (parent ++ [child.name]))) p.kids))) := by
    refine ⟨h.1.of_skel (mr_skel_setNode ..), ?_⟩
    intro v n' hv hn'
    rcases mr_nodeAt_putKid parent (child.setSubs (marksForNewNode sv (parent ++ [child.name]))) hc v n' hn' with
      ⟨hv', hn⟩ | ⟨n, hn, hs, _⟩
    · subst hn
      rw [hv']
      refine ⟨fun sid => ?_, mr_marksForNewNode_tab sv _⟩
      exact mr_marksForNewNode sv h.1.nodup _ sid
    · rw [← hs]; exact h.2 v n hv hn
  unfold Reflector.putChild
  simp only []
  split
  · exact core.notifyChanged ..
  · exact core

/-- peel known primitives off the outside of the target state of an `MK` goal -/
macro "mk_chain" : tactic => `(tactic| repeat (first
  | assumption
  | apply MK.notifyChanged
  | apply MK.notifyIndex
  | apply MK.deliver
  | apply MK.pushAll
  | apply MK.nodeChangedAux
  | apply MK.updSess_keep _ _ (by intro _; exact ⟨rfl, rfl⟩)
  | apply MK.setField _ _ (by intro _; rfl) (by intro _; rfl) (by intro _; rfl)
  | apply MK.putChild _ _ _ _ rfl))

theorem MK.removeIndexEntry {sv : Server} (parent : List Bytes) (key : Bytes) (notify : Bool) (h : MK sv) :
    MK (removeIndexEntry sv parent key notify) := by
  unfold Reflector.removeIndexEntry
  repeat' (first | split | simp only [])
  all_goals mk_chain

theorem MK.insertOrderedChild {sv : Server} (by_ : Nat) (parent : List Bytes) (d : Option Nat) (before name : Bytes)
    (nc : Bool) (h : MK sv) : MK (insertOrderedChild sv by_ parent d before name nc) := by
  unfold Reflector.insertOrderedChild
  split
  · exact h
  · simp only []
    repeat' split
    all_goals mk_chain

theorem MK.reorderChild {sv : Server} (parent : List Bytes) (child before : Bytes) (h : MK sv) :
    MK (reorderChild sv parent child before) := by
  unfold Reflector.reorderChild
  split
  · exact h
  · split
    · exact h
    · split
      · exact h
      · repeat' (first | split | simp only [])
        all_goals first
          | exact h.removeIndexEntry ..
          | (have := h.removeIndexEntry parent child true; mk_chain)

/-- the same with the index primitives -/
macro "mk_chain2" : tactic => `(tactic| repeat (first
  | assumption
  | apply MK.notifyChanged
  | apply MK.notifyIndex
  | apply MK.deliver
  | apply MK.pushAll
  | apply MK.nodeChangedAux
  | apply MK.updSess_keep _ _ (by intro _; exact ⟨rfl, rfl⟩)
  | apply MK.setField _ _ (by intro _; rfl) (by intro _; rfl) (by intro _; rfl)
  | apply MK.putChild _ _ _ _ rfl
  | apply MK.insertOrderedChild
  | apply MK.removeIndexEntry
  | apply MK.reorderChild))

/-! ## `SetDataNode` -/

theorem MK.setDataClauses (by_ : Nat) (d : Option Nat) (ati : Bool) :
    ∀ (cls : List Bytes) (sv : Server) (cur : List Bytes), MK sv → MK (setDataClauses by_ d ati sv cur cls) := by
  intro cls
  induction cls with
  | nil => intro sv cur h; simp only [Reflector.setDataClauses]; exact h
  | cons cl rest ih =>
    intro sv cur h
    simp only [Reflector.setDataClauses]
    split
    · exact h
    · split
      · apply ih
        repeat' (first | split | simp only [])
        all_goals mk_chain2
      · apply ih
        repeat' (first | split | simp only [])
        all_goals mk_chain2

theorem MK.setDataNode {sv : Server} (by_ : Nat) (path : Bytes) (d : Option Nat) (ati : Bool) (h : MK sv) :
    MK (setDataNode sv by_ path d ati) := by
  unfold Reflector.setDataNode
  repeat' split
  all_goals first | exact h | exact MK.setDataClauses _ _ _ _ _ _ h

/-! ## removal -/

theorem MK.removeKid {sv : Server} (hti : TreeInv sv) (parent : List Bytes) (key : Bytes) (h : MK sv) :
    MK (setNode sv parent (fun p => p.setKids (removeKid key p.kids))) := by
  refine ⟨h.1.of_skel (mr_skel_setNode ..), ?_⟩
  apply mr_marks_of_sub h.2
  intro v n' _ hn'
  obtain ⟨_, n, hn, hs, _⟩ := mr_nodeAt_removeKid hti parent key v n' hn'
  exact ⟨n, hn, hs⟩

/-- `TreeInv` together with `MK` -/
def MKT (sv : Server) : Prop := TreeInv sv ∧ MK sv

theorem MKT.removeOne {sv : Server} (by_ : Nat) (notify : Bool) (names : List Bytes) (h : MKT sv) :
    MKT (removeOne sv by_ notify names) := by
  refine ⟨treeInv_removeOne by_ notify names h.1, ?_⟩
  unfold Reflector.removeOne
  split
  · simp only []
    have h1 : MK (removeIndexEntry sv names.dropLast ‹Bytes› notify) := h.2.removeIndexEntry ..
    have t1 : TreeInv (removeIndexEntry sv names.dropLast ‹Bytes› notify) := treeInv_removeIndexEntry _ _ _ h.1
    apply MK.removeKid
    · split
      · split
        · exact treeInv_of_root (by simp) t1
        · exact t1
      · exact t1
    · split
      · split
        · exact h1.notifyChanged ..
        · exact h1
      · exact h1
  · exact h.2

theorem MKT.removeChild {sv : Server} (by_ : Nat) (notify : Bool) (names : List Bytes) (h : MKT sv) :
    MKT (removeChild sv by_ notify names) := by
  unfold Reflector.removeChild
  split
  · exact h
  · exact foldl_inv MKT _ (fun sv nm hsv => hsv.removeOne by_ notify nm) _ _ h

theorem MKT.removeData {sv : Server} (sid : Nat) (keys : List Bytes) (h : MKT sv) : MKT (removeData sv sid keys) := by
  unfold Reflector.removeData
  split
  · exact h
  · simp only []
    exact foldl_inv MKT _ (fun sv v hsv => hsv.removeChild sid true v) _ _ h

/-! ## the other data handlers -/

theorem MK.insertOrdered {sv : Server} (sid : Nat) (key before : Bytes) (vals : List Nat) (h : MK sv) :
    MK (insertOrdered sv sid key before vals) := by
  unfold Reflector.insertOrdered
  split
  · exact h
  · simp only []
    apply foldl_inv MK _ _ _ _ h
    intro sv1 v h1
    apply foldl_inv MK _ _ _ _ h1
    intro sv2 x h2
    mk_chain2

theorem MK.reorderCore {sv : Server} (sid : Nat) (key before : Bytes) (h : MK sv) : MK (reorderCore sv sid key before) := by
  unfold Reflector.reorderCore
  split
  · exact h
  · simp only []
    apply foldl_inv MK _ _ _ _ h
    intro sv1 v h1
    repeat' split
    all_goals first | exact h1 | exact h1.reorderChild ..

theorem MK.reorder {sv : Server} (sid : Nat) (key before : Bytes) (h : MK sv) : MK (reorder sv sid key before) := by
  unfold Reflector.reorder
  simp only []
  split
  · exact h.reorderCore sid key before
  · split
    · exact (h.reorderCore sid key before).updSess_keep _ _ (by intro _; exact ⟨rfl, rfl⟩)
    · exact h.reorderCore sid key before

theorem mr_skel_doGetData (sv : Server) (sid : Nat) (keys : List (Bytes × Option Filt)) :
    skel (doGetData sv sid keys) = skel sv := by
  unfold doGetData
  split
  · rfl
  · simp only []
    generalize hfold : List.foldl _ _ _ = res
    have hres : skel res.1 = skel sv := by
      rw [← hfold]
      apply ix_foldl_inv (I := fun (st : Server × UpdMsg × IdxMsg) => skel st.1 = skel sv)
      · intro st v hst
        obtain ⟨sv', dm, im⟩ := st
        simp only at hst ⊢
        repeat' split
        all_goals simp_all
      · rfl
    obtain ⟨sv', dm, im⟩ := res
    simp only at hres ⊢
    repeat' split
    all_goals simp [hres]

theorem MK.doGetData {sv : Server} (sid : Nat) (keys : List (Bytes × Option Filt)) (h : MK sv) :
    MK (doGetData sv sid keys) :=
  h.of_same (doGetData_root sv sid keys) (mr_skel_doGetData sv sid keys)

theorem mr_skel_route (sv : Server) (sid : Nat) (pm : PM) (what : String) : skel (route sv sid pm what) = skel sv := by
  unfold route
  split
  · rfl
  · simp only []
    apply mr_foldl_skel
    intro sv v
    repeat' split
    all_goals simp

theorem mr_skel_sendMsg (sv : Server) (sid tag : Nat) (keys : List Bytes) : skel (sendMsg sv sid tag keys) = skel sv := by
  unfold sendMsg
  split
  · rfl
  · simp only []
    split
    · exact mr_skel_route _ _ _ _
    · split
      · exact mr_skel_route _ _ _ _
      · apply mr_foldl_skel
        intro sv v
        split <;> simp

theorem MK.sendMsg {sv : Server} (sid tag : Nat) (keys : List Bytes) (h : MK sv) : MK (sendMsg sv sid tag keys) :=
  h.of_same (sendMsg_root sv sid tag keys) (mr_skel_sendMsg sv sid tag keys)

end Muscle.Reflector
