import MuscleModel.Reflector.MirrorProofs26

/-!
# C04 lemmas, part 27: the traversal with `GetDataCallback`, part 1

* congruence: a (sub)traversal depends on the callback only through its values on the proper extensions of `names`;
* `cbOwn = fun _ _ _ => (false, 2)` — what `GetDataCallback` answers on every node of the subscriber's own subtree: a
  (sub)traversal started at depth ≥ 2 records nothing and returns its own depth, or (from depth ≥ 3) unwinds to depth 2.
-/

set_option linter.unusedSimpArgs false
set_option linter.unusedVariables false

namespace Muscle.Reflector
open Muscle

/-- a context with another callback -/
def TCtx.withCb (ctx : TCtx) (cb : Visit → Nat → Node → Bool × Int) : TCtx := { ctx with cb := cb }

/-! ## congruence -/

theorem stepG_congr (ctx : TCtx) (cb' : Visit → Nat → Node → Bool × Int) (rec rec' : Rec) (child : Node) (cn : Visit)
    (depth : Nat) (hit : Bool) (e : Entry) (st : CState)
    (hcb : ctx.cb cn (depth + 1) child = cb' cn (depth + 1) child)
    (hrec : rec child cn (depth + 1) = rec' child cn (depth + 1)) :
    stepG ctx rec child cn depth hit e st = stepG (ctx.withCb cb') rec' child cn depth hit e st := by
  unfold stepG TCtx.withCb
  simp only [hcb, hrec]

theorem checkEntries_congr (ctx : TCtx) (cb' : Visit → Nat → Node → Bool × Int) (rec rec' : Rec) (child : Node) (cn : Visit)
    (depth : Nat) (known : Option Nat)
    (hcb : ctx.cb cn (depth + 1) child = cb' cn (depth + 1) child)
    (hrec : rec child cn (depth + 1) = rec' child cn (depth + 1)) :
    ∀ (es : List Entry) (idx : Nat) (st : CState),
      checkEntries ctx rec child cn depth known es idx st =
        checkEntries (ctx.withCb cb') rec' child cn depth known es idx st := by
  intro es
  induction es with
  | nil => intro idx st; rfl
  | cons e es ih =>
    intro idx st
    rw [checkEntries_cons, checkEntries_cons]
    split
    · rfl
    · have hrd : (ctx.withCb cb').rootDepth = ctx.rootDepth := rfl
      rw [hrd, ← stepG_congr ctx cb' rec rec' child cn depth _ e st hcb hrec]
      exact ih _ _

theorem checkChild_congr (ctx : TCtx) (cb' : Visit → Nat → Node → Bool × Int) (rec rec' : Rec) (k : Node) (names : Visit)
    (depth : Nat) (known : Option Nat)
    (hcb : ctx.cb (names ++ [k.name]) (depth + 1) k = cb' (names ++ [k.name]) (depth + 1) k)
    (hrec : rec k (names ++ [k.name]) (depth + 1) = rec' k (names ++ [k.name]) (depth + 1)) :
    checkChild ctx rec k names depth known = checkChild (ctx.withCb cb') rec' k names depth known := by
  unfold checkChild
  have h1 : (ctx.withCb cb').pm = ctx.pm := rfl
  have h2 : (ctx.withCb cb').rootDepth = ctx.rootDepth := rfl
  rw [h1, h2, checkEntries_congr ctx cb' rec rec' k _ depth known hcb hrec]

/-- the callbacks agree on every proper extension of `names` -/
def AgreeBelow (cb cb' : Visit → Nat → Node → Bool × Int) (names : Visit) : Prop :=
  ∀ cn d n, names <+: cn → names.length < cn.length → cb cn d n = cb' cn d n

theorem AgreeBelow.snoc {cb cb' : Visit → Nat → Node → Bool × Int} {names : Visit} (h : AgreeBelow cb cb' names) (x : Bytes) :
    AgreeBelow cb cb' (names ++ [x]) := by
  intro cn d n hp hl
  apply h cn d n ((List.prefix_append _ _).trans hp)
  simp at hl; omega

theorem AgreeBelow.child {cb cb' : Visit → Nat → Node → Bool × Int} {names : Visit} (h : AgreeBelow cb cb' names) (x : Bytes)
    (d : Nat) (n : Node) : cb (names ++ [x]) d n = cb' (names ++ [x]) d n :=
  h _ d n (List.prefix_append _ _) (by simp)

theorem travKids_congr (ctx : TCtx) (cb' : Visit → Nat → Node → Bool × Int) (rec rec' : Rec) (names : Visit) (depth : Nat)
    (hcb : AgreeBelow ctx.cb cb' names) (hrec : ∀ k, rec k (names ++ [k.name]) (depth + 1) = rec' k (names ++ [k.name]) (depth + 1)) :
    ∀ (kids : List Node) (acc : List Visit),
      travKids ctx rec names depth kids acc = travKids (ctx.withCb cb') rec' names depth kids acc := by
  intro kids
  induction kids with
  | nil => intro acc; rfl
  | cons k r ih =>
    intro acc
    rw [travKids, travKids, ← checkChild_congr ctx cb' rec rec' k names depth none (hcb.child _ _ _) (hrec k)]
    split
    · rfl
    · exact ih _

theorem lookupElems_congr (ctx : TCtx) (cb' : Visit → Nat → Node → Bool × Int) (rec rec' : Rec) (node : Node) (names : Visit)
    (depth idx : Nat) (hcb : AgreeBelow ctx.cb cb' names)
    (hrec : ∀ k, rec k (names ++ [k.name]) (depth + 1) = rec' k (names ++ [k.name]) (depth + 1)) :
    ∀ (els did : List Bytes) (acc : List Visit),
      lookupElems ctx rec node names depth idx els did acc =
        lookupElems (ctx.withCb cb') rec' node names depth idx els did acc := by
  intro els
  induction els with
  | nil => intro did acc; rfl
  | cons el els ih =>
    intro did acc
    rw [lookupElems, lookupElems]
    split
    · exact ih _ _
    · rename_i k _
      split
      · exact ih _ _
      · rw [← checkChild_congr ctx cb' rec rec' k names depth (some idx) (hcb.child _ _ _) (hrec k)]
        split
        · rfl
        · exact ih _ _

theorem travLookups_congr (ctx : TCtx) (cb' : Visit → Nat → Node → Bool × Int) (rec rec' : Rec) (node : Node) (names : Visit)
    (depth : Nat) (hcb : AgreeBelow ctx.cb cb' names)
    (hrec : ∀ k, rec k (names ++ [k.name]) (depth + 1) = rec' k (names ++ [k.name]) (depth + 1)) :
    ∀ (es : List Entry) (idx : Nat) (did : List Bytes) (acc : List Visit),
      travLookups ctx rec node names depth es idx did acc =
        travLookups (ctx.withCb cb') rec' node names depth es idx did acc := by
  intro es
  induction es with
  | nil => intro idx did acc; rfl
  | cons e es ih =>
    intro idx did acc
    rw [travLookups, travLookups]
    have h2 : (ctx.withCb cb').rootDepth = ctx.rootDepth := rfl
    rw [h2, ← lookupElems_congr ctx cb' rec rec' node names depth idx hcb hrec]
    split
    · rfl
    · exact ih _ _ _

theorem travLevel_congr (ctx : TCtx) (cb' : Visit → Nat → Node → Bool × Int) (rec rec' : Rec) (node : Node) (names : Visit)
    (depth : Nat) (hcb : AgreeBelow ctx.cb cb' names)
    (hrec : ∀ k, rec k (names ++ [k.name]) (depth + 1) = rec' k (names ++ [k.name]) (depth + 1)) :
    travLevel ctx rec node names depth = travLevel (ctx.withCb cb') rec' node names depth := by
  unfold travLevel
  have h1 : (ctx.withCb cb').pm = ctx.pm := rfl
  have h2 : (ctx.withCb cb').rootDepth = ctx.rootDepth := rfl
  simp only [h1, h2]
  split
  · exact travKids_congr ctx cb' rec rec' names depth hcb hrec _ _
  · exact travLookups_congr ctx cb' rec rec' node names depth hcb hrec _ _ _ _

theorem travAux_congr (ctx : TCtx) (cb' : Visit → Nat → Node → Bool × Int) :
    ∀ (fuel : Nat) (node : Node) (names : Visit) (depth : Nat), AgreeBelow ctx.cb cb' names →
      travAux ctx fuel node names depth = travAux (ctx.withCb cb') fuel node names depth := by
  intro fuel
  induction fuel with
  | zero => intros; rfl
  | succ fuel ih =>
    intro node names depth hcb
    rw [travAux, travAux]
    exact travLevel_congr ctx cb' _ _ node names depth hcb (fun k => ih k _ _ (hcb.snoc _))

/-! ## the constant callback of the own subtree -/

def cbOwn : Visit → Nat → Node → Bool × Int := fun _ _ _ => (false, 2)

/-- outcome of a (sub)traversal inside the own subtree -/
def Own (depth : Nat) (r : List Visit × Int) : Prop :=
  r.1 = [] ∧ (r.2 = (depth : Int) ∨ (3 ≤ depth ∧ r.2 = 2))

def OwnSt (depth : Nat) (st : CState) : Prop :=
  st.visits = [] ∧ (st.abort = none ∨ (3 ≤ depth ∧ st.abort = some 2))

theorem stepG_own (ctx : TCtx) (rec : Rec) (child : Node) (cn : Visit) (depth : Nat) (hit : Bool) (e : Entry)
    (hcb : ctx.cb = cbOwn) (hd : 2 ≤ depth) (hrec : Own (depth+1) (rec child cn (depth+1)))
    (st : CState) (hv : st.visits = []) (ha : st.abort = none) : OwnSt depth (stepG ctx rec child cn depth hit e st) := by
  obtain ⟨hr1, hr2⟩ := hrec
  unfold stepG
  simp only [hcb, cbOwn]
  split
  · exact ⟨hv, Or.inl ha⟩
  · split
    · split
      · exact ⟨hv, Or.inl ha⟩
      · split
        · simp only [Bool.false_eq_true, if_false]
          split
          · rename_i hlt
            refine ⟨hv, Or.inr ⟨by omega, rfl⟩⟩
          · exact ⟨hv, Or.inl ha⟩
        · exact ⟨hv, Or.inl ha⟩
    · split
      · exact ⟨hv, Or.inl ha⟩
      · generalize hres : rec child cn (depth + 1) = res at hr1 hr2
        obtain ⟨vs, nd⟩ := res
        simp only at hr1 hr2 ⊢
        subst hr1
        split
        · rename_i hlt
          refine ⟨by simp [hv], Or.inr ⟨?_, ?_⟩⟩
          · rcases hr2 with h | ⟨_, h⟩
            · rw [h] at hlt; omega
            · rw [h] at hlt; omega
          · rcases hr2 with h | ⟨_, h⟩
            · rw [h] at hlt; omega
            · rw [h]
        · exact ⟨by simp [hv], Or.inl ha⟩

theorem checkEntries_own (ctx : TCtx) (rec : Rec) (child : Node) (cn : Visit) (depth : Nat) (known : Option Nat)
    (hcb : ctx.cb = cbOwn) (hd : 2 ≤ depth) (hrec : Own (depth+1) (rec child cn (depth+1))) :
    ∀ (es : List Entry) (idx : Nat) (st : CState), OwnSt depth st →
      OwnSt depth (checkEntries ctx rec child cn depth known es idx st) := by
  intro es
  induction es with
  | nil => intro idx st h; exact h
  | cons e es ih =>
    intro idx st h
    rw [checkEntries_cons]
    split
    · exact h
    · rename_i hs
      apply ih
      have ha : st.abort = none := by
        cases hab : st.abort with
        | none => rfl
        | some x => simp [hab] at hs
      exact stepG_own ctx rec child cn depth _ e hcb hd hrec st h.1 ha

theorem checkChild_own (ctx : TCtx) (rec : Rec) (k : Node) (names : Visit) (depth : Nat) (known : Option Nat)
    (hcb : ctx.cb = cbOwn) (hd : 2 ≤ depth) (hrec : ∀ k n, Own (depth+1) (rec k n (depth+1))) :
    checkChild ctx rec k names depth known = ([], none) ∨
    (3 ≤ depth ∧ checkChild ctx rec k names depth known = ([], some 2)) := by
  have := checkEntries_own ctx rec k (names ++ [k.name]) depth known hcb hd (hrec _ _)
    (activeEntries ctx.pm (depth - ctx.rootDepth)) 0 {} ⟨rfl, Or.inl rfl⟩
  unfold checkChild
  obtain ⟨h1, h2⟩ := this
  rcases h2 with h2 | ⟨h3, h2⟩
  · left; simp [h1, h2]
  · right; exact ⟨h3, by simp [h1, h2]⟩

theorem travKids_own (ctx : TCtx) (rec : Rec) (names : Visit) (depth : Nat)
    (hcb : ctx.cb = cbOwn) (hd : 2 ≤ depth) (hrec : ∀ k n, Own (depth+1) (rec k n (depth+1))) :
    ∀ kids : List Node, Own depth (travKids ctx rec names depth kids []) := by
  intro kids
  induction kids with
  | nil => exact ⟨rfl, Or.inl rfl⟩
  | cons k r ih =>
    rw [travKids]
    rcases checkChild_own ctx rec k names depth none hcb hd hrec with h | ⟨h3, h⟩
    · rw [h]; simpa using ih
    · rw [h]; exact ⟨rfl, Or.inr ⟨h3, rfl⟩⟩

theorem lookupElems_own (ctx : TCtx) (rec : Rec) (node : Node) (names : Visit) (depth idx : Nat)
    (hcb : ctx.cb = cbOwn) (hd : 2 ≤ depth) (hrec : ∀ k n, Own (depth+1) (rec k n (depth+1))) :
    ∀ (els did : List Bytes),
      (∃ did', lookupElems ctx rec node names depth idx els did [] = ([], did', none)) ∨
      (3 ≤ depth ∧ ∃ did', lookupElems ctx rec node names depth idx els did [] = ([], did', some 2)) := by
  intro els
  induction els with
  | nil => intro did; left; exact ⟨did, rfl⟩
  | cons el els ih =>
    intro did
    rw [lookupElems]
    split
    · exact ih did
    · rename_i k _
      split
      · exact ih did
      · rcases checkChild_own ctx rec k names depth (some idx) hcb hd hrec with h | ⟨h3, h⟩
        · rw [h]; simpa using ih _
        · rw [h]; right; exact ⟨h3, did, by simp⟩

theorem travLookups_own (ctx : TCtx) (rec : Rec) (node : Node) (names : Visit) (depth : Nat)
    (hcb : ctx.cb = cbOwn) (hd : 2 ≤ depth) (hrec : ∀ k n, Own (depth+1) (rec k n (depth+1))) :
    ∀ (es : List Entry) (idx : Nat) (did : List Bytes),
      Own depth (travLookups ctx rec node names depth es idx did []) := by
  intro es
  induction es with
  | nil => intro idx did; exact ⟨rfl, Or.inl rfl⟩
  | cons e es ih =>
    intro idx did
    rw [travLookups]
    rcases lookupElems_own ctx rec node names depth idx hcb hd hrec
      (if isUVList ((e.clauses[depth - ctx.rootDepth]?).getD []) = true then
          (splitCommas ((e.clauses[depth - ctx.rootDepth]?).getD [])).filter (fun x => !x.isEmpty)
        else [(e.clauses[depth - ctx.rootDepth]?).getD []]) did with ⟨did', h⟩ | ⟨h3, did', h⟩
    · rw [h]; exact ih _ _
    · rw [h]; exact ⟨rfl, Or.inr ⟨h3, rfl⟩⟩

/-- inside the own subtree nothing is recorded; the traversal returns its depth or unwinds to depth 2 -/
theorem travAux_own (ctx : TCtx) (hcb : ctx.cb = cbOwn) :
    ∀ (fuel : Nat) (node : Node) (names : Visit) (depth : Nat), 2 ≤ depth →
      Own depth (travAux ctx fuel node names depth) := by
  intro fuel
  induction fuel with
  | zero => intro node names depth _; exact ⟨rfl, Or.inl rfl⟩
  | succ fuel ih =>
    intro node names depth hd
    rw [travAux]
    unfold travLevel
    simp only
    have hrec : ∀ k n, Own (depth+1) (travAux ctx fuel k n (depth+1)) := fun k n => ih k n (depth+1) (by omega)
    split
    · exact travKids_own ctx _ names depth hcb hd hrec _
    · exact travLookups_own ctx _ node names depth hcb hd hrec _ _ _

end Muscle.Reflector
