import MuscleModel.Reflector.IndexProofsReorder
import MuscleModel.Reflector.IndexProofsClone
import MuscleModel.Engines.Srv

/-!
# C13: `TreeInv` for every command of the engine (`runCmd`, `attach`, `detach`, `pushAll`) and every engine step
-/

set_option linter.unusedSimpArgs false
set_option linter.unusedVariables false

namespace Muscle.Reflector
open Muscle Muscle.Eng.SrvEngine

theorem ix_foldl_inv {α β} (f : β → α → β) (I : β → Prop) (hI : ∀ b x, I b → I (f b x)) (xs : List α) (b : β)
    (h : I b) : I (xs.foldl f b) := by
  induction xs generalizing b with
  | nil => exact h
  | cons x r ih => simp only [List.foldl_cons]; exact ih _ (hI b x h)

theorem doGetData_root (sv : Server) (sid : Nat) (keys : List (Bytes × Option Filt)) :
    (doGetData sv sid keys).root = sv.root := by
  unfold doGetData
  split
  · rfl
  · simp only []
    generalize hfold : List.foldl _ _ _ = res
    have hres : res.1.root = sv.root := by
      rw [← hfold]
      apply ix_foldl_inv (I := fun (st : Server × UpdMsg × IdxMsg) => st.1.root = sv.root)
      · intro st v hst
        obtain ⟨sv', dm, im⟩ := st
        simp only at hst ⊢
        repeat' split
        all_goals simp_all
      · rfl
    obtain ⟨sv', dm, im⟩ := res
    simp only at hres ⊢
    repeat' split
    all_goals simp [hres]

theorem treeInv_subscribeRefs {sv : Server} (sid : Nat) (pm : PM) (delta : Option Int) (h : TreeInv sv) :
    TreeInv (subscribeRefs sv sid pm delta) := by
  unfold subscribeRefs
  apply ix_foldl_inv (I := TreeInv)
  · intro sv v hv
    exact treeInv_setField _ (by simp) (by simp) (by simp) hv
  · exact h

theorem treeInv_subscribe {sv : Server} (sid : Nat) (path : Bytes) (f : Option Filt) (h : TreeInv sv) :
    TreeInv (subscribe sv sid path f) := by
  unfold subscribe
  split
  · exact h
  · simp only []
    apply treeInv_of_root (doGetData_root _ _ _)
    apply treeInv_updSess
    split
    · apply treeInv_updSess
      split
      · apply ix_foldl_inv (I := TreeInv)
        · intro sv v hv
          repeat' split
          all_goals first | exact hv | exact treeInv_of_root (nodeChangedAux_root _ _ _ _ _) hv
        · exact h
      · exact h
    · split
      · exact h
      · exact treeInv_subscribeRefs _ _ _ (treeInv_updSess _ _ h)

theorem treeInv_unsubscribe {sv : Server} (sid : Nat) (path : Bytes) (h : TreeInv sv) :
    TreeInv (unsubscribe sv sid path) := by
  unfold unsubscribe
  split
  · exact h
  · simp only []
    split
    · exact h
    · apply treeInv_updSess
      split
      · exact treeInv_subscribeRefs _ _ _ (treeInv_updSess _ _ h)
      · exact h

theorem route_root (sv : Server) (sid : Nat) (pm : PM) (what : String) : (route sv sid pm what).root = sv.root := by
  unfold route
  split
  · rfl
  · simp only []
    apply foldl_root
    intro sv v
    repeat' split
    all_goals rfl

theorem sendMsg_root (sv : Server) (sid tag : Nat) (keys : List Bytes) : (sendMsg sv sid tag keys).root = sv.root := by
  unfold sendMsg
  split
  · rfl
  · simp only []
    split
    · exact route_root _ _ _ _
    · split
      · exact route_root _ _ _ _
      · apply foldl_root
        intro sv v
        split <;> rfl

/-- every command of a session keeps the invariant -/
theorem treeInv_runCmd {sv : Server} (sid : Nat) (c : Cmd) (h : TreeInv sv) : TreeInv (runCmd sv sid c) := by
  cases c with
  | set path v ati => exact treeInv_setDataNode _ _ _ _ h
  | rm keys => exact treeInv_removeData _ _ h
  | sub path f => exact treeInv_subscribe _ _ _ h
  | unsub path => exact treeInv_unsubscribe _ _ h
  | paramSelf => exact h
  | paramMax n => exact h
  | paramRoute keys => exact h
  | paramRouteF keys fs => exact h
  | unparamMax => exact h
  | unparamRoute => exact h
  | unparamRouteF => exact h
  | getparams =>
    simp only [runCmd]
    split
    · exact h
    · exact h
  | ins key before vals => exact treeInv_insertOrdered _ _ _ _ h
  | reorder key before => exact treeInv_reorder _ _ _ h
  | send tag keys => exact treeInv_of_root (sendMsg_root _ _ _ _) h
  | ping tag => exact h

theorem treeInv_pushAll {sv : Server} (h : TreeInv sv) : TreeInv (pushAll sv) :=
  treeInv_of_root (pushAll_root _) h

/-- the servers the engine can reach -/
inductive Reach : Server → Prop
  | init : Reach {}
  | attach {sv : Server} (slot : Nat) (host : Bytes) : Reach sv → Reach (attach sv slot host).1
  | detach {sv : Server} (sid : Nat) : Reach sv → Reach (detach sv sid)
  | cmd {sv : Server} (sid : Nat) (c : Cmd) : Reach sv → Reach (runCmd sv sid c)
  | push {sv : Server} : Reach sv → Reach (pushAll sv)
  /-- a server-side `CloneDataNodeSubtree` by session `sid` (any source path, destination clauses, ADDTOINDEX or not) -/
  | clone {sv : Server} (sid : Nat) (src dest : List Bytes) (ati : Bool) :
      Reach sv → Reach (cloneDataNodeSubtree sv sid src dest ati).1
  /-- a server-side `RestoreNodeTreeFromMessage` by session `sid` of ANY saved tree (not only one `saveTree` wrote) -/
  | restore {sv : Server} (sid : Nat) (t : Node) (dest : List Bytes) (ati : Bool) (maxDepth : Nat) :
      Reach sv → Reach (restoreNodeTree sv sid t dest ati maxDepth).1
  /-- `pump` empties the inboxes -/
  | sessions {sv : Server} (ss : List Sess) : Reach sv → Reach { sv with sessions := ss }

theorem treeInv_reach {sv : Server} (h : Reach sv) : TreeInv sv := by
  induction h with
  | init => exact AllNodes.fresh _ _
  | attach slot host _ ih => exact treeInv_attach slot host ih
  | detach sid _ ih => exact treeInv_detach sid ih
  | cmd sid c _ ih => exact treeInv_runCmd sid c ih
  | push _ ih => exact treeInv_pushAll ih
  | clone sid src dest ati _ ih => exact treeInv_cloneDataNodeSubtree sid src dest ati ih
  | restore sid t dest ati md _ ih => exact treeInv_restoreNodeTree sid t dest ati md ih
  | sessions ss _ ih => exact ih


/-! ## the engine itself -/

theorem treeInv_pumpLine {st : St} (h : TreeInv st.sv) : TreeInv (pumpLine st).1.sv := h

theorem treeInv_batch (sid : Nat) (cmds : List Cmd) {sv : Server} (h : TreeInv sv) :
    TreeInv (cmds.foldl (fun sv c => pushAll (runCmd sv sid c)) sv) :=
  ix_foldl_inv _ TreeInv (fun _ c hsv => treeInv_pushAll (treeInv_runCmd sid c hsv)) cmds sv h

theorem treeInv_setm (sid : Nat) (p : Bytes) (vs : List Nat) {sv : Server} (h : TreeInv sv) :
    TreeInv (vs.foldl (fun sv v => runCmd sv sid (.set p v false)) sv) :=
  ix_foldl_inv _ TreeInv (fun _ _ hsv => treeInv_runCmd sid _ hsv) vs sv h

theorem treeInv_subtreeOp {st : St} (r : Server × CStat) (h : TreeInv st.sv) (hr : TreeInv r.1) :
    TreeInv (subtreeOp st r).1.sv := by
  unfold subtreeOp
  split
  · exact h
  · exact treeInv_pushAll hr

theorem treeInv_subtreeStep {st : St} (sl sid : Nat) (op : String) (toks : List String) (h : TreeInv st.sv) :
    TreeInv (subtreeStep st sl sid op toks).1.sv := by
  unfold subtreeStep
  repeat' split
  all_goals first
    | exact h
    | exact treeInv_subtreeOp _ h (treeInv_cloneDataNodeSubtree _ _ _ _ h)
    | exact treeInv_subtreeOp _ h (treeInv_restoreNodeTree _ _ _ _ _ h)
    | exact treeInv_pushAll (treeInv_updSess _ _ h)

/-- one op line of the engine `srv` (whatever its tokens) -/
theorem treeInv_step {st : St} (toks : List String) (h : TreeInv st.sv) : TreeInv (step st toks).1.sv := by
  unfold step
  repeat' split
  all_goals first
    | exact h
    | exact AllNodes.fresh _ _
    | exact treeInv_pumpLine h
    | exact treeInv_attach _ _ h
    | exact treeInv_detach _ h
    | exact treeInv_pushAll (treeInv_batch _ _ h)
    | exact treeInv_pushAll (treeInv_setm _ _ _ h)
    | exact treeInv_subtreeStep _ _ _ _ h
    | exact treeInv_pushAll (treeInv_runCmd _ _ h)
    | (rename_i sl hh _ _ _ _ _ _ heq
       have := treeInv_attach sl hh h; rw [heq] at this; exact this)

/-- every state the engine `srv` reaches on any op stream -/
theorem treeInv_engine (lines : List (List String)) :
    TreeInv (lines.foldl (fun st toks => (step st toks).1) ({} : St)).sv :=
  ix_foldl_inv (fun (st : St) toks => (step st toks).1) (fun (st : St) => TreeInv st.sv)
    (fun _ toks hst => treeInv_step toks hst) lines ({} : St) (show TreeInv ({} : Server) from AllNodes.fresh _ _)

end Muscle.Reflector
