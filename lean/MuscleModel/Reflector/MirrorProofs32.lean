import MuscleModel.Reflector.MirrorProofs31

/-!
# C04 lemmas, part 32: re-subscription of an existing path with another filter (`ChangeQueryFilterCallback`)

At a quiescent point the subscriber `sid` sends SUBSCRIBE for a path it already holds (entry `e`), with filter `f`.  The
server (1) feeds, for every node the path's clauses match whose filter verdict changes and which no OTHER subscription
matches, a removal (old verdict true) or a set (old verdict false) — `rfStep`; (2) replaces the filter; (3) delivers the
snapshot of the new filter's matches straight to the inbox, while the events of (1) are still pending; then the push.
`refilter_quiescent`: the client that applies what was delivered — the flushed part of (1), the snapshot, the rest of (1) —
holds a right mirror for the new subscription set.  The traversal of (1) runs with `GetDataCallback`'s rule (`getDataCb s`):
a plain session without the indexing flag never has its own nodes fed (`rfVisits_of`, by the coupling `travG_mem`), so no
node invisible to the subscriber can enter or leave through (1).
-/

set_option linter.unusedSimpArgs false
set_option linter.unusedVariables false

namespace Muscle.Reflector
open Muscle Muscle.Eng.SrvEngine

/-- the filter verdict of an entry's filter on a payload -/
def verdict (g : Option Filt) (d : Option Nat) : Bool := match g with | none => true | some h => h.eval d

theorem filterOk_true (e : Entry) (d : Option Nat) : e.filterOk true d = verdict e.filter d := by
  unfold Entry.filterOk verdict
  cases e.filter <;> simp

/-- the condition under which `ChangeQueryFilterCallback` reports the node -/
def rfCond (s : Sess) (fix : Bytes) (e : Entry) (f : Option Filt) (v : Visit) (n : Node) : Bool :=
  decide (verdict e.filter n.data ≠ verdict f n.data) && !pmMatchesPath (pmRemove s.subs fix) v true n.data

def rfStep (s : Sess) (sid : Nat) (fix : Bytes) (e : Entry) (f : Option Filt) (X : Server) (v : Visit) : Server :=
  match getNode X v with
  | none => X
  | some n =>
    if rfCond s fix e f v n then nodeChangedAux X sid (pathString v) n.data (verdict e.filter n.data) else X

/-- the event for one visited node, decided on the tree `sv0` -/
def rfEv (s : Sess) (fix : Bytes) (e : Entry) (f : Option Filt) (sv0 : Server) (v : Visit) : Option Ev :=
  match getNode sv0 v with
  | none => none
  | some n => if rfCond s fix e f v n then some (evOf (pathString v) n.data (verdict e.filter n.data)) else none

def rfEvs (s : Sess) (fix : Bytes) (e : Entry) (f : Option Filt) (sv0 : Server) (V : List Visit) : List Ev :=
  V.filterMap (rfEv s fix e f sv0)

/-- the state `DoGetData` runs on in the re-filter branch -/
def rfC (sv : Server) (sid : Nat) (s : Sess) (path : Bytes) (e : Entry) (f : Option Filt) : Server :=
  (((if s.subsEnabled && (f.isSome || e.filter.isSome) then
      (travGlobal sv (pmPut [] (adjustPrefix path (some defaultPrefix)) none) false (getDataCb s)).foldl
        (rfStep s sid (adjustPrefix path (some defaultPrefix)) e f) sv
    else sv).updSess sid (fun t => { t with subs := pmPut t.subs (adjustPrefix path (some defaultPrefix)) f })).updSess sid
    (fun t => { t with params := subParams t.params path }))

theorem subscribe_refilter_eq {sv : Server} {sid : Nat} {s : Sess} (hs : sv.sess? sid = some s) (path : Bytes) (f : Option Filt)
    {e : Entry} (hf : pmFind s.subs (adjustPrefix path (some defaultPrefix)) = some e) :
    subscribe sv sid path f = doGetData (rfC sv sid s path e f) sid [(path, f)] := by
  unfold subscribe rfC
  rw [hs]
  simp only [hf]
  rfl

/-! ## the fold of (1) -/

/-- what the fold keeps: the tree; the session but for pending Message and inbox; the structured view; provenance; and
    "dirty or nothing pending" -/
def RfInv (sv : Server) (sid : Nat) (s : Sess) (X : Server) (evs : List Ev) : Prop :=
  X.root = sv.root ∧ ∃ sX sent, X.sess? sid = some sX ∧ sX.core = s.core ∧
    dataLines sX = dataLines s ++ sent.map dataText ∧
    (∀ m, applyMsg (applyMsgs m sent) (pend sX) = evs.foldl applyEv m) ∧
    Prov evs (pend sX) ∧ (X.subsDirty = true ∨ pend sX = {})

theorem rfInv_init {sv : Server} {sid : Nat} {s : Sess} (hs : sv.sess? sid = some s) (hq : pend s = {}) :
    RfInv sv sid s sv [] :=
  ⟨rfl, s, [], hs, rfl, by simp, fun m => by rw [hq, applyMsg_empty]; rfl, by rw [hq]; exact Prov.empty _, Or.inr hq⟩

theorem rfInv_step {sv : Server} {sid : Nat} {s : Sess} (fix : Bytes) (e : Entry) (f : Option Filt) {X : Server}
    {evs : List Ev} (h : RfInv sv sid s X evs) (v : Visit) :
    RfInv sv sid s (rfStep s sid fix e f X v) (evs ++ (rfEv s fix e f sv v).toList) := by
  obtain ⟨hr, sX, sent, hsX, hc, hd, hview, hprov, hdirty⟩ := h
  have hg : getNode X v = getNode sv v := getNode_congr hr v
  unfold rfStep rfEv
  rw [hg]
  cases hn : getNode sv v with
  | none => simp only [Option.toList_none, List.append_nil]; exact ⟨hr, sX, sent, hsX, hc, hd, hview, hprov, hdirty⟩
  | some n =>
    simp only []
    by_cases hcnd : rfCond s fix e f v n = true
    · simp only [hcnd, if_true, Option.toList_some]
      obtain ⟨h1, h2, h3⟩ := auxSess_feed sX (pathString v) n.data (verdict e.filter n.data)
      refine ⟨by rw [nodeChangedAux_root]; exact hr, auxSess sX (pathString v) n.data (verdict e.filter n.data),
        sent ++ (feed sX.maxItems { cur := pend sX, sent := [] } (evOf (pathString v) n.data (verdict e.filter n.data))).sent,
        nodeChangedAux_sess hsX _ _ _, h3.trans hc, ?_, ?_, ?_, nodeChangedAux_quiet hsX _ _ _⟩
      · rw [h2, hd, List.map_append, List.append_assoc]
      · intro m
        rw [h1, applyMsgs_append]
        have := view_feed sX.maxItems { cur := pend sX, sent := [] } (applyMsgs m sent)
          (evOf (pathString v) n.data (verdict e.filter n.data))
        simp only [Pipe.view] at this
        rw [this, List.foldl_append]
        simp only [applyMsgs, List.foldl_nil, List.foldl_cons]
        have hv := hview m
        simp only [applyMsgs] at hv
        rw [hv]
      · rw [h1]
        exact prov_feed sX.maxItems { cur := pend sX, sent := [] } evs _ hprov
    · simp only [hcnd, Bool.false_eq_true, if_false, Option.toList_none, List.append_nil]
      exact ⟨hr, sX, sent, hsX, hc, hd, hview, hprov, hdirty⟩

theorem rfInv_fold {sv : Server} {sid : Nat} {s : Sess} (fix : Bytes) (e : Entry) (f : Option Filt) :
    ∀ (V : List Visit) {X : Server} {evs : List Ev}, RfInv sv sid s X evs →
      RfInv sv sid s (V.foldl (rfStep s sid fix e f) X) (evs ++ rfEvs s fix e f sv V) := by
  intro V
  induction V with
  | nil => intro X evs h; simpa [rfEvs] using h
  | cons v r ih =>
    intro X evs h
    simp only [List.foldl_cons]
    have := ih (rfInv_step fix e f h v)
    have hev : rfEvs s fix e f sv (v :: r) = (rfEv s fix e f sv v).toList ++ rfEvs s fix e f sv r := by
      unfold rfEvs
      simp only [List.filterMap_cons]
      cases rfEv s fix e f sv v <;> rfl
    rw [hev, ← List.append_assoc]
    exact this

/-! ## values of a pending Message on one path -/

theorem setsVal_same (q : Bytes) (d : Option Nat) :
    ∀ (sets : List (Bytes × List (Option Nat))), (∀ ds, (q, ds) ∈ sets → ∀ x ∈ ds, x = d) →
      setsVal q sets (some d) = some d := by
  intro sets
  induction sets with
  | nil => intro _; rfl
  | cons a r ih =>
    intro h
    obtain ⟨p, ds⟩ := a
    rw [setsVal]
    have hr : ∀ ds', (q, ds') ∈ r → ∀ x ∈ ds', x = d := fun ds' hm => h ds' (List.mem_cons_of_mem _ hm)
    by_cases hp : q = p
    · subst hp
      have hds : ∀ x ∈ ds, x = d := h ds List.mem_cons_self
      have : ds.foldl (fun _ x => some x) (some d) = some d := by
        clear h hr ih
        induction ds with
        | nil => rfl
        | cons y ys ihy =>
          simp only [List.foldl_cons]
          rw [hds y List.mem_cons_self]
          exact ihy (fun x hx => hds x (List.mem_cons_of_mem _ hx))
      rw [if_pos rfl, this]; exact ih hr
    · rw [if_neg hp]; exact ih hr

/-- a path the snapshot has just set to `d` keeps that value under a pending Message that neither removes it nor sets it to
    anything else -/
theorem applyMsg_keep (X : Mirror) (u : UpdMsg) (q : Bytes) (d : Option Nat) (hX : X q = some d) (hrem : q ∉ u.removed)
    (hsets : ∀ ds, (q, ds) ∈ u.sets → ∀ x ∈ ds, x = d) : applyMsg X u q = some d := by
  rw [applyMsg_val, if_neg hrem, hX]
  exact setsVal_same q d u.sets hsets

theorem applyMsg_congr_at (X Y : Mirror) (u : UpdMsg) (q : Bytes) (h : X q = Y q) : applyMsg X u q = applyMsg Y u q := by
  rw [applyMsg_val, applyMsg_val, h]

/-- the value of a fold of events on a path none of them sets: `none` if one of them removes it, unchanged otherwise -/
theorem foldEv_noset (evs : List Ev) (m : Mirror) (q : Bytes) (hns : ∀ d, Ev.set q d ∉ evs) :
    (Ev.removed q ∈ evs → (evs.foldl applyEv m) q = none) ∧ (Ev.removed q ∉ evs → (evs.foldl applyEv m) q = m q) := by
  induction evs generalizing m with
  | nil => simp
  | cons ev r ih =>
    simp only [List.foldl_cons]
    have hr : ∀ d, Ev.set q d ∉ r := fun d hm => hns d (List.mem_cons_of_mem _ hm)
    obtain ⟨ih1, ih2⟩ := ih (applyEv m ev) hr
    cases ev with
    | set p d =>
      have hp : q ≠ p := by
        intro e; subst e; exact hns d List.mem_cons_self
      constructor
      · intro hm
        rcases List.mem_cons.mp hm with h | h
        · cases h
        · exact ih1 h
      · intro hm
        rw [ih2 (fun h => hm (List.mem_cons_of_mem _ h))]
        simp [applyEv, Mirror.upd, hp]
    | removed p =>
      by_cases hp : q = p
      · subst hp
        constructor
        · intro _
          by_cases hin : Ev.removed q ∈ r
          · exact ih1 hin
          · rw [ih2 hin]; simp [applyEv, Mirror.upd]
        · intro hm; exact absurd List.mem_cons_self hm
      · constructor
        · intro hm
          rcases List.mem_cons.mp hm with h | h
          · injection h with h; exact absurd h hp
          · exact ih1 h
        · intro hm
          rw [ih2 (fun h => hm (List.mem_cons_of_mem _ h))]
          simp [applyEv, Mirror.upd, hp]

/-! ## the mirror after flushed part, snapshot and pending rest -/

theorem single_matches_f {fix : Bytes} (hg : ∀ c ∈ splitSlash fix, c ≠ []) (f : Option Filt) (v : List Bytes) (d : Option Nat) :
    pmMatchesPath (pmPut [] fix f) v true d = (clausesMatch (splitSlash fix) v && verdict f d) := by
  rw [mr_pmPut_eq (mr_good_ne_nil hg)]
  unfold pmMatchesPath
  rw [mr_pmGroup_putGroup]
  by_cases hv : v.length = (splitSlash fix).length
  · rw [if_pos hv]
    cases f <;> simp [pmGroup, putEntry, Entry.filterOk, verdict]
  · rw [if_neg hv, mr_clausesMatch_len (fun e => hv e.symm)]
    simp [pmGroup]

theorem mem_rfEvs {s : Sess} {fix : Bytes} {e : Entry} {f : Option Filt} {sv : Server} {V : List Visit} {ev : Ev} :
    ev ∈ rfEvs s fix e f sv V ↔ ∃ w ∈ V, ∃ n, getNode sv w = some n ∧ rfCond s fix e f w n = true ∧
      ev = evOf (pathString w) n.data (verdict e.filter n.data) := by
  unfold rfEvs
  rw [List.mem_filterMap]
  constructor
  · rintro ⟨w, hw, h⟩
    unfold rfEv at h
    cases hn : getNode sv w with
    | none => rw [hn] at h; cases h
    | some n =>
      rw [hn] at h
      simp only [] at h
      by_cases hc : rfCond s fix e f w n = true
      · rw [if_pos hc] at h
        exact ⟨w, hw, n, hn, hc, (Option.some.inj h).symm⟩
      · rw [if_neg hc] at h; cases h
  · rintro ⟨w, hw, n, hn, hc, rfl⟩
    refine ⟨w, hw, ?_⟩
    unfold rfEv
    rw [hn]
    simp only []
    rw [if_pos hc]

/-- the visits of the re-filter traversal: the existing nodes the path's clauses match that are visible to the session
    (for a session whose snapshot rule and notification rule agree) -/
theorem rfVisits_of {sv : Server} (hti : TreeInv sv) {s : Sess} (h : s.reflectSelf = true ∨ s.indexingPresent = false)
    {fix : Bytes} (hgood : GoodPath fix) :
    ∀ w, w ∈ travGlobal sv (pmPut [] fix none) false (getDataCb s) ↔
      ∃ n, w ≠ [] ∧ getNode sv w = some n ∧ clausesMatch (splitSlash fix) w = true ∧ visible s w = true := by
  have hwf := mr_single_wf hgood none
  intro w
  cases hr : s.reflectSelf with
  | true =>
    have hcb : getDataCb s = cbContinue := by
      funext names depth node
      simp [getDataCb, cbContinue, hr]
    rw [hcb, mr_visits_pm_f sv hti hwf false w]
    have hvis : visible s w = true := by simp [visible, hr]
    constructor
    · rintro ⟨n, h1, h2, h3⟩; exact ⟨n, h1, h2, by rw [← mr_single_matches hgood.1 w n.data]; exact h3, hvis⟩
    · rintro ⟨n, h1, h2, h3, _⟩; exact ⟨n, h1, h2, by rw [mr_single_matches hgood.1 w n.data]; exact h3⟩
  | false =>
    have hi : s.indexingPresent = false := by
      rcases h with h | h
      · rw [hr] at h; cases h
      · exact h
    have hcb : getDataCb s = cbG (sidName s.sid) := by
      funext names depth node
      simp [getDataCb, cbG, hr, hi]
    have hk := mr_kidsNodup_of_allNodes fuelDepth sv.root hti
    have hG : travGlobal sv (pmPut [] fix none) false (getDataCb s) =
        (travAux (ctxGg (pmPut [] fix none) false (sidName s.sid)) fuelDepth sv.root [] 0).1 := by
      rw [hcb]; rfl
    have hC : travGlobal sv (pmPut [] fix none) false cbContinue =
        (travAux (ctxCc (pmPut [] fix none) false) fuelDepth sv.root [] 0).1 := rfl
    rw [hG, travG_mem (pmPut [] fix none) false (sidName s.sid) hwf.pmWF hwf.laws fuelDepth sv.root hk w, ← hC,
      mr_visits_pm_f sv hti hwf false w]
    have hvis : visible s w = true ↔ ¬ isOwn (sidName s.sid) w := by
      simp [visible, isOwn, hr]
    constructor
    · rintro ⟨⟨n, h1, h2, h3⟩, hno⟩
      exact ⟨n, h1, h2, by rw [← mr_single_matches hgood.1 w n.data]; exact h3, hvis.2 hno⟩
    · rintro ⟨n, h1, h2, h3, h4⟩
      exact ⟨⟨n, h1, h2, by rw [mr_single_matches hgood.1 w n.data]; exact h3⟩, hvis.1 h4⟩

theorem refilter_mirror {sv C : Server} (hroot : C.root = sv.root) (hNS : NS sv) {s sB : Sess} (hwf : SubsWF s.subs)
    {fix : Bytes} {e : Entry} (hf : pmFind s.subs fix = some e) (f : Option Filt)
    (hsubs : sB.subs = pmPut s.subs fix f) (hsid : sB.sid = s.sid) (hrs : sB.reflectSelf = s.reflectSelf)
    {V : List Visit} (hV : ∀ w, w ∈ V ↔ ∃ n, w ≠ [] ∧ getNode sv w = some n ∧ clausesMatch (splitSlash fix) w = true ∧
        visible s w = true)
    {vsC : List Visit} (hVC : ∀ v, v ∈ vsC ↔ ∃ n, v ≠ [] ∧ getNode C v = some n ∧
        pmMatchesPath (pmPut [] fix f) v true n.data = true ∧ visible sB v = true)
    {m M1 : Mirror} {u : UpdMsg} (hm : MirrorOK sv s m)
    (hview : applyMsg M1 u = (rfEvs s fix e f sv V).foldl applyEv m) (hprov : Prov (rfEvs s fix e f sv V) u) :
    MirrorOK C sB (applyMsg ((snapEvs C vsC).foldl applyEv M1) u) := by
  obtain ⟨_, _, _, _, hgood⟩ := mr_found hwf hf
  have hgC : ∀ w, getNode C w = getNode sv w := fun w => getNode_congr hroot w
  have hvis : ∀ v, visible sB v = visible s v := by intro v; unfold visible; rw [hsid, hrs]
  have hwB : ∀ v d, wants sB v d =
      (pmMatchesPath (pmRemove s.subs fix) v true d || (clausesMatch (splitSlash fix) v && verdict f d)) := by
    intro v d
    unfold wants
    rw [hsubs, mr_matches_replace hwf hf f v true d, filterOk_true]
  have hwS : ∀ v d, wants s v d =
      (pmMatchesPath (pmRemove s.subs fix) v true d || (clausesMatch (splitSlash fix) v && verdict e.filter d)) := by
    intro v d
    unfold wants
    rw [mr_matches_split hwf hf v true d, filterOk_true]
  have huniq : ∀ {w v : List Bytes} {nw nv : Node}, getNode sv w = some nw → getNode sv v = some nv →
      pathString w = pathString v → w = v ∧ nw = nv := by
    intro w v nw nv hw hv hp
    have := pathString_inj w v (hNS.names hw) (hNS.names hv) hp
    subst this
    rw [hw] at hv
    exact ⟨rfl, Option.some.inj hv⟩
  generalize hevs : rfEvs s fix e f sv V = evs at hview hprov
  have hmem : ∀ ev, ev ∈ evs ↔ ∃ w ∈ V, ∃ n, getNode sv w = some n ∧ rfCond s fix e f w n = true ∧
      ev = evOf (pathString w) n.data (verdict e.filter n.data) := by
    intro ev; rw [← hevs]; exact mem_rfEvs
  have hcond : ∀ w n, rfCond s fix e f w n = true →
      verdict e.filter n.data ≠ verdict f n.data ∧ pmMatchesPath (pmRemove s.subs fix) w true n.data = false := by
    intro w n h
    unfold rfCond at h
    simp only [Bool.and_eq_true, decide_eq_true_eq, Bool.not_eq_true'] at h
    exact h
  intro p d
  by_cases hhit : ∃ v ∈ vsC, ∃ n, getNode C v = some n ∧ pathString v = p
  · obtain ⟨v, hv, n, hn, hp⟩ := hhit
    obtain ⟨n', hv0, hn', hmatch, hvv⟩ := (hVC v).1 hv
    have hnn : n' = n := by rw [hn] at hn'; exact (Option.some.inj hn').symm
    subst hnn
    have hnS : getNode sv v = some n' := by rw [← hgC]; exact hn
    rw [single_matches_f hgood.1] at hmatch
    simp only [Bool.and_eq_true] at hmatch
    have hM2 : ((snapEvs C vsC).foldl applyEv M1) p = some n'.data := by
      refine foldSets_hit C vsC M1 p n'.data ?_ ⟨v, hv, n', hn, hp⟩
      intro w _ n2 hw hpw
      rw [hgC] at hw
      have := huniq hw hnS (hpw.trans hp.symm)
      rw [this.2]
    have hM : applyMsg ((snapEvs C vsC).foldl applyEv M1) u p = some n'.data := by
      refine applyMsg_keep _ u p n'.data hM2 ?_ ?_
      · intro hrem
        obtain ⟨w, _, nw, hnw, hc, hev⟩ := (hmem _).1 (hprov.1 p hrem)
        unfold evOf at hev
        by_cases hold : verdict e.filter nw.data = true
        · rw [if_pos hold] at hev
          injection hev with hev
          have := huniq hnw hnS (hev.symm.trans hp.symm)
          obtain ⟨rfl, rfl⟩ := this
          have := (hcond _ _ hc).1
          rw [hold, hmatch.2] at this
          exact this rfl
        · rw [if_neg hold] at hev; cases hev
      · intro ds hds x hx
        obtain ⟨w, _, nw, hnw, hc, hev⟩ := (hmem _).1 (hprov.2 p ds x hds hx)
        unfold evOf at hev
        by_cases hold : verdict e.filter nw.data = true
        · rw [if_pos hold] at hev; cases hev
        · rw [if_neg hold] at hev
          injection hev with h1 h2
          have := huniq hnw hnS (h1.symm.trans hp.symm)
          obtain ⟨rfl, rfl⟩ := this
          exact h2
    rw [hM]
    constructor
    · intro h
      have hd : n'.data = d := Option.some.inj h
      refine ⟨v, n', hv0, hn, hp, hvv, ?_, hd⟩
      rw [hwB, hmatch.1, hmatch.2]; simp
    · rintro ⟨w, n2, _, hw, hpw, _, _, hd⟩
      rw [hgC] at hw
      have := huniq hw hnS (hpw.trans hp.symm)
      rw [← hd, this.2]
  · have hM2 : ((snapEvs C vsC).foldl applyEv M1) p = M1 p := by
      refine foldSets_other C vsC M1 p ?_
      intro v hv hsome e'
      obtain ⟨n, hn⟩ := Option.isSome_iff_exists.1 hsome
      exact hhit ⟨v, hv, n, hn, e'⟩
    have hM : applyMsg ((snapEvs C vsC).foldl applyEv M1) u p = (evs.foldl applyEv m) p := by
      rw [applyMsg_congr_at _ M1 u p hM2, hview]
    rw [hM]
    -- no `set` event at `p`
    have hnoset : ∀ x, Ev.set p x ∉ evs := by
      intro x hx
      obtain ⟨w, hwV, nw, hnw, hc, hev⟩ := (hmem _).1 hx
      unfold evOf at hev
      by_cases hold : verdict e.filter nw.data = true
      · rw [if_pos hold] at hev; cases hev
      · rw [if_neg hold] at hev
        injection hev with h1 h2
        obtain ⟨nw', hw0, hnw', hcm, hvw⟩ := (hV w).1 hwV
        have hnewT : verdict f nw.data = true := by
          cases h2' : verdict f nw.data with
          | true => rfl
          | false =>
            exfalso
            apply (hcond _ _ hc).1
            rw [h2']
            exact Bool.eq_false_iff.2 hold
        apply hhit
        refine ⟨w, (hVC w).2 ⟨nw, hw0, by rw [hgC]; exact hnw, ?_, by rw [hvis]; exact hvw⟩, nw, by rw [hgC]; exact hnw, h1.symm⟩
        rw [single_matches_f hgood.1, hcm, hnewT]; rfl
    obtain ⟨hrem1, hrem2⟩ := foldEv_noset evs m p hnoset
    have hmatchesC : ∀ d, Matches C sB p d ↔ ∃ v n, v ≠ [] ∧ getNode sv v = some n ∧ pathString v = p ∧
        visible s v = true ∧ wants sB v n.data = true ∧ n.data = d := by
      intro d
      unfold Matches
      constructor
      · rintro ⟨v, n, h1, h2, h3, h4, h5, h6⟩; exact ⟨v, n, h1, by rw [← hgC]; exact h2, h3, by rw [← hvis]; exact h4, h5, h6⟩
      · rintro ⟨v, n, h1, h2, h3, h4, h5, h6⟩; exact ⟨v, n, h1, by rw [hgC]; exact h2, h3, by rw [hvis]; exact h4, h5, h6⟩
    rw [hmatchesC]
    by_cases hrm : Ev.removed p ∈ evs
    · rw [hrem1 hrm]
      constructor
      · intro h; cases h
      · rintro ⟨v, n, _, hn, hpv, _, hw, _⟩
        exfalso
        obtain ⟨w, hwV, nw, hnw, hc, hev⟩ := (hmem _).1 hrm
        unfold evOf at hev
        by_cases hold : verdict e.filter nw.data = true
        · rw [if_pos hold] at hev
          injection hev with h1
          have := huniq hn hnw (hpv.trans h1)
          obtain ⟨rfl, rfl⟩ := this
          have hcc := hcond _ _ hc
          rw [hwB, hcc.2] at hw
          have hnewF : verdict f n.data = false := by
            cases h2' : verdict f n.data with
            | false => rfl
            | true => exact absurd (hold.trans h2'.symm) hcc.1
          rw [hnewF] at hw
          simp at hw
        · rw [if_neg hold] at hev; cases hev
    · rw [hrem2 hrm, hm p d]
      unfold Matches
      have hsame : ∀ v n, v ≠ [] → getNode sv v = some n → pathString v = p → visible s v = true →
          wants s v n.data = wants sB v n.data := by
        intro v n hv0 hn hpv hvv
        rw [hwS, hwB]
        cases hoth : pmMatchesPath (pmRemove s.subs fix) v true n.data with
        | true => rfl
        | false =>
          cases hcm : clausesMatch (splitSlash fix) v with
          | false => rfl
          | true =>
            simp only [Bool.false_or, Bool.true_and]
            by_cases heq : verdict e.filter n.data = verdict f n.data
            · exact heq
            · exfalso
              have hc : rfCond s fix e f v n = true := by
                unfold rfCond
                simp only [Bool.and_eq_true, decide_eq_true_eq, Bool.not_eq_true']
                exact ⟨heq, hoth⟩
              have hvV : v ∈ V := (hV v).2 ⟨n, hv0, hn, hcm, hvv⟩
              have hin : evOf (pathString v) n.data (verdict e.filter n.data) ∈ evs := (hmem _).2 ⟨v, hvV, n, hn, hc, rfl⟩
              unfold evOf at hin
              by_cases hold : verdict e.filter n.data = true
              · rw [if_pos hold, hpv] at hin; exact hrm hin
              · rw [if_neg hold, hpv] at hin; exact hnoset _ hin
      constructor
      · rintro ⟨v, n, h1, h2, h3, h4, h5, h6⟩; exact ⟨v, n, h1, h2, h3, h4, by rw [← hsame v n h1 h2 h3 h4]; exact h5, h6⟩
      · rintro ⟨v, n, h1, h2, h3, h4, h5, h6⟩; exact ⟨v, n, h1, h2, h3, h4, by rw [hsame v n h1 h2 h3 h4]; exact h5, h6⟩

theorem core_subs {s t : Sess} (h : s.core = t.core) : s.subs = t.subs := by
  have := congrArg Sess.subs h; exact this
theorem core_sid {s t : Sess} (h : s.core = t.core) : s.sid = t.sid := by
  have := congrArg Sess.sid h; exact this
theorem core_reflectSelf {s t : Sess} (h : s.core = t.core) : s.reflectSelf = t.reflectSelf := by
  have := congrArg Sess.reflectSelf h; exact this
theorem core_indexingPresent {s t : Sess} (h : s.core = t.core) : s.indexingPresent = t.indexingPresent := by
  have := congrArg Sess.indexingPresent h; exact this
theorem core_subsEnabled {s t : Sess} (h : s.core = t.core) : s.subsEnabled = t.subsEnabled := by
  have := congrArg Sess.subsEnabled h; exact this

/-! ## the step on the server -/

theorem rfEvs_nil_of_none (s : Sess) (fix : Bytes) {e : Entry} (he : e.filter = none) (sv : Server) (V : List Visit) :
    rfEvs s fix e none sv V = [] := by
  unfold rfEvs
  rw [List.filterMap_eq_nil_iff]
  intro v _
  unfold rfEv
  cases getNode sv v with
  | none => rfl
  | some n =>
    simp only []
    have : rfCond s fix e none v n = false := by
      unfold rfCond
      rw [he]
      simp [verdict]
    rw [this]; rfl

/-- the premises of a SUBSCRIBE by `sid` in state `sv` for a path it already holds: snapshot rule and notification rule
    agree for the session (it reflects to itself or does not carry the indexing flag), and the path is held under its
    normalised spelling -/
def RefilterOK (sid : Nat) (sv : Server) (path : Bytes) (f : Option Filt) : Prop :=
  ∀ s, sv.sess? sid = some s →
    (s.reflectSelf = true ∨ s.indexingPresent = false) ∧
    (pmFind s.subs (adjustPrefix path (some defaultPrefix))).isSome = true

/-- for a subscriber that reflects to itself: "already subscribed under this normalised spelling" is all -/
theorem refilterOK_of_reflectSelf {sid : Nat} {sv : Server} (path : Bytes) (f : Option Filt)
    (h : ∀ s, sv.sess? sid = some s → s.reflectSelf = true ∧
      (pmFind s.subs (adjustPrefix path (some defaultPrefix))).isSome = true) : RefilterOK sid sv path f :=
  fun s hs => ⟨Or.inl (h s hs).1, (h s hs).2⟩

theorem refilter_quiescent {sid : Nat} {sv : Server} {s : Sess} {m : Mirror} (q : Quiescent sid sv s m) (path : Bytes)
    (f : Option Filt) (hok : RefilterOK sid sv path f) :
    ∃ s' items, Quiescent sid (pushAll (runCmd sv sid (.sub path f))) s' (client m items) ∧
      dataLines s' = dataLines s ++ (msgsOf items).map dataText ∧ s'.sid = s.sid ∧ s'.reflectSelf = s.reflectSelf := by
  obtain ⟨hrule, hsome⟩ := hok s q.sess
  obtain ⟨e, hf⟩ := Option.isSome_iff_exists.1 hsome
  have hs := q.sess
  have hinv := q.inv
  have hwf : SubsWF s.subs := hinv.1.2.1.1.wf (sid, s.subs) (List.mem_of_find?_eq_some (mr_sessKeys_find hs))
  obtain ⟨_, _, _, _, hgood⟩ := mr_found hwf hf
  have hinv1 : Inv2 (runCmd sv sid (.sub path f)) := hinv.runCmd sid _ hgood
  have hinv' : Inv2 (pushAll (runCmd sv sid (.sub path f))) :=
    ⟨hinv1.1.pushAll, hinv1.2.of_root (pushAll_root _) (by simp)⟩
  have heq : runCmd sv sid (.sub path f) = doGetData (rfC sv sid s path e f) sid [(path, f)] :=
    subscribe_refilter_eq hs path f hf
  rw [heq] at hinv' ⊢
  generalize hfix : adjustPrefix path (some defaultPrefix) = fix at hf hgood
  generalize hVdef : travGlobal sv (pmPut [] fix none) false (getDataCb s) = V
  -- (1) the fold
  have hA : ∃ A, RfInv sv sid s A (rfEvs s fix e f sv V) ∧
      rfC sv sid s path e f = ((A.updSess sid (fun t => { t with subs := pmPut t.subs fix f })).updSess sid
        (fun t => { t with params := subParams t.params path })) := by
    unfold rfC
    rw [hfix, hVdef]
    by_cases hc : (s.subsEnabled && (f.isSome || e.filter.isSome)) = true
    · rw [if_pos hc]
      refine ⟨_, ?_, rfl⟩
      have := rfInv_fold fix e f V (rfInv_init hs q.nothing)
      simpa using this
    · rw [if_neg hc]
      refine ⟨sv, ?_, rfl⟩
      rw [q.enabled] at hc
      simp only [Bool.true_and, Bool.or_eq_true, not_or, Bool.not_eq_true, Option.isSome_eq_false_iff,
        Option.isNone_iff_eq_none] at hc
      rw [hc.1, rfEvs_nil_of_none s fix hc.2]
      exact rfInv_init hs q.nothing
  obtain ⟨A, ⟨hrA, sA, sentA, hsA, hcA, hdA, hviewA, hprovA, hdirtyA⟩, hCeq⟩ := hA
  rw [hCeq] at hinv' ⊢
  generalize hBdef : ({ ({ sA with subs := pmPut sA.subs fix f } : Sess) with
      params := subParams sA.params path } : Sess) = sB
  have hsB : (((A.updSess sid (fun t => { t with subs := pmPut t.subs fix f })).updSess sid
        (fun t => { t with params := subParams t.params path }))).sess? sid = some sB := by
    rw [← hBdef]
    refine sess?_updSess_same _ sid _ ?_ (sess?_updSess_same A sid _ ?_ hsA)
    · intro _; rfl
    · intro _; rfl
  generalize hCdef : ((A.updSess sid (fun t => { t with subs := pmPut t.subs fix f })).updSess sid
        (fun t => { t with params := subParams t.params path })) = C at hsB hinv' ⊢
  have hrootC : C.root = sv.root := by rw [← hCdef]; exact hrA
  have hdirtyC : C.subsDirty = A.subsDirty := by rw [← hCdef]; rfl
  have hsubsA : sA.subs = s.subs := core_subs hcA
  have hsidA : sA.sid = s.sid := core_sid hcA
  have hrsA : sA.reflectSelf = s.reflectSelf := core_reflectSelf hcA
  have hipA : sA.indexingPresent = s.indexingPresent := core_indexingPresent hcA
  have henA : sA.subsEnabled = s.subsEnabled := core_subsEnabled hcA
  have hsubsB : sB.subs = pmPut s.subs fix f := by rw [← hBdef, ← hsubsA]
  have hsidB : sB.sid = s.sid := by rw [← hBdef]; exact hsidA
  have hrsB : sB.reflectSelf = s.reflectSelf := by rw [← hBdef]; exact hrsA
  have hipB : sB.indexingPresent = s.indexingPresent := by rw [← hBdef]; exact hipA
  have henB : sB.subsEnabled = s.subsEnabled := by rw [← hBdef]; exact henA
  have hndB : sB.nextData = sA.nextData := by rw [← hBdef]
  have hdlB : dataLines sB = dataLines sA := by rw [← hBdef]; rfl
  -- (3) the snapshot
  obtain ⟨sentC, ⟨hrootD, sD, hsD, hcD, hnD, hdD⟩, hviewC⟩ :=
    doGetData_replay C sid sB hsB [(path, f)] (applyMsgs m sentA)
  rw [pmOfKeys_single, hfix] at hviewC
  have hVC : SnapVisits C sB fix f :=
    snapVisits_of (treeInv_of_root hrootC hinv.1.1) (by rw [hrsB, hipB]; exact hrule) hgood f
  have hVsv : ∀ w, w ∈ V ↔ ∃ n, w ≠ [] ∧ getNode sv w = some n ∧ clausesMatch (splitSlash fix) w = true ∧
      visible s w = true := by
    intro w
    rw [← hVdef]
    exact rfVisits_of hinv.1.1 hrule hgood w
  have hmirC := refilter_mirror hrootC hinv.1.2.2 hwf hf f hsubsB hsidB hrsB hVsv hVC q.mirror (hviewA m) hprovA
  rw [← hviewC] at hmirC
  generalize hDdef : doGetData C sid [(path, f)] = D at hsD hrootD hinv' ⊢
  have hdirtyD : D.subsDirty = A.subsDirty := by rw [← hDdef, subsDirty_doGetData]; exact hdirtyC
  have hmirD : MirrorOK D sD (applyMsg (applyMsgs (applyMsgs m sentA) sentC) (pend sA)) :=
    (mirrorOK_core (vcore_of_core hcD) D _).2 (mirrorOK_of_root hrootD hmirC)
  have hpendD : pend sD = pend sA := by unfold pend; rw [hnD, hndB]
  have hsidD : sD.sid = s.sid := (core_sid hcD).trans hsidB
  have hrsD : sD.reflectSelf = s.reflectSelf := (core_reflectSelf hcD).trans hrsB
  have henD : sD.subsEnabled = true := ((core_subsEnabled hcD).trans henB).trans q.enabled
  have hdlD : dataLines sD = dataLines s ++ (sentA ++ sentC).map dataText := by
    rw [hdD, hdlB, hdA, List.map_append, List.append_assoc]
  by_cases hdirty : D.subsDirty = true
  · -- the push sends what is pending
    have hsE : (pushAll D).sess? sid = some (pushSess sD) := by rw [sess?_pushAll_dirty D hdirty, hsD]; rfl
    have hpE : pend (pushSess sD) = {} := by simp [pend, pushSess_nextData]
    have hmirE : ∀ M, MirrorOK D sD M → MirrorOK (pushAll D) (pushSess sD) M := fun M h =>
      (mirrorOK_core (vcore_of_core (pushSess_core sD)) (pushAll D) M).2 (mirrorOK_of_root (pushAll_root D) h)
    have hsidE : (pushSess sD).sid = s.sid := (pushSess_sid sD).trans hsidD
    have hrsE : (pushSess sD).reflectSelf = s.reflectSelf := (core_reflectSelf (pushSess_core sD)).trans hrsD
    have henE : (pushSess sD).subsEnabled = true := (core_subsEnabled (pushSess_core sD)).trans henD
    cases hnx : sD.nextData with
    | none =>
      have hp0 : pend sA = {} := by rw [← hpendD]; unfold pend; rw [hnx]; rfl
      rw [hp0, applyMsg_empty, ← applyMsgs_append] at hmirD
      refine ⟨pushSess sD, (sentA ++ sentC).map In.data, ⟨hinv', hsE, henE, hpE, ?_⟩, ?_, hsidE, hrsE⟩
      · rw [client_data]; exact hmirE _ hmirD
      · rw [msgsOf_data, pushSess_dataLines, hnx, hdlD]; simp
    | some u =>
      have hpu : pend sA = u := by rw [← hpendD]; unfold pend; rw [hnx]; rfl
      rw [hpu, ← applyMsgs_append] at hmirD
      refine ⟨pushSess sD, (sentA ++ sentC ++ [u]).map In.data, ⟨hinv', hsE, henE, hpE, ?_⟩, ?_, hsidE, hrsE⟩
      · rw [client_data, applyMsgs_append]
        simp only [applyMsgs, List.foldl_cons, List.foldl_nil] at hmirD ⊢
        exact hmirE _ hmirD
      · rw [msgsOf_data, pushSess_dataLines, hnx, hdlD]; simp
  · -- nothing was reported
    have hp0 : pend sA = {} := by
      rcases hdirtyA with h | h
      · rw [hdirtyD] at hdirty; exact absurd h hdirty
      · exact h
    have hpush : pushAll D = D := by unfold pushAll; rw [if_neg hdirty]
    rw [hp0, applyMsg_empty, ← applyMsgs_append] at hmirD
    rw [hpush] at hinv' ⊢
    refine ⟨sD, (sentA ++ sentC).map In.data, ⟨hinv', hsD, henD, by rw [hpendD]; exact hp0, ?_⟩, ?_, hsidD, hrsD⟩
    · rw [client_data]; exact hmirD
    · rw [msgsOf_data]; exact hdlD

end Muscle.Reflector
