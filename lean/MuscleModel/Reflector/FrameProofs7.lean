import MuscleModel.Reflector.FrameProofs6

/-!
# Frame lemmas, part 7: what `detach` leaves alone

Removing the child `key` of `parent` changes `parent` itself (children, index) and everything at or below
`parent ++ [key]`, nothing else.
-/

set_option linter.unusedSimpArgs false
set_option linter.unusedVariables false

namespace Muscle.Reflector
open Muscle

/-- `Local sid parent key sv sv'`: every node other than `parent` itself and the subtree `parent ++ [key]`
    looks the same through `strip sid`; sessions as in `OnlyOwn` -/
def Local (sid : Nat) (parent : List Bytes) (key : Bytes) (sv sv' : Server) : Prop :=
  (∀ names, names ≠ parent → ¬ (parent ++ [key]) <+: names →
    (getNode sv' names).map (strip sid) = (getNode sv names).map (strip sid))
  ∧ sv'.sessions.map (Sess.view sid) = sv.sessions.map (Sess.view sid)

theorem Local.refl (sid : Nat) (parent : List Bytes) (key : Bytes) (sv : Server) : Local sid parent key sv sv :=
  ⟨fun _ _ _ => rfl, rfl⟩

theorem Local.trans {sid : Nat} {parent : List Bytes} {key : Bytes} {a b c : Server}
    (h1 : Local sid parent key a b) (h2 : Local sid parent key b c) : Local sid parent key a c :=
  ⟨fun names hn hp => (h2.1 names hn hp).trans (h1.1 names hn hp), h2.2.trans h1.2⟩

theorem NotifyOnly.local {sv sv' : Server} (h : NotifyOnly sv sv') (sid : Nat) (parent : List Bytes) (key : Bytes) :
    Local sid parent key sv sv' :=
  ⟨fun names _ _ => by rw [h.getNode], map_view_of_map_core sid h.2⟩

theorem OnlyOwn.local {sid : Nat} {parent : List Bytes} {key : Bytes} {sv sv' : Server}
    (h : OnlyOwn sid (parent ++ [key]) sv sv') : Local sid parent key sv sv' :=
  ⟨fun names _ hp => h.1 names hp, h.2⟩

theorem findKid_removeKid_ne {key b : Bytes} (h : b ≠ key) (kids : List Node) :
    findKid b (removeKid key kids) = findKid b kids := by
  induction kids with
  | nil => rfl
  | cons a r ih =>
    simp only [removeKid]
    split
    · rename_i ha
      have : ¬ a.name = b := by rw [ha]; exact fun e => h e.symm
      simp [findKid, this]
    · simp only [findKid, ih]

theorem setNode_local (sv : Server) (sid : Nat) (parent : List Bytes) (key : Bytes) (f : Node → Node)
    (hname : ∀ n, (f n).name = n.name) (hk : ∀ m b, b ≠ key → findKid b (f m).kids = findKid b m.kids) :
    Local sid parent key sv (setNode sv parent f) := by
  refine ⟨fun names hn hp => ?_, rfl⟩
  simp only [getNode, setNode]
  apply nodeAt_updateAt sid hname
  intro suffix hs fuel' m
  cases suffix with
  | nil => simp at hs; exact absurd hs hn
  | cons b rest =>
    have hb : b ≠ key := by
      intro e; subst e
      apply hp
      rw [hs]
      exact ⟨rest, by simp⟩
    cases fuel' with
    | zero => simp [nodeAt_zero_cons]
    | succ fuel' => rw [nodeAt_succ_cons, nodeAt_succ_cons, hk m b hb]

theorem removeIndexEntry_local (sv : Server) (sid : Nat) (parent : List Bytes) (key k2 : Bytes) (notify : Bool) :
    Local sid parent key sv (removeIndexEntry sv parent k2 notify) := by
  have hset : ∀ i : Nat, Local sid parent key sv (setNode sv parent (fun p => p.setIndex (p.index.eraseIdx i))) :=
    fun i => setNode_local sv sid parent key _ (by intro _; rfl) (by intro _ _ _; rfl)
  unfold removeIndexEntry
  split
  · exact Local.refl ..
  · split
    · exact Local.refl ..
    · simp only []
      split
      · split
        · exact (hset _).trans ((notifyIndex_notify ..).local sid parent key)
        · exact hset _
      · exact hset _

theorem removeOne_local (sv : Server) (sid by_ : Nat) (notify : Bool) (parent : List Bytes) (key : Bytes) :
    Local sid parent key sv (removeOne sv by_ notify (parent ++ [key])) := by
  unfold removeOne
  have hl : (parent ++ [key]).getLast? = some key := by simp
  have hd : (parent ++ [key]).dropLast = parent := by simp
  rw [hl, hd]
  split
  · simp only []
    rename_i k c hk _
    have hkk : k = key := by injection hk with e; exact e.symm
    subst hkk
    refine Local.trans ?_ (setNode_local _ sid parent k _ (by intro _; rfl)
      (by intro m b hb; exact findKid_removeKid_ne hb m.kids))
    split
    · split
      · exact (removeIndexEntry_local sv sid parent k k notify).trans ((notifyChanged_notify ..).local sid parent k)
      · exact removeIndexEntry_local sv sid parent k k notify
    · exact removeIndexEntry_local sv sid parent k k notify
  · exact Local.refl ..

theorem Local.foldl {sid : Nat} {parent : List Bytes} {key : Bytes} {α} (g : Server → α → Server) (l : List α)
    (hg : ∀ sv a, a ∈ l → Local sid parent key sv (g sv a)) (sv : Server) :
    Local sid parent key sv (l.foldl g sv) := by
  induction l generalizing sv with
  | nil => exact Local.refl ..
  | cons a r ih =>
    exact (hg sv a (List.mem_cons_self ..)).trans (ih (fun sv b hb => hg sv b (List.mem_cons_of_mem _ hb)) (g sv a))

theorem removeChild_local (sv : Server) (sid by_ : Nat) (notify : Bool) (parent : List Bytes) (key : Bytes) :
    Local sid parent key sv (removeChild sv by_ notify (parent ++ [key])) := by
  unfold removeChild
  split
  · exact Local.refl ..
  · rename_i n hn
    rw [show fuelDepth = 109 + 1 from rfl, removalOrder, List.foldl_append, List.foldl_cons, List.foldl_nil]
    refine Local.trans ?_ (removeOne_local _ sid by_ notify parent key)
    apply Local.foldl
    intro sv1 nm hnm
    obtain ⟨h1, h2⟩ := removalOrder_succ_mem 109 (parent ++ [key]) n nm hnm
    exact (removeOne_own sv1 sid by_ notify nm (prefix_dropLast h1 h2)).local

/-! ## `detach` -/

/-- sessions after `detach`: the departed id filtered out, the others as `OnlyOwn` says -/
theorem detach_view (sv : Server) (sid : Nat) :
    (detach sv sid).sessions.map (Sess.view sid) = (sv.sessions.filter (fun t => t.sid ≠ sid)).map (Sess.view sid)
      ∨ sv.sess? sid = none := by
  cases hs : sv.sess? sid with
  | none => exact Or.inr rfl
  | some s =>
    left
    have hpre : (detachPre sv sid s).sessions.map (Sess.view sid) = sv.sessions.map (Sess.view sid) := by
      unfold detachPre
      simp only []
      have h1 := (removeChild_local sv sid sid true [s.host] (sidName s.sid)).2
      refine (map_view_of_map_core sid (pushAll_notify _).2).trans ?_
      split
      · split
        · exact ((removeChild_local _ sid sid true [] s.host).2).trans h1
        · exact h1
      · exact h1
    have hfold : ∀ (V : List (List Bytes)) (x : Server), (V.foldl (unmark sid) x).sessions = x.sessions := by
      intro V
      induction V with
      | nil => intro x; rfl
      | cons v r ih => intro x; rw [List.foldl_cons, ih]; rfl
    have e : (detach sv sid).sessions = ((detachPre sv sid s).sessions).filter (fun t => t.sid ≠ sid) := by
      have e0 : detach sv sid =
          (let pre := detachPre sv sid s
           let sv4 := if pre.root.kids.isEmpty then { pre with live := false }
                      else (travGlobal pre s.subs false cbContinue).foldl (unmark sid) pre
           { sv4 with sessions := sv4.sessions.filter (fun t => t.sid ≠ sid) }) := by
        unfold detach; rw [hs]; rfl
      rw [e0]
      by_cases hk : (detachPre sv sid s).root.kids.isEmpty <;> simp [hk, hfold]
    rw [e]
    have comm : ∀ l : List Sess, (l.filter (fun t => t.sid ≠ sid)).map (Sess.view sid)
        = (l.map (Sess.view sid)).filter (fun w => w.sid ≠ sid) := by
      intro l
      rw [List.filter_map]
      congr 2
      funext a
      simp only [Function.comp, Sess.view_sid]
    rw [comm, comm, hpre]

/-- the tree after `detach`: outside the departed subtree, and apart from the root and the host node (which lose a
    child), every node looks the same through `strip sid` -/
theorem detach_frame (sv : Server) (sid : Nat) (s : Sess) (hs : sv.sess? sid = some s) (hwf : HostWF sv s)
    (names : List Bytes) (h0 : names ≠ []) (h1 : names ≠ [s.host]) (h2 : ¬ sessNames s <+: names) :
    (getNode (detach sv sid) names).map (strip sid) = (getNode sv names).map (strip sid) := by
  -- un-mark pass: invisible through `strip sid`
  have hun : ∀ (V : List (List Bytes)) (x : Server) (nm : List Bytes),
      (getNode (V.foldl (unmark sid) x) nm).map (strip sid) = (getNode x nm).map (strip sid) := by
    intro V
    induction V with
    | nil => intro x nm; rfl
    | cons v r ih =>
      intro x nm
      rw [List.foldl_cons, ih]
      simp only [getNode, unmark, setNode]
      exact nodeAt_updateAt_subs sid (fun s => adjustSubs s sid none) (fun s => adjustSubs_filter s sid none) _ _ _ _
  have hroot : getNode (detach sv sid) names =
      getNode (if (detachPre sv sid s).root.kids.isEmpty then (detachPre sv sid s)
        else (travGlobal (detachPre sv sid s) s.subs false cbContinue).foldl (unmark sid) (detachPre sv sid s)) names := by
    simp only [getNode, detach_root sv sid s hs]
  rw [hroot]
  have hpre : (getNode (detachPre sv sid s) names).map (strip sid) = (getNode sv names).map (strip sid) := by
    have hl1 : Local sid [s.host] (sidName s.sid) sv (removeChild sv sid true (sessNames s)) :=
      removeChild_local sv sid sid true [s.host] (sidName s.sid)
    have e1 : (getNode (removeChild sv sid true (sessNames s)) names).map (strip sid) = (getNode sv names).map (strip sid) :=
      hl1.1 names h1 h2
    unfold detachPre
    simp only []
    rw [(pushAll_notify _).getNode]
    split
    · rename_i hn hg
      split
      · rename_i hempty
        -- the emptied host node goes: nothing was below it, and (unique names below the root) nothing is now
        by_cases hh : [s.host] <+: names
        · obtain ⟨w, hw⟩ := hh
          have hgone : getNode (removeChild (removeChild sv sid true (sessNames s)) sid true [s.host]) [s.host] = none := by
            apply removeChild_gone _ sid true [] s.host (fun sv' => getNode_one sv' _)
            intro p hp
            have hfr : OnlyOwn 0 [s.host] sv (removeChild sv sid true (sessNames s)) :=
              removeChild_own sv 0 sid true (sessNames s) (List.prefix_append [s.host] [sidName s.sid]) (by simp [sessNames])
            have hs' := hfr.1 [] (by intro h; have := h.length_le; simp at this)
            rw [hp] at hs'
            have hr : getNode sv [] = some sv.root := by simp [getNode, nodeAt_nil]
            rw [hr] at hs'
            simp only [Option.map_some, Option.some.injEq] at hs'
            have hk : p.kids.map Node.name = sv.root.kids.map Node.name := congrArg Stripped.kidNames hs'
            rw [hk]; exact hwf.1
          have hafter := getNode_append_none _ [s.host] w hgone
          rw [hw] at hafter
          rw [hafter, ← e1]
          -- before: the host node has no children
          cases w with
          | nil => simp at hw; exact absurd hw.symm h1
          | cons b rest =>
            have : getNode (removeChild sv sid true (sessNames s)) names = none := by
              rw [← hw]
              have hkids : hn.kids = [] := by simpa using hempty
              simp only [getNode, fuelDepth] at hg ⊢
              rw [show (110 : Nat) = 108 + 1 + 1 from rfl] at hg ⊢
              rw [nodeAt_succ_cons] at hg
              show nodeAt (108 + 1 + 1) _ (s.host :: b :: rest) = none
              rw [nodeAt_succ_cons]
              cases hf : findKid s.host (removeChild sv sid true (sessNames s)).root.kids with
              | none => rfl
              | some k =>
                rw [hf] at hg
                simp only [nodeAt_nil, Option.some.injEq] at hg
                subst hg
                simp only [nodeAt_succ_cons, hkids, findKid]
            rw [this]
        · have hl2 : Local sid [] s.host (removeChild sv sid true (sessNames s))
              (removeChild (removeChild sv sid true (sessNames s)) sid true [s.host]) :=
            removeChild_local (removeChild sv sid true (sessNames s)) sid sid true [] s.host
          have e2 := hl2.1 names h0 (by simpa using hh)
          rw [e2, e1]
      · exact e1
    · exact e1
  by_cases hk : (detachPre sv sid s).root.kids.isEmpty
  · simp only [hk, if_true]; exact hpre
  · simp only [hk, Bool.false_eq_true, if_false]
    rw [hun]; exact hpre

end Muscle.Reflector
