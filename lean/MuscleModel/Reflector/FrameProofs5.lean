import MuscleModel.Reflector.FrameProofs4

/-!
# Frame lemmas, part 5: departure (`detach`)

* the subtree of the departing session is gone (needs: child names unique below the root and below the host node);
* the un-mark pass clears the mark of the departing session on every node it visits and touches no other mark.
-/

set_option linter.unusedSimpArgs false
set_option linter.unusedVariables false

namespace Muscle.Reflector
open Muscle

/-! ## exact reads after `updateAt` -/

theorem nodeAt_updateAt_same {f : Node → Node} (hname : ∀ n, (f n).name = n.name) :
    ∀ (fuel : Nat) (n : Node) (path : List Bytes),
      nodeAt fuel (updateAt fuel n path f) path = (nodeAt fuel n path).map f := by
  intro fuel
  induction fuel with
  | zero =>
    intro n path
    cases path with
    | nil => simp [updateAt_nil, nodeAt_nil]
    | cons a r => simp [updateAt_zero_cons, nodeAt_zero_cons]
  | succ fuel ih =>
    intro n path
    cases path with
    | nil => simp [updateAt_nil, nodeAt_nil]
    | cons a r =>
      rw [updateAt_succ_cons]
      cases hk : findKid a n.kids with
      | none => simp [nodeAt_succ_cons, hk]
      | some k =>
        simp only []
        have hk'n : (updateAt fuel k r f).name = a := by rw [updateAt_name hname]; exact findKid_name hk
        rw [nodeAt_succ_cons, nodeAt_succ_cons, setKids_kids, hk]
        have : findKid a (putKid (updateAt fuel k r f) n.kids) = some (updateAt fuel k r f) := by
          have := findKid_putKid_same (updateAt fuel k r f) n.kids
          rw [hk'n] at this; exact this
        rw [this]
        exact ih k r

/-- subscriber tables after an update that keeps names and children: changed at `path` only -/
theorem nodeAt_updateAt_subsAt {f : Node → Node} (hname : ∀ n, (f n).name = n.name) (hkids : ∀ n, (f n).kids = n.kids) :
    ∀ (fuel : Nat) (n : Node) (path names : List Bytes),
      (nodeAt fuel (updateAt fuel n path f) names).map Node.subs
        = (nodeAt fuel n names).map (fun m => if names = path then (f m).subs else m.subs) := by
  intro fuel
  induction fuel with
  | zero =>
    intro n path names
    cases path with
    | nil =>
      rw [updateAt_nil]
      cases names with
      | nil => simp [nodeAt_nil]
      | cons b rest => simp [nodeAt_zero_cons]
    | cons a r =>
      rw [updateAt_zero_cons]
      cases names with
      | nil => simp [nodeAt_nil]
      | cons b rest => simp [nodeAt_zero_cons]
  | succ fuel ih =>
    intro n path names
    cases path with
    | nil =>
      rw [updateAt_nil]
      cases names with
      | nil => simp [nodeAt_nil]
      | cons b rest => simp [nodeAt_succ_cons, hkids]
    | cons a r =>
      rw [updateAt_succ_cons]
      cases hk : findKid a n.kids with
      | none =>
        simp only []
        by_cases hn : names = a :: r
        · subst hn; simp [nodeAt_succ_cons, hk]
        · simp [hn]
      | some k =>
        simp only []
        have hk'n : (updateAt fuel k r f).name = a := by rw [updateAt_name hname]; exact findKid_name hk
        cases names with
        | nil => simp [nodeAt_nil]; rfl
        | cons b rest =>
          rw [nodeAt_succ_cons, nodeAt_succ_cons, setKids_kids]
          by_cases hb : b = a
          · subst hb
            have : findKid b (putKid (updateAt fuel k r f) n.kids) = some (updateAt fuel k r f) := by
              have := findKid_putKid_same (updateAt fuel k r f) n.kids
              rw [hk'n] at this; exact this
            rw [this, hk]
            simp only []
            rw [ih k r rest]
            simp
          · have : findKid b (putKid (updateAt fuel k r f) n.kids) = findKid b n.kids := by
              apply findKid_putKid_ne
              rw [hk'n]; exact fun e => hb e.symm
            rw [this]
            have hne : ¬ (b :: rest = a :: r) := by intro e; injection e with e1 _; exact hb e1
            simp [hne]

theorem nodeAt_append_none : ∀ (fuel : Nat) (n : Node) (p w : List Bytes),
    nodeAt fuel n p = none → nodeAt fuel n (p ++ w) = none := by
  intro fuel
  induction fuel with
  | zero =>
    intro n p w h
    cases p with
    | nil => simp [nodeAt_nil] at h
    | cons a r => simp [nodeAt_zero_cons]
  | succ fuel ih =>
    intro n p w h
    cases p with
    | nil => simp [nodeAt_nil] at h
    | cons a r =>
      rw [List.cons_append, nodeAt_succ_cons]
      rw [nodeAt_succ_cons] at h
      cases hk : findKid a n.kids with
      | none => rfl
      | some k =>
        rw [hk] at h
        exact ih k r w h

/-! ## reading the tree after the primitives -/

theorem NotifyOnly.getNode {a b : Server} (h : NotifyOnly a b) (names : List Bytes) : getNode b names = getNode a names := by
  simp only [Muscle.Reflector.getNode, h.1]

theorem getNode_setNode_same (sv : Server) (path : List Bytes) {f : Node → Node} (hname : ∀ n, (f n).name = n.name) :
    getNode (setNode sv path f) path = (getNode sv path).map f := by
  simp only [getNode, setNode]
  exact nodeAt_updateAt_same hname _ _ _

theorem removeIndexEntry_kids (sv : Server) (parent : List Bytes) (key : Bytes) (notify : Bool) :
    (getNode (removeIndexEntry sv parent key notify) parent).map Node.kids = (getNode sv parent).map Node.kids := by
  have hset : ∀ i : Nat, (getNode (setNode sv parent (fun p => p.setIndex (p.index.eraseIdx i))) parent).map Node.kids
      = (getNode sv parent).map Node.kids := by
    intro i
    rw [getNode_setNode_same sv parent (by intro _; rfl), Option.map_map]
    rfl
  unfold removeIndexEntry
  split
  · rfl
  · split
    · rfl
    · simp only []
      split
      · split
        · rw [(notifyIndex_notify ..).getNode]; exact hset _
        · exact hset _
      · exact hset _

theorem findKid_removeKid_nodup (nm : Bytes) (kids : List Node) (h : (kids.map Node.name).Nodup) :
    findKid nm (removeKid nm kids) = none := by
  induction kids with
  | nil => rfl
  | cons a r ih =>
    simp only [List.map_cons, List.nodup_cons] at h
    simp only [removeKid]
    split
    · rename_i ha
      cases hf : findKid nm r with
      | none => rfl
      | some k =>
        have : nm ∈ r.map Node.name := findKid_isSome_iff.mp (by rw [hf]; rfl)
        rw [← ha] at this
        exact absurd this h.1
    · rename_i ha
      simp only [findKid, ha, if_false]
      exact ih h.2

theorem gone_aux (sv X : Server) (parent : List Bytes) (key : Bytes)
    (hX : (getNode X parent).map Node.kids = (getNode sv parent).map Node.kids)
    (hnd : ∀ p, getNode sv parent = some p → (p.kids.map Node.name).Nodup) :
    ((getNode X parent).map (fun p => p.setKids (removeKid key p.kids))).bind (fun p => findKid key p.kids) = none := by
  cases hx : getNode X parent with
  | none => rfl
  | some px =>
    cases hp : getNode sv parent with
    | none => rw [hx, hp] at hX; simp at hX
    | some p =>
      rw [hx, hp] at hX
      simp only [Option.map_some, Option.some.injEq] at hX
      simp only [Option.map_some, Option.bind_some, setKids_kids, hX]
      exact findKid_removeKid_nodup key p.kids (hnd p hp)

/-- `removeOne` of a child of `parent` whose child names are unique: the node is gone -/
theorem removeOne_gone (sv : Server) (by_ : Nat) (notify : Bool) (parent : List Bytes) (key : Bytes)
    (hsnoc : ∀ sv' : Server, getNode sv' (parent ++ [key]) = (getNode sv' parent).bind (fun p => findKid key p.kids))
    (hnd : ∀ p, getNode sv parent = some p → (p.kids.map Node.name).Nodup) :
    getNode (removeOne sv by_ notify (parent ++ [key])) (parent ++ [key]) = none := by
  unfold removeOne
  have hl : (parent ++ [key]).getLast? = some key := by simp
  have hd : (parent ++ [key]).dropLast = parent := by simp
  rw [hl, hd]
  cases hg : getNode sv (parent ++ [key]) with
  | none => simp only []; exact hg
  | some c =>
    simp only []
    rw [hsnoc, getNode_setNode_same _ _ (by intro _; rfl)]
    apply gone_aux sv _ parent key _ hnd
    split
    · split
      · rw [(notifyChanged_notify ..).getNode]; exact removeIndexEntry_kids ..
      · exact removeIndexEntry_kids ..
    · exact removeIndexEntry_kids ..

theorem removalOrder_succ_mem (fuel : Nat) (names : List Bytes) (n : Node) :
    ∀ nm ∈ n.kids.flatMap (fun k => removalOrder fuel (names ++ [k.name]) k), names <+: nm ∧ names.length < nm.length := by
  intro nm h
  simp only [List.mem_flatMap] at h
  obtain ⟨k, _, hk⟩ := h
  have hp := removalOrder_prefix fuel (names ++ [k.name]) k nm hk
  refine ⟨(List.prefix_append names [k.name]).trans hp, ?_⟩
  have := hp.length_le
  simp at this
  omega

/-- `RemoveChild(recurse)` of a child of `parent` whose child names are unique: the node is gone -/
theorem removeChild_gone (sv : Server) (by_ : Nat) (notify : Bool) (parent : List Bytes) (key : Bytes)
    (hsnoc : ∀ sv' : Server, getNode sv' (parent ++ [key]) = (getNode sv' parent).bind (fun p => findKid key p.kids))
    (hnd : ∀ p, getNode sv parent = some p → (p.kids.map Node.name).Nodup) :
    getNode (removeChild sv by_ notify (parent ++ [key])) (parent ++ [key]) = none := by
  unfold removeChild
  cases hg : getNode sv (parent ++ [key]) with
  | none => simp only []; exact hg
  | some n =>
    simp only []
    rw [show fuelDepth = 109 + 1 from rfl, removalOrder, List.foldl_append, List.foldl_cons, List.foldl_nil]
    apply removeOne_gone _ _ _ _ _ hsnoc
    intro p hp
    -- the removal of the descendants leaves `parent`'s child names alone
    have hA : OnlyOwn 0 (parent ++ [key]) sv
        ((n.kids.flatMap (fun k => removalOrder 109 (parent ++ [key] ++ [k.name]) k)).foldl
          (fun sv nm => removeOne sv by_ notify nm) sv) := by
      apply OnlyOwn.foldl
      intro sv1 nm hnm
      obtain ⟨h1, h2⟩ := removalOrder_succ_mem 109 (parent ++ [key]) n nm hnm
      exact removeOne_own sv1 0 by_ notify nm (prefix_dropLast h1 h2)
    have hnp : ¬ (parent ++ [key]) <+: parent := by
      intro h; have := h.length_le; simp at this; omega
    have hs := hA.1 parent hnp
    rw [hp] at hs
    cases hq : getNode sv parent with
    | none => rw [hq] at hs; simp at hs
    | some q =>
      rw [hq] at hs
      simp only [Option.map_some, Option.some.injEq] at hs
      have hk : p.kids.map Node.name = q.kids.map Node.name := congrArg Stripped.kidNames hs
      rw [hk]; exact hnd q hq

theorem getNode_one (sv : Server) (h : Bytes) :
    getNode sv [h] = (getNode sv []).bind (fun p => findKid h p.kids) := by
  simp only [getNode, fuelDepth]
  rw [show (110 : Nat) = 109 + 1 from rfl, nodeAt_succ_cons, nodeAt_nil]
  cases hk : findKid h sv.root.kids <;> simp [hk, nodeAt_nil]

/-! ## the un-mark pass of `Cleanup` -/

/-- the reference count of `sid` on the node at `names`, if that node exists -/
def markAt (sv : Server) (sid : Nat) (names : List Bytes) : Option Nat :=
  (getNode sv names).map (fun n => subCount n.subs sid)

def unmark (sid : Nat) (sv : Server) (v : List Bytes) : Server :=
  setNode sv v (fun n => n.setSubs (adjustSubs n.subs sid none))

theorem subCount_adjust_none (subs : List (Nat × Nat)) (sid : Nat) : subCount (adjustSubs subs sid none) sid = 0 := by
  have : adjustSubs subs sid none = subs.filter (fun (k, _) => k ≠ sid) := by
    simp [adjustSubs]
  rw [this]
  unfold subCount
  have : (subs.filter (fun (k, _) => k ≠ sid)).find? (fun (k, _) => k = sid) = none := by
    rw [List.find?_eq_none]
    intro ⟨k, c⟩ hx
    simp at hx
    simp [hx.2]
  rw [this]

theorem markAt_unmark (sv : Server) (sid : Nat) (v names : List Bytes) :
    markAt (unmark sid sv v) sid names = if names = v then (markAt sv sid names).map (fun _ => 0) else markAt sv sid names := by
  unfold markAt unmark
  have h := nodeAt_updateAt_subsAt (f := fun n => n.setSubs (adjustSubs n.subs sid none)) (by intro _; rfl) (by intro _; rfl)
    fuelDepth sv.root v names
  have e : ∀ o : Option Node, o.map (fun n => subCount n.subs sid) = (o.map Node.subs).map (fun s => subCount s sid) := by
    intro o; cases o <;> rfl
  simp only [getNode, setNode]
  rw [e, h]
  by_cases hv : names = v
  · simp only [hv, if_true]
    cases nodeAt fuelDepth sv.root v with
    | none => rfl
    | some m =>
      simp only [Option.map_some]
      congr 1
      exact subCount_adjust_none m.subs sid
  · simp only [hv, if_false]
    cases nodeAt fuelDepth sv.root names <;> rfl

theorem markAt_unmark_all (sid : Nat) (V : List (List Bytes)) : ∀ (sv : Server) (names : List Bytes),
    markAt (V.foldl (unmark sid) sv) sid names = if names ∈ V then (markAt sv sid names).map (fun _ => 0) else markAt sv sid names := by
  induction V with
  | nil => intro sv names; simp
  | cons v r ih =>
    intro sv names
    rw [List.foldl_cons, ih, markAt_unmark]
    by_cases h1 : names = v
    · subst h1
      by_cases h2 : names ∈ r
      · cases markAt sv sid names <;> simp [h2]
      · simp [h2]
    · by_cases h2 : names ∈ r
      · simp [h1, h2]
      · simp [h1, h2]

/-! ## `detach` -/

/-- the state of `detach` just before the un-mark pass: own subtree (and an emptied host node) removed,
    pending update Messages pushed -/
def detachPre (sv : Server) (sid : Nat) (s : Sess) : Server :=
  let sv := removeChild sv sid true (sessNames s)
  let sv := match getNode sv [s.host] with
    | some h => if h.kids.isEmpty then removeChild sv sid true [s.host] else sv
    | none => sv
  pushAll sv

theorem detach_root (sv : Server) (sid : Nat) (s : Sess) (hs : sv.sess? sid = some s) :
    (detach sv sid).root =
      (if (detachPre sv sid s).root.kids.isEmpty then (detachPre sv sid s)
       else (travGlobal (detachPre sv sid s) s.subs false cbContinue).foldl (unmark sid) (detachPre sv sid s)).root := by
  have e : detach sv sid =
      (let pre := detachPre sv sid s
       let sv4 := if pre.root.kids.isEmpty then { pre with live := false }
                  else (travGlobal pre s.subs false cbContinue).foldl (unmark sid) pre
       { sv4 with sessions := sv4.sessions.filter (fun t => t.sid ≠ sid) }) := by
    unfold detach; rw [hs]; rfl
  rw [e]
  by_cases hk : (detachPre sv sid s).root.kids.isEmpty <;> simp [hk]

theorem markAt_congr_root {a b : Server} (h : a.root = b.root) (sid : Nat) (names : List Bytes) :
    markAt a sid names = markAt b sid names := by
  simp only [markAt, getNode, h]

/-- after `detach`: marks cleared on every node the un-mark traversal visits, unchanged elsewhere -/
theorem markAt_detach (sv : Server) (sid : Nat) (s : Sess) (hs : sv.sess? sid = some s) (names : List Bytes) :
    markAt (detach sv sid) sid names =
      if ¬ (detachPre sv sid s).root.kids.isEmpty ∧ names ∈ travGlobal (detachPre sv sid s) s.subs false cbContinue
      then (markAt (detachPre sv sid s) sid names).map (fun _ => 0)
      else markAt (detachPre sv sid s) sid names := by
  rw [markAt_congr_root (detach_root sv sid s hs)]
  by_cases hk : (detachPre sv sid s).root.kids.isEmpty
  · simp [hk]
  · simp only [hk, Bool.false_eq_true, if_false, not_false_eq_true, true_and]
    exact markAt_unmark_all sid _ _ names

theorem getNode_append_none (sv : Server) (p w : List Bytes) (h : getNode sv p = none) : getNode sv (p ++ w) = none :=
  nodeAt_append_none _ _ _ _ h

/-- unique child names below the root and below the host node of `s` -/
def HostWF (sv : Server) (s : Sess) : Prop :=
  (sv.root.kids.map Node.name).Nodup ∧ ∀ p, getNode sv [s.host] = some p → (p.kids.map Node.name).Nodup

theorem detachPre_own_gone (sv : Server) (sid : Nat) (s : Sess) (hwf : HostWF sv s) :
    getNode (detachPre sv sid s) (sessNames s) = none := by
  obtain ⟨hroot, hhost⟩ := hwf
  have h1 : getNode (removeChild sv sid true (sessNames s)) (sessNames s) = none :=
    removeChild_gone sv sid true [s.host] (sidName s.sid) (fun sv' => getNode_two sv' _ _) hhost
  have hfr : OnlyOwn 0 [s.host] sv (removeChild sv sid true (sessNames s)) :=
    removeChild_own sv 0 sid true (sessNames s) (List.prefix_append [s.host] [sidName s.sid]) (by simp [sessNames])
  unfold detachPre
  simp only []
  rw [(pushAll_notify _).getNode]
  split
  · split
    · have : getNode (removeChild (removeChild sv sid true (sessNames s)) sid true [s.host]) [s.host] = none := by
        apply removeChild_gone _ sid true [] s.host (fun sv' => getNode_one sv' _)
        intro p hp
        have hs := hfr.1 [] (by intro h; have := h.length_le; simp at this)
        rw [hp] at hs
        have hr : getNode sv [] = some sv.root := by simp [getNode, nodeAt_nil]
        rw [hr] at hs
        simp only [Option.map_some, Option.some.injEq] at hs
        have hk : p.kids.map Node.name = sv.root.kids.map Node.name := congrArg Stripped.kidNames hs
        rw [hk]; exact hroot
      exact getNode_append_none _ [s.host] [sidName s.sid] this
    · exact h1
  · exact h1

theorem getNode_of_markAt_none {sv : Server} {sid : Nat} {names : List Bytes} (h : markAt sv sid names = none) :
    getNode sv names = none := by
  unfold markAt at h
  cases hg : getNode sv names with
  | none => rfl
  | some n => rw [hg] at h; simp at h

theorem detach_own_gone (sv : Server) (sid : Nat) (s : Sess) (hs : sv.sess? sid = some s) (hwf : HostWF sv s)
    (w : List Bytes) : getNode (detach sv sid) (sessNames s ++ w) = none := by
  apply getNode_append_none
  apply getNode_of_markAt_none (sid := sid)
  rw [markAt_detach sv sid s hs]
  have : markAt (detachPre sv sid s) sid (sessNames s) = none := by
    simp only [markAt, detachPre_own_gone sv sid s hwf, Option.map_none]
  rw [this]
  split <;> rfl

theorem detach_sessions (sv : Server) (sid : Nat) : ∀ t ∈ (detach sv sid).sessions, t.sid ≠ sid ∨ sv.sess? sid = none := by
  intro t ht
  cases hs : sv.sess? sid with
  | none => exact Or.inr rfl
  | some s =>
    left
    unfold detach at ht
    rw [hs] at ht
    simp only [List.mem_filter, decide_eq_true_eq] at ht
    exact ht.2

theorem travGlobal_ne (sv : Server) (pm : PM) (uf : Bool) (cb : Visit → Nat → Node → Bool × Int) :
    ([] : List Bytes) ∉ travGlobal sv pm uf cb := by
  intro h
  exact doTraversal_ne _ _ _ _ _ _ [] h rfl

/-- If the un-mark traversal reaches every node that carries a mark of `sid`, no mark of `sid` is left. -/
theorem detach_no_marks (sv : Server) (sid : Nat) (s : Sess) (hs : sv.sess? sid = some s)
    (hcover : ∀ names k, markAt (detachPre sv sid s) sid names = some k → k ≠ 0 →
      names ∈ travGlobal (detachPre sv sid s) s.subs false cbContinue)
    (names : List Bytes) (n : Node) (hn : getNode (detach sv sid) names = some n) : subCount n.subs sid = 0 := by
  have hm : markAt (detach sv sid) sid names = some (subCount n.subs sid) := by
    simp only [markAt, hn, Option.map_some]
  rw [markAt_detach sv sid s hs] at hm
  split at hm
  · cases hp : markAt (detachPre sv sid s) sid names with
    | none => rw [hp] at hm; simp at hm
    | some k => rw [hp] at hm; simp at hm; exact hm.symm
  · rename_i hc
    by_cases h0 : subCount n.subs sid = 0
    · exact h0
    · exfalso
      have hin := hcover names _ hm h0
      apply hc
      refine ⟨?_, hin⟩
      intro hk
      -- the root has no children: only the root exists, and no traversal visits the root
      cases names with
      | nil => exact travGlobal_ne _ _ _ _ hin
      | cons a r =>
        have : getNode (detachPre sv sid s) (a :: r) = none := by
          simp only [getNode, fuelDepth]
          rw [show (110 : Nat) = 109 + 1 from rfl, nodeAt_succ_cons]
          have : (detachPre sv sid s).root.kids = [] := by simpa using hk
          rw [this]; rfl
        simp only [markAt, this, Option.map_none] at hm
        exact absurd hm (by simp)

/-! ## a concrete state for the non-vacuity example of `departure_no_marks_partial`

One session (id 0, host `h`, subscribed to `x`) and a tree holding just the node `/x` with one mark of session 0
(the session's own nodes are absent, so that nothing depends on the kernel evaluating `toString`).  The un-mark
traversal visits `/x`, the only marked node. -/

def orphanS : Sess := { slot := 0, sid := 0, host := [104], subs := [(1, [{ path := [120], clauses := [[120]], filter := none }])] }
def orphanSv : Server :=
  { root := .mk [] none [ .mk [120] none [] [] 0 [(0, 1)] ] [] 0 [], live := true, sessions := [orphanS], nextSid := 1 }

theorem orphan_sess : orphanSv.sess? 0 = some orphanS := rfl
theorem orphan_trav : travGlobal orphanSv orphanS.subs false cbContinue = [[[120]]] := by decide
theorem orphan_pre : detachPre orphanSv 0 orphanS = orphanSv := rfl
theorem orphan_mark : markAt orphanSv 0 [[120]] = some 1 := rfl
theorem orphan_cover : ∀ names k, markAt (detachPre orphanSv 0 orphanS) 0 names = some k → k ≠ 0 →
      names ∈ travGlobal (detachPre orphanSv 0 orphanS) orphanS.subs false cbContinue := by
  intro names k hm hk
  rw [orphan_pre] at hm ⊢
  rw [orphan_trav]
  match names, hm with
  | [], hm =>
    have : markAt orphanSv 0 [] = some 0 := rfl
    rw [this] at hm; injection hm with e; exact absurd e.symm hk
  | [a], hm =>
    by_cases ha : a = [120]
    · subst ha; simp
    · have : markAt orphanSv 0 [a] = none := by
        have ha' : ¬ ([120] : Bytes) = a := fun e => ha e.symm
        simp [markAt, getNode, fuelDepth, nodeAt, orphanSv, findKid, Node.kids, Node.name, ha']
      rw [this] at hm; cases hm
  | a :: b :: r, hm =>
    have : markAt orphanSv 0 (a :: b :: r) = none := by
      by_cases ha : ([120] : Bytes) = a <;>
        simp [markAt, getNode, fuelDepth, nodeAt, orphanSv, findKid, Node.kids, Node.name, ha]
    rw [this] at hm; cases hm

end Muscle.Reflector
