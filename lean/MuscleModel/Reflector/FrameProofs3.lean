import MuscleModel.Reflector.FrameProofs2
import MuscleModel.Engines.Srv

/-!
# Frame lemmas, part 3: traversal results, command handlers, `runCmd`
-/

set_option linter.unusedSimpArgs false
set_option linter.unusedVariables false

namespace Muscle.Reflector
open Muscle

/-- peel known primitives off the outside of the target state of an `OnlyOwn` goal -/
macro "own_chain" : tactic => `(tactic| repeat (first
  | exact OnlyOwn.refl ..
  | refine OnlyOwn.trans ?_ ((notifyChanged_notify ..).onlyOwn _ _)
  | refine OnlyOwn.trans ?_ ((notifyIndex_notify ..).onlyOwn _ _)
  | refine OnlyOwn.trans ?_ ((deliver_notify ..).onlyOwn _ _)
  | refine OnlyOwn.trans ?_ (updSess_own _ _ _ _ (by intro _; exact ⟨rfl, rfl, rfl⟩))
  | refine OnlyOwn.trans ?_ (setNode_own _ _ _ (by assumption) (by intro _; rfl))
  | refine OnlyOwn.trans ?_ (putChild_own _ _ _ _ _ (by assumption))
  | refine OnlyOwn.trans ?_ (insertOrderedChild_own _ _ _ _ _ _ _ (by assumption))))

/-! ## PR_COMMAND_SETDATA -/

theorem setDataClauses_own (sid : Nat) {own : List Bytes} (d : Option Nat) (ati : Bool) :
    ∀ (cls : List Bytes) (sv : Server) (cur : List Bytes), own <+: cur →
      OnlyOwn sid own sv (setDataClauses sid d ati sv cur cls) := by
  intro cls
  induction cls with
  | nil => intro sv cur _; simp only [setDataClauses]; exact OnlyOwn.refl ..
  | cons cl rest ih =>
    intro sv cur h
    have h' : own <+: cur ++ [cl] := h.trans (List.prefix_append _ _)
    simp only [setDataClauses]
    split
    · exact OnlyOwn.refl ..
    · split
      · refine OnlyOwn.trans ?_ (ih _ _ h')
        repeat' (first | split | simp only [])
        all_goals own_chain
      · refine OnlyOwn.trans ?_ (ih _ _ h')
        repeat' (first | split | simp only [])
        all_goals own_chain

theorem setDataNode_own (sv : Server) (sid : Nat) (s : Sess) (hs : sv.sess? sid = some s) (path : Bytes)
    (d : Option Nat) (ati : Bool) : OnlyOwn sid (sessNames s) sv (setDataNode sv sid path d ati) := by
  unfold setDataNode
  rw [hs]
  simp only []
  split
  · exact OnlyOwn.refl ..
  · split
    · exact OnlyOwn.refl ..
    · exact setDataClauses_own sid d ati _ sv _ (List.prefix_refl _)

/-! ## every recorded visit of a traversal is a non-empty relative path -/

def VisitsNE (vs : List Visit) : Prop := ∀ v ∈ vs, v ≠ []

theorem VisitsNE.nil : VisitsNE [] := by intro v h; simp at h

theorem VisitsNE.append {a b : List Visit} (ha : VisitsNE a) (hb : VisitsNE b) : VisitsNE (a ++ b) := by
  intro v h
  rcases List.mem_append.mp h with h | h
  · exact ha v h
  · exact hb v h

theorem VisitsNE.snoc {a : List Visit} (ha : VisitsNE a) (names : Visit) (nm : Bytes) : VisitsNE (a ++ [names ++ [nm]]) := by
  apply ha.append
  intro v h
  simp at h
  subst h
  simp

theorem checkEntries_ne (ctx : TCtx) (rec : Rec) (hrec : ∀ c cn d, VisitsNE (rec c cn d).1)
    (child : Node) (names : Visit) (depth : Nat) (known : Option Nat) :
    ∀ (es : List Entry) (idx : Nat) (st : CState), VisitsNE st.visits →
      VisitsNE (checkEntries ctx rec child (names ++ [child.name]) depth known es idx st).visits := by
  intro es
  induction es with
  | nil => intro idx st hst; simpa [checkEntries] using hst
  | cons e es ih =>
    intro idx st hst
    simp only [checkEntries]
    split
    · exact hst
    · apply ih
      have hr := hrec child (names ++ [child.name]) (depth + 1)
      repeat' (first | split | simp only [])
      all_goals first
        | exact hst
        | exact hst.snoc names child.name
        | exact hst.append hr

theorem checkChild_ne (ctx : TCtx) (rec : Rec) (hrec : ∀ c cn d, VisitsNE (rec c cn d).1)
    (child : Node) (names : Visit) (depth : Nat) (known : Option Nat) :
    VisitsNE (checkChild ctx rec child names depth known).1 := by
  unfold checkChild
  simp only []
  exact checkEntries_ne ctx rec hrec child names depth known _ _ _ VisitsNE.nil

theorem travKids_ne (ctx : TCtx) (rec : Rec) (hrec : ∀ c cn d, VisitsNE (rec c cn d).1) (names : Visit) (depth : Nat) :
    ∀ (kids : List Node) (acc : List Visit), VisitsNE acc → VisitsNE (travKids ctx rec names depth kids acc).1 := by
  intro kids
  induction kids with
  | nil => intro acc h; simpa [travKids] using h
  | cons k r ih =>
    intro acc h
    simp only [travKids]
    have hc := checkChild_ne ctx rec hrec k names depth none
    split
    · rename_i vs d heq
      rw [heq] at hc
      exact h.append hc
    · rename_i vs heq
      rw [heq] at hc
      exact ih _ (h.append hc)

theorem lookupElems_ne (ctx : TCtx) (rec : Rec) (hrec : ∀ c cn d, VisitsNE (rec c cn d).1) (node : Node)
    (names : Visit) (depth idx : Nat) :
    ∀ (els did : List Bytes) (acc : List Visit), VisitsNE acc →
      VisitsNE (lookupElems ctx rec node names depth idx els did acc).1 := by
  intro els
  induction els with
  | nil => intro did acc h; simpa [lookupElems] using h
  | cons el els ih =>
    intro did acc h
    simp only [lookupElems]
    split
    · exact ih _ _ h
    · rename_i k hk
      split
      · exact ih _ _ h
      · have hc := checkChild_ne ctx rec hrec k names depth (some idx)
        split
        · rename_i vs d heq
          rw [heq] at hc
          exact h.append hc
        · rename_i vs heq
          rw [heq] at hc
          exact ih _ _ (h.append hc)

theorem travLookups_ne (ctx : TCtx) (rec : Rec) (hrec : ∀ c cn d, VisitsNE (rec c cn d).1) (node : Node)
    (names : Visit) (depth : Nat) :
    ∀ (es : List Entry) (idx : Nat) (did : List Bytes) (acc : List Visit), VisitsNE acc →
      VisitsNE (travLookups ctx rec node names depth es idx did acc).1 := by
  intro es
  induction es with
  | nil => intro idx did acc h; simpa [travLookups] using h
  | cons e es ih =>
    intro idx did acc h
    simp only [travLookups]
    have hl := fun els => lookupElems_ne ctx rec hrec node names depth idx els did acc h
    split
    · rename_i acc' x d heq
      have := congrArg Prod.fst heq
      simp only [] at this
      show VisitsNE acc'
      rw [← this]; exact hl _
    · rename_i acc' did' heq
      have := congrArg Prod.fst heq
      simp only [] at this
      apply ih
      rw [← this]; exact hl _

theorem travLevel_ne (ctx : TCtx) (rec : Rec) (hrec : ∀ c cn d, VisitsNE (rec c cn d).1) (node : Node)
    (names : Visit) (depth : Nat) : VisitsNE (travLevel ctx rec node names depth).1 := by
  unfold travLevel
  simp only []
  split
  · exact travKids_ne ctx rec hrec names depth _ _ VisitsNE.nil
  · exact travLookups_ne ctx rec hrec node names depth _ _ _ _ VisitsNE.nil

theorem travAux_ne (ctx : TCtx) : ∀ (fuel : Nat) (node : Node) (names : Visit) (depth : Nat),
    VisitsNE (travAux ctx fuel node names depth).1 := by
  intro fuel
  induction fuel with
  | zero => intro node names depth; simp only [travAux]; exact VisitsNE.nil
  | succ fuel ih =>
    intro node names depth
    simp only [travAux]
    exact travLevel_ne ctx _ ih node names depth

theorem doTraversal_ne (pm : PM) (uf : Bool) (rd : Nat) (cb : Visit → Nat → Node → Bool × Int) (node : Node) (fuel : Nat) :
    VisitsNE (doTraversal pm uf rd cb node fuel) := by
  unfold doTraversal
  exact travAux_ne _ _ _ _ _

/-- `travSession` returns absolute paths strictly below the session node -/
theorem travSession_suffix (sv : Server) (s : Sess) (pm : PM) (cb : Visit → Nat → Node → Bool × Int) :
    ∀ v ∈ travSession sv s pm cb, ∃ w, w ≠ [] ∧ v = sessNames s ++ w := by
  intro v hv
  unfold travSession at hv
  split at hv
  · simp at hv
  · simp only [List.mem_map] at hv
    obtain ⟨w, hw, rfl⟩ := hv
    exact ⟨w, doTraversal_ne _ _ _ _ _ _ w hw, rfl⟩

theorem travSession_prefix (sv : Server) (s : Sess) (pm : PM) (cb : Visit → Nat → Node → Bool × Int) :
    ∀ v ∈ travSession sv s pm cb, sessNames s <+: v := by
  intro v hv
  obtain ⟨w, _, rfl⟩ := travSession_suffix sv s pm cb v hv
  exact List.prefix_append _ _

theorem travSession_length (sv : Server) (s : Sess) (pm : PM) (cb : Visit → Nat → Node → Bool × Int) :
    ∀ v ∈ travSession sv s pm cb, (sessNames s).length < v.length := by
  intro v hv
  obtain ⟨w, hw, rfl⟩ := travSession_suffix sv s pm cb v hv
  cases w with
  | nil => exact absurd rfl hw
  | cons a r => simp

/-! ## subscriptions -/

theorem subscribeRefs_own (sv : Server) (sid : Nat) (own : List Bytes) (pm : PM) (delta : Option Int) :
    OnlyOwn sid own sv (subscribeRefs sv sid pm delta) := by
  unfold subscribeRefs
  apply OnlyOwn.foldl
  intro sv1 v _
  exact setNode_subs sv1 sid own v delta

theorem foldl_inv {α β} (P : β → Prop) (g : β → α → β) (hg : ∀ b a, P b → P (g b a)) (l : List α) (b : β) (hb : P b) :
    P (l.foldl g b) := by
  induction l generalizing b with
  | nil => exact hb
  | cons a r ih => exact ih _ (hg b a hb)

theorem doGetData_notify (sv : Server) (sid : Nat) (keys : List (Bytes × Option Filt)) :
    NotifyOnly sv (doGetData sv sid keys) := by
  unfold doGetData
  split
  · exact NotifyOnly.refl sv
  · rename_i s hs
    simp only []
    repeat' split
    all_goals
      repeat (first | refine NotifyOnly.trans ?_ (deliver_notify ..))
      apply foldl_inv (fun st : Server × UpdMsg × IdxMsg => NotifyOnly sv st.1)
      · intro st v hst
        try simp only [] at hst
        try simp only []
        split
        · exact hst
        · repeat' (first | split | simp only [])
          all_goals first
            | exact hst
            | exact hst.trans (deliver_notify ..)
            | exact (hst.trans (deliver_notify ..)).trans (deliver_notify ..)
      · exact NotifyOnly.refl sv

theorem subscribe_own (sv : Server) (sid : Nat) (own : List Bytes) (path : Bytes) (f : Option Filt) :
    OnlyOwn sid own sv (subscribe sv sid path f) := by
  unfold subscribe
  split
  · exact OnlyOwn.refl ..
  · rename_i s hs
    simp only []
    refine OnlyOwn.trans ?_ ((doGetData_notify ..).onlyOwn sid own)
    refine OnlyOwn.trans ?_ (updSess_own _ sid own _ (by intro _; exact ⟨rfl, rfl, rfl⟩))
    split
    · refine OnlyOwn.trans ?_ (updSess_own _ sid own _ (by intro _; exact ⟨rfl, rfl, rfl⟩))
      split
      · apply NotifyOnly.onlyOwn
        apply NotifyOnly.foldl
        intro sv1 v
        try simp only []
        repeat' (first | split | simp only [])
        all_goals first
          | exact NotifyOnly.refl _
          | exact nodeChangedAux_notify ..
      · exact OnlyOwn.refl ..
    · split
      · exact OnlyOwn.refl ..
      · refine OnlyOwn.trans ?_ (subscribeRefs_own _ sid own _ _)
        exact updSess_own _ sid own _ (by intro _; exact ⟨rfl, rfl, rfl⟩)

theorem unsubscribe_own (sv : Server) (sid : Nat) (own : List Bytes) (path : Bytes) :
    OnlyOwn sid own sv (unsubscribe sv sid path) := by
  unfold unsubscribe
  split
  · exact OnlyOwn.refl ..
  · rename_i s hs
    simp only []
    split
    · exact OnlyOwn.refl ..
    · refine OnlyOwn.trans ?_ (updSess_own _ sid own _ (by intro _; exact ⟨rfl, rfl, rfl⟩))
      split
      · refine OnlyOwn.trans ?_ (subscribeRefs_own _ sid own _ _)
        exact updSess_own _ sid own _ (by intro _; exact ⟨rfl, rfl, rfl⟩)
      · exact OnlyOwn.refl ..

/-! ## traversal-driven write handlers -/

theorem sessNames_length (s : Sess) : (sessNames s).length = 2 := rfl

theorem removeData_own (sv : Server) (sid : Nat) (s : Sess) (hs : sv.sess? sid = some s) (keys : List Bytes) :
    OnlyOwn sid (sessNames s) sv (removeData sv sid keys) := by
  unfold removeData
  rw [hs]
  simp only []
  apply OnlyOwn.foldl
  intro sv1 v hv
  rw [List.mem_reverse] at hv
  exact removeChild_own sv1 sid sid true v (travSession_prefix _ _ _ _ v hv) (travSession_length _ _ _ _ v hv)

theorem insertOrdered_own (sv : Server) (sid : Nat) (s : Sess) (hs : sv.sess? sid = some s) (key before : Bytes)
    (vals : List Nat) : OnlyOwn sid (sessNames s) sv (insertOrdered sv sid key before vals) := by
  unfold insertOrdered
  rw [hs]
  simp only []
  apply OnlyOwn.foldl
  intro sv1 v hv
  have hp := travSession_prefix _ _ _ _ v hv
  apply OnlyOwn.foldl
  intro sv2 x _
  try simp only []
  refine OnlyOwn.trans ?_ (updSess_own _ sid _ _ (by intro _; exact ⟨rfl, rfl, rfl⟩))
  exact insertOrderedChild_own sv2 sid sid _ _ _ _ hp

theorem reorderCore_own (sv : Server) (sid : Nat) (s : Sess) (hs : sv.sess? sid = some s) (key before : Bytes) :
    OnlyOwn sid (sessNames s) sv (reorderCore sv sid key before) := by
  unfold reorderCore
  rw [hs]
  simp only []
  apply OnlyOwn.foldl
  intro sv1 v hv
  have hp := travSession_prefix _ _ _ _ v hv
  try simp only []
  split
  · exact OnlyOwn.refl ..
  · split
    · exact OnlyOwn.refl ..
    · rename_i hl
      apply reorderChild_own
      apply prefix_dropLast hp
      rw [sessNames_length]; omega

theorem reorder_own (sv : Server) (sid : Nat) (s : Sess) (hs : sv.sess? sid = some s) (key before : Bytes) :
    OnlyOwn sid (sessNames s) sv (reorder sv sid key before) := by
  unfold reorder
  rw [hs]
  simp only []
  split
  · exact OnlyOwn.trans (reorderCore_own sv sid s hs key before) (updSess_own _ sid _ _ (by intro _; exact ⟨rfl, rfl, rfl⟩))
  · exact reorderCore_own sv sid s hs key before

/-! ## client-to-client Messages -/

theorem route_notify (sv : Server) (sid : Nat) (pm : PM) (what : String) : NotifyOnly sv (route sv sid pm what) := by
  unfold route
  split
  · exact NotifyOnly.refl sv
  · simp only []
    apply NotifyOnly.foldl
    intro sv1 v
    try simp only []
    repeat' (first | split | simp only [])
    all_goals first
      | exact NotifyOnly.refl _
      | exact deliver_notify ..

theorem sendMsg_notify (sv : Server) (sid : Nat) (tag : Nat) (keys : List Bytes) : NotifyOnly sv (sendMsg sv sid tag keys) := by
  unfold sendMsg
  split
  · exact NotifyOnly.refl sv
  · simp only []
    split
    · exact route_notify ..
    · split
      · exact route_notify ..
      · apply NotifyOnly.foldl
        intro sv1 t
        split
        · exact deliver_notify ..
        · exact NotifyOnly.refl _

end Muscle.Reflector

/-! ## `runCmd` -/

namespace Muscle.Eng.SrvEngine
open Muscle Muscle.Eng Muscle.Reflector

theorem runCmd_own (sv : Server) (sid : Nat) (s : Sess) (hs : sv.sess? sid = some s) (c : Cmd) :
    OnlyOwn sid (sessNames s) sv (runCmd sv sid c) := by
  cases c with
  | set path v ati => exact setDataNode_own sv sid s hs path _ ati
  | rm keys => exact removeData_own sv sid s hs keys
  | sub path f => exact subscribe_own sv sid _ path f
  | unsub path => exact unsubscribe_own sv sid _ path
  | paramSelf => exact updSess_own sv sid _ _ (by intro _; exact ⟨rfl, rfl, rfl⟩)
  | paramMax n => exact updSess_own sv sid _ _ (by intro _; exact ⟨rfl, rfl, rfl⟩)
  | paramRoute keys => exact updSess_own sv sid _ _ (by intro _; exact ⟨rfl, rfl, rfl⟩)
  | paramRouteF keys fs => exact updSess_own sv sid _ _ (by intro _; exact ⟨rfl, rfl, rfl⟩)
  | unparamMax => exact updSess_own sv sid _ _ (by intro _; split <;> exact ⟨rfl, rfl, rfl⟩)
  | unparamRoute => exact updSess_own sv sid _ _ (by intro _; split <;> exact ⟨rfl, rfl, rfl⟩)
  | unparamRouteF => exact updSess_own sv sid _ _ (by intro _; split <;> exact ⟨rfl, rfl, rfl⟩)
  | getparams =>
    simp only [runCmd, hs]
    exact (deliver_notify ..).onlyOwn _ _
  | ins key before vals => exact insertOrdered_own sv sid s hs key before vals
  | reorder key before => exact reorder_own sv sid s hs key before
  | send tag keys => exact (sendMsg_notify sv sid tag keys).onlyOwn _ _
  | ping tag => exact (deliver_notify ..).onlyOwn _ _

end Muscle.Eng.SrvEngine
