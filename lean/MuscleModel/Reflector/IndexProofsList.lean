import MuscleModel.Reflector.IndexSpec

/-!
# C13 list algebra: `lastIndexOf`, `eraseIdx`, `insertAt`, and the client's `apply`

Small lemmas, independent of the server.
-/

set_option linter.unusedSimpArgs false
set_option linter.unusedVariables false

namespace Muscle.Reflector
open Muscle

/-! ## `lastIndexOf` -/

theorem lastIndexOf_go_spec (k : Bytes) (xs : List Bytes) (i : Nat) (acc : Option Nat) :
    (lastIndexOf.go k xs i acc = acc ∧ k ∉ xs) ∨
    (∃ j, lastIndexOf.go k xs i acc = some (i + j) ∧ xs[j]? = some k ∧ ∀ m, j < m → xs[m]? ≠ some k) := by
  induction xs generalizing i acc with
  | nil => left; simp [lastIndexOf.go]
  | cons x r ih =>
    rw [lastIndexOf.go]
    by_cases hx : x = k
    · subst hx
      simp only [if_true]
      rcases ih (i + 1) (some i) with ⟨h1, h2⟩ | ⟨j, h1, h2, h3⟩
      · right
        refine ⟨0, by simpa using h1, by simp, ?_⟩
        intro m hm
        cases m with
        | zero => omega
        | succ m =>
          simp only [List.getElem?_cons_succ]
          intro hc
          exact h2 (List.mem_of_getElem? hc)
      · right
        refine ⟨j + 1, by rw [h1]; congr 1; omega, by simpa using h2, ?_⟩
        intro m hm
        cases m with
        | zero => omega
        | succ m => simpa using h3 m (by omega)
    · simp only [hx, if_false]
      rcases ih (i + 1) acc with ⟨h1, h2⟩ | ⟨j, h1, h2, h3⟩
      · left
        refine ⟨h1, ?_⟩
        simp only [List.mem_cons, not_or]
        exact ⟨fun h => hx h.symm, h2⟩
      · right
        refine ⟨j + 1, by rw [h1]; congr 1; omega, by simpa using h2, ?_⟩
        intro m hm
        cases m with
        | zero => omega
        | succ m => simpa using h3 m (by omega)

theorem lastIndexOf_spec (xs : List Bytes) (k : Bytes) :
    (lastIndexOf xs k = none ∧ k ∉ xs) ∨
    (∃ j, lastIndexOf xs k = some j ∧ xs[j]? = some k ∧ ∀ m, j < m → xs[m]? ≠ some k) := by
  rcases lastIndexOf_go_spec k xs 0 none with h | ⟨j, h1, h2, h3⟩
  · left; exact h
  · right; exact ⟨j, by simpa [lastIndexOf] using h1, h2, h3⟩

theorem lastIndexOf_some {xs : List Bytes} {k : Bytes} {i : Nat} (h : lastIndexOf xs k = some i) :
    xs[i]? = some k := by
  rcases lastIndexOf_spec xs k with ⟨h1, _⟩ | ⟨j, h1, h2, _⟩
  · rw [h1] at h; cases h
  · rw [h1] at h; cases h; exact h2

theorem lastIndexOf_some_lt {xs : List Bytes} {k : Bytes} {i : Nat} (h : lastIndexOf xs k = some i) :
    i < xs.length := by
  have := lastIndexOf_some h
  exact (List.getElem?_eq_some_iff.mp this).1

theorem lastIndexOf_some_last {xs : List Bytes} {k : Bytes} {i : Nat} (h : lastIndexOf xs k = some i) :
    ∀ m, i < m → xs[m]? ≠ some k := by
  rcases lastIndexOf_spec xs k with ⟨h1, _⟩ | ⟨j, h1, _, h3⟩
  · rw [h1] at h; cases h
  · rw [h1] at h; cases h; exact h3

theorem lastIndexOf_none {xs : List Bytes} {k : Bytes} (h : lastIndexOf xs k = none) : k ∉ xs := by
  rcases lastIndexOf_spec xs k with ⟨_, h2⟩ | ⟨j, h1, _, _⟩
  · exact h2
  · rw [h1] at h; cases h

theorem lastIndexOf_of_mem {xs : List Bytes} {k : Bytes} (h : k ∈ xs) : ∃ i, lastIndexOf xs k = some i := by
  rcases lastIndexOf_spec xs k with ⟨_, h2⟩ | ⟨j, h1, _, _⟩
  · exact absurd h h2
  · exact ⟨j, h1⟩

theorem insertPos_le (ix : List Bytes) (before : Bytes) : insertPos ix before ≤ ix.length := by
  unfold insertPos
  split
  · rename_i i h; exact Nat.le_of_lt (lastIndexOf_some_lt h)
  · exact Nat.le_refl _

/-! ## `eraseIdx` -/

theorem nodup_eraseIdx {α} {xs : List α} (i : Nat) (h : xs.Nodup) : (xs.eraseIdx i).Nodup :=
  List.Sublist.nodup (List.eraseIdx_sublist xs i) h

theorem not_mem_eraseIdx_of_nodup {α} {xs : List α} {i : Nat} {k : α} (h : xs.Nodup) (hk : xs[i]? = some k) :
    k ∉ xs.eraseIdx i := by
  induction xs generalizing i with
  | nil => simp
  | cons x r ih =>
    rw [List.nodup_cons] at h
    cases i with
    | zero =>
      simp only [List.getElem?_cons_zero, Option.some.injEq] at hk
      subst hk
      simpa using h.1
    | succ i =>
      simp only [List.getElem?_cons_succ] at hk
      simp only [List.eraseIdx_cons_succ, List.mem_cons, not_or]
      refine ⟨?_, ih h.2 hk⟩
      intro hc
      subst hc
      exact h.1 (List.mem_of_getElem? hk)

theorem mem_of_mem_eraseIdx {α} {xs : List α} {i : Nat} {k : α} (h : k ∈ xs.eraseIdx i) : k ∈ xs :=
  (List.eraseIdx_sublist xs i).subset h

/-! ## `eraseLast` -/

theorem mem_of_mem_eraseLast {ix : List Bytes} {key c : Bytes} (h : c ∈ eraseLast ix key) : c ∈ ix := by
  unfold eraseLast at h
  split at h
  · exact mem_of_mem_eraseIdx h
  · exact h

theorem nodup_eraseLast {ix : List Bytes} (key : Bytes) (h : ix.Nodup) : (eraseLast ix key).Nodup := by
  unfold eraseLast
  split
  · exact nodup_eraseIdx _ h
  · exact h

theorem not_mem_eraseLast {ix : List Bytes} (key : Bytes) (h : ix.Nodup) : key ∉ eraseLast ix key := by
  unfold eraseLast
  split
  · rename_i i hi; exact not_mem_eraseIdx_of_nodup h (lastIndexOf_some hi)
  · rename_i hi; exact lastIndexOf_none hi

theorem eraseLast_length_le (ix : List Bytes) (key : Bytes) : (eraseLast ix key).length ≤ ix.length := by
  unfold eraseLast
  split
  · exact List.Sublist.length_le (List.eraseIdx_sublist _ _)
  · exact Nat.le_refl _

/-! ## `insertAt` -/

theorem mem_insertAt {xs : List Bytes} {i : Nat} {x y : Bytes} : y ∈ insertAt xs i x ↔ y = x ∨ y ∈ xs := by
  unfold insertAt
  constructor
  · intro h
    simp only [List.mem_append, List.mem_singleton] at h
    rcases h with (h | h) | h
    · exact Or.inr (List.mem_of_mem_take h)
    · exact Or.inl h
    · exact Or.inr (List.mem_of_mem_drop h)
  · intro h
    rcases h with h | h
    · simp [h]
    · rw [← List.take_append_drop i xs] at h
      simp only [List.mem_append, List.mem_singleton] at h ⊢
      rcases h with h | h
      · exact Or.inl (Or.inl h)
      · exact Or.inr h

theorem nodup_insertAt {xs : List Bytes} (i : Nat) {x : Bytes} (h : xs.Nodup) (hx : x ∉ xs) :
    (insertAt xs i x).Nodup := by
  unfold insertAt
  rw [← List.take_append_drop i xs] at h hx
  rw [List.nodup_append] at h
  simp only [List.mem_append, not_or] at hx
  rw [List.append_assoc, List.nodup_append]
  refine ⟨h.1, ?_, ?_⟩
  · rw [List.singleton_append, List.nodup_cons]; exact ⟨hx.2, h.2.1⟩
  · intro a ha b hb
    simp only [List.singleton_append, List.mem_cons] at hb
    rcases hb with hb | hb
    · subst hb; intro hc; subst hc; exact hx.1 ha
    · exact h.2.2 a ha b hb

theorem insertAt_length (xs : List Bytes) (i : Nat) (x : Bytes) (h : i ≤ xs.length) :
    (insertAt xs i x).length = xs.length + 1 := by
  unfold insertAt
  simp only [List.length_append, List.length_take, List.length_drop, List.length_singleton]
  omega

theorem insertAt_end (xs : List Bytes) (x : Bytes) : insertAt xs xs.length x = xs ++ [x] := by
  simp [insertAt]

/-! ## the client's `apply` on what the server computes -/

theorem apply_ins_insertPos (ix : List Bytes) (before nm : Bytes) :
    (Instr.ins (insertPos ix before) nm).apply ix = some (insertAt ix (insertPos ix before) nm) := by
  simp [Instr.apply, insertPos_le]

theorem apply_ins_le {ix : List Bytes} {p : Nat} (nm : Bytes) (h : p ≤ ix.length) :
    (Instr.ins p nm).apply ix = some (insertAt ix p nm) := by
  simp [Instr.apply, h]

theorem applyAll_append (ix : List Bytes) (a b : List Instr) :
    applyAll ix (a ++ b) = (applyAll ix a).bind (fun ix' => applyAll ix' b) := by
  induction a generalizing ix with
  | nil => simp [applyAll]
  | cons i r ih =>
    simp only [List.cons_append, applyAll]
    cases i.apply ix with
    | none => rfl
    | some ix' => simp [ih]

theorem applyAll_remLog (ix : List Bytes) (key : Bytes) :
    applyAll ix (remLog ix key) = some (eraseLast ix key) := by
  unfold remLog eraseLast
  split
  · rename_i i hi
    simp [applyAll, Instr.apply, lastIndexOf_some hi]
  · simp [applyAll]

theorem inRange_append (ix : List Bytes) (a b : List Instr) (ix' : List Bytes)
    (ha : InRange ix a) (hx : applyAll ix a = some ix') (hb : InRange ix' b) : InRange ix (a ++ b) := by
  induction a generalizing ix with
  | nil => simp [applyAll] at hx; subst hx; simpa using hb
  | cons i r ih =>
    cases i with
    | clear =>
      simp only [List.cons_append, InRange, applyAll, Instr.apply, Option.bind_some] at *
      exact ih _ ha hx
    | ins p n =>
      simp only [List.cons_append, InRange, applyAll, Instr.apply] at *
      simp only [ha.1, if_true, Option.bind_some] at hx
      exact ⟨ha.1, ih _ ha.2 hx⟩
    | rem p n =>
      simp only [List.cons_append, InRange, applyAll, Instr.apply] at *
      simp only [ha.2.1, if_true, Option.bind_some] at hx
      exact ⟨ha.1, ha.2.1, ih _ ha.2.2 hx⟩

/-- strict replay succeeding IS the range property -/
theorem inRange_of_applyAll {ix : List Bytes} {l : List Instr} {ix' : List Bytes}
    (h : applyAll ix l = some ix') : InRange ix l := by
  induction l generalizing ix with
  | nil => trivial
  | cons i r ih =>
    cases i with
    | clear =>
      simp only [applyAll, Instr.apply, Option.bind_some] at h
      exact ih h
    | ins p n =>
      simp only [applyAll, Instr.apply] at h
      by_cases hp : p ≤ ix.length
      · simp only [hp, if_true, Option.bind_some] at h
        exact ⟨hp, ih h⟩
      · simp [hp] at h
    | rem p n =>
      simp only [applyAll, Instr.apply] at h
      by_cases hp : ix[p]? = some n
      · simp only [hp, if_true, Option.bind_some] at h
        exact ⟨(List.getElem?_eq_some_iff.mp hp).1, hp, ih h⟩
      · simp [hp] at h

/-! ## the snapshot -/

theorem applyAll_snapshot_aux (pre ix : List Bytes) :
    applyAll pre ((ix.zipIdx pre.length).map (fun (nm, i) => Instr.ins i nm)) = some (pre ++ ix) := by
  induction ix generalizing pre with
  | nil => simp [applyAll]
  | cons x r ih =>
    simp only [List.zipIdx_cons, List.map_cons, applyAll, Instr.apply, Nat.le_refl, if_true,
      Option.bind_some, insertAt_end]
    have := ih (pre ++ [x])
    simp only [List.length_append, List.length_singleton] at this
    rw [this]; simp

theorem applyAll_snapshot (any ix : List Bytes) :
    applyAll any (Instr.clear :: (ix.zipIdx.map (fun (nm, i) => Instr.ins i nm))) = some ix := by
  simp only [applyAll, Instr.apply, Option.bind_some]
  simpa using applyAll_snapshot_aux [] ix

end Muscle.Reflector
