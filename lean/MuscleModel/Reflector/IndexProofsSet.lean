import MuscleModel.Reflector.IndexProofsAuto

/-!
# C13: `SetDataNode` (with and without SETDATANODE_FLAG_ADDTOINDEX) and the command handlers built from the
index operations: the whole-tree invariant, and where the index instruction of `SetDataNode` comes from
-/

set_option linter.unusedSimpArgs false
set_option linter.unusedVariables false

namespace Muscle.Reflector
open Muscle

theorem treeInv_updSess {sv : Server} (sid : Nat) (f : Sess → Sess) (h : TreeInv sv) : TreeInv (sv.updSess sid f) := h

theorem treeInv_setDataClauses (by_ : Nat) (d : Option Nat) (a : Bool) (cls : List Bytes) :
    ∀ (sv : Server) (cur : List Bytes), TreeInv sv → TreeInv (setDataClauses by_ d a sv cur cls) := by
  induction cls with
  | nil => intro sv cur h; simpa [setDataClauses] using h
  | cons cl rest ih =>
    intro sv cur h
    simp only [setDataClauses]
    cases hg : getNode sv cur with
    | none => exact h
    | some node =>
      simp only
      have hins : findKid cl node.kids = none → TreeInv (insertOrderedChild sv by_ cur d [] cl true) := by
        intro hk
        apply treeInv_insertOrderedChild _ _ _ _ _ _ h
        intro p hp
        rw [hg] at hp; cases hp
        exact insert_ok_of_absent node by_ d [] cl true hk
      have hput : ∀ x nt, TreeInv (putChild sv by_ cur (Node.fresh cl x) nt) :=
        fun x nt => treeInv_putChild _ _ _ _ h (AllNodes.fresh _ _)
      have hset : TreeInv (setNode sv (cur ++ [cl]) (fun n => n.setData d)) :=
        treeInv_setField _ (by simp) (by simp) (by simp) h
      cases hk : findKid cl node.kids <;> cases hre : rest.isEmpty <;> cases a <;>
        simp only [Bool.and_true, Bool.and_false, Bool.not_true, Bool.not_false, Bool.false_and, Bool.true_and,
          if_true, if_false, Bool.false_eq_true] <;> apply ih
      all_goals first
        | exact h
        | exact hput _ _
        | exact hset
        | exact treeInv_updSess _ _ (hins hk)
        | (split
           · first | exact treeInv_of_root (notifyChanged_root _ _ _ _ _ _) (hput _ _) | exact treeInv_of_root (notifyChanged_root _ _ _ _ _ _) hset
           · first | exact hput _ _ | exact hset)

/-- `SetDataNode`, with or without ADDTOINDEX, keeps every node's index sound -/
theorem treeInv_setDataNode {sv : Server} (by_ : Nat) (path : Bytes) (d : Option Nat) (a : Bool) (h : TreeInv sv) :
    TreeInv (setDataNode sv by_ path d a) := by
  unfold setDataNode
  repeat' split
  all_goals first | exact h | exact treeInv_setDataClauses _ _ _ _ _ _ h

/-! ## where the index instruction of `SetDataNode(…, ADDTOINDEX)` comes from -/

/-- last clause, child absent: exactly `InsertOrderedChild(data, "", clause)` (then `_indexingPresent = true`) -/
theorem setDataClauses_last_absent {sv : Server} {cur : List Bytes} {p : Node} (by_ : Nat) (d : Option Nat) (cl : Bytes)
    (h : getNode sv cur = some p) (hk : findKid cl p.kids = none) :
    setDataClauses by_ d true sv cur [cl] =
      (insertOrderedChild sv by_ cur d [] cl true).updSess by_ (fun s => { s with indexingPresent := true }) := by
  simp [setDataClauses, h, hk]

/-- last clause, child present: nothing happens (no index change, nothing emitted) -/
theorem setDataClauses_last_present {sv : Server} {cur : List Bytes} {p c : Node} (by_ : Nat) (d : Option Nat) (cl : Bytes)
    (h : getNode sv cur = some p) (hk : findKid cl p.kids = some c) :
    setDataClauses by_ d true sv cur [cl] = sv := by
  simp [setDataClauses, h, hk]

/-- an inner clause: the child is created by a plain `PutChild` if absent (no index change), then descent -/
theorem setDataClauses_inner {sv : Server} {cur : List Bytes} {p : Node} (by_ : Nat) (d : Option Nat) (cl : Bytes)
    (rest : List Bytes) (hr : rest ≠ []) (h : getNode sv cur = some p) :
    setDataClauses by_ d true sv cur (cl :: rest) =
      setDataClauses by_ d true
        (if (findKid cl p.kids).isSome then sv else putChild sv by_ cur (Node.fresh cl none) true)
        (cur ++ [cl]) rest := by
  have hre : rest.isEmpty = false := by cases rest <;> simp_all
  cases hk : findKid cl p.kids <;> simp [setDataClauses, h, hk, hre]


/-! ## the command handlers -/

theorem treeInv_foldl {α} (f : Server → α → Server) (hf : ∀ sv x, TreeInv sv → TreeInv (f sv x))
    (xs : List α) {sv : Server} (h : TreeInv sv) : TreeInv (xs.foldl f sv) := by
  induction xs generalizing sv with
  | nil => exact h
  | cons x r ih => simp only [List.foldl_cons]; exact ih (hf sv x h)

/-- PR_COMMAND_INSERTORDEREDDATA (generated names) -/
theorem treeInv_insertOrdered {sv : Server} (sid : Nat) (key before : Bytes) (vals : List Nat) (h : TreeInv sv) :
    TreeInv (insertOrdered sv sid key before vals) := by
  unfold insertOrdered
  split
  · exact h
  · simp only
    apply treeInv_foldl _ _ _ h
    intro sv v hv
    apply treeInv_foldl _ _ _ hv
    intro sv x hx
    apply treeInv_updSess
    apply treeInv_insertOrderedChild _ _ _ _ _ _ hx
    intro p _
    exact Or.inr (Or.inl (ordPair_fresh p rfl))

/-- PR_COMMAND_REMOVEDATA -/
theorem treeInv_removeData {sv : Server} (sid : Nat) (keys : List Bytes) (h : TreeInv sv) :
    TreeInv (removeData sv sid keys) := by
  unfold removeData
  split
  · exact h
  · simp only
    apply treeInv_foldl _ _ _ h
    intro sv v hv
    exact treeInv_removeChild _ _ _ hv

/-- `AttachedToServer` -/
theorem treeInv_attach {sv : Server} (slot : Nat) (host : Bytes) (h : TreeInv sv) :
    TreeInv (attach sv slot host).1 := by
  unfold attach
  simp only
  apply treeInv_of_root (pushAll_root _)
  apply treeInv_putChild _ _ _ _ _ (AllNodes.fresh _ _)
  split
  · exact h
  · exact treeInv_putChild _ _ _ _ h (AllNodes.fresh _ _)

theorem treeInv_with_sessions (Z : Server) (ss : List Sess) (h : TreeInv Z) : TreeInv { Z with sessions := ss } := h
theorem treeInv_with_live (Z : Server) (l : Bool) (h : TreeInv Z) : TreeInv { Z with live := l } := h
theorem treeInv_ite (c : Prop) [Decidable c] (a b : Server) (ha : TreeInv a) (hb : TreeInv b) :
    TreeInv (if c then a else b) := by split <;> assumption

/-- `Cleanup` -/
theorem treeInv_detach {sv : Server} (sid : Nat) (h : TreeInv sv) : TreeInv (detach sv sid) := by
  unfold detach
  split
  · exact h
  · rename_i s _
    simp only
    have h1 : TreeInv (removeChild sv sid true (sessNames s)) := treeInv_removeChild _ _ _ h
    have key : ∀ X : Server, TreeInv X → TreeInv (pushAll X) := fun X hX => treeInv_of_root (pushAll_root _) hX
    apply treeInv_with_sessions
    apply treeInv_ite
    · apply treeInv_with_live
      apply key
      repeat' split
      all_goals first | exact h1 | exact treeInv_removeChild _ _ _ h1
    · apply treeInv_foldl
      · intro sv v hv
        exact treeInv_setField _ (by simp) (by simp) (by simp) hv
      · apply key
        repeat' split
        all_goals first | exact h1 | exact treeInv_removeChild _ _ _ h1

end Muscle.Reflector
