import MuscleModel.Reflector.TravProofsRoute

/-!
# Lemmas for property C05, part 5: skip-callback traversal vs continue-callback traversal

For a session node and below (children at depth ≥ 2) the skip traversal records exactly the first visit of the
continue traversal; at the root level (no terminal entries when every pattern has ≥ 2 clauses) both process the same
children.
-/

namespace Muscle.Reflector
open Muscle

def ctxS (pm : PM) (uf : Bool) (rd : Nat) : TCtx := { pm := pm, useFilters := uf, rootDepth := rd, cb := cbSkip }
def ctxC (pm : PM) (uf : Bool) (rd : Nat) : TCtx := { pm := pm, useFilters := uf, rootDepth := rd, cb := cbContinue }

/-- under the continue-callback the entry loop only appends to the visit list: the child's path or what the
    recursive call records -/
theorem stepG_append (ctx : TCtx) (rec : Rec) (child : Node) (cn : Visit) (depth : Nat) (hit : Bool) (e : Entry)
    (hcb : ctx.cb = cbContinue) (st : CState) :
    ∃ X, (stepG ctx rec child cn depth hit e st).visits = st.visits ++ X ∧
      ∀ v ∈ X, v = cn ∨ v ∈ (rec child cn (depth+1)).1 := by
  unfold stepG
  simp only [hcb, cbContinue, if_true]
  split
  · exact ⟨[], by simp, by simp⟩
  · split
    · split
      · exact ⟨[], by simp, by simp⟩
      · split
        · split
          · exact ⟨[cn], rfl, by simp⟩
          · exact ⟨[cn], rfl, by simp⟩
        · exact ⟨[], by simp, by simp⟩
    · split
      · exact ⟨[], by simp, by simp⟩
      · split
        · exact ⟨_, rfl, fun v hv => Or.inr hv⟩
        · exact ⟨_, rfl, fun v hv => Or.inr hv⟩

theorem checkEntries_append (ctx : TCtx) (rec : Rec) (child : Node) (cn : Visit) (depth : Nat) (known : Option Nat)
    (hcb : ctx.cb = cbContinue) :
    ∀ (es : List Entry) (idx : Nat) (st : CState),
      ∃ X, (checkEntries ctx rec child cn depth known es idx st).visits = st.visits ++ X ∧
        ∀ v ∈ X, v = cn ∨ v ∈ (rec child cn (depth+1)).1 := by
  intro es
  induction es with
  | nil => intro idx st; exact ⟨[], by simp [checkEntries_nil], by simp⟩
  | cons e es ih =>
    intro idx st
    rw [checkEntries_cons]
    split
    · exact ⟨[], by simp, by simp⟩
    · obtain ⟨X, hX, hX2⟩ := stepG_append ctx rec child cn depth
        (decide (known = some idx) || hitB (depth - ctx.rootDepth) child.name e) e hcb st
      obtain ⟨Y, hY, hY2⟩ := ih (idx + 1) (stepG ctx rec child cn depth
        (decide (known = some idx) || hitB (depth - ctx.rootDepth) child.name e) e st)
      refine ⟨X ++ Y, by rw [hY, hX, List.append_assoc], ?_⟩
      intro v hv
      rcases List.mem_append.1 hv with h | h
      · exact hX2 v h
      · exact hY2 v h

/-- under the continue-callback, with or without a known-matching entry, one child contributes only its own
    path and what the recursive call records -/
theorem checkChild_mem_sub (ctx : TCtx) (rec : Rec) (k : Node) (names : Visit) (depth : Nat) (known : Option Nat)
    (hcb : ctx.cb = cbContinue) :
    ∀ v ∈ (checkChild ctx rec k names depth known).1,
      v = names ++ [k.name] ∨ v ∈ (rec k (names ++ [k.name]) (depth+1)).1 := by
  obtain ⟨X, hX, hX2⟩ := checkEntries_append ctx rec k (names ++ [k.name]) depth known hcb
    (activeEntries ctx.pm (depth - ctx.rootDepth)) 0 {}
  intro v hv
  have hv' : v ∈ (checkEntries ctx rec k (names ++ [k.name]) depth known
      (activeEntries ctx.pm (depth - ctx.rootDepth)) 0 {}).visits := hv
  rw [hX] at hv'
  exact hX2 v (by simpa using hv')

/-- coupling of the two loop states (skip callback / continue callback) at depth ≥ 2 -/
def Cpl (stS stC : CState) : Prop :=
  (stS.visits = [] ∧ stC.visits = [] ∧ stS.abort = none ∧ stC.abort = none ∧
     stS.matched = stC.matched ∧ stS.recursed = stC.recursed ∧ stS.done = stC.done) ∨
  (∃ v, stS.visits = [v] ∧ (stS.done || stS.abort.isSome) = true ∧ stC.visits.take 1 = [v])

theorem stepG_cpl (pm : PM) (uf : Bool) (rd : Nat) (recS recC : Rec) (child : Node) (cn : Visit) (depth : Nat)
    (hit : Bool) (e : Entry) (hd : 1 ≤ depth)
    (hrS : Deep cn (depth+1) (recS child cn (depth+1)))
    (hrC : (recC child cn (depth+1)).2 = ((depth+1 : Nat) : Int))
    (hr : (recS child cn (depth+1)).1 = (recC child cn (depth+1)).1.take 1)
    (stS stC : CState)
    (h : stS.visits = [] ∧ stC.visits = [] ∧ stS.abort = none ∧ stC.abort = none ∧
         stS.matched = stC.matched ∧ stS.recursed = stC.recursed ∧ stS.done = stC.done) :
    Cpl (stepG (ctxS pm uf rd) recS child cn depth hit e stS) (stepG (ctxC pm uf rd) recC child cn depth hit e stC) := by
  obtain ⟨hvS, hvC, haS, haC, hm, hrr, hdn⟩ := h
  have h2 : ¬ (((depth + 1 : Nat) : Int) < (depth : Int) + 1 - 1) := by omega
  have h3 : decide (((depth + 1 : Nat) : Int) < (depth : Int) + 1) = false := by
    simp only [decide_eq_false_iff_not]; omega
  have hc0 : (recS child cn (depth+1)) = ([], ((depth+1 : Nat) : Int)) → (recC child cn (depth+1)).1 = [] := by
    intro hs
    rw [hs] at hr
    cases hx : (recC child cn (depth+1)).1 with
    | nil => rfl
    | cons a b => rw [hx] at hr; simp at hr
  by_cases hd2 : 2 ≤ depth
  · have h1 : ((1 : Int) < (depth : Int) + 1 - 1) := by omega
    unfold stepG
    simp only [ctxS, ctxC, cbSkip, cbContinue, h1, h2, h3, Bool.or_false, if_true, if_false, hrC, hm, hrr]
    split
    · exact Or.inl ⟨hvS, hvC, haS, haC, hm, hrr, hdn⟩
    · split
      · split
        · exact Or.inl ⟨hvS, hvC, haS, haC, hm, hrr, hdn⟩
        · split
          · exact Or.inr ⟨cn, by simp [hvS], by simp, by simp [hvC]⟩
          · exact Or.inl ⟨hvS, hvC, haS, haC, hm, hrr, hdn⟩
      · split
        · exact Or.inl ⟨hvS, hvC, haS, haC, hm, hrr, hdn⟩
        · rcases hrS with hs | ⟨v, hs, _, _⟩
          · have hc := hc0 hs
            rw [hs]
            simp only [h2, h3, Bool.or_false, if_false, hc]
            exact Or.inl ⟨by simp [hvS], by simp [hvC], haS, haC, rfl, rfl, rfl⟩
          · rw [hs] at hr
            rw [hs]
            simp only [h1, if_true]
            exact Or.inr ⟨v, by simp [hvS], by simp, by simp [hvC, ← hr]⟩
  · obtain rfl : depth = 1 := by omega
    unfold stepG
    simp only [ctxS, ctxC, cbSkip, cbContinue, h2, h3, Bool.or_false, if_false, hrC, hm, hrr]
    split
    · exact Or.inl ⟨hvS, hvC, haS, haC, hm, hrr, hdn⟩
    · split
      · split
        · exact Or.inl ⟨hvS, hvC, haS, haC, hm, hrr, hdn⟩
        · split
          · exact Or.inr ⟨cn, by simp [hvS], by simp, by simp [hvC]⟩
          · exact Or.inl ⟨hvS, hvC, haS, haC, hm, hrr, hdn⟩
      · split
        · exact Or.inl ⟨hvS, hvC, haS, haC, hm, hrr, hdn⟩
        · rcases hrS with hs | ⟨v, hs, _, _⟩
          · have hc := hc0 hs
            rw [hs]
            simp only [h2, h3, Bool.or_false, if_false, hc]
            exact Or.inl ⟨by simp [hvS], by simp [hvC], haS, haC, rfl, rfl, rfl⟩
          · rw [hs] at hr
            rw [hs]
            simp
            exact Or.inr ⟨v, by simp [hvS], by simp, by simp [hvC, ← hr]⟩

theorem take1_append_of_take1 {α : Type} {l X : List α} {v : α} (h : l.take 1 = [v]) : (l ++ X).take 1 = [v] := by
  cases l with
  | nil => simp at h
  | cons a b => simpa using h

theorem checkEntries_cpl (pm : PM) (uf : Bool) (rd : Nat) (recS recC : Rec) (child : Node) (cn : Visit) (depth : Nat)
    (known : Option Nat) (hd : 1 ≤ depth)
    (hrS : Deep cn (depth+1) (recS child cn (depth+1)))
    (hrC : (recC child cn (depth+1)).2 = ((depth+1 : Nat) : Int))
    (hr : (recS child cn (depth+1)).1 = (recC child cn (depth+1)).1.take 1) :
    ∀ (es : List Entry) (idx : Nat) (stS stC : CState), Cpl stS stC →
      Cpl (checkEntries (ctxS pm uf rd) recS child cn depth known es idx stS)
          (checkEntries (ctxC pm uf rd) recC child cn depth known es idx stC) := by
  intro es
  induction es with
  | nil => intro idx stS stC h; exact h
  | cons e es ih =>
    intro idx stS stC h
    rcases h with h | ⟨v, hvS, haS, hvC⟩
    · rw [checkEntries_cons, checkEntries_cons]
      have hstop : (stS.done || stS.abort.isSome) = (stC.done || stC.abort.isSome) := by
        rw [h.2.2.1, h.2.2.2.1, h.2.2.2.2.2.2]
      rw [hstop]
      split
      · exact Or.inl h
      · apply ih
        exact stepG_cpl pm uf rd recS recC child cn depth _ e hd hrS hrC hr stS stC h
    · rw [checkEntries_stop _ _ _ _ _ _ _ _ stS haS]
      obtain ⟨X, hX, _⟩ := checkEntries_append (ctxC pm uf rd) recC child cn depth known rfl (e :: es) idx stC
      exact Or.inr ⟨v, hvS, haS, by rw [hX]; exact take1_append_of_take1 hvC⟩

/-- one child at depth ≥ 2 (`depth` ≥ 1): the skip traversal records the first visit of the continue traversal (if any) -/
theorem checkChild_cpl (pm : PM) (uf : Bool) (rd : Nat) (recS recC : Rec) (k : Node) (names : Visit) (depth : Nat)
    (known : Option Nat) (hd : 1 ≤ depth)
    (hrS : ∀ k n, Deep n (depth+1) (recS k n (depth+1)))
    (hrC : ∀ k n d, (recC k n d).2 = (d : Int))
    (hr : ∀ k n, (recS k n (depth+1)).1 = (recC k n (depth+1)).1.take 1) :
    (checkChild (ctxS pm uf rd) recS k names depth known).1 =
      (checkChild (ctxC pm uf rd) recC k names depth known).1.take 1 := by
  have := checkEntries_cpl pm uf rd recS recC k (names ++ [k.name]) depth known hd (hrS _ _) (hrC _ _ _) (hr _ _)
    (activeEntries pm (depth - rd)) 0 {} {} (Or.inl ⟨rfl, rfl, rfl, rfl, rfl, rfl, rfl⟩)
  unfold checkChild
  rcases this with h | ⟨v, h1, _, h2⟩
  · simp only [ctxS, ctxC] at h ⊢
    rw [h.1, h.2.1]; rfl
  · simp only [ctxS, ctxC] at h1 h2 ⊢
    rw [h1, h2]



theorem take1_nil {α : Type} {l : List α} (h : l.take 1 = []) : l = [] := by
  cases l with
  | nil => rfl
  | cons a b => simp at h

theorem travKids_cpl (pm : PM) (uf : Bool) (rd : Nat) (recS recC : Rec) (names : Visit) (depth : Nat) (hd : 2 ≤ depth)
    (hrS : ∀ k n, Deep n (depth+1) (recS k n (depth+1)))
    (hrC : ∀ k n d, (recC k n d).2 = (d : Int))
    (hr : ∀ k n, (recS k n (depth+1)).1 = (recC k n (depth+1)).1.take 1) :
    ∀ kids : List Node,
      (travKids (ctxS pm uf rd) recS names depth kids []).1 =
        (kids.flatMap (fun k => (checkChild (ctxC pm uf rd) recC k names depth none).1)).take 1 := by
  intro kids
  induction kids with
  | nil => rfl
  | cons k r ih =>
    rw [travKids]
    have hc := checkChild_cpl pm uf rd recS recC k names depth none (by omega) hrS hrC hr
    rcases checkChild_deep (ctxS pm uf rd) recS k names depth none rfl hd hrS with h | ⟨v, h, _⟩
    · rw [h] at hc ⊢
      simp only [List.append_nil, List.flatMap_cons]
      rw [take1_nil hc.symm, List.nil_append]
      exact ih
    · rw [h] at hc ⊢
      simp only [List.nil_append, List.flatMap_cons]
      exact (take1_append_of_take1 hc.symm).symm

theorem lookupElems_cpl (pm : PM) (uf : Bool) (rd : Nat) (recS recC : Rec) (node : Node) (names : Visit) (depth idx : Nat)
    (hd : 2 ≤ depth)
    (hrS : ∀ k n, Deep n (depth+1) (recS k n (depth+1)))
    (hrC : ∀ k n d, (recC k n d).2 = (d : Int))
    (hr : ∀ k n, (recS k n (depth+1)).1 = (recC k n (depth+1)).1.take 1) :
    ∀ (els did : List Bytes),
      (lookupElems (ctxS pm uf rd) recS node names depth idx els did [] = ([], (lkElems node idx els did).2, none) ∧
        (lkElems node idx els did).1.flatMap (fun p => (checkChild (ctxC pm uf rd) recC p.1 names depth (some p.2)).1) = []) ∨
      (∃ v did', lookupElems (ctxS pm uf rd) recS node names depth idx els did [] = ([v], did', some 1) ∧
        ((lkElems node idx els did).1.flatMap
          (fun p => (checkChild (ctxC pm uf rd) recC p.1 names depth (some p.2)).1)).take 1 = [v]) := by
  intro els
  induction els with
  | nil => intro did; left; exact ⟨rfl, rfl⟩
  | cons el els ih =>
    intro did
    rw [lookupElems, lkElems]
    cases hf : findKid (unescape el) node.kids with
    | none => exact ih did
    | some k =>
      simp only
      by_cases hdc : did.contains (unescape el) = true
      · simp only [hdc, if_true]; exact ih did
      · have hdc' : did.contains (unescape el) = false := by simpa using hdc
        simp only [hdc', Bool.false_eq_true, if_false]
        have hc := checkChild_cpl pm uf rd recS recC k names depth (some idx) (by omega) hrS hrC hr
        rcases checkChild_deep (ctxS pm uf rd) recS k names depth (some idx) rfl hd hrS with h | ⟨v, h, _⟩
        · rw [h] at hc ⊢
          simp only [List.append_nil, List.flatMap_cons]
          rw [take1_nil hc.symm, List.nil_append]
          exact ih _
        · rw [h] at hc ⊢
          right
          refine ⟨v, did, by simp, ?_⟩
          simp only [List.flatMap_cons]
          exact take1_append_of_take1 hc.symm

theorem travLookups_cpl (pm : PM) (uf : Bool) (rd : Nat) (recS recC : Rec) (node : Node) (names : Visit) (depth : Nat)
    (hd : 2 ≤ depth)
    (hrS : ∀ k n, Deep n (depth+1) (recS k n (depth+1)))
    (hrC : ∀ k n d, (recC k n d).2 = (d : Int))
    (hr : ∀ k n, (recS k n (depth+1)).1 = (recC k n (depth+1)).1.take 1) :
    ∀ (es : List Entry) (idx : Nat) (did : List Bytes),
      (travLookups (ctxS pm uf rd) recS node names depth es idx did []).1 =
        ((lkEntries node (depth - rd) es idx did).flatMap
          (fun p => (checkChild (ctxC pm uf rd) recC p.1 names depth (some p.2)).1)).take 1 := by
  intro es
  induction es with
  | nil => intro idx did; rfl
  | cons e es ih =>
    intro idx did
    rw [travLookups, lkEntries]
    have hel : (if isUVList ((e.clauses[depth - (ctxS pm uf rd).rootDepth]?).getD []) = true then
              (splitCommas ((e.clauses[depth - (ctxS pm uf rd).rootDepth]?).getD [])).filter (fun x => !x.isEmpty)
             else [(e.clauses[depth - (ctxS pm uf rd).rootDepth]?).getD []]) = elemsOf ((e.clauses[depth - rd]?).getD []) := rfl
    simp only [hel]
    rcases lookupElems_cpl pm uf rd recS recC node names depth idx hd hrS hrC hr
      (elemsOf ((e.clauses[depth - rd]?).getD [])) did with ⟨h1, h2⟩ | ⟨v, did', h1, h2⟩
    · rw [h1]
      simp only [List.flatMap_append, h2, List.nil_append]
      exact ih _ _
    · rw [h1]
      simp only [List.flatMap_append]
      exact (take1_append_of_take1 h2).symm

theorem travLevel_wild (ctx : TCtx) (rec : Rec) (node : Node) (names : Visit) (depth : Nat)
    (h : parsersHaveWildcards ctx.pm (depth - ctx.rootDepth) = true) :
    travLevel ctx rec node names depth = travKids ctx rec names depth node.kids [] := by
  unfold travLevel; simp only [h, if_true]

theorem travLevel_lit (ctx : TCtx) (rec : Rec) (node : Node) (names : Visit) (depth : Nat)
    (h : parsersHaveWildcards ctx.pm (depth - ctx.rootDepth) = false) :
    travLevel ctx rec node names depth =
      travLookups ctx rec node names depth (activeEntries ctx.pm (depth - ctx.rootDepth)) 0 [] [] := by
  unfold travLevel; simp only [h, Bool.false_eq_true, if_false]

/-- below a session node the skip traversal records exactly the first visit of the continue traversal (if any) -/
theorem travAux_cpl (pm : PM) (uf : Bool) (rd : Nat) :
    ∀ (fuel : Nat) (node : Node) (names : Visit) (depth : Nat), 2 ≤ depth →
      (travAux (ctxS pm uf rd) fuel node names depth).1 = (travAux (ctxC pm uf rd) fuel node names depth).1.take 1 := by
  intro fuel
  induction fuel with
  | zero => intros; rfl
  | succ fuel ih =>
    intro node names depth hd
    rw [travAux, travAux]
    have hrS : ∀ k n, Deep n (depth+1) (travAux (ctxS pm uf rd) fuel k n (depth+1)) :=
      fun k n => travAux_deep _ rfl fuel k n (depth+1) (by omega)
    have hrC := travAux_snd (ctxC pm uf rd) rfl fuel
    have hr : ∀ k n, (travAux (ctxS pm uf rd) fuel k n (depth+1)).1 = (travAux (ctxC pm uf rd) fuel k n (depth+1)).1.take 1 :=
      fun k n => ih k n (depth+1) (by omega)
    have hna : ∀ k known, (checkChild (ctxC pm uf rd) (travAux (ctxC pm uf rd) fuel) k names depth known).2 = none :=
      fun k known => checkChild_snd _ _ k names depth known rfl hrC
    cases hw : parsersHaveWildcards pm (depth - rd) with
    | true =>
      rw [travLevel_wild (ctxS pm uf rd) _ node names depth hw, travLevel_wild (ctxC pm uf rd) _ node names depth hw]
      rw [travKids_eq _ _ names depth hna, travKids_cpl pm uf rd _ _ names depth hd hrS hrC hr]
      simp
    | false =>
      rw [travLevel_lit (ctxS pm uf rd) _ node names depth hw, travLevel_lit (ctxC pm uf rd) _ node names depth hw]
      rw [travLookups_eq _ _ node names depth hna]
      exact (travLookups_cpl pm uf rd _ _ node names depth hd hrS hrC hr _ _ _).trans (by simp [ctxC, ctxS])


/-! ## levels without terminal entries: both traversals descend into the same children -/

theorem checkEntries_noterm_cpl (pm : PM) (uf : Bool) (rd : Nat) (recS recC : Rec) (child : Node) (cn : Visit)
    (depth : Nat) (known : Option Nat)
    (hnS : ¬ ((recS child cn (depth+1)).2 < (depth : Int) + 1))
    (hnC : ¬ ((recC child cn (depth+1)).2 < (depth : Int) + 1)) :
    ∀ (es : List Entry), (∀ e ∈ es, ¬ (depth + 1 = rd + e.clauses.length)) →
      ∀ (idx : Nat) (stS stC : CState), NoTermSt (recS child cn (depth+1)).1 stS → NoTermSt (recC child cn (depth+1)).1 stC →
        stS.recursed = stC.recursed →
        (checkEntries (ctxS pm uf rd) recS child cn depth known es idx stS).recursed =
        (checkEntries (ctxC pm uf rd) recC child cn depth known es idx stC).recursed := by
  intro es
  induction es with
  | nil => intro _ idx stS stC _ _ h; exact h
  | cons e es ih =>
    intro ht idx stS stC hS hC h
    rw [checkEntries_cons, checkEntries_cons]
    have h1 : (stS.done || stS.abort.isSome) = false := by simp [hS.1, hS.2.2.1]
    have h2 : (stC.done || stC.abort.isSome) = false := by simp [hC.1, hC.2.2.1]
    simp only [h1, h2, Bool.false_eq_true, if_false]
    have sS := stepG_noterm (ctxS pm uf rd) recS child cn depth
      (decide (known = some idx) || hitB (depth - rd) child.name e) e (ht e List.mem_cons_self) hnS stS hS
    have sC := stepG_noterm (ctxC pm uf rd) recC child cn depth
      (decide (known = some idx) || hitB (depth - rd) child.name e) e (ht e List.mem_cons_self) hnC stC hC
    exact ih (fun e' he' => ht e' (List.mem_cons_of_mem _ he')) (idx + 1) _ _ sS.1 sC.1 (Eq.trans sS.2 (Eq.trans (by rw [h]) sC.2.symm))

/-- at a level without terminal entries both traversals record nothing for the child, or both exactly what
    their recursive calls record -/
theorem checkChild_noterm_cpl (pm : PM) (uf : Bool) (rd : Nat) (recS recC : Rec) (k : Node) (names : Visit)
    (depth : Nat) (known : Option Nat)
    (ht : ∀ e ∈ activeEntries pm (depth - rd), ¬ (depth + 1 = rd + e.clauses.length))
    (hnS : ¬ ((recS k (names ++ [k.name]) (depth+1)).2 < (depth : Int) + 1))
    (hnC : ¬ ((recC k (names ++ [k.name]) (depth+1)).2 < (depth : Int) + 1)) :
    ((checkChild (ctxS pm uf rd) recS k names depth known).1 = [] ∧
     (checkChild (ctxC pm uf rd) recC k names depth known).1 = []) ∨
    ((checkChild (ctxS pm uf rd) recS k names depth known).1 = (recS k (names ++ [k.name]) (depth+1)).1 ∧
     (checkChild (ctxC pm uf rd) recC k names depth known).1 = (recC k (names ++ [k.name]) (depth+1)).1) := by
  have i0 : ∀ R, NoTermSt R {} := fun R => ⟨rfl, rfl, rfl, Or.inl ⟨rfl, rfl⟩⟩
  have hS := checkEntries_noterm (ctxS pm uf rd) recS k (names ++ [k.name]) depth known hnS _ ht 0 {} (i0 _)
  have hC := checkEntries_noterm (ctxC pm uf rd) recC k (names ++ [k.name]) depth known hnC _ ht 0 {} (i0 _)
  have hr := checkEntries_noterm_cpl pm uf rd recS recC k (names ++ [k.name]) depth known hnS hnC _ ht 0 {} {} (i0 _) (i0 _) rfl
  unfold checkChild
  obtain ⟨_, _, _, hS⟩ := hS
  obtain ⟨_, _, _, hC⟩ := hC
  simp only [ctxS, ctxC] at hS hC hr ⊢
  rcases hS with ⟨r1, v1⟩ | ⟨r1, v1⟩ <;> rcases hC with ⟨r2, v2⟩ | ⟨r2, v2⟩
  · left; exact ⟨v1, v2⟩
  · rw [r1, r2] at hr; cases hr
  · rw [r1, r2] at hr; cases hr
  · right; exact ⟨v1, v2⟩

/-- the children one level hands to `checkChild` (with the known-entry index), explicitly -/
def levelKids (pm : PM) (rd : Nat) (node : Node) (depth : Nat) : List (Node × Option Nat) :=
  if parsersHaveWildcards pm (depth - rd) then node.kids.map (fun k => (k, none))
  else (lkEntries node (depth - rd) (activeEntries pm (depth - rd)) 0 []).map (fun p => (p.1, some p.2))

theorem travLevel_eq_levelKids (ctx : TCtx) (rec : Rec) (node : Node) (names : Visit) (depth : Nat)
    (hna : ∀ k known, (checkChild ctx rec k names depth known).2 = none) :
    travLevel ctx rec node names depth =
      ((levelKids ctx.pm ctx.rootDepth node depth).flatMap (fun p => (checkChild ctx rec p.1 names depth p.2).1), (depth : Int)) := by
  unfold levelKids
  cases hw : parsersHaveWildcards ctx.pm (depth - ctx.rootDepth) with
  | true =>
    rw [travLevel_wild ctx rec node names depth hw, travKids_eq ctx rec names depth hna]
    simp [List.flatMap_map]
  | false =>
    rw [travLevel_lit ctx rec node names depth hw, travLookups_eq ctx rec node names depth hna]
    simp [List.flatMap_map]

theorem levelKids_sub (pm : PM) (rd : Nat) (node : Node) (depth : Nat) :
    ∀ p ∈ levelKids pm rd node depth, p.1 ∈ node.kids := by
  intro p hp
  unfold levelKids at hp
  split at hp
  · obtain ⟨k, hk, rfl⟩ := List.mem_map.1 hp; exact hk
  · obtain ⟨q, hq, rfl⟩ := List.mem_map.1 hp
    obtain ⟨_, _, e, _, el, _, hf⟩ := (lkEntries_spec node (depth - rd) (activeEntries pm (depth - rd)) 0 []).1 q hq
    exact (findKid_some hf).1

/-- "same sessions": every skip visit is a continue visit, and every continue visit has a skip visit in the same session -/
def SameSess (LS LC : List Visit) : Prop :=
  (∀ v ∈ LS, v ∈ LC) ∧ (∀ w ∈ LC, ∃ v ∈ LS, v.take 2 = w.take 2)

theorem SameSess_flatMap {α : Type} (ps : List α) (gS gC : α → List Visit) (h : ∀ p ∈ ps, SameSess (gS p) (gC p)) :
    SameSess (ps.flatMap gS) (ps.flatMap gC) := by
  constructor
  · intro v hv
    obtain ⟨p, hp, hvp⟩ := List.mem_flatMap.1 hv
    exact List.mem_flatMap.2 ⟨p, hp, (h p hp).1 v hvp⟩
  · intro w hw
    obtain ⟨p, hp, hwp⟩ := List.mem_flatMap.1 hw
    obtain ⟨v, hv, hvw⟩ := (h p hp).2 w hwp
    exact ⟨v, List.mem_flatMap.2 ⟨p, hp, hv⟩, hvw⟩

theorem SameSess_take1 (a b : Bytes) (L : List Visit) (hp : ∀ v ∈ L, [a, b] <+: v) : SameSess (L.take 1) L := by
  constructor
  · intro v hv; exact List.mem_of_mem_take hv
  · intro w hw
    cases L with
    | nil => cases hw
    | cons x r =>
      refine ⟨x, by simp, ?_⟩
      rw [take2_of_prefix (hp x List.mem_cons_self), take2_of_prefix (hp w hw)]



theorem SameSess_nil : SameSess [] [] := ⟨fun _ h => h, fun _ h => by cases h⟩

/-- below one host node the two traversals reach the same sessions (no hypothesis on the clause counts: for a
    session node the skip traversal records the first visit the continue traversal records for it or below it) -/
theorem host_sameSess (pm : PM) (uf : Bool) (hwf : pmWF pm = true)
    (hl : ClauseLaws pm) (fuel : Nat) (h : Node) (hn : Bytes) (hk : kidsNodup fuel h = true) :
    SameSess (travAux (ctxS pm uf 0) fuel h [hn] 1).1 (travAux (ctxC pm uf 0) fuel h [hn] 1).1 := by
  cases fuel with
  | zero => exact SameSess_nil
  | succ fuel =>
    obtain ⟨_, hkk⟩ := kidsNodup_succ hk
    rw [travAux, travAux]
    have hrC := travAux_snd (ctxC pm uf 0) rfl fuel
    rw [travLevel_eq_levelKids (ctxS pm uf 0) _ h [hn] 1
          (fun k known => (host_checkChild (ctxS pm uf 0) rfl fuel [hn] k known).1),
        travLevel_eq_levelKids (ctxC pm uf 0) _ h [hn] 1
          (fun k known => checkChild_snd _ _ k [hn] 1 known rfl hrC)]
    show SameSess ((levelKids pm 0 h 1).flatMap _) ((levelKids pm 0 h 1).flatMap _)
    apply SameSess_flatMap
    intro p hp
    have hpk := levelKids_sub pm 0 h 1 p hp
    have hrS : ∀ k n, Deep n (1+1) (travAux (ctxS pm uf 0) fuel k n (1+1)) :=
      fun k n => travAux_deep _ rfl fuel k n 2 (Nat.le_refl _)
    have hr : ∀ k n, (travAux (ctxS pm uf 0) fuel k n (1+1)).1 = (travAux (ctxC pm uf 0) fuel k n (1+1)).1.take 1 :=
      fun k n => travAux_cpl pm uf 0 fuel k n 2 (Nat.le_refl _)
    rw [checkChild_cpl pm uf 0 _ _ p.1 [hn] 1 p.2 (Nat.le_refl _) hrS hrC hr]
    apply SameSess_take1 hn p.1.name
    -- every visit the continue traversal records for this session node carries the (host, session) prefix
    have hnp := travAux_nodup_prefix (ctxC pm uf 0) rfl hwf hl fuel p.1 ([hn] ++ [p.1.name]) (1+1) (hkk p.1 hpk)
    intro v hv
    rcases checkChild_mem_sub (ctxC pm uf 0) (travAux (ctxC pm uf 0) fuel) p.1 [hn] 1 p.2 rfl v hv with h | h
    · rw [h]; exact List.prefix_refl _
    · exact (hnp.2 v h).1

/-- over the whole tree the two traversals reach the same sessions -/
theorem root_sameSess (pm : PM) (uf : Bool) (hmin : pmMinClauses 2 pm = true) (hwf : pmWF pm = true)
    (hl : ClauseLaws pm) (fuel : Nat) (node : Node) (hk : kidsNodup fuel node = true) :
    SameSess (travAux (ctxS pm uf 0) fuel node [] 0).1 (travAux (ctxC pm uf 0) fuel node [] 0).1 := by
  cases fuel with
  | zero => exact SameSess_nil
  | succ fuel =>
    obtain ⟨_, hkk⟩ := kidsNodup_succ hk
    rw [travAux, travAux]
    rw [travLevel_eq_levelKids (ctxS pm uf 0) _ node [] 0
          (fun k known => (root_checkChild (ctxS pm uf 0) rfl rfl hmin fuel k known).1),
        travLevel_eq_levelKids (ctxC pm uf 0) _ node [] 0
          (fun k known => checkChild_snd _ _ k [] 0 known rfl (travAux_snd (ctxC pm uf 0) rfl fuel))]
    show SameSess ((levelKids pm 0 node 0).flatMap _) ((levelKids pm 0 node 0).flatMap _)
    apply SameSess_flatMap
    intro p hp
    have hpk := levelKids_sub pm 0 node 0 p hp
    have hnS : ¬ ((travAux (ctxS pm uf 0) fuel p.1 ([] ++ [p.1.name]) (0+1)).2 < ((0 : Nat) : Int) + 1) := by
      rw [travAux_host_snd (ctxS pm uf 0) rfl]; simp
    have hnC : ¬ ((travAux (ctxC pm uf 0) fuel p.1 ([] ++ [p.1.name]) (0+1)).2 < ((0 : Nat) : Int) + 1) := by
      rw [travAux_snd (ctxC pm uf 0) rfl]; simp
    have ht : ∀ e ∈ activeEntries pm (0 - 0), ¬ (0 + 1 = 0 + e.clauses.length) := by
      intro e he; have := minClauses_active hmin he; omega
    rcases checkChild_noterm_cpl pm uf 0 _ _ p.1 [] 0 p.2 ht hnS hnC with ⟨h1, h2⟩ | ⟨h1, h2⟩
    · rw [h1, h2]; exact SameSess_nil
    · rw [h1, h2]
      exact host_sameSess pm uf hwf hl fuel p.1 p.1.name (hkk p.1 hpk)

end Muscle.Reflector
