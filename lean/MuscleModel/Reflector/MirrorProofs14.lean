import MuscleModel.Reflector.MirrorProofs13

/-!
# C04 lemmas, part 14: no node name contains `/` — hence every path string is unambiguous (`Unamb`)

`NS sv`: at every node of the tree the name contains no `/` (`AllNodes`, structurally).  Kept by every handler: the names
the server creates are path clauses (split at `/`), generated names `I<n>`, session-node names (decimal digits) and host
names (a hypothesis at `attach`).  `CReach` = `MReach` with hosts without `/`.  `pathString` is injective on slash-free
name lists, so in an `NS` state every existing node's path string belongs to no other slash-free name list.
-/

set_option linter.unusedSimpArgs false
set_option linter.unusedVariables false

namespace Muscle.Reflector
open Muscle Muscle.Eng.SrvEngine

def NameOK (n : Node) : Prop := cSlash ∉ n.name

def NS (sv : Server) : Prop := AllNodes NameOK sv.root

theorem NS.of_root {a b : Server} (h : b.root = a.root) (ha : NS a) : NS b := by
  unfold NS at *; rw [h]; exact ha

theorem NS.setNode {sv : Server} (path : List Bytes) (f : Node → Node) (hname : ∀ n, (f n).name = n.name)
    (ht : ∀ t, AllNodes NameOK t → AllNodes NameOK (f t)) (h : NS sv) : NS (Reflector.setNode sv path f) :=
  AllNodes.updateAt hname (fun n c hn => hn) fuelDepth sv.root path h (fun t _ => ht t)

theorem NS.setField {sv : Server} (path : List Bytes) (f : Node → Node) (hname : ∀ n, (f n).name = n.name)
    (hkids : ∀ n, (f n).kids = n.kids) (h : NS sv) : NS (Reflector.setNode sv path f) := by
  apply NS.setNode path f hname _ h
  intro t ht
  refine AllNodes.mk _ ?_ ?_
  · show cSlash ∉ (f t).name
    rw [hname]; exact ht.here
  · rw [hkids]; exact ht.kid

theorem NS.putKid {sv : Server} (parent : List Bytes) (child : Node) (hc : AllNodes NameOK child) (h : NS sv) :
    NS (Reflector.setNode sv parent (fun p => p.setKids (Reflector.putKid child p.kids))) := by
  refine NS.setNode parent _ ?_ ?_ h
  · intro _; rfl
  intro t ht
  refine AllNodes.mk _ ht.here ?_
  intro k hk
  rcases mem_putKid hk with rfl | hk
  · exact hc
  · exact ht.kid k hk

theorem NS.removeKid {sv : Server} (parent : List Bytes) (key : Bytes) (h : NS sv) :
    NS (Reflector.setNode sv parent (fun p => p.setKids (Reflector.removeKid key p.kids))) := by
  refine NS.setNode parent _ ?_ ?_ h
  · intro _; rfl
  intro t ht
  exact AllNodes.mk _ ht.here (fun k hk => ht.kid k (mem_removeKid hk))

theorem allNodes_leaf {c : Node} (hn : cSlash ∉ c.name) (hk : c.kids = []) : AllNodes NameOK c :=
  AllNodes.mk _ hn (by rw [hk]; intro k hk'; cases hk')

theorem NS.notifyChanged {sv : Server} (by_ : Nat) (names : List Bytes) (node : Node) (od : Option (Option Nat))
    (removed : Bool) (h : NS sv) : NS (Reflector.notifyChanged sv by_ names node od removed) := h.of_root (by simp)

theorem NS.notifyIndex {sv : Server} (names : List Bytes) (node : Node) (instr : Bytes) (h : NS sv) :
    NS (Reflector.notifyIndex sv names node instr) := h.of_root (by simp)

theorem NS.updSess {sv : Server} (sid : Nat) (f : Sess → Sess) (h : NS sv) : NS (sv.updSess sid f) := h.of_root rfl

theorem NS.pushAll {sv : Server} (h : NS sv) : NS (Reflector.pushAll sv) := h.of_root (by simp)

theorem NS.putChild {sv : Server} (by_ : Nat) (parent : List Bytes) (child : Node) (notify : Bool)
    (hn : cSlash ∉ child.name) (hk : child.kids = []) (h : NS sv) : NS (Reflector.putChild sv by_ parent child notify) := by
  unfold Reflector.putChild
  simp only []
  have core := h.putKid parent (child.setSubs (marksForNewNode sv (parent ++ [child.name])))
    (allNodes_leaf (c := child.setSubs _) hn hk)
  split
  · exact core.notifyChanged ..
  · exact core

@[simp] theorem ns_notifyChanged (sv : Server) (by_ : Nat) (names : List Bytes) (node : Node) (od : Option (Option Nat))
    (removed : Bool) : NS (Reflector.notifyChanged sv by_ names node od removed) ↔ NS sv := by
  unfold NS; rw [notifyChanged_root]

@[simp] theorem ns_notifyIndex (sv : Server) (names : List Bytes) (node : Node) (instr : Bytes) :
    NS (Reflector.notifyIndex sv names node instr) ↔ NS sv := by
  unfold NS; rw [notifyIndex_root]

@[simp] theorem ns_updSess (sv : Server) (sid : Nat) (f : Sess → Sess) : NS (sv.updSess sid f) ↔ NS sv := Iff.rfl

@[simp] theorem ns_pushAll (sv : Server) : NS (Reflector.pushAll sv) ↔ NS sv := by
  unfold NS; rw [pushAll_root]

/-- normalise away notifications, then close by hypothesis or by a field update of a hypothesis -/
macro "ns_chain" : tactic => `(tactic|
  (try simp only [ns_notifyChanged, ns_notifyIndex, ns_updSess, ns_pushAll] at *
   first
   | assumption
   | (refine NS.setField _ _ (fun _ => rfl) (fun _ => rfl) ?_; assumption)
   | (refine NS.setField _ _ (fun _ => rfl) (fun _ => rfl) ?_
      refine NS.setField _ _ (fun _ => rfl) (fun _ => rfl) ?_; assumption)))

theorem NS.removeIndexEntry {sv : Server} (parent : List Bytes) (key : Bytes) (notify : Bool) (h : NS sv) :
    NS (Reflector.removeIndexEntry sv parent key notify) := by
  unfold Reflector.removeIndexEntry
  repeat' (first | split | simp only [])
  all_goals ns_chain

/-! ## generated names -/

theorem noSlash_decB (n : Nat) : cSlash ∉ decB n := by
  intro h
  have := isDigitB_decB n _ h
  revert this; decide

theorem noSlash_autoNm (k : Nat) : cSlash ∉ autoNm k := by
  rw [autoNm_bytes]
  intro h
  rcases List.mem_cons.1 h with h | h
  · revert h; decide
  · exact noSlash_decB k h

theorem noSlash_autoName : ∀ (fuel ctr : Nat) (kids : List Node), cSlash ∉ (autoName fuel ctr kids).1 := by
  intro fuel
  induction fuel with
  | zero => intro ctr kids; exact noSlash_autoNm ctr
  | succ fuel ih =>
    intro ctr kids
    rw [autoName]
    split
    · exact ih _ _
    · exact noSlash_autoNm ctr

theorem noSlash_sidName (n : Nat) : cSlash ∉ sidName n := by
  unfold sidName
  rw [decOf_eq_decB]; exact noSlash_decB n

theorem NS.insertOrderedChild {sv : Server} (by_ : Nat) (parent : List Bytes) (d : Option Nat) (before name : Bytes)
    (nc : Bool) (hname : cSlash ∉ name) (h : NS sv) : NS (Reflector.insertOrderedChild sv by_ parent d before name nc) := by
  unfold Reflector.insertOrderedChild
  split
  · exact h
  · rename_i p hp
    simp only []
    have hnm : cSlash ∉ (if name.isEmpty then autoName (p.kids.length + 1) p.ctr p.kids else (name, p.ctr)).1 := by
      split
      · exact noSlash_autoName _ _ _
      · exact hname
    generalize (if name.isEmpty then autoName (p.kids.length + 1) p.ctr p.kids else (name, p.ctr)) = pr at hnm
    obtain ⟨nm, ctr'⟩ := pr
    simp only [] at hnm ⊢
    have h1 : NS (Reflector.putChild (Reflector.setNode sv parent (fun p => p.setCtr ctr')) by_ parent (Node.fresh nm d) nc) :=
      NS.putChild by_ parent _ nc hnm rfl (h.setField parent _ (fun _ => rfl) (fun _ => rfl))
    repeat' split
    all_goals ns_chain

theorem NS.reorderChild {sv : Server} (parent : List Bytes) (child before : Bytes) (h : NS sv) :
    NS (Reflector.reorderChild sv parent child before) := by
  unfold Reflector.reorderChild
  split
  · exact h
  · split
    · exact h
    · split
      · exact h
      · have := h.removeIndexEntry parent child true
        repeat' (first | split | simp only [])
        all_goals ns_chain

/-! ## `SetDataNode` -/

theorem NS.setDataClauses (by_ : Nat) (d : Option Nat) (ati : Bool) :
    ∀ (cls : List Bytes) (sv : Server) (cur : List Bytes), (∀ c ∈ cls, cSlash ∉ c) → NS sv →
      NS (Reflector.setDataClauses by_ d ati sv cur cls) := by
  intro cls
  induction cls with
  | nil => intro sv cur _ h; simp only [Reflector.setDataClauses]; exact h
  | cons cl rest ih =>
    intro sv cur hcl h
    have hc : cSlash ∉ cl := hcl cl List.mem_cons_self
    have hr : ∀ c ∈ rest, cSlash ∉ c := fun c hc => hcl c (List.mem_cons_of_mem _ hc)
    simp only [Reflector.setDataClauses]
    split
    · exact h
    · split
      · apply ih _ _ hr
        have h1 := h.insertOrderedChild by_ cur d [] cl true hc
        have h2 : ∀ dd nt, NS (Reflector.putChild sv by_ cur (Node.fresh cl dd) nt) :=
          fun dd nt => NS.putChild by_ cur _ nt hc rfl h
        repeat' (first | split | simp only [])
        all_goals first
          | ns_chain
          | ((try simp only [ns_notifyChanged, ns_notifyIndex, ns_updSess, ns_pushAll]); exact h2 _ _)
      · apply ih _ _ hr
        repeat' (first | split | simp only [])
        all_goals ns_chain

theorem mr_splitSlashAux_noslash (p cur : Bytes) (hcur : cSlash ∉ cur) : ∀ c ∈ splitSlashAux p cur, cSlash ∉ c := by
  induction p generalizing cur with
  | nil => intro c hc; simp [splitSlashAux] at hc; subst hc; simpa using hcur
  | cons x r ih =>
    intro c hc
    rw [splitSlashAux] at hc
    split at hc
    · rcases List.mem_cons.1 hc with rfl | hc
      · simpa using hcur
      · exact ih [] (by simp) c hc
    · rename_i hx
      apply ih (x :: cur) _ c hc
      intro hm
      rcases List.mem_cons.1 hm with e | hm
      · exact hx e.symm
      · exact hcur hm

theorem noSlash_pathClauses (path : Bytes) : ∀ c ∈ pathClauses path, cSlash ∉ c := by
  intro c hc
  exact mr_splitSlashAux_noslash path [] (by simp) c (List.mem_filter.1 hc).1

theorem NS.setDataNode {sv : Server} (by_ : Nat) (path : Bytes) (d : Option Nat) (ati : Bool) (h : NS sv) :
    NS (Reflector.setDataNode sv by_ path d ati) := by
  unfold Reflector.setDataNode
  repeat' split
  all_goals first | exact h | exact NS.setDataClauses _ _ _ _ _ _ (noSlash_pathClauses _) h

/-! ## removal, the other handlers -/

theorem NS.removeOne {sv : Server} (by_ : Nat) (notify : Bool) (names : List Bytes) (h : NS sv) :
    NS (Reflector.removeOne sv by_ notify names) := by
  unfold Reflector.removeOne
  split
  · simp only []
    apply NS.removeKid
    have := h.removeIndexEntry names.dropLast ‹Bytes› notify
    repeat' split
    all_goals ns_chain
  · exact h

theorem NS.removeChild {sv : Server} (by_ : Nat) (notify : Bool) (names : List Bytes) (h : NS sv) :
    NS (Reflector.removeChild sv by_ notify names) := by
  unfold Reflector.removeChild
  split
  · exact h
  · exact foldl_inv NS _ (fun sv nm hsv => hsv.removeOne by_ notify nm) _ _ h

theorem NS.removeData {sv : Server} (sid : Nat) (keys : List Bytes) (h : NS sv) : NS (Reflector.removeData sv sid keys) := by
  unfold Reflector.removeData
  split
  · exact h
  · simp only []
    exact foldl_inv NS _ (fun sv v hsv => hsv.removeChild sid true v) _ _ h

theorem NS.insertOrdered {sv : Server} (sid : Nat) (key before : Bytes) (vals : List Nat) (h : NS sv) :
    NS (Reflector.insertOrdered sv sid key before vals) := by
  unfold Reflector.insertOrdered
  split
  · exact h
  · simp only []
    apply foldl_inv NS _ _ _ _ h
    intro sv1 v h1
    apply foldl_inv NS _ _ _ _ h1
    intro sv2 x h2
    exact (h2.insertOrderedChild sid v (some x) before [] true (by simp)).updSess ..

theorem NS.reorder {sv : Server} (sid : Nat) (key before : Bytes) (h : NS sv) : NS (Reflector.reorder sv sid key before) := by
  have hcore : NS (reorderCore sv sid key before) := by
    unfold Reflector.reorderCore
    split
    · exact h
    · simp only []
      apply foldl_inv NS _ _ _ _ h
      intro sv1 v h1
      repeat' split
      all_goals first | exact h1 | exact h1.reorderChild ..
  unfold Reflector.reorder
  simp only []
  repeat' split
  all_goals first | exact hcore | exact hcore.updSess ..

theorem NS.refs {sv : Server} (sid : Nat) (delta : Option Int) (V : List (List Bytes)) (h : NS sv) :
    NS (V.foldl (fun sv v => Reflector.setNode sv v (fun n => n.setSubs (adjustSubs n.subs sid delta))) sv) :=
  foldl_inv NS (fun sv v => Reflector.setNode sv v (fun n => n.setSubs (adjustSubs n.subs sid delta)))
    (fun sv v hsv => NS.setField v (fun n => n.setSubs (adjustSubs n.subs sid delta)) (fun _ => rfl) (fun _ => rfl) hsv) V sv h

theorem NS.subscribe {sv : Server} (sid : Nat) (path : Bytes) (f : Option Filt) (h : NS sv) :
    NS (Reflector.subscribe sv sid path f) := by
  have hroot : ∃ V : List (List Bytes), (Reflector.subscribe sv sid path f).root =
      (V.foldl (fun sv v => Reflector.setNode sv v (fun n => n.setSubs (adjustSubs n.subs sid (some 1)))) sv).root := by
    unfold Reflector.subscribe
    split
    · exact ⟨[], rfl⟩
    · simp only []
      rw [doGetData_root]
      simp only [updSess_root]
      split
      · refine ⟨[], ?_⟩
        simp only [updSess_root, List.foldl_nil]
        split
        · apply foldl_root
          intro sv1 v
          repeat' split
          all_goals simp
        · rfl
      · split
        · exact ⟨[], rfl⟩
        · unfold subscribeRefs
          refine ⟨travGlobal (sv.updSess sid (fun s => { s with subs := pmPut s.subs (adjustPrefix path (some defaultPrefix)) f }))
            (pmPut [] (adjustPrefix path (some defaultPrefix)) none) false cbContinue, ?_⟩
          have : ∀ (V : List (List Bytes)) (a b : Server), a.root = b.root →
              (V.foldl (fun sv v => Reflector.setNode sv v (fun n => n.setSubs (adjustSubs n.subs sid (some 1)))) a).root =
              (V.foldl (fun sv v => Reflector.setNode sv v (fun n => n.setSubs (adjustSubs n.subs sid (some 1)))) b).root := by
            intro V
            induction V with
            | nil => intro a b hab; exact hab
            | cons v r ih =>
              intro a b hab
              simp only [List.foldl_cons]
              apply ih
              simp only [setNode_root, hab]
          exact this _ _ _ rfl
  obtain ⟨V, hV⟩ := hroot
  exact (NS.refs sid (some 1) V h).of_root hV

theorem NS.unsubscribe {sv : Server} (sid : Nat) (path : Bytes) (h : NS sv) : NS (Reflector.unsubscribe sv sid path) := by
  unfold Reflector.unsubscribe
  split
  · exact h
  · simp only []
    split
    · exact h
    · apply NS.updSess
      split
      · unfold subscribeRefs
        exact NS.refs _ _ _ (h.updSess ..)
      · exact h

theorem NS.attach {sv : Server} (slot : Nat) (host : Bytes) (hh : cSlash ∉ host) (h : NS sv) : NS (Reflector.attach sv slot host).1 := by
  unfold Reflector.attach
  simp only []
  apply NS.pushAll
  refine NS.putChild _ _ (Node.fresh (sidName sv.nextSid) none) _ (noSlash_sidName _) rfl ?_
  split
  · exact NS.of_root (a := sv) rfl h
  · exact NS.putChild _ _ (Node.fresh host none) _ hh rfl (NS.of_root (a := sv) rfl h)

theorem NS.detach {sv : Server} (sid : Nat) (h : NS sv) : NS (Reflector.detach sv sid) := by
  unfold Reflector.detach
  split
  · exact h
  · rename_i s hs
    simp only []
    have h1 : NS (Reflector.removeChild sv sid true (sessNames s)) := h.removeChild ..
    have h2 : NS (Reflector.pushAll (match getNode (Reflector.removeChild sv sid true (sessNames s)) [s.host] with
      | some hn => if hn.kids.isEmpty then
          Reflector.removeChild (Reflector.removeChild sv sid true (sessNames s)) sid true [s.host]
          else Reflector.removeChild sv sid true (sessNames s)
      | none => Reflector.removeChild sv sid true (sessNames s))) := by
      apply NS.pushAll
      repeat' split
      all_goals first | exact h1 | exact h1.removeChild ..
    generalize Reflector.pushAll (match getNode (Reflector.removeChild sv sid true (sessNames s)) [s.host] with
      | some hn => if hn.kids.isEmpty then
          Reflector.removeChild (Reflector.removeChild sv sid true (sessNames s)) sid true [s.host]
          else Reflector.removeChild sv sid true (sessNames s)
      | none => Reflector.removeChild sv sid true (sessNames s)) = X at h2
    split
    · exact h2.of_root rfl
    · exact (NS.refs sid none _ h2).of_root rfl

theorem NS.runCmd {sv : Server} (h : NS sv) (sid : Nat) (c : Cmd) : NS (Muscle.Eng.SrvEngine.runCmd sv sid c) := by
  cases c with
  | set path v ati => exact h.setDataNode ..
  | rm keys => exact h.removeData ..
  | sub path f => exact h.subscribe ..
  | unsub path => exact h.unsubscribe ..
  | ins key before vals => exact h.insertOrdered ..
  | reorder key before => exact h.reorder ..
  | send tag keys => exact h.of_root (sendMsg_root ..)
  | getparams =>
    simp only [Muscle.Eng.SrvEngine.runCmd]
    split
    · exact h
    · exact h.of_root rfl
  | _ => exact h.of_root rfl

/-! ## reachable states with slash-free hosts -/

inductive CReach : Server → Prop
  | init : CReach {}
  | attach {sv : Server} (slot : Nat) (host : Bytes) : cSlash ∉ host → CReach sv → CReach (Reflector.attach sv slot host).1
  | detach {sv : Server} (sid : Nat) : CReach sv → CReach (Reflector.detach sv sid)
  | cmd {sv : Server} (sid : Nat) (c : Cmd) : CmdOK c → CReach sv → CReach (Muscle.Eng.SrvEngine.runCmd sv sid c)
  | push {sv : Server} : CReach sv → CReach (Reflector.pushAll sv)
  | pump {sv : Server} : CReach sv → CReach { sv with sessions := sv.sessions.map (fun s => { s with inbox := [] }) }

theorem CReach.mreach {sv : Server} (h : CReach sv) : MReach sv := by
  induction h with
  | init => exact .init
  | attach slot host _ _ ih => exact .attach slot host ih
  | detach sid _ ih => exact .detach sid ih
  | cmd sid c hc _ ih => exact .cmd sid c hc ih
  | push _ ih => exact .push ih
  | pump _ ih => exact .pump ih

theorem CReach.ns {sv : Server} (h : CReach sv) : NS sv := by
  induction h with
  | init => exact AllNodes.mk _ (by simp [NameOK, Node.fresh, Node.name]) (by intro k hk; cases hk)
  | attach slot host hh _ ih => exact ih.attach slot host hh
  | detach sid _ ih => exact ih.detach sid
  | cmd sid c _ _ ih => exact ih.runCmd sid c
  | push _ ih => exact ih.pushAll
  | pump _ ih => exact ih

/-! ## `pathString` is injective on slash-free name lists -/

theorem pathString_cons (x : Bytes) (r : List Bytes) : pathString (x :: r) = cSlash :: (x ++ pathString r) := by
  simp [pathString]

theorem pathString_head (r : List Bytes) : pathString r = [] ∨ ∃ t, pathString r = cSlash :: t := by
  cases r with
  | nil => left; rfl
  | cons x r => right; exact ⟨_, pathString_cons x r⟩

theorem append_slash_inj : ∀ (x y a b : Bytes), cSlash ∉ x → cSlash ∉ y →
    (a = [] ∨ ∃ t, a = cSlash :: t) → (b = [] ∨ ∃ t, b = cSlash :: t) → x ++ a = y ++ b → x = y ∧ a = b := by
  intro x
  induction x with
  | nil =>
    intro y a b _ hy ha hb h
    cases y with
    | nil => exact ⟨rfl, by simpa using h⟩
    | cons c y' =>
      simp only [List.nil_append, List.cons_append] at h
      rcases ha with ha | ⟨t, ha⟩
      · subst ha; cases h
      · subst ha
        injection h with h1 _
        exact absurd (h1 ▸ List.mem_cons_self) hy
  | cons c x' ih =>
    intro y a b hx hy ha hb h
    cases y with
    | nil =>
      simp only [List.nil_append, List.cons_append] at h
      rcases hb with hb | ⟨t, hb⟩
      · subst hb; cases h
      · subst hb
        injection h with h1 _
        exact absurd (h1 ▸ List.mem_cons_self) hx
    | cons c' y' =>
      simp only [List.cons_append] at h
      injection h with h1 h2
      subst h1
      have := ih y' a b (fun hm => hx (List.mem_cons_of_mem _ hm)) (fun hm => hy (List.mem_cons_of_mem _ hm)) ha hb h2
      exact ⟨by rw [this.1], this.2⟩

theorem pathString_inj : ∀ (v w : List Bytes), (∀ x ∈ v, cSlash ∉ x) → (∀ x ∈ w, cSlash ∉ x) →
    pathString v = pathString w → v = w := by
  intro v
  induction v with
  | nil =>
    intro w _ _ h
    cases w with
    | nil => rfl
    | cons y r => rw [pathString_cons] at h; cases h
  | cons x r ih =>
    intro w hv hw h
    cases w with
    | nil => rw [pathString_cons] at h; cases h
    | cons y r' =>
      rw [pathString_cons, pathString_cons] at h
      injection h with _ h
      obtain ⟨h1, h2⟩ := append_slash_inj x y _ _ (hv x List.mem_cons_self) (hw y List.mem_cons_self)
        (pathString_head r) (pathString_head r') h
      rw [h1, ih r' (fun z hz => hv z (List.mem_cons_of_mem _ hz)) (fun z hz => hw z (List.mem_cons_of_mem _ hz)) h2]

/-- the names along an existing path are names of nodes of the tree -/
theorem names_ok_of_nodeAt {root : Node} (h : AllNodes NameOK root) :
    ∀ (v : List Bytes) (fuel : Nat) (n : Node), nodeAt fuel root v = some n → ∀ x ∈ v, cSlash ∉ x := by
  intro v
  induction v generalizing root with
  | nil => intro _ _ _ x hx; cases hx
  | cons a r ih =>
    intro fuel n hn x hx
    cases fuel with
    | zero => simp [nodeAt_zero_cons] at hn
    | succ fuel =>
      rw [nodeAt_succ_cons] at hn
      cases hk : findKid a root.kids with
      | none => rw [hk] at hn; cases hn
      | some k =>
        rw [hk] at hn
        simp only [] at hn
        have hkm := findKid_some_mem hk
        rcases List.mem_cons.1 hx with rfl | hx
        · have := (h.kid k hkm).here
          rw [← findKid_name hk]; exact this
        · exact ih (h.kid k hkm) fuel n hn x hx

/-- in an `NS` state the path string of a slash-free name list belongs to no other existing node -/
theorem NS.unamb {sv : Server} (h : NS sv) {v : List Bytes} (hv : ∀ x ∈ v, cSlash ∉ x) : Unamb sv v := by
  intro w hw hsome
  obtain ⟨n, hn⟩ := Option.isSome_iff_exists.1 hsome
  exact pathString_inj w v (names_ok_of_nodeAt h w _ n hn) hv hw

theorem NS.names {sv : Server} (h : NS sv) {v : List Bytes} {n : Node} (hn : getNode sv v = some n) :
    ∀ x ∈ v, cSlash ∉ x := names_ok_of_nodeAt h v _ n hn

end Muscle.Reflector
