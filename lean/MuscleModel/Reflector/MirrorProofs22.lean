import MuscleModel.Reflector.MirrorProofs21

/-!
# C04 lemmas, part 22: unsubscribe with the client's drop rule; histories with arrivals

The server sends NOTHING on `RemoveParameter("SUBSCRIBE:…")`: the client is expected to drop what no remaining
subscription matches.  `applyUnsub pm m` is that client step: keep a mirrored path `p` with payload `d` iff some entry of
the remaining matcher `pm` matches the names of `p` (`namesOf`, the inverse of `pathString` on slash-free names) and its
filter accepts `d`.  `unsubscribe_step`: a right mirror for the old subscription set becomes a right mirror for the new
one — whatever the command did (also when the parameter or the entry does not exist).
-/

set_option linter.unusedSimpArgs false
set_option linter.unusedVariables false

namespace Muscle.Reflector
open Muscle Muscle.Eng.SrvEngine

/-! ## `namesOf` -/

def namesOf : Bytes → List Bytes
  | [] => []
  | _ :: r => splitSlash r

theorem splitSlashAux_noslash (x : Bytes) (hx : cSlash ∉ x) (rest cur : Bytes) :
    splitSlashAux (x ++ rest) cur = splitSlashAux rest (x.reverse ++ cur) := by
  induction x generalizing cur with
  | nil => rfl
  | cons c x' ih =>
    have hc : c ≠ cSlash := fun e => hx (e ▸ List.mem_cons_self)
    simp only [List.cons_append, splitSlashAux, hc, if_false]
    rw [ih (fun hm => hx (List.mem_cons_of_mem _ hm))]
    simp

theorem namesOf_pathString : ∀ (v : List Bytes), v ≠ [] → (∀ x ∈ v, cSlash ∉ x) → namesOf (pathString v) = v := by
  intro v hv hns
  cases v with
  | nil => exact absurd rfl hv
  | cons x r =>
    rw [pathString_cons]
    show splitSlash (x ++ pathString r) = x :: r
    unfold splitSlash
    have key : ∀ (r : List Bytes) (x cur : Bytes), cSlash ∉ x → (∀ y ∈ r, cSlash ∉ y) →
        splitSlashAux (x ++ pathString r) cur = (cur.reverse ++ x) :: r := by
      intro r
      induction r with
      | nil =>
        intro x cur hx _
        have : pathString [] = [] := rfl
        rw [this, splitSlashAux_noslash x hx [] cur]
        simp [splitSlashAux]
      | cons y r' ih =>
        intro x cur hx hr
        rw [pathString_cons, splitSlashAux_noslash x hx _ cur]
        simp only [splitSlashAux, if_true]
        have := ih y [] (hr y List.mem_cons_self) (fun z hz => hr z (List.mem_cons_of_mem _ hz))
        simp only [List.reverse_nil, List.nil_append] at this
        rw [this]
        simp
    have := key r x [] (hns x List.mem_cons_self) (fun y hy => hns y (List.mem_cons_of_mem _ hy))
    simpa using this

/-- the client's step after its own unsubscribe -/
def applyUnsub (pm : PM) (m : Mirror) : Mirror := fun p =>
  match m p with
  | some d => if pmMatchesPath pm (namesOf p) true d then some d else none
  | none => none

/-! ## `MatchesPath` after `pmRemove` -/

theorem mr_matches_remove_mono {pm : PM} (hk : (pm.map (·.1)).Nodup) (str : Bytes) (v : List Bytes) (uf : Bool)
    (d : Option Nat) (h : pmMatchesPath (pmRemove pm str) v uf d = true) : pmMatchesPath pm v uf d = true := by
  unfold pmMatchesPath at h ⊢
  rw [mr_pmGroup_remove hk] at h
  split at h
  · rw [List.any_eq_true] at h ⊢
    obtain ⟨e, he, hc⟩ := h
    exact ⟨e, (List.mem_filter.1 he).1, hc⟩
  · exact h

/-! ## the step -/

/-- what any outcome of `unsubscribe` looks like for the session itself -/
def UnsubShape (sv U : Server) (sid : Nat) (s : Sess) (str : Bytes) : Prop :=
  (∃ s', U.sess? sid = some s' ∧ s'.sid = s.sid ∧ s'.reflectSelf = s.reflectSelf ∧ s'.nextData = s.nextData ∧
    s'.inbox = s.inbox ∧ (s'.subs = s.subs ∨ s'.subs = pmRemove s.subs str)) ∧
  ∀ w, (getNode U w).map Node.data = (getNode sv w).map Node.data

theorem unsubscribe_shape {sv : Server} {sid : Nat} {s : Sess} (hs : sv.sess? sid = some s) (path : Bytes) :
    UnsubShape sv (unsubscribe sv sid path) sid s (adjustPrefix path (some defaultPrefix)) := by
  unfold unsubscribe
  rw [hs]
  simp only []
  split
  · exact ⟨⟨s, hs, rfl, rfl, rfl, rfl, Or.inl rfl⟩, fun _ => rfl⟩
  · split
    · -- entry removed, counts adjusted, parameter removed
      have h1 : (sv.updSess sid (fun t => { t with subs := pmRemove t.subs (adjustPrefix path (some defaultPrefix)) })).sess? sid =
          some { s with subs := pmRemove s.subs (adjustPrefix path (some defaultPrefix)) } := by
        refine sess?_updSess_same sv sid _ ?_ hs
        intro _; rfl
      have h2 : (subscribeRefs (sv.updSess sid (fun t => { t with subs := pmRemove t.subs (adjustPrefix path (some defaultPrefix)) }))
          sid (pmPut [] (adjustPrefix path (some defaultPrefix)) none) (some (-1))).sess? sid =
          some { s with subs := pmRemove s.subs (adjustPrefix path (some defaultPrefix)) } := by
        unfold subscribeRefs
        unfold Server.sess? at h1 ⊢
        rw [foldl_setNode_sessions]; exact h1
      refine ⟨⟨_, sess?_updSess_same _ sid _ (by intro _; rfl) h2, rfl, rfl, rfl, rfl, Or.inr rfl⟩, fun w => ?_⟩
      unfold subscribeRefs
      show (getNode (List.foldl _ _ _) w).map Node.data = _
      rw [mr_refs_data]; rfl
    · exact ⟨⟨_, sess?_updSess_same sv sid _ (by intro _; rfl) hs, rfl, rfl, rfl, rfl, Or.inl rfl⟩, fun _ => rfl⟩

/-- UNSUBSCRIBE by `sid` itself, with the client's drop rule. -/
theorem unsubscribe_step {sv : Server} (hinv : Inv sv) {sid : Nat} {s : Sess} (hs : sv.sess? sid = some s) (path : Bytes)
    (m : Mirror) (hm : MirrorOK sv s m) :
    ∃ s', (unsubscribe sv sid path).sess? sid = some s' ∧ s'.nextData = s.nextData ∧ s'.inbox = s.inbox ∧
      MirrorOK (unsubscribe sv sid path) s' (applyUnsub s'.subs m) := by
  obtain ⟨⟨s', hs', hsid, hrs, hnd, hin, hsubs⟩, hdata⟩ := unsubscribe_shape hs path
  refine ⟨s', hs', hnd, hin, ?_⟩
  have hwf : SubsWF s.subs := hinv.2.1.1.wf (sid, s.subs) (List.mem_of_find?_eq_some (mr_sessKeys_find hs))
  have hmono : ∀ v d, wants s' v d = true → wants s v d = true := by
    intro v d h
    unfold wants at h ⊢
    rcases hsubs with e | e
    · rw [e] at h; exact h
    · rw [e] at h; exact mr_matches_remove_mono hwf.keys _ v true d h
  have hvis : ∀ v, visible s' v = visible s v := by intro v; unfold visible; rw [hsid, hrs]
  intro p d
  unfold applyUnsub
  constructor
  · intro h
    cases hmp : m p with
    | none => rw [hmp] at h; cases h
    | some d0 =>
      rw [hmp] at h
      simp only [] at h
      split at h
      · rename_i hw
        have hd : d0 = d := Option.some.inj h
        subst hd
        obtain ⟨v, n, hv0, hn, hpv, hvv, _, hdn⟩ := (hm p d0).1 hmp
        have hnames := hinv.2.2.names hn
        have hno : namesOf p = v := by rw [← hpv]; exact namesOf_pathString v hv0 hnames
        rw [hno] at hw
        have := hdata v
        rw [hn] at this
        cases hu : getNode (unsubscribe sv sid path) v with
        | none => rw [hu] at this; simp at this
        | some n2 =>
          rw [hu] at this
          simp only [Option.map_some, Option.some.injEq] at this
          exact ⟨v, n2, hv0, hu, hpv, by rw [hvis]; exact hvv, by unfold wants; rw [this, hdn]; exact hw,
            by rw [this]; exact hdn⟩
      · cases h
  · rintro ⟨v, n2, hv0, hu, hpv, hvv, hww, hdn⟩
    have := hdata v
    rw [hu] at this
    cases hn : getNode sv v with
    | none => rw [hn] at this; simp at this
    | some n =>
      rw [hn] at this
      simp only [Option.map_some, Option.some.injEq] at this
      have hold : Matches sv s p d :=
        ⟨v, n, hv0, hn, hpv, by rw [← hvis]; exact hvv, by rw [← this]; exact hmono v _ hww, by rw [← this]; exact hdn⟩
      have hmp := (hm p d).2 hold
      rw [hmp]
      simp only []
      have hnames := hinv.2.2.names hn
      have hno : namesOf p = v := by rw [← hpv]; exact namesOf_pathString v hv0 hnames
      rw [hno]
      have : pmMatchesPath s'.subs v true d = true := by
        have := hww; unfold wants at this; rw [hdn] at this; exact this
      rw [if_pos this]

/-! ## histories with arrivals -/

inductive History (sid : Nat) : Server → Server → Prop
  | hist {a b : Server} : Hist sid a b → History sid a b
  | attach {sv : Server} (slot : Nat) (host : Bytes) : cSlash ∉ host → FreshSessNode sv host → (sv.sess? sid).isSome →
      History sid sv (attach sv slot host).1
  | trans {a b c : Server} : History sid a b → History sid b c → History sid a c

theorem Inv.attach {sv : Server} (h : Inv sv) (slot : Nat) (host : Bytes) (hh : cSlash ∉ host) : Inv (attach sv slot host).1 :=
  ⟨treeInv_attach slot host h.1, h.2.1.attach slot host, NS.attach slot host hh h.2.2⟩

theorem history_sync {sid : Nat} {sv sv' : Server} (hh : History sid sv sv') (h : Inv sv) :
    SyncFor sid sv sv' ∧ Inv sv' := by
  induction hh with
  | hist hs => exact hist_sync hs h
  | attach slot host hno hfr hold => exact ⟨syncFor_attach h slot host hno hfr hold, h.attach slot host hno⟩
  | trans _ _ ih1 ih2 =>
    obtain ⟨s1, i1⟩ := ih1 h
    obtain ⟨s2, i2⟩ := ih2 i1
    exact ⟨s1.trans s2, i2⟩

theorem converges_history_core {sid : Nat} {sv sv' : Server} (hh : History sid sv sv') (h : Inv sv) {s : Sess}
    (hs : sv.sess? sid = some s) (hen : s.subsEnabled = true) (hq : pend s = {})
    (hq' : ∀ s', sv'.sess? sid = some s' → pend s' = {}) (m : Mirror) (hm : MirrorOK sv s m) :
    ∃ s' sent, sv'.sess? sid = some s' ∧ s'.vcore = s.vcore ∧ dataLines s' = dataLines s ++ sent.map dataText ∧
      MirrorOK sv' s' (applyMsgs m sent) := by
  obtain ⟨hsync, _⟩ := history_sync hh h
  obtain ⟨evs, hsy⟩ := hsync s hs hen m
  obtain ⟨s', sent, hs', hc, hd, _, hok⟩ := replay_of_sync hsy hs hq hq'
  exact ⟨s', sent, hs', hc, hd, (mirrorOK_core hc sv' _).2 (hok hm)⟩

/-- ONE SUBSCRIBE from the empty mirror, then any `History` (arrivals included) -/
theorem converges_fixed_subs_history {sv0 sv' : Server} (h0 : Inv sv0) {sid : Nat} {s0 : Sess}
    (hs0 : sv0.sess? sid = some s0) (hnos : s0.subs = []) (hen : s0.subsEnabled = true) (hq0 : pend s0 = {})
    (path : Bytes) (f : Option Filt) (hgood : GoodPath (adjustPrefix path (some defaultPrefix)))
    (hV : SnapVisits (subC sv0 sid path f) (subSess s0 path f) (adjustPrefix path (some defaultPrefix)) f)
    (hh : History sid (runCmd sv0 sid (.sub path f)) sv')
    (hq' : ∀ s', sv'.sess? sid = some s' → pend s' = {}) :
    ∃ s' sent, sv'.sess? sid = some s' ∧ dataLines s' = dataLines s0 ++ sent.map dataText ∧
      s'.subs = pmPut [] (adjustPrefix path (some defaultPrefix)) f ∧
      MirrorOK sv' s' (applyMsgs (fun _ => none) sent) := by
  have hf : pmFind s0.subs (adjustPrefix path (some defaultPrefix)) = none := by rw [hnos]; rfl
  obtain ⟨sD, sent1, hsD, hcD, hnD, hdD, hmD⟩ := subscribe_new_replay h0 hs0 path f hgood hf hV (fun _ => none)
    (mirrorOK_nosubs sv0 hnos)
  have h1 : Inv (runCmd sv0 sid (.sub path f)) := h0.runCmd sid _ hgood
  have henD : sD.subsEnabled = true := by
    have := congrArg Sess.subsEnabled hcD
    have h' : sD.subsEnabled = s0.subsEnabled := this
    rw [h']; exact hen
  have hqD : pend sD = {} := by unfold pend at hq0 ⊢; rw [hnD]; exact hq0
  obtain ⟨s', sent2, hs', hc', hd', hm'⟩ := converges_history_core hh h1 (s := sD) hsD henD hqD hq' _ hmD
  refine ⟨s', sent1 ++ sent2, hs', ?_, ?_, ?_⟩
  · rw [hd', hdD, List.map_append, List.append_assoc]
  · have e1 : s'.subs = sD.subs := by have := congrArg Sess.subs hc'; exact this
    have e2 : sD.subs = (subSess s0 path f).subs := by have := congrArg Sess.subs hcD; exact this
    rw [e1, e2]
    show pmPut s0.subs _ f = _
    rw [hnos]
  · rw [applyMsgs_append]; exact hm'

end Muscle.Reflector
