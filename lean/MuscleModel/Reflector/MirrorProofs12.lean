import MuscleModel.Reflector.MirrorProofs11

/-!
# C04 lemmas, part 12: removal of a leaf, chaining of `Sync` steps, and the replay of everything delivered

* `sync_removeRest`: the notifying part of `RemoveChild` for one childless node (`removeOneRest`: the removed-notification
  BEFORE the node leaves the tree, then `removeKid`);
* `Sync.trans`, `sync_pushAll`: steps chain, a push is an empty step;
* `replay_of_sync`: between two quiescent points (nothing pending) the data lines appended to the inbox are the text of
  structured Messages `sent`, and a mirror that was right before is right after applying them, Message by Message,
  removals first — the shape of `converges`.
-/

set_option linter.unusedSimpArgs false
set_option linter.unusedVariables false

namespace Muscle.Reflector
open Muscle

theorem mr_removeKid_data {sv : Server} (hti : TreeInv sv) (parent : List Bytes) (key : Bytes) {c : Node}
    (hc : getNode sv (parent ++ [key]) = some c) (hleaf : c.kids = []) (w : List Bytes) (hw : w ≠ parent ++ [key]) :
    (getNode (setNode sv parent (fun q => q.setKids (removeKid key q.kids))) w).map Node.data =
      (getNode sv w).map Node.data := by
  obtain ⟨p, hp, hk⟩ := getNode_snoc hc
  by_cases hpre : parent <+: w
  · obtain ⟨ext, rfl⟩ := hpre
    rw [mr_getNode_setNode_below (by intro _; rfl), mr_getNode_append, hp]
    simp only [Option.bind_some]
    cases ext with
    | nil => simp [nodeAt_nil]
    | cons b r =>
      cases fuelDepth - parent.length with
      | zero => simp [nodeAt_zero_cons]
      | succ k =>
        rw [nodeAt_succ_cons, nodeAt_succ_cons, setKids_kids]
        have hdist : (p.kids.map Node.name).Nodup := (treeInv_getNode hti hp).here.2
        by_cases hb : b = key
        · subst hb
          rw [findKid_removeKid_nodup b p.kids hdist, hk]
          simp only []
          cases r with
          | nil => exact absurd rfl hw
          | cons b' r' =>
            cases k with
            | zero => simp [nodeAt_zero_cons]
            | succ k' => rw [nodeAt_succ_cons, hleaf]; rfl
        · rw [findKid_removeKid_ne hb]
  · exact mr_getNode_setNode_off Node.data (by intro _ _; rfl) (by intro _; rfl) sv parent w hpre

theorem mr_removeKid_gone {sv : Server} (hti : TreeInv sv) (parent : List Bytes) (key : Bytes) {p : Node}
    (hp : getNode sv parent = some p) :
    getNode (setNode sv parent (fun q => q.setKids (removeKid key q.kids))) (parent ++ [key]) = none := by
  rw [mr_getNode_setNode_below (by intro _; rfl), hp]
  simp only [Option.bind_some]
  cases fuelDepth - parent.length with
  | zero => simp [nodeAt_zero_cons]
  | succ k =>
    rw [nodeAt_succ_cons, setKids_kids, findKid_removeKid_nodup key p.kids (treeInv_getNode hti hp).here.2]

/-- removal of the childless node `c` at `parent ++ [key]`: removed-notification, then the node leaves the tree -/
theorem sync_removeRest {sv : Server} (hti : TreeInv sv) (hk : MK sv) (parent : List Bytes) (key : Bytes) {c : Node}
    (hc : getNode sv (parent ++ [key]) = some c) (hleaf : c.kids = []) (hu : Unamb sv (parent ++ [key]))
    {sid : Nat} {s : Sess} (hs : sv.sess? sid = some s) (hen : s.subsEnabled = true) (by_ : Nat)
    (hcaller : (sid ≠ by_ ∨ bySelfOf sv by_ = true) ↔ visible s (parent ++ [key]) = true) (m : Mirror) :
    Sync sid s sv (removeOneRest sv by_ true parent key) m
      (evsFor sid (changeEvents sv by_ (parent ++ [key]) c (some c.data) true)) := by
  have hv : parent ++ [key] ≠ [] := by simp
  obtain ⟨p, hp, _⟩ := getNode_snoc hc
  unfold removeOneRest removeOneMid
  rw [hc]
  simp only [if_true]
  generalize hmid : notifyChanged sv by_ (parent ++ [key]) c (some c.data) true = mid
  have hmr : mid.root = sv.root := by rw [← hmid]; simp
  have hmt : TreeInv mid := treeInv_of_root hmr hti
  have hcm : getNode mid (parent ++ [key]) = some c := by rw [getNode_congr hmr]; exact hc
  have hpm : getNode mid parent = some p := by rw [getNode_congr hmr]; exact hp
  refine ⟨?_, fun hm => ?_⟩
  · have h1 := pipeStep_notifyChanged sid sv by_ (parent ++ [key]) c (some c.data) true
    rw [hmid] at h1
    have := h1.trans (pipeStep_sessions (sid := sid)
      (sv' := setNode mid parent (fun q => q.setKids (removeKid key q.kids))) rfl)
    simpa using this
  · have hcdata : OneChange sv (setNode mid parent (fun q => q.setKids (removeKid key q.kids))) (parent ++ [key]) := by
      intro w hw
      rw [mr_removeKid_data hmt parent key hcm hleaf w hw, getNode_congr hmr]
    have hgone : getNode (setNode mid parent (fun q => q.setKids (removeKid key q.kids))) (parent ++ [key]) = none :=
      mr_removeKid_gone hmt parent key hpm
    have hu' : Unamb (setNode mid parent (fun q => q.setKids (removeKid key q.kids))) (parent ++ [key]) := by
      intro w hw hsome
      by_cases hwv : w = parent ++ [key]
      · exact hwv
      · apply hu w hw
        rw [← isSome_of_map_eq (hcdata w hwv)]; exact hsome
    rw [evsFor_notify hk hv hc hs]
    split
    · rename_i hcond
      rw [applyOpt_toList]
      have hvis := hcaller.1 hcond.2
      apply mirror_step hv hcdata hu hu' _ _ (fun q hq => changeEv_other s _ _ _ _ m q hq) hm
      intro hmv
      rw [hgone]
      rw [hc] at hmv
      exact expected_remove hen hvis m c.data hmv
    · rename_i hcond
      simp only [List.foldl_nil]
      apply mirror_step_silent hv hcdata hu hu' _ hm
      by_cases hpos : 0 < pmMatchCount s.subs (parent ++ [key])
      · have hvis : visible s (parent ++ [key]) = false := by
          cases hvv : visible s (parent ++ [key]) with
          | false => rfl
          | true => exact absurd ⟨hpos, hcaller.2 hvv⟩ hcond
        rw [expected_invisible hvis, expected_invisible hvis]
      · have h0 : pmMatchCount s.subs (parent ++ [key]) = 0 := by omega
        rw [expected_nomatch h0, expected_nomatch h0]

/-! ## chaining -/

theorem Sync.trans {sid : Nat} {s : Sess} {a b c : Server} {m : Mirror} {e1 e2 : List Ev}
    (h1 : Sync sid s a b m e1) (h2 : Sync sid s b c (e1.foldl applyEv m) e2) : Sync sid s a c m (e1 ++ e2) :=
  ⟨h1.1.trans h2.1, fun hm => by rw [List.foldl_append]; exact h2.2 (h1.2 hm)⟩

theorem Sync.refl (sid : Nat) (s : Sess) (a : Server) (m : Mirror) : Sync sid s a a m [] :=
  ⟨PipeStep.refl sid a, fun hm => hm⟩

/-- `PushSubscriptionMessages` is an empty step -/
theorem sync_pushAll (sid : Nat) (s : Sess) (sv : Server) (m : Mirror) : Sync sid s sv (pushAll sv) m [] :=
  ⟨pipeStep_pushAll sid sv, fun hm => mirrorOK_of_root (a := sv) (by simp) hm⟩

/-- Between two quiescent points: what was appended to the data lines of the inbox is the text of structured Messages
    `sent`, and the client that applies them in order (removals first, then sets, per Message) holds the right mirror. -/
theorem replay_of_sync {sid : Nat} {s : Sess} {sv sv' : Server} {m : Mirror} {evs : List Ev}
    (h : Sync sid s sv sv' m evs) (hs : sv.sess? sid = some s) (hq : pend s = {})
    (hq' : ∀ s', sv'.sess? sid = some s' → pend s' = {}) :
    ∃ s' sent, sv'.sess? sid = some s' ∧ s'.vcore = s.vcore ∧ dataLines s' = dataLines s ++ sent.map dataText ∧
      applyMsgs m sent = evs.foldl applyEv m ∧ (MirrorOK sv s m → MirrorOK sv' s (applyMsgs m sent)) := by
  obtain ⟨s', sent, hs', hc, hd, hview⟩ := h.1 s hs
  have hv := hview m
  rw [hq' s' hs', hq, applyMsg_empty, applyMsg_empty] at hv
  exact ⟨s', sent, hs', hc, hd, hv, fun hm => by rw [hv]; exact h.2 hm⟩

/-- after a push nothing is pending -/
theorem pend_after_pushAll {sv : Server} (hd : sv.subsDirty = true) {sid : Nat} {s' : Sess}
    (hs' : (pushAll sv).sess? sid = some s') : pend s' = {} := by
  rw [sess?_pushAll_dirty sv hd] at hs'
  cases hq : sv.sess? sid with
  | none => rw [hq] at hs'; cases hs'
  | some x =>
    rw [hq] at hs'
    simp only [Option.map_some, Option.some.injEq] at hs'
    rw [← hs']
    simp [pend, pushSess_nextData]

end Muscle.Reflector
