import MuscleModel.Reflector.MirrorProofs24

/-!
# C04 lemmas, part 25: `Story` — every command class, arrivals without hypothesis

`StoryCmd sid sv a c`: what is asked of a command `c` of session `a` in state `sv` for the subscriber `sid`:
SETDATA (with or without the index flag) within the depth bound; REMOVEDATA, REORDERDATA: nothing; INSERTORDEREDDATA: the
insert traversal within the depth bound; everything else: a quiet command (`QuietCmd`) that is `CmdOK`.  The index
commands may be the subscriber's own.  NOT in `Story`: SUBSCRIBE / unsubscribe / parameter commands of `sid` itself (they
are steps of `Run` / `Run2`).  `Story sid`: such commands, pushes, departures of others, arrivals (no hypothesis: `HK`).
-/

set_option linter.unusedSimpArgs false
set_option linter.unusedVariables false

namespace Muscle.Reflector
open Muscle Muscle.Eng.SrvEngine

def StoryCmd (sid : Nat) (sv : Server) (a : Nat) : Cmd → Prop
  | .set path _ false => SetOK path
  | .set path _ true => SetOK path
  | .rm _ => True
  | .ins key _ _ => InsDepthOK sv a key
  | .reorder _ _ => True
  | c => QuietCmd sid a c ∧ CmdOK c

def Inv2 (sv : Server) : Prop := Inv sv ∧ HK sv

theorem cmdOK_of_storyCmd {sid : Nat} {sv : Server} {a : Nat} {c : Cmd} (h : StoryCmd sid sv a c) : CmdOK c := by
  cases c <;> first | trivial | exact h.2

theorem storyCmd_sync {sid : Nat} {sv : Server} (h : Inv sv) (a : Nat) (c : Cmd) (hc : StoryCmd sid sv a c) :
    SyncFor sid sv (runCmd sv a c) := by
  cases c with
  | set path x ati =>
    cases ati with
    | false => exact (syncAll_set h.2 a path hc x).1.for sid
    | true => exact (syncFor_setIndexed h.2 path hc x).1
  | rm keys => exact (syncAll_removeData h a keys).1.for sid
  | ins key before vals => exact (syncFor_insertOrdered h.2 key before vals hc).1
  | reorder key before => exact (quiet_reorder sid a sv key before).syncFor
  | sub path f => exact (quiet_runCmd sv _ hc.1).syncFor
  | unsub path => exact (quiet_runCmd sv _ hc.1).syncFor
  | paramSelf => exact (quiet_runCmd sv _ hc.1).syncFor
  | paramMax n => exact (quiet_runCmd sv _ hc.1).syncFor
  | paramRoute keys => exact (quiet_runCmd sv _ hc.1).syncFor
  | paramRouteF keys fs => exact (quiet_runCmd sv _ hc.1).syncFor
  | unparamMax => exact (quiet_runCmd sv _ hc.1).syncFor
  | unparamRoute => exact (quiet_runCmd sv _ hc.1).syncFor
  | unparamRouteF => exact (quiet_runCmd sv _ hc.1).syncFor
  | getparams => exact (quiet_runCmd sv _ hc.1).syncFor
  | send tag keys => exact (quiet_runCmd sv _ hc.1).syncFor
  | ping tag => exact (quiet_runCmd sv _ hc.1).syncFor

inductive Story (sid : Nat) : Server → Server → Prop
  | refl (sv : Server) : Story sid sv sv
  | cmd {sv : Server} (a : Nat) (c : Cmd) : StoryCmd sid sv a c → Story sid sv (runCmd sv a c)
  | push {sv : Server} : Story sid sv (pushAll sv)
  | detach {sv : Server} (t : Nat) : t ≠ sid → Story sid sv (detach sv t)
  | attach {sv : Server} (slot : Nat) (host : Bytes) : cSlash ∉ host → (sv.sess? sid).isSome →
      Story sid sv (attach sv slot host).1
  | trans {a b c : Server} : Story sid a b → Story sid b c → Story sid a c

theorem Inv2.runCmd {sv : Server} (h : Inv2 sv) (a : Nat) (c : Cmd) (hc : CmdOK c) : Inv2 (runCmd sv a c) :=
  ⟨h.1.runCmd a c hc, h.2.runCmd h.1.2.1.1 a c⟩

theorem story_sync {sid : Nat} {sv sv' : Server} (hh : Story sid sv sv') (h : Inv2 sv) :
    SyncFor sid sv sv' ∧ Inv2 sv' := by
  induction hh with
  | refl sv => exact ⟨SyncFor.refl sid sv, h⟩
  | cmd a c hc => exact ⟨storyCmd_sync h.1 a c hc, h.runCmd a c (cmdOK_of_storyCmd hc)⟩
  | push => exact ⟨(SyncAll.pushAll _).for sid, h.1.pushAll, h.2.of_root (pushAll_root _) (by simp)⟩
  | detach t hne =>
    refine ⟨syncFor_detach h.1 t (fun e => hne e.symm), ?_, h.2.detach h.1.1 h.1.2.1.1 t⟩
    have := MKT.detach (sv := _) ⟨h.1.1, h.1.2.1⟩ t
    exact ⟨this.1, this.2, NS.detach t h.1.2.2⟩
  | attach slot host hno hold =>
    exact ⟨syncFor_attach h.1 slot host hno (FreshSessNode.of_hk h.2 host) hold, h.1.attach slot host hno,
      h.2.attach slot host⟩
  | trans _ _ ih1 ih2 =>
    obtain ⟨s1, i1⟩ := ih1 h
    obtain ⟨s2, i2⟩ := ih2 i1
    exact ⟨s1.trans s2, i2⟩

theorem CReach.inv2 {sv : Server} (h : CReach sv) : Inv2 sv := ⟨h.inv, h.hk⟩

theorem converges_story_core {sid : Nat} {sv sv' : Server} (hh : Story sid sv sv') (h : Inv2 sv) {s : Sess}
    (hs : sv.sess? sid = some s) (hen : s.subsEnabled = true) (hq : pend s = {})
    (hq' : ∀ s', sv'.sess? sid = some s' → pend s' = {}) (m : Mirror) (hm : MirrorOK sv s m) :
    ∃ s' sent, sv'.sess? sid = some s' ∧ s'.vcore = s.vcore ∧ dataLines s' = dataLines s ++ sent.map dataText ∧
      MirrorOK sv' s' (applyMsgs m sent) ∧ Inv2 sv' := by
  obtain ⟨hsync, hinv'⟩ := story_sync hh h
  obtain ⟨evs, hsy⟩ := hsync s hs hen m
  obtain ⟨s', sent, hs', hc, hd, _, hok⟩ := replay_of_sync hsy hs hq hq'
  exact ⟨s', sent, hs', hc, hd, (mirrorOK_core hc sv' _).2 (hok hm), hinv'⟩

/-- ONE SUBSCRIBE from the empty mirror, then any `Story` -/
theorem converges_fixed_subs_story {sv0 sv' : Server} (h0 : Inv2 sv0) {sid : Nat} {s0 : Sess}
    (hs0 : sv0.sess? sid = some s0) (hnos : s0.subs = []) (hen : s0.subsEnabled = true) (hq0 : pend s0 = {})
    (path : Bytes) (f : Option Filt) (hgood : GoodPath (adjustPrefix path (some defaultPrefix)))
    (hV : SnapVisits (subC sv0 sid path f) (subSess s0 path f) (adjustPrefix path (some defaultPrefix)) f)
    (hh : Story sid (runCmd sv0 sid (.sub path f)) sv')
    (hq' : ∀ s', sv'.sess? sid = some s' → pend s' = {}) :
    ∃ s' sent, sv'.sess? sid = some s' ∧ dataLines s' = dataLines s0 ++ sent.map dataText ∧
      s'.subs = pmPut [] (adjustPrefix path (some defaultPrefix)) f ∧
      MirrorOK sv' s' (applyMsgs (fun _ => none) sent) := by
  have hf : pmFind s0.subs (adjustPrefix path (some defaultPrefix)) = none := by rw [hnos]; rfl
  obtain ⟨sD, sent1, hsD, hcD, hnD, hdD, hmD⟩ := subscribe_new_replay h0.1 hs0 path f hgood hf hV (fun _ => none)
    (mirrorOK_nosubs sv0 hnos)
  have h1 : Inv2 (runCmd sv0 sid (.sub path f)) := h0.runCmd sid _ hgood
  have henD : sD.subsEnabled = true := by
    have := congrArg Sess.subsEnabled hcD
    have h' : sD.subsEnabled = s0.subsEnabled := this
    rw [h']; exact hen
  have hqD : pend sD = {} := by unfold pend at hq0 ⊢; rw [hnD]; exact hq0
  obtain ⟨s', sent2, hs', hc', hd', hm', _⟩ := converges_story_core hh h1 (s := sD) hsD henD hqD hq' _ hmD
  refine ⟨s', sent1 ++ sent2, hs', ?_, ?_, ?_⟩
  · rw [hd', hdD, List.map_append, List.append_assoc]
  · have e1 : s'.subs = sD.subs := by have := congrArg Sess.subs hc'; exact this
    have e2 : sD.subs = (subSess s0 path f).subs := by have := congrArg Sess.subs hcD; exact this
    rw [e1, e2]
    show pmPut s0.subs _ f = _
    rw [hnos]
  · rw [applyMsgs_append]; exact hm'

end Muscle.Reflector
