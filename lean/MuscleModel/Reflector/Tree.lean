import MuscleModel.Reflector.Glob

/-!
# The node tree (`reflector/DataNode.cpp`) and the path matcher (`regex/PathMatcher.cpp`)

A node = name, payload, children in iteration order (the `Hashtable`'s insertion order, which
removals preserve and an overwriting `Put` keeps), ordered index (names), the counter used to name
ordered children (`_orderedCounter`), and the subscriber table (session id → reference count).
Payloads in the reflector engine are Messages `{what = 0, "v" : int32}` or empty Messages; the model
keeps `some v` / `none`.  Content filters are int32 comparisons on `v` (`Int32QueryFilter`).
-/

namespace Muscle.Reflector
open Muscle

inductive Node where
  | mk (name : Bytes) (data : Option Nat) (kids : List Node) (index : List Bytes) (ctr : Nat)
       (subs : List (Nat × Nat))

instance : Inhabited Node := ⟨.mk [] none [] [] 0 []⟩

namespace Node
def name : Node → Bytes | .mk n _ _ _ _ _ => n
def data : Node → Option Nat | .mk _ d _ _ _ _ => d
def kids : Node → List Node | .mk _ _ k _ _ _ => k
def index : Node → List Bytes | .mk _ _ _ i _ _ => i
def ctr : Node → Nat | .mk _ _ _ _ c _ => c
def subs : Node → List (Nat × Nat) | .mk _ _ _ _ _ s => s
def setData (n : Node) (d : Option Nat) : Node := .mk n.name d n.kids n.index n.ctr n.subs
def setKids (n : Node) (k : List Node) : Node := .mk n.name n.data k n.index n.ctr n.subs
def setIndex (n : Node) (i : List Bytes) : Node := .mk n.name n.data n.kids i n.ctr n.subs
def setCtr (n : Node) (c : Nat) : Node := .mk n.name n.data n.kids n.index c n.subs
def setSubs (n : Node) (s : List (Nat × Nat)) : Node := .mk n.name n.data n.kids n.index n.ctr s
def fresh (name : Bytes) (d : Option Nat) : Node := .mk name d [] [] 0 []
end Node

def findKid (nm : Bytes) : List Node → Option Node
  | [] => none
  | k :: r => if k.name = nm then some k else findKid nm r

/-- `_children->Put`: an existing child of that name is replaced in place, else appended -/
def putKid (c : Node) : List Node → List Node
  | [] => [c]
  | k :: r => if k.name = c.name then c :: r else k :: putKid c r

def removeKid (nm : Bytes) : List Node → List Node
  | [] => []
  | k :: r => if k.name = nm then r else k :: removeKid nm r

/-- apply `f` to the node at `path` (names below `n`); unchanged when the path does not exist -/
def updateAt (fuel : Nat) (n : Node) (path : List Bytes) (f : Node → Node) : Node :=
  match fuel, path with
  | _, [] => f n
  | 0, _ => n
  | fuel+1, nm :: rest =>
    match findKid nm n.kids with
    | none => n
    | some k => n.setKids (putKid (updateAt fuel k rest f) n.kids)

def nodeAt (fuel : Nat) (n : Node) (path : List Bytes) : Option Node :=
  match fuel, path with
  | _, [] => some n
  | 0, _ => none
  | fuel+1, nm :: rest =>
    match findKid nm n.kids with
    | none => none
    | some k => nodeAt fuel k rest

/-- all nodes strictly below `n`, depth-first in child order, with their paths (relative to `n`) -/
def descendants (fuel : Nat) (n : Node) (pre : List Bytes) : List (List Bytes × Node) :=
  match fuel with
  | 0 => []
  | fuel+1 => n.kids.flatMap (fun k => (pre ++ [k.name], k) :: descendants fuel k (pre ++ [k.name]))

/-! ## content filters -/

structure Filt where
  op : Nat      -- 0 ==, 1 <, 2 >, 3 <=, 4 >=, 5 !=   (`NumericQueryFilter` operators)
  val : Nat
  deriving DecidableEq, Repr

/-- `Int32QueryFilter("v", op, val).Matches(msg)`: a missing field never matches -/
def Filt.eval (f : Filt) : Option Nat → Bool
  | none => false
  | some v =>
    match f.op with
    | 0 => v == f.val
    | 1 => v < f.val
    | 2 => v > f.val
    | 3 => v ≤ f.val
    | 4 => v ≥ f.val
    | _ => v != f.val

/-! ## path matcher -/

structure Entry where
  path : Bytes               -- the key of the sub-table (the adjusted path string)
  clauses : List Bytes       -- `StringMatcherQueue`: one pattern per clause ("*" = NULL matcher)
  filter : Option Filt
  deriving Repr

/-- `Hashtable<uint32, Hashtable<String, PathMatcherEntry>>`: groups keyed by clause count, in
    insertion order of the keys; entries in insertion order -/
abbrev PM := List (Nat × List Entry)

/-- `AdjustStringPrefix(path, optPrepend)` -/
def adjustPrefix (p : Bytes) (prepend : Option Bytes) : Bytes :=
  match p with
  | [] => []
  | c :: r => if c = cSlash then r else
    match prepend with
    | some pre => pre ++ (cSlash :: p)
    | none => p

def defaultPrefix : Bytes := [cStar, cSlash, cStar]     -- DEFAULT_PATH_PREFIX "*/*"

def putEntry (e : Entry) : List Entry → List Entry
  | [] => [e]
  | x :: r => if x.path = e.path then e :: r else x :: putEntry e r

def pmPutGroup (d : Nat) (e : Entry) : PM → PM
  | [] => [(d, [e])]
  | (k, es) :: r => if k = d then (k, putEntry e es) :: r else (k, es) :: pmPutGroup d e r

/-- `PutPathString(path, filter)`; an empty path is rejected -/
def pmPut (pm : PM) (path : Bytes) (f : Option Filt) : PM :=
  if path.isEmpty then pm else
  let cl := splitSlash path
  pmPutGroup cl.length { path := path, clauses := cl, filter := f } pm

/-- `PutPathFromString(str, filter, prepend)` -/
def pmPutFrom (pm : PM) (str : Bytes) (f : Option Filt) (prepend : Option Bytes) : PM :=
  pmPut pm (adjustPrefix str prepend) f

/-- `GetPathDepth` (non-empty clauses only; the generator produces no empty clause) -/
def pathDepth (p : Bytes) : Nat :=
  ((splitSlash (match p with | c :: r => if c = cSlash then r else p | [] => [])).filter (fun c => !c.isEmpty)).length

def pmGroup (pm : PM) (d : Nat) : List Entry :=
  match pm with
  | [] => []
  | (k, es) :: r => if k = d then es else pmGroup r d

def pmFind (pm : PM) (path : Bytes) : Option Entry :=
  (pmGroup pm (pathDepth path)).find? (fun e => e.path = path)

/-- `RemovePathString`: the group disappears when it becomes empty -/
def pmRemove (pm : PM) (path : Bytes) : PM :=
  let d := pathDepth path
  (pm.map (fun (k, es) => if k = d then (k, es.filter (fun e => e.path ≠ path)) else (k, es))).filter
    (fun (_, es) => !es.isEmpty)

def pmNumFilters (pm : PM) : Nat :=
  (pm.map (fun (_, es) => (es.filter (fun e => e.filter.isSome)).length)).sum

def pmNumEntries (pm : PM) : Nat := (pm.map (fun (_, es) => es.length)).sum

/-- one clause against one name: "*" is the NULL matcher -/
def clauseMatch (pat nm : Bytes) : Bool := pat = [cStar] || globMatch pat nm

def clausesMatch : List Bytes → List Bytes → Bool
  | [], [] => true
  | p :: ps, n :: ns => clauseMatch p n && clausesMatch ps ns
  | _, _ => false

/-- `entry.FilterMatches(optData, node)`: no filter, no data handed in, or the filter accepts -/
def Entry.filterOk (e : Entry) (useData : Bool) (d : Option Nat) : Bool :=
  match e.filter with
  | none => true
  | some f => !useData || f.eval d

/-- `PathMatcher::MatchesPath(path, optMessage, optNode)` on a list of names (no empty clause) -/
def pmMatchesPath (pm : PM) (names : List Bytes) (useData : Bool) (d : Option Nat) : Bool :=
  (pmGroup pm names.length).any (fun e => clausesMatch e.clauses names && e.filterOk useData d)

/-- `NodePathMatcher::GetMatchCount(node, NULL, 0)`: entries whose clauses match (filters see no data) -/
def pmMatchCount (pm : PM) (names : List Bytes) : Nat :=
  ((pmGroup pm names.length).filter (fun e => clausesMatch e.clauses names)).length

/-! ## canonical text (must equal what harness/srv.cpp prints) -/

def payloadDump : Option Nat → String
  | none => "{0}"
  | some v => "{0 x76:1280265799:1[" ++ tokOfBytes (leN 4 v) ++ "]}"

def pathString (names : List Bytes) : Bytes := names.flatMap (fun n => cSlash :: n)

end Muscle.Reflector
