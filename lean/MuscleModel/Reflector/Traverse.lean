import MuscleModel.Reflector.Tree

/-!
# `NodePathMatcher::DoTraversal` — the wildcard traversal, literally

Mirrors `DoTraversalAux`, `DoDirectChildLookup`, `CheckChildForTraversal`, `MatchesNode`
(reflector/StorageReflectSession.cpp): entries grouped by clause count; the literal-lookup fast path
when every clause at the level is unique or a comma list of unique values; the child-iteration path
otherwise; the `alreadyDid` set; the known-matching-entry short cut; the multi-pattern re-check
(`MatchesNode`) unless there is exactly one match-string without filter; and the callback's returned
depth, which ends the traversal of every node deeper than the returned value + 1.

The callback is a pure function of the visited node (`cb names depth node = (record?, returned depth)`):
the traversal returns the list of recorded visits in order; the handlers apply their effects per visit.
(Exact as long as a callback's effect cannot change what the rest of the same traversal matches.)
-/

namespace Muscle.Reflector
open Muscle

structure TCtx where
  pm : PM
  useFilters : Bool
  rootDepth : Nat
  /-- names from the traversal root down to the node (the node's own name last), absolute depth, node -/
  cb : List Bytes → Nat → Node → Bool × Int

abbrev Visit := List Bytes   -- names relative to the traversal root

/-- the entries taking part at relative depth `rel` (groups with key > rel), in iteration order -/
def activeEntries (pm : PM) (rel : Nat) : List Entry :=
  (pm.filter (fun (k, _) => rel < k)).flatMap (fun (_, es) => es)

/-- "none of our parsers are using wildcarding at our current level" is false -/
def parsersHaveWildcards (pm : PM) (rel : Nat) : Bool :=
  (activeEntries pm rel).any (fun e =>
    match e.clauses[rel]? with
    | none => false
    | some c => c = [cStar] || (!isUnique c && !isUVList c))

/-- `MatchesNode(child, data, rootDepth)`: some entry of the child's own depth group matches its path -/
def matchesNode (pm : PM) (names : Visit) (useData : Bool) (d : Option Nat) : Bool :=
  pmMatchesPath pm names useData d

/-- exactly one match-string in the whole matcher -/
def onlyOneEntry (pm : PM) : Bool :=
  match pm with
  | [(_, [_])] => true
  | _ => false

/-- state of the per-child loop of `CheckChildForTraversal` -/
structure CState where
  matched : Bool := false
  recursed : Bool := false
  visits : List Visit := []
  abort : Option Int := none      -- some d = `depth = d; return true`
  done : Bool := false            -- `break` out of the entry loops

/-- the recursive call `DoTraversalAux(data, *nextChild)` as seen from inside one level -/
abbrev Rec := Node → Visit → Nat → List Visit × Int

/-- the entry loops of `CheckChildForTraversal` -/
def checkEntries (ctx : TCtx) (rec : Rec) (child : Node) (cnames : Visit) (depth : Nat) (known : Option Nat) :
    List Entry → Nat → CState → CState
  | [], _, st => st
  | e :: es, idx, st =>
    if st.done || st.abort.isSome then st else
    let rel := depth - ctx.rootDepth
    let childDepth : Int := depth + 1
    let hit : Bool := (known = some idx) || (match e.clauses[rel]? with | some c => clauseMatch c child.name | none => false)
    let st' : CState :=
      if !hit then st
      else if depth + 1 = ctx.rootDepth + e.clauses.length then
        -- terminal clause of this entry: the callback, at most once per child
        if st.matched then st else
        if (onlyOneEntry ctx.pm && (!ctx.useFilters || e.filter.isNone)) || matchesNode ctx.pm cnames ctx.useFilters child.data then
          let (rc, nd) := ctx.cb cnames (depth + 1) child
          let vs := if rc then st.visits ++ [cnames] else st.visits
          if nd < childDepth - 1 then { st with visits := vs, abort := some nd }
          -- a callback that asks to continue above the child's level also rules out the descent below the child
          else { st with visits := vs, matched := true, recursed := st.recursed || decide (nd < childDepth),
                         done := st.recursed || decide (nd < childDepth) }
        else st
      else
        -- a non-terminal clause matched: descend, at most once per child
        if st.recursed then st else
        let (vs, nd) := rec child cnames (depth + 1)
        if nd < childDepth - 1 then { st with visits := st.visits ++ vs, abort := some nd }
        -- a callback below the child that asks to continue above the child's level also rules out the child's own callback
        else { st with visits := st.visits ++ vs, recursed := true, matched := st.matched || decide (nd < childDepth),
                       done := st.matched || decide (nd < childDepth) }
    checkEntries ctx rec child cnames depth known es (idx + 1) st'

/-- `CheckChildForTraversal(data, child, optKnownMatchingEntryIdx, depth)`: (visits, abort-to-depth) -/
def checkChild (ctx : TCtx) (rec : Rec) (child : Node) (names : Visit) (depth : Nat) (known : Option Nat) :
    List Visit × Option Int :=
  let st := checkEntries ctx rec child (names ++ [child.name]) depth known
              (activeEntries ctx.pm (depth - ctx.rootDepth)) 0 {}
  (st.visits, st.abort)

/-- the child-iteration loop of the general case -/
def travKids (ctx : TCtx) (rec : Rec) (names : Visit) (depth : Nat) : List Node → List Visit → List Visit × Int
  | [], acc => (acc, depth)
  | k :: r, acc =>
    match checkChild ctx rec k names depth none with
    | (vs, some d) => (acc ++ vs, d)
    | (vs, none) => travKids ctx rec names depth r (acc ++ vs)

/-- `DoDirectChildLookup` for each element of one entry's clause; `did` = the `alreadyDid` set -/
def lookupElems (ctx : TCtx) (rec : Rec) (node : Node) (names : Visit) (depth : Nat) (idx : Nat) :
    List Bytes → List Bytes → List Visit → List Visit × List Bytes × Option Int
  | [], did, acc => (acc, did, none)
  | el :: els, did, acc =>
    let nm := unescape el
    match findKid nm node.kids with
    | none => lookupElems ctx rec node names depth idx els did acc
    | some k =>
      if did.contains nm then lookupElems ctx rec node names depth idx els did acc else
      match checkChild ctx rec k names depth (some idx) with
      | (vs, some d) => (acc ++ vs, did, some d)
      | (vs, none) => lookupElems ctx rec node names depth idx els (nm :: did) (acc ++ vs)

/-- the entry loop of the optimized case -/
def travLookups (ctx : TCtx) (rec : Rec) (node : Node) (names : Visit) (depth : Nat) :
    List Entry → Nat → List Bytes → List Visit → List Visit × Int
  | [], _, _, acc => (acc, depth)
  | e :: es, idx, did, acc =>
    let key := (e.clauses[depth - ctx.rootDepth]?).getD []
    let elems : List Bytes := if isUVList key then (splitCommas key).filter (fun x => !x.isEmpty) else [key]
    match lookupElems ctx rec node names depth idx elems did acc with
    | (acc', _, some d) => (acc', d)
    | (acc', did', none) => travLookups ctx rec node names depth es (idx + 1) did' acc'

/-- one level of `DoTraversalAux` -/
def travLevel (ctx : TCtx) (rec : Rec) (node : Node) (names : Visit) (depth : Nat) : List Visit × Int :=
  let rel := depth - ctx.rootDepth
  if parsersHaveWildcards ctx.pm rel then travKids ctx rec names depth node.kids []
  else travLookups ctx rec node names depth (activeEntries ctx.pm rel) 0 [] []

/-- `DoTraversalAux(data, node)`: (visits, returned depth); `fuel` bounds the depth of descent -/
def travAux (ctx : TCtx) : Nat → Node → Visit → Nat → List Visit × Int
  | 0, _, _, depth => ([], depth)
  | fuel+1, node, names, depth => travLevel ctx (travAux ctx fuel) node names depth

/-- `DoTraversal(cb, This, node, useFilters, userData)`: the recorded visits, in order -/
def doTraversal (pm : PM) (useFilters : Bool) (rootDepth : Nat) (cb : Visit → Nat → Node → Bool × Int)
    (node : Node) (fuel : Nat) : List Visit :=
  (travAux { pm := pm, useFilters := useFilters, rootDepth := rootDepth, cb := cb } fuel node [] rootDepth).1

/-- the callback that records every match and continues as usual (returns the node's own depth) -/
def cbContinue : Visit → Nat → Node → Bool × Int := fun _ d _ => (true, d)

/-- specification: test every node's path one by one -/
def bruteForce (pm : PM) (useFilters : Bool) (node : Node) (fuel : Nat) : List Visit :=
  ((descendants fuel node []).filter (fun (names, n) => pmMatchesPath pm names useFilters n.data)).map (·.1)

end Muscle.Reflector
