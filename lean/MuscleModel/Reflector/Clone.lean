import MuscleModel.Reflector.Handlers
import MuscleModel.Generated.Constants

/-!
# Subtree clone / save / restore (`StorageReflectSession::CloneDataNodeSubtree`, `SaveNodeTreeToMessage`,
# `RestoreNodeTreeFromMessage`, `DataNode::InsertIndexEntryAt`)

These are server-side entry points (the stock client protocol reaches only the save half, through
PR_COMMAND_GETDATATREES; PR_COMMAND_SETDATATREES is bounced as unimplemented).  The harness calls them
directly on a session (`clone` / `save` / `restore` ops of engine `srv`).

Everything is a composition of the existing model functions (`setDataClauses`, `removeIndexEntry`,
`notifyIndex`, `setNode`): nothing in `Tree/Server/Handlers` changes.

Faithfulness notes.
* The C++ clone walks the LIVE source node while it writes the destination, and the destination may lie
  inside the source (or the source inside the destination).  The model therefore addresses the source by its
  path and re-reads the current state at every step: child number `i` of the source *now* (the `Hashtable`
  iterator sees children appended during the walk; nothing is removed or re-put during a clone), entry number
  `i` of the source's index *now*.
* A clone into its own subtree descends until `DataNode::SetParent` refuses a child below depth
  MUSCLE_MAX_NODE_DEPTH; that error ends the whole call (`MRETURN_ON_ERROR`), leaving what was written.
  `setDataAt` reproduces exactly that failure (the only one these calls can meet with unlimited node counts).
* Destination clauses are plain names (the engine refuses others): `GetDataNode(destPath)` is a wildcard
  lookup (`FindFirstMatchingNode`), which for plain names is the child lookup `getNode`.
* The live child loop has its own (generous) fuel; running out of it is reported as `CStat.fuel`, which the
  engine prints as `?` (no prediction) instead of guessing.
-/

namespace Muscle.Reflector
open Muscle

/-- outcome of a clone / restore: `status_t` OK, an error, or "the model ran out of fuel" (no prediction) -/
inductive CStat where
  | ok | err | fuel
  deriving DecidableEq, Repr, Inhabited

def CStat.text : CStat → String
  | .ok => "ok" | .err => "err" | .fuel => "?"

/-- MUSCLE_MAX_NODE_DEPTH (regenerated from the headers) -/
def maxNodeDepth : Nat := Muscle.Gen.maxNodeDepth

/-- `SetDataNode(path, data, flags)` of session `by_` for a path given as its (non-empty) clauses, together with
    its status.  The one failure: a clause deeper than MUSCLE_MAX_NODE_DEPTH (`DataNode::SetParent` →
    B_RESOURCE_LIMIT); the clauses above that depth have been created by then (as inner clauses: empty payload,
    changed-notification), which is what `setDataClauses … none false` does for a path none of whose missing
    clauses is the last one. -/
def setDataAt (sv : Server) (by_ : Nat) (dest : List Bytes) (d : Option Nat) (ati : Bool) : Server × Bool :=
  match sv.sess? by_ with
  | none => (sv, false)                          -- no session directory: B_BAD_OBJECT
  | some s =>
    if 2 + dest.length ≤ maxNodeDepth then (setDataClauses by_ d ati sv (sessNames s) dest, true)
    else
      let pre := dest.take (maxNodeDepth - 2)
      if (getNode sv (sessNames s ++ pre)).isSome then (sv, false)
      else (setDataClauses by_ none false sv (sessNames s) pre, false)

/-- `DataNode::InsertIndexEntryAt(i, notify, key)`: fails (nothing happens) when `key` is no child; the entry goes to
    position `i`, or to the end when `i` is beyond it (`Queue::InsertItemAt`), and the instruction carries `i` -/
def insertIndexEntryAt (sv : Server) (parent : List Bytes) (i : Nat) (key : Bytes) : Server :=
  match getNode sv parent with
  | none => sv
  | some p =>
    if (findKid key p.kids).isNone then sv else
    let sv := setNode sv parent (fun q => q.setIndex (q.index.take i ++ [key] ++ q.index.drop i))
    match getNode sv parent with
    | some p' => notifyIndex sv parent p' (instrOf 'i' i key)
    | none => sv

/-- the index loop of `CloneDataNodeSubtree`: `r` entries to go, `i` = read position in the source's (live) index,
    `w` = `writeIdxCounter`.  `dedup = true` is the code as repaired by /repo 003a760 (an existing entry of the child
    is removed, with its notification, before the entry is inserted); `dedup = false` is the code before it. -/
def cloneIndexLoop (dedup : Bool) (src dest : List Bytes) : Nat → Nat → Nat → Server → Server
  | 0, _, _, sv => sv
  | r+1, i, w, sv =>
    match (getNode sv src).bind (fun n => n.index[i]?), getNode sv dest with
    | some nm, some clone =>
      if (findKid nm clone.kids).isSome then
        cloneIndexLoop dedup src dest r (i+1) (w+1)
          (insertIndexEntryAt (if dedup then removeIndexEntry sv dest nm true else sv) dest w nm)
      else cloneIndexLoop dedup src dest r (i+1) w sv
    | _, _ => sv

/-- "if he has an index, make sure the clone ends up with an equivalent index" (`dest` = the clone's full name path).
    The calling session's `_indexingPresent` is set (/repo 16f449c: its own client has to be sent the clone's index).
    Abstraction: the C++ tests the index POINTER, which is also non-NULL for an index that was emptied again; the model
    keeps the index as a list and takes "non-empty" (for an emptied index the loop does nothing, and the flag — the only
    difference — shows only if that session later asks for its own nodes). -/
def cloneIndex (dedup : Bool) (by_ : Nat) (sv : Server) (src dest : List Bytes) : Server × CStat :=
  match getNode sv src with
  | none => (sv, .err)
  | some node =>
    if node.index.isEmpty then (sv, .ok) else
    match getNode sv dest with
    | none => (sv, .err)                          -- B_DATA_NOT_FOUND
    | some _ =>
      (cloneIndexLoop dedup src dest node.index.length 0 0 (sv.updSess by_ (fun s => { s with indexingPresent := true })), .ok)

/-- the child loop of `CloneDataNodeSubtree` over the LIVE child table of the source: child number `i` as it is now;
    `k` = loop fuel -/
def cloneKidsLoop (recur : Server → Bytes → Server × CStat) (src : List Bytes) : Nat → Nat → Server → Server × CStat
  | 0, _, sv => (sv, .fuel)
  | k+1, i, sv =>
    match (getNode sv src).bind (fun n => n.kids[i]?) with
    | none => (sv, .ok)
    | some c =>
      let r := recur sv c.name
      if r.2 = .ok then cloneKidsLoop recur src k (i+1) r.1 else r

def cloneLoopFuel : Nat := 4096

/-- `CloneDataNodeSubtree(node, destPath, flags)` of session `by_` (`base` = its session node's names; `src` = names of
    the source node; `dest` = clauses of `destPath`; `ati` = SETDATANODE_FLAG_ADDTOINDEX, cleared for the children) -/
def cloneSubtree (dedup : Bool) (by_ : Nat) (base : List Bytes) :
    Nat → Server → List Bytes → List Bytes → Bool → Server × CStat
  | 0, sv, _, _, _ => (sv, .fuel)
  | fuel+1, sv, src, dest, ati =>
    match getNode sv src with
    | none => (sv, .err)
    | some node =>
      let r := setDataAt sv by_ dest node.data ati
      if !r.2 then (r.1, .err) else
      let r := cloneKidsLoop (fun sv nm => cloneSubtree dedup by_ base fuel sv (src ++ [nm]) (dest ++ [nm]) false)
                 src cloneLoopFuel 0 r.1
      if r.2 = .ok then cloneIndex dedup by_ r.1 src (base ++ dest) else r

/-- the call a session makes (`dedup := false`: the code before /repo 003a760) -/
def cloneDataNodeSubtree (sv : Server) (by_ : Nat) (src dest : List Bytes) (ati : Bool) (dedup : Bool := true) :
    Server × CStat :=
  match sv.sess? by_ with
  | none => (sv, .err)
  | some s => cloneSubtree dedup by_ (sessNames s) fuelDepth sv src dest ati

/-! ## save / restore -/

/-- `SaveNodeTreeToMessage(msg, node, "", true, maxDepth)`: the saved Message as a tree of the same shape as a node —
    payload, the index names (field `index`, only when the node has children, depth allows and the index is non-empty),
    the children in iteration order (field `kids`); counters and subscriber tables are not saved -/
def saveTree : Nat → Nat → Node → Node
  | 0, _, n => .mk n.name n.data [] [] 0 []
  | fuel+1, maxDepth, n =>
    if n.kids.isEmpty || maxDepth = 0 then .mk n.name n.data [] [] 0 []
    else .mk n.name n.data (n.kids.map (saveTree fuel (maxDepth - 1))) n.index 0 []

def restoreKids (recur : Server → Node → Bool → Server × CStat) : List (Node × Bool) → Server → Server × CStat
  | [], sv => (sv, .ok)
  | (k, ati) :: r, sv =>
    let x := recur sv k ati
    if x.2 = .ok then restoreKids recur r x.1 else x

/-- `RestoreNodeTreeFromMessage(msg, path, true, flags, maxDepth)`: the node itself (`SetDataNode`), then the saved
    children that the saved index names, in index order and with ADDTOINDEX, then the others in their saved order
    without it -/
def restoreTree (by_ : Nat) : Nat → Server → Node → List Bytes → Bool → Nat → Server × CStat
  | 0, sv, _, _, _, _ => (sv, .fuel)
  | fuel+1, sv, t, dest, ati, maxDepth =>
    let r := setDataAt sv by_ dest t.data ati
    if !r.2 then (r.1, .err) else
    if maxDepth = 0 || t.kids.isEmpty then (r.1, .ok) else
    let indexed := t.index.filterMap (fun nm => findKid nm t.kids)
    let plain := t.kids.filter (fun k => !(t.index.contains k.name))
    restoreKids (fun sv k a => restoreTree by_ fuel sv k (dest ++ [k.name]) a (maxDepth - 1))
      (indexed.map (fun k => (k, true)) ++ plain.map (fun k => (k, false))) r.1

def restoreNodeTree (sv : Server) (by_ : Nat) (t : Node) (dest : List Bytes) (ati : Bool) (maxDepth : Nat) :
    Server × CStat :=
  restoreTree by_ (fuelDepth + 2) sv t dest ati maxDepth

/-! ## canonical text of a saved tree (must equal `savedDump` in harness/srv.cpp) -/

def savedDump : Nat → Node → String
  | 0, _ => "{}"
  | fuel+1, t =>
    "{" ++ payloadDump t.data ++
      (if t.index.isEmpty then "" else " ix(" ++ String.intercalate "," (t.index.map hexS) ++ ")") ++
      (if t.kids.isEmpty then "" else
        " kids(" ++ String.intercalate "," (t.kids.map (fun k => hexS k.name ++ "=" ++ savedDump fuel k)) ++ ")") ++ "}"

/-! ## path tokens of the ops -/

def isAlnumB (b : UInt8) : Bool :=
  (decide (48 ≤ b.toNat) && decide (b.toNat ≤ 57)) || (decide (65 ≤ b.toNat) && decide (b.toNat ≤ 90)) ||
    (decide (97 ≤ b.toNat) && decide (b.toNat ≤ 122))

/-- an absolute node path "/a/b/c" with no empty clause → its names -/
def absNames? (p : Bytes) : Option (List Bytes) :=
  match p with
  | c :: r => if c = cSlash then (let ns := splitSlash r; if ns.any (·.isEmpty) then none else some ns) else none
  | [] => none

/-- a relative destination path whose clauses are plain alphanumeric names → its clauses -/
def relClauses? (p : Bytes) : Option (List Bytes) :=
  let cs := splitSlash p
  if cs.all (fun c => !c.isEmpty && c.all isAlnumB) then some cs else none

end Muscle.Reflector
