import MuscleModel.Reflector.IndexProofsSeq

/-!
# C13: the invariant over whole trees (`TreeInv sv` = `IdxInv` at every node of the tree)
-/

set_option linter.unusedSimpArgs false
set_option linter.unusedVariables false

namespace Muscle.Reflector
open Muscle

/-- at every node: the index lists existing children of that node, each at most once, and sibling names are
    pairwise different -/
def TreeInv (sv : Server) : Prop := AllNodes NodeInv sv.root

theorem treeInv_of_root {sv sv' : Server} (h : sv'.root = sv.root) (hi : TreeInv sv) : TreeInv sv' := by
  unfold TreeInv at *; rw [h]; exact hi

theorem treeInv_getNode {sv : Server} {path : List Bytes} {t : Node} (hi : TreeInv sv)
    (h : Reflector.getNode sv path = some t) : AllNodes NodeInv t :=
  AllNodes.nodeAt hi h

theorem allNodes_same_kids {t t' : Node} (h : AllNodes NodeInv t) (hk : t'.kids = t.kids) (hi : IdxInv t') :
    AllNodes NodeInv t' :=
  AllNodes.mk _ ⟨hi, by unfold KidsDistinct; rw [hk]; exact h.here.2⟩ (by rw [hk]; exact h.kid)

theorem treeInv_setNode {f : Node → Node} (hf : ∀ n, (f n).name = n.name) {sv : Server} {path : List Bytes}
    (hi : TreeInv sv)
    (ht : ∀ t, Reflector.getNode sv path = some t → AllNodes NodeInv t → AllNodes NodeInv (f t)) :
    TreeInv (setNode sv path f) :=
  AllNodes.updateAt hf (fun n c h => NodeInv.putKid c h) fuelDepth sv.root path hi ht

/-! ## primitives -/

theorem treeInv_setField {sv : Server} {path : List Bytes} (f : Node → Node) (hf : ∀ n, (f n).name = n.name)
    (hk : ∀ n, (f n).kids = n.kids) (hx : ∀ n, (f n).index = n.index) (hi : TreeInv sv) :
    TreeInv (setNode sv path f) := by
  apply treeInv_setNode hf hi
  intro t _ ht
  exact allNodes_same_kids ht (hk t) ⟨by rw [hx]; exact ht.here.1.1, by intro c hc; rw [hx] at hc; rw [hk]; exact ht.here.1.2 c hc⟩

theorem treeInv_removeIndexEntry {sv : Server} (parent : List Bytes) (key : Bytes) (notify : Bool)
    (hi : TreeInv sv) : TreeInv (removeIndexEntry sv parent key notify) := by
  cases h : Reflector.getNode sv parent with
  | none => simp [Reflector.removeIndexEntry, h]; exact hi
  | some p =>
    cases hl : lastIndexOf p.index key with
    | none => rw [removeIndexEntry_none notify h hl]; exact hi
    | some i =>
      have : TreeInv (Reflector.setNode sv parent (fun q => q.setIndex (q.index.eraseIdx i))) := by
        apply treeInv_setNode (setIndex_name_pres _) hi
        intro t _ ht
        refine allNodes_same_kids ht (by simp) ⟨by simpa using nodup_eraseIdx i ht.here.1.1, ?_⟩
        intro c hc
        simp only [Node.setIndex_index] at hc
        simpa using ht.here.1.2 c (mem_of_mem_eraseIdx hc)
      cases notify with
      | true => rw [removeIndexEntry_emits h hl]; exact treeInv_of_root (by simp) this
      | false => rw [removeIndexEntry_quiet h hl]; exact this

theorem allNodes_setSubs {c : Node} (s : List (Nat × Nat)) (h : AllNodes NodeInv c) : AllNodes NodeInv (c.setSubs s) :=
  allNodes_same_kids h (by simp) ⟨by simpa using h.here.1.1, by simpa using h.here.1.2⟩

theorem treeInv_putChild {sv : Server} (by_ : Nat) (parent : List Bytes) (child : Node) (notify : Bool)
    (hi : TreeInv sv) (hc : AllNodes NodeInv child) : TreeInv (putChild sv by_ parent child notify) := by
  apply treeInv_of_root (putChild_root sv by_ parent child notify)
  apply treeInv_setNode (setKids_name_pres _) hi
  intro t _ ht
  refine AllNodes.mk _ (NodeInv.putKid _ ht.here) ?_
  intro k hk
  simp only [Node.setKids_kids] at hk
  rcases mem_putKid hk with hk | hk
  · subst hk; exact allNodes_setSubs _ hc
  · exact ht.kid k hk

theorem treeInv_insertOrderedChild {sv : Server} (by_ : Nat) (parent : List Bytes) (d : Option Nat)
    (before name : Bytes) (nc : Bool) (hi : TreeInv sv)
    (hok : ∀ p, Reflector.getNode sv parent = some p →
      before = removeFromIndexName ∨ findKid (ordPair p name).1 p.kids = none ∨ (ordPair p name).1 ∉ p.index) :
    TreeInv (insertOrderedChild sv by_ parent d before name nc) := by
  cases h : Reflector.getNode sv parent with
  | none => simp [Reflector.insertOrderedChild, h]; exact hi
  | some p =>
    have hA : TreeInv (Reflector.setNode sv parent (fun q => q.setCtr (ordPair p name).2)) :=
      treeInv_setField _ (setCtr_name_pres _) (by simp) (by simp) hi
    have hB : TreeInv (insertOrderedPut sv by_ parent d (ordPair p name).1 (ordPair p name).2 nc) :=
      treeInv_putChild by_ parent (Node.fresh (ordPair p name).1 d) nc hA (AllNodes.fresh _ _)
    by_cases hb : before = removeFromIndexName
    · rw [insertOrderedChild_unindexed by_ d name nc h hb]; exact hB
    · rw [insertOrderedChild_emits by_ d name nc h hb]
      apply treeInv_of_root (notifyIndex_root _ _ _ _)
      unfold insertOrderedPre
      apply treeInv_setNode (setIndex_name_pres _) hB
      intro t htg ht
      rw [getNode_insertOrderedPut by_ d _ _ nc h] at htg
      cases htg
      have hp : IdxInv p := (treeInv_getNode hi h).here.1
      refine allNodes_same_kids ht (by simp) ?_
      have hok' : findKid (ordPair p name).1 p.kids = none ∨ (ordPair p name).1 ∉ p.index := by
        rcases hok p h with h1 | h1
        · exact absurd h1 hb
        · exact h1
      obtain ⟨c, hc1, _, _, hc2⟩ := insertOrderedPutNode_kids sv parent p d (ordPair p name).1 (ordPair p name).2
      apply idxInv_insert hp hok' (i := insertPos p.index before) (nm := (ordPair p name).1)
      · simp [insertAt]
      · exact ⟨c, hc1, by simpa using hc2⟩

theorem treeInv_reorderChild {sv : Server} (parent : List Bytes) (child before : Bytes) (hi : TreeInv sv)
    (hok : ∀ p, Reflector.getNode sv parent = some p →
      before = removeFromIndexName ∨ (findKid child p.kids).isSome) :
    TreeInv (reorderChild sv parent child before) := by
  cases h : Reflector.getNode sv parent with
  | none => simp [Reflector.reorderChild, h]; exact hi
  | some p =>
    by_cases hb : before = child
    · rw [reorderChild_self h hb]; exact hi
    · by_cases hg : (p.index.isEmpty && !(p.index.contains child) && before = removeFromIndexName) = true
      · rw [reorderChild_nothing h hg]; exact hi
      · by_cases hr : before = removeFromIndexName
        · rw [reorderChild_remove h hb hg hr]; exact treeInv_removeIndexEntry _ _ _ hi
        · rw [reorderChild_emits h hb hg hr]
          apply treeInv_of_root (notifyIndex_root _ _ _ _)
          apply treeInv_setNode (setIndex_name_pres _) (treeInv_removeIndexEntry parent child true hi)
          intro t htg ht
          rw [getNode_removeIndexEntry child true h] at htg
          cases htg
          have hp : IdxInv p := (treeInv_getNode hi h).here.1
          refine allNodes_same_kids ht (by simp) ?_
          have := idxInv_reorder (child := child) (before := before) hp (hok p h)
          unfold reorderIndex at this
          rw [if_neg hb, if_neg hg, if_neg hr] at this
          simpa [insertAt] using this

theorem treeInv_removeOne {sv : Server} (by_ : Nat) (notify : Bool) (names : List Bytes) (hi : TreeInv sv) :
    TreeInv (removeOne sv by_ notify names) := by
  cases hc : Reflector.getNode sv names with
  | none => rw [removeOne_absent by_ notify hc]; exact hi
  | some c =>
    by_cases hn : names = []
    · subst hn; simp [Reflector.removeOne]; exact hi
    · have hnames : names = names.dropLast ++ [names.getLast hn] := (List.dropLast_concat_getLast hn).symm
      generalize names.dropLast = parent at hnames
      generalize names.getLast hn = key at hnames
      subst hnames
      obtain ⟨p, hp, _⟩ := getNode_snoc hc
      rw [removeOne_eq by_ notify hc]
      have h1 := treeInv_removeIndexEntry parent key notify hi
      have hg1 := getNode_removeIndexEntry key notify hp
      unfold removeOneRest
      apply treeInv_setNode (setKids_name_pres _)
      · exact treeInv_of_root (removeOneMid_root _ _ _ _ _) h1
      · intro t htg ht
        have := getNode_congr (removeOneMid_root (Reflector.removeIndexEntry sv parent key notify) by_ notify parent key) parent
        rw [this, hg1] at htg
        cases htg
        have hpi : IdxInv p := (treeInv_getNode hi hp).here.1
        refine AllNodes.mk _ ?_ ?_
        · have := idxInv_removeKid key hpi
          have hkd := KidsDistinct.removeKid key ht.here.2
          exact ⟨by simpa using this, by simpa using hkd⟩
        · intro k hk
          simp only [Node.setKids_kids, Node.setIndex_kids] at hk
          exact ht.kid k (by simpa using mem_removeKid hk)

theorem treeInv_foldl_removeOne (by_ : Nat) (notify : Bool) (qs : List (List Bytes)) {sv : Server} (hi : TreeInv sv) :
    TreeInv (qs.foldl (fun sv nm => removeOne sv by_ notify nm) sv) := by
  induction qs generalizing sv with
  | nil => exact hi
  | cons q r ih => simp only [List.foldl_cons]; exact ih (treeInv_removeOne by_ notify q hi)

theorem treeInv_removeChild {sv : Server} (by_ : Nat) (notify : Bool) (names : List Bytes) (hi : TreeInv sv) :
    TreeInv (removeChild sv by_ notify names) := by
  unfold Reflector.removeChild
  split
  · exact hi
  · exact treeInv_foldl_removeOne by_ notify _ hi

end Muscle.Reflector
