import MuscleModel.Reflector.RouteProofs
import MuscleModel.Reflector.MirrorProofs5

/-! `MReach` (the reachable states of C04, commands restricted by `CmdOK`) is contained in `RReach`; hence the
    route-cache invariant of C05 holds in every `MReach` state.  (Separate file: MirrorProofs1 imports Props/C05.) -/

namespace Muscle.Reflector
open Muscle Muscle.Eng.SrvEngine

theorem rt_of_mreach {sv : Server} (h : MReach sv) : RReach sv := by
  induction h with
  | init => exact .init
  | attach slot host _ ih => exact .attach slot host ih
  | detach sid _ ih => exact .detach sid ih
  | cmd sid c _ _ ih => exact .cmd sid c ih
  | push _ ih => exact .push ih
  | pump _ ih => exact .pump ih

theorem rt_mreach_rc {sv : Server} (h : MReach sv) : RC sv := rt_reach_rc (rt_of_mreach h)

end Muscle.Reflector
