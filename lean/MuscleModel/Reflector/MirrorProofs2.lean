import MuscleModel.Reflector.MirrorProofs1

/-!
# C04 lemmas, part 2: the algebra of a session's `NodePathMatcher`

`SubsWF pm`: group keys pairwise distinct, entry paths pairwise distinct inside a group, every entry's clause list is
the `/`-split of its path, sits in the group keyed by its clause count, has no empty clause and satisfies the
pattern-layer laws (`GoodPath`).  `pmPut` of a good path and `pmRemove` keep it.  `pmMatchCount` after `pmPut` /
`pmRemove`.
-/

set_option linter.unusedSimpArgs false
set_option linter.unusedVariables false

namespace Muscle.Reflector
open Muscle

/-- a normalised subscription path the theorems accept: no empty clause (finding F11: `a//b` is stored under
    clause count 3 but looked up under `GetPathDepth` = 2) and the two pattern-layer laws of C05 for every clause -/
def GoodPath (p : Bytes) : Prop :=
  (∀ c ∈ splitSlash p, c ≠ []) ∧ (∀ c ∈ splitSlash p, UniqueLaw c ∧ UVListLaw c)

structure SubsWF (pm : PM) : Prop where
  keys : (pm.map (·.1)).Nodup
  paths : ∀ g ∈ pm, (g.2.map Entry.path).Nodup
  ent : ∀ g ∈ pm, ∀ e ∈ g.2, e.clauses = splitSlash e.path ∧ e.clauses.length = g.1 ∧ GoodPath e.path

theorem SubsWF.nil : SubsWF [] := ⟨by simp, by simp, by simp⟩

theorem SubsWF.pmWF {pm : PM} (h : SubsWF pm) : pmWF pm = true := by
  simp only [Reflector.pmWF, List.all_eq_true, beq_iff_eq]
  intro g hg e he
  exact (h.ent g hg e he).2.1

theorem SubsWF.laws {pm : PM} (h : SubsWF pm) : ClauseLaws pm := by
  intro e he c hc
  simp only [allEntries, List.mem_flatMap] at he
  obtain ⟨g, hg, heg⟩ := he
  obtain ⟨h1, _, h3⟩ := h.ent g hg e heg
  rw [h1] at hc
  exact h3.2 c hc

/-! ## `splitSlash`, `pathDepth` -/

theorem mr_splitSlashAux_ne_nil (p cur : Bytes) : splitSlashAux p cur ≠ [] := by
  induction p generalizing cur with
  | nil => simp [splitSlashAux]
  | cons c r ih =>
    rw [splitSlashAux]
    split
    · simp
    · exact ih _

theorem mr_splitSlash_length_pos (p : Bytes) : 0 < (splitSlash p).length := by
  have := mr_splitSlashAux_ne_nil p []
  unfold splitSlash
  exact List.length_pos_iff.2 this

theorem mr_pathDepth_good {p : Bytes} (h : ∀ c ∈ splitSlash p, c ≠ []) : pathDepth p = (splitSlash p).length := by
  cases p with
  | nil => exact absurd rfl (h [] (by simp [splitSlash, splitSlashAux]))
  | cons c r =>
    by_cases hc : c = cSlash
    · exact absurd rfl (h [] (by simp [splitSlash, splitSlashAux, hc]))
    · simp only [pathDepth, hc, if_false]
      congr 1
      rw [List.filter_eq_self]
      intro x hx
      have := h x hx
      cases x with
      | nil => exact absurd rfl this
      | cons _ _ => rfl

/-! ## groups -/

theorem mr_pmGroup_putGroup (d : Nat) (e : Entry) (pm : PM) (k : Nat) :
    pmGroup (pmPutGroup d e pm) k = if k = d then putEntry e (pmGroup pm d) else pmGroup pm k := by
  induction pm with
  | nil =>
    simp only [pmPutGroup, pmGroup]
    by_cases hk : k = d
    · subst hk; simp [putEntry]
    · have : ¬ d = k := fun e => hk e.symm
      simp [hk, this]
  | cons g r ih =>
    obtain ⟨k0, es⟩ := g
    rw [pmPutGroup]
    by_cases h0 : k0 = d
    · subst h0
      simp only [if_true, pmGroup]
      by_cases hk : k = k0
      · subst hk; simp
      · have : ¬ k0 = k := fun e => hk e.symm
        simp [hk, this]
    · simp only [h0, if_false, pmGroup]
      by_cases hk : k0 = k
      · subst hk
        have : ¬ k0 = d := h0
        simp [this]
      · simp only [hk, if_false]
        exact ih

theorem mr_pmGroup_not_key {pm : PM} {k : Nat} (h : k ∉ pm.map (·.1)) : pmGroup pm k = [] := by
  induction pm with
  | nil => rfl
  | cons g r ih =>
    obtain ⟨k0, es⟩ := g
    simp only [List.map_cons, List.mem_cons, not_or] at h
    rw [pmGroup, if_neg (fun e => h.1 e.symm)]
    exact ih h.2

/-- what `pmRemove` leaves of one group -/
def remGroup (str : Bytes) (k0 : Nat) (es : List Entry) : List Entry :=
  if k0 = pathDepth str then es.filter (fun e => e.path ≠ str) else es

theorem mr_pmRemove_cons (k0 : Nat) (es : List Entry) (r : PM) (str : Bytes) :
    pmRemove ((k0, es) :: r) str =
      (if (remGroup str k0 es).isEmpty then pmRemove r str else (k0, remGroup str k0 es) :: pmRemove r str) := by
  simp only [pmRemove, List.map_cons, List.filter_cons, remGroup]
  by_cases h : k0 = pathDepth str
  · simp only [h, if_true]
    split <;> simp_all
  · simp only [h, if_false]
    split <;> simp_all

theorem mr_pmRemove_keys_sub (pm : PM) (str : Bytes) : ((pmRemove pm str).map (·.1)).Sublist (pm.map (·.1)) := by
  induction pm with
  | nil => simp [pmRemove]
  | cons g r ih =>
    obtain ⟨k0, es⟩ := g
    rw [mr_pmRemove_cons]
    by_cases hemp : (remGroup str k0 es).isEmpty
    · rw [if_pos hemp]; exact List.Sublist.cons _ ih
    · rw [if_neg hemp]
      simp only [List.map_cons]
      exact List.Sublist.cons_cons _ ih

theorem mr_pmGroup_of_mem {pm : PM} (hk : (pm.map (·.1)).Nodup) {g : Nat × List Entry} (hg : g ∈ pm) :
    pmGroup pm g.1 = g.2 := by
  induction pm with
  | nil => cases hg
  | cons g0 r ih =>
    obtain ⟨k0, es⟩ := g0
    simp only [List.map_cons, List.nodup_cons] at hk
    rcases List.mem_cons.1 hg with rfl | hg
    · simp [pmGroup]
    · have : k0 ≠ g.1 := by
        intro e0
        apply hk.1
        rw [e0]
        exact List.mem_map_of_mem hg
      rw [pmGroup, if_neg this]
      exact ih hk.2 hg

theorem mr_pmGroup_remove {pm : PM} (hk : (pm.map (·.1)).Nodup) (str : Bytes) (k : Nat) :
    pmGroup (pmRemove pm str) k =
      if k = pathDepth str then (pmGroup pm k).filter (fun e => e.path ≠ str) else pmGroup pm k := by
  induction pm with
  | nil => simp [pmRemove, pmGroup]
  | cons g r ih =>
    obtain ⟨k0, es⟩ := g
    simp only [List.map_cons, List.nodup_cons] at hk
    obtain ⟨hk0, hkr⟩ := hk
    have ih := ih hkr
    rw [mr_pmRemove_cons]
    by_cases hemp : (remGroup str k0 es).isEmpty
    · rw [if_pos hemp, ih]
      by_cases hkk : k0 = k
      · subst hkk
        rw [mr_pmGroup_not_key hk0]
        simp only [pmGroup, if_true]
        have he : remGroup str k0 es = [] := by simpa using hemp
        unfold remGroup at he
        by_cases hd : k0 = pathDepth str
        · rw [if_pos hd] at he; rw [if_pos hd, if_pos hd, he]; rfl
        · rw [if_neg hd] at he; simp [hd, he]
      · simp only [pmGroup, hkk, if_false]
    · rw [if_neg hemp]
      simp only [pmGroup]
      by_cases hkk : k0 = k
      · subst hkk
        simp only [if_true, remGroup]
      · simp only [hkk, if_false]
        exact ih

/-! ## entries of one group -/

theorem mr_putEntry_new {e : Entry} {es : List Entry} (h : ∀ x ∈ es, x.path ≠ e.path) : putEntry e es = es ++ [e] := by
  induction es with
  | nil => rfl
  | cons x r ih =>
    rw [putEntry, if_neg (h x List.mem_cons_self), ih (fun y hy => h y (List.mem_cons_of_mem _ hy))]
    rfl

theorem mr_putEntry_count {e : Entry} {es : List Entry} (P : Entry → Bool) (hex : ∃ x ∈ es, x.path = e.path)
    (hP : ∀ x ∈ es, x.path = e.path → P x = P e) :
    ((putEntry e es).filter P).length = (es.filter P).length := by
  induction es with
  | nil => obtain ⟨x, hx, _⟩ := hex; cases hx
  | cons x r ih =>
    rw [putEntry]
    by_cases hx : x.path = e.path
    · rw [if_pos hx]
      simp only [List.filter_cons, hP x List.mem_cons_self hx]
      split <;> simp
    · rw [if_neg hx]
      have hex' : ∃ y ∈ r, y.path = e.path := by
        obtain ⟨y, hy, hye⟩ := hex
        rcases List.mem_cons.1 hy with rfl | hy
        · exact absurd hye hx
        · exact ⟨y, hy, hye⟩
      have := ih hex' (fun y hy => hP y (List.mem_cons_of_mem _ hy))
      simp only [List.filter_cons]
      split <;> simp [this]

theorem mr_putEntry_paths (e : Entry) (es : List Entry) (hex : ∃ x ∈ es, x.path = e.path) :
    (putEntry e es).map Entry.path = es.map Entry.path := by
  induction es with
  | nil => obtain ⟨x, hx, _⟩ := hex; cases hx
  | cons x r ih =>
    rw [putEntry]
    by_cases hx : x.path = e.path
    · rw [if_pos hx]; simp [hx]
    · rw [if_neg hx]
      have hex' : ∃ y ∈ r, y.path = e.path := by
        obtain ⟨y, hy, hye⟩ := hex
        rcases List.mem_cons.1 hy with rfl | hy
        · exact absurd hye hx
        · exact ⟨y, hy, hye⟩
      simp [ih hex']

theorem mr_mem_putEntry {e x : Entry} {es : List Entry} (h : x ∈ putEntry e es) : x = e ∨ x ∈ es := by
  induction es with
  | nil => simp [putEntry] at h; exact Or.inl h
  | cons y r ih =>
    rw [putEntry] at h
    split at h
    · rcases List.mem_cons.1 h with h | h
      · exact Or.inl h
      · exact Or.inr (List.mem_cons_of_mem _ h)
    · rcases List.mem_cons.1 h with h | h
      · exact Or.inr (h ▸ List.mem_cons_self)
      · rcases ih h with h | h
        · exact Or.inl h
        · exact Or.inr (List.mem_cons_of_mem _ h)

theorem mr_filter_remove_count {es : List Entry} (P : Entry → Bool) {e : Entry} (hnd : (es.map Entry.path).Nodup)
    (he : e ∈ es) :
    (es.filter P).length = ((es.filter (fun x => x.path ≠ e.path)).filter P).length + (if P e then 1 else 0) := by
  simp only [ne_eq]
  induction es with
  | nil => cases he
  | cons x r ih =>
    simp only [List.map_cons, List.nodup_cons] at hnd
    obtain ⟨hx, hr⟩ := hnd
    rcases List.mem_cons.1 he with rfl | he
    · have hrest : r.filter (fun x => x.path ≠ e.path) = r := by
        rw [List.filter_eq_self]
        intro y hy
        have : y.path ≠ e.path := fun h => hx (h ▸ List.mem_map_of_mem hy)
        simpa using this
      simp only [List.filter_cons, ne_eq, not_true_eq_false, decide_false, Bool.false_eq_true, if_false]
      rw [hrest]
      split <;> simp
    · have hxe : x.path ≠ e.path := fun h => hx (h ▸ List.mem_map_of_mem he)
      have := ih hr he
      simp only [List.filter_cons, hxe, not_false_eq_true, decide_true, if_true]
      split
      · simp only [List.length_cons, this]; omega
      · exact this

/-! ## `pmFind` -/

theorem mr_found {pm : PM} (h : SubsWF pm) {fix : Bytes} {e : Entry} (hf : pmFind pm fix = some e) :
    e ∈ pmGroup pm (pathDepth fix) ∧ e.path = fix ∧ e.clauses = splitSlash fix ∧
      pathDepth fix = (splitSlash fix).length ∧ GoodPath fix := by
  unfold pmFind at hf
  have hm := List.mem_of_find?_eq_some hf
  have hp := List.find?_some hf
  simp only [decide_eq_true_eq] at hp
  obtain ⟨g, hg, hg1, heg⟩ := pmGroup_mem hm
  obtain ⟨h1, h2, h3⟩ := h.ent g hg e heg
  rw [hp] at h1 h3
  refine ⟨hm, hp, h1, ?_, h3⟩
  rw [← h1, h2, hg1]

theorem mr_notfound {pm : PM} {fix : Bytes} (hf : pmFind pm fix = none) :
    ∀ x ∈ pmGroup pm (pathDepth fix), x.path ≠ fix := by
  unfold pmFind at hf
  rw [List.find?_eq_none] at hf
  intro x hx
  simpa using hf x hx

/-! ## `pmMatchCount` after `pmPut` / `pmRemove` -/

theorem mr_clausesMatch_len {cs ns : List Bytes} (h : cs.length ≠ ns.length) : clausesMatch cs ns = false := by
  cases hc : clausesMatch cs ns with
  | false => rfl
  | true => exact absurd ((clausesMatch_iff cs ns).1 hc).1 h

theorem mr_pmPut_eq {pm : PM} {fix : Bytes} (hne : fix ≠ []) (f : Option Filt) :
    pmPut pm fix f = pmPutGroup (splitSlash fix).length { path := fix, clauses := splitSlash fix, filter := f } pm := by
  unfold pmPut
  cases fix with
  | nil => exact absurd rfl hne
  | cons c r => simp

theorem mr_good_ne_nil {fix : Bytes} (h : ∀ c ∈ splitSlash fix, c ≠ []) : fix ≠ [] := by
  intro e; subst e
  exact h [] (by simp [splitSlash, splitSlashAux]) rfl

theorem mr_matchCount_put_new {pm : PM} {fix : Bytes} (hg : ∀ c ∈ splitSlash fix, c ≠ [])
    (hf : pmFind pm fix = none) (f : Option Filt) (v : List Bytes) :
    pmMatchCount (pmPut pm fix f) v = pmMatchCount pm v + (if clausesMatch (splitSlash fix) v then 1 else 0) := by
  rw [mr_pmPut_eq (mr_good_ne_nil hg)]
  unfold pmMatchCount
  rw [mr_pmGroup_putGroup]
  have hd := mr_pathDepth_good hg
  by_cases hv : v.length = (splitSlash fix).length
  · rw [if_pos hv]
    have hnf := mr_notfound hf
    rw [hd] at hnf
    rw [mr_putEntry_new (e := { path := fix, clauses := splitSlash fix, filter := f }) hnf, hv, List.filter_append]
    simp only [List.length_append, List.filter_cons, List.filter_nil]
    split <;> simp
  · rw [if_neg hv, mr_clausesMatch_len (fun e => hv e.symm)]
    simp

theorem mr_matchCount_put_old {pm : PM} (h : SubsWF pm) {fix : Bytes} {e : Entry} (hf : pmFind pm fix = some e)
    (f : Option Filt) (v : List Bytes) :
    pmMatchCount (pmPut pm fix f) v = pmMatchCount pm v := by
  obtain ⟨hm, hp, hc, hd, hgood⟩ := mr_found h hf
  rw [mr_pmPut_eq (mr_good_ne_nil hgood.1)]
  unfold pmMatchCount
  rw [mr_pmGroup_putGroup]
  by_cases hv : v.length = (splitSlash fix).length
  · rw [if_pos hv, hv, ← hd]
    apply mr_putEntry_count
    · exact ⟨e, hm, hp⟩
    · intro x hx hxp
      obtain ⟨g, hg, _, hxg⟩ := pmGroup_mem hx
      have := (h.ent g hg x hxg).1
      simp only at hxp ⊢
      rw [this, hxp]
  · rw [if_neg hv]

theorem mr_matchCount_remove {pm : PM} (h : SubsWF pm) {str : Bytes} {e : Entry} (hf : pmFind pm str = some e)
    (v : List Bytes) :
    pmMatchCount pm v = pmMatchCount (pmRemove pm str) v + (if clausesMatch (splitSlash str) v then 1 else 0) := by
  obtain ⟨hm, hp, hc, hd, hgood⟩ := mr_found h hf
  unfold pmMatchCount
  rw [mr_pmGroup_remove h.keys]
  by_cases hv : v.length = pathDepth str
  · rw [if_pos hv, hv]
    obtain ⟨g, hg, hg1, heg⟩ := pmGroup_mem hm
    have hnd : ((pmGroup pm (pathDepth str)).map Entry.path).Nodup := by
      have : pmGroup pm (pathDepth str) = g.2 := by
        rw [← hg1]; exact mr_pmGroup_of_mem h.keys hg
      rw [this]; exact h.paths g hg
    have := mr_filter_remove_count (fun e => clausesMatch e.clauses v) hnd hm
    rw [hp, hc] at this
    exact this
  · rw [if_neg hv, mr_clausesMatch_len (by rw [← hd]; exact fun e => hv e.symm)]
    simp

/-! ## `SubsWF` is kept -/

theorem mr_mem_putGroup {d : Nat} {e : Entry} {pm : PM} {g : Nat × List Entry} (h : g ∈ pmPutGroup d e pm) :
    g ∈ pm ∨ (g.1 = d ∧ g.2 = putEntry e (pmGroup pm d)) := by
  induction pm with
  | nil => simp [pmPutGroup] at h; subst h; right; simp [pmGroup, putEntry]
  | cons g0 r ih =>
    obtain ⟨k0, es⟩ := g0
    rw [pmPutGroup] at h
    by_cases h0 : k0 = d
    · rw [if_pos h0] at h
      rcases List.mem_cons.1 h with h | h
      · right; subst h; simp [pmGroup, h0]
      · left; exact List.mem_cons_of_mem _ h
    · rw [if_neg h0] at h
      rcases List.mem_cons.1 h with h | h
      · left; subst h; exact List.mem_cons_self
      · rcases ih h with h | h
        · left; exact List.mem_cons_of_mem _ h
        · right; simp only [pmGroup, h0, if_false]; exact h

theorem mr_putGroup_keys (d : Nat) (e : Entry) (pm : PM) :
    (pmPutGroup d e pm).map (·.1) = if d ∈ pm.map (·.1) then pm.map (·.1) else pm.map (·.1) ++ [d] := by
  induction pm with
  | nil => simp [pmPutGroup]
  | cons g0 r ih =>
    obtain ⟨k0, es⟩ := g0
    rw [pmPutGroup]
    by_cases h0 : k0 = d
    · rw [if_pos h0]; simp [h0]
    · rw [if_neg h0]
      have hd : ¬ d = k0 := fun e => h0 e.symm
      simp only [List.map_cons, List.mem_cons, hd, false_or, ih]
      split <;> simp

theorem SubsWF.put {pm : PM} (h : SubsWF pm) {fix : Bytes} (hgood : GoodPath fix) (f : Option Filt) :
    SubsWF (pmPut pm fix f) := by
  rw [mr_pmPut_eq (mr_good_ne_nil hgood.1)]
  refine ⟨?_, ?_, ?_⟩
  · rw [mr_putGroup_keys]
    split
    · exact h.keys
    · rename_i hn
      rw [List.nodup_append]
      refine ⟨h.keys, by simp, ?_⟩
      intro a ha b hb
      simp at hb; subst hb
      intro e; subst e; exact hn ha
  · intro g hg
    rcases mr_mem_putGroup hg with hg | ⟨_, hg2⟩
    · exact h.paths g hg
    · rw [hg2]
      have hnd : ((pmGroup pm (splitSlash fix).length).map Entry.path).Nodup := by
        by_cases hk : (splitSlash fix).length ∈ pm.map (·.1)
        · obtain ⟨g', hg', hg'1⟩ := List.mem_map.1 hk
          rw [← hg'1, mr_pmGroup_of_mem h.keys hg']
          exact h.paths g' hg'
        · rw [mr_pmGroup_not_key hk]; simp
      by_cases hex : ∃ x ∈ pmGroup pm (splitSlash fix).length, x.path = fix
      · rw [mr_putEntry_paths _ _ hex]; exact hnd
      · have hno : ∀ x ∈ pmGroup pm (splitSlash fix).length, x.path ≠ fix := by
          intro x hx hp; exact hex ⟨x, hx, hp⟩
        rw [mr_putEntry_new (e := { path := fix, clauses := splitSlash fix, filter := f }) hno, List.map_append,
          List.nodup_append]
        refine ⟨hnd, by simp, ?_⟩
        intro a ha b hb
        simp at hb; subst hb
        obtain ⟨x, hx, hxa⟩ := List.mem_map.1 ha
        intro e; exact hno x hx (hxa.trans e)
  · intro g hg e he
    rcases mr_mem_putGroup hg with hg | ⟨hg1, hg2⟩
    · exact h.ent g hg e he
    · rw [hg2] at he
      rcases mr_mem_putEntry he with rfl | he
      · exact ⟨rfl, hg1.symm, hgood⟩
      · obtain ⟨g', hg', hg'1, heg'⟩ := pmGroup_mem he
        have := h.ent g' hg' e heg'
        rw [hg1, ← hg'1]; exact this

theorem SubsWF.put_found {pm : PM} (h : SubsWF pm) {fix : Bytes} {e : Entry} (hf : pmFind pm fix = some e)
    (f : Option Filt) : SubsWF (pmPut pm fix f) :=
  h.put (mr_found h hf).2.2.2.2 f

theorem mr_mem_pmRemove {pm : PM} {str : Bytes} {g : Nat × List Entry} (h : g ∈ pmRemove pm str) :
    ∃ g0 ∈ pm, g.1 = g0.1 ∧ g.2.Sublist g0.2 := by
  induction pm with
  | nil => simp [pmRemove] at h
  | cons g0 r ih =>
    obtain ⟨k0, es⟩ := g0
    rw [mr_pmRemove_cons] at h
    have hrest : g ∈ pmRemove r str → ∃ g0 ∈ (k0, es) :: r, g.1 = g0.1 ∧ g.2.Sublist g0.2 := by
      intro h
      obtain ⟨g1, hg1, h2⟩ := ih h
      exact ⟨g1, List.mem_cons_of_mem _ hg1, h2⟩
    split at h
    · exact hrest h
    · rcases List.mem_cons.1 h with h | h
      · subst h
        refine ⟨(k0, es), List.mem_cons_self, rfl, ?_⟩
        simp only [remGroup]
        split
        · exact List.filter_sublist
        · exact List.Sublist.refl _
      · exact hrest h

theorem SubsWF.remove {pm : PM} (h : SubsWF pm) (str : Bytes) : SubsWF (pmRemove pm str) := by
  refine ⟨(mr_pmRemove_keys_sub pm str).nodup h.keys, ?_, ?_⟩
  · intro g hg
    obtain ⟨g0, hg0, _, hs⟩ := mr_mem_pmRemove hg
    exact (hs.map _).nodup (h.paths g0 hg0)
  · intro g hg e he
    obtain ⟨g0, hg0, h1, hs⟩ := mr_mem_pmRemove hg
    rw [h1]
    exact h.ent g0 hg0 e (hs.subset he)

/-! ## the one-entry matcher `pmPut [] fix none` the (un)subscribe traversals use -/

theorem mr_single_wf {fix : Bytes} (hgood : GoodPath fix) (f : Option Filt) : SubsWF (pmPut [] fix f) :=
  SubsWF.nil.put hgood f

theorem mr_single_matches {fix : Bytes} (hg : ∀ c ∈ splitSlash fix, c ≠ []) (v : List Bytes) (d : Option Nat) :
    pmMatchesPath (pmPut [] fix none) v false d = clausesMatch (splitSlash fix) v := by
  rw [mr_pmPut_eq (mr_good_ne_nil hg)]
  unfold pmMatchesPath
  rw [mr_pmGroup_putGroup]
  by_cases hv : v.length = (splitSlash fix).length
  · rw [if_pos hv]
    simp [pmGroup, putEntry, Entry.filterOk]
  · rw [if_neg hv, mr_clausesMatch_len (fun e => hv e.symm)]
    simp [pmGroup]

/-- filters see no data: a path is matched iff at least one entry's clauses match it -/
theorem mr_matches_nodata (pm : PM) (v : List Bytes) (d : Option Nat) :
    pmMatchesPath pm v false d = decide (pmMatchCount pm v > 0) := by
  unfold pmMatchesPath pmMatchCount
  have : ∀ es : List Entry, (es.any (fun e => clausesMatch e.clauses v && e.filterOk false d)) =
      decide ((es.filter (fun e => clausesMatch e.clauses v)).length > 0) := by
    intro es
    induction es with
    | nil => simp
    | cons e r ih =>
      simp only [List.any_cons, List.filter_cons, ih]
      have hf : e.filterOk false d = true := by
        unfold Entry.filterOk; split <;> simp
      cases hc : clausesMatch e.clauses v <;> simp [hf]
  exact this _

end Muscle.Reflector
