import MuscleModel.Reflector.FrameProofs5
import MuscleModel.Engines.Srv

/-!
# Inboxes are append-only (C07) — what is queued for a client is never removed or reordered

* `InboxExt P t t'`: `t'` has the id of `t` and `t'.inbox = t.inbox ++ e` with every line of `e` satisfying `P`.
* `SessAll₂ R l l'`: the two session lists have the same length and are related by `R` position by position.
* `InboxApp P sv sv'` = `SessAll₂ (InboxExt P) sv.sessions sv'.sessions`; reflexive, transitive, monotone in `P`.
  `AnyLine` = the trivial predicate; one lemma per primitive / handler (prefix `od_`), then `od_runCmd`, `od_pushAll`,
  `od_attach`, `od_detach`, and histories of events (`OdEv`, `odRunEvs`).
* `od_sendMsg_text`: everything a `send` appends to anybody's inbox is a copy of its own text.
-/

set_option linter.unusedSimpArgs false
set_option linter.unusedVariables false

namespace Muscle.Reflector
open Muscle Muscle.Eng.SrvEngine

/-! ## the relations -/

def InboxExt (P : String → Prop) (t t' : Sess) : Prop :=
  t'.sid = t.sid ∧ ∃ e, t'.inbox = t.inbox ++ e ∧ ∀ x ∈ e, P x

def AnyLine : String → Prop := fun _ => True

theorem InboxExt.refl (P : String → Prop) (t : Sess) : InboxExt P t t := ⟨rfl, [], by simp, by simp⟩

theorem InboxExt.of_eq {P : String → Prop} {t t' : Sess} (h1 : t'.sid = t.sid) (h2 : t'.inbox = t.inbox) : InboxExt P t t' :=
  ⟨h1, [], by simp [h2], by simp⟩

theorem InboxExt.trans {P : String → Prop} {a b c : Sess} (h1 : InboxExt P a b) (h2 : InboxExt P b c) : InboxExt P a c := by
  obtain ⟨s1, e1, i1, p1⟩ := h1
  obtain ⟨s2, e2, i2, p2⟩ := h2
  refine ⟨s2.trans s1, e1 ++ e2, by rw [i2, i1, List.append_assoc], ?_⟩
  intro x hx
  rcases List.mem_append.mp hx with hx | hx
  · exact p1 x hx
  · exact p2 x hx

theorem InboxExt.mono {P Q : String → Prop} (h : ∀ x, P x → Q x) {a b : Sess} (h1 : InboxExt P a b) : InboxExt Q a b := by
  obtain ⟨s1, e1, i1, p1⟩ := h1
  exact ⟨s1, e1, i1, fun x hx => h x (p1 x hx)⟩

theorem InboxExt.one {P : String → Prop} (t : Sess) (w : String) (hw : P w) : InboxExt P t { t with inbox := t.inbox ++ [w] } :=
  ⟨rfl, [w], rfl, by intro x hx; simp at hx; subst hx; exact hw⟩

def SessAll₂ (R : Sess → Sess → Prop) : List Sess → List Sess → Prop
  | [], [] => True
  | a :: l, b :: l' => R a b ∧ SessAll₂ R l l'
  | _, _ => False

theorem SessAll₂.refl {R : Sess → Sess → Prop} (hr : ∀ t, R t t) : ∀ l, SessAll₂ R l l
  | [] => trivial
  | a :: l => ⟨hr a, SessAll₂.refl hr l⟩

theorem SessAll₂.trans {R : Sess → Sess → Prop} (ht : ∀ a b c, R a b → R b c → R a c) :
    ∀ l1 l2 l3, SessAll₂ R l1 l2 → SessAll₂ R l2 l3 → SessAll₂ R l1 l3
  | [], [], [], _, _ => trivial
  | a :: l1, b :: l2, c :: l3, h1, h2 => ⟨ht a b c h1.1 h2.1, SessAll₂.trans ht l1 l2 l3 h1.2 h2.2⟩
  | [], _ :: _, _, h1, _ => h1.elim
  | _ :: _, [], _, h1, _ => h1.elim
  | _ :: _, _ :: _, [], _, h2 => h2.elim
  | [], [], _ :: _, _, h2 => h2.elim

theorem SessAll₂.mono {R S : Sess → Sess → Prop} (h : ∀ a b, R a b → S a b) : ∀ l l', SessAll₂ R l l' → SessAll₂ S l l'
  | [], [], _ => trivial
  | a :: l, b :: l', h1 => ⟨h a b h1.1, SessAll₂.mono h l l' h1.2⟩
  | [], _ :: _, h1 => h1.elim
  | _ :: _, [], h1 => h1.elim

theorem SessAll₂.map_right {R : Sess → Sess → Prop} (g : Sess → Sess) (hg : ∀ t, R t (g t)) : ∀ l, SessAll₂ R l (l.map g)
  | [] => trivial
  | a :: l => ⟨hg a, SessAll₂.map_right g hg l⟩

theorem SessAll₂.length {R : Sess → Sess → Prop} : ∀ l l', SessAll₂ R l l' → l'.length = l.length
  | [], [], _ => rfl
  | a :: l, b :: l', h1 => by simp [SessAll₂.length l l' h1.2]
  | [], _ :: _, h1 => h1.elim
  | _ :: _, [], h1 => h1.elim

theorem SessAll₂.get {R : Sess → Sess → Prop} : ∀ l l', SessAll₂ R l l' → ∀ (i : Nat) (t : Sess), l[i]? = some t →
    ∃ t', l'[i]? = some t' ∧ R t t'
  | [], [], _, i, t, h => by simp at h
  | a :: l, b :: l', h1, 0, t, h => by simp at h; subst h; exact ⟨b, by simp, h1.1⟩
  | a :: l, b :: l', h1, i + 1, t, h => by
      simp only [List.getElem?_cons_succ] at h ⊢
      exact SessAll₂.get l l' h1.2 i t h
  | [], _ :: _, h1, _, _, _ => h1.elim
  | _ :: _, [], h1, _, _, _ => h1.elim

/-- lookups by id agree when ids are kept -/
theorem SessAll₂.find {R : Sess → Sess → Prop} (hsid : ∀ a b, R a b → b.sid = a.sid) (b0 : Nat) :
    ∀ l l', SessAll₂ R l l' → ∀ t, l.find? (fun s => s.sid = b0) = some t →
      ∃ t', l'.find? (fun s => s.sid = b0) = some t' ∧ R t t'
  | [], [], _, t, h => by simp at h
  | a :: l, b :: l', h1, t, h => by
      have hs := hsid a b h1.1
      simp only [List.find?_cons] at h ⊢
      by_cases ha : a.sid = b0
      · simp only [ha, decide_true] at h
        cases h
        simp only [hs, ha, decide_true]
        exact ⟨b, rfl, h1.1⟩
      · simp only [ha, decide_false] at h
        simp only [hs, ha, decide_false]
        exact SessAll₂.find hsid b0 l l' h1.2 t h
  | [], _ :: _, h1, _, _ => h1.elim
  | _ :: _, [], h1, _, _ => h1.elim

theorem SessAll₂.filter {R : Sess → Sess → Prop} (hsid : ∀ a b, R a b → b.sid = a.sid) (p : Nat → Bool) :
    ∀ l l', SessAll₂ R l l' → SessAll₂ R (l.filter (fun s => p s.sid)) (l'.filter (fun s => p s.sid))
  | [], [], _ => trivial
  | a :: l, b :: l', h1 => by
      have hs := hsid a b h1.1
      simp only [List.filter_cons, hs]
      split
      · exact ⟨h1.1, SessAll₂.filter hsid p l l' h1.2⟩
      · exact SessAll₂.filter hsid p l l' h1.2
  | [], _ :: _, h1 => h1.elim
  | _ :: _, [], h1 => h1.elim

/-- one session appended on the left: one session more on the right -/
theorem SessAll₂.snoc_left {R : Sess → Sess → Prop} : ∀ (l : List Sess) (n : Sess) (l' : List Sess), SessAll₂ R (l ++ [n]) l' →
    ∃ l1 n', l' = l1 ++ [n'] ∧ SessAll₂ R l l1 ∧ R n n'
  | [], n, [], h => h.elim
  | [], n, [b], h => ⟨[], b, rfl, trivial, h.1⟩
  | [], n, b :: c :: r, h => h.2.elim
  | a :: l, n, [], h => h.elim
  | a :: l, n, b :: l', h => by
      obtain ⟨l1, n', e, h2, h3⟩ := SessAll₂.snoc_left l n l' h.2
      exact ⟨b :: l1, n', by simp [e], ⟨h.1, h2⟩, h3⟩

def InboxApp (P : String → Prop) (sv sv' : Server) : Prop := SessAll₂ (InboxExt P) sv.sessions sv'.sessions

theorem InboxApp.refl (P : String → Prop) (sv : Server) : InboxApp P sv sv := SessAll₂.refl (InboxExt.refl P) _

theorem InboxApp.trans {P : String → Prop} {a b c : Server} (h1 : InboxApp P a b) (h2 : InboxApp P b c) : InboxApp P a c :=
  SessAll₂.trans (R := InboxExt P) (fun _ _ _ => InboxExt.trans) _ _ _ h1 h2

theorem InboxApp.mono {P Q : String → Prop} (h : ∀ x, P x → Q x) {a b : Server} (h1 : InboxApp P a b) : InboxApp Q a b :=
  SessAll₂.mono (fun _ _ => InboxExt.mono h) _ _ h1

theorem InboxApp.foldl {P : String → Prop} {α} (g : Server → α → Server) (hg : ∀ sv a, InboxApp P sv (g sv a)) (l : List α) (sv : Server) :
    InboxApp P sv (l.foldl g sv) := by
  induction l generalizing sv with
  | nil => exact InboxApp.refl P sv
  | cons a r ih => exact (hg sv a).trans (ih (g sv a))

theorem InboxExt.sid {P : String → Prop} (a b : Sess) (h : InboxExt P a b) : b.sid = a.sid := h.1

/-! ## session-table primitives -/

theorem od_setNode {P : String → Prop} (sv : Server) (path : List Bytes) (f : Node → Node) : InboxApp P sv (setNode sv path f) :=
  InboxApp.refl P sv

theorem od_dirty {P : String → Prop} (sv : Server) (b : Bool) : InboxApp P sv { sv with subsDirty := b } := InboxApp.refl P sv

theorem od_updSess {P : String → Prop} (sv : Server) (sid : Nat) (f : Sess → Sess) (hf : ∀ t, InboxExt P t (f t)) :
    InboxApp P sv (sv.updSess sid f) := by
  unfold InboxApp Server.updSess
  apply SessAll₂.map_right
  intro t
  split
  · exact hf t
  · exact InboxExt.refl P t

theorem od_deliver {P : String → Prop} (sv : Server) (sid : Nat) (what : String) (hw : P what) :
    InboxApp P sv (sv.deliver sid what) :=
  od_updSess sv sid _ (fun t => InboxExt.one t what hw)

theorem od_pushOnce (sv : Server) : InboxApp AnyLine sv (pushOnce sv) := by
  unfold InboxApp pushOnce
  apply SessAll₂.map_right
  intro t
  cases h1 : t.nextData <;> cases h2 : t.nextIdx <;> simp only [h1, h2]
  · exact InboxExt.refl AnyLine t
  · exact ⟨rfl, [_], rfl, fun _ _ => trivial⟩
  · exact ⟨rfl, [_], rfl, fun _ _ => trivial⟩
  · exact ⟨rfl, _, List.append_assoc _ _ _, fun _ _ => trivial⟩

theorem od_pushAll (sv : Server) : InboxApp AnyLine sv (pushAll sv) := by
  unfold pushAll
  split
  · exact od_pushOnce sv
  · exact InboxApp.refl AnyLine sv

/-! ## notification pipeline -/

theorem od_nodeChangedAux (sv : Server) (sid : Nat) (np : Bytes) (d : Option Nat) (removed : Bool) :
    InboxApp AnyLine sv (nodeChangedAux sv sid np d removed) := by
  unfold nodeChangedAux
  split
  · exact InboxApp.refl _ sv
  · rename_i s hs
    simp only []
    have tail : ∀ (a b : Server), InboxApp AnyLine a b →
        InboxApp AnyLine a (match b.sess? sid with
          | none => b
          | some s => match s.nextData with
            | some m => if m.numNames ≥ s.maxItems then pushAll b else b
            | none => b) := by
      intro a b hab
      split
      · exact hab
      · split
        · split
          · exact hab.trans (od_pushAll b)
          · exact hab
        · exact hab
    apply tail
    split
    · split
      · refine InboxApp.trans ?_ (od_dirty _ true)
        refine InboxApp.trans ?_ (od_updSess _ sid _ (by intro _; exact InboxExt.of_eq rfl rfl))
        refine InboxApp.trans ?_ (od_pushAll _)
        refine InboxApp.trans ?_ (od_updSess _ sid _ (by intro _; exact InboxExt.of_eq rfl rfl))
        exact od_dirty sv true
      · exact (od_dirty sv true).trans (od_updSess _ sid _ (by intro _; exact InboxExt.of_eq rfl rfl))
    · exact (od_dirty sv true).trans (od_updSess _ sid _ (by intro _; exact InboxExt.of_eq rfl rfl))

theorem od_nodeChanged (sv : Server) (sid : Nat) (names : List Bytes) (newData : Option Nat)
    (oldData : Option (Option Nat)) (removed : Bool) :
    InboxApp AnyLine sv (nodeChanged sv sid names newData oldData removed) := by
  unfold nodeChanged
  split
  · exact InboxApp.refl _ sv
  · simp only []
    repeat' split
    all_goals first | exact InboxApp.refl _ sv | exact od_nodeChangedAux ..

theorem od_notifyChanged (sv : Server) (by_ : Nat) (names : List Bytes) (node : Node)
    (oldData : Option (Option Nat)) (removed : Bool) :
    InboxApp AnyLine sv (notifyChanged sv by_ names node oldData removed) := by
  unfold notifyChanged
  simp only []
  apply InboxApp.foldl
  intro sv ⟨sid, c⟩
  simp only []
  repeat' split
  all_goals first | exact InboxApp.refl _ sv | exact od_nodeChanged ..

theorem od_notifyIndex (sv : Server) (names : List Bytes) (node : Node) (instr : Bytes) :
    InboxApp AnyLine sv (notifyIndex sv names node instr) := by
  unfold notifyIndex
  apply InboxApp.foldl
  intro sv ⟨sid, c⟩
  simp only []
  split
  · exact InboxApp.refl _ sv
  · split
    · exact InboxApp.refl _ sv
    · refine InboxApp.trans ?_ (od_dirty _ true)
      exact od_updSess sv sid _ (by intro _; exact InboxExt.of_eq rfl rfl)


theorem od_doGetData (sv : Server) (sid : Nat) (keys : List (Bytes × Option Filt)) :
    InboxApp AnyLine sv (doGetData sv sid keys) := by
  unfold doGetData
  split
  · exact InboxApp.refl _ sv
  · rename_i s hs
    simp only []
    repeat' split
    all_goals
      repeat (first | refine InboxApp.trans ?_ (od_deliver _ _ _ trivial))
      apply foldl_inv (fun st : Server × UpdMsg × IdxMsg => InboxApp AnyLine sv st.1)
      · intro st v hst
        try simp only [] at hst
        try simp only []
        split
        · exact hst
        · repeat' (first | split | simp only [])
          all_goals first
            | exact hst
            | exact hst.trans (od_deliver _ _ _ trivial)
            | exact (hst.trans (od_deliver _ _ _ trivial)).trans (od_deliver _ _ _ trivial)
      · exact InboxApp.refl _ sv



/-- peel known primitives off the outside of the target state of an `InboxApp AnyLine` goal -/
macro "od_chain" : tactic => `(tactic| repeat (first
  | exact InboxApp.refl _ _
  | refine InboxApp.trans ?_ (od_notifyChanged ..)
  | refine InboxApp.trans ?_ (od_notifyIndex ..)
  | refine InboxApp.trans ?_ (od_deliver _ _ _ trivial)
  | refine InboxApp.trans ?_ (od_nodeChangedAux ..)
  | refine InboxApp.trans ?_ (od_updSess _ _ _ (by intro _; exact InboxExt.of_eq rfl rfl))
  | refine InboxApp.trans ?_ (od_setNode ..)))

/-! ## tree primitives and handlers -/

theorem od_putChild (sv : Server) (by_ : Nat) (parent : List Bytes) (child : Node) (notify : Bool) :
    InboxApp AnyLine sv (putChild sv by_ parent child notify) := by
  unfold putChild
  simp only []
  split <;> od_chain

theorem od_removeIndexEntry (sv : Server) (parent : List Bytes) (key : Bytes) (notify : Bool) :
    InboxApp AnyLine sv (removeIndexEntry sv parent key notify) := by
  unfold removeIndexEntry
  repeat' (first | split | simp only [])
  all_goals od_chain

theorem od_removeOne (sv : Server) (by_ : Nat) (notify : Bool) (names : List Bytes) :
    InboxApp AnyLine sv (removeOne sv by_ notify names) := by
  unfold removeOne
  split
  · simp only []
    refine InboxApp.trans ?_ (od_setNode ..)
    repeat' (first | split | simp only [])
    all_goals first
      | exact od_removeIndexEntry ..
      | exact (od_removeIndexEntry ..).trans (od_notifyChanged ..)
  · exact InboxApp.refl _ _

theorem od_removeChild (sv : Server) (by_ : Nat) (notify : Bool) (names : List Bytes) :
    InboxApp AnyLine sv (removeChild sv by_ notify names) := by
  unfold removeChild
  split
  · exact InboxApp.refl _ _
  · apply InboxApp.foldl
    intro sv1 nm
    exact od_removeOne ..

theorem od_insertOrderedChild (sv : Server) (by_ : Nat) (parent : List Bytes) (d : Option Nat)
    (before name : Bytes) (nc : Bool) : InboxApp AnyLine sv (insertOrderedChild sv by_ parent d before name nc) := by
  unfold insertOrderedChild
  split
  · exact InboxApp.refl _ _
  · simp only []
    repeat' split
    all_goals first
      | (refine InboxApp.trans ?_ (od_notifyIndex ..)
         refine InboxApp.trans ?_ (od_setNode ..)
         refine InboxApp.trans ?_ (od_putChild ..)
         exact od_setNode ..)
      | (refine InboxApp.trans ?_ (od_putChild ..)
         exact od_setNode ..)
      | (refine InboxApp.trans ?_ (od_setNode ..)
         refine InboxApp.trans ?_ (od_putChild ..)
         exact od_setNode ..)

theorem od_reorderChild (sv : Server) (parent : List Bytes) (child before : Bytes) :
    InboxApp AnyLine sv (reorderChild sv parent child before) := by
  unfold reorderChild
  repeat' (first | split | simp only [])
  all_goals first
    | exact InboxApp.refl _ _
    | exact od_removeIndexEntry ..
    | (refine InboxApp.trans ?_ (od_notifyIndex ..)
       refine InboxApp.trans ?_ (od_setNode ..)
       exact od_removeIndexEntry ..)
    | (refine InboxApp.trans ?_ (od_setNode ..)
       exact od_removeIndexEntry ..)

theorem od_setDataClauses (by_ : Nat) (d : Option Nat) (ati : Bool) :
    ∀ (cls : List Bytes) (sv : Server) (cur : List Bytes), InboxApp AnyLine sv (setDataClauses by_ d ati sv cur cls) := by
  intro cls
  induction cls with
  | nil => intro sv cur; simp only [setDataClauses]; exact InboxApp.refl _ _
  | cons cl rest ih =>
    intro sv cur
    simp only [setDataClauses]
    split
    · exact InboxApp.refl _ _
    · split
      · refine InboxApp.trans ?_ (ih _ _)
        repeat' (first | split | simp only [])
        all_goals repeat (first
          | exact InboxApp.refl _ _
          | refine InboxApp.trans ?_ (od_notifyChanged ..)
          | refine InboxApp.trans ?_ (od_updSess _ _ _ (by intro _; exact InboxExt.of_eq rfl rfl))
          | refine InboxApp.trans ?_ (od_setNode ..)
          | refine InboxApp.trans ?_ (od_putChild ..)
          | refine InboxApp.trans ?_ (od_insertOrderedChild ..))
      · refine InboxApp.trans ?_ (ih _ _)
        repeat' (first | split | simp only [])
        all_goals repeat (first
          | exact InboxApp.refl _ _
          | refine InboxApp.trans ?_ (od_notifyChanged ..)
          | refine InboxApp.trans ?_ (od_updSess _ _ _ (by intro _; exact InboxExt.of_eq rfl rfl))
          | refine InboxApp.trans ?_ (od_setNode ..)
          | refine InboxApp.trans ?_ (od_putChild ..)
          | refine InboxApp.trans ?_ (od_insertOrderedChild ..))

theorem od_setDataNode (sv : Server) (sid : Nat) (path : Bytes) (d : Option Nat) (ati : Bool) :
    InboxApp AnyLine sv (setDataNode sv sid path d ati) := by
  unfold setDataNode
  repeat' (first | split | simp only [])
  all_goals first
    | exact InboxApp.refl _ _
    | exact od_setDataClauses ..

theorem od_subscribeRefs (sv : Server) (sid : Nat) (pm : PM) (delta : Option Int) :
    InboxApp AnyLine sv (subscribeRefs sv sid pm delta) := by
  unfold subscribeRefs
  apply InboxApp.foldl
  intro sv1 v
  exact od_setNode ..

theorem od_subscribe (sv : Server) (sid : Nat) (path : Bytes) (f : Option Filt) : InboxApp AnyLine sv (subscribe sv sid path f) := by
  unfold subscribe
  split
  · exact InboxApp.refl _ _
  · rename_i s hs
    simp only []
    refine InboxApp.trans ?_ (od_doGetData ..)
    refine InboxApp.trans ?_ (od_updSess _ sid _ (by intro _; exact InboxExt.of_eq rfl rfl))
    · split
      · refine InboxApp.trans ?_ (od_updSess _ sid _ (by intro _; exact InboxExt.of_eq rfl rfl))
        split
        · apply InboxApp.foldl
          intro sv1 v
          try simp only []
          repeat' (first | split | simp only [])
          all_goals first
            | exact InboxApp.refl _ _
            | exact od_nodeChangedAux ..
        · exact InboxApp.refl _ _
      · split
        · exact InboxApp.refl _ _
        · refine InboxApp.trans ?_ (od_subscribeRefs ..)
          exact od_updSess _ sid _ (by intro _; exact InboxExt.of_eq rfl rfl)

theorem od_unsubscribe (sv : Server) (sid : Nat) (path : Bytes) : InboxApp AnyLine sv (unsubscribe sv sid path) := by
  unfold unsubscribe
  split
  · exact InboxApp.refl _ _
  · rename_i s hs
    simp only []
    split
    · exact InboxApp.refl _ _
    · refine InboxApp.trans ?_ (od_updSess _ sid _ (by intro _; exact InboxExt.of_eq rfl rfl))
      · split
        · refine InboxApp.trans ?_ (od_subscribeRefs ..)
          exact od_updSess _ sid _ (by intro _; exact InboxExt.of_eq rfl rfl)
        · exact InboxApp.refl _ _

theorem od_removeData (sv : Server) (sid : Nat) (keys : List Bytes) : InboxApp AnyLine sv (removeData sv sid keys) := by
  unfold removeData
  split
  · exact InboxApp.refl _ _
  · simp only []
    apply InboxApp.foldl
    intro sv1 v
    exact od_removeChild ..

theorem od_insertOrdered (sv : Server) (sid : Nat) (key before : Bytes) (vals : List Nat) :
    InboxApp AnyLine sv (insertOrdered sv sid key before vals) := by
  unfold insertOrdered
  split
  · exact InboxApp.refl _ _
  · simp only []
    apply InboxApp.foldl
    intro sv1 v
    apply InboxApp.foldl
    intro sv2 x
    try simp only []
    refine InboxApp.trans ?_ (od_updSess _ sid _ (by intro _; exact InboxExt.of_eq rfl rfl))
    exact od_insertOrderedChild ..

theorem od_reorderCore (sv : Server) (sid : Nat) (key before : Bytes) : InboxApp AnyLine sv (reorderCore sv sid key before) := by
  unfold reorderCore
  split
  · exact InboxApp.refl _ _
  · simp only []
    apply InboxApp.foldl
    intro sv1 v
    try simp only []
    repeat' split
    all_goals first
      | exact InboxApp.refl _ _
      | exact od_reorderChild ..

theorem od_reorder (sv : Server) (sid : Nat) (key before : Bytes) : InboxApp AnyLine sv (Muscle.Reflector.reorder sv sid key before) := by
  unfold Muscle.Reflector.reorder
  simp only []
  repeat' split
  all_goals first
    | exact od_reorderCore ..
    | exact (od_reorderCore ..).trans (od_updSess _ sid _ (by intro _; exact InboxExt.of_eq rfl rfl))


/-! ## client-to-client Messages: only copies of the text are appended -/

theorem od_route (sv : Server) (sid : Nat) (pm : PM) (what : String) : InboxApp (· = what) sv (route sv sid pm what) := by
  unfold route
  split
  · exact InboxApp.refl _ sv
  · simp only []
    apply InboxApp.foldl
    intro sv1 v
    try simp only []
    repeat' (first | split | simp only [])
    all_goals first
      | exact InboxApp.refl _ _
      | exact od_deliver _ _ _ rfl

def msgText (sid tag : Nat) : String := "MSG 1234 from=" ++ toString sid ++ " tag=" ++ toString tag

theorem od_sendMsg_text (sv : Server) (sid : Nat) (tag : Nat) (keys : List Bytes) :
    InboxApp (· = msgText sid tag) sv (sendMsg sv sid tag keys) := by
  unfold sendMsg
  split
  · exact InboxApp.refl _ sv
  · simp only []
    split
    · exact od_route ..
    · split
      · exact od_route ..
      · apply InboxApp.foldl
        intro sv1 t
        split
        · exact od_deliver _ _ _ rfl
        · exact InboxApp.refl _ _

theorem od_sendMsg (sv : Server) (sid : Nat) (tag : Nat) (keys : List Bytes) : InboxApp AnyLine sv (sendMsg sv sid tag keys) :=
  (od_sendMsg_text sv sid tag keys).mono (fun _ _ => trivial)

/-! ## `runCmd`, `attach`, `detach` -/

theorem od_runCmd (sv : Server) (sid : Nat) (c : Cmd) : InboxApp AnyLine sv (runCmd sv sid c) := by
  cases c with
  | set path v ati => exact od_setDataNode ..
  | rm keys => exact od_removeData ..
  | sub path f => exact od_subscribe ..
  | unsub path => exact od_unsubscribe ..
  | paramSelf => exact od_updSess _ _ _ (by intro _; exact InboxExt.of_eq rfl rfl)
  | paramMax n => exact od_updSess _ _ _ (by intro _; exact InboxExt.of_eq rfl rfl)
  | paramRoute keys => exact od_updSess _ _ _ (by intro _; exact InboxExt.of_eq rfl rfl)
  | paramRouteF keys fs => exact od_updSess _ _ _ (by intro _; exact InboxExt.of_eq rfl rfl)
  | unparamMax => exact od_updSess _ _ _ (by intro _; split <;> exact InboxExt.of_eq rfl rfl)
  | unparamRoute => exact od_updSess _ _ _ (by intro _; split <;> exact InboxExt.of_eq rfl rfl)
  | unparamRouteF => exact od_updSess _ _ _ (by intro _; split <;> exact InboxExt.of_eq rfl rfl)
  | getparams =>
    simp only [runCmd]
    split
    · exact InboxApp.refl _ _
    · exact od_deliver _ _ _ trivial
  | ins key before vals => exact od_insertOrdered ..
  | reorder key before => exact od_reorder ..
  | send tag keys => exact od_sendMsg ..
  | ping tag => exact od_deliver _ _ _ trivial

/-- `attach`: the old sessions in place, append-only; one new session at the end -/
theorem od_attach (sv : Server) (slot : Nat) (host : Bytes) :
    ∃ l1 n', (attach sv slot host).1.sessions = l1 ++ [n'] ∧ SessAll₂ (InboxExt AnyLine) sv.sessions l1 := by
  have h : ∀ x : Server, x.sessions = sv.sessions ++ [({ slot := slot, sid := sv.nextSid, host := host, maxItems := sv.maxItemsDefault } : Sess)] →
      InboxApp AnyLine x (attach sv slot host).1 := by
    intro x hx
    unfold attach
    simp only []
    refine InboxApp.trans ?_ (od_pushAll _)
    refine InboxApp.trans ?_ (od_putChild ..)
    split
    · unfold InboxApp; rw [hx]; exact SessAll₂.refl (InboxExt.refl AnyLine) _
    · refine InboxApp.trans ?_ (od_putChild ..)
      unfold InboxApp; rw [hx]; exact SessAll₂.refl (InboxExt.refl AnyLine) _
  have h' := h { sv with sessions := sv.sessions ++ [({ slot := slot, sid := sv.nextSid, host := host, maxItems := sv.maxItemsDefault } : Sess)] } rfl
  obtain ⟨l1, n', e, h2, _⟩ := SessAll₂.snoc_left _ _ _ h'
  exact ⟨l1, n', e, h2⟩

theorem od_detachPre (sv : Server) (sid : Nat) (s : Sess) : InboxApp AnyLine sv (detachPre sv sid s) := by
  unfold detachPre
  simp only []
  refine InboxApp.trans ?_ (od_pushAll _)
  repeat' split
  all_goals first
    | exact od_removeChild ..
    | exact (od_removeChild sv sid true (sessNames s)).trans (od_removeChild ..)

/-- `detach x`: the sessions with another id in place, append-only -/
theorem od_detach (sv : Server) (x : Nat) :
    SessAll₂ (InboxExt AnyLine) (sv.sessions.filter (fun t => t.sid ≠ x)) (detach sv x).sessions ∨ detach sv x = sv := by
  cases hs : sv.sess? x with
  | none => right; unfold detach; rw [hs]
  | some s =>
    left
    have e0 : detach sv x =
        (let pre := detachPre sv x s
         let sv4 := if pre.root.kids.isEmpty then { pre with live := false }
                    else (travGlobal pre s.subs false cbContinue).foldl (unmark x) pre
         { sv4 with sessions := sv4.sessions.filter (fun t => t.sid ≠ x) }) := by
      unfold detach; rw [hs]; rfl
    have hpre := od_detachPre sv x s
    have hfold : InboxApp AnyLine sv ((travGlobal (detachPre sv x s) s.subs false cbContinue).foldl (unmark x) (detachPre sv x s)) := by
      refine InboxApp.trans hpre ?_
      apply InboxApp.foldl
      intro sv1 v
      exact od_setNode ..
    rw [e0]
    by_cases hk : (detachPre sv x s).root.kids.isEmpty
    · simp only [hk, if_true]
      exact SessAll₂.filter InboxExt.sid (fun i => decide (i ≠ x)) _ _ hpre
    · simp only [hk, Bool.false_eq_true, if_false]
      exact SessAll₂.filter InboxExt.sid (fun i => decide (i ≠ x)) _ _ hfold

/-! ## lookups -/

theorem od_lookup {P : String → Prop} {sv sv' : Server} (h : InboxApp P sv sv') (b : Nat) (t : Sess) (ht : sv.sess? b = some t) :
    ∃ t', sv'.sess? b = some t' ∧ InboxExt P t t' :=
  SessAll₂.find InboxExt.sid b _ _ h t ht

theorem od_lookup_attach (sv : Server) (slot : Nat) (host : Bytes) (b : Nat) (t : Sess) (ht : sv.sess? b = some t) :
    ∃ t', (attach sv slot host).1.sess? b = some t' ∧ InboxExt AnyLine t t' := by
  obtain ⟨l1, n', e, h⟩ := od_attach sv slot host
  obtain ⟨t', h1, h2⟩ := SessAll₂.find InboxExt.sid b _ _ h t ht
  refine ⟨t', ?_, h2⟩
  unfold Server.sess?
  rw [e, List.find?_append, h1]
  rfl

theorem od_lookup_detach (sv : Server) (x b : Nat) (hb : b ≠ x) (t : Sess) (ht : sv.sess? b = some t) :
    ∃ t', (detach sv x).sess? b = some t' ∧ InboxExt AnyLine t t' := by
  rcases od_detach sv x with h | h
  · have hf : (sv.sessions.filter (fun t => t.sid ≠ x)).find? (fun s => s.sid = b) = some t := by
      rw [find?_filter_of_imp]
      · exact ht
      · intro s hs
        simp only [decide_eq_true_eq] at hs ⊢
        rw [hs]; exact hb
    exact SessAll₂.find InboxExt.sid b _ _ h t hf
  · rw [h]; exact ⟨t, ht, InboxExt.refl AnyLine t⟩

/-! ## histories of events -/

inductive OdEv where
  | cmd (sid : Nat) (c : Cmd)
  | push
  | attach (slot : Nat) (host : Bytes)
  | detach (sid : Nat)

def odRunEv (sv : Server) : OdEv → Server
  | .cmd sid c => runCmd sv sid c
  | .push => pushAll sv
  | .attach slot host => (Muscle.Reflector.attach sv slot host).1
  | .detach sid => Muscle.Reflector.detach sv sid

def odRunEvs (sv : Server) (evs : List OdEv) : Server := evs.foldl odRunEv sv

theorem od_lookup_ev (sv : Server) (e : OdEv) (b : Nat) (hb : e ≠ .detach b) (t : Sess) (ht : sv.sess? b = some t) :
    ∃ t', (odRunEv sv e).sess? b = some t' ∧ InboxExt AnyLine t t' := by
  cases e with
  | cmd sid c => exact od_lookup (od_runCmd sv sid c) b t ht
  | push => exact od_lookup (od_pushAll sv) b t ht
  | attach slot host => exact od_lookup_attach sv slot host b t ht
  | detach x =>
    have : b ≠ x := by intro e; subst e; exact hb rfl
    exact od_lookup_detach sv x b this t ht

theorem od_lookup_evs (evs : List OdEv) (b : Nat) (hb : ∀ e ∈ evs, e ≠ .detach b) :
    ∀ (sv : Server) (t : Sess), sv.sess? b = some t → ∃ t', (odRunEvs sv evs).sess? b = some t' ∧ InboxExt AnyLine t t' := by
  induction evs with
  | nil => intro sv t ht; exact ⟨t, ht, InboxExt.refl AnyLine t⟩
  | cons e r ih =>
    intro sv t ht
    obtain ⟨t1, h1, e1⟩ := od_lookup_ev sv e b (hb e (List.mem_cons_self ..)) t ht
    obtain ⟨t2, h2, e2⟩ := ih (fun e' he' => hb e' (List.mem_cons_of_mem _ he')) (odRunEv sv e) t1 h1
    exact ⟨t2, h2, e1.trans e2⟩

/-! ## order of two lines appended one after the other -/

theorem od_idxOf_lt {I2 e3 : List String} {m1 m2 : String} (h1 : m1 ∈ I2) (h2 : m2 ∉ I2) :
    (I2 ++ e3).idxOf m1 < (I2 ++ e3).idxOf m2 := by
  rw [List.idxOf_append, List.idxOf_append]
  have := List.idxOf_lt_length_of_mem h1
  simp only [h1, h2, if_true, if_false]
  omega

end Muscle.Reflector
