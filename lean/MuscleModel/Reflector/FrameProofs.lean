import MuscleModel.Reflector.Handlers

/-!
# Frame lemmas, part 1: the node tree

`strip sid n` = what an observer other than session `sid` can tell about one node: name, payload, index,
counter, the NAMES of the children in order, and the subscriber table without `sid`'s own entry.
The key lemma `nodeAt_updateAt` says that `updateAt … path f` with a name-preserving `f` is invisible
(through `strip`) at every node whose path does not extend `path`, and at the others too when `f` itself is
invisible.
-/

set_option linter.unusedSimpArgs false
set_option linter.unusedVariables false

namespace Muscle.Reflector
open Muscle

structure Stripped where
  name : Bytes
  data : Option Nat
  index : List Bytes
  ctr : Nat
  kidNames : List Bytes
  subs : List (Nat × Nat)

/-- the view of one node that a command of session `sid` must not change outside `sid`'s subtree -/
def strip (sid : Nat) (n : Node) : Stripped :=
  { name := n.name, data := n.data, index := n.index, ctr := n.ctr,
    kidNames := n.kids.map Node.name, subs := n.subs.filter (fun p => p.1 ≠ sid) }

/-! ## children lists -/

theorem findKid_name {nm : Bytes} {kids : List Node} {k : Node} (h : findKid nm kids = some k) : k.name = nm := by
  induction kids with
  | nil => simp [findKid] at h
  | cons a r ih =>
    simp only [findKid] at h
    split at h
    · cases h; assumption
    · exact ih h

theorem findKid_isSome_iff {nm : Bytes} {kids : List Node} : (findKid nm kids).isSome ↔ nm ∈ kids.map Node.name := by
  induction kids with
  | nil => simp [findKid]
  | cons a r ih =>
    simp only [findKid, List.map_cons, List.mem_cons]
    split
    · rename_i h; simp [h]
    · rename_i h
      rw [ih]
      constructor
      · intro h'; exact Or.inr h'
      · intro h'; rcases h' with h' | h'
        · exact absurd h'.symm h
        · exact h'

theorem findKid_putKid_same (c : Node) (kids : List Node) : findKid c.name (putKid c kids) = some c := by
  induction kids with
  | nil => simp [putKid, findKid]
  | cons a r ih =>
    simp only [putKid]
    split
    · simp [findKid]
    · rename_i h; simp [findKid, h, ih]

theorem findKid_putKid_ne {c : Node} {nm : Bytes} (h : c.name ≠ nm) (kids : List Node) :
    findKid nm (putKid c kids) = findKid nm kids := by
  induction kids with
  | nil => simp [putKid, findKid, h]
  | cons a r ih =>
    simp only [putKid]
    split
    · rename_i h1
      have : a.name ≠ nm := by rw [h1]; exact h
      simp [findKid, h, this]
    · simp only [findKid, ih]

theorem map_name_putKid {c : Node} {kids : List Node} (h : (findKid c.name kids).isSome) :
    (putKid c kids).map Node.name = kids.map Node.name := by
  induction kids with
  | nil => simp [findKid] at h
  | cons a r ih =>
    simp only [putKid]
    split
    · rename_i h1; simp [h1]
    · rename_i h1
      simp only [findKid, h1, if_false] at h
      simp [ih h]

/-! ## `strip` under the field setters -/

theorem strip_setData_name (n : Node) (d : Option Nat) : (n.setData d).name = n.name := rfl
theorem strip_setKids_name (n : Node) (k : List Node) : (n.setKids k).name = n.name := rfl
theorem strip_setIndex_name (n : Node) (i : List Bytes) : (n.setIndex i).name = n.name := rfl
theorem strip_setCtr_name (n : Node) (c : Nat) : (n.setCtr c).name = n.name := rfl
theorem strip_setSubs_name (n : Node) (s : List (Nat × Nat)) : (n.setSubs s).name = n.name := rfl
theorem setSubs_kids (n : Node) (s : List (Nat × Nat)) : (n.setSubs s).kids = n.kids := rfl
theorem setKids_kids (n : Node) (k : List Node) : (n.setKids k).kids = k := rfl

theorem strip_setKids (sid : Nat) (n : Node) (k : List Node) (h : k.map Node.name = n.kids.map Node.name) :
    strip sid (n.setKids k) = strip sid n := by
  cases n
  simp only [strip, Node.setKids, Node.name, Node.data, Node.index, Node.ctr, Node.kids, Node.subs] at *
  rw [h]

theorem strip_setSubs (sid : Nat) (n : Node) (s : List (Nat × Nat))
    (h : s.filter (fun p => p.1 ≠ sid) = n.subs.filter (fun p => p.1 ≠ sid)) :
    strip sid (n.setSubs s) = strip sid n := by
  cases n
  simp only [strip, Node.setSubs, Node.name, Node.data, Node.index, Node.ctr, Node.kids, Node.subs] at *
  rw [h]

/-! ## `updateAt` / `nodeAt` -/

theorem updateAt_nil (fuel : Nat) (n : Node) (f : Node → Node) : updateAt fuel n [] f = f n := by
  cases fuel <;> simp [updateAt]

theorem updateAt_zero_cons (n : Node) (a : Bytes) (r : List Bytes) (f : Node → Node) : updateAt 0 n (a :: r) f = n := by
  simp [updateAt]

theorem updateAt_succ_cons (fuel : Nat) (n : Node) (a : Bytes) (r : List Bytes) (f : Node → Node) :
    updateAt (fuel + 1) n (a :: r) f =
      match findKid a n.kids with
      | none => n
      | some k => n.setKids (putKid (updateAt fuel k r f) n.kids) := by
  cases h : findKid a n.kids <;> simp [updateAt, h]

theorem nodeAt_nil (fuel : Nat) (n : Node) : nodeAt fuel n [] = some n := by
  cases fuel <;> simp [nodeAt]

theorem nodeAt_zero_cons (n : Node) (a : Bytes) (r : List Bytes) : nodeAt 0 n (a :: r) = none := by
  simp [nodeAt]

theorem nodeAt_succ_cons (fuel : Nat) (n : Node) (a : Bytes) (r : List Bytes) :
    nodeAt (fuel + 1) n (a :: r) =
      match findKid a n.kids with
      | none => none
      | some k => nodeAt fuel k r := by
  cases h : findKid a n.kids <;> simp [nodeAt, h]

theorem updateAt_name {f : Node → Node} (hf : ∀ n, (f n).name = n.name) (fuel : Nat) (n : Node) (path : List Bytes) :
    (updateAt fuel n path f).name = n.name := by
  cases path with
  | nil => rw [updateAt_nil]; exact hf n
  | cons a r =>
    cases fuel with
    | zero => rw [updateAt_zero_cons]
    | succ fuel =>
      rw [updateAt_succ_cons]
      split <;> rfl

/-- The key tree lemma.  `f` keeps node names; at `names`, either `path` is not a prefix of `names`
    (then the hypothesis is vacuous) or `f` is invisible through `strip` at the remaining suffix. -/
theorem nodeAt_updateAt (sid : Nat) {f : Node → Node} (hname : ∀ n, (f n).name = n.name) :
    ∀ (fuel : Nat) (n : Node) (path names : List Bytes),
      (∀ suffix, names = path ++ suffix → ∀ fuel' m,
          (nodeAt fuel' (f m) suffix).map (strip sid) = (nodeAt fuel' m suffix).map (strip sid)) →
      (nodeAt fuel (updateAt fuel n path f) names).map (strip sid) = (nodeAt fuel n names).map (strip sid) := by
  intro fuel
  induction fuel with
  | zero =>
    intro n path names h
    cases path with
    | nil => rw [updateAt_nil]; exact h names rfl 0 n
    | cons a r => rw [updateAt_zero_cons]
  | succ fuel ih =>
    intro n path names h
    cases path with
    | nil => rw [updateAt_nil]; exact h names rfl (fuel + 1) n
    | cons a r =>
      rw [updateAt_succ_cons]
      cases hk : findKid a n.kids with
      | none => rfl
      | some k =>
        simp only []
        have hkn : k.name = a := findKid_name hk
        have hk'n : (updateAt fuel k r f).name = a := by rw [updateAt_name hname]; exact hkn
        cases names with
        | nil =>
          simp only [nodeAt_nil, Option.map_some]
          congr 1
          apply strip_setKids
          apply map_name_putKid
          rw [hk'n, hk]; rfl
        | cons b rest =>
          rw [nodeAt_succ_cons, nodeAt_succ_cons, setKids_kids]
          by_cases hb : b = a
          · subst hb
            have : findKid b (putKid (updateAt fuel k r f) n.kids) = some (updateAt fuel k r f) := by
              have := findKid_putKid_same (updateAt fuel k r f) n.kids
              rw [hk'n] at this; exact this
            rw [this, hk]
            simp only []
            apply ih
            intro suffix hs
            apply h suffix
            simp [hs]
          · have : findKid b (putKid (updateAt fuel k r f) n.kids) = findKid b n.kids := by
              apply findKid_putKid_ne
              rw [hk'n]; exact fun e => hb e.symm
            rw [this]

/-- `updateAt` below `path` with a name-preserving `f` is invisible wherever `path` is not a prefix. -/
theorem nodeAt_updateAt_off (sid : Nat) {f : Node → Node} (hname : ∀ n, (f n).name = n.name)
    (fuel : Nat) (n : Node) (path names : List Bytes) (h : ¬ path <+: names) :
    (nodeAt fuel (updateAt fuel n path f) names).map (strip sid) = (nodeAt fuel n names).map (strip sid) := by
  apply nodeAt_updateAt sid hname
  intro suffix hs
  exact absurd ⟨suffix, hs.symm⟩ h

/-- An `f` that changes only `sid`'s own subscriber entry is invisible everywhere. -/
theorem nodeAt_updateAt_subs (sid : Nat) (g : List (Nat × Nat) → List (Nat × Nat))
    (hg : ∀ s, (g s).filter (fun p => p.1 ≠ sid) = s.filter (fun p => p.1 ≠ sid))
    (fuel : Nat) (n : Node) (path names : List Bytes) :
    (nodeAt fuel (updateAt fuel n path (fun m => m.setSubs (g m.subs))) names).map (strip sid)
      = (nodeAt fuel n names).map (strip sid) := by
  apply nodeAt_updateAt sid (f := fun m => m.setSubs (g m.subs)) (fun m => rfl)
  intro suffix _ fuel' m
  cases suffix with
  | nil =>
    simp only [nodeAt_nil, Option.map_some]
    congr 1
    exact strip_setSubs sid m _ (hg _)
  | cons b rest =>
    cases fuel' with
    | zero => simp [nodeAt_zero_cons]
    | succ fuel' => rw [nodeAt_succ_cons, nodeAt_succ_cons, setSubs_kids]

/-! ## `adjustSubs` touches only `sid`'s entry -/

theorem filter_ne_map_set (subs : List (Nat × Nat)) (sid : Nat) (g : Nat × Nat → Nat × Nat)
    (h1 : ∀ x, x.1 = sid → (g x).1 = sid) (h2 : ∀ x, x.1 ≠ sid → g x = x) :
    (subs.map g).filter (fun p => p.1 ≠ sid) = subs.filter (fun p => p.1 ≠ sid) := by
  induction subs with
  | nil => rfl
  | cons a r ih =>
    by_cases h : a.1 = sid
    · have := h1 a h
      simp only [List.map_cons, List.filter_cons, ih]
      simp [h, this]
    · have := h2 a h
      simp only [List.map_cons, List.filter_cons, ih, this]

theorem adjustSubs_eq (subs : List (Nat × Nat)) (sid : Nat) (delta : Option Int) :
    ∃ new : Nat, adjustSubs subs sid delta =
      if new > 0 then
        (if subs.any (fun (k, _) => k = sid) then subs.map (fun (k, c) => if k = sid then (k, new) else (k, c))
         else subs ++ [(sid, new)])
      else subs.filter (fun (k, _) => k ≠ sid) := ⟨_, rfl⟩

theorem adjustSubs_filter (subs : List (Nat × Nat)) (sid : Nat) (delta : Option Int) :
    (adjustSubs subs sid delta).filter (fun p => p.1 ≠ sid) = subs.filter (fun p => p.1 ≠ sid) := by
  obtain ⟨new, h⟩ := adjustSubs_eq subs sid delta
  rw [h]
  split
  · split
    · apply filter_ne_map_set
      · intro ⟨k, c⟩ hx; simp at hx; simp [hx]
      · intro ⟨k, c⟩ hx; simp at hx; simp [hx]
    · simp [List.filter_append]
  · simp [List.filter_filter]

theorem find?_filter_of_imp {α} (p q : α → Bool) (h : ∀ x, p x = true → q x = true) (l : List α) :
    (l.filter q).find? p = l.find? p := by
  induction l with
  | nil => rfl
  | cons a r ih =>
    by_cases hq : q a = true
    · simp only [List.filter_cons, hq, if_true, List.find?_cons, ih]
    · have hp : p a = false := by
        cases hpa : p a with
        | false => rfl
        | true => exact absurd (h a hpa) hq
      rw [List.filter_cons, if_neg hq, List.find?_cons, hp]; exact ih

/-- marks of any OTHER session are untouched by `adjustSubs _ sid _` -/
theorem adjustSubs_subCount_ne (subs : List (Nat × Nat)) (sid o : Nat) (delta : Option Int) (h : o ≠ sid) :
    subCount (adjustSubs subs sid delta) o = subCount subs o := by
  have hf := adjustSubs_filter subs sid delta
  have key : ∀ l : List (Nat × Nat), l.find? (fun (k, _) => k = o) = (l.filter (fun p => p.1 ≠ sid)).find? (fun (k, _) => k = o) := by
    intro l
    rw [find?_filter_of_imp]
    intro ⟨k, c⟩ hx
    simp at hx
    simp [hx, h]
  unfold subCount
  rw [key (adjustSubs subs sid delta), key subs, hf]

end Muscle.Reflector
