import MuscleModel.Reflector.MirrorProofs32

/-!
# C04 lemmas, part 33: runs with re-filter and the reflect-to-self parameter

* `refilterOK_of_rule`: `RefilterOK` is "the session reflects to itself or does not carry the indexing flag, and the path
  is held" — nothing about own nodes (the re-filter traversal skips them by `GetDataCallback`'s rule);
* `selfParam_quiescent`: the subscriber's own reflect-to-self parameter at a quiescent point, when it holds NO subscription
  or reflects to itself already: the mirror's specification does not change (the server sends no snapshot for the
  parameter, so with subscriptions present and own nodes matched the mirror would stay without them);
* `Run3` = `Run2` plus these two steps; `run3_step`, `converges_run3`.
-/

set_option linter.unusedSimpArgs false
set_option linter.unusedVariables false

namespace Muscle.Reflector
open Muscle Muscle.Eng.SrvEngine

theorem refilterOK_of_rule {sid : Nat} {sv : Server} (path : Bytes) (f : Option Filt)
    (h : ∀ s, sv.sess? sid = some s → (s.reflectSelf = true ∨ s.indexingPresent = false) ∧
      (pmFind s.subs (adjustPrefix path (some defaultPrefix))).isSome = true) : RefilterOK sid sv path f := h

/-! ## the reflect-to-self parameter -/

/-- the premise of the subscriber's own reflect-to-self parameter: no subscription at that moment, or the flag is set
    already -/
def SelfOK (sid : Nat) (sv : Server) : Prop := ∀ s, sv.sess? sid = some s → s.subs = [] ∨ s.reflectSelf = true

theorem matches_nosubs (sv : Server) {s : Sess} (h : s.subs = []) (p : Bytes) (d : Option Nat) : ¬ Matches sv s p d := by
  rintro ⟨v, n, _, _, _, _, hw, _⟩
  unfold wants pmMatchesPath at hw
  rw [h] at hw
  simp [pmGroup] at hw

theorem selfParam_quiescent {sid : Nat} {sv : Server} {s : Sess} {m : Mirror} (q : Quiescent sid sv s m)
    (hok : SelfOK sid sv) :
    ∃ s', Quiescent sid (runCmd sv sid .paramSelf) s' m ∧ dataLines s' = dataLines s ∧ s'.sid = s.sid ∧
      s'.subs = s.subs ∧ s'.reflectSelf = true := by
  have hs' : (runCmd sv sid .paramSelf).sess? sid = some (addParam { s with reflectSelf := true } selfName) :=
    sess?_updSess_same sv sid _ (by intro _; rfl) q.sess
  refine ⟨_, ⟨q.inv.runCmd sid .paramSelf trivial, hs', q.enabled, q.nothing, ?_⟩, rfl, rfl, rfl, rfl⟩
  have hroot : (runCmd sv sid .paramSelf).root = sv.root := rfl
  rcases hok s q.sess with h | h
  · intro p d
    constructor
    · intro hm; exact absurd ((q.mirror p d).1 hm) (matches_nosubs sv h p d)
    · intro hm; exact absurd hm (matches_nosubs _ (s := addParam { s with reflectSelf := true } selfName) h p d)
  · have : ∀ p d, Matches (runCmd sv sid .paramSelf) (addParam { s with reflectSelf := true } selfName) p d ↔
        Matches sv s p d := by
      intro p d
      unfold Matches visible wants
      show (∃ v n, v ≠ [] ∧ getNode (runCmd sv sid .paramSelf) v = some n ∧ pathString v = p ∧
          (decide (ownerName v ≠ some (sidName s.sid)) || true) = true ∧ pmMatchesPath s.subs v true n.data = true ∧ n.data = d) ↔ _
      rw [h]
      constructor
      · rintro ⟨v, n, h1, h2, h3⟩; exact ⟨v, n, h1, by rw [← getNode_congr hroot]; exact h2, h3⟩
      · rintro ⟨v, n, h1, h2, h3⟩; exact ⟨v, n, h1, by rw [getNode_congr hroot]; exact h2, h3⟩
    intro p d
    rw [this]; exact q.mirror p d

/-! ## runs -/

/-- `Run2` plus re-subscription of a held path with another filter (the engine's push follows) and the reflect-to-self
    parameter -/
inductive Run3 (sid : Nat) : Server → Server → Prop
  | run {a b : Server} : Run2 sid a b → Run3 sid a b
  | refilter {sv : Server} (path : Bytes) (f : Option Filt) : RefilterOK sid sv path f →
      Run3 sid sv (pushAll (runCmd sv sid (.sub path f)))
  | ownSelf {sv : Server} : SelfOK sid sv → Run3 sid sv (runCmd sv sid .paramSelf)
  | trans {a b c : Server} : Run3 sid a b → Run3 sid b c → Run3 sid a c

theorem run3_step {sid : Nat} {sv sv' : Server} (hr : Run3 sid sv sv') :
    ∀ {s : Sess} {m : Mirror}, Quiescent sid sv s m →
      ∃ s' items, Quiescent sid sv' s' (client m items) ∧
        dataLines s' = dataLines s ++ (msgsOf items).map dataText ∧ s'.sid = s.sid := by
  induction hr with
  | run h =>
    intro s m q
    obtain ⟨s', items, q', hd, hsid, _⟩ := run2_step h q
    exact ⟨s', items, q', hd, hsid⟩
  | refilter path f hok =>
    intro s m q
    obtain ⟨s', items, q', hd, hsid, _⟩ := refilter_quiescent q path f hok
    exact ⟨s', items, q', hd, hsid⟩
  | ownSelf hok =>
    intro s m q
    obtain ⟨s', q', hd, hsid, _, _⟩ := selfParam_quiescent q hok
    exact ⟨s', [], q', by simp [msgsOf, hd], hsid⟩
  | trans _ _ ih1 ih2 =>
    intro s m q
    obtain ⟨s1, it1, q1, hd1, hsid1⟩ := ih1 q
    obtain ⟨s2, it2, q2, hd2, hsid2⟩ := ih2 q1
    refine ⟨s2, it1 ++ it2, by rw [client_append]; exact q2, ?_, hsid2.trans hsid1⟩
    rw [msgsOf_append, List.map_append, ← List.append_assoc, ← hd1, hd2]

theorem converges_run3 {sid : Nat} {sv0 sv' : Server} (h0 : Inv2 sv0) {s0 : Sess} (hs0 : sv0.sess? sid = some s0)
    (hnos : s0.subs = []) (hen : s0.subsEnabled = true) (hq0 : pend s0 = {}) (hr : Run3 sid sv0 sv') :
    ∃ s' items, sv'.sess? sid = some s' ∧ pend s' = {} ∧
      dataLines s' = dataLines s0 ++ (msgsOf items).map dataText ∧
      MirrorOK sv' s' (client (fun _ => none) items) := by
  obtain ⟨s', items, q', hd, _⟩ := run3_step hr (quiescent_nosubs h0 hs0 hnos hen hq0)
  exact ⟨s', items, q'.sess, q'.nothing, hd, q'.mirror⟩

end Muscle.Reflector
