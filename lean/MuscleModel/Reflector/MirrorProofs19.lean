import MuscleModel.Reflector.MirrorProofs18

/-!
# C04 lemmas, part 19: the subscriber's own SUBSCRIBE of a NEW path (snapshot)

`subC sv sid path f` = the state `DoGetData` runs on inside `subscribe` (new entry put, reference counts adjusted, parameter
recorded); `subscribe_new_eq`.  `SnapVisits`: the visits of the snapshot traversal are exactly the existing nodes the new
entry matches (path and filter) that are visible to the subscriber — proved for sessions that reflect to themselves
(`snapVisits_reflectSelf`, from C05's theorem: `GetDataCallback` is then the continue-callback), a hypothesis otherwise.
`subscribe_new_replay`: the data lines appended to the inbox are the text of Messages `sent`, and a client that holds a
right mirror for the OLD subscription set holds, after applying them, a right mirror for the NEW one.
-/

set_option linter.unusedSimpArgs false
set_option linter.unusedVariables false

namespace Muscle.Reflector
open Muscle Muscle.Eng.SrvEngine

/-! ## `MatchesPath` after a new entry -/

theorem mr_pmGroup_single {fix : Bytes} (hne : fix ≠ []) (f : Option Filt) (k : Nat) :
    pmGroup (pmPut [] fix f) k =
      if k = (splitSlash fix).length then [{ path := fix, clauses := splitSlash fix, filter := f }] else [] := by
  rw [mr_pmPut_eq hne, mr_pmGroup_putGroup]
  split <;> simp [pmGroup, putEntry]

theorem mr_matches_put_new {pm : PM} {fix : Bytes} (hg : ∀ c ∈ splitSlash fix, c ≠ []) (hf : pmFind pm fix = none)
    (f : Option Filt) (v : List Bytes) (d : Option Nat) :
    pmMatchesPath (pmPut pm fix f) v true d =
      (pmMatchesPath pm v true d || pmMatchesPath (pmPut [] fix f) v true d) := by
  have hne := mr_good_ne_nil hg
  unfold pmMatchesPath
  rw [mr_pmGroup_single hne, mr_pmPut_eq hne, mr_pmGroup_putGroup]
  have hd := mr_pathDepth_good hg
  by_cases hv : v.length = (splitSlash fix).length
  · rw [if_pos hv, if_pos hv]
    have hnf := mr_notfound hf
    rw [hd] at hnf
    rw [mr_putEntry_new (e := { path := fix, clauses := splitSlash fix, filter := f }) hnf, hv, List.any_append]
  · rw [if_neg hv, if_neg hv]
    simp

/-! ## the state the snapshot runs on -/

def subC (sv : Server) (sid : Nat) (path : Bytes) (f : Option Filt) : Server :=
  (subscribeRefs (sv.updSess sid (fun s => { s with subs := pmPut s.subs (adjustPrefix path (some defaultPrefix)) f })) sid
    (pmPut [] (adjustPrefix path (some defaultPrefix)) none) (some 1)).updSess sid
    (fun s => { s with params := subParams s.params path })

/-- the subscriber's record in `subC` -/
def subSess (s : Sess) (path : Bytes) (f : Option Filt) : Sess :=
  { s with subs := pmPut s.subs (adjustPrefix path (some defaultPrefix)) f,
           params := subParams s.params path }

theorem subscribe_new_eq {sv : Server} {sid : Nat} {s : Sess} (hs : sv.sess? sid = some s) (path : Bytes) (f : Option Filt)
    (hf : pmFind s.subs (adjustPrefix path (some defaultPrefix)) = none)
    (hne : adjustPrefix path (some defaultPrefix) ≠ []) :
    subscribe sv sid path f = doGetData (subC sv sid path f) sid [(path, f)] := by
  unfold subscribe subC
  rw [hs]
  simp only [hf]
  have : (adjustPrefix path (some defaultPrefix)).isEmpty = false := by
    cases h : adjustPrefix path (some defaultPrefix) with
    | nil => exact absurd h hne
    | cons _ _ => rfl
  simp only [this, Bool.false_eq_true, if_false]

theorem foldl_setNode_sessions (g : Node → Node) (V : List (List Bytes)) (X : Server) :
    (V.foldl (fun sv v => setNode sv v g) X).sessions = X.sessions := by
  induction V generalizing X with
  | nil => rfl
  | cons v r ih => simp only [List.foldl_cons]; rw [ih]; rfl

theorem subC_sess {sv : Server} {sid : Nat} {s : Sess} (hs : sv.sess? sid = some s) (path : Bytes) (f : Option Filt) :
    (subC sv sid path f).sess? sid = some (subSess s path f) := by
  unfold subC subscribeRefs
  have h1 : (sv.updSess sid (fun s => { s with subs := pmPut s.subs (adjustPrefix path (some defaultPrefix)) f })).sess? sid =
      some { s with subs := pmPut s.subs (adjustPrefix path (some defaultPrefix)) f } := by
    refine sess?_updSess_same sv sid _ ?_ hs
    intro _; rfl
  have h2 : ∀ (V : List (List Bytes)) (X : Server) (x : Sess), X.sess? sid = some x →
      (V.foldl (fun sv v => setNode sv v (fun n => n.setSubs (adjustSubs n.subs sid (some 1)))) X).sess? sid = some x := by
    intro V X x hx
    unfold Server.sess? at hx ⊢
    rw [foldl_setNode_sessions]; exact hx
  have h3 := h2 (travGlobal (sv.updSess sid (fun s => { s with subs := pmPut s.subs (adjustPrefix path (some defaultPrefix)) f }))
    (pmPut [] (adjustPrefix path (some defaultPrefix)) none) false cbContinue) _ _ h1
  have := sess?_updSess_same _ sid (fun s => { s with params := subParams s.params path }) (by intro _; rfl) h3
  rw [this]; rfl

theorem subC_data (sv : Server) (sid : Nat) (path : Bytes) (f : Option Filt) (w : List Bytes) :
    (getNode (subC sv sid path f) w).map Node.data = (getNode sv w).map Node.data := by
  unfold subC subscribeRefs
  show (getNode (List.foldl _ _ _) w).map Node.data = _
  rw [mr_refs_data]
  rfl

/-! ## the visits of the snapshot traversal -/

/-- the snapshot traversal visits exactly the existing nodes the new entry matches (path and filter) that are visible
    to the subscriber -/
def SnapVisits (C : Server) (sC : Sess) (fix : Bytes) (f : Option Filt) : Prop :=
  ∀ v, v ∈ travGlobal C (pmPut [] fix f) true (getDataCb sC) ↔
    ∃ n, v ≠ [] ∧ getNode C v = some n ∧ pmMatchesPath (pmPut [] fix f) v true n.data = true ∧ visible sC v = true

theorem mr_visits_pm_f (sv : Server) (hti : TreeInv sv) {pm : PM} (hwf : SubsWF pm) (uf : Bool) :
    ∀ w, w ∈ travGlobal sv pm uf cbContinue ↔
      ∃ n, w ≠ [] ∧ getNode sv w = some n ∧ pmMatchesPath pm w uf n.data = true := by
  have hk := mr_kidsNodup_of_allNodes fuelDepth sv.root hti
  obtain ⟨h1, _⟩ := Muscle.Props.C05.traversal_eq_bruteforce pm uf 0 sv.root fuelDepth hwf.pmWF hwf.laws hk
  intro w
  unfold travGlobal
  rw [h1 w]
  unfold bruteForce
  simp only [List.mem_map, List.mem_filter]
  constructor
  · rintro ⟨⟨w', n⟩, ⟨hd, hP⟩, rfl⟩
    have := (mr_mem_descendants fuelDepth sv.root [] w' n hk).1 (by simpa using hd)
    exact ⟨n, this.1, this.2, hP⟩
  · rintro ⟨n, hw, hn, hP⟩
    have := (mr_mem_descendants fuelDepth sv.root [] w n hk).2 ⟨hw, hn⟩
    exact ⟨(w, n), ⟨by simpa using this, hP⟩, rfl⟩

/-- for a session that reflects to itself `GetDataCallback` is the continue-callback: C05 applies -/
theorem snapVisits_reflectSelf {C : Server} (hti : TreeInv C) {sC : Sess} (hr : sC.reflectSelf = true) {fix : Bytes}
    (hgood : GoodPath fix) (f : Option Filt) : SnapVisits C sC fix f := by
  have hcb : getDataCb sC = cbContinue := by
    funext names depth node
    simp [getDataCb, cbContinue, hr]
  intro v
  rw [hcb, mr_visits_pm_f C hti (mr_single_wf hgood f) true v]
  have hvis : visible sC v = true := by simp [visible, hr]
  constructor
  · rintro ⟨n, h1, h2, h3⟩; exact ⟨n, h1, h2, h3, hvis⟩
  · rintro ⟨n, h1, h2, h3, _⟩; exact ⟨n, h1, h2, h3⟩

/-! ## the theorem -/

theorem pmOfKeys_single (path : Bytes) (f : Option Filt) :
    pmOfKeys [(path, f)] (some defaultPrefix) = pmPut [] (adjustPrefix path (some defaultPrefix)) f := rfl

/-- SUBSCRIBE of a new path by `sid` itself: the data lines of its inbox grow by the text of Messages `sent`; nothing
    else of the session changes but `subs`/`params` (`subSess`); a right mirror for the old subscription set becomes,
    after applying `sent`, a right mirror for the new one. -/
theorem subscribe_new_replay {sv : Server} (hinv : Inv sv) {sid : Nat} {s : Sess} (hs : sv.sess? sid = some s) (path : Bytes)
    (f : Option Filt) (hgood : GoodPath (adjustPrefix path (some defaultPrefix)))
    (hf : pmFind s.subs (adjustPrefix path (some defaultPrefix)) = none)
    (hV : SnapVisits (subC sv sid path f) (subSess s path f) (adjustPrefix path (some defaultPrefix)) f)
    (m : Mirror) (hm : MirrorOK sv s m) :
    ∃ sD sent, (subscribe sv sid path f).sess? sid = some sD ∧ sD.core = (subSess s path f).core ∧
      sD.nextData = s.nextData ∧ dataLines sD = dataLines s ++ sent.map dataText ∧
      MirrorOK (subscribe sv sid path f) sD (applyMsgs m sent) := by
  have hne := mr_good_ne_nil hgood.1
  rw [subscribe_new_eq hs path f hf hne]
  generalize hC : subC sv sid path f = C at hV
  have hsC : C.sess? sid = some (subSess s path f) := by rw [← hC]; exact subC_sess hs path f
  have hdata : ∀ w, (getNode C w).map Node.data = (getNode sv w).map Node.data := by
    intro w; rw [← hC]; exact subC_data sv sid path f w
  generalize hsCdef : subSess s path f = sC at hV hsC
  have hsubs : sC.subs = pmPut s.subs (adjustPrefix path (some defaultPrefix)) f := by rw [← hsCdef]; rfl
  have hsid : sC.sid = s.sid := by rw [← hsCdef]; rfl
  have hrs : sC.reflectSelf = s.reflectSelf := by rw [← hsCdef]; rfl
  have hnd : sC.nextData = s.nextData := by rw [← hsCdef]; rfl
  have hdl : dataLines sC = dataLines s := by rw [← hsCdef]; rfl
  obtain ⟨sent, ⟨hroot, sD, hsD, hcD, hnD, hdD⟩, hview⟩ := doGetData_replay C sid sC hsC [(path, f)] m
  rw [pmOfKeys_single] at hview
  refine ⟨sD, sent, hsD, hcD, hnD.trans hnd, by rw [hdD, hdl], ?_⟩
  -- the spec on `C` for `sC`, then transfer
  have hNS : NS C := by
    rw [← hC]
    unfold subC
    rw [ns_updSess]
    unfold subscribeRefs
    exact NS.refs _ _ _ ((ns_updSess _ _ _).2 hinv.2.2)
  have key : MirrorOK C sC (applyMsgs m sent) := by
    rw [hview]
    unfold SnapVisits at hV
    generalize hvs : travGlobal C (pmPut [] (adjustPrefix path (some defaultPrefix)) f) true (getDataCb sC) = vs at hV
    have hvis : ∀ v, visible sC v = visible s v := by intro v; unfold visible; rw [hsid, hrs]
    have hwants : ∀ v d, wants sC v d =
        (wants s v d || pmMatchesPath (pmPut [] (adjustPrefix path (some defaultPrefix)) f) v true d) := by
      intro v d
      unfold wants
      rw [hsubs]
      exact mr_matches_put_new hgood.1 hf f v d
    intro p d
    by_cases hhit : ∃ v ∈ vs, ∃ n, getNode C v = some n ∧ pathString v = p
    · obtain ⟨v, hv, n, hn, hp⟩ := hhit
      obtain ⟨n', _, hn', hmatch, hvv⟩ := (hV v).1 hv
      have hnn : n' = n := by rw [hn] at hn'; exact (Option.some.inj hn').symm
      subst hnn
      have huniq : ∀ w n2, getNode C w = some n2 → pathString w = p → w = v := by
        intro w n2 hw hpw
        exact pathString_inj w v (hNS.names hw) (hNS.names hn) (hpw.trans hp.symm)
      rw [foldSets_hit C vs m p n'.data
        (fun w _ n2 hw hpw => by have := huniq w n2 hw hpw; subst this; rw [hn] at hw; cases hw; rfl)
        ⟨v, hv, n', hn, hp⟩]
      constructor
      · intro h
        have hd : n'.data = d := Option.some.inj h
        refine ⟨v, n', ?_, hn, hp, hvv, ?_, hd⟩
        · obtain ⟨_, h0, _⟩ := (hV v).1 hv; exact h0
        · rw [hwants, hmatch]; simp
      · rintro ⟨w, n2, _, hw, hpw, _, _, hd⟩
        have := huniq w n2 hw hpw
        subst this
        rw [hn] at hw; cases hw
        rw [hd]
    · rw [foldSets_other C vs m p (by
        intro v hv hsome e
        obtain ⟨n, hn⟩ := Option.isSome_iff_exists.1 hsome
        exact hhit ⟨v, hv, n, hn, e⟩)]
      rw [hm p d]
      constructor
      · rintro ⟨w, n0, hw0, hn0, hpw, hvw, hww, hd⟩
        have := hdata w
        rw [hn0] at this
        cases hc : getNode C w with
        | none => rw [hc] at this; simp at this
        | some n2 =>
          rw [hc] at this
          simp only [Option.map_some, Option.some.injEq] at this
          refine ⟨w, n2, hw0, hc, hpw, by rw [hvis]; exact hvw, ?_, by rw [this]; exact hd⟩
          rw [hwants, this, hww]; simp
      · rintro ⟨w, n2, hw0, hc, hpw, hvw, hww, hd⟩
        have := hdata w
        rw [hc] at this
        cases hn0 : getNode sv w with
        | none => rw [hn0] at this; simp at this
        | some n0 =>
          rw [hn0] at this
          simp only [Option.map_some, Option.some.injEq] at this
          refine ⟨w, n0, hw0, hn0, hpw, by rw [← hvis]; exact hvw, ?_, by rw [← this]; exact hd⟩
          rw [hwants] at hww
          have hor : wants s w n2.data = true ∨
              pmMatchesPath (pmPut [] (adjustPrefix path (some defaultPrefix)) f) w true n2.data = true := by
            simpa using hww
          rcases hor with h1 | h1
          · rw [← this]; exact h1
          · exact absurd ⟨w, (hV w).2 ⟨n2, hw0, hc, h1, hvw⟩, n2, hc, hpw⟩ hhit
  -- transfer to the state after `DoGetData` and the session record there
  intro p d
  rw [matches_core (vcore_of_core hcD), matches_congr (a := C) (b := doGetData C sid [(path, f)])
    (fun w => by rw [getNode_congr hroot]) sC p d]
  exact key p d

end Muscle.Reflector
