import MuscleModel.Reflector.MirrorProofs2

/-!
# C04 lemmas, part 3: the marking invariant and the primitives that keep it

* `sessKeys sv` = (session id, subscription matcher) of every attached session, in attach order; `skel sv` = that and
  the id counter: everything the invariant reads of the session table.  Notifications never change it.
* `expCount ss sid v` = the number of subscription entries of session `sid` whose clauses match the path `v`
  (`pmMatchCount`), 0 for an id that is not attached.
* `MarksOK root ss`: every node below the root carries exactly those counts, in a table with pairwise distinct ids
  and no zero entry.
* `MK sv` = `SessOK sv ∧ MarksOK sv.root (sessKeys sv)`; `SessOK`: ids pairwise distinct, below the counter, every
  matcher `SubsWF`.
-/

set_option linter.unusedSimpArgs false
set_option linter.unusedVariables false

namespace Muscle.Reflector
open Muscle

def sessKeys (sv : Server) : List (Nat × PM) := sv.sessions.map (fun s => (s.sid, s.subs))

def skel (sv : Server) : Nat × List (Nat × PM) := (sv.nextSid, sessKeys sv)

def expCount (ss : List (Nat × PM)) (sid : Nat) (path : List Bytes) : Nat :=
  match ss.find? (fun p => p.1 = sid) with
  | some p => pmMatchCount p.2 path
  | none => 0

/-- a subscriber table: ids pairwise distinct, no zero entry -/
def TabOK (subs : List (Nat × Nat)) : Prop := (subs.map (·.1)).Nodup ∧ ∀ p ∈ subs, 0 < p.2

def MarksOK (root : Node) (ss : List (Nat × PM)) : Prop :=
  ∀ v n, v ≠ [] → nodeAt fuelDepth root v = some n →
    (∀ sid, subCount n.subs sid = expCount ss sid v) ∧ TabOK n.subs

structure SessOK (sv : Server) : Prop where
  nodup : ((sessKeys sv).map (·.1)).Nodup
  bound : ∀ p ∈ sessKeys sv, p.1 < sv.nextSid
  wf : ∀ p ∈ sessKeys sv, SubsWF p.2

def MK (sv : Server) : Prop := SessOK sv ∧ MarksOK sv.root (sessKeys sv)

/-! ## `skel` of the primitives -/

theorem mr_foldl_skel {α} (f : Server → α → Server) (h : ∀ sv x, skel (f sv x) = skel sv) (xs : List α) (sv : Server) :
    skel (xs.foldl f sv) = skel sv := by
  induction xs generalizing sv with
  | nil => rfl
  | cons x r ih => simp only [List.foldl_cons]; rw [ih, h]

theorem mr_skel_updSess (sv : Server) (sid : Nat) (f : Sess → Sess) (hf : ∀ t, (f t).sid = t.sid ∧ (f t).subs = t.subs) :
    skel (sv.updSess sid f) = skel sv := by
  simp only [skel, sessKeys, Server.updSess, List.map_map, Prod.mk.injEq, true_and]
  apply List.map_congr_left
  intro t _
  simp only [Function.comp]
  split
  · rw [(hf t).1, (hf t).2]
  · rfl

@[simp] theorem mr_skel_deliver (sv : Server) (sid : Nat) (w : String) : skel (sv.deliver sid w) = skel sv :=
  mr_skel_updSess sv sid _ (fun _ => ⟨rfl, rfl⟩)

@[simp] theorem mr_skel_dirty (sv : Server) (b : Bool) : skel { sv with subsDirty := b } = skel sv := rfl

@[simp] theorem mr_skel_setNode (sv : Server) (p : List Bytes) (f : Node → Node) : skel (setNode sv p f) = skel sv := rfl

@[simp] theorem mr_skel_pushOnce (sv : Server) : skel (pushOnce sv) = skel sv := by
  simp only [skel, sessKeys, pushOnce, List.map_map, Prod.mk.injEq, true_and]
  apply List.map_congr_left
  intro t _
  simp only [Function.comp]
  cases h1 : t.nextData <;> cases h2 : t.nextIdx <;> simp [h1, h2]

@[simp] theorem mr_skel_pushAll (sv : Server) : skel (pushAll sv) = skel sv := by
  unfold pushAll; split <;> simp

/-- a relation form that chains: `skel` is kept -/
def SameSkel (a b : Server) : Prop := skel b = skel a

theorem SameSkel.refl (a : Server) : SameSkel a a := rfl
theorem SameSkel.trans {a b c : Server} (h1 : SameSkel a b) (h2 : SameSkel b c) : SameSkel a c :=
  Eq.trans h2 h1

theorem mr_nodeChangedAux_same (sv : Server) (sid : Nat) (np : Bytes) (d : Option Nat) (removed : Bool) :
    SameSkel sv (nodeChangedAux sv sid np d removed) := by
  unfold nodeChangedAux
  split
  · exact SameSkel.refl sv
  · rename_i s hs
    simp only []
    have upd : ∀ (a : Server) (g : Sess → Sess), (∀ t, (g t).sid = t.sid ∧ (g t).subs = t.subs) →
        SameSkel a (a.updSess sid g) := fun a g hg => mr_skel_updSess a sid g hg
    have tail : ∀ (a b : Server), SameSkel a b →
        SameSkel a (match b.sess? sid with
          | none => b
          | some s => match s.nextData with
            | some m => if m.numNames ≥ s.maxItems then pushAll b else b
            | none => b) := by
      intro a b hab
      split
      · exact hab
      · split
        · split
          · exact hab.trans (mr_skel_pushAll b)
          · exact hab
        · exact hab
    apply tail
    split
    · split
      · refine SameSkel.trans ?_ (mr_skel_dirty _ true)
        refine SameSkel.trans ?_ (upd _ _ (by intro _; exact ⟨rfl, rfl⟩))
        refine SameSkel.trans ?_ (mr_skel_pushAll _)
        refine SameSkel.trans ?_ (upd _ _ (by intro _; exact ⟨rfl, rfl⟩))
        exact mr_skel_dirty sv true
      · exact SameSkel.trans (mr_skel_dirty sv true) (upd _ _ (by intro _; exact ⟨rfl, rfl⟩))
    · exact SameSkel.trans (mr_skel_dirty sv true) (upd _ _ (by intro _; exact ⟨rfl, rfl⟩))

@[simp] theorem mr_skel_nodeChangedAux (sv : Server) (sid : Nat) (np : Bytes) (d : Option Nat) (removed : Bool) :
    skel (nodeChangedAux sv sid np d removed) = skel sv := mr_nodeChangedAux_same sv sid np d removed

@[simp] theorem mr_skel_nodeChanged (sv : Server) (sid : Nat) (names : List Bytes) (nd : Option Nat)
    (od : Option (Option Nat)) (removed : Bool) : skel (nodeChanged sv sid names nd od removed) = skel sv := by
  unfold nodeChanged
  split
  · rfl
  · simp only
    repeat' split
    all_goals simp

@[simp] theorem mr_skel_notifyChanged (sv : Server) (by_ : Nat) (names : List Bytes) (node : Node)
    (od : Option (Option Nat)) (removed : Bool) : skel (notifyChanged sv by_ names node od removed) = skel sv := by
  unfold notifyChanged
  apply mr_foldl_skel
  intro sv x
  repeat' split
  all_goals simp

@[simp] theorem mr_skel_notifyIndex (sv : Server) (names : List Bytes) (node : Node) (instr : Bytes) :
    skel (notifyIndex sv names node instr) = skel sv := by
  unfold notifyIndex
  apply mr_foldl_skel
  intro sv x
  repeat' split
  all_goals first
    | rfl
    | (show skel { (Server.updSess _ _ _) with subsDirty := true } = _
       rw [mr_skel_dirty]; exact mr_skel_updSess _ _ _ (fun _ => ⟨rfl, rfl⟩))

/-! ## `expCount` -/

theorem mr_expCount_of_mem {ss : List (Nat × PM)} (hnd : (ss.map (·.1)).Nodup) {p : Nat × PM} (hp : p ∈ ss)
    (v : List Bytes) : expCount ss p.1 v = pmMatchCount p.2 v := by
  unfold expCount
  have : ss.find? (fun q => q.1 = p.1) = some p := by
    induction ss with
    | nil => cases hp
    | cons a r ih =>
      simp only [List.map_cons, List.nodup_cons] at hnd
      rcases List.mem_cons.1 hp with rfl | hp
      · simp
      · have : a.1 ≠ p.1 := fun e => hnd.1 (e ▸ List.mem_map_of_mem hp)
        simp only [List.find?_cons, this, decide_false]
        exact ih hnd.2 hp
  rw [this]

theorem mr_expCount_not_mem {ss : List (Nat × PM)} {sid : Nat} (h : sid ∉ ss.map (·.1)) (v : List Bytes) :
    expCount ss sid v = 0 := by
  unfold expCount
  have : ss.find? (fun q => q.1 = sid) = none := by
    rw [List.find?_eq_none]
    intro x hx
    simp only [decide_eq_true_eq]
    intro e; exact h (e ▸ List.mem_map_of_mem hx)
  rw [this]

/-! ## `MarksOK` under the tree primitives -/

theorem mr_marks_of_sub {root root' : Node} {ss : List (Nat × PM)} (h : MarksOK root ss)
    (hsub : ∀ v n', v ≠ [] → nodeAt fuelDepth root' v = some n' →
      ∃ n, nodeAt fuelDepth root v = some n ∧ n.subs = n'.subs) : MarksOK root' ss := by
  intro v n' hv hn'
  obtain ⟨n, hn, hs⟩ := hsub v n' hv hn'
  rw [← hs]
  exact h v n hv hn

/-- `f` keeps names, children and subscriber tables (payload, index, counter updates) -/
theorem mr_marks_setField {root : Node} {ss : List (Nat × PM)} (path : List Bytes) (f : Node → Node)
    (hname : ∀ n, (f n).name = n.name) (hkids : ∀ n, (f n).kids = n.kids) (hsubs : ∀ n, (f n).subs = n.subs)
    (h : MarksOK root ss) : MarksOK (updateAt fuelDepth root path f) ss := by
  apply mr_marks_of_sub h
  intro v n' _ hn'
  have := nodeAt_updateAt_subsAt hname hkids fuelDepth root path v
  rw [hn'] at this
  cases ho : nodeAt fuelDepth root v with
  | none => rw [ho] at this; simp at this
  | some n =>
    rw [ho] at this
    simp only [Option.map_some, Option.some.injEq, hsubs, ite_self] at this
    exact ⟨n, rfl, this.symm⟩

theorem mr_nodeAt_leaf {c : Node} (hc : c.kids = []) (k : Nat) (r : List Bytes) {n : Node}
    (h : nodeAt k c r = some n) : r = [] ∧ n = c := by
  cases r with
  | nil => rw [nodeAt_nil] at h; cases h; exact ⟨rfl, rfl⟩
  | cons b r' =>
    cases k with
    | zero => simp [nodeAt_zero_cons] at h
    | succ k => rw [nodeAt_succ_cons, hc] at h; simp [findKid] at h

/-- reads after `PutChild` of a leaf: the new child, or a node that was there before -/
theorem mr_nodeAt_putKid {root : Node} (parent : List Bytes) (child : Node) (hc : child.kids = [])
    (v : List Bytes) (n' : Node)
    (h : nodeAt fuelDepth (updateAt fuelDepth root parent (fun p => p.setKids (putKid child p.kids))) v = some n') :
    (v = parent ++ [child.name] ∧ n' = child) ∨ (∃ n, nodeAt fuelDepth root v = some n ∧ n.subs = n'.subs ∧ n.data = n'.data) := by
  by_cases hp : parent <+: v
  · obtain ⟨ext, rfl⟩ := hp
    rw [mr_nodeAt_updateAt_below (by intro _; rfl)] at h
    cases ht : nodeAt fuelDepth root parent with
    | none => rw [ht] at h; cases h
    | some t =>
      rw [ht] at h
      simp only [Option.bind_some] at h
      cases ext with
      | nil =>
        rw [nodeAt_nil] at h; cases h
        right
        exact ⟨t, by simpa using ht, rfl, rfl⟩
      | cons b r =>
        cases hk : fuelDepth - parent.length with
        | zero => rw [hk, nodeAt_zero_cons] at h; cases h
        | succ k =>
          rw [hk, nodeAt_succ_cons, setKids_kids] at h
          by_cases hb : b = child.name
          · subst hb
            rw [findKid_putKid_same] at h
            simp only [] at h
            obtain ⟨hr, hn⟩ := mr_nodeAt_leaf hc k r h
            subst hr hn
            left; exact ⟨rfl, rfl⟩
          · rw [findKid_putKid_ne (fun e => hb e.symm)] at h
            right
            refine ⟨n', ?_, rfl, rfl⟩
            rw [mr_nodeAt_append, ht]
            simp only [Option.bind_some]
            rw [hk, nodeAt_succ_cons]
            exact h
  · right
    have := mr_nodeAt_updateAt_off (fun n => (n.subs, n.data)) (by intro _ _; rfl)
      (f := fun p => p.setKids (putKid child p.kids)) (by intro _; rfl) fuelDepth root parent v hp
    rw [h] at this
    cases ho : nodeAt fuelDepth root v with
    | none => rw [ho] at this; simp at this
    | some n =>
      rw [ho] at this
      simp only [Option.map_some, Option.some.injEq, Prod.mk.injEq] at this
      exact ⟨n, rfl, this.1.symm, this.2.symm⟩

/-- reads after the removal of a child: a node that was there before (sibling names distinct at the parent) -/
theorem mr_nodeAt_removeKid {root : Node} (hti : AllNodes NodeInv root) (parent : List Bytes) (key : Bytes)
    (v : List Bytes) (n' : Node)
    (h : nodeAt fuelDepth (updateAt fuelDepth root parent (fun p => p.setKids (removeKid key p.kids))) v = some n') :
    ¬ (parent ++ [key]) <+: v ∧ ∃ n, nodeAt fuelDepth root v = some n ∧ n.subs = n'.subs ∧ n.data = n'.data := by
  by_cases hp : parent <+: v
  · obtain ⟨ext, rfl⟩ := hp
    rw [mr_nodeAt_updateAt_below (by intro _; rfl)] at h
    cases ht : nodeAt fuelDepth root parent with
    | none => rw [ht] at h; cases h
    | some t =>
      rw [ht] at h
      simp only [Option.bind_some] at h
      cases ext with
      | nil =>
        rw [nodeAt_nil] at h; cases h
        refine ⟨?_, t, by simpa using ht, rfl, rfl⟩
        intro hpre
        have := hpre.length_le
        simp at this
        omega
      | cons b r =>
        cases hk : fuelDepth - parent.length with
        | zero => rw [hk, nodeAt_zero_cons] at h; cases h
        | succ k =>
          rw [hk, nodeAt_succ_cons, setKids_kids] at h
          have hdist : (t.kids.map Node.name).Nodup := (AllNodes.nodeAt hti ht).here.2
          by_cases hb : b = key
          · subst hb
            rw [findKid_removeKid_nodup b t.kids hdist] at h
            cases h
          · rw [findKid_removeKid_ne hb] at h
            refine ⟨?_, n', ?_, rfl, rfl⟩
            · intro hpre
              obtain ⟨u, hu⟩ := hpre
              simp only [List.append_assoc, List.singleton_append] at hu
              have := List.append_cancel_left hu
              simp only [List.cons.injEq] at this
              exact hb this.1.symm
            · rw [mr_nodeAt_append, ht]
              simp only [Option.bind_some]
              rw [hk, nodeAt_succ_cons]
              exact h
  · have := mr_nodeAt_updateAt_off (fun n => (n.subs, n.data)) (by intro _ _; rfl)
      (f := fun p => p.setKids (removeKid key p.kids)) (by intro _; rfl) fuelDepth root parent v hp
    rw [h] at this
    refine ⟨fun hpre => hp ((List.prefix_append _ _).trans hpre), ?_⟩
    cases ho : nodeAt fuelDepth root v with
    | none => rw [ho] at this; simp at this
    | some n =>
      rw [ho] at this
      simp only [Option.map_some, Option.some.injEq, Prod.mk.injEq] at this
      exact ⟨n, rfl, this.1.symm, this.2.symm⟩

/-! ## the table `NodeCreated` builds -/

theorem TabOK.nil : TabOK [] := ⟨by simp, by simp⟩

theorem TabOK.adjust {subs : List (Nat × Nat)} (h : TabOK subs) (sid : Nat) (delta : Option Int) :
    TabOK (adjustSubs subs sid delta) := by
  refine ⟨mr_adjustSubs_keys_nodup subs sid delta h.1, ?_⟩
  obtain ⟨new, he⟩ := adjustSubs_eq subs sid delta
  rw [he]
  intro p hp
  split at hp
  · rename_i hnew
    split at hp
    · obtain ⟨⟨k, c⟩, hx, hxp⟩ := List.mem_map.1 hp
      simp only at hxp
      split at hxp
      · subst hxp; exact hnew
      · subst hxp; exact h.2 _ hx
    · rcases List.mem_append.1 hp with hp | hp
      · exact h.2 p hp
      · simp at hp; subst hp; exact hnew
  · exact h.2 p (List.mem_filter.1 hp).1

theorem mr_marksFold (ss : List Sess) (names : List Bytes) (acc : List (Nat × Nat)) (sid : Nat) :
    subCount (ss.foldl (fun acc s => adjustSubs acc s.sid (some (pmMatchCount s.subs names : Nat))) acc) sid =
      subCount acc sid + ((ss.filter (fun s => s.sid = sid)).map (fun s => pmMatchCount s.subs names)).sum := by
  induction ss generalizing acc with
  | nil => simp
  | cons s r ih =>
    simp only [List.foldl_cons]
    rw [ih, mr_subCount_adjust, List.filter_cons]
    by_cases h : s.sid = sid
    · subst h
      simp only [if_true, decide_true, List.map_cons, List.sum_cons, mr_adjNew_add]
      omega
    · have : ¬ sid = s.sid := fun e => h e.symm
      simp only [this, if_false, h, decide_false]
      simp

theorem mr_marksFold_tab (ss : List Sess) (names : List Bytes) (acc : List (Nat × Nat)) (h : TabOK acc) :
    TabOK (ss.foldl (fun acc s => adjustSubs acc s.sid (some (pmMatchCount s.subs names : Nat))) acc) := by
  induction ss generalizing acc with
  | nil => exact h
  | cons s r ih => simp only [List.foldl_cons]; exact ih _ (h.adjust _ _)

theorem mr_marksForNewNode (sv : Server) (hnd : ((sessKeys sv).map (·.1)).Nodup) (names : List Bytes) (sid : Nat) :
    subCount (marksForNewNode sv names) sid = expCount (sessKeys sv) sid names := by
  unfold marksForNewNode
  rw [mr_marksFold, mr_subCount_nil, Nat.zero_add]
  unfold expCount sessKeys
  unfold sessKeys at hnd
  generalize sv.sessions = ss at hnd
  induction ss with
  | nil => simp
  | cons s r ih =>
    simp only [List.map_cons, List.nodup_cons, List.map_map] at hnd
    rw [List.filter_cons]
    by_cases h : s.sid = sid
    · subst h
      have hr : r.filter (fun t => t.sid = s.sid) = [] := by
        rw [List.filter_eq_nil_iff]
        intro t ht
        simp only [decide_eq_true_eq]
        intro e
        apply hnd.1
        rw [← e]
        exact List.mem_map.2 ⟨t, ht, rfl⟩
      simp [hr]
    · simp only [h, decide_false, Bool.false_eq_true, if_false, List.map_cons, List.find?_cons]
      apply ih
      simpa [List.map_map] using hnd.2

theorem mr_marksForNewNode_tab (sv : Server) (names : List Bytes) : TabOK (marksForNewNode sv names) := by
  unfold marksForNewNode
  exact mr_marksFold_tab _ _ _ TabOK.nil

end Muscle.Reflector
