import MuscleModel.Reflector.FrameProofs5

/-!
# Frame lemmas, part 6: the victim's view — histories of commands of ANY other sessions
-/

set_option linter.unusedSimpArgs false
set_option linter.unusedVariables false

namespace Muscle.Reflector
open Muscle

/-- everything about a node that concerns session `o`: name, payload, index, counter, the names of the children
    in order, and `o`'s own reference count on it -/
structure VNode where
  name : Bytes
  data : Option Nat
  index : List Bytes
  ctr : Nat
  kidNames : List Bytes
  mark : Nat

def stripV (o : Nat) (n : Node) : VNode :=
  { name := n.name, data := n.data, index := n.index, ctr := n.ctr, kidNames := n.kids.map Node.name,
    mark := subCount n.subs o }

theorem stripV_of_strip {sid o : Nat} (h : o ≠ sid) {n n' : Node} (hs : strip sid n' = strip sid n) :
    stripV o n' = stripV o n := by
  have h1 : n'.name = n.name := congrArg Stripped.name hs
  have h2 : n'.data = n.data := congrArg Stripped.data hs
  have h3 : n'.index = n.index := congrArg Stripped.index hs
  have h4 : n'.ctr = n.ctr := congrArg Stripped.ctr hs
  have h5 : n'.kids.map Node.name = n.kids.map Node.name := congrArg Stripped.kidNames hs
  have h6 := subCount_of_strip h hs
  simp only [stripV, h1, h2, h3, h4, h5, h6]

/-- what must stay of session `t` when sessions other than `o` act: identity always, everything but the
    notification state when `t` is `o` -/
def Sess.viewV (o : Nat) (t : Sess) : Nat × Nat × Bytes × Option Sess :=
  (t.slot, t.sid, t.host, if t.sid = o then some t.core else none)

theorem Sess.viewV_of_view {sid o : Nat} (h : o ≠ sid) (t : Sess) :
    Sess.viewV o t = (fun c : Sess => (c.slot, c.sid, c.host, if c.sid = o then some c else none)) (Sess.view sid t) := by
  unfold Sess.viewV Sess.view
  by_cases ht : t.sid = sid
  · have : ¬ t.sid = o := by rw [ht]; exact fun e => h e.symm
    have hso : ¬ sid = o := fun e => h e.symm
    simp [ht, hso]
  · simp [ht, Sess.core]

theorem map_viewV_of_view {sid o : Nat} (h : o ≠ sid) {l l' : List Sess}
    (hv : l'.map (Sess.view sid) = l.map (Sess.view sid)) : l'.map (Sess.viewV o) = l.map (Sess.viewV o) := by
  have e : ∀ l : List Sess, l.map (Sess.viewV o) =
      (l.map (Sess.view sid)).map (fun c : Sess => (c.slot, c.sid, c.host, if c.sid = o then some c else none)) := by
    intro l
    rw [List.map_map]
    apply List.map_congr_left
    intro t _
    exact Sess.viewV_of_view h t
  rw [e l', e l, hv]

/-- session `o`, owner of the subtree below `ownO`, is untouched -/
def Untouched (o : Nat) (ownO : List Bytes) (sv sv' : Server) : Prop :=
  (∀ names, ownO <+: names → (getNode sv' names).map (stripV o) = (getNode sv names).map (stripV o))
  ∧ sv'.sessions.map (Sess.viewV o) = sv.sessions.map (Sess.viewV o)

theorem Untouched.refl (o : Nat) (ownO : List Bytes) (sv : Server) : Untouched o ownO sv sv := ⟨fun _ _ => rfl, rfl⟩

theorem Untouched.trans {o : Nat} {ownO : List Bytes} {a b c : Server}
    (h1 : Untouched o ownO a b) (h2 : Untouched o ownO b c) : Untouched o ownO a c :=
  ⟨fun names hn => (h2.1 names hn).trans (h1.1 names hn), h2.2.trans h1.2⟩

theorem map_stripV_of_strip {sid o : Nat} (h : o ≠ sid) {x y : Option Node}
    (hs : x.map (strip sid) = y.map (strip sid)) : x.map (stripV o) = y.map (stripV o) := by
  cases x <;> cases y <;> simp only [Option.map_some, Option.map_none, Option.some.injEq, reduceCtorEq] at hs ⊢
  exact stripV_of_strip h hs

theorem untouched_of_onlyOwn {sid o : Nat} {own ownO : List Bytes} {sv sv' : Server} (h : o ≠ sid)
    (hl : own.length = ownO.length) (hne : ownO ≠ own) (H : OnlyOwn sid own sv sv') : Untouched o ownO sv sv' :=
  ⟨fun names hn => map_stripV_of_strip h (H.1 names (not_prefix_of_other hl hne hn)), map_viewV_of_view h H.2⟩

theorem untouched_of_root {sid o : Nat} {ownO : List Bytes} {sv sv' : Server} (h : o ≠ sid)
    (hr : sv'.root = sv.root) (hv : sv'.sessions.map (Sess.view sid) = sv.sessions.map (Sess.view sid)) :
    Untouched o ownO sv sv' :=
  ⟨fun names _ => by simp only [getNode, hr], map_viewV_of_view h hv⟩

/-- session identities (id ↦ owned path) are the same in two states -/
def SameIdent (sv sv' : Server) : Prop := ∀ tid, (sv'.sess? tid).map sessNames = (sv.sess? tid).map sessNames

theorem sameIdent_of_view {sid : Nat} {sv sv' : Server}
    (h : sv'.sessions.map (Sess.view sid) = sv.sessions.map (Sess.view sid)) : SameIdent sv sv' := by
  intro tid
  have e : ∀ l : List Sess, (l.find? (fun s => s.sid = tid)).map (Sess.view sid)
      = (l.map (Sess.view sid)).find? (fun w => w.sid = tid) := by
    intro l
    rw [List.find?_map]
    congr 2
    funext a
    simp only [Function.comp, Sess.view_sid]
  have h' : (sv'.sess? tid).map (Sess.view sid) = (sv.sess? tid).map (Sess.view sid) := by
    unfold Server.sess?
    rw [e, e, h]
  have e2 : ∀ x : Option Sess, x.map sessNames = (x.map (Sess.view sid)).map sessNames := by
    intro x
    cases x with
    | none => rfl
    | some t => simp only [Option.map_some, sessNames, Sess.view_sid, Sess.view_host]
  rw [e2, e2 (sv.sess? tid), h']

/-- what the victim's session keeps: identity always, everything but the notification state when it is `o` -/
def VictimKept (o : Nat) (t t' : Sess) : Prop :=
  t'.sid = t.sid ∧ t'.host = t.host ∧ t'.slot = t.slot ∧ (t.sid = o → t'.core = t.core)

theorem victimKept_of_viewV {o : Nat} {t t' : Sess} (h : Sess.viewV o t' = Sess.viewV o t) : VictimKept o t t' := by
  simp only [Sess.viewV, Prod.mk.injEq] at h
  obtain ⟨h1, h2, h3, h4⟩ := h
  refine ⟨h2, h3, h1, fun ho => ?_⟩
  have ho' : t'.sid = o := by rw [h2]; exact ho
  simp only [ho, ho', if_true, Option.some.injEq] at h4
  exact h4

theorem sessions_kept_of_viewV {o : Nat} {l l' : List Sess} (h : l'.map (Sess.viewV o) = l.map (Sess.viewV o)) :
    l'.length = l.length ∧ ∀ (i : Nat) (t : Sess), l[i]? = some t → ∃ t', l'[i]? = some t' ∧ VictimKept o t t' := by
  refine ⟨by simpa using congrArg List.length h, fun i t ht => ?_⟩
  have hi : (l'.map (Sess.viewV o))[i]? = (l.map (Sess.viewV o))[i]? := by rw [h]
  rw [List.getElem?_map, List.getElem?_map, ht] at hi
  cases ht' : l'[i]? with
  | none => rw [ht'] at hi; simp at hi
  | some t' =>
    rw [ht'] at hi
    simp only [Option.map_some, Option.some.injEq] at hi
    exact ⟨t', rfl, victimKept_of_viewV hi⟩

end Muscle.Reflector

namespace Muscle.Eng.SrvEngine
open Muscle Muscle.Eng Muscle.Reflector

theorem runCmd_root_none (sv : Server) (sid : Nat) (hs : sv.sess? sid = none) (c : Cmd) : (runCmd sv sid c).root = sv.root := by
  cases c with
  | set path v ati => simp only [runCmd, setDataNode, hs]
  | rm keys => simp only [runCmd, removeData, hs]
  | sub path f => simp only [runCmd, subscribe, hs]
  | unsub path => simp only [runCmd, unsubscribe, hs]
  | paramSelf => rfl
  | paramMax n => rfl
  | paramRoute keys => rfl
  | paramRouteF keys fs => rfl
  | unparamMax => rfl
  | unparamRoute => rfl
  | unparamRouteF => rfl
  | getparams => simp only [runCmd, hs]
  | ins key before vals => simp only [runCmd, insertOrdered, hs]
  | reorder key before => simp only [runCmd, Muscle.Reflector.reorder, Muscle.Reflector.reorderCore, hs]
  | send tag keys => simp only [runCmd, sendMsg, hs]
  | ping tag => rfl

/-- commands of arbitrary sessions, each followed by the push of pending update Messages -/
def runAll (sv : Server) (hist : List (Nat × Cmd)) : Server :=
  hist.foldl (fun sv p => pushAll (runCmd sv p.1 p.2)) sv

theorem step_untouched (sv : Server) (o : Nat) (ownO : List Bytes) (hlen : ownO.length = 2) (sid : Nat) (c : Cmd)
    (hsid : sid ≠ o) (hown : ∀ t, sv.sess? sid = some t → sessNames t ≠ ownO) :
    Untouched o ownO sv (pushAll (runCmd sv sid c)) ∧ SameIdent sv (pushAll (runCmd sv sid c)) := by
  have hv : (pushAll (runCmd sv sid c)).sessions.map (Sess.view sid) = sv.sessions.map (Sess.view sid) :=
    (map_view_of_map_core sid (pushAll_notify _).2).trans (runCmd_sessions sv sid c)
  refine ⟨?_, sameIdent_of_view hv⟩
  cases hs : sv.sess? sid with
  | none =>
    exact untouched_of_root (fun e => hsid e.symm) ((pushAll_notify _).1.trans (runCmd_root_none sv sid hs c)) hv
  | some t =>
    have H : OnlyOwn sid (sessNames t) sv (pushAll (runCmd sv sid c)) :=
      (runCmd_own sv sid t hs c).trans ((pushAll_notify _).onlyOwn _ _)
    exact untouched_of_onlyOwn (fun e => hsid e.symm) (by rw [hlen]; rfl) (fun e => hown t hs e.symm) H

theorem runAll_untouched (o : Nat) (ownO : List Bytes) (hlen : ownO.length = 2) (hist : List (Nat × Cmd)) :
    ∀ (sv0 sv : Server), SameIdent sv0 sv →
      (∀ p ∈ hist, p.1 ≠ o ∧ ∀ t, sv0.sess? p.1 = some t → sessNames t ≠ ownO) →
      Untouched o ownO sv (runAll sv hist) := by
  induction hist with
  | nil => intro sv0 sv _ _; exact Untouched.refl ..
  | cons p r ih =>
    intro sv0 sv hid hsend
    obtain ⟨hp1, hp2⟩ := hsend p (List.mem_cons_self ..)
    have hown : ∀ t, sv.sess? p.1 = some t → sessNames t ≠ ownO := by
      intro t ht
      have := hid p.1
      rw [ht] at this
      cases h0 : sv0.sess? p.1 with
      | none => rw [h0] at this; simp at this
      | some t0 =>
        rw [h0] at this
        simp only [Option.map_some, Option.some.injEq] at this
        rw [this]; exact hp2 t0 h0
    obtain ⟨h1, h2⟩ := step_untouched sv o ownO hlen p.1 p.2 hp1 hown
    have hid' : SameIdent sv0 (pushAll (runCmd sv p.1 p.2)) := by
      intro tid; rw [h2 tid, hid tid]
    exact h1.trans (ih sv0 _ hid' (fun q hq => hsend q (List.mem_cons_of_mem _ hq)))

end Muscle.Eng.SrvEngine
