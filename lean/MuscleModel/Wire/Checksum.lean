import MuscleModel.Wire.Msg

/-!
# `Message::CalculateChecksum(false)`

Transcribed from `message/Message.cpp` (`Message::CalculateChecksum`, `MessageField::SingleCalculateChecksum`,
the `CalculateChecksum` of every `*DataArray` class), `message/MessageImpl.h`
(`MessageField::CalculateChecksum`: array object if there is one, else the inline rule),
`support/MuscleSupport.h` (`CalculatePODChecksum`, `CalculateChecksum(buf,n) = CalculateHashCode(buf,n)`),
`system/SetupSystem.cpp` (`CalculateHashCode`: MurmurHash2, seed 0; the aligned-read variant computes the
same function), `support/Point.h`, `support/Rect.h`, `util/String.h`, `util/ByteBuffer.h`.

All arithmetic is `uint32`: sums and products are reduced mod 2^32 at the end of each function (equivalent to
wrapping at every step, `+` and `*` being ring operations); the non-ring operations (`|`, `~`, `>>`, `^`,
`== 0`) are applied to reduced values exactly where the C++ applies them.

Items of fixed-size types are their little-endian wire bytes (`Wire/Msg.lean`), so `(uint32)(int8)x` is a
sign extension of the byte value, float/double comparisons with zero are tests on the bit pattern
(`+0.0` and `-0.0` compare equal to zero, NaN does not).
-/

namespace Muscle.Wire
open Muscle Muscle.Gen

def M32 : Nat := 4294967296

/-! ## `CalculateHashCode` (MurmurHash2, seed 0) -/

def murM : Nat := 0x5bd1e995

/-- `MURMUR2_MIX(h,k,m)` with `r = 24` -/
def murMix (h k : Nat) : Nat :=
  let k1 := (k * murM) % M32
  let k2 := k1 ^^^ (k1 >>> 24)
  let k3 := (k2 * murM) % M32
  ((h * murM) % M32) ^^^ k3

/-- the 4-byte block loop followed by the tail switch -/
def murLoop : Nat → Bytes → Nat
  | h, a :: b :: c :: d :: r =>
      murLoop (murMix h (a.toNat + 256 * b.toNat + 65536 * c.toNat + 16777216 * d.toNat)) r
  | h, [a, b, c] => ((h ^^^ (65536 * c.toNat) ^^^ (256 * b.toNat) ^^^ a.toNat) * murM) % M32
  | h, [a, b] => ((h ^^^ (256 * b.toNat) ^^^ a.toNat) * murM) % M32
  | h, [a] => ((h ^^^ a.toNat) * murM) % M32
  | h, [] => h

/-- `muscle::CalculateChecksum(buf, n)` = `CalculateHashCode(buf, n, 0)` -/
def hashBytes (b : Bytes) : Nat :=
  let h0 := murLoop (b.length % M32) b
  let h1 := h0 ^^^ (h0 >>> 13)
  let h2 := (h1 * murM) % M32
  h2 ^^^ (h2 >>> 15)

/-! ## `CalculatePODChecksum` on wire bytes -/

/-- `(uint32)` of a signed `bits`-bit value given as its unsigned bit pattern -/
def sext32 (bits : Nat) (v : Nat) : Nat :=
  let u := v % 2 ^ bits
  if 2 ^ (bits - 1) ≤ u then (u + (M32 - 2 ^ bits)) % M32 else u

/-- int64/uint64: `(uint32)(v >> 32) | ~(uint32)v` -/
def podI64 (v : Nat) : Nat := ((v / M32) % M32) ||| (((v % M32)) ^^^ 4294967295)

/-- float: `(v == 0.0f) ? 0 : bits` — true for `+0.0` and `-0.0` only -/
def podF32 (bits : Nat) : Nat := if bits % 2147483648 = 0 then 0 else bits % M32

/-- double: `(v == 0.0) ? 0 : CalculatePODChecksum((int64) bits)` -/
def podF64 (bits : Nat) : Nat := if bits % 9223372036854775808 = 0 then 0 else podI64 bits

/-- the `k`-th little-endian float of a Point/Rect item -/
def f32At (x : Bytes) (k : Nat) : Nat := podF32 (leVal ((x.drop (4 * k)).take 4))

/-- checksum of one item of a fixed-size type, from its wire bytes -/
def chkFixedItem (tc : Nat) (x : Bytes) : Nat :=
  if tc = tcBool then (if leVal x = 0 then 0 else 1)
  else if tc = tcInt8 then sext32 8 (leVal x)
  else if tc = tcInt16 then sext32 16 (leVal x)
  else if tc = tcInt32 then leVal x % M32
  else if tc = tcInt64 then podI64 (leVal x)
  else if tc = tcFloat then podF32 (leVal x)
  else if tc = tcDouble then podF64 (leVal x)
  else if tc = tcPoint then (f32At x 0 + 3 * f32At x 1) % M32
  else if tc = tcRect then (f32At x 0 + 3 * f32At x 1 + 5 * f32At x 2 + 7 * f32At x 3) % M32
  else 0

/-- `Σ (i+1) * c_i`, `i` counted from `i0` -/
def wsum : Nat → List Nat → Nat
  | _, [] => 0
  | i, c :: r => (i + 1) * c + wsum (i + 1) r

/-- `TypeCode() + GetNumItems() + Σ (i+1)*itemChecksum` — the array classes -/
def chkArr (tc : Nat) (cs : List Nat) : Nat := (tc + cs.length + wsum 0 cs) % M32

/-- `SingleCalculateChecksum`: `_typeCode + 1 + itemChecksum` -/
def chkInl (tc : Nat) (c : Nat) : Nat := (tc + 1 + c) % M32

/-- `MessageField::CalculateChecksum`: the inline rule for an inline field, else the array's -/
def chkItems (tc : Nat) : Rep → List Nat → Nat
  | .inl, [c] => chkInl tc c
  | _, cs => chkArr tc cs

/-- what one entry adds in `Message::CalculateChecksum`: `fnChk + (fnChk == 0 ? 1 : 0) + fnChk * fieldChecksum` -/
def entryTerm (fnChk fieldChk : Nat) : Nat :=
  (fnChk + (if fnChk = 0 then 1 else 0) + fnChk * fieldChk) % M32

mutual
/-- `Message::CalculateChecksum(false)` -/
def checksumMsg : Msg → Nat
  | .mk w fs => (w + chkFields fs) % M32
/-- the sum over the flattenable entries (unreduced; order-insensitive by construction) -/
def chkFields : List (Bytes × Field) → Nat
  | [] => 0
  | (_, .opaque _ _) :: r => chkFields r
  | (n, .fixed tc rp xs) :: r => entryTerm (hashBytes n) (chkItems tc rp (xs.map (chkFixedItem tc))) + chkFields r
  | (n, .strs rp xs) :: r => entryTerm (hashBytes n) (chkItems tcString rp (xs.map hashBytes)) + chkFields r
  | (n, .raws tc rp xs) :: r => entryTerm (hashBytes n) (chkItems tc rp (xs.map hashBytes)) + chkFields r
  | (n, .msgs rp ms) :: r => entryTerm (hashBytes n) (chkItems tcMessage rp (chkMsgList ms)) + chkFields r
/-- the sub-Messages' checksums, in order -/
def chkMsgList : List Msg → List Nat
  | [] => []
  | m :: r => checksumMsg m :: chkMsgList r
end

/-- checksum of one field (`MessageField::CalculateChecksum(false)`); a pointer/tag field: `TypeCode() + GetNumItems()` -/
def checksumField : Field → Nat
  | .fixed tc rp xs => chkItems tc rp (xs.map (chkFixedItem tc))
  | .strs rp xs => chkItems tcString rp (xs.map hashBytes)
  | .raws tc rp xs => chkItems tc rp (xs.map hashBytes)
  | .msgs rp ms => chkItems tcMessage rp (chkMsgList ms)
  | .opaque tc n => (tc + n) % M32

end Muscle.Wire
