import MuscleModel.Wire.Decode

/-!
# Public mutators of `Message`, equality, canonical dump

Mirrors `Message::Add*/Prepend*/RemoveData/RemoveName/Replace*/Rename`,
`MessageField::Single*DataItem` (inline → array switch on the second item; an
array stays an array when it shrinks to one item; a field that becomes empty is
removed) and `Message::operator==` / `MessageField::IsEqualTo`.
-/

namespace Muscle.Wire
open Muscle Muscle.Gen

/-- one value handed to an Add/Prepend/Replace call -/
inductive Val where
  | fixed (tc : Nat) (bytes : Bytes)
  | str (s : Bytes)
  | raw (tc : Nat) (b : Bytes)
  | msg (m : Msg)
  | opq (tc : Nat)

def Val.typeCode : Val → Nat
  | .fixed tc _ => tc
  | .str _ => tcString
  | .raw tc _ => tc
  | .msg _ => tcMessage
  | .opq tc => tc

/-- a brand-new field holding one item (`SingleAddDataItem` on `FIELD_STATE_EMPTY`) -/
def Val.toField : Val → Field
  | .fixed tc b => .fixed tc .inl [b]
  | .str s => .strs .inl [s]
  | .raw tc b => .raws tc .inl [b]
  | .msg m => .msgs .inl [m]
  | .opq tc => .opaque tc 1

def ins {α} (pre : Bool) (x : α) (xs : List α) : List α := if pre then x :: xs else xs ++ [x]

/-- add/prepend one item to an existing field; `none` = `B_TYPE_MISMATCH` -/
def Field.addItem (pre : Bool) : Field → Val → Option Field
  | .fixed tc _ xs, .fixed tc' b => if tc = tc' then some (.fixed tc .arr (ins pre b xs)) else none
  | .strs _ xs, .str s => some (.strs .arr (ins pre s xs))
  | .raws tc _ xs, .raw tc' b => if tc = tc' then some (.raws tc .arr (ins pre b xs)) else none
  | .msgs _ xs, .msg m => some (.msgs .arr (ins pre m xs))
  | .opaque tc n, .opq tc' => if tc = tc' then some (.opaque tc (n + 1)) else none
  | _, _ => none

/-- `Message::AddXXX / PrependXXX` -/
def addVal (pre : Bool) (nm : Bytes) (v : Val) : Msg → Option Msg
  | .mk w fs =>
    match lookupField nm fs with
    | none => some (.mk w (fs ++ [(nm, v.toField)]))
    | some f =>
      match f.addItem pre v with
      | none => none
      | some f' => some (.mk w (upsertField nm f' fs))

def removeField (nm : Bytes) : List (Bytes × Field) → List (Bytes × Field)
  | [] => []
  | (n, f) :: r => if n = nm then r else (n, f) :: removeField nm r

/-- remove item `i`; `none` = bad index (`B_DATA_NOT_FOUND`/`B_BAD_ARGUMENT`) -/
def Field.removeItem (i : Nat) : Field → Option Field
  | .fixed tc r xs => if i < xs.length then (if r = .inl ∧ i ≠ 0 then none else some (.fixed tc r (xs.eraseIdx i))) else none
  | .strs r xs => if i < xs.length then (if r = .inl ∧ i ≠ 0 then none else some (.strs r (xs.eraseIdx i))) else none
  | .raws tc r xs => if i < xs.length then (if r = .inl ∧ i ≠ 0 then none else some (.raws tc r (xs.eraseIdx i))) else none
  | .msgs r xs => if i < xs.length then (if r = .inl ∧ i ≠ 0 then none else some (.msgs r (xs.eraseIdx i))) else none
  | .opaque tc n => if i < n then some (.opaque tc (n - 1)) else none

/-- `Message::RemoveData` (a field that became empty is removed) -/
def removeData (nm : Bytes) (i : Nat) : Msg → Option Msg
  | .mk w fs =>
    match lookupField nm fs with
    | none => none
    | some f =>
      match f.removeItem i with
      | none => if f.count = 0 then some (.mk w (removeField nm fs)) else none   -- `mf->IsEmpty() ? RemoveName(..) : ret`
      | some f' => if f'.count = 0 then some (.mk w (removeField nm fs)) else some (.mk w (upsertField nm f' fs))

/-- `Message::RemoveName` -/
def removeName (nm : Bytes) : Msg → Option Msg
  | .mk w fs => match lookupField nm fs with
    | none => none
    | some _ => some (.mk w (removeField nm fs))

def Field.replaceItem (i : Nat) : Field → Val → Option Field
  | .fixed tc r xs, .fixed tc' b => if tc = tc' ∧ i < xs.length then some (.fixed tc r (xs.set i b)) else none
  | .strs r xs, .str s => if i < xs.length then some (.strs r (xs.set i s)) else none
  | .raws tc r xs, .raw tc' b => if tc = tc' ∧ i < xs.length then some (.raws tc r (xs.set i b)) else none
  | .msgs r xs, .msg m => if i < xs.length then some (.msgs r (xs.set i m)) else none
  | .opaque tc n, .opq tc' => if tc = tc' ∧ i < n then some (.opaque tc n) else none
  | _, _ => none

/-- `Message::ReplaceXXX(okayToAdd, name, index, value)` -/
def replaceVal (okToAdd : Bool) (nm : Bytes) (i : Nat) (v : Val) (m : Msg) : Option Msg :=
  match m with
  | .mk w fs =>
    -- GetMessageField(name, tc): present *and* of the value's type
    let f? := match lookupField nm fs with
      | some f => if f.typeCode = v.typeCode then some f else none
      | none => none
    match f? with
    | none => if okToAdd then addVal false nm v m else none
    | some f =>
      if okToAdd ∧ f.count ≤ i then addVal false nm v m
      else match f.replaceItem i v with
        | none => none
        | some f' => some (.mk w (upsertField nm f' fs))

/-- `Message::Rename`: remove then `Put` — an existing target is overwritten in place,
    otherwise the renamed field goes to the end -/
def rename (old new : Bytes) : Msg → Option Msg
  | .mk w fs =>
    if old = new then some (.mk w fs) else
    match lookupField old fs with
    | none => none
    | some f => some (.mk w (upsertField new f (removeField old fs)))

/-! ## equality (`operator==`): order-insensitive, representation-insensitive, IEEE on floats -/

def isNaN32 (n : Nat) : Bool := (n / 8388608) % 256 = 255 ∧ n % 8388608 ≠ 0
def isNaN64 (n : Nat) : Bool := (n / 4503599627370496) % 2048 = 2047 ∧ n % 4503599627370496 ≠ 0
/-- IEEE `==` on binary32 bit patterns -/
def feq32 (a b : Nat) : Bool :=
  !isNaN32 a && !isNaN32 b && (a == b || (a % 2147483648 == 0 && b % 2147483648 == 0))
def feq64 (a b : Nat) : Bool :=
  !isNaN64 a && !isNaN64 b && (a == b || (a % 9223372036854775808 == 0 && b % 9223372036854775808 == 0))

/-- compare consecutive `k`-byte little-endian floats of two items -/
def feqWords32 : Nat → Bytes → Bytes → Bool
  | 0, _, _ => true
  | k+1, a, b => feq32 (leVal (a.take 4)) (leVal (b.take 4)) && feqWords32 k (a.drop 4) (b.drop 4)

def itemEq (tc : Nat) (a b : Bytes) : Bool :=
  if tc = tcFloat then feq32 (leVal a) (leVal b)
  else if tc = tcDouble then feq64 (leVal a) (leVal b)
  else if tc = tcPoint then feqWords32 2 a b
  else if tc = tcRect then feqWords32 4 a b
  else a == b

def listEqBy {α} (eq : α → α → Bool) : List α → List α → Bool
  | [], [] => true
  | x :: xs, y :: ys => eq x y && listEqBy eq xs ys
  | _, _ => false

mutual
def msgEq : Msg → Msg → Bool
  | .mk w fs, .mk w' gs => w == w' && fs.length == gs.length && fieldsSubset fs gs
/-- `FieldsAreSubsetOf(rhs, true)` -/
def fieldsSubset : List (Bytes × Field) → List (Bytes × Field) → Bool
  | [], _ => true
  | (n, f) :: r, gs =>
    (match lookupField n gs with
     | none => false
     | some g => fieldEq f g) && fieldsSubset r gs
def fieldEq : Field → Field → Bool
  | .fixed tc _ xs, .fixed tc' _ ys => tc == tc' && listEqBy (itemEq tc) xs ys
  | .strs _ xs, .strs _ ys => xs == ys
  | .raws tc _ xs, .raws tc' _ ys => tc == tc' && xs == ys
  | .msgs _ xs, .msgs _ ys => msgsEq xs ys
  | .opaque tc n, .opaque tc' n' => tc == tc' && n == n'   -- contents = pointer identity, not modelled
  | _, _ => false
def msgsEq : List Msg → List Msg → Bool
  | [], [] => true
  | x :: xs, y :: ys => msgEq x y && msgsEq xs ys
  | _, _ => false
end

mutual
def hasOpaque : Msg → Bool
  | .mk _ fs => fieldsHaveOpaque fs
def fieldsHaveOpaque : List (Bytes × Field) → Bool
  | [] => false
  | (_, .opaque _ _) :: _ => true
  | (_, .msgs _ ms) :: r => msgsHaveOpaque ms || fieldsHaveOpaque r
  | (_, .fixed _ _ _) :: r => fieldsHaveOpaque r
  | (_, .strs _ _) :: r => fieldsHaveOpaque r
  | (_, .raws _ _ _) :: r => fieldsHaveOpaque r
def msgsHaveOpaque : List Msg → Bool
  | [] => false
  | m :: r => hasOpaque m || msgsHaveOpaque r
end

/-! ## canonical dump (what the public getters show; representation is not observable) -/

def joinWith (sep : String) : List String → String
  | [] => ""
  | [x] => x
  | x :: r => x ++ sep ++ joinWith sep r

mutual
def dumpMsg : Msg → String
  | .mk w fs => "{" ++ toString w ++ dumpFields fs ++ "}"
def dumpFields : List (Bytes × Field) → String
  | [] => ""
  | (n, f) :: r => " " ++ tokOfBytes n ++ ":" ++ toString f.typeCode ++ ":" ++ toString f.count ++ "[" ++ dumpField f ++ "]" ++ dumpFields r
def dumpField : Field → String
  | .fixed _ _ xs => joinWith "," (xs.map tokOfBytes)
  | .strs _ xs => joinWith "," (xs.map tokOfBytes)
  | .raws _ _ xs => joinWith "," (xs.map tokOfBytes)
  | .msgs _ xs => dumpMsgs xs
  | .opaque _ _ => ""
def dumpMsgs : List Msg → String
  | [] => ""
  | [m] => dumpMsg m
  | m :: r => dumpMsg m ++ "," ++ dumpMsgs r
end

end Muscle.Wire
