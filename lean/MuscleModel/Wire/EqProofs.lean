import MuscleModel.Wire.Ops
import MuscleModel.Wire.MoreProofs

/-! Lemmas about the model of `Message::operator==` (`msgEq`, `Wire/Ops.lean`) for C01: the serialisation round
trip (`tripMsg`) does not change what a Message compares equal to; self-equality = absence of NaN items. -/

set_option linter.unusedSimpArgs false

namespace Muscle.Wire
open Muscle Muscle.Gen

/-- one entry of `fieldsSubset`: the like-named field of `gs` exists and compares equal -/
def lookEq (f : Field) (n : Bytes) (gs : List (Bytes × Field)) : Bool :=
  match lookupField n gs with
  | none => false
  | some g => fieldEq f g

theorem fieldsSubset_cons (n : Bytes) (f : Field) (r gs : List (Bytes × Field)) :
    fieldsSubset ((n, f) :: r) gs = (lookEq f n gs && fieldsSubset r gs) := by
  simp only [fieldsSubset, lookEq]
  cases lookupField n gs <;> rfl

/-! ## tripping the LEFT operand -/

mutual
theorem msgEq_trip_left : ∀ (a : Msg), hasOpaque a = false → ∀ (b : Msg), msgEq (tripMsg a) b = msgEq a b
  | .mk w fs, h, .mk w' gs => by
    simp only [hasOpaque] at h
    have := fieldsSubset_trip_left fs h gs
    simp only [tripMsg, msgEq, this.1, this.2]
theorem fieldsSubset_trip_left : ∀ (fs : List (Bytes × Field)), fieldsHaveOpaque fs = false →
    ∀ (gs : List (Bytes × Field)),
    fieldsSubset (tripFields fs) gs = fieldsSubset fs gs ∧ (tripFields fs).length = fs.length
  | [], _, gs => by simp [tripFields]
  | (n, .opaque tc k) :: r, h, gs => by simp [fieldsHaveOpaque] at h
  | (n, .fixed tc rp xs) :: r, h, gs => by
    simp only [fieldsHaveOpaque] at h
    have ih := fieldsSubset_trip_left r h gs
    have e : lookEq (.fixed tc (repOf xs.length) xs) n gs = lookEq (.fixed tc rp xs) n gs := by
      unfold lookEq; cases lookupField n gs with
      | none => rfl
      | some g => cases g <;> simp [fieldEq]
    simp only [tripFields, fieldsSubset_cons, ih.1, e, List.length_cons, ih.2, and_self]
  | (n, .strs rp xs) :: r, h, gs => by
    simp only [fieldsHaveOpaque] at h
    have ih := fieldsSubset_trip_left r h gs
    have e : lookEq (.strs (repOf xs.length) xs) n gs = lookEq (.strs rp xs) n gs := by
      unfold lookEq; cases lookupField n gs with
      | none => rfl
      | some g => cases g <;> simp [fieldEq]
    simp only [tripFields, fieldsSubset_cons, ih.1, e, List.length_cons, ih.2, and_self]
  | (n, .raws tc rp xs) :: r, h, gs => by
    simp only [fieldsHaveOpaque] at h
    have ih := fieldsSubset_trip_left r h gs
    have e : lookEq (.raws tc (repOf xs.length) xs) n gs = lookEq (.raws tc rp xs) n gs := by
      unfold lookEq; cases lookupField n gs with
      | none => rfl
      | some g => cases g <;> simp [fieldEq]
    simp only [tripFields, fieldsSubset_cons, ih.1, e, List.length_cons, ih.2, and_self]
  | (n, .msgs rp ms) :: r, h, gs => by
    simp only [fieldsHaveOpaque, Bool.or_eq_false_iff] at h
    have ih := fieldsSubset_trip_left r h.2 gs
    have e : lookEq (.msgs (repOf ms.length) (tripMsgs ms)) n gs = lookEq (.msgs rp ms) n gs := by
      unfold lookEq; cases lookupField n gs with
      | none => rfl
      | some g => cases g <;> simp [fieldEq, msgsEq_trip_left ms h.1]
    simp only [tripFields, fieldsSubset_cons, ih.1, e, List.length_cons, ih.2, and_self]
theorem msgsEq_trip_left : ∀ (xs : List Msg), msgsHaveOpaque xs = false →
    ∀ (ys : List Msg), msgsEq (tripMsgs xs) ys = msgsEq xs ys
  | [], _, ys => by simp [tripMsgs]
  | x :: r, h, ys => by
    simp only [msgsHaveOpaque, Bool.or_eq_false_iff] at h
    cases ys with
    | nil => simp [tripMsgs, msgsEq]
    | cons y t => simp [tripMsgs, msgsEq, msgEq_trip_left x h.1 y, msgsEq_trip_left r h.2 t]
end

/-! ## tripping the RIGHT operand -/

theorem fieldsSubset_congr (fs gs gs' : List (Bytes × Field))
    (h : ∀ (f : Field) (n : Bytes), lookEq f n gs' = lookEq f n gs) :
    fieldsSubset fs gs' = fieldsSubset fs gs := by
  induction fs with
  | nil => simp [fieldsSubset]
  | cons a r ih => obtain ⟨n, f⟩ := a; simp only [fieldsSubset_cons, h, ih]

mutual
theorem msgEq_trip_right : ∀ (b : Msg), hasOpaque b = false → ∀ (a : Msg), msgEq a (tripMsg b) = msgEq a b
  | .mk w' gs, h, .mk w fs => by
    simp only [hasOpaque] at h
    have := lookEq_trip_right gs h
    simp only [tripMsg, msgEq, this.1, fieldsSubset_congr fs _ _ this.2]
theorem lookEq_trip_right : ∀ (gs : List (Bytes × Field)), fieldsHaveOpaque gs = false →
    (tripFields gs).length = gs.length ∧
    ∀ (f : Field) (n : Bytes), lookEq f n (tripFields gs) = lookEq f n gs
  | [], _ => by simp [tripFields]
  | (m, .opaque tc k) :: r, h => by simp [fieldsHaveOpaque] at h
  | (m, .fixed tc rp ys) :: r, h => by
    simp only [fieldsHaveOpaque] at h
    have ih := lookEq_trip_right r h
    refine ⟨by simp [tripFields, ih.1], ?_⟩
    intro f n
    have ihn := ih.2 f n
    unfold lookEq at ihn ⊢
    simp only [tripFields, lookupField]
    by_cases hmn : m = n
    · simp only [hmn, if_true]; cases f <;> simp [fieldEq]
    · simp only [hmn, if_false]; exact ihn
  | (m, .strs rp ys) :: r, h => by
    simp only [fieldsHaveOpaque] at h
    have ih := lookEq_trip_right r h
    refine ⟨by simp [tripFields, ih.1], ?_⟩
    intro f n
    have ihn := ih.2 f n
    unfold lookEq at ihn ⊢
    simp only [tripFields, lookupField]
    by_cases hmn : m = n
    · simp only [hmn, if_true]; cases f <;> simp [fieldEq]
    · simp only [hmn, if_false]; exact ihn
  | (m, .raws tc rp ys) :: r, h => by
    simp only [fieldsHaveOpaque] at h
    have ih := lookEq_trip_right r h
    refine ⟨by simp [tripFields, ih.1], ?_⟩
    intro f n
    have ihn := ih.2 f n
    unfold lookEq at ihn ⊢
    simp only [tripFields, lookupField]
    by_cases hmn : m = n
    · simp only [hmn, if_true]; cases f <;> simp [fieldEq]
    · simp only [hmn, if_false]; exact ihn
  | (m, .msgs rp ms) :: r, h => by
    simp only [fieldsHaveOpaque, Bool.or_eq_false_iff] at h
    have ih := lookEq_trip_right r h.2
    refine ⟨by simp [tripFields, ih.1], ?_⟩
    intro f n
    have ihn := ih.2 f n
    unfold lookEq at ihn ⊢
    simp only [tripFields, lookupField]
    by_cases hmn : m = n
    · simp only [hmn, if_true]; cases f <;> simp [fieldEq, msgsEq_trip_right ms h.1]
    · simp only [hmn, if_false]; exact ihn
theorem msgsEq_trip_right : ∀ (ys : List Msg), msgsHaveOpaque ys = false →
    ∀ (xs : List Msg), msgsEq xs (tripMsgs ys) = msgsEq xs ys
  | [], _, xs => by simp [tripMsgs]
  | y :: t, h, xs => by
    simp only [msgsHaveOpaque, Bool.or_eq_false_iff] at h
    cases xs with
    | nil => simp [tripMsgs, msgsEq]
    | cons x r => simp [tripMsgs, msgsEq, msgEq_trip_right y h.1 x, msgsEq_trip_right t h.2 r]
end

/-! ## self-equality = no NaN item, at any nesting level -/

def nanFreeWords32 : Nat → Bytes → Bool
  | 0, _ => true
  | k+1, a => !isNaN32 (leVal (a.take 4)) && nanFreeWords32 k (a.drop 4)

/-- no float of the item (float, double, the 2 floats of a point, the 4 of a rect) is a NaN bit pattern -/
def itemNanFree (tc : Nat) (a : Bytes) : Bool :=
  if tc = tcFloat then !isNaN32 (leVal a)
  else if tc = tcDouble then !isNaN64 (leVal a)
  else if tc = tcPoint then nanFreeWords32 2 a
  else if tc = tcRect then nanFreeWords32 4 a
  else true

mutual
def nanFreeMsg : Msg → Bool
  | .mk _ fs => nanFreeFields fs
def nanFreeFields : List (Bytes × Field) → Bool
  | [] => true
  | (_, .fixed tc _ xs) :: r => xs.all (itemNanFree tc) && nanFreeFields r
  | (_, .msgs _ ms) :: r => nanFreeMsgs ms && nanFreeFields r
  | (_, .strs _ _) :: r => nanFreeFields r
  | (_, .raws _ _ _) :: r => nanFreeFields r
  | (_, .opaque _ _) :: r => nanFreeFields r
def nanFreeMsgs : List Msg → Bool
  | [] => true
  | m :: r => nanFreeMsg m && nanFreeMsgs r
end

theorem feq32_self (a : Nat) : feq32 a a = !isNaN32 a := by simp [feq32]
theorem feq64_self (a : Nat) : feq64 a a = !isNaN64 a := by simp [feq64]

theorem feqWords32_self : ∀ (k : Nat) (a : Bytes), feqWords32 k a a = nanFreeWords32 k a
  | 0, _ => by simp [feqWords32, nanFreeWords32]
  | k+1, a => by simp [feqWords32, nanFreeWords32, feq32_self, feqWords32_self k]

theorem itemEq_self (tc : Nat) (a : Bytes) : itemEq tc a a = itemNanFree tc a := by
  unfold itemEq itemNanFree
  split
  · exact feq32_self _
  · split
    · exact feq64_self _
    · split
      · exact feqWords32_self _ _
      · split
        · exact feqWords32_self _ _
        · simp

theorem listEqBy_self (tc : Nat) : ∀ (xs : List Bytes), listEqBy (itemEq tc) xs xs = xs.all (itemNanFree tc)
  | [] => by simp [listEqBy]
  | x :: r => by simp [listEqBy, itemEq_self, listEqBy_self tc r]

def selfEqFields : List (Bytes × Field) → Bool
  | [] => true
  | (_, f) :: r => fieldEq f f && selfEqFields r

theorem fieldsSubset_of_lookup (gs : List (Bytes × Field)) : ∀ (r : List (Bytes × Field)),
    (∀ e ∈ r, lookupField e.1 gs = some e.2) → fieldsSubset r gs = selfEqFields r
  | [], _ => by simp [fieldsSubset, selfEqFields]
  | (n, f) :: r, h => by
    have h1 := h (n, f) (by simp)
    have ih := fieldsSubset_of_lookup gs r (fun e he => h e (by simp [he]))
    simp only [fieldsSubset_cons, lookEq, h1, ih, selfEqFields]

theorem mem_flatNames (r : List (Bytes × Field)) (h : fieldsHaveOpaque r = false) :
    ∀ e ∈ r, e.1 ∈ flatNames r := by
  induction r with
  | nil => intro e he; cases he
  | cons a t ih =>
    obtain ⟨n, f⟩ := a
    intro e he
    cases f with
    | «opaque» tc k => simp [fieldsHaveOpaque] at h
    | msgs rp ms =>
      simp only [fieldsHaveOpaque, Bool.or_eq_false_iff] at h
      simp only [List.mem_cons] at he
      rcases he with rfl | he
      · simp [flatNames]
      · simp [flatNames, ih h.2 e he]
    | fixed tc rp xs =>
      simp only [fieldsHaveOpaque] at h
      simp only [List.mem_cons] at he
      rcases he with rfl | he
      · simp [flatNames]
      · simp [flatNames, ih h e he]
    | strs rp xs =>
      simp only [fieldsHaveOpaque] at h
      simp only [List.mem_cons] at he
      rcases he with rfl | he
      · simp [flatNames]
      · simp [flatNames, ih h e he]
    | raws tc rp xs =>
      simp only [fieldsHaveOpaque] at h
      simp only [List.mem_cons] at he
      rcases he with rfl | he
      · simp [flatNames]
      · simp [flatNames, ih h e he]

theorem wfFields_cons_inv (n : Bytes) (f : Field) (r : List (Bytes × Field)) (h : wfFields ((n, f) :: r))
    (hf : f.flattenable = true) : n ∉ flatNames r ∧ wfFields r := by
  cases f with
  | «opaque» tc k => simp [Field.flattenable] at hf
  | fixed tc rp xs => simp only [wfFields] at h; exact ⟨h.2.2.1, h.2.2.2.2.2.2.2.2.2⟩
  | strs rp xs => simp only [wfFields] at h; exact ⟨h.2.2.1, h.2.2.2.2.2.2⟩
  | raws tc rp xs => simp only [wfFields] at h; exact ⟨h.2.2.1, h.2.2.2.2.2.2.2⟩
  | msgs rp ms => simp only [wfFields] at h; exact ⟨h.2.2.1, h.2.2.2.2.2.2⟩

theorem fieldsHaveOpaque_cons_inv (n : Bytes) (f : Field) (r : List (Bytes × Field))
    (h : fieldsHaveOpaque ((n, f) :: r) = false) : f.flattenable = true ∧ fieldsHaveOpaque r = false := by
  cases f <;> simp [fieldsHaveOpaque, Field.flattenable] at h ⊢ <;> simp [h]

theorem lookup_self (fs : List (Bytes × Field)) (hw : wfFields fs) (ho : fieldsHaveOpaque fs = false) :
    ∀ e ∈ fs, lookupField e.1 fs = some e.2 := by
  induction fs with
  | nil => intro e he; cases he
  | cons a t ih =>
    obtain ⟨n, f⟩ := a
    obtain ⟨hfl, hot⟩ := fieldsHaveOpaque_cons_inv n f t ho
    obtain ⟨hn, hwt⟩ := wfFields_cons_inv n f t hw hfl
    intro e he
    simp only [List.mem_cons] at he
    rcases he with rfl | he
    · simp [lookupField]
    · have hne : n ≠ e.1 := fun e' => hn (e' ▸ mem_flatNames t hot e he)
      simp only [lookupField, hne, if_false]
      exact ih hwt hot e he

mutual
theorem msgEq_self : ∀ (m : Msg), wfMsg m → hasOpaque m = false → msgEq m m = nanFreeMsg m
  | .mk w fs, hw, ho => by
    simp only [wfMsg] at hw
    simp only [hasOpaque] at ho
    have h1 := fieldsSubset_of_lookup fs fs (lookup_self fs hw.2.2 ho)
    have h2 := selfEqFields_eq fs hw.2.2 ho
    simp [msgEq, nanFreeMsg, h1, h2]
theorem selfEqFields_eq : ∀ (fs : List (Bytes × Field)), wfFields fs → fieldsHaveOpaque fs = false →
    selfEqFields fs = nanFreeFields fs
  | [], _, _ => by simp [selfEqFields, nanFreeFields]
  | (n, .opaque tc k) :: r, _, ho => by simp [fieldsHaveOpaque] at ho
  | (n, .fixed tc rp xs) :: r, hw, ho => by
    simp only [fieldsHaveOpaque] at ho
    have ih := selfEqFields_eq r (wfFields_cons_inv n _ r hw rfl).2 ho
    simp [selfEqFields, nanFreeFields, fieldEq, listEqBy_self, ih]
  | (n, .strs rp xs) :: r, hw, ho => by
    simp only [fieldsHaveOpaque] at ho
    have ih := selfEqFields_eq r (wfFields_cons_inv n _ r hw rfl).2 ho
    simp [selfEqFields, nanFreeFields, fieldEq, ih]
  | (n, .raws tc rp xs) :: r, hw, ho => by
    simp only [fieldsHaveOpaque] at ho
    have ih := selfEqFields_eq r (wfFields_cons_inv n _ r hw rfl).2 ho
    simp [selfEqFields, nanFreeFields, fieldEq, ih]
  | (n, .msgs rp ms) :: r, hw, ho => by
    simp only [fieldsHaveOpaque, Bool.or_eq_false_iff] at ho
    have ih := selfEqFields_eq r (wfFields_cons_inv n _ r hw rfl).2 ho.2
    simp only [wfFields] at hw
    have hm := msgsEq_self ms hw.2.2.2.1 ho.1
    simp [selfEqFields, nanFreeFields, fieldEq, ih, hm]
theorem msgsEq_self : ∀ (ms : List Msg), wfMsgs ms → msgsHaveOpaque ms = false → msgsEq ms ms = nanFreeMsgs ms
  | [], _, _ => by simp [msgsEq, nanFreeMsgs]
  | m :: r, hw, ho => by
    simp only [wfMsgs] at hw
    simp only [msgsHaveOpaque, Bool.or_eq_false_iff] at ho
    simp [msgsEq, nanFreeMsgs, msgEq_self m hw.2.1 ho.1, msgsEq_self r hw.2.2 ho.2]
end

end Muscle.Wire
