import MuscleModel.Wire.CostProofs4

/-! C02 lemmas, part 5: the field-table slots requested by `Message::Unflatten` (`Tally.table`) are linear in the input,
with numeral constants that do not depend on the nesting limit — PROVIDED the table is presized for a bounded number of
entries (`presize cap n ≤ 36` for every declared count `n`; true for `cap = some c`, `c ≤ 36`).

Accounting (3 slots per input byte): a frame's 12 header bytes pay for the first allocation of its table (≤ 36 slots);
every entry's 12 own header bytes pay for the amortised cost of doubling (4 slots per stored field: a table of capacity
`c` holding `m` fields has requested `2·(c − c₀)` slots by doubling, and `c ≤ max c₀ (2m)`); payload bytes pay for the
frames nested in them.  Invariant of the entry loop in state (capacity `c`, `m` fields stored), reading `inp` bytes:
`table + 2c (+ 3·rest) ≤ max (2c) (4m) + 3·inp`, plus `c` for the pending first allocation while `m = 0`. -/

set_option linter.unusedSimpArgs false
set_option linter.unusedVariables false

namespace Muscle.Wire
open Muscle Muscle.Gen

def TabR {α : Type} (inp : Nat) (r : Option (α × Bytes)) (t : Tally) : Prop :=
  match r with
  | some x => t.table + 3 * x.2.length ≤ 3 * inp
  | none => t.table ≤ 3 * inp

def TabI {α : Type} (inp : Nat) (r : Option α) (t : Tally) : Prop := t.table ≤ 3 * inp

/-- the entry loop in table state (capacity `c`, `m` fields stored) -/
def TabF {α : Type} (inp c m : Nat) (r : Option (α × Bytes)) (t : Tally) : Prop :=
  match r with
  | some x => (m = 0 → t.table + 3 * x.2.length ≤ c + 3 * inp) ∧
      (m ≠ 0 → t.table + 2 * c + 3 * x.2.length ≤ max (2 * c) (4 * m) + 3 * inp)
  | none => (m = 0 → t.table ≤ c + 3 * inp) ∧ (m ≠ 0 → t.table + 2 * c ≤ max (2 * c) (4 * m) + 3 * inp)

theorem c2_tab_str : ∀ (k : Nat) (b : Bytes), (decStrItemsT k b).2.table = 0 := by
  intro k
  induction k with
  | zero => intro b; simp [decStrItemsT]
  | succ k ih =>
    intro b
    simp only [decStrItemsT]
    cases h1 : rd32 b with
    | none => rfl
    | some v1 =>
      obtain ⟨len, b1⟩ := v1
      simp only
      cases h2 : takeN len b1 with
      | none => rfl
      | some v2 =>
        obtain ⟨p, b2⟩ := v2
        simp only
        cases h3 : cstr p with
        | none => rfl
        | some s => simp [Tally.add_def, ih]

theorem c2_tab_raw : ∀ (k : Nat) (b : Bytes), (decRawItemsT k b).2.table = 0 := by
  intro k
  induction k with
  | zero => intro b; simp [decRawItemsT]
  | succ k ih =>
    intro b
    simp only [decRawItemsT]
    cases h1 : rd32 b with
    | none => rfl
    | some v1 =>
      obtain ⟨len, b1⟩ := v1
      simp only
      split
      · rfl
      · cases h2 : takeN len b1 with
        | none => rfl
        | some v2 => simp [Tally.add_def, ih]

theorem c2_tab_fixed (tc sz : Nat) (p : Bytes) : (decFixedT tc sz p).2.table = 0 := by
  unfold decFixedT
  simp only
  split
  · rfl
  · split <;> rfl

/-- a reader that requests no table slots and does not move backwards -/
theorem c2_tab_leaf {α : Type} (inp : Nat) (r : Option (α × Bytes)) (t : Tally) (h0 : t.table = 0)
    (hp : ∀ x, r = some x → x.2.length ≤ inp) : TabR inp r t := by
  cases r with
  | none => simp [TabR, h0]
  | some x =>
    have := hp x rfl
    simp only [TabR, h0]; omega

theorem c2_upsert_length_new (nm : Bytes) (f : Field) : ∀ (acc : List (Bytes × Field)),
    lookupField nm acc = none → (upsertField nm f acc).length = acc.length + 1 := by
  intro acc
  induction acc with
  | nil => intro _; simp [upsertField]
  | cons a t ih =>
    obtain ⟨n, g⟩ := a
    intro h
    simp only [lookupField] at h
    split at h
    · cases h
    · rename_i hne
      simp [upsertField, hne, ih h]

theorem c2_upsert_length_old (nm : Bytes) (f : Field) : ∀ (acc : List (Bytes × Field)) (g : Field),
    lookupField nm acc = some g → (upsertField nm f acc).length = acc.length ∧ acc.length ≠ 0 := by
  intro acc
  induction acc with
  | nil => intro g h; simp [lookupField] at h
  | cons a t ih =>
    obtain ⟨n, g'⟩ := a
    intro g h
    simp only [lookupField] at h
    split at h
    · rename_i he; simp [upsertField, he]
    · rename_i hne
      have := ih g h
      simp [upsertField, hne, this.1]

theorem c2_presize_some (c : Nat) (hc : c ≤ 36) (n : Nat) : presize (some c) n ≤ 36 := by
  have h7 : htDefaultCapacity = 7 := by decide
  simp only [presize, h7]
  split <;> omega

structure TabAt (cap : Option Nat) (mx fuel : Nat) : Prop where
  msg : ∀ (lvl : Nat) (b : Bytes), TabR b.length (decMsgT cap mx fuel lvl b).1 (decMsgT cap mx fuel lvl b).2
  fields : ∀ (lvl k : Nat) (b : Bytes) (acc : List (Bytes × Field)) (c : Nat),
    TabF b.length c acc.length (decFieldsT cap mx fuel lvl k b acc c).1 (decFieldsT cap mx fuel lvl k b acc c).2
  payload : ∀ (lvl tc : Nat) (p : Bytes), TabR p.length (decPayloadT cap mx fuel lvl tc p).1 (decPayloadT cap mx fuel lvl tc p).2
  items : ∀ (lvl : Nat) (b : Bytes), TabI b.length (decMsgItemsT cap mx fuel lvl b).1 (decMsgItemsT cap mx fuel lvl b).2

theorem c2_tab_msg_succ (cap : Option Nat) (hcap : ∀ n, presize cap n ≤ 36) (mx fuel : Nat) (ih : TabAt cap mx fuel) :
    ∀ (lvl : Nat) (b : Bytes), TabR b.length (decMsgT cap mx (fuel + 1) lvl b).1 (decMsgT cap mx (fuel + 1) lvl b).2 := by
  intro lvl b
  rw [decMsgT]
  simp only [nestGuard, entryCountGuard, Bool.true_and, decide_eq_true_eq]
  by_cases hl : mx < lvl
  · rw [if_pos hl]; simp [TabR]
  · rw [if_neg hl]
    cases h1 : rd32 b with
    | none => simp [TabR]
    | some v1 =>
      obtain ⟨ver, b1⟩ := v1
      have l1 := rd32_length h1
      simp only
      by_cases hv : ver < oldestProtocolVersion ∨ protocolVersion < ver
      · rw [if_pos hv]; simp [TabR]
      · rw [if_neg hv]
        cases h2 : rd32 b1 with
        | none => simp [TabR]
        | some v2 =>
          obtain ⟨what, b2⟩ := v2
          have l2 := rd32_length h2
          simp only
          cases h3 : rd32 b2 with
          | none => simp [TabR]
          | some v3 =>
            obtain ⟨n, b3⟩ := v3
            have l3 := rd32_length h3
            simp only
            by_cases hn : b3.length / 12 < n
            · rw [if_pos hn]; simp [TabR]
            · rw [if_neg hn]
              have ih2 := ih.fields lvl n b3 [] (presize cap n)
              have hc := hcap n
              generalize decFieldsT cap mx fuel lvl n b3 [] (presize cap n) = r at ih2 ⊢
              obtain ⟨r1, r2⟩ := r
              cases r1 with
              | none => simp only [TabR, TabF, Tally.add_def, List.length_nil, true_implies] at ih2 ⊢; omega
              | some x => simp only [TabR, TabF, Tally.add_def, List.length_nil, true_implies] at ih2 ⊢; omega

theorem c2_tab_items_succ (cap : Option Nat) (mx fuel : Nat) (ih : TabAt cap mx fuel) :
    ∀ (lvl : Nat) (b : Bytes), TabI b.length (decMsgItemsT cap mx (fuel + 1) lvl b).1 (decMsgItemsT cap mx (fuel + 1) lvl b).2 := by
  intro lvl b
  cases b with
  | nil => simp [decMsgItemsT, TabI]
  | cons a t =>
    rw [decMsgItemsT]
    simp only [subMsgLenGuard, Bool.true_and, decide_eq_true_eq]
    cases h1 : rd32 (a :: t) with
    | none => simp [TabI]
    | some v1 =>
      obtain ⟨len, b1⟩ := v1
      have l1 := rd32_length h1
      simp only
      by_cases hlt : b1.length < len
      · rw [if_pos hlt]; simp [TabI]
      · rw [if_neg hlt]
        have ih2 := ih.msg (lvl + 1) (List.take len b1)
        generalize decMsgT cap mx fuel (lvl + 1) (List.take len b1) = r at ih2 ⊢
        obtain ⟨r1, r2⟩ := r
        cases r1 with
        | none => simp only [TabI, TabR, Tally.add_def, List.length_take] at ih2 ⊢; omega
        | some x =>
          obtain ⟨m, rest⟩ := x
          simp only
          have ih3 := ih.items lvl (rest ++ List.drop len b1)
          generalize decMsgItemsT cap mx fuel lvl (rest ++ List.drop len b1) = r' at ih3 ⊢
          obtain ⟨r1', r2'⟩ := r'
          simp only [TabI, TabR, Tally.add_def, List.length_take, List.length_append, List.length_drop] at ih2 ih3 ⊢
          omega

theorem c2_tab_payload (cap : Option Nat) (mx fuel : Nat)
    (hm : ∀ (lvl : Nat) (b : Bytes), TabR b.length (decMsgT cap mx fuel lvl b).1 (decMsgT cap mx fuel lvl b).2)
    (hi : ∀ (lvl : Nat) (b : Bytes), TabI b.length (decMsgItemsT cap mx fuel lvl b).1 (decMsgItemsT cap mx fuel lvl b).2) :
    ∀ (lvl tc : Nat) (p : Bytes), TabR p.length (decPayloadT cap mx fuel lvl tc p).1 (decPayloadT cap mx fuel lvl tc p).2 := by
  intro lvl tc p
  unfold decPayloadT
  by_cases h0 : wireItemSize tc ≠ 0
  · rw [if_pos h0]
    exact c2_tab_leaf _ _ _ (c2_tab_fixed _ _ _) (fun x hx => c2_decFixed_pos _ _ _ _ _ hx)
  · rw [if_neg h0]
    by_cases h1 : tc = tcPointer ∨ tc = tcTag
    · rw [if_pos h1]; simp [TabR]
    · rw [if_neg h1]
      by_cases h2 : tc = tcMessage
      · rw [if_pos h2]
        by_cases h3 : p.length < 4
        · rw [if_pos h3]
          by_cases h3' : p.length = 0
          · rw [if_pos h3']; simp [TabR]
          · rw [if_neg h3']; simp [TabR]
        · rw [if_neg h3]
          by_cases h4 : leVal (List.take 4 p) = p.length - 4
          · rw [if_pos h4]
            have ih2 := hm (lvl + 1) (List.drop 4 p)
            simp only
            generalize decMsgT cap mx fuel (lvl + 1) (List.drop 4 p) = r at ih2 ⊢
            obtain ⟨r1, r2⟩ := r
            cases r1 with
            | none => simp only [TabR, Tally.add_def, List.length_drop] at ih2 ⊢; omega
            | some x => simp only [TabR, Tally.add_def, List.length_nil, List.length_drop] at ih2 ⊢; omega
          · rw [if_neg h4]
            have ih2 := hi lvl p
            simp only
            generalize decMsgItemsT cap mx fuel lvl p = r at ih2 ⊢
            obtain ⟨r1, r2⟩ := r
            cases r1 with
            | none => simp only [TabR, TabI] at ih2 ⊢; omega
            | some x => simp only [TabR, TabI, List.length_nil] at ih2 ⊢; omega
      · rw [if_neg h2]
        cases h3 : rd32 p with
        | none => simp [TabR]
        | some v3 =>
          obtain ⟨cnt, q⟩ := v3
          have l3 := rd32_length h3
          simp only
          by_cases h4 : tc = tcString
          · rw [if_pos h4]
            split
            · simp [TabR]
            · apply c2_tab_leaf
              · simp [Tally.add_def, c2_tab_str]
              · intro x hx
                have e := c2_erase_str cnt q
                cases h6 : (decStrItemsT cnt q).1 with
                | none => rw [h6] at hx; cases hx
                | some y =>
                  obtain ⟨xs, rest⟩ := y
                  rw [h6] at hx e
                  have := c2_decStrItems_pos _ _ _ _ e.symm
                  cases hx
                  simp only; omega
          · rw [if_neg h4]
            by_cases h5 : cnt = 1
            · rw [if_pos h5]
              cases h6 : rd32 q with
              | none => simp [TabR]
              | some v6 =>
                obtain ⟨sz, q2⟩ := v6
                simp only
                split <;> simp [TabR]
            · rw [if_neg h5]
              apply c2_tab_leaf
              · simp [c2_tab_raw]
              · intro x hx
                have e := c2_erase_raw cnt q
                cases h6 : (decRawItemsT cnt q).1 with
                | none => rw [h6] at hx; cases hx
                | some y =>
                  obtain ⟨xs, rest⟩ := y
                  rw [h6] at hx e
                  have := c2_decRawItems_pos _ _ _ _ e.symm
                  cases hx
                  simp only; omega

theorem c2_tab_fields_zero (cap : Option Nat) (mx : Nat) : ∀ (lvl k : Nat) (b : Bytes) (acc : List (Bytes × Field)) (c : Nat),
    TabF b.length c acc.length (decFieldsT cap mx 0 lvl k b acc c).1 (decFieldsT cap mx 0 lvl k b acc c).2 := by
  intro lvl k b acc c
  cases k with
  | zero => simp only [decFieldsT, TabF]; omega
  | succ k => simp only [decFieldsT, TabF]; omega

theorem c2_tab_fields_succ (cap : Option Nat) (mx fuel : Nat) (ih : TabAt cap mx fuel) :
    ∀ (lvl k : Nat) (b : Bytes) (acc : List (Bytes × Field)) (c : Nat),
      TabF b.length c acc.length (decFieldsT cap mx (fuel + 1) lvl k b acc c).1 (decFieldsT cap mx (fuel + 1) lvl k b acc c).2 := by
  intro lvl k b acc c
  cases k with
  | zero => simp only [decFieldsT, TabF]; omega
  | succ k =>
    rw [decFieldsT]
    cases h1 : rd32 b with
    | none => simp only [TabF]; omega
    | some v1 =>
      obtain ⟨nl, b1⟩ := v1
      have l1 := rd32_length h1
      simp only
      cases h2 : takeN nl b1 with
      | none => simp only [TabF]; omega
      | some v2 =>
        obtain ⟨np, b2⟩ := v2
        obtain ⟨l2, l2'⟩ := c2_takeN_len h2
        simp only
        cases h3 : cstr np with
        | none => simp only [TabF]; omega
        | some nm =>
          simp only
          cases h4 : rd32 b2 with
          | none => simp only [TabF]; omega
          | some v4 =>
            obtain ⟨tc, b3⟩ := v4
            have l4 := rd32_length h4
            simp only
            cases h5 : rd32 b3 with
            | none => simp only [TabF]; omega
            | some v5 =>
              obtain ⟨el, b4⟩ := v5
              have l5 := rd32_length h5
              simp only
              have key : ∀ tc' p1 p2 m', (∀ f, (upsertField nm f acc).length = m') →
                  ((p1 = 0 ∧ p2 = c ∧ m' = acc.length ∧ acc.length ≠ 0) ∨
                   (acc.length = 0 ∧ p1 = c ∧ p2 = c ∧ m' = 1) ∨
                   (acc.length ≠ 0 ∧ acc.length = c ∧ p1 = 2 * c ∧ p2 = 2 * c ∧ m' = acc.length + 1) ∨
                   (acc.length ≠ 0 ∧ acc.length ≠ c ∧ p1 = 0 ∧ p2 = c ∧ m' = acc.length + 1)) →
                  TabF b.length c acc.length
                  (match (decPayloadT cap mx fuel lvl tc' (List.take el b4)).1 with
                    | none => ((none : Option (List (Bytes × Field) × Bytes)),
                        ({ table := p1, steps := 1, window := max np.length (List.take el b4).length, copied := nm.length + 1,
                           reserve := nm.length + 1 } : Tally) + (decPayloadT cap mx fuel lvl tc' (List.take el b4)).2)
                    | some (f, rest) =>
                      ((decFieldsT cap mx fuel lvl k (rest ++ List.drop el b4) (upsertField nm f acc) p2).1,
                        ({ table := p1, steps := 1, window := max np.length (List.take el b4).length, copied := nm.length + 1,
                           reserve := nm.length + 1 } : Tally) + (decPayloadT cap mx fuel lvl tc' (List.take el b4)).2 +
                          (decFieldsT cap mx fuel lvl k (rest ++ List.drop el b4) (upsertField nm f acc) p2).2)).1
                  (match (decPayloadT cap mx fuel lvl tc' (List.take el b4)).1 with
                    | none => ((none : Option (List (Bytes × Field) × Bytes)),
                        ({ table := p1, steps := 1, window := max np.length (List.take el b4).length, copied := nm.length + 1,
                           reserve := nm.length + 1 } : Tally) + (decPayloadT cap mx fuel lvl tc' (List.take el b4)).2)
                    | some (f, rest) =>
                      ((decFieldsT cap mx fuel lvl k (rest ++ List.drop el b4) (upsertField nm f acc) p2).1,
                        ({ table := p1, steps := 1, window := max np.length (List.take el b4).length, copied := nm.length + 1,
                           reserve := nm.length + 1 } : Tally) + (decPayloadT cap mx fuel lvl tc' (List.take el b4)).2 +
                          (decFieldsT cap mx fuel lvl k (rest ++ List.drop el b4) (upsertField nm f acc) p2).2)).2 := by
                intro tc' p1 p2 m' hm' hstep
                have ih2 := ih.payload lvl tc' (List.take el b4)
                generalize decPayloadT cap mx fuel lvl tc' (List.take el b4) = r at ih2 ⊢
                obtain ⟨r1, r2⟩ := r
                cases r1 with
                | none =>
                  simp only [TabF, TabR, Tally.add_def, List.length_take] at ih2 ⊢; omega
                | some x =>
                  obtain ⟨f, rest⟩ := x
                  simp only
                  have ih3 := ih.fields lvl k (rest ++ List.drop el b4) (upsertField nm f acc) p2
                  rw [hm' f] at ih3
                  generalize decFieldsT cap mx fuel lvl k (rest ++ List.drop el b4) (upsertField nm f acc) p2 = r' at ih3 ⊢
                  obtain ⟨r1', r2'⟩ := r'
                  cases r1' with
                  | none =>
                    simp only [TabF, TabR, Tally.add_def, List.length_take, List.length_append, List.length_drop] at ih2 ih3 ⊢
                    omega
                  | some y =>
                    simp only [TabF, TabR, Tally.add_def, List.length_take, List.length_append, List.length_drop] at ih2 ih3 ⊢
                    omega
              cases h6 : lookupField nm acc with
              | none =>
                simp only
                refine key _ _ _ (acc.length + 1) (fun f => c2_upsert_length_new nm f acc h6) ?_
                unfold putCharge
                by_cases e0 : acc.length = 0
                · rw [if_pos e0]; simp only [true_and, and_true]; omega
                · rw [if_neg e0]
                  by_cases e1 : acc.length = c
                  · rw [if_pos e1]; simp only [true_and, and_true]; omega
                  · rw [if_neg e1]; simp only [true_and, and_true]; omega
              | some g =>
                simp only
                by_cases hc : tc = tcAny ∨ tc = g.typeCode
                · rw [if_pos hc]
                  have hl := fun f => c2_upsert_length_old nm f acc g h6
                  refine key _ _ _ acc.length (fun f => (hl f).1) ?_
                  have := (hl g).2
                  omega
                · rw [if_neg hc]; simp only [TabF]; omega

theorem c2_tabAt (cap : Option Nat) (hcap : ∀ n, presize cap n ≤ 36) (mx : Nat) : ∀ fuel, TabAt cap mx fuel := by
  intro fuel
  induction fuel with
  | zero =>
    have hm : ∀ (lvl : Nat) (b : Bytes), TabR b.length (decMsgT cap mx 0 lvl b).1 (decMsgT cap mx 0 lvl b).2 := by
      intro lvl b; simp [decMsgT, TabR]
    have hi : ∀ (lvl : Nat) (b : Bytes), TabI b.length (decMsgItemsT cap mx 0 lvl b).1 (decMsgItemsT cap mx 0 lvl b).2 := by
      intro lvl b; cases b <;> simp [decMsgItemsT, TabI]
    exact ⟨hm, c2_tab_fields_zero cap mx, c2_tab_payload cap mx 0 hm hi, hi⟩
  | succ fuel ih =>
    have hm := c2_tab_msg_succ cap hcap mx fuel ih
    have hi := c2_tab_items_succ cap mx fuel ih
    exact ⟨hm, c2_tab_fields_succ cap mx fuel ih, c2_tab_payload cap mx (fuel + 1) hm hi, hi⟩

end Muscle.Wire
