import MuscleModel.Wire.Checksum
import MuscleModel.Wire.MoreProofs

/-! Lemmas about `checksumMsg` for C01: independence of the inline/array representation, invariance under the
serialisation round trip, independence of the field order. -/

set_option linter.unusedSimpArgs false

namespace Muscle.Wire
open Muscle Muscle.Gen

/-! ## inline rule = array rule on one item -/

theorem chkInl_eq_chkArr (tc c : Nat) : chkInl tc c = chkArr tc [c] := by
  simp [chkInl, chkArr, wsum]

theorem chkItems_inl_eq_arr (tc c : Nat) : chkItems tc .inl [c] = chkItems tc .arr [c] := by
  simp [chkItems, chkInl_eq_chkArr]

theorem chkItems_eq_arr (tc : Nat) (rp : Rep) (cs : List Nat) (h : rp = .inl → cs.length = 1) :
    chkItems tc rp cs = chkArr tc cs := by
  cases rp with
  | arr => simp [chkItems]
  | inl =>
    have := h rfl
    match cs, this with
    | [c], _ => simp [chkItems, chkInl_eq_chkArr]

theorem chkItems_repOf (tc : Nat) (rp : Rep) (cs : List Nat) (n : Nat) (hn : cs.length = n)
    (h : rp = .inl → n = 1) : chkItems tc (repOf n) cs = chkItems tc rp cs := by
  rw [chkItems_eq_arr tc rp cs (by intro e; rw [hn]; exact h e),
    chkItems_eq_arr tc (repOf n) cs (by intro e; simp [repOf] at e; rw [hn]; exact e)]

theorem chkMsgList_length : ∀ (ms : List Msg), (chkMsgList ms).length = ms.length
  | [] => by simp [chkMsgList]
  | _ :: r => by simp [chkMsgList, chkMsgList_length r]

/-! ## one entry at a time -/

/-- what one entry contributes to `Message::CalculateChecksum(false)`; nothing for a pointer/tag field -/
def entryChk (n : Bytes) (f : Field) : Nat :=
  if f.flattenable then entryTerm (hashBytes n) (checksumField f) else 0

theorem chkFields_cons (n : Bytes) (f : Field) (r : List (Bytes × Field)) :
    chkFields ((n, f) :: r) = entryChk n f + chkFields r := by
  cases f <;> simp [chkFields, entryChk, checksumField, Field.flattenable]

theorem chkFields_eq_sum (fs : List (Bytes × Field)) :
    chkFields fs = (fs.map (fun e => entryChk e.1 e.2)).sum := by
  induction fs with
  | nil => simp [chkFields]
  | cons a r ih =>
    obtain ⟨n, f⟩ := a
    simp [chkFields_cons, ih]

theorem chkFields_perm {fs₁ fs₂ : List (Bytes × Field)} (h : fs₁.Perm fs₂) : chkFields fs₁ = chkFields fs₂ := by
  induction h with
  | nil => rfl
  | cons x _ ih => obtain ⟨n, f⟩ := x; simp only [chkFields_cons, ih]
  | swap x y l =>
    obtain ⟨n, f⟩ := x; obtain ⟨n', f'⟩ := y
    simp only [chkFields_cons]; omega
  | trans _ _ ih1 ih2 => exact ih1.trans ih2

/-! ## the round trip keeps the checksum -/

mutual
theorem checksumMsg_trip : ∀ (m : Msg), wfMsg m → checksumMsg (tripMsg m) = checksumMsg m
  | .mk w fs, h => by
    simp only [wfMsg] at h
    simp [tripMsg, checksumMsg, chkFields_trip fs h.2.2]
theorem chkFields_trip : ∀ (fs : List (Bytes × Field)), wfFields fs →
    chkFields (tripFields fs) = chkFields fs
  | [], _ => by simp [tripFields]
  | (n, .opaque tc k) :: r, h => by
    simp only [wfFields] at h
    simpa [tripFields, chkFields] using chkFields_trip r h
  | (n, .fixed tc rp xs) :: r, h => by
    simp only [wfFields] at h
    obtain ⟨_, _, _, _, _, _, _, hr, _, hrest⟩ := h
    simp [tripFields, chkFields, chkFields_trip r hrest,
      chkItems_repOf tc rp (xs.map (chkFixedItem tc)) xs.length (by simp) hr]
  | (n, .strs rp xs) :: r, h => by
    simp only [wfFields] at h
    obtain ⟨_, _, _, _, hr, _, hrest⟩ := h
    simp [tripFields, chkFields, chkFields_trip r hrest,
      chkItems_repOf tcString rp (xs.map hashBytes) xs.length (by simp) hr]
  | (n, .raws tc rp xs) :: r, h => by
    simp only [wfFields] at h
    obtain ⟨_, _, _, _, _, hr, _, hrest⟩ := h
    simp [tripFields, chkFields, chkFields_trip r hrest,
      chkItems_repOf tc rp (xs.map hashBytes) xs.length (by simp) hr]
  | (n, .msgs rp ms) :: r, h => by
    simp only [wfFields] at h
    obtain ⟨_, _, _, hms, hr, _, hrest⟩ := h
    have him := chkMsgList_trip ms hms
    simp [tripFields, chkFields, chkFields_trip r hrest, him,
      chkItems_repOf tcMessage rp (chkMsgList ms) ms.length (chkMsgList_length ms) hr]
theorem chkMsgList_trip : ∀ (ms : List Msg), wfMsgs ms → chkMsgList (tripMsgs ms) = chkMsgList ms
  | [], _ => by simp [tripMsgs]
  | m :: r, h => by
    simp only [wfMsgs] at h
    simp [tripMsgs, chkMsgList, checksumMsg_trip m h.2.1, chkMsgList_trip r h.2.2]
end

end Muscle.Wire
