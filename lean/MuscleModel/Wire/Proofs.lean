import MuscleModel.Wire.Canon

/-! Lemmas for the C01/C08 theorems: one lemma per reader combinator, then mutual structural
recursion over the nested `Msg`/`Field` value. -/

set_option linter.unusedSimpArgs false

namespace Muscle.Wire
open Muscle Muscle.Gen

/-! ## small facts -/

theorem leVal_le32 (n : Nat) (h : n < U32) : leVal (le32 n) = n :=
  leVal_leN 4 n (by simpa [U32] using h)

theorem cstr_name (n : Bytes) (h : nulFree n) : cstr (n ++ [0]) = some n := by
  have hc : (n ++ [0]).contains 0 = true := by simp
  have ht : ∀ (l : Bytes), (∀ x ∈ l, x ≠ 0) → (l ++ [0]).takeWhile (· != 0) = l := by
    intro l
    induction l with
    | nil => intro _; simp
    | cons a t ih =>
      intro hl
      have ha : a ≠ 0 := hl a (by simp)
      have := ih (fun x hx => hl x (by simp [hx]))
      simp [ha, this]
  simp only [cstr, hc, if_true]
  rw [ht n h]

theorem takeN_name (n X : Bytes) : takeN (n.length + 1) (n ++ 0 :: X) = some (n ++ [0], X) := by
  have := takeN_append' (n ++ [0]) X (n.length + 1) (by simp)
  simpa using this

/-! ## fixed-size payloads -/

theorem encFixedArr_length (sz : Nat) (xs : List Bytes) (h : ∀ x ∈ xs, x.length = sz) :
    (encFixedArr xs).length = xs.length * sz := by
  induction xs with
  | nil => simp [encFixedArr]
  | cons x r ih =>
    have hx := h x (by simp)
    have := ih (fun y hy => h y (by simp [hy]))
    simp [encFixedArr, hx, this, Nat.add_mul]
    omega

theorem chunks_encFixedArr (sz : Nat) (xs : List Bytes) (h : ∀ x ∈ xs, x.length = sz) :
    chunks sz xs.length (encFixedArr xs) = xs := by
  induction xs with
  | nil => simp [chunks]
  | cons x r ih =>
    have hx := h x (by simp)
    have := ih (fun y hy => h y (by simp [hy]))
    subst hx
    simp [chunks, encFixedArr, this]

theorem encFixed_eq_arr (rp : Rep) (xs : List Bytes) (h : rp = .inl → xs.length = 1) :
    encFixed rp xs = encFixedArr xs := by
  cases rp with
  | arr => simp [encFixed]
  | inl =>
    have := h rfl
    match xs, this with
    | [x], _ => simp [encFixed, encFixedArr]

theorem map_normBool_id (xs : List Bytes) (h : ∀ x ∈ xs, normBool x = x) : xs.map normBool = xs := by
  induction xs with
  | nil => rfl
  | cons x r ih => simp [h x (by simp), ih (fun y hy => h y (by simp [hy]))]

theorem decFixed_enc (tc sz : Nat) (xs : List Bytes) (hsz : sz ≠ 0)
    (hl : ∀ x ∈ xs, x.length = sz) (hb : tc = tcBool → ∀ x ∈ xs, normBool x = x) :
    decFixed tc sz (encFixedArr xs) = some (.fixed tc (repOf xs.length) xs, []) := by
  have hlen := encFixedArr_length sz xs hl
  have hpos : 0 < sz := Nat.pos_of_ne_zero hsz
  unfold decFixed
  by_cases h1 : xs.length = 1
  · -- one item: the inline reader
    match xs, h1 with
    | [x], _ =>
      have hx : x.length = sz := hl x (by simp)
      have hd : (encFixedArr [x]).length / sz = 1 := by
        rw [hlen]; simp; exact Nat.div_self hpos
      simp only [hd, if_true]
      have henc : encFixedArr [x] = x := by simp [encFixedArr]
      rw [henc]
      have ht : x.take sz = x := by rw [← hx]; simp
      have hdr : x.drop sz = [] := by rw [← hx]; simp
      rw [ht, hdr]
      by_cases hbool : tc = tcBool
      · have := hb hbool x (by simp)
        simp [hbool, this, repOf]
      · simp [hbool, repOf]
  · have hd : (encFixedArr xs).length / sz = xs.length := by
      rw [hlen]; exact Nat.mul_div_cancel _ hpos
    have hm : (encFixedArr xs).length % sz = 0 := by
      rw [hlen]; exact Nat.mul_mod_left _ _
    simp only [hd, h1, if_false, hm, ne_eq, not_true_eq_false]
    rw [chunks_encFixedArr sz xs hl]
    by_cases hbool : tc = tcBool
    · simp [hbool, map_normBool_id xs (hb hbool), repOf, h1]
    · simp [hbool, repOf, h1]

/-! ## string and raw payloads -/

theorem decStrItems_enc (xs : List Bytes) (h : ∀ s ∈ xs, nulFree s ∧ s.length + 1 < U32) (rest : Bytes) :
    decStrItems xs.length (encStrItems xs ++ rest) = some (xs, rest) := by
  induction xs with
  | nil => simp [decStrItems, encStrItems]
  | cons s r ih =>
    obtain ⟨hn, hl⟩ := h s (by simp)
    have ihr := ih (fun y hy => h y (by simp [hy]))
    have hl' : s.length + 1 < 4294967296 := by simpa [U32] using hl
    simp only [List.length_cons, decStrItems, encStrItems, List.append_assoc, List.cons_append]
    rw [rd32_le32 _ _ hl']
    simp only [takeN_name, ihr, cstr_name s hn]

theorem decRawItems_enc (xs : List Bytes) (h : ∀ b ∈ xs, b.length < U32) (rest : Bytes) :
    decRawItems xs.length (encRawItems xs ++ rest) = some (xs, rest) := by
  induction xs with
  | nil => simp [decRawItems, encRawItems]
  | cons b r ih =>
    have hl := h b (by simp)
    have ihr := ih (fun y hy => h y (by simp [hy]))
    have hl' : b.length < 4294967296 := by simpa [U32] using hl
    simp only [List.length_cons, decRawItems, encRawItems, List.append_assoc]
    rw [rd32_le32 _ _ hl']
    simp only [takeN_append, ihr]

end Muscle.Wire

namespace Muscle.Wire
open Muscle Muscle.Gen

/-! ## bookkeeping of the entry table -/

theorem lookupField_append_none (n n' : Bytes) (f : Field) (acc : List (Bytes × Field))
    (h : lookupField n acc = none) (hne : n' ≠ n) : lookupField n (acc ++ [(n', f)]) = none := by
  induction acc with
  | nil => simp [lookupField, hne]
  | cons a t ih =>
    obtain ⟨an, af⟩ := a
    simp only [lookupField, List.cons_append] at h ⊢
    split at h
    · cases h
    · rename_i hne'; simp [hne', ih h]

theorem upsertField_new (n : Bytes) (f : Field) (acc : List (Bytes × Field))
    (h : lookupField n acc = none) : upsertField n f acc = acc ++ [(n, f)] := by
  induction acc with
  | nil => simp [upsertField]
  | cons a t ih =>
    obtain ⟨an, af⟩ := a
    simp only [lookupField] at h
    split at h
    · cases h
    · rename_i hne; simp [upsertField, hne, ih h]

/-- one iteration of the entry loop of `Message::Unflatten` on a well-formed entry -/
theorem decFields_step (mx fuel lvl k : Nat) (n : Bytes) (tc : Nat) (P X : Bytes)
    (acc : List (Bytes × Field)) (F : Field)
    (hn : nulFree n) (hnl : n.length + 1 < U32) (htc : tc < U32) (hP : P.length < U32)
    (hlook : lookupField n acc = none)
    (hdec : decPayload mx fuel lvl tc P = some (F, [])) :
    decFields mx (fuel + 1) lvl (k + 1)
        (le32 (n.length + 1) ++ (n ++ (0 :: (le32 tc ++ (le32 P.length ++ (P ++ X)))))) acc
      = decFields mx fuel lvl k X (acc ++ [(n, F)]) := by
  have h1 : n.length + 1 < 4294967296 := by simpa [U32] using hnl
  have h2 : tc < 4294967296 := by simpa [U32] using htc
  have h3 : P.length < 4294967296 := by simpa [U32] using hP
  rw [decFields]
  simp only [rd32_le32 _ _ h1, takeN_name, rd32_le32 _ _ h2, rd32_le32 _ _ h3, cstr_name n hn, hlook,
    List.take_left', List.drop_left', hdec, upsertField_new n F acc hlook, List.nil_append]

end Muscle.Wire

namespace Muscle.Wire
open Muscle Muscle.Gen

/-! ## `MessageField::Unflatten` on the payload the writers produce -/

theorem decPayload_fixed (mx fuel lvl tc : Nat) (rp : Rep) (xs : List Bytes)
    (hsz : wireItemSize tc ≠ 0) (hl : ∀ x ∈ xs, x.length = wireItemSize tc)
    (hb : tc = tcBool → ∀ x ∈ xs, normBool x = x) (hr : rp = .inl → xs.length = 1) :
    decPayload mx fuel lvl tc (encFixed rp xs) = some (.fixed tc (repOf xs.length) xs, []) := by
  rw [encFixed_eq_arr rp xs hr]
  unfold decPayload
  simp only [hsz, ne_eq, not_false_eq_true, if_true]
  exact decFixed_enc tc (wireItemSize tc) xs hsz hl hb

theorem encStrs_eq_arr (rp : Rep) (xs : List Bytes) (h : rp = .inl → xs.length = 1) :
    encStrs rp xs = le32 xs.length ++ encStrItems xs := by
  cases rp with
  | arr => simp [encStrs]
  | inl =>
    have := h rfl
    match xs, this with
    | [x], _ => simp [encStrs, encStrItems]

theorem encRaws_eq_arr (rp : Rep) (xs : List Bytes) (h : rp = .inl → xs.length = 1) :
    encRaws rp xs = le32 xs.length ++ encRawItems xs := by
  cases rp with
  | arr => simp [encRaws]
  | inl =>
    have := h rfl
    match xs, this with
    | [x], _ => simp [encRaws, encRawItems]

theorem wireItemSize_tcString : wireItemSize tcString = 0 := by decide
theorem wireItemSize_tcMessage : wireItemSize tcMessage = 0 := by decide

theorem decPayload_strs (mx fuel lvl : Nat) (rp : Rep) (xs : List Bytes)
    (h : ∀ s ∈ xs, nulFree s ∧ s.length + 1 < U32) (hr : rp = .inl → xs.length = 1)
    (hlen : xs.length < U32) :
    decPayload mx fuel lvl tcString (encStrs rp xs) = some (.strs (repOf xs.length) xs, []) := by
  rw [encStrs_eq_arr rp xs hr]
  have hl' : xs.length < 4294967296 := by simpa [U32] using hlen
  have hd := decStrItems_enc xs h []
  simp only [List.append_nil] at hd
  unfold decPayload
  have e1 : tcString ≠ tcPointer := by decide
  have e2 : tcString ≠ tcTag := by decide
  have e3 : tcString ≠ tcMessage := by decide
  simp only [wireItemSize_tcString, ne_eq, not_true_eq_false, if_false, e1, e2, e3, or_self,
    rd32_le32 _ _ hl', hd, if_true, repOf]

theorem decPayload_raws (mx fuel lvl tc : Nat) (rp : Rep) (xs : List Bytes)
    (htc : isRawTc tc) (h : ∀ b ∈ xs, b.length < U32) (hr : rp = .inl → xs.length = 1)
    (hlen : xs.length < U32) :
    decPayload mx fuel lvl tc (encRaws rp xs) = some (.raws tc (repOf xs.length) xs, []) := by
  rw [encRaws_eq_arr rp xs hr]
  obtain ⟨hs, hp, ht, hm, hst, _⟩ := htc
  have hl' : xs.length < 4294967296 := by simpa [U32] using hlen
  unfold decPayload
  simp only [hs, ne_eq, not_true_eq_false, if_false, hp, ht, hm, hst, or_self, rd32_le32 _ _ hl']
  by_cases h1 : xs.length = 1
  · match xs, h1 with
    | [b], _ =>
      have hb : b.length < 4294967296 := by simpa [U32] using h b (by simp)
      simp [encRawItems, rd32_le32 _ _ hb, repOf]
  · have hd := decRawItems_enc xs h []
    simp only [List.append_nil] at hd
    simp only [h1, if_false, hd, repOf]

end Muscle.Wire

namespace Muscle.Wire
open Muscle Muscle.Gen

theorem encMsg_length_ge (m : Msg) : 12 ≤ (encMsg m).length := by
  cases m with
  | mk w fs => simp [encMsg]; omega

theorem encMsgsF_eq_items (rp : Rep) (ms : List Msg) (h : rp = .inl → ms.length = 1) :
    encMsgsF rp ms = encMsgItems ms := by
  cases rp with
  | arr => simp [encMsgsF]
  | inl =>
    have := h rfl
    match ms, this with
    | [m], _ => simp [encMsgsF, encMsgItems]

/-- the Message branch of `MessageField::Unflatten`, given what the recursive calls return -/
theorem decPayload_msgs (mx fuel lvl : Nat) (ms : List Msg)
    (hlen : ∀ m ∈ ms, (encMsg m).length < U32)
    (hsingle : ∀ m, ms = [m] → decMsg mx fuel (lvl + 1) (encMsg m) = some (tripMsg m, []))
    (hitems : 2 ≤ ms.length → decMsgItems mx fuel lvl (encMsgItems ms) = some (tripMsgs ms)) :
    decPayload mx fuel lvl tcMessage (encMsgItems ms)
      = some (.msgs (repOf ms.length) (tripMsgs ms), []) := by
  unfold decPayload
  have e1 : tcMessage ≠ tcPointer := by decide
  have e2 : tcMessage ≠ tcTag := by decide
  simp only [wireItemSize_tcMessage, ne_eq, not_true_eq_false, if_false, e1, e2, or_self, if_true]
  match ms, hlen, hsingle, hitems with
  | [], _, _, _ => simp [encMsgItems, tripMsgs, repOf]
  | [m], hlen, hsingle, _ =>
    have hl : (encMsg m).length < U32 := hlen m (by simp)
    have h12 := encMsg_length_ge m
    have hlt : ¬ ((encMsgItems [m]).length < 4) := by simp [encMsgItems] <;> omega
    have htake : (encMsgItems [m]).take 4 = le32 (encMsg m).length := by
      simp [encMsgItems]
    have hdrop : (encMsgItems [m]).drop 4 = encMsg m := by
      have : (le32 (encMsg m).length).length = 4 := by simp
      simp [encMsgItems, this]
    have hlen2 : (encMsgItems [m]).length - 4 = (encMsg m).length := by simp [encMsgItems]
    simp only [hlt, if_false, htake, leVal_le32 _ hl, hlen2, if_true, hdrop, hsingle m rfl, tripMsgs, repOf,
      List.length_cons, List.length_nil]
  | m1 :: m2 :: r, hlen, _, hitems =>
    have hl : (encMsg m1).length < U32 := hlen m1 (by simp)
    have h12 := encMsg_length_ge m2
    have hlt : ¬ ((encMsgItems (m1 :: m2 :: r)).length < 4) := by simp [encMsgItems] <;> omega
    have htake : (encMsgItems (m1 :: m2 :: r)).take 4 = le32 (encMsg m1).length := by
      simp [encMsgItems]
    have hne : (encMsg m1).length ≠ (encMsgItems (m1 :: m2 :: r)).length - 4 := by
      simp [encMsgItems] <;> omega
    have h2 : 2 ≤ (m1 :: m2 :: r).length := by simp
    have hrep : repOf (m1 :: m2 :: r).length = .arr := by simp [repOf]
    simp only [hlt, if_false, htake, leVal_le32 _ hl, hne, hitems h2, hrep]

end Muscle.Wire

namespace Muscle.Wire
open Muscle Muscle.Gen

theorem countFlat_le (fs : List (Bytes × Field)) : 12 * countFlat fs ≤ (encFields fs).length := by
  induction fs with
  | nil => simp [countFlat, encFields]
  | cons a r ih =>
    obtain ⟨n, f⟩ := a
    cases f <;> simp [countFlat, encFields] <;> omega

theorem protocolVersion_ok : ¬ (protocolVersion < oldestProtocolVersion ∨ protocolVersion < protocolVersion) := by decide

mutual
theorem decMsg_enc (mx : Nat) : ∀ (m : Msg), wfMsg m → ∀ (fuel lvl : Nat) (rest : Bytes),
    nodesMsg m ≤ fuel → lvl + depthMsg m ≤ mx + 1 →
    decMsg mx fuel lvl (encMsg m ++ rest) = some (tripMsg m, rest)
  | .mk w fs, h, fuel, lvl, rest, hf, hd => by
    simp only [wfMsg] at h
    obtain ⟨hw, hc, hfs⟩ := h
    cases fuel with
    | zero => simp [nodesMsg] at hf
    | succ fuel =>
      have hrec := decFields_enc mx fs hfs fuel lvl rest []
        (by simp [nodesMsg] at hf; omega) (by simp [depthMsg] at hd; omega) (by intro n _; rfl)
      have hlvl : ¬ (mx < lvl) := by simp [depthMsg] at hd; omega
      have hcnt : ¬ ((encFields fs ++ rest).length / 12 < countFlat fs) := by
        have := countFlat_le fs
        simp only [List.length_append]; omega
      have hpv : protocolVersion < 4294967296 := by decide
      have hw' : w < 4294967296 := by simpa [U32] using hw
      have hc' : countFlat fs < 4294967296 := by simpa [U32] using hc
      simp only [encMsg, decMsg, hlvl, if_false, List.append_assoc, rd32_le32 _ _ hpv, protocolVersion_ok,
        rd32_le32 _ _ hw', rd32_le32 _ _ hc', hcnt, hrec, List.nil_append, tripMsg]
theorem decFields_enc (mx : Nat) : ∀ (fs : List (Bytes × Field)), wfFields fs →
    ∀ (fuel lvl : Nat) (rest : Bytes) (acc : List (Bytes × Field)),
    nodesFields fs ≤ fuel → lvl + 1 + depthFields fs ≤ mx + 1 →
    (∀ x ∈ flatNames fs, lookupField x acc = none) →
    decFields mx fuel lvl (countFlat fs) (encFields fs ++ rest) acc = some (acc ++ tripFields fs, rest)
  | [], _, fuel, lvl, rest, acc, _, _, _ => by
    cases fuel <;> simp [decFields, encFields, countFlat, tripFields]
  | (n, .opaque tc k) :: r, h, fuel, lvl, rest, acc, hf, hd, hacc => by
    simp only [wfFields] at h
    have := decFields_enc mx r h fuel lvl rest acc (by simpa [nodesFields] using hf)
      (by simpa [depthFields] using hd) (by simpa [flatNames] using hacc)
    simpa [countFlat, encFields, tripFields] using this
  | (n, .fixed tc rp xs) :: r, h, fuel, lvl, rest, acc, hf, hd, hacc => by
    simp only [wfFields] at h
    obtain ⟨hn, hnl, hnr, hsz, htc, hl, hb, hr, hlen, hrest⟩ := h
    cases fuel with
    | zero => simp [nodesFields] at hf
    | succ fuel =>
      have hlook : lookupField n acc = none := hacc n (by simp [flatNames])
      have hpay := decPayload_fixed mx fuel lvl tc rp xs hsz hl hb hr
      have hplen : (encFixed rp xs).length < U32 := by
        rw [encFixed_eq_arr rp xs hr, encFixedArr_length _ xs hl]; exact hlen
      have ih := decFields_enc mx r hrest fuel lvl rest (acc ++ [(n, .fixed tc (repOf xs.length) xs)])
        (by simp [nodesFields] at hf; omega) (by simpa [depthFields] using hd)
        (by
          intro x hx
          exact lookupField_append_none x n _ acc (hacc x (by simp [flatNames, hx]))
            (by intro e; exact hnr (e ▸ hx)))
      simp only [countFlat, encFields, List.append_assoc, List.cons_append, Nat.add_comm 1]
      rw [decFields_step mx fuel lvl (countFlat r) n tc (encFixed rp xs) (encFields r ++ rest) acc _ hn hnl htc hplen hlook hpay]
      simpa [tripFields] using ih
  | (n, .strs rp xs) :: r, h, fuel, lvl, rest, acc, hf, hd, hacc => by
    simp only [wfFields] at h
    obtain ⟨hn, hnl, hnr, hs, hr, hlen, hrest⟩ := h
    cases fuel with
    | zero => simp [nodesFields] at hf
    | succ fuel =>
      have hlook : lookupField n acc = none := hacc n (by simp [flatNames])
      have hcnt : xs.length < U32 := by
        have : 4 * xs.length ≤ (encStrs .arr xs).length := by
          have hgen : ∀ (l : List Bytes), 4 * l.length ≤ (encStrItems l).length := by
            intro l; induction l with
            | nil => simp
            | cons a t iht => simp [encStrItems]; omega
          have := hgen xs
          simp [encStrs]; omega
        omega
      have hpay := decPayload_strs mx fuel lvl rp xs hs hr hcnt
      have hplen : (encStrs rp xs).length < U32 := by
        rw [encStrs_eq_arr rp xs hr]; simpa [encStrs] using hlen
      have htc : tcString < U32 := by decide
      have ih := decFields_enc mx r hrest fuel lvl rest (acc ++ [(n, .strs (repOf xs.length) xs)])
        (by simp [nodesFields] at hf; omega) (by simpa [depthFields] using hd)
        (by
          intro x hx
          exact lookupField_append_none x n _ acc (hacc x (by simp [flatNames, hx]))
            (by intro e; exact hnr (e ▸ hx)))
      simp only [countFlat, encFields, List.append_assoc, List.cons_append, Nat.add_comm 1]
      rw [decFields_step mx fuel lvl (countFlat r) n tcString (encStrs rp xs) (encFields r ++ rest) acc _ hn hnl htc hplen hlook hpay]
      simpa [tripFields] using ih
  | (n, .raws tc rp xs) :: r, h, fuel, lvl, rest, acc, hf, hd, hacc => by
    simp only [wfFields] at h
    obtain ⟨hn, hnl, hnr, hraw, hs, hr, hlen, hrest⟩ := h
    cases fuel with
    | zero => simp [nodesFields] at hf
    | succ fuel =>
      have hlook : lookupField n acc = none := hacc n (by simp [flatNames])
      have hcnt : xs.length < U32 := by
        have hgen : ∀ (l : List Bytes), 4 * l.length ≤ (encRawItems l).length := by
          intro l; induction l with
          | nil => simp
          | cons a t iht => simp [encRawItems]; omega
        have := hgen xs
        simp [encRaws] at hlen; omega
      have hpay := decPayload_raws mx fuel lvl tc rp xs hraw hs hr hcnt
      have hplen : (encRaws rp xs).length < U32 := by
        rw [encRaws_eq_arr rp xs hr]; simpa [encRaws] using hlen
      have htc : tc < U32 := hraw.2.2.2.2.2
      have ih := decFields_enc mx r hrest fuel lvl rest (acc ++ [(n, .raws tc (repOf xs.length) xs)])
        (by simp [nodesFields] at hf; omega) (by simpa [depthFields] using hd)
        (by
          intro x hx
          exact lookupField_append_none x n _ acc (hacc x (by simp [flatNames, hx]))
            (by intro e; exact hnr (e ▸ hx)))
      simp only [countFlat, encFields, List.append_assoc, List.cons_append, Nat.add_comm 1]
      rw [decFields_step mx fuel lvl (countFlat r) n tc (encRaws rp xs) (encFields r ++ rest) acc _ hn hnl htc hplen hlook hpay]
      simpa [tripFields] using ih
  | (n, .msgs rp ms) :: r, h, fuel, lvl, rest, acc, hf, hd, hacc => by
    simp only [wfFields] at h
    obtain ⟨hn, hnl, hnr, hms, hr, hlen, hrest⟩ := h
    cases fuel with
    | zero => simp [nodesFields] at hf
    | succ fuel =>
      have hlook : lookupField n acc = none := hacc n (by simp [flatNames])
      have hdm : lvl + 1 + depthMsgs ms ≤ mx + 1 := by
        simp only [depthFields] at hd; omega
      have hfm : nodesMsgs ms ≤ fuel := by simp [nodesFields] at hf; omega
      have hlens : ∀ m ∈ ms, (encMsg m).length < U32 := by
        intro m hm
        have hgen : ∀ (l : List Msg), wfMsgs l → ∀ m ∈ l, (encMsg m).length < U32 := by
          intro l; induction l with
          | nil => intro _ m hm; cases hm
          | cons a t iht =>
            intro hw m hm
            simp only [wfMsgs] at hw
            cases hm with
            | head => exact hw.1
            | tail _ hm' => exact iht hw.2.2 m hm'
        exact hgen ms hms m hm
      have hpay : decPayload mx fuel lvl tcMessage (encMsgsF rp ms) = some (.msgs (repOf ms.length) (tripMsgs ms), []) := by
        rw [encMsgsF_eq_items rp ms hr]
        apply decPayload_msgs mx fuel lvl ms hlens
        · intro m hm
          subst hm
          simp only [wfMsgs] at hms
          have := decMsg_enc mx m hms.2.1 fuel (lvl + 1) []
            (by simp [nodesMsgs] at hfm; omega) (by simp [depthMsgs] at hdm; omega)
          simpa using this
        · intro _
          exact decMsgItems_enc mx ms hms fuel lvl hfm hdm
      have hplen : (encMsgsF rp ms).length < U32 := by
        rw [encMsgsF_eq_items rp ms hr]; exact hlen
      have htc : tcMessage < U32 := by decide
      have ih := decFields_enc mx r hrest fuel lvl rest (acc ++ [(n, .msgs (repOf ms.length) (tripMsgs ms))])
        (by simp [nodesFields] at hf; omega) (by simp only [depthFields] at hd; omega)
        (by
          intro x hx
          exact lookupField_append_none x n _ acc (hacc x (by simp [flatNames, hx]))
            (by intro e; exact hnr (e ▸ hx)))
      simp only [countFlat, encFields, List.append_assoc, List.cons_append, Nat.add_comm 1]
      rw [decFields_step mx fuel lvl (countFlat r) n tcMessage (encMsgsF rp ms) (encFields r ++ rest) acc _ hn hnl htc hplen hlook hpay]
      simpa [tripFields] using ih
theorem decMsgItems_enc (mx : Nat) : ∀ (ms : List Msg), wfMsgs ms → ∀ (fuel lvl : Nat),
    nodesMsgs ms ≤ fuel → lvl + 1 + depthMsgs ms ≤ mx + 1 →
    decMsgItems mx fuel lvl (encMsgItems ms) = some (tripMsgs ms)
  | [], _, fuel, lvl, _, _ => by cases fuel <;> simp [encMsgItems, decMsgItems, tripMsgs]
  | m :: r, h, fuel, lvl, hf, hd => by
    simp only [wfMsgs] at h
    obtain ⟨hl, hm, hr⟩ := h
    cases fuel with
    | zero => simp [nodesMsgs] at hf
    | succ fuel =>
      have h1 := decMsg_enc mx m hm fuel (lvl + 1) []
        (by simp [nodesMsgs] at hf; omega) (by simp only [depthMsgs] at hd; omega)
      have h2 := decMsgItems_enc mx r hr fuel lvl (by simp [nodesMsgs] at hf; omega)
        (by simp only [depthMsgs] at hd; omega)
      simp only [List.append_nil] at h1
      have hl' : (encMsg m).length < 4294967296 := by simpa [U32] using hl
      obtain ⟨a, t, hat⟩ : ∃ a t, le32 (encMsg m).length ++ (encMsg m ++ encMsgItems r) = a :: t := by
        simp [le32, leN]
      rw [encMsgItems, hat, decMsgItems, ← hat]
      simp [hl', h1, h2, tripMsgs]
end

end Muscle.Wire
