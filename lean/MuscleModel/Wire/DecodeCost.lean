import MuscleModel.Wire.Decode
import MuscleModel.Generated.ParseGuards

/-!
# The Message parser with a cost tally (C02)

An instrumented twin of `Wire/Decode.lean`: the same recursion, check for check, but every function returns its result
TOGETHER WITH a `Tally` of what `Message::Unflatten` and the readers below it reserved, copied and iterated on the way —
on every path, failures included.

The checks that bound a reservation by the bytes actually present are not typed in: each is made only
`if <guard> && …`, where `<guard>` is a `Bool` constant of `Generated/ParseGuards.lean`, re-derived from the source text
of `/repo/message/Message.cpp` on every run (`tools/extract_parse_guards.py`).  With a guard missing the twin does what
the code would then do: it goes on, and charges the DECLARED count or length.  The theorems of `Props/C02.lean` unfold
the constants, so they stop compiling as soon as one of them regenerates as `false`.

What is charged (the C++ statement is named at each charge):

* `table`   entry-table slots requested by `Message::Unflatten`'s field table (`util/Hashtable.h`): `Clear(true)` leaves the
            default capacity and no array; `_entries.EnsureSize(muscleMin(numEntries, cap), true)` only sets the capacity of the
            (empty) table; the array of `capacity` slots is allocated when the FIRST field is stored (`EnsureTableAllocated`),
            and a new field name arriving at a full table reallocates it at twice the capacity (`PutAux`); a repeated name
            re-uses its slot.  Each allocation is charged with its capacity.  `cap` is a parameter of the twin (`none` =
            presize for the bare declared count); the theorems instantiate it with `Gen.entryPresizeCap`;
* `reserve` every other reservation, in the unit the code reserves in: array slots for `_data.EnsureSize(n, true)` of the
            fixed-size, bool and string arrays, one slot per `AddDataItem` (ByteBuffer and Message arrays grow item by
            item), one per Message obtained from the pool, bytes for a `GetByteBufferFromPool(n, …)` body and for a
            String's character buffer;
* `copied`  bytes copied out of the input into owned storage (field names, string bodies, ByteBuffer bodies, fixed-size items);
* `steps`   one per loop iteration and per `Message::Unflatten` call;
* `depth`   the largest nest count (`lvl`) with which `Message::Unflatten` was entered;
* `window`  the largest byte budget requested for a nested reader (read limiter, `DataUnflattenerHelper`, sub-Message reader).
-/

namespace Muscle.Wire
open Muscle Muscle.Gen

structure Tally where
  table : Nat := 0
  reserve : Nat := 0
  copied : Nat := 0
  steps : Nat := 0
  depth : Nat := 0
  window : Nat := 0
  deriving Repr, DecidableEq, Inhabited

/-- sequential composition: amounts add up, high-water marks take the maximum -/
def Tally.add (a b : Tally) : Tally :=
  { table := a.table + b.table, reserve := a.reserve + b.reserve, copied := a.copied + b.copied,
    steps := a.steps + b.steps, depth := max a.depth b.depth, window := max a.window b.window }

instance : Add Tally := ⟨Tally.add⟩

/-- `ReadFlatsWithLengthPrefixes<String>`: per item the length word, `SizeCheck(payloadSize)`, a helper reader of
    `payloadSize` bytes, `String::Unflatten` (scan for the NUL, then `SetCstr` copies `strlen + 1` bytes) -/
def decStrItemsT : Nat → Bytes → Option (List Bytes × Bytes) × Tally
  | 0, b => (some ([], b), {})
  | k+1, b =>
    match rd32 b with
    | none => (none, { steps := 1 })
    | some (len, b) =>
      match takeN len b with
      | none => (none, { steps := 1 })
      | some (p, b) =>
        match cstr p with
        | none => (none, { steps := 1, window := p.length })
        | some s =>
          let r := decStrItemsT k b
          (match r.1 with
            | some (xs, b) => some (s :: xs, b)
            | none => none,
           { steps := 1, window := p.length, copied := s.length + 1, reserve := s.length + 1 } + r.2)

/-- `ByteBufferDataArray::TemplatedUnflatten` item loop: length word, `readFs > available` check,
    `GetByteBufferFromPool(readFs, ptr)` (allocates and fills `readFs` bytes), `SeekRelative(readFs)`, `AddDataItem` -/
def decRawItemsT : Nat → Bytes → Option (List Bytes × Bytes) × Tally
  | 0, b => (some ([], b), {})
  | k+1, b =>
    match rd32 b with
    | none => (none, { steps := 1 })
    | some (len, b) =>
      if rawLenGuard && decide (b.length < len) then (none, { steps := 1 }) else
      match takeN len b with
      | none => (none, { steps := 1, reserve := len, copied := len })
      | some (p, b) =>
        let r := decRawItemsT k b
        (match r.1 with
          | none => none
          | some (xs, b) => some (p :: xs, b),
         { steps := 1, reserve := len + 1, copied := len } + r.2)

/-- fixed-size payloads: `SingleUnflatten` reads one item; the array readers check `numBytes % itemSize`, then
    `_data.EnsureSize(numBytes / itemSize, true)` (bool: `EnsureSize(numBytes)`, item size 1) and read every item -/
def decFixedT (tc sz : Nat) (p : Bytes) : Option (Field × Bytes) × Tally :=
  (decFixed tc sz p,
   if p.length / sz = 1 then { steps := 1, copied := sz }
   else if p.length % sz ≠ 0 then {}
   else { reserve := p.length / sz, copied := p.length, steps := p.length / sz })

/-- capacity of the field table after `Clear(true)` and `_entries.EnsureSize(muscleMin(numEntries, cap), true)` on the empty
    table (`HashtableMid::EnsureSize`: a request of 0 with `allowShrink` = `Clear(true)` = the default capacity) -/
def presize (cap : Option Nat) (n : Nat) : Nat :=
  let p := match cap with
    | some c => min n c
    | none => n
  if p = 0 then htDefaultCapacity else p

/-- `PutAux` of a NEW key into a table of capacity `c` holding `items` entries: (slots requested, capacity afterwards).
    The first entry allocates the array (`EnsureTableAllocated`); a full table is reallocated at `2·c` (`EnsureSize(_tableSize*2)`). -/
def putCharge (items c : Nat) : Nat × Nat :=
  if items = 0 then (c, c) else if items = c then (2 * c, 2 * c) else (0, c)

mutual
/-- `Message::Unflatten` -/
def decMsgT (cap : Option Nat) (mx : Nat) : Nat → Nat → Bytes → Option (Msg × Bytes) × Tally
  | 0, _, _ => (none, {})
  | fuel+1, lvl, b =>
    if nestGuard && decide (mx < lvl) then (none, { steps := 1, depth := lvl }) else
    match rd32 b with
    | none => (none, { steps := 1, depth := lvl })
    | some (ver, b) =>
      if ver < oldestProtocolVersion ∨ protocolVersion < ver then (none, { steps := 1, depth := lvl }) else
      match rd32 b with
      | none => (none, { steps := 1, depth := lvl })
      | some (what, b) =>
        match rd32 b with
        | none => (none, { steps := 1, depth := lvl })
        | some (n, b) =>
          if entryCountGuard && decide (b.length / 12 < n) then (none, { steps := 1, depth := lvl }) else
          -- `Clear(true); _entries.EnsureSize(muscleMin(numEntries, cap), true)`: sets the capacity, allocates nothing yet
          let r := decFieldsT cap mx fuel lvl n b [] (presize cap n)
          (match r.1 with
            | none => none
            | some (fs, b) => some (.mk what fs, b),
           { steps := 1, depth := lvl } + r.2)
/-- the entry loop of `Message::Unflatten`: `ReadFlatWithLengthPrefix(entryName)` (the name is copied), type code and
    payload length, `GetOrCreateMessageField`, a read limiter of `eLength` bytes (clamped to what is available),
    `MessageField::Unflatten` -/
def decFieldsT (cap : Option Nat) (mx : Nat) : Nat → Nat → Nat → Bytes → List (Bytes × Field) → Nat →
    Option (List (Bytes × Field) × Bytes) × Tally
  | _, _, 0, b, acc, _ => (some (acc, b), {})
  | 0, _, _+1, _, _, _ => (none, {})
  | fuel+1, lvl, k+1, b, acc, c =>
    match rd32 b with
    | none => (none, { steps := 1 })
    | some (nl, b) =>
      match takeN nl b with
      | none => (none, { steps := 1 })
      | some (np, b) =>
        match cstr np with
        | none => (none, { steps := 1, window := np.length })
        | some nm =>
          match rd32 b with
          | none => (none, { steps := 1, window := np.length, copied := nm.length + 1, reserve := nm.length + 1 })
          | some (tc, b) =>
            match rd32 b with
            | none => (none, { steps := 1, window := np.length, copied := nm.length + 1, reserve := nm.length + 1 })
            | some (el, b) =>
              let tc? : Option Nat :=
                match lookupField nm acc with
                | some f => if tc = tcAny ∨ tc = f.typeCode then some f.typeCode else none
                | none => some tc
              match tc? with
              | none => (none, { steps := 1, window := np.length, copied := nm.length + 1, reserve := nm.length + 1 })
              | some tc =>
                -- `GetOrCreateMessageField`: an existing field is re-used, a new name is stored (`_entries.PutAndGet`)
                let pc : Nat × Nat :=
                  match lookupField nm acc with
                  | some _ => (0, c)
                  | none => putCharge acc.length c
                let r := decPayloadT cap mx fuel lvl tc (b.take el)
                match r.1 with
                | none =>
                  (none, { table := pc.1, steps := 1, window := max np.length (b.take el).length, copied := nm.length + 1,
                           reserve := nm.length + 1 } + r.2)
                | some (f, rest) =>
                  let r' := decFieldsT cap mx fuel lvl k (rest ++ b.drop el) (upsertField nm f acc) pc.2
                  (r'.1, { table := pc.1, steps := 1, window := max np.length (b.take el).length, copied := nm.length + 1,
                           reserve := nm.length + 1 } + r.2 + r'.2)
/-- `MessageField::Unflatten` on the limited view `p` -/
def decPayloadT (cap : Option Nat) (mx : Nat) : Nat → Nat → Nat → Bytes → Option (Field × Bytes) × Tally
  | fuel, lvl, tc, p =>
    if wireItemSize tc ≠ 0 then decFixedT tc (wireItemSize tc) p
    else if tc = tcPointer ∨ tc = tcTag then (none, {})
    else if tc = tcMessage then
      if p.length < 4 then
        ((if p.length = 0 then some (.msgs .arr [], []) else none), {})
      else if leVal (p.take 4) = p.length - 4 then
        -- `SingleUnflatten`: `GetMessageFromPool(ptr, msgSize)` = one Message and a reader of `msgSize` bytes
        let r := decMsgT cap mx fuel (lvl + 1) (p.drop 4)
        (match r.1 with
          | none => none
          | some (m, _) => some (.msgs .inl [m], []),
         { reserve := 1, window := leVal (p.take 4) } + r.2)
      else
        let r := decMsgItemsT cap mx fuel lvl p
        (match r.1 with
          | none => none
          | some ms => some (.msgs .arr ms, []),
         r.2)
    else
      match rd32 p with
      | none => (none, {})
      | some (cnt, q) =>
        if tc = tcString then
          -- one item: `SingleUnflatten` (no array); otherwise `VariableSizeFlatObjectArray::TemplatedUnflatten`:
          -- `numElements > available/4` check, `_data.EnsureSize(numElements, true)`, `ReadFlatsWithLengthPrefixes`
          if cnt ≠ 1 ∧ (strCountGuard && decide (q.length / 4 < cnt)) = true then (none, {}) else
          let r := decStrItemsT cnt q
          (match r.1 with
            | none => none
            | some (xs, rest) => some (.strs (if cnt = 1 then .inl else .arr) xs, rest),
           { reserve := if cnt = 1 then 0 else cnt } + r.2)
        else if cnt = 1 then
          match rd32 q with
          | none => (none, {})
          | some (sz, q) =>
            -- `GetByteBufferFromPool(unflat.GetNumBytesAvailable(), ptr)` after `itemSize != available` was rejected
            if sz = q.length then (some (.raws tc .inl [q], []), { reserve := q.length, copied := q.length })
            else (none, {})
        else
          let r := decRawItemsT cnt q
          (match r.1 with
            | none => none
            | some (xs, rest) => some (.raws tc .arr xs, rest),
           r.2)
/-- `MessageDataArray::TemplatedUnflatten`: length word, `readFS > available` check, `GetMessageFromPool()`, a read
    limiter of `readFS` bytes, the recursive `Unflatten`, `AddDataItem` -/
def decMsgItemsT (cap : Option Nat) (mx : Nat) : Nat → Nat → Bytes → Option (List Msg) × Tally
  | _, _, [] => (some [], {})
  | 0, _, _ :: _ => (none, {})
  | fuel+1, lvl, b@(_ :: _) =>
    match rd32 b with
    | none => (none, { steps := 1 })
    | some (len, b) =>
      if subMsgLenGuard && decide (b.length < len) then (none, { steps := 1 }) else
      let r := decMsgT cap mx fuel (lvl + 1) (b.take len)
      match r.1 with
      | none => (none, { steps := 1, reserve := 1, window := len } + r.2)
      | some (m, rest) =>
        let r' := decMsgItemsT cap mx fuel lvl (rest ++ b.drop len)
        (match r'.1 with
          | none => none
          | some ms => some (m :: ms),
         { steps := 1, reserve := 2, window := len } + r.2 + r'.2)
end

/-- `Message::UnflattenFromBytes` with its tally -/
def decodeT (cap : Option Nat) (mx : Nat) (b : Bytes) : Option Msg × Tally :=
  let r := decMsgT cap mx (b.length + 2) 1 b
  (match r.1 with
    | some (m, _) => some m
    | none => none,
   r.2)

end Muscle.Wire
