import MuscleModel.Wire.CostProofs2

/-! C02 lemmas, part 4: the linear components of the tally (`reserve`, `copied`, `steps`, `window`, `depth`).

Invariant, per reader on an input of `inp` bytes (potential method: what was charged is paid for by bytes consumed):
* success with `rest` unread bytes: `reserve + rest ≤ inp`, `copied + rest ≤ inp`, `steps + rest ≤ inp`;
* failure: `reserve ≤ 2·inp`, `copied ≤ inp`, `steps ≤ inp + 1`;
* always: `window ≤ inp`; `depth ≤ D` for any `D` above the entry level and above `mx + 1`, and `depth + 1 ≤ D` on success
  (a parse that entered level `mx + 1` has failed).
Proved under the guards of `Generated/ParseGuards.lean` being `true` (each proof unfolds the constants it needs). -/

set_option linter.unusedSimpArgs false
set_option linter.unusedVariables false

namespace Muscle.Wire
open Muscle Muscle.Gen

theorem Tally.add_def (a b : Tally) : a + b =
    { table := a.table + b.table, reserve := a.reserve + b.reserve, copied := a.copied + b.copied,
      steps := a.steps + b.steps, depth := max a.depth b.depth, window := max a.window b.window } := rfl

def LinS (D inp rest : Nat) (t : Tally) : Prop :=
  t.reserve + rest ≤ inp ∧ t.copied + rest ≤ inp ∧ t.steps + rest ≤ inp ∧ t.window ≤ inp ∧ t.depth + 1 ≤ D

def LinF (D inp : Nat) (t : Tally) : Prop :=
  t.reserve ≤ 2 * inp ∧ t.copied ≤ inp ∧ t.steps ≤ inp + 1 ∧ t.window ≤ inp ∧ t.depth ≤ D

/-- readers that return the unread rest -/
def LinR {α : Type} (D inp : Nat) (r : Option (α × Bytes)) (t : Tally) : Prop :=
  match r with
  | some x => LinS D inp x.2.length t
  | none => LinF D inp t

/-- readers that consume their whole view -/
def LinI {α : Type} (D inp : Nat) (r : Option α) (t : Tally) : Prop :=
  match r with
  | some _ => LinS D inp 0 t
  | none => LinF D inp t

/-- the string item loop, with the sharper success bound the count reservation needs: every item pays 4 bytes more
    than what is reserved for it -/
def StrR (k inp : Nat) (r : Option (List Bytes × Bytes)) (t : Tally) : Prop :=
  match r with
  | some x => t.reserve + 4 * k + x.2.length ≤ inp ∧ t.copied + 4 * k + x.2.length ≤ inp ∧ t.steps + x.2.length ≤ inp ∧
      t.window ≤ inp ∧ t.depth = 0
  | none => t.reserve ≤ inp ∧ t.copied ≤ inp ∧ t.steps ≤ inp + 1 ∧ t.window ≤ inp ∧ t.depth = 0

/-- unfold the invariants and the tally arithmetic everywhere, then linear arithmetic -/
macro "c2_arith" : tactic =>
  `(tactic| (simp only [StrR, LinR, LinI, LinS, LinF, Tally.add_def, and_true, true_and, List.length_take,
      List.length_append, List.length_drop, List.length_nil, Nat.zero_le, Nat.le_refl] at * <;> omega))

theorem c2_lin_str : ∀ (k : Nat) (b : Bytes), StrR k b.length (decStrItemsT k b).1 (decStrItemsT k b).2 := by
  intro k
  induction k with
  | zero => intro b; simp [decStrItemsT, StrR]
  | succ k ih =>
    intro b
    simp only [decStrItemsT]
    cases h1 : rd32 b with
    | none => simp [StrR]
    | some v1 =>
      obtain ⟨len, b1⟩ := v1
      have l1 := rd32_length h1
      simp only
      cases h2 : takeN len b1 with
      | none => simp [StrR]
      | some v2 =>
        obtain ⟨p, b2⟩ := v2
        obtain ⟨l2, l2'⟩ := c2_takeN_len h2
        simp only
        cases h3 : cstr p with
        | none => c2_arith
        | some s =>
          have l3 := c2_cstr_len h3
          have ih2 := ih b2
          simp only
          generalize decStrItemsT k b2 = r at ih2 ⊢
          obtain ⟨r1, r2⟩ := r
          cases r1 with
          | none => c2_arith
          | some x => c2_arith

theorem c2_lin_raw (D : Nat) (hD1 : 1 ≤ D) : ∀ (k : Nat) (b : Bytes), LinR D b.length (decRawItemsT k b).1 (decRawItemsT k b).2 := by
  intro k
  induction k with
  | zero => intro b; simp [decRawItemsT, LinR, LinS]; omega
  | succ k ih =>
    intro b
    simp only [decRawItemsT]
    cases h1 : rd32 b with
    | none => simp [LinR, LinF]
    | some v1 =>
      obtain ⟨len, b1⟩ := v1
      have l1 := rd32_length h1
      simp only [rawLenGuard, Bool.true_and, decide_eq_true_eq]
      by_cases hlt : b1.length < len
      · rw [if_pos hlt]; simp [LinR, LinF]
      · rw [if_neg hlt]
        cases h2 : takeN len b1 with
        | none => have := c2_takeN_none h2; omega
        | some v2 =>
          obtain ⟨p, b2⟩ := v2
          obtain ⟨l2, l2'⟩ := c2_takeN_len h2
          have ih2 := ih b2
          simp only
          generalize decRawItemsT k b2 = r at ih2 ⊢
          obtain ⟨r1, r2⟩ := r
          cases r1 with
          | none => c2_arith
          | some x => c2_arith

theorem c2_lin_fixed (D tc sz : Nat) (p : Bytes) (hD1 : 1 ≤ D) : LinR D p.length (decFixedT tc sz p).1 (decFixedT tc sz p).2 := by
  unfold decFixedT decFixed
  by_cases h1 : p.length / sz = 1
  · rw [if_pos h1, if_pos h1]
    have hsz : 0 < sz ∧ sz ≤ p.length := by
      rcases Nat.eq_zero_or_pos sz with h0 | h0
      · subst h0; simp at h1
      · refine ⟨h0, ?_⟩
        rcases Nat.lt_or_ge p.length sz with hlt | hge
        · rw [Nat.div_eq_of_lt hlt] at h1; omega
        · exact hge
    c2_arith
  · rw [if_neg h1, if_neg h1]
    by_cases h2 : p.length % sz ≠ 0
    · rw [if_pos h2, if_pos h2]; simp [LinR, LinF]
    · rw [if_neg h2, if_neg h2]
      have := Nat.div_le_self p.length sz
      c2_arith

/-- the linear invariant for the four members of the mutual block at one fuel; `D` bounds the depth reached -/
structure LinAt (cap : Option Nat) (mx D fuel : Nat) : Prop where
  msg : ∀ (lvl : Nat) (b : Bytes), lvl ≤ D → LinR D b.length (decMsgT cap mx fuel lvl b).1 (decMsgT cap mx fuel lvl b).2
  fields : ∀ (lvl k : Nat) (b : Bytes) (acc : List (Bytes × Field)) (c : Nat), lvl + 1 ≤ D →
    LinR D b.length (decFieldsT cap mx fuel lvl k b acc c).1 (decFieldsT cap mx fuel lvl k b acc c).2
  payload : ∀ (lvl tc : Nat) (p : Bytes), lvl + 1 ≤ D →
    LinR D p.length (decPayloadT cap mx fuel lvl tc p).1 (decPayloadT cap mx fuel lvl tc p).2
  items : ∀ (lvl : Nat) (b : Bytes), lvl + 1 ≤ D →
    LinI D b.length (decMsgItemsT cap mx fuel lvl b).1 (decMsgItemsT cap mx fuel lvl b).2

theorem c2_lin_msg_succ (cap : Option Nat) (mx D fuel : Nat) (hD : mx + 1 ≤ D) (ih : LinAt cap mx D fuel) :
    ∀ (lvl : Nat) (b : Bytes), lvl ≤ D →
      LinR D b.length (decMsgT cap mx (fuel + 1) lvl b).1 (decMsgT cap mx (fuel + 1) lvl b).2 := by
  intro lvl b hlvl
  rw [decMsgT]
  simp only [nestGuard, entryCountGuard, Bool.true_and, decide_eq_true_eq]
  by_cases hl : mx < lvl
  · rw [if_pos hl]; c2_arith
  · rw [if_neg hl]
    cases h1 : rd32 b with
    | none => c2_arith
    | some v1 =>
      obtain ⟨ver, b1⟩ := v1
      have l1 := rd32_length h1
      simp only
      by_cases hv : ver < oldestProtocolVersion ∨ protocolVersion < ver
      · rw [if_pos hv]; c2_arith
      · rw [if_neg hv]
        cases h2 : rd32 b1 with
        | none => c2_arith
        | some v2 =>
          obtain ⟨what, b2⟩ := v2
          have l2 := rd32_length h2
          simp only
          cases h3 : rd32 b2 with
          | none => c2_arith
          | some v3 =>
            obtain ⟨n, b3⟩ := v3
            have l3 := rd32_length h3
            simp only
            by_cases hn : b3.length / 12 < n
            · rw [if_pos hn]; c2_arith
            · rw [if_neg hn]
              have ih2 := ih.fields lvl n b3 [] (presize cap n) (by omega)
              generalize decFieldsT cap mx fuel lvl n b3 [] (presize cap n) = r at ih2 ⊢
              obtain ⟨r1, r2⟩ := r
              cases r1 with
              | none => c2_arith
              | some x => c2_arith

theorem c2_lin_items_succ (cap : Option Nat) (mx D fuel : Nat) (ih : LinAt cap mx D fuel) :
    ∀ (lvl : Nat) (b : Bytes), lvl + 1 ≤ D →
      LinI D b.length (decMsgItemsT cap mx (fuel + 1) lvl b).1 (decMsgItemsT cap mx (fuel + 1) lvl b).2 := by
  intro lvl b hlvl
  cases b with
  | nil => simp [decMsgItemsT, LinI, LinS]; omega
  | cons a t =>
    rw [decMsgItemsT]
    simp only [subMsgLenGuard, Bool.true_and, decide_eq_true_eq]
    cases h1 : rd32 (a :: t) with
    | none => simp [LinI, LinF]
    | some v1 =>
      obtain ⟨len, b1⟩ := v1
      have l1 := rd32_length h1
      simp only
      by_cases hlt : b1.length < len
      · rw [if_pos hlt]; simp [LinI, LinF]
      · rw [if_neg hlt]
        have ih2 := ih.msg (lvl + 1) (List.take len b1) hlvl
        have e2 := (c2_eraseAt cap mx fuel).msg (lvl + 1) (List.take len b1)
        generalize decMsgT cap mx fuel (lvl + 1) (List.take len b1) = r at ih2 e2 ⊢
        obtain ⟨r1, r2⟩ := r
        cases r1 with
        | none =>
          c2_arith
        | some x =>
          obtain ⟨m, rest⟩ := x
          simp only
          have ih3 := ih.items lvl (rest ++ List.drop len b1) hlvl
          generalize decMsgItemsT cap mx fuel lvl (rest ++ List.drop len b1) = r' at ih3 ⊢
          obtain ⟨r1', r2'⟩ := r'
          have l2 := (c2_posAt mx fuel).msg _ _ _ _ e2.symm
          cases r1' with
          | none =>
            c2_arith
          | some ms =>
            c2_arith

theorem c2_lin_payload (cap : Option Nat) (mx D fuel : Nat)
    (hm : ∀ (lvl : Nat) (b : Bytes), lvl ≤ D → LinR D b.length (decMsgT cap mx fuel lvl b).1 (decMsgT cap mx fuel lvl b).2)
    (hi : ∀ (lvl : Nat) (b : Bytes), lvl + 1 ≤ D →
      LinI D b.length (decMsgItemsT cap mx fuel lvl b).1 (decMsgItemsT cap mx fuel lvl b).2) :
    ∀ (lvl tc : Nat) (p : Bytes), lvl + 1 ≤ D →
      LinR D p.length (decPayloadT cap mx fuel lvl tc p).1 (decPayloadT cap mx fuel lvl tc p).2 := by
  intro lvl tc p hlvl
  unfold decPayloadT
  by_cases h0 : wireItemSize tc ≠ 0
  · rw [if_pos h0]; exact c2_lin_fixed D tc _ p (by omega)
  · rw [if_neg h0]
    by_cases h1 : tc = tcPointer ∨ tc = tcTag
    · rw [if_pos h1]; simp [LinR, LinF]
    · rw [if_neg h1]
      by_cases h2 : tc = tcMessage
      · rw [if_pos h2]
        by_cases h3 : p.length < 4
        · rw [if_pos h3]
          by_cases h3' : p.length = 0
          · rw [if_pos h3']; simp [LinR, LinS, h3']; omega
          · rw [if_neg h3']; simp [LinR, LinF]
        · rw [if_neg h3]
          by_cases h4 : leVal (List.take 4 p) = p.length - 4
          · rw [if_pos h4]
            have ih2 := hm (lvl + 1) (List.drop 4 p) hlvl
            simp only
            generalize decMsgT cap mx fuel (lvl + 1) (List.drop 4 p) = r at ih2 ⊢
            obtain ⟨r1, r2⟩ := r
            cases r1 with
            | none => c2_arith
            | some x => c2_arith
          · rw [if_neg h4]
            have ih2 := hi lvl p hlvl
            simp only
            generalize decMsgItemsT cap mx fuel lvl p = r at ih2 ⊢
            obtain ⟨r1, r2⟩ := r
            cases r1 with
            | none => c2_arith
            | some x => c2_arith
      · rw [if_neg h2]
        cases h3 : rd32 p with
        | none => simp [LinR, LinF]
        | some v3 =>
          obtain ⟨cnt, q⟩ := v3
          have l3 := rd32_length h3
          simp only
          by_cases h4 : tc = tcString
          · rw [if_pos h4]
            simp only [strCountGuard, Bool.true_and, decide_eq_true_eq]
            by_cases h5 : cnt ≠ 1 ∧ q.length / 4 < cnt
            · rw [if_pos h5]; simp [LinR, LinF]
            · rw [if_neg h5]
              have ih2 := c2_lin_str cnt q
              generalize decStrItemsT cnt q = r at ih2 ⊢
              obtain ⟨r1, r2⟩ := r
              by_cases h6 : cnt = 1
              · cases r1 with
                | none => simp only [if_pos h6]; c2_arith
                | some x => simp only [if_pos h6]; c2_arith
              · cases r1 with
                | none => simp only [if_neg h6]; c2_arith
                | some x => simp only [if_neg h6]; c2_arith
          · rw [if_neg h4]
            by_cases h5 : cnt = 1
            · rw [if_pos h5]
              cases h6 : rd32 q with
              | none => simp [LinR, LinF]
              | some v6 =>
                obtain ⟨sz, q2⟩ := v6
                have l6 := rd32_length h6
                simp only
                by_cases h7 : sz = q2.length
                · rw [if_pos h7]; c2_arith
                · rw [if_neg h7]; simp [LinR, LinF]
            · rw [if_neg h5]
              have ih2 := c2_lin_raw D (by omega) cnt q
              simp only
              generalize decRawItemsT cnt q = r at ih2 ⊢
              obtain ⟨r1, r2⟩ := r
              cases r1 with
              | none => c2_arith
              | some x => c2_arith

theorem c2_lin_fields_zero (cap : Option Nat) (mx D : Nat) : ∀ (lvl k : Nat) (b : Bytes) (acc : List (Bytes × Field)) (c : Nat), lvl + 1 ≤ D →
    LinR D b.length (decFieldsT cap mx 0 lvl k b acc c).1 (decFieldsT cap mx 0 lvl k b acc c).2 := by
  intro lvl k b acc c _
  cases k with
  | zero => simp [decFieldsT, LinR, LinS]; omega
  | succ k => simp [decFieldsT, LinR, LinF]

theorem c2_lin_fields_succ (cap : Option Nat) (mx D fuel : Nat) (ih : LinAt cap mx D fuel) :
    ∀ (lvl k : Nat) (b : Bytes) (acc : List (Bytes × Field)) (c : Nat), lvl + 1 ≤ D →
      LinR D b.length (decFieldsT cap mx (fuel + 1) lvl k b acc c).1 (decFieldsT cap mx (fuel + 1) lvl k b acc c).2 := by
  intro lvl k b acc c hlvl
  cases k with
  | zero => simp [decFieldsT, LinR, LinS]; omega
  | succ k =>
    rw [decFieldsT]
    cases h1 : rd32 b with
    | none => simp [LinR, LinF]
    | some v1 =>
      obtain ⟨nl, b1⟩ := v1
      have l1 := rd32_length h1
      simp only
      cases h2 : takeN nl b1 with
      | none => simp [LinR, LinF]
      | some v2 =>
        obtain ⟨np, b2⟩ := v2
        obtain ⟨l2, l2'⟩ := c2_takeN_len h2
        simp only
        cases h3 : cstr np with
        | none => c2_arith
        | some nm =>
          have l3 := c2_cstr_len h3
          simp only
          cases h4 : rd32 b2 with
          | none => c2_arith
          | some v4 =>
            obtain ⟨tc, b3⟩ := v4
            have l4 := rd32_length h4
            simp only
            cases h5 : rd32 b3 with
            | none => c2_arith
            | some v5 =>
              obtain ⟨el, b4⟩ := v5
              have l5 := rd32_length h5
              simp only
              have key : ∀ tc' p1 p2, LinR D b.length
                  (match (decPayloadT cap mx fuel lvl tc' (List.take el b4)).1 with
                    | none => ((none : Option (List (Bytes × Field) × Bytes)),
                        ({ table := p1, steps := 1, window := max np.length (List.take el b4).length, copied := nm.length + 1,
                           reserve := nm.length + 1 } : Tally) + (decPayloadT cap mx fuel lvl tc' (List.take el b4)).2)
                    | some (f, rest) =>
                      ((decFieldsT cap mx fuel lvl k (rest ++ List.drop el b4) (upsertField nm f acc) p2).1,
                        ({ table := p1, steps := 1, window := max np.length (List.take el b4).length, copied := nm.length + 1,
                           reserve := nm.length + 1 } : Tally) + (decPayloadT cap mx fuel lvl tc' (List.take el b4)).2 +
                          (decFieldsT cap mx fuel lvl k (rest ++ List.drop el b4) (upsertField nm f acc) p2).2)).1
                  (match (decPayloadT cap mx fuel lvl tc' (List.take el b4)).1 with
                    | none => ((none : Option (List (Bytes × Field) × Bytes)),
                        ({ table := p1, steps := 1, window := max np.length (List.take el b4).length, copied := nm.length + 1,
                           reserve := nm.length + 1 } : Tally) + (decPayloadT cap mx fuel lvl tc' (List.take el b4)).2)
                    | some (f, rest) =>
                      ((decFieldsT cap mx fuel lvl k (rest ++ List.drop el b4) (upsertField nm f acc) p2).1,
                        ({ table := p1, steps := 1, window := max np.length (List.take el b4).length, copied := nm.length + 1,
                           reserve := nm.length + 1 } : Tally) + (decPayloadT cap mx fuel lvl tc' (List.take el b4)).2 +
                          (decFieldsT cap mx fuel lvl k (rest ++ List.drop el b4) (upsertField nm f acc) p2).2)).2 := by
                intro tc' p1 p2
                have ih2 := ih.payload lvl tc' (List.take el b4) hlvl
                generalize decPayloadT cap mx fuel lvl tc' (List.take el b4) = r at ih2 ⊢
                obtain ⟨r1, r2⟩ := r
                cases r1 with
                | none => c2_arith
                | some x =>
                  obtain ⟨f, rest⟩ := x
                  simp only
                  have ih3 := ih.fields lvl k (rest ++ List.drop el b4) (upsertField nm f acc) p2 hlvl
                  generalize decFieldsT cap mx fuel lvl k (rest ++ List.drop el b4) (upsertField nm f acc) p2 = r' at ih3 ⊢
                  obtain ⟨r1', r2'⟩ := r'
                  cases r1' with
                  | none => c2_arith
                  | some y => c2_arith
              cases h6 : lookupField nm acc with
              | none => simp only; exact key _ _ _
              | some f =>
                simp only
                by_cases hc : tc = tcAny ∨ tc = f.typeCode
                · rw [if_pos hc]; exact key _ _ _
                · rw [if_neg hc]; c2_arith

theorem c2_linAt (cap : Option Nat) (mx D : Nat) (hD : mx + 1 ≤ D) : ∀ fuel, LinAt cap mx D fuel := by
  intro fuel
  induction fuel with
  | zero =>
    have hm : ∀ (lvl : Nat) (b : Bytes), lvl ≤ D → LinR D b.length (decMsgT cap mx 0 lvl b).1 (decMsgT cap mx 0 lvl b).2 := by
      intro lvl b _; simp [decMsgT, LinR, LinF]
    have hi : ∀ (lvl : Nat) (b : Bytes), lvl + 1 ≤ D →
        LinI D b.length (decMsgItemsT cap mx 0 lvl b).1 (decMsgItemsT cap mx 0 lvl b).2 := by
      intro lvl b _; cases b with
      | nil => simp [decMsgItemsT, LinI, LinS]; omega
      | cons a t => simp [decMsgItemsT, LinI, LinF]
    exact ⟨hm, c2_lin_fields_zero cap mx D, c2_lin_payload cap mx D 0 hm hi, hi⟩
  | succ fuel ih =>
    have hm := c2_lin_msg_succ cap mx D fuel hD ih
    have hi := c2_lin_items_succ cap mx D fuel ih
    exact ⟨hm, c2_lin_fields_succ cap mx D fuel ih, c2_lin_payload cap mx D (fuel + 1) hm hi, hi⟩

end Muscle.Wire
