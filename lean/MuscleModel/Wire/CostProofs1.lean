import MuscleModel.Wire.DecodeCost

/-! C02 lemmas, part 1: where a successful reader leaves the read position (facts about the parser model
`Wire/Decode.lean` itself).  One lemma per reader; the mutual block by a combined statement over `fuel`. -/

set_option linter.unusedSimpArgs false
set_option linter.unusedVariables false

namespace Muscle.Wire
open Muscle Muscle.Gen

/-! ## primitive readers -/

theorem c2_takeN_len {n : Nat} {b x r : Bytes} (h : takeN n b = some (x, r)) :
    b.length = r.length + n ∧ x.length = n := by
  obtain ⟨hb, hl⟩ := takeN_some h
  subst hb
  simp [hl]; omega

theorem c2_takeN_none {n : Nat} {b : Bytes} (h : takeN n b = none) : b.length < n := by
  unfold takeN at h
  split at h
  · cases h
  · omega

theorem c2_takeN_lt {n : Nat} {b : Bytes} (h : b.length < n) : takeN n b = none := by
  unfold takeN
  split
  · omega
  · rfl

theorem c2_rd32_none {b : Bytes} (h : rd32 b = none) : b.length < 4 := by
  unfold rd32 rdN at h
  split at h
  · cases h
  · rename_i ht; exact c2_takeN_none ht

theorem c2_rd32_short {b : Bytes} (h : b.length < 4) : rd32 b = none := by
  unfold rd32 rdN
  rw [c2_takeN_lt h]

/-- a C string inside a view: the terminator is part of the view -/
theorem c2_cstr_len {p s : Bytes} (h : cstr p = some s) : s.length + 1 ≤ p.length := by
  unfold cstr at h
  split at h
  · rename_i hc
    cases h
    have : ∀ (l : Bytes), l.contains 0 = true → (l.takeWhile (· != 0)).length + 1 ≤ l.length := by
      intro l
      induction l with
      | nil => intro hl; simp at hl
      | cons a t ih =>
        intro hl
        by_cases ha : a = 0
        · subst ha; simp [List.takeWhile]
        · have ht : t.contains 0 = true := by
            simp only [List.contains_cons] at hl
            have : ((0 : UInt8) == a) = false := by
              simp; exact fun e => ha e.symm
            simpa [this] using hl
          have := ih ht
          have hne : (a != 0) = true := by simp [ha]
          simp only [List.takeWhile, hne, List.length_cons]
          omega
    exact this p hc
  · cases h

/-! ## item loops -/

theorem c2_decStrItems_pos : ∀ (k : Nat) (b : Bytes) (xs : List Bytes) (r : Bytes),
    decStrItems k b = some (xs, r) → r.length + 4 * k ≤ b.length := by
  intro k
  induction k with
  | zero => intro b xs r h; simp only [decStrItems] at h; cases h; omega
  | succ k ih =>
    intro b xs r h
    simp only [decStrItems] at h
    split at h
    · cases h
    · rename_i len b1 h1
      have l1 := rd32_length h1
      split at h
      · cases h
      · rename_i p b2 h2
        obtain ⟨l2, _⟩ := c2_takeN_len h2
        split at h
        · rename_i s xs' b3 _ h3
          cases h
          have := ih _ _ _ h3
          omega
        · cases h

theorem c2_decRawItems_pos : ∀ (k : Nat) (b : Bytes) (xs : List Bytes) (r : Bytes),
    decRawItems k b = some (xs, r) → r.length + 4 * k ≤ b.length := by
  intro k
  induction k with
  | zero => intro b xs r h; simp only [decRawItems] at h; cases h; omega
  | succ k ih =>
    intro b xs r h
    simp only [decRawItems] at h
    split at h
    · cases h
    · rename_i len b1 h1
      have l1 := rd32_length h1
      split at h
      · cases h
      · rename_i p b2 h2
        obtain ⟨l2, _⟩ := c2_takeN_len h2
        split at h
        · cases h
        · rename_i xs' b3 h3
          cases h
          have := ih _ _ _ h3
          omega

theorem c2_decFixed_pos (tc sz : Nat) (p : Bytes) (f : Field) (r : Bytes)
    (h : decFixed tc sz p = some (f, r)) : r.length ≤ p.length := by
  unfold decFixed at h
  split at h
  · cases h; simp
  · split at h
    · cases h
    · cases h; simp

/-! ## the mutual block -/

/-- what a successful call says about the read position, for the four members of the mutual block at one fuel -/
structure PosAt (mx fuel : Nat) : Prop where
  msg : ∀ (lvl : Nat) (b : Bytes) (m : Msg) (r : Bytes), decMsg mx fuel lvl b = some (m, r) → r.length + 12 ≤ b.length
  fields : ∀ (lvl k : Nat) (b : Bytes) (acc fs : List (Bytes × Field)) (r : Bytes),
    decFields mx fuel lvl k b acc = some (fs, r) → r.length + 12 * k ≤ b.length
  payload : ∀ (lvl tc : Nat) (p : Bytes) (f : Field) (r : Bytes),
    decPayload mx fuel lvl tc p = some (f, r) → r.length ≤ p.length

theorem c2_pos_msg_succ (mx fuel : Nat) (ih : PosAt mx fuel) :
    ∀ (lvl : Nat) (b : Bytes) (m : Msg) (r : Bytes), decMsg mx (fuel + 1) lvl b = some (m, r) → r.length + 12 ≤ b.length := by
  intro lvl b m r h
  rw [decMsg] at h
  split at h
  · cases h
  · split at h
    · cases h
    · rename_i ver b1 h1
      have l1 := rd32_length h1
      split at h
      · cases h
      · split at h
        · cases h
        · rename_i what b2 h2
          have l2 := rd32_length h2
          split at h
          · cases h
          · rename_i n b3 h3
            have l3 := rd32_length h3
            split at h
            · cases h
            · split at h
              · cases h
              · rename_i fs b4 h4
                cases h
                have := ih.fields _ _ _ _ _ _ h4
                omega

theorem c2_pos_payload (mx fuel : Nat)
    (hm : ∀ (lvl : Nat) (b : Bytes) (m : Msg) (r : Bytes), decMsg mx fuel lvl b = some (m, r) → r.length + 12 ≤ b.length) :
    ∀ (lvl tc : Nat) (p : Bytes) (f : Field) (r : Bytes),
      decPayload mx fuel lvl tc p = some (f, r) → r.length ≤ p.length := by
  intro lvl tc p f r h
  unfold decPayload at h
  split at h
  · exact c2_decFixed_pos _ _ _ _ _ h
  · split at h
    · cases h
    · split at h
      · split at h
        · split at h
          · cases h; simp
          · cases h
        · split at h
          · split at h
            · cases h
            · cases h; simp
          · split at h
            · cases h
            · cases h; simp
      · split at h
        · cases h
        · rename_i cnt q h1
          have l1 := rd32_length h1
          split at h
          · split at h
            · cases h
            · rename_i xs rest h2
              cases h
              have := c2_decStrItems_pos _ _ _ _ h2
              omega
          · split at h
            · split at h
              · cases h
              · split at h
                · cases h; simp
                · cases h
            · split at h
              · cases h
              · rename_i xs rest h2
                cases h
                have := c2_decRawItems_pos _ _ _ _ h2
                omega

theorem c2_pos_fields_zero (mx : Nat) :
    ∀ (lvl k : Nat) (b : Bytes) (acc fs : List (Bytes × Field)) (r : Bytes),
      decFields mx 0 lvl k b acc = some (fs, r) → r.length + 12 * k ≤ b.length := by
  intro lvl k b acc fs r h
  cases k with
  | zero => simp only [decFields] at h; cases h; omega
  | succ k => simp only [decFields] at h; cases h

theorem c2_pos_fields_succ (mx fuel : Nat) (ih : PosAt mx fuel) :
    ∀ (lvl k : Nat) (b : Bytes) (acc fs : List (Bytes × Field)) (r : Bytes),
      decFields mx (fuel + 1) lvl k b acc = some (fs, r) → r.length + 12 * k ≤ b.length := by
  intro lvl k b acc fs r h
  cases k with
  | zero => simp only [decFields] at h; cases h; omega
  | succ k =>
    rw [decFields] at h
    split at h
    · cases h
    · rename_i nl b1 h1
      have l1 := rd32_length h1
      split at h
      · cases h
      · rename_i np b2 h2
        obtain ⟨l2, _⟩ := c2_takeN_len h2
        split at h
        · cases h
        · rename_i tc b3 h3
          have l3 := rd32_length h3
          split at h
          · cases h
          · rename_i el b4 h4
            have l4 := rd32_length h4
            split at h
            · cases h
            · rename_i nm hnm
              have key : ∀ tc', (match decPayload mx fuel lvl tc' (List.take el b4) with
                    | none => none
                    | some (f, rest) => decFields mx fuel lvl k (rest ++ List.drop el b4) (upsertField nm f acc)) = some (fs, r) →
                  r.length + 12 * (k + 1) ≤ b.length := by
                intro tc' h
                split at h
                · cases h
                · rename_i f rest h5
                  have l5 := ih.payload _ _ _ _ _ h5
                  have l6 := ih.fields _ _ _ _ _ _ h
                  simp only [List.length_append, List.length_take, List.length_drop] at l5 l6
                  omega
              split at h
              · rename_i f hf
                by_cases hc : tc = tcAny ∨ tc = f.typeCode
                · rw [if_pos hc] at h; exact key _ h
                · rw [if_neg hc] at h; cases h
              · exact key _ h

theorem c2_posAt (mx : Nat) : ∀ fuel, PosAt mx fuel := by
  intro fuel
  induction fuel with
  | zero =>
    have hm : ∀ (lvl : Nat) (b : Bytes) (m : Msg) (r : Bytes), decMsg mx 0 lvl b = some (m, r) → r.length + 12 ≤ b.length := by
      intro lvl b m r h; simp only [decMsg] at h; cases h
    exact ⟨hm, c2_pos_fields_zero mx, c2_pos_payload mx 0 hm⟩
  | succ fuel ih =>
    have hm := c2_pos_msg_succ mx fuel ih
    exact ⟨hm, c2_pos_fields_succ mx fuel ih, c2_pos_payload mx (fuel + 1) hm⟩

end Muscle.Wire
