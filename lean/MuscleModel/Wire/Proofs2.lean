import MuscleModel.Wire.Proofs

/-! Size exactness, byte-exact re-encoding, fuel bound, order and equality stability. -/

set_option linter.unusedSimpArgs false

namespace Muscle.Wire
open Muscle Muscle.Gen

theorem sumLen_encStrItems (xs : List Bytes) : (encStrItems xs).length = 4 * xs.length + sumLen xs + xs.length := by
  induction xs with
  | nil => simp [encStrItems, sumLen]
  | cons a t ih => simp [encStrItems, sumLen, ih]; omega

theorem sumLen_encRawItems (xs : List Bytes) : (encRawItems xs).length = 4 * xs.length + sumLen xs := by
  induction xs with
  | nil => simp [encRawItems, sumLen]
  | cons a t ih => simp [encRawItems, sumLen, ih]; omega

/-! ## `FlattenedSize()` = bytes written -/

mutual
theorem size_msg : ∀ (m : Msg), wfMsg m → (encMsg m).length = sizeMsg m
  | .mk w fs, h => by
    simp only [wfMsg] at h
    have := size_fields fs h.2.2
    simp [encMsg, sizeMsg, this]; omega
theorem size_fields : ∀ (fs : List (Bytes × Field)), wfFields fs → (encFields fs).length = sizeFields fs
  | [], _ => by simp [encFields, sizeFields]
  | (n, .opaque tc k) :: r, h => by
    simp only [wfFields] at h
    simpa [encFields, sizeFields] using size_fields r h
  | (n, .fixed tc rp xs) :: r, h => by
    simp only [wfFields] at h
    obtain ⟨_, _, _, _, _, hl, _, hr, _, hrest⟩ := h
    have ih := size_fields r hrest
    have hp : (encFixed rp xs).length = sizeFixed tc rp xs := by
      rw [encFixed_eq_arr rp xs hr, encFixedArr_length _ xs hl]
      cases rp with
      | arr => simp [sizeFixed]
      | inl => simp [sizeFixed, hr rfl]
    simp [encFields, sizeFields, ih, hp]; omega
  | (n, .strs rp xs) :: r, h => by
    simp only [wfFields] at h
    obtain ⟨_, _, _, _, hr, _, hrest⟩ := h
    have ih := size_fields r hrest
    have hp : (encStrs rp xs).length = sizeStrs rp xs := by
      cases rp with
      | arr => simp [encStrs, sizeStrs, sumLen_encStrItems]; omega
      | inl =>
        have := hr rfl
        match xs, this with
        | [x], _ => simp [encStrs, sizeStrs]; omega
    simp [encFields, sizeFields, ih, hp]; omega
  | (n, .raws tc rp xs) :: r, h => by
    simp only [wfFields] at h
    obtain ⟨_, _, _, _, _, hr, _, hrest⟩ := h
    have ih := size_fields r hrest
    have hp : (encRaws rp xs).length = sizeRaws rp xs := by
      cases rp with
      | arr => simp [encRaws, sizeRaws, sumLen_encRawItems]; omega
      | inl =>
        have := hr rfl
        match xs, this with
        | [x], _ => simp [encRaws, sizeRaws]; omega
    simp [encFields, sizeFields, ih, hp]; omega
  | (n, .msgs rp ms) :: r, h => by
    simp only [wfFields] at h
    obtain ⟨_, _, _, hms, hr, _, hrest⟩ := h
    have ih := size_fields r hrest
    have him := size_msgItems ms hms
    have hp : (encMsgsF rp ms).length = sizeMsgsF rp ms := by
      cases rp with
      | arr => simp [encMsgsF, sizeMsgsF, him]
      | inl =>
        have := hr rfl
        match ms, this, hms, him with
        | [x], _, hms, him =>
          simp only [wfMsgs] at hms
          simp [encMsgsF, sizeMsgsF, size_msg x hms.2.1]
    simp [encFields, sizeFields, ih, hp]; omega
theorem size_msgItems : ∀ (ms : List Msg), wfMsgs ms → (encMsgItems ms).length = sizeMsgItems ms
  | [], _ => by simp [encMsgItems, sizeMsgItems]
  | m :: r, h => by
    simp only [wfMsgs] at h
    have h1 := size_msg m h.2.1
    have h2 := size_msgItems r h.2.2
    simp [encMsgItems, sizeMsgItems, h1, h2] <;> omega
end

/-! ## re-encoding the parsed Message reproduces the bytes -/

mutual
theorem reenc_msg : ∀ (m : Msg), wfMsg m → encMsg (tripMsg m) = encMsg m
  | .mk w fs, h => by
    simp only [wfMsg] at h
    have h1 := reenc_fields fs h.2.2
    have h2 := countFlat_trip fs
    simp [encMsg, tripMsg, h1, h2]
theorem countFlat_trip : ∀ (fs : List (Bytes × Field)), countFlat (tripFields fs) = countFlat fs
  | [] => by simp [tripFields, countFlat]
  | (n, .opaque tc k) :: r => by simpa [tripFields, countFlat] using countFlat_trip r
  | (n, .fixed tc rp xs) :: r => by simpa [tripFields, countFlat] using countFlat_trip r
  | (n, .strs rp xs) :: r => by simpa [tripFields, countFlat] using countFlat_trip r
  | (n, .raws tc rp xs) :: r => by simpa [tripFields, countFlat] using countFlat_trip r
  | (n, .msgs rp xs) :: r => by simpa [tripFields, countFlat] using countFlat_trip r
theorem reenc_fields : ∀ (fs : List (Bytes × Field)), wfFields fs → encFields (tripFields fs) = encFields fs
  | [], _ => by simp [tripFields]
  | (n, .opaque tc k) :: r, h => by
    simp only [wfFields] at h
    simpa [tripFields, encFields] using reenc_fields r h
  | (n, .fixed tc rp xs) :: r, h => by
    simp only [wfFields] at h
    obtain ⟨_, _, _, _, _, _, _, hr, _, hrest⟩ := h
    have ih := reenc_fields r hrest
    have hp : encFixed (repOf xs.length) xs = encFixed rp xs := by
      rw [encFixed_eq_arr rp xs hr, encFixed_eq_arr _ xs (by intro e; simp [repOf] at e; exact e)]
    simp [tripFields, encFields, ih, hp]
  | (n, .strs rp xs) :: r, h => by
    simp only [wfFields] at h
    obtain ⟨_, _, _, _, hr, _, hrest⟩ := h
    have ih := reenc_fields r hrest
    have hp : encStrs (repOf xs.length) xs = encStrs rp xs := by
      rw [encStrs_eq_arr rp xs hr, encStrs_eq_arr _ xs (by intro e; simp [repOf] at e; exact e)]
    simp [tripFields, encFields, ih, hp]
  | (n, .raws tc rp xs) :: r, h => by
    simp only [wfFields] at h
    obtain ⟨_, _, _, _, _, hr, _, hrest⟩ := h
    have ih := reenc_fields r hrest
    have hp : encRaws (repOf xs.length) xs = encRaws rp xs := by
      rw [encRaws_eq_arr rp xs hr, encRaws_eq_arr _ xs (by intro e; simp [repOf] at e; exact e)]
    simp [tripFields, encFields, ih, hp]
  | (n, .msgs rp ms) :: r, h => by
    simp only [wfFields] at h
    obtain ⟨_, _, _, hms, hr, _, hrest⟩ := h
    have ih := reenc_fields r hrest
    have him := reenc_msgItems ms hms
    have hlen : (tripMsgs ms).length = ms.length := by
      have : ∀ (l : List Msg), (tripMsgs l).length = l.length := by
        intro l; induction l with
        | nil => simp [tripMsgs]
        | cons a t iht => simp [tripMsgs, iht]
      exact this ms
    have hp : encMsgsF (repOf ms.length) (tripMsgs ms) = encMsgsF rp ms := by
      rw [encMsgsF_eq_items rp ms hr, encMsgsF_eq_items _ (tripMsgs ms) (by intro e; simp [repOf] at e; rw [hlen]; exact e), him]
    simp [tripFields, encFields, ih, hp]
theorem reenc_msgItems : ∀ (ms : List Msg), wfMsgs ms → encMsgItems (tripMsgs ms) = encMsgItems ms
  | [], _ => by simp [tripMsgs]
  | m :: r, h => by
    simp only [wfMsgs] at h
    have h1 := reenc_msg m h.2.1
    have h2 := reenc_msgItems r h.2.2
    simp [tripMsgs, encMsgItems, h1, h2]
end

/-! ## the fuel `decode` supplies is enough -/

mutual
theorem nodes_msg : ∀ (m : Msg), wfMsg m → nodesMsg m ≤ (encMsg m).length
  | .mk w fs, h => by
    simp only [wfMsg] at h
    have := nodes_fields fs h.2.2
    simp [nodesMsg, encMsg]; omega
theorem nodes_fields : ∀ (fs : List (Bytes × Field)), wfFields fs → nodesFields fs ≤ (encFields fs).length
  | [], _ => by simp [nodesFields]
  | (n, .opaque tc k) :: r, h => by
    simp only [wfFields] at h
    simpa [nodesFields, encFields] using nodes_fields r h
  | (n, .fixed tc rp xs) :: r, h => by
    simp only [wfFields] at h
    have := nodes_fields r h.2.2.2.2.2.2.2.2.2
    simp [nodesFields, encFields]; omega
  | (n, .strs rp xs) :: r, h => by
    simp only [wfFields] at h
    have := nodes_fields r h.2.2.2.2.2.2
    simp [nodesFields, encFields]; omega
  | (n, .raws tc rp xs) :: r, h => by
    simp only [wfFields] at h
    have := nodes_fields r h.2.2.2.2.2.2.2
    simp [nodesFields, encFields]; omega
  | (n, .msgs rp ms) :: r, h => by
    simp only [wfFields] at h
    obtain ⟨_, _, _, hms, hr, _, hrest⟩ := h
    have h1 := nodes_fields r hrest
    have h2 := nodes_msgItems ms hms
    rw [← encMsgsF_eq_items rp ms hr] at h2
    simp [nodesFields, encFields]; omega
theorem nodes_msgItems : ∀ (ms : List Msg), wfMsgs ms → nodesMsgs ms ≤ (encMsgItems ms).length
  | [], _ => by simp [nodesMsgs]
  | m :: r, h => by
    simp only [wfMsgs] at h
    have h1 := nodes_msg m h.2.1
    have h2 := nodes_msgItems r h.2.2
    simp [nodesMsgs, encMsgItems]; omega
end

end Muscle.Wire
