import MuscleModel.Wire.CostProofs1

/-! C02 lemmas, part 2: erasing the tally of the instrumented twin gives the parser model, function by function
(under the guards of `Generated/ParseGuards.lean` being what they are now). -/

set_option linter.unusedSimpArgs false
set_option linter.unusedVariables false

namespace Muscle.Wire
open Muscle Muscle.Gen

theorem c2_erase_str : ∀ (k : Nat) (b : Bytes), (decStrItemsT k b).1 = decStrItems k b := by
  intro k
  induction k with
  | zero => intro b; simp [decStrItemsT, decStrItems]
  | succ k ih =>
    intro b
    simp only [decStrItemsT, decStrItems]
    cases h1 : rd32 b with
    | none => rfl
    | some v1 =>
      obtain ⟨len, b1⟩ := v1
      simp only
      cases h2 : takeN len b1 with
      | none => rfl
      | some v2 =>
        obtain ⟨p, b2⟩ := v2
        simp only
        cases h3 : cstr p with
        | none => simp
        | some s =>
          simp only [ih]
          cases h4 : decStrItems k b2 with
          | none => rfl
          | some v4 => rfl

theorem c2_erase_raw : ∀ (k : Nat) (b : Bytes), (decRawItemsT k b).1 = decRawItems k b := by
  intro k
  induction k with
  | zero => intro b; simp [decRawItemsT, decRawItems]
  | succ k ih =>
    intro b
    simp only [decRawItemsT, decRawItems]
    cases h1 : rd32 b with
    | none => rfl
    | some v1 =>
      obtain ⟨len, b1⟩ := v1
      simp only [rawLenGuard, Bool.true_and, decide_eq_true_eq]
      by_cases hlt : b1.length < len
      · simp only [hlt, if_true, c2_takeN_lt hlt]
      · simp only [hlt, if_false]
        cases h2 : takeN len b1 with
        | none => rfl
        | some v2 =>
          obtain ⟨p, b2⟩ := v2
          simp only [ih]
          cases h4 : decRawItems k b2 with
          | none => rfl
          | some v4 => rfl

theorem c2_erase_fixed (tc sz : Nat) (p : Bytes) : (decFixedT tc sz p).1 = decFixed tc sz p := rfl

/-- the twin agrees with the parser model, for the four members of the mutual block at one fuel -/
structure EraseAt (cap : Option Nat) (mx fuel : Nat) : Prop where
  msg : ∀ (lvl : Nat) (b : Bytes), (decMsgT cap mx fuel lvl b).1 = decMsg mx fuel lvl b
  fields : ∀ (lvl k : Nat) (b : Bytes) (acc : List (Bytes × Field)) (c : Nat),
    (decFieldsT cap mx fuel lvl k b acc c).1 = decFields mx fuel lvl k b acc
  payload : ∀ (lvl tc : Nat) (p : Bytes), (decPayloadT cap mx fuel lvl tc p).1 = decPayload mx fuel lvl tc p
  items : ∀ (lvl : Nat) (b : Bytes), (decMsgItemsT cap mx fuel lvl b).1 = decMsgItems mx fuel lvl b

theorem c2_erase_msg_succ (cap : Option Nat) (mx fuel : Nat) (ih : EraseAt cap mx fuel) :
    ∀ (lvl : Nat) (b : Bytes), (decMsgT cap mx (fuel + 1) lvl b).1 = decMsg mx (fuel + 1) lvl b := by
  intro lvl b
  rw [decMsgT, decMsg]
  simp only [nestGuard, entryCountGuard, Bool.true_and, decide_eq_true_eq]
  by_cases hl : mx < lvl
  · simp only [hl, if_true]
  · simp only [hl, if_false]
    cases h1 : rd32 b with
    | none => rfl
    | some v1 =>
      obtain ⟨ver, b1⟩ := v1
      simp only
      by_cases hv : ver < oldestProtocolVersion ∨ protocolVersion < ver
      · simp only [hv, if_true]
      · simp only [hv, if_false]
        cases h2 : rd32 b1 with
        | none => rfl
        | some v2 =>
          obtain ⟨what, b2⟩ := v2
          simp only
          cases h3 : rd32 b2 with
          | none => rfl
          | some v3 =>
            obtain ⟨n, b3⟩ := v3
            simp only
            by_cases hn : b3.length / 12 < n
            · simp only [hn, if_true]
            · simp only [hn, if_false, ih.fields]
              cases h4 : decFields mx fuel lvl n b3 [] with
              | none => rfl
              | some v4 => rfl

theorem c2_erase_items_succ (cap : Option Nat) (mx fuel : Nat) (ih : EraseAt cap mx fuel) :
    ∀ (lvl : Nat) (b : Bytes), (decMsgItemsT cap mx (fuel + 1) lvl b).1 = decMsgItems mx (fuel + 1) lvl b := by
  intro lvl b
  cases b with
  | nil => simp [decMsgItemsT, decMsgItems]
  | cons a t =>
    rw [decMsgItemsT, decMsgItems]
    simp only [subMsgLenGuard, Bool.true_and, decide_eq_true_eq]
    cases h1 : rd32 (a :: t) with
    | none => rfl
    | some v1 =>
      obtain ⟨len, b1⟩ := v1
      simp only
      by_cases hlt : b1.length < len
      · simp only [hlt, if_true]
      · simp only [hlt, if_false, ih.msg]
        cases h2 : decMsg mx fuel (lvl + 1) (List.take len b1) with
        | none => rfl
        | some v2 =>
          obtain ⟨m, rest⟩ := v2
          simp only [ih.items]
          cases h3 : decMsgItems mx fuel lvl (rest ++ List.drop len b1) with
          | none => rfl
          | some v3 => rfl

theorem c2_erase_payload (cap : Option Nat) (mx fuel : Nat)
    (hm : ∀ (lvl : Nat) (b : Bytes), (decMsgT cap mx fuel lvl b).1 = decMsg mx fuel lvl b)
    (hi : ∀ (lvl : Nat) (b : Bytes), (decMsgItemsT cap mx fuel lvl b).1 = decMsgItems mx fuel lvl b) :
    ∀ (lvl tc : Nat) (p : Bytes), (decPayloadT cap mx fuel lvl tc p).1 = decPayload mx fuel lvl tc p := by
  intro lvl tc p
  unfold decPayloadT decPayload
  by_cases h0 : wireItemSize tc ≠ 0
  · rw [if_pos h0, if_pos h0, c2_erase_fixed]
  · rw [if_neg h0, if_neg h0]
    by_cases h1 : tc = tcPointer ∨ tc = tcTag
    · rw [if_pos h1, if_pos h1]
    · rw [if_neg h1, if_neg h1]
      by_cases h2 : tc = tcMessage
      · rw [if_pos h2, if_pos h2]
        by_cases h3 : p.length < 4
        · rw [if_pos h3, if_pos h3]
        · rw [if_neg h3, if_neg h3]
          by_cases h4 : leVal (List.take 4 p) = p.length - 4
          · rw [if_pos h4, if_pos h4]
            simp only [hm]
            cases h5 : decMsg mx fuel (lvl + 1) (List.drop 4 p) with
            | none => rfl
            | some v5 => rfl
          · rw [if_neg h4, if_neg h4]
            simp only [hi]
            cases h5 : decMsgItems mx fuel lvl p with
            | none => rfl
            | some v5 => rfl
      · rw [if_neg h2, if_neg h2]
        cases h3 : rd32 p with
        | none => rfl
        | some v3 =>
          obtain ⟨cnt, q⟩ := v3
          simp only
          by_cases h4 : tc = tcString
          · rw [if_pos h4, if_pos h4]
            simp only [strCountGuard, Bool.true_and, decide_eq_true_eq]
            by_cases h5 : cnt ≠ 1 ∧ q.length / 4 < cnt
            · rw [if_pos h5]
              cases h6 : decStrItems cnt q with
              | none => rfl
              | some v6 =>
                obtain ⟨xs, rest⟩ := v6
                have := c2_decStrItems_pos _ _ _ _ h6
                omega
            · rw [if_neg h5]
              simp only [c2_erase_str]
              cases h6 : decStrItems cnt q with
              | none => rfl
              | some v6 => rfl
          · rw [if_neg h4, if_neg h4]
            by_cases h5 : cnt = 1
            · rw [if_pos h5, if_pos h5]
              cases h6 : rd32 q with
              | none => rfl
              | some v6 =>
                obtain ⟨sz, q2⟩ := v6
                simp only
                by_cases h7 : sz = q2.length
                · rw [if_pos h7, if_pos h7]
                · rw [if_neg h7, if_neg h7]
            · rw [if_neg h5, if_neg h5]
              simp only [c2_erase_raw]
              cases h6 : decRawItems cnt q with
              | none => rfl
              | some v6 => rfl

theorem c2_erase_fields_zero (cap : Option Nat) (mx : Nat) : ∀ (lvl k : Nat) (b : Bytes) (acc : List (Bytes × Field)) (c : Nat),
    (decFieldsT cap mx 0 lvl k b acc c).1 = decFields mx 0 lvl k b acc := by
  intro lvl k b acc c
  cases k <;> simp [decFieldsT, decFields]

theorem c2_erase_fields_succ (cap : Option Nat) (mx fuel : Nat) (ih : EraseAt cap mx fuel) :
    ∀ (lvl k : Nat) (b : Bytes) (acc : List (Bytes × Field)) (c : Nat),
      (decFieldsT cap mx (fuel + 1) lvl k b acc c).1 = decFields mx (fuel + 1) lvl k b acc := by
  intro lvl k b acc c
  cases k with
  | zero => simp [decFieldsT, decFields]
  | succ k =>
    rw [decFieldsT, decFields]
    cases h1 : rd32 b with
    | none => rfl
    | some v1 =>
      obtain ⟨nl, b1⟩ := v1
      simp only
      cases h2 : takeN nl b1 with
      | none => rfl
      | some v2 =>
        obtain ⟨np, b2⟩ := v2
        simp only
        cases h3 : cstr np with
        | none =>
          simp only
          cases h4 : rd32 b2 with
          | none => rfl
          | some v4 =>
            obtain ⟨tc, b3⟩ := v4
            simp only
            cases h5 : rd32 b3 with
            | none => rfl
            | some v5 => rfl
        | some nm =>
          simp only
          cases h4 : rd32 b2 with
          | none => rfl
          | some v4 =>
            obtain ⟨tc, b3⟩ := v4
            simp only
            cases h5 : rd32 b3 with
            | none => rfl
            | some v5 =>
              obtain ⟨el, b4⟩ := v5
              simp only
              have key : ∀ tc' p1 p2, (match (decPayloadT cap mx fuel lvl tc' (List.take el b4)).1 with
                    | none => ((none : Option (List (Bytes × Field) × Bytes)),
                        ({ table := p1, steps := 1, window := max np.length (List.take el b4).length, copied := nm.length + 1,
                           reserve := nm.length + 1 } : Tally) + (decPayloadT cap mx fuel lvl tc' (List.take el b4)).2)
                    | some (f, rest) =>
                      ((decFieldsT cap mx fuel lvl k (rest ++ List.drop el b4) (upsertField nm f acc) p2).1,
                        ({ table := p1, steps := 1, window := max np.length (List.take el b4).length, copied := nm.length + 1,
                           reserve := nm.length + 1 } : Tally) + (decPayloadT cap mx fuel lvl tc' (List.take el b4)).2 +
                          (decFieldsT cap mx fuel lvl k (rest ++ List.drop el b4) (upsertField nm f acc) p2).2)).1 =
                  (match decPayload mx fuel lvl tc' (List.take el b4) with
                    | none => none
                    | some (f, rest) => decFields mx fuel lvl k (rest ++ List.drop el b4) (upsertField nm f acc)) := by
                intro tc' p1 p2
                rw [ih.payload]
                cases h6 : decPayload mx fuel lvl tc' (List.take el b4) with
                | none => rfl
                | some v6 =>
                  obtain ⟨f, rest⟩ := v6
                  simp only [ih.fields]
              cases h6 : lookupField nm acc with
              | none => simp only; exact key _ _ _
              | some f =>
                simp only
                by_cases hc : tc = tcAny ∨ tc = f.typeCode
                · simp only [hc, if_true]; exact key _ _ _
                · simp only [hc, if_false]

theorem c2_eraseAt (cap : Option Nat) (mx : Nat) : ∀ fuel, EraseAt cap mx fuel := by
  intro fuel
  induction fuel with
  | zero =>
    have hm : ∀ (lvl : Nat) (b : Bytes), (decMsgT cap mx 0 lvl b).1 = decMsg mx 0 lvl b := by
      intro lvl b; simp [decMsgT, decMsg]
    have hi : ∀ (lvl : Nat) (b : Bytes), (decMsgItemsT cap mx 0 lvl b).1 = decMsgItems mx 0 lvl b := by
      intro lvl b; cases b <;> simp [decMsgItemsT, decMsgItems]
    exact ⟨hm, c2_erase_fields_zero cap mx, c2_erase_payload cap mx 0 hm hi, hi⟩
  | succ fuel ih =>
    have hm := c2_erase_msg_succ cap mx fuel ih
    have hi := c2_erase_items_succ cap mx fuel ih
    exact ⟨hm, c2_erase_fields_succ cap mx fuel ih, c2_erase_payload cap mx (fuel + 1) hm hi, hi⟩

theorem c2_erase_decode (cap : Option Nat) (mx : Nat) (b : Bytes) : (decodeT cap mx b).1 = decode mx b := by
  simp only [decodeT, decode, (c2_eraseAt cap mx _).msg]
  cases decMsg mx (b.length + 2) 1 b with
  | none => rfl
  | some v => rfl

end Muscle.Wire
