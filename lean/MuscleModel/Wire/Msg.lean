import MuscleModel.Base.Bytes
import MuscleModel.Generated.Constants

/-!
# Message value model, the two field writers, and the size function

Mirrors `message/Message.cpp`: `Message::Flatten/FlattenedSize`,
`MessageField::SingleFlatten/SingleFlattenedSize` (the *inline* writer) and
`*DataArray::TemplatedFlatten/TemplatedFlattenedSize` (the *array* writer).

An item of a fixed-size type (bool, int8 … double, point, rect) is represented by
its flattened bytes (bit pattern, little-endian as written by
`DataFlattener::WritePrimitive`); the conversion number ↔ bytes lives in the op
layer (`Wire/Ops.lean`).  Strings are NUL-free byte lists, raw items arbitrary
byte lists, sub-Messages are values.  Pointer/tag fields are `opaque`: only a
count, never on the wire.
-/

namespace Muscle.Wire
open Muscle Muscle.Gen

/-- `FIELD_STATE_INLINE` vs `FIELD_STATE_ARRAY` -/
inductive Rep where
  | inl | arr
  deriving DecidableEq, Repr, Inhabited

mutual
inductive Msg where
  | mk (what : Nat) (fields : List (Bytes × Field))
inductive Field where
  /-- bool/int8/int16/int32/int64/float/double/point/rect; each item = its wire bytes -/
  | fixed (tc : Nat) (r : Rep) (items : List Bytes)
  | strs (r : Rep) (items : List Bytes)
  /-- any type code outside the built-in repertoire (`ByteBufferDataArray`) -/
  | raws (tc : Nat) (r : Rep) (items : List Bytes)
  | msgs (r : Rep) (items : List Msg)
  /-- `B_POINTER_TYPE` / `B_TAG_TYPE`: non-flattenable -/
  | opaque (tc : Nat) (n : Nat)
end

instance : Inhabited Msg := ⟨.mk 0 []⟩
instance : Inhabited Field := ⟨.opaque 0 0⟩

def Msg.what : Msg → Nat | .mk w _ => w
def Msg.fields : Msg → List (Bytes × Field) | .mk _ fs => fs

def Field.typeCode : Field → Nat
  | .fixed tc _ _ => tc
  | .strs _ _ => tcString
  | .raws tc _ _ => tc
  | .msgs _ _ => tcMessage
  | .opaque tc _ => tc

def Field.count : Field → Nat
  | .fixed _ _ xs => xs.length
  | .strs _ xs => xs.length
  | .raws _ _ xs => xs.length
  | .msgs _ xs => xs.length
  | .opaque _ n => n

def Field.rep : Field → Rep
  | .fixed _ r _ => r
  | .strs r _ => r
  | .raws _ r _ => r
  | .msgs r _ => r
  | .opaque _ n => if n = 1 then .inl else .arr

/-- `MessageField::IsFlattenable` -/
def Field.flattenable : Field → Bool
  | .opaque _ _ => false
  | _ => true

/-! ## array writers (`TemplatedFlatten` of the data-array classes) -/

def encFixedArr : List Bytes → Bytes
  | [] => []
  | x :: r => x ++ encFixedArr r

/-- `count` is written by the caller; each item is `len ++ bytes ++ NUL` -/
def encStrItems : List Bytes → Bytes
  | [] => []
  | s :: r => le32 (s.length + 1) ++ (s ++ (0 :: encStrItems r))

def encRawItems : List Bytes → Bytes
  | [] => []
  | b :: r => le32 b.length ++ (b ++ encRawItems r)

mutual
/-- `Message::Flatten` -/
def encMsg : Msg → Bytes
  | .mk what fs => le32 protocolVersion ++ (le32 what ++ (le32 (countFlat fs) ++ encFields fs))
/-- number of flattenable entries, as counted inside `Message::Flatten` -/
def countFlat : List (Bytes × Field) → Nat
  | [] => 0
  | (_, .opaque _ _) :: r => countFlat r
  | (_, .fixed _ _ _) :: r => 1 + countFlat r
  | (_, .strs _ _) :: r => 1 + countFlat r
  | (_, .raws _ _ _) :: r => 1 + countFlat r
  | (_, .msgs _ _) :: r => 1 + countFlat r
def encFields : List (Bytes × Field) → Bytes
  | [] => []
  | (_, .opaque _ _) :: r => encFields r
  | (n, .fixed tc rp xs) :: r =>
      le32 (n.length + 1) ++ (n ++ (0 :: (le32 tc ++ (le32 (encFixed rp xs).length ++ (encFixed rp xs ++ encFields r)))))
  | (n, .strs rp xs) :: r =>
      le32 (n.length + 1) ++ (n ++ (0 :: (le32 tcString ++ (le32 (encStrs rp xs).length ++ (encStrs rp xs ++ encFields r)))))
  | (n, .raws tc rp xs) :: r =>
      le32 (n.length + 1) ++ (n ++ (0 :: (le32 tc ++ (le32 (encRaws rp xs).length ++ (encRaws rp xs ++ encFields r)))))
  | (n, .msgs rp xs) :: r =>
      le32 (n.length + 1) ++ (n ++ (0 :: (le32 tcMessage ++ (le32 (encMsgsF rp xs).length ++ (encMsgsF rp xs ++ encFields r)))))
/-- fixed-size payload: inline writer = the one item; array writer = concatenation -/
def encFixed : Rep → List Bytes → Bytes
  | .inl, [x] => x
  | .inl, _ => []
  | .arr, xs => encFixedArr xs
/-- string payload: inline writer writes a literal count 1 (`SingleFlatten`) -/
def encStrs : Rep → List Bytes → Bytes
  | .inl, [s] => le32 1 ++ (le32 (s.length + 1) ++ (s ++ [0]))
  | .inl, _ => []
  | .arr, xs => le32 xs.length ++ encStrItems xs
def encRaws : Rep → List Bytes → Bytes
  | .inl, [b] => le32 1 ++ (le32 b.length ++ b)
  | .inl, _ => []
  | .arr, xs => le32 xs.length ++ encRawItems xs
/-- Message payload: no item count, for "entirely historical reasons" -/
def encMsgsF : Rep → List Msg → Bytes
  | .inl, [m] => le32 (encMsg m).length ++ encMsg m
  | .inl, _ => []
  | .arr, xs => encMsgItems xs
def encMsgItems : List Msg → Bytes
  | [] => []
  | m :: r => le32 (encMsg m).length ++ (encMsg m ++ encMsgItems r)
end

/-- payload bytes of one field (what `WriteFlatWithLengthPrefix(mf)` writes after the length) -/
def encPayload : Field → Bytes
  | .fixed _ r xs => encFixed r xs
  | .strs r xs => encStrs r xs
  | .raws _ r xs => encRaws r xs
  | .msgs r xs => encMsgsF r xs
  | .opaque _ _ => []

/-! ## sizes, written from the `*FlattenedSize` functions (not as `(encode m).length`) -/

def sumLen : List Bytes → Nat
  | [] => 0
  | x :: r => x.length + sumLen r

mutual
/-- `Message::FlattenedSize` -/
def sizeMsg : Msg → Nat
  | .mk _ fs => 12 + sizeFields fs
def sizeFields : List (Bytes × Field) → Nat
  | [] => 0
  | (_, .opaque _ _) :: r => sizeFields r
  | (n, .fixed tc rp xs) :: r => 4 + (n.length + 1) + 4 + 4 + sizeFixed tc rp xs + sizeFields r
  | (n, .strs rp xs) :: r => 4 + (n.length + 1) + 4 + 4 + sizeStrs rp xs + sizeFields r
  | (n, .raws _ rp xs) :: r => 4 + (n.length + 1) + 4 + 4 + sizeRaws rp xs + sizeFields r
  | (n, .msgs rp xs) :: r => 4 + (n.length + 1) + 4 + 4 + sizeMsgsF rp xs + sizeFields r
/-- `SingleFlattenedSize` for fixed types = `GetElementSize`; array = `n * sizeof(item)` -/
def sizeFixed : Nat → Rep → List Bytes → Nat
  | tc, .inl, _ => wireItemSize tc
  | tc, .arr, xs => xs.length * wireItemSize tc
def sizeStrs : Rep → List Bytes → Nat
  | .inl, [s] => 4 + 4 + (s.length + 1)
  | .inl, _ => 0
  | .arr, xs => (xs.length + 1) * 4 + sumLen xs + xs.length
def sizeRaws : Rep → List Bytes → Nat
  | .inl, [b] => 4 + 4 + b.length
  | .inl, _ => 0
  | .arr, xs => 4 + xs.length * 4 + sumLen xs
def sizeMsgsF : Rep → List Msg → Nat
  | .inl, [m] => 4 + sizeMsg m
  | .inl, _ => 0
  | .arr, xs => sizeMsgItems xs
def sizeMsgItems : List Msg → Nat
  | [] => 0
  | m :: r => 4 + sizeMsg m + sizeMsgItems r
end

end Muscle.Wire
