import MuscleModel.Wire.Proofs2

/-! Further lemmas for C01: per-entry size function, and "the parser never produces a Message whose
flattened size exceeds the bytes it consumed" (for *arbitrary* input bytes), from which the
truncation theorems of `Props/C01.lean` follow. -/

set_option linter.unusedSimpArgs false

namespace Muscle.Wire
open Muscle Muscle.Gen

/-! ## per-entry sizes -/

/-- payload size of one field, as `MessageField::FlattenedSize` computes it -/
def sizePayload : Field → Nat
  | .fixed tc r xs => sizeFixed tc r xs
  | .strs r xs => sizeStrs r xs
  | .raws _ r xs => sizeRaws r xs
  | .msgs r xs => sizeMsgsF r xs
  | .opaque _ _ => 0

/-- bytes one entry contributes to `Message::FlattenedSize`: name length word, name + NUL, type code,
    payload length word, payload; nothing for a non-flattenable (pointer/tag) field -/
def sizeEntry (n : Bytes) (f : Field) : Nat :=
  if f.flattenable then 4 + (n.length + 1) + 4 + 4 + sizePayload f else 0

theorem sizeFields_cons (n : Bytes) (f : Field) (r : List (Bytes × Field)) :
    sizeFields ((n, f) :: r) = sizeEntry n f + sizeFields r := by
  cases f <;> simp [sizeFields, sizeEntry, sizePayload, Field.flattenable]

theorem sizeEntry_le (n : Bytes) (f : Field) : sizeEntry n f ≤ 4 + (n.length + 1) + 4 + 4 + sizePayload f := by
  unfold sizeEntry; split <;> omega

theorem sizeFields_eq_sum (fs : List (Bytes × Field)) :
    sizeFields fs = (fs.map (fun e => sizeEntry e.1 e.2)).sum := by
  induction fs with
  | nil => simp [sizeFields]
  | cons a r ih =>
    obtain ⟨n, f⟩ := a
    simp [sizeFields_cons, ih]

theorem sizeFields_upsert (nm : Bytes) (f : Field) (acc : List (Bytes × Field)) :
    sizeFields (upsertField nm f acc) ≤ sizeFields acc + sizeEntry nm f := by
  induction acc with
  | nil => simp [upsertField, sizeFields_cons, sizeFields]
  | cons a t ih =>
    obtain ⟨n, g⟩ := a
    unfold upsertField
    split
    · rename_i e; subst e; simp only [sizeFields_cons]; omega
    · simp only [sizeFields_cons]; omega

/-! ## general upper bounds of the payload sizes -/

theorem sizeStrs_le (rp : Rep) (xs : List Bytes) :
    sizeStrs rp xs ≤ (xs.length + 1) * 4 + sumLen xs + xs.length := by
  cases rp with
  | arr => simp [sizeStrs]
  | inl =>
    match xs with
    | [] => simp [sizeStrs]
    | [s] => simp [sizeStrs, sumLen]; omega
    | _ :: _ :: _ => simp [sizeStrs]

theorem sizeRaws_le (rp : Rep) (xs : List Bytes) :
    sizeRaws rp xs ≤ 4 + xs.length * 4 + sumLen xs := by
  cases rp with
  | arr => simp [sizeRaws]
  | inl =>
    match xs with
    | [] => simp [sizeRaws]
    | [s] => simp [sizeRaws, sumLen]
    | _ :: _ :: _ => simp [sizeRaws]

/-! ## the item readers consume at least what the writers would write -/

theorem takeWhile_nz_length (l : Bytes) (h : l.contains 0 = true) :
    (l.takeWhile (· != 0)).length + 1 ≤ l.length := by
  induction l with
  | nil => simp at h
  | cons a t ih =>
    by_cases ha : a = 0
    · simp [ha]
    · have ht : t.contains 0 = true := by
        simp only [List.contains_cons, Bool.or_eq_true] at h
        cases h with
        | inl h0 => exact absurd (by simpa using h0) (fun e : (0 : UInt8) = a => ha e.symm)
        | inr h1 => exact h1
      have := ih ht
      simp [List.takeWhile_cons, ha]
      exact this

theorem cstr_length {p s : Bytes} (h : cstr p = some s) : s.length + 1 ≤ p.length := by
  unfold cstr at h
  split at h
  · rename_i hc
    cases h
    exact takeWhile_nz_length p hc
  · cases h

theorem takeN_length {n : Nat} {b x r : Bytes} (h : takeN n b = some (x, r)) :
    b.length = n + r.length ∧ x.length = n := by
  obtain ⟨hb, hl⟩ := takeN_some h
  rw [hb]; simp [hl]

theorem decStrItems_size : ∀ (k : Nat) (b : Bytes) (xs : List Bytes) (r : Bytes),
    decStrItems k b = some (xs, r) →
    xs.length = k ∧ 4 * k + sumLen xs + k + r.length ≤ b.length
  | 0, b, xs, r, h => by
    simp only [decStrItems, Option.some.injEq, Prod.mk.injEq] at h
    obtain ⟨rfl, rfl⟩ := h
    simp [sumLen]
  | k+1, b, xs, r, h => by
    rw [decStrItems] at h
    split at h
    · cases h
    · rename_i len b1 h1
      split at h
      · cases h
      · rename_i p b2 h2
        split at h
        · rename_i s xs' b3 hs hrec
          cases h
          have ih := decStrItems_size k b2 xs' r hrec
          have l1 := rd32_length h1
          have l2 := takeN_length h2
          have l3 := cstr_length hs
          simp only [List.length_cons, sumLen]
          omega
        · cases h

theorem decRawItems_size : ∀ (k : Nat) (b : Bytes) (xs : List Bytes) (r : Bytes),
    decRawItems k b = some (xs, r) →
    xs.length = k ∧ 4 * k + sumLen xs + r.length ≤ b.length
  | 0, b, xs, r, h => by
    simp only [decRawItems, Option.some.injEq, Prod.mk.injEq] at h
    obtain ⟨rfl, rfl⟩ := h
    simp [sumLen]
  | k+1, b, xs, r, h => by
    rw [decRawItems] at h
    split at h
    · cases h
    · rename_i len b1 h1
      split at h
      · cases h
      · rename_i p b2 h2
        split at h
        · cases h
        · rename_i xs' b3 hrec
          cases h
          have ih := decRawItems_size k b2 xs' r hrec
          have l1 := rd32_length h1
          have l2 := takeN_length h2
          simp only [List.length_cons, sumLen]
          omega

theorem chunks_length (sz : Nat) : ∀ (k : Nat) (b : Bytes), (chunks sz k b).length = k
  | 0, _ => by simp [chunks]
  | k+1, b => by simp [chunks, chunks_length sz k]

theorem decFixed_size (tc : Nat) (p : Bytes) (f : Field) (r : Bytes) (hsz : wireItemSize tc ≠ 0)
    (h : decFixed tc (wireItemSize tc) p = some (f, r)) : sizePayload f + r.length ≤ p.length := by
  have hpos : 0 < wireItemSize tc := Nat.pos_of_ne_zero hsz
  unfold decFixed at h
  split at h
  · rename_i h1
    cases h
    have : wireItemSize tc ≤ p.length := by
      by_cases hlt : p.length < wireItemSize tc
      · rw [Nat.div_eq_of_lt hlt] at h1; cases h1
      · omega
    simp only [sizePayload, sizeFixed, List.length_drop]
    omega
  · split at h
    · cases h
    · rename_i h2
      cases h
      have hm : p.length % wireItemSize tc = 0 := by omega
      have hd : p.length / wireItemSize tc * wireItemSize tc = p.length := by
        have := Nat.div_add_mod p.length (wireItemSize tc)
        rw [hm, Nat.mul_comm] at this
        omega
      simp only [sizePayload, sizeFixed, List.length_nil]
      split <;> simp [chunks_length, hd]

/-! ## the parser proper: size of the result ≤ bytes consumed, for arbitrary input -/

/-- `MessageField::Unflatten`, given the bound for the recursive calls at the same fuel -/
theorem decPayload_size (mx fuel : Nat)
    (hA : ∀ (lvl : Nat) (b : Bytes) (m : Msg) (r : Bytes),
      decMsg mx fuel lvl b = some (m, r) → sizeMsg m + r.length ≤ b.length)
    (hD : ∀ (lvl : Nat) (b : Bytes) (ms : List Msg),
      decMsgItems mx fuel lvl b = some ms → sizeMsgItems ms ≤ b.length)
    (lvl tc : Nat) (p : Bytes) (f : Field) (r : Bytes)
    (h : decPayload mx fuel lvl tc p = some (f, r)) : sizePayload f + r.length ≤ p.length := by
  unfold decPayload at h
  split at h
  · rename_i hsz
    exact decFixed_size tc p f r hsz h
  · split at h
    · cases h
    · split at h
      · -- Message payload
        split at h
        · split at h
          · cases h; simp [sizePayload, sizeMsgsF, sizeMsgItems]
          · cases h
        · rename_i h4
          split at h
          · split at h
            · cases h
            · rename_i m r' hm
              cases h
              have := hA _ _ _ _ hm
              simp only [List.length_drop] at this
              simp only [sizePayload, sizeMsgsF, List.length_nil]
              omega
          · split at h
            · cases h
            · rename_i ms hms
              cases h
              have := hD _ _ _ hms
              simp only [sizePayload, sizeMsgsF, List.length_nil]
              omega
      · split at h
        · cases h
        · rename_i cnt q hq
          have lq := rd32_length hq
          split at h
          · split at h
            · cases h
            · rename_i xs rest hx
              cases h
              obtain ⟨hl, hb⟩ := decStrItems_size _ _ _ _ hx
              have := sizeStrs_le (if cnt = 1 then Rep.inl else Rep.arr) xs
              simp only [sizePayload]
              rw [hl] at this
              omega
          · split at h
            · split at h
              · cases h
              · rename_i sz q' hq'
                have lq' := rd32_length hq'
                split at h
                · cases h
                  simp only [sizePayload, sizeRaws, List.length_nil]
                  omega
                · cases h
            · split at h
              · cases h
              · rename_i xs rest hx
                cases h
                obtain ⟨hl, hb⟩ := decRawItems_size _ _ _ _ hx
                have := sizeRaws_le Rep.arr xs
                simp only [sizePayload]
                rw [hl] at this
                omega

/-- all three recursive readers at once, by induction on the fuel -/
theorem dec_size_all (mx : Nat) : ∀ (fuel : Nat),
    (∀ (lvl : Nat) (b : Bytes) (m : Msg) (r : Bytes),
      decMsg mx fuel lvl b = some (m, r) → sizeMsg m + r.length ≤ b.length) ∧
    (∀ (lvl : Nat) (b : Bytes) (ms : List Msg),
      decMsgItems mx fuel lvl b = some ms → sizeMsgItems ms ≤ b.length) ∧
    (∀ (lvl k : Nat) (b : Bytes) (acc fs : List (Bytes × Field)) (r : Bytes),
      decFields mx fuel lvl k b acc = some (fs, r) → sizeFields fs + r.length ≤ sizeFields acc + b.length)
  | 0 => by
    refine ⟨?_, ?_, ?_⟩
    · intro lvl b m r h; simp [decMsg] at h
    · intro lvl b ms h
      cases b with
      | nil => simp [decMsgItems] at h; subst h; simp [sizeMsgItems]
      | cons x t => simp [decMsgItems] at h
    · intro lvl k b acc fs r h
      cases k with
      | zero => simp [decFields] at h; obtain ⟨rfl, rfl⟩ := h; omega
      | succ k => simp [decFields] at h
  | fuel+1 => by
    obtain ⟨hA, hD, hB⟩ := dec_size_all mx fuel
    have hC := decPayload_size mx fuel hA hD
    refine ⟨?_, ?_, ?_⟩
    · intro lvl b m r h
      rw [decMsg] at h
      split at h
      · cases h
      · split at h
        · cases h
        · rename_i ver b1 h1
          split at h
          · cases h
          · split at h
            · cases h
            · rename_i what b2 h2
              split at h
              · cases h
              · rename_i n b3 h3
                split at h
                · cases h
                · split at h
                  · cases h
                  · rename_i fs r' hf
                    cases h
                    have := hB _ _ _ _ _ _ hf
                    have l1 := rd32_length h1
                    have l2 := rd32_length h2
                    have l3 := rd32_length h3
                    simp only [sizeFields, sizeMsg] at this ⊢
                    omega
    · intro lvl b ms h
      cases b with
      | nil => simp [decMsgItems] at h; subst h; simp [sizeMsgItems]
      | cons x t =>
        rw [decMsgItems] at h
        split at h
        · cases h
        · rename_i len b1 h1
          have l1 := rd32_length h1
          split at h
          · cases h
          · split at h
            · cases h
            · rename_i m rest hm
              split at h
              · cases h
              · rename_i ms' hms
                cases h
                have a1 := hA _ _ _ _ hm
                have a2 := hD _ _ _ hms
                simp only [List.length_append, List.length_take, List.length_drop] at a1 a2
                simp only [sizeMsgItems]
                omega
    · intro lvl k b acc fs r h
      cases k with
      | zero => simp [decFields] at h; obtain ⟨rfl, rfl⟩ := h; omega
      | succ k =>
        rw [decFields] at h
        split at h
        · cases h
        · rename_i nl b1 h1
          split at h
          · cases h
          · rename_i np b2 h2
            split at h
            · cases h
            · rename_i tc b3 h3
              split at h
              · cases h
              · rename_i el b4 h4
                split at h
                · cases h
                · rename_i nm hnm
                  simp only [] at h
                  split at h
                  · cases h
                  · rename_i tc' htc'
                    split at h
                    · cases h
                    · rename_i f rest hp
                      have ih := hB _ _ _ _ _ _ h
                      have c := hC _ _ _ _ _ hp
                      have u := sizeFields_upsert nm f acc
                      have e := sizeEntry_le nm f
                      have l1 := rd32_length h1
                      have l2 := takeN_length h2
                      have l3 := rd32_length h3
                      have l4 := rd32_length h4
                      have l5 := cstr_length hnm
                      simp only [List.length_append, List.length_take, List.length_drop] at ih c
                      omega

theorem decMsg_size (mx fuel lvl : Nat) (b : Bytes) (m : Msg) (r : Bytes)
    (h : decMsg mx fuel lvl b = some (m, r)) : sizeMsg m + r.length ≤ b.length :=
  (dec_size_all mx fuel).1 lvl b m r h

/-- `sizeMsg` does not see the representation tag reset and ignores non-flattenable fields -/
theorem sizeFixed_repOf (tc : Nat) (rp : Rep) (xs : List Bytes) (h : rp = .inl → xs.length = 1) :
    sizeFixed tc (repOf xs.length) xs = sizeFixed tc rp xs := by
  cases rp with
  | inl => simp [h rfl, repOf, sizeFixed]
  | arr =>
    by_cases h1 : xs.length = 1
    · simp [h1, repOf, sizeFixed]
    · simp [h1, repOf, sizeFixed]

theorem sizeStrs_repOf (rp : Rep) (xs : List Bytes) (h : rp = .inl → xs.length = 1) :
    sizeStrs (repOf xs.length) xs = sizeStrs rp xs := by
  by_cases h1 : xs.length = 1
  · match xs, h1 with
    | [x], _ => cases rp <;> simp [repOf, sizeStrs, sumLen] <;> omega
  · cases rp with
    | inl => exact absurd (h rfl) h1
    | arr => simp [h1, repOf]

theorem sizeRaws_repOf (rp : Rep) (xs : List Bytes) (h : rp = .inl → xs.length = 1) :
    sizeRaws (repOf xs.length) xs = sizeRaws rp xs := by
  by_cases h1 : xs.length = 1
  · match xs, h1 with
    | [x], _ => cases rp <;> simp [repOf, sizeRaws, sumLen] <;> omega
  · cases rp with
    | inl => exact absurd (h rfl) h1
    | arr => simp [h1, repOf]

theorem sizeMsgsF_eq_items (rp : Rep) (ms : List Msg) (h : rp = .inl → ms.length = 1) :
    sizeMsgsF rp ms = sizeMsgItems ms := by
  cases rp with
  | arr => simp [sizeMsgsF]
  | inl =>
    have := h rfl
    match ms, this with
    | [m], _ => simp [sizeMsgsF, sizeMsgItems]

theorem tripMsgs_length : ∀ (l : List Msg), (tripMsgs l).length = l.length
  | [] => by simp [tripMsgs]
  | _ :: t => by simp [tripMsgs, tripMsgs_length t]

mutual
theorem sizeMsg_trip : ∀ (m : Msg), wfMsg m → sizeMsg (tripMsg m) = sizeMsg m
  | .mk w fs, h => by
    simp only [wfMsg] at h
    simp [tripMsg, sizeMsg, sizeFields_trip fs h.2.2]
theorem sizeFields_trip : ∀ (fs : List (Bytes × Field)), wfFields fs →
    sizeFields (tripFields fs) = sizeFields fs
  | [], _ => by simp [tripFields]
  | (n, .opaque tc k) :: r, h => by
    simp only [wfFields] at h
    simpa [tripFields, sizeFields] using sizeFields_trip r h
  | (n, .fixed tc rp xs) :: r, h => by
    simp only [wfFields] at h
    obtain ⟨_, _, _, _, _, _, _, hr, _, hrest⟩ := h
    simp [tripFields, sizeFields, sizeFields_trip r hrest, sizeFixed_repOf tc rp xs hr]
  | (n, .strs rp xs) :: r, h => by
    simp only [wfFields] at h
    obtain ⟨_, _, _, _, hr, _, hrest⟩ := h
    simp [tripFields, sizeFields, sizeFields_trip r hrest, sizeStrs_repOf rp xs hr]
  | (n, .raws tc rp xs) :: r, h => by
    simp only [wfFields] at h
    obtain ⟨_, _, _, _, _, hr, _, hrest⟩ := h
    simp [tripFields, sizeFields, sizeFields_trip r hrest, sizeRaws_repOf rp xs hr]
  | (n, .msgs rp ms) :: r, h => by
    simp only [wfFields] at h
    obtain ⟨_, _, _, hms, hr, _, hrest⟩ := h
    have him := sizeMsgItems_trip ms hms
    have hp : sizeMsgsF (repOf ms.length) (tripMsgs ms) = sizeMsgsF rp ms := by
      rw [sizeMsgsF_eq_items rp ms hr,
        sizeMsgsF_eq_items _ (tripMsgs ms) (by intro e; simp [repOf] at e; rw [tripMsgs_length]; exact e), him]
    simp [tripFields, sizeFields, sizeFields_trip r hrest, hp]
theorem sizeMsgItems_trip : ∀ (ms : List Msg), wfMsgs ms → sizeMsgItems (tripMsgs ms) = sizeMsgItems ms
  | [], _ => by simp [tripMsgs]
  | m :: r, h => by
    simp only [wfMsgs] at h
    simp [tripMsgs, sizeMsgItems, sizeMsg_trip m h.2.1, sizeMsgItems_trip r h.2.2]
end

/-! ## truncation inside the header or below the entry-count bound is always an error -/

theorem rd32_short (b : Bytes) (h : b.length < 4) : rd32 b = none := by
  have : ¬ (4 ≤ b.length) := by omega
  simp [rd32, rdN, takeN, this]

theorem rd32_take_le32 (n k : Nat) (X : Bytes) (hn : n < 4294967296) (hk : 4 ≤ k) :
    rd32 ((le32 n ++ X).take k) = some (n, X.take (k - 4)) := by
  have h1 : (le32 n).take k = le32 n := List.take_of_length_le (by simp; omega)
  rw [List.take_append, h1, le32_length, rd32_le32 _ _ hn]

theorem decMsg_take_head (mx fuel lvl w : Nat) (fs : List (Bytes × Field)) (k : Nat)
    (hw : w < U32) (hc : countFlat fs < U32) (hk : k < 12 + 12 * countFlat fs) :
    decMsg mx fuel lvl ((encMsg (.mk w fs)).take k) = none := by
  have hpv : protocolVersion < 4294967296 := by decide
  have hw' : w < 4294967296 := by simpa [U32] using hw
  have hc' : countFlat fs < 4294967296 := by simpa [U32] using hc
  cases fuel with
  | zero => simp [decMsg]
  | succ fuel =>
    rw [decMsg]
    split
    · rfl
    · by_cases k4 : k < 4
      · rw [rd32_short _ (by simp only [List.length_take]; omega)]
      · rw [encMsg, rd32_take_le32 _ _ _ hpv (by omega)]
        simp only [protocolVersion_ok, if_false]
        by_cases k8 : k - 4 < 4
        · rw [rd32_short _ (by simp only [List.length_take]; omega)]
        · rw [rd32_take_le32 _ _ _ hw' (by omega)]
          simp only []
          by_cases k12 : k - 4 - 4 < 4
          · rw [rd32_short _ (by simp only [List.length_take]; omega)]
          · rw [rd32_take_le32 _ _ _ hc' (by omega)]
            simp only []
            have : (List.take (k - 4 - 4 - 4) (encFields fs)).length / 12 < countFlat fs := by
              simp only [List.length_take]
              apply (Nat.div_lt_iff_lt_mul (by decide)).2
              omega
            simp only [this, if_true]

end Muscle.Wire
