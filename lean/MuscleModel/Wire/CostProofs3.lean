import MuscleModel.Wire.CostProofs1

/-! C02 lemmas, part 3: fuel is irrelevant.  Every recursive call of the mutual block is made on strictly fewer bytes
(or, for `decPayload` → `decMsg`/`decMsgItems`, on no more bytes with the fuel unchanged), so any two fuels above the
input length give the same result. -/

set_option linter.unusedSimpArgs false
set_option linter.unusedVariables false

namespace Muscle.Wire
open Muscle Muscle.Gen

structure FuelAt (mx f1 : Nat) : Prop where
  msg : ∀ (f2 lvl : Nat) (b : Bytes), b.length < f1 → b.length < f2 → decMsg mx f1 lvl b = decMsg mx f2 lvl b
  fields : ∀ (f2 lvl k : Nat) (b : Bytes) (acc : List (Bytes × Field)), b.length < f1 → b.length < f2 →
    decFields mx f1 lvl k b acc = decFields mx f2 lvl k b acc
  payload : ∀ (f2 lvl tc : Nat) (p : Bytes), p.length < f1 → p.length < f2 →
    decPayload mx f1 lvl tc p = decPayload mx f2 lvl tc p
  items : ∀ (f2 lvl : Nat) (b : Bytes), b.length < f1 → b.length < f2 → decMsgItems mx f1 lvl b = decMsgItems mx f2 lvl b

theorem c2_fuel_msg_succ (mx f1 : Nat) (ih : FuelAt mx f1) :
    ∀ (f2 lvl : Nat) (b : Bytes), b.length < f1 + 1 → b.length < f2 →
      decMsg mx (f1 + 1) lvl b = decMsg mx f2 lvl b := by
  intro f2 lvl b hf1 hf2
  cases f2 with
  | zero => omega
  | succ f2 =>
    rw [decMsg, decMsg]
    by_cases hl : mx < lvl
    · rw [if_pos hl, if_pos hl]
    · rw [if_neg hl, if_neg hl]
      cases h1 : rd32 b with
      | none => rfl
      | some v1 =>
        obtain ⟨ver, b1⟩ := v1
        have l1 := rd32_length h1
        simp only
        by_cases hv : ver < oldestProtocolVersion ∨ protocolVersion < ver
        · rw [if_pos hv, if_pos hv]
        · rw [if_neg hv, if_neg hv]
          cases h2 : rd32 b1 with
          | none => rfl
          | some v2 =>
            obtain ⟨what, b2⟩ := v2
            have l2 := rd32_length h2
            simp only
            cases h3 : rd32 b2 with
            | none => rfl
            | some v3 =>
              obtain ⟨n, b3⟩ := v3
              have l3 := rd32_length h3
              simp only
              by_cases hn : b3.length / 12 < n
              · rw [if_pos hn, if_pos hn]
              · rw [if_neg hn, if_neg hn]
                rw [ih.fields f2 lvl n b3 [] (by omega) (by omega)]

theorem c2_fuel_items_succ (mx f1 : Nat) (ih : FuelAt mx f1) :
    ∀ (f2 lvl : Nat) (b : Bytes), b.length < f1 + 1 → b.length < f2 →
      decMsgItems mx (f1 + 1) lvl b = decMsgItems mx f2 lvl b := by
  intro f2 lvl b hf1 hf2
  cases f2 with
  | zero => omega
  | succ f2 =>
    cases b with
    | nil => simp [decMsgItems]
    | cons a t =>
      rw [decMsgItems, decMsgItems]
      cases h1 : rd32 (a :: t) with
      | none => rfl
      | some v1 =>
        obtain ⟨len, b1⟩ := v1
        have l1 := rd32_length h1
        simp only
        by_cases hlt : b1.length < len
        · rw [if_pos hlt, if_pos hlt]
        · rw [if_neg hlt, if_neg hlt]
          have lt : (List.take len b1).length ≤ b1.length := by simp [List.length_take]; omega
          rw [ih.msg f2 (lvl + 1) (List.take len b1) (by omega) (by omega)]
          cases h2 : decMsg mx f2 (lvl + 1) (List.take len b1) with
          | none => rfl
          | some v2 =>
            obtain ⟨m, rest⟩ := v2
            have l2 := (c2_posAt mx f2).msg _ _ _ _ h2
            simp only
            have l3 : (rest ++ List.drop len b1).length < b1.length := by
              simp only [List.length_append, List.length_drop, List.length_take] at l2 ⊢
              omega
            rw [ih.items f2 lvl _ (by omega) (by omega)]

theorem c2_fuel_payload (mx f1 : Nat)
    (hm : ∀ (f2 lvl : Nat) (b : Bytes), b.length < f1 → b.length < f2 → decMsg mx f1 lvl b = decMsg mx f2 lvl b)
    (hi : ∀ (f2 lvl : Nat) (b : Bytes), b.length < f1 → b.length < f2 → decMsgItems mx f1 lvl b = decMsgItems mx f2 lvl b) :
    ∀ (f2 lvl tc : Nat) (p : Bytes), p.length < f1 → p.length < f2 →
      decPayload mx f1 lvl tc p = decPayload mx f2 lvl tc p := by
  intro f2 lvl tc p hf1 hf2
  unfold decPayload
  by_cases h0 : wireItemSize tc ≠ 0
  · rw [if_pos h0, if_pos h0]
  · rw [if_neg h0, if_neg h0]
    by_cases h1 : tc = tcPointer ∨ tc = tcTag
    · rw [if_pos h1, if_pos h1]
    · rw [if_neg h1, if_neg h1]
      by_cases h2 : tc = tcMessage
      · rw [if_pos h2, if_pos h2]
        by_cases h3 : p.length < 4
        · rw [if_pos h3, if_pos h3]
        · rw [if_neg h3, if_neg h3]
          by_cases h4 : leVal (List.take 4 p) = p.length - 4
          · rw [if_pos h4, if_pos h4]
            have : (List.drop 4 p).length ≤ p.length := by simp [List.length_drop]
            rw [hm f2 (lvl + 1) (List.drop 4 p) (by omega) (by omega)]
          · rw [if_neg h4, if_neg h4]
            rw [hi f2 lvl p hf1 hf2]
      · rw [if_neg h2, if_neg h2]

theorem c2_fuel_fields_succ (mx f1 : Nat) (ih : FuelAt mx f1) :
    ∀ (f2 lvl k : Nat) (b : Bytes) (acc : List (Bytes × Field)), b.length < f1 + 1 → b.length < f2 →
      decFields mx (f1 + 1) lvl k b acc = decFields mx f2 lvl k b acc := by
  intro f2 lvl k b acc hf1 hf2
  cases f2 with
  | zero => omega
  | succ f2 =>
    cases k with
    | zero => simp [decFields]
    | succ k =>
      rw [decFields, decFields]
      cases h1 : rd32 b with
      | none => rfl
      | some v1 =>
        obtain ⟨nl, b1⟩ := v1
        have l1 := rd32_length h1
        simp only
        cases h2 : takeN nl b1 with
        | none => rfl
        | some v2 =>
          obtain ⟨np, b2⟩ := v2
          obtain ⟨l2, _⟩ := c2_takeN_len h2
          simp only
          cases h3 : rd32 b2 with
          | none => rfl
          | some v3 =>
            obtain ⟨tc, b3⟩ := v3
            have l3 := rd32_length h3
            simp only
            cases h4 : rd32 b3 with
            | none => rfl
            | some v4 =>
              obtain ⟨el, b4⟩ := v4
              have l4 := rd32_length h4
              simp only
              cases h5 : cstr np with
              | none => rfl
              | some nm =>
                simp only
                have key : ∀ tc', (match decPayload mx f1 lvl tc' (List.take el b4) with
                      | none => none
                      | some (f, rest) => decFields mx f1 lvl k (rest ++ List.drop el b4) (upsertField nm f acc)) =
                    (match decPayload mx f2 lvl tc' (List.take el b4) with
                      | none => none
                      | some (f, rest) => decFields mx f2 lvl k (rest ++ List.drop el b4) (upsertField nm f acc)) := by
                  intro tc'
                  have lt : (List.take el b4).length ≤ b4.length := by simp [List.length_take]; omega
                  rw [ih.payload f2 lvl tc' (List.take el b4) (by omega) (by omega)]
                  cases h6 : decPayload mx f2 lvl tc' (List.take el b4) with
                  | none => rfl
                  | some v6 =>
                    obtain ⟨f, rest⟩ := v6
                    have l6 := (c2_posAt mx f2).payload _ _ _ _ _ h6
                    simp only
                    have l7 : (rest ++ List.drop el b4).length ≤ b4.length := by
                      simp only [List.length_append, List.length_drop, List.length_take] at l6 ⊢
                      omega
                    rw [ih.fields f2 lvl k _ _ (by omega) (by omega)]
                cases h6 : lookupField nm acc with
                | none => simp only; exact key _
                | some f =>
                  simp only
                  by_cases hc : tc = tcAny ∨ tc = f.typeCode
                  · rw [if_pos hc]; exact key _
                  · rw [if_neg hc]

theorem c2_fuelAt (mx : Nat) : ∀ f1, FuelAt mx f1 := by
  intro f1
  induction f1 with
  | zero =>
    exact ⟨fun _ _ _ h => by omega, fun _ _ _ _ _ h => by omega, fun _ _ _ _ h => by omega, fun _ _ _ h => by omega⟩
  | succ f1 ih =>
    have hm := c2_fuel_msg_succ mx f1 ih
    have hi := c2_fuel_items_succ mx f1 ih
    exact ⟨hm, c2_fuel_fields_succ mx f1 ih, c2_fuel_payload mx (f1 + 1) hm hi, hi⟩

end Muscle.Wire
