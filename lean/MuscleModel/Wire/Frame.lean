import MuscleModel.Base.Bytes
import MuscleModel.Generated.Constants

/-!
# The 8-byte stream frame of `MessageIOGateway` (uncompressed encodings are opaque here: the body is a byte string)

`frame` mirrors `MessageIOGateway::FlattenHeaderAndMessageAux` (header = little-endian body length, little-endian
encoding id, then the body); `unframeStream` mirrors the receive side: `GetBodySize` (the encoding word must be one
of the known ids), the overflow test on `headerSize + bodySize`, then exactly `bodySize` bytes are collected;
`unframe` is `UnflattenHeaderAndMessage` on a complete buffer (`offset + lhbSize == bufSize`).
The C gateways (`MGAddOutgoingMessage`, `UGOutgoingMessagePrepared`) and `message_transceiver_thread.py` write the
same header with the encoding fixed to `'Enc0'`; that they do is checked by harness `xwire`.
-/

namespace Muscle.Wire
open Muscle Muscle.Gen

/-- `FlattenHeaderAndMessage`: `le32 length ++ le32 encoding ++ body` -/
def frame (enc : Nat) (body : Bytes) : Bytes := le32 body.length ++ (le32 enc ++ body)

/-- is `enc` one of `MUSCLE_MESSAGE_ENCODING_DEFAULT … MUSCLE_MESSAGE_ENCODING_END_MARKER-1` (`GetBodySize`) -/
def validEncoding (enc : Nat) : Bool := encodingDefault ≤ enc && enc < encodingEndMarker

/-- receive side on a byte stream: (encoding, body, rest of the stream); `none` = error or not yet complete -/
def unframeStream (b : Bytes) : Option (Nat × Bytes × Bytes) :=
  match rd32 b with
  | none => none
  | some (len, b) =>
    match rd32 b with
    | none => none
    | some (enc, b) =>
      if !validEncoding enc then none
      else if 4294967296 ≤ gatewayHeaderSize + len then none     -- `WillUnsignedAddOverflow(hs, bodySize)`
      else
        match takeN len b with
        | none => none
        | some (body, rest) => some (enc, body, rest)

/-- `UnflattenHeaderAndMessage` on a buffer that must hold exactly one frame -/
def unframe (b : Bytes) : Option (Nat × Bytes) :=
  match unframeStream b with
  | some (enc, body, []) => some (enc, body)
  | _ => none

theorem unframeStream_frame (enc : Nat) (body rest : Bytes) (he : validEncoding enc = true)
    (hl : gatewayHeaderSize + body.length < 4294967296) :
    unframeStream (frame enc body ++ rest) = some (enc, body, rest) := by
  have hlen : body.length < 4294967296 := by omega
  have henc : enc < 4294967296 := by
    simp only [validEncoding, Bool.and_eq_true, decide_eq_true_eq] at he
    have : encodingEndMarker < 4294967296 := by decide
    omega
  have h1 : rd32 (le32 body.length ++ (le32 enc ++ (body ++ rest))) = some (body.length, le32 enc ++ (body ++ rest)) :=
    rd32_le32 _ _ hlen
  have h2 : rd32 (le32 enc ++ (body ++ rest)) = some (enc, body ++ rest) := rd32_le32 _ _ henc
  have h3 : ¬ (4294967296 ≤ gatewayHeaderSize + body.length) := by omega
  simp only [unframeStream, frame, List.append_assoc, h1, h2, he, Bool.not_true, Bool.false_eq_true, if_false, h3,
    takeN_append]

end Muscle.Wire
