import MuscleModel.Wire.Ops

/-!
# What a round trip may change, and which Messages it is stated for

* `trip m` = `canon (flatPart m)`: non-flattenable fields dropped (the writer skips them) and the
  representation tag reset to what the parser chooses (inline iff exactly one item).  It keeps the
  what-code, field order, names, type codes, item counts and every item's bytes *by definition* —
  that is the "equal at every nesting level" clause of C01.
* `WF m`: the Messages that can be built through the public API and whose sizes fit the 32-bit
  fields of the format.
* `nodes`, `depth`: recursion measures used for fuel and for the nesting limit.
-/

namespace Muscle.Wire
open Muscle Muscle.Gen

def repOf (n : Nat) : Rep := if n = 1 then .inl else .arr

mutual
def tripMsg : Msg → Msg
  | .mk w fs => .mk w (tripFields fs)
def tripFields : List (Bytes × Field) → List (Bytes × Field)
  | [] => []
  | (_, .opaque _ _) :: r => tripFields r
  | (n, .fixed tc _ xs) :: r => (n, .fixed tc (repOf xs.length) xs) :: tripFields r
  | (n, .strs _ xs) :: r => (n, .strs (repOf xs.length) xs) :: tripFields r
  | (n, .raws tc _ xs) :: r => (n, .raws tc (repOf xs.length) xs) :: tripFields r
  | (n, .msgs _ xs) :: r => (n, .msgs (repOf xs.length) (tripMsgs xs)) :: tripFields r
def tripMsgs : List Msg → List Msg
  | [] => []
  | m :: r => tripMsg m :: tripMsgs r
end

def U32 : Nat := 4294967296

def nulFree (b : Bytes) : Prop := ∀ x ∈ b, x ≠ 0

/-- names of the flattenable fields, in order -/
def flatNames : List (Bytes × Field) → List Bytes
  | [] => []
  | (_, .opaque _ _) :: r => flatNames r
  | (n, .fixed _ _ _) :: r => n :: flatNames r
  | (n, .strs _ _) :: r => n :: flatNames r
  | (n, .raws _ _ _) :: r => n :: flatNames r
  | (n, .msgs _ _) :: r => n :: flatNames r

/-- type codes the parser treats as "anything else": a `ByteBufferDataArray` with that code -/
def isRawTc (tc : Nat) : Prop :=
  wireItemSize tc = 0 ∧ tc ≠ tcPointer ∧ tc ≠ tcTag ∧ tc ≠ tcMessage ∧ tc ≠ tcString ∧ tc < U32

mutual
def wfMsg : Msg → Prop
  | .mk w fs => w < U32 ∧ countFlat fs < U32 ∧ wfFields fs
def wfFields : List (Bytes × Field) → Prop
  | [] => True
  | (_, .opaque _ _) :: r => wfFields r
  | (n, .fixed tc rp xs) :: r =>
      nulFree n ∧ n.length + 1 < U32 ∧ n ∉ flatNames r ∧
      wireItemSize tc ≠ 0 ∧ tc < U32 ∧ (∀ x ∈ xs, x.length = wireItemSize tc) ∧
      (tc = tcBool → ∀ x ∈ xs, normBool x = x) ∧ (rp = .inl → xs.length = 1) ∧
      xs.length * wireItemSize tc < U32 ∧ wfFields r
  | (n, .strs rp xs) :: r =>
      nulFree n ∧ n.length + 1 < U32 ∧ n ∉ flatNames r ∧
      (∀ s ∈ xs, nulFree s ∧ s.length + 1 < U32) ∧ (rp = .inl → xs.length = 1) ∧
      (encStrs .arr xs).length < U32 ∧ wfFields r
  | (n, .raws tc rp xs) :: r =>
      nulFree n ∧ n.length + 1 < U32 ∧ n ∉ flatNames r ∧
      isRawTc tc ∧ (∀ b ∈ xs, b.length < U32) ∧ (rp = .inl → xs.length = 1) ∧
      (encRaws .arr xs).length < U32 ∧ wfFields r
  | (n, .msgs rp xs) :: r =>
      nulFree n ∧ n.length + 1 < U32 ∧ n ∉ flatNames r ∧
      wfMsgs xs ∧ (rp = .inl → xs.length = 1) ∧ (encMsgItems xs).length < U32 ∧ wfFields r
def wfMsgs : List Msg → Prop
  | [] => True
  | m :: r => (encMsg m).length < U32 ∧ wfMsg m ∧ wfMsgs r
end

-- number of parser calls needed (fuel)
mutual
def nodesMsg : Msg → Nat
  | .mk _ fs => 1 + nodesFields fs
def nodesFields : List (Bytes × Field) → Nat
  | [] => 0
  | (_, .opaque _ _) :: r => nodesFields r
  | (_, .fixed _ _ _) :: r => 1 + nodesFields r
  | (_, .strs _ _) :: r => 1 + nodesFields r
  | (_, .raws _ _ _) :: r => 1 + nodesFields r
  | (_, .msgs _ xs) :: r => 1 + nodesMsgs xs + nodesFields r
def nodesMsgs : List Msg → Nat
  | [] => 0
  | m :: r => 1 + nodesMsg m + nodesMsgs r
end

-- nesting depth: 1 for a Message without sub-Messages
mutual
def depthMsg : Msg → Nat
  | .mk _ fs => 1 + depthFields fs
def depthFields : List (Bytes × Field) → Nat
  | [] => 0
  | (_, .msgs _ xs) :: r => max (depthMsgs xs) (depthFields r)
  | (_, .opaque _ _) :: r => depthFields r
  | (_, .fixed _ _ _) :: r => depthFields r
  | (_, .strs _ _) :: r => depthFields r
  | (_, .raws _ _ _) :: r => depthFields r
def depthMsgs : List Msg → Nat
  | [] => 0
  | m :: r => max (depthMsg m) (depthMsgs r)
end

/-- the well-formedness predicate of C01: constructible, sizes fit 32 bits -/
def Msg.WF (m : Msg) : Prop := wfMsg m

end Muscle.Wire
