import MuscleModel.Wire.CostProofs1

/-! C02 lemmas, part 7: the encoder family `nestMsg k m` (`m` wrapped in `k` one-field Messages) and the fact that the
parser refuses it as soon as its innermost frame would sit above the nesting limit. -/

set_option linter.unusedSimpArgs false
set_option linter.unusedVariables false

namespace Muscle.Wire
open Muscle Muscle.Gen

/-- `m` inside `k` Messages, each holding it as the single item of the Message field "a" -/
def nestMsg : Nat → Msg → Msg
  | 0, m => m
  | k+1, m => .mk 0 [([0x61], .msgs .inl [nestMsg k m])]

theorem c2_decMsg_above_limit (mx fuel lvl : Nat) (b : Bytes) (h : mx < lvl) : decMsg mx fuel lvl b = none := by
  cases fuel with
  | zero => simp [decMsg]
  | succ fuel => rw [decMsg, if_pos h]

theorem c2_encMsg_ge (m : Msg) : 12 ≤ (encMsg m).length := by
  cases m with
  | mk w fs => simp [encMsg]; omega

theorem c2_leVal_le32 (n : Nat) (h : n < 4294967296) : leVal (le32 n) = n :=
  leVal_leN 4 n (by simpa using h)

/-- the wire form of one wrapper around the encoding `E` of the inner Message -/
theorem c2_encMsg_nest_succ (k : Nat) (m : Msg) :
    encMsg (nestMsg (k + 1) m) =
      le32 protocolVersion ++ (le32 0 ++ (le32 1 ++
        (le32 2 ++ ([0x61] ++ (0 :: (le32 tcMessage ++ (le32 (4 + (encMsg (nestMsg k m)).length) ++
          ((le32 (encMsg (nestMsg k m)).length ++ encMsg (nestMsg k m)) ++ []))))))))  := by
  simp [nestMsg, encMsg, encFields, encMsgsF, countFlat]

/-- `MessageField::Unflatten` on a view holding exactly one sub-Message whose parse fails -/
theorem c2_payload_one_submsg_fails (mx fuel lvl : Nat) (E : Bytes) (hL : E.length < 4294967296)
    (hrec : decMsg mx fuel (lvl + 1) E = none) :
    decPayload mx fuel lvl tcMessage (le32 E.length ++ E) = none := by
  unfold decPayload
  have e0 : ¬ (wireItemSize tcMessage ≠ 0) := by decide
  have e1 : ¬ (tcMessage = tcPointer ∨ tcMessage = tcTag) := by decide
  rw [if_neg e0, if_neg e1, if_pos rfl]
  have e3 : ¬ ((le32 E.length ++ E).length < 4) := by simp
  have e4 : leVal (List.take 4 (le32 E.length ++ E)) = (le32 E.length ++ E).length - 4 := by
    have : List.take 4 (le32 E.length ++ E) = le32 E.length := by simp
    rw [this, c2_leVal_le32 _ hL]; simp
  have e5 : List.drop 4 (le32 E.length ++ E) = E := by
    have : (le32 E.length).length = 4 := by simp
    simp [this]
  rw [if_neg e3, if_pos e4, e5, hrec]

/-- the entry loop on the single entry "a" = one sub-Message whose parse fails -/
theorem c2_fields_one_submsg_fails (mx fuel lvl : Nat) (E X : Bytes) (hel : 4 + E.length < 4294967296)
    (hrec : ∀ f, decMsg mx f (lvl + 1) E = none) :
    decFields mx fuel lvl 1
      (le32 2 ++ ([0x61] ++ (0 :: (le32 tcMessage ++ (le32 (4 + E.length) ++ ((le32 E.length ++ E) ++ X)))))) [] = none := by
  cases fuel with
  | zero => simp [decFields]
  | succ fuel =>
    rw [decFields]
    have h2 : (2 : Nat) < 4294967296 := by decide
    have htc : tcMessage < 4294967296 := by decide
    have ht : takeN 2 ([0x61] ++ (0 :: (le32 tcMessage ++ (le32 (4 + E.length) ++ ((le32 E.length ++ E) ++ X))))) =
        some ([0x61, 0], le32 tcMessage ++ (le32 (4 + E.length) ++ ((le32 E.length ++ E) ++ X))) := by
      simp [takeN]
    have hc : cstr [0x61, 0] = some [0x61] := by decide
    have htake : List.take (4 + E.length) ((le32 E.length ++ E) ++ X) = le32 E.length ++ E := by
      apply List.take_left'
      simp
    have hpay := c2_payload_one_submsg_fails mx fuel lvl E (by omega) (hrec fuel)
    simp only [rd32_le32 _ _ h2, ht, rd32_le32 _ _ htc, rd32_le32 _ _ hel, hc, lookupField, htake, hpay]

theorem c2_nest_refused (mx : Nat) (m : Msg) : ∀ (k fuel lvl : Nat) (rest : Bytes),
    mx < lvl + k → (encMsg (nestMsg k m)).length < 4294967296 →
    decMsg mx fuel lvl (encMsg (nestMsg k m) ++ rest) = none := by
  intro k
  induction k with
  | zero => intro fuel lvl rest h _; exact c2_decMsg_above_limit mx fuel lvl _ (by omega)
  | succ k ih =>
    intro fuel lvl rest h hlen
    by_cases hl : mx < lvl
    · exact c2_decMsg_above_limit mx fuel lvl _ hl
    · cases fuel with
      | zero => simp [decMsg]
      | succ fuel =>
        have hpv : protocolVersion < 4294967296 := by decide
        have hver : ¬ (protocolVersion < oldestProtocolVersion ∨ protocolVersion < protocolVersion) := by decide
        have h0 : (0 : Nat) < 4294967296 := by decide
        have h1 : (1 : Nat) < 4294967296 := by decide
        have h12 := c2_encMsg_ge (nestMsg k m)
        rw [c2_encMsg_nest_succ] at hlen ⊢
        have hel : 4 + (encMsg (nestMsg k m)).length < 4294967296 := by
          simp at hlen; omega
        have hrec : ∀ f, decMsg mx f (lvl + 1) (encMsg (nestMsg k m)) = none := by
          intro f
          have := ih f (lvl + 1) [] (by omega) (by omega)
          rwa [List.append_nil] at this
        have hf := c2_fields_one_submsg_fails mx fuel lvl (encMsg (nestMsg k m)) ([] ++ rest) hel hrec
        rw [decMsg, if_neg hl]
        simp only [List.append_assoc, rd32_le32 _ _ hpv, if_neg hver, rd32_le32 _ _ h0, rd32_le32 _ _ h1]
        have hcnt : ¬ ((le32 2 ++ ([0x61] ++ (0 :: (le32 tcMessage ++ (le32 (4 + (encMsg (nestMsg k m)).length) ++
            (le32 (encMsg (nestMsg k m)).length ++ (encMsg (nestMsg k m) ++ ([] ++ rest)))))))).length / 12 < 1) := by
          simp; omega
        simp only [List.append_assoc] at hf
        simp only [List.cons_append, List.nil_append, List.append_assoc] at hcnt hf ⊢
        rw [if_neg hcnt, hf]

end Muscle.Wire
