import MuscleModel.Wire.CostProofs1

/-! C02 lemmas, part 6: the accepted object is no bigger than the input.  Re-flattening what a reader returned takes no
more bytes than the reader consumed (`cstr` and `normBool` only shrink or keep, a repeated field name REPLACES the
earlier entry, every length word is 4 bytes whatever it says). -/

set_option linter.unusedSimpArgs false
set_option linter.unusedVariables false

namespace Muscle.Wire
open Muscle Muscle.Gen

/-- flattened size of one entry of the field table -/
def c2_entryLen (n : Bytes) (f : Field) : Nat :=
  match f with
  | .opaque _ _ => 0
  | f => 4 + (n.length + 1) + 4 + 4 + (encPayload f).length

theorem c2_entryLen_le (n : Bytes) (f : Field) : c2_entryLen n f ≤ 4 + (n.length + 1) + 4 + 4 + (encPayload f).length := by
  cases f <;> simp [c2_entryLen]

theorem c2_encFields_cons (n : Bytes) (f : Field) (r : List (Bytes × Field)) :
    (encFields ((n, f) :: r)).length = c2_entryLen n f + (encFields r).length := by
  cases f <;> simp [encFields, c2_entryLen, encPayload] <;> omega

theorem c2_upsert_len (nm : Bytes) (f : Field) : ∀ (acc : List (Bytes × Field)),
    (encFields (upsertField nm f acc)).length ≤ (encFields acc).length + c2_entryLen nm f := by
  intro acc
  induction acc with
  | nil => simp [upsertField, c2_encFields_cons, encFields]
  | cons a t ih =>
    obtain ⟨n, g⟩ := a
    simp only [upsertField]
    split
    · rename_i h; subst h
      simp only [c2_encFields_cons]; omega
    · simp only [c2_encFields_cons]; omega

theorem c2_normBool_length (x : Bytes) : (normBool x).length = x.length := by simp [normBool]

theorem c2_encFixedArr_chunks (sz : Nat) : ∀ (k : Nat) (p : Bytes), (encFixedArr (chunks sz k p)).length ≤ p.length := by
  intro k
  induction k with
  | zero => intro p; simp [chunks, encFixedArr]
  | succ k ih =>
    intro p
    have := ih (p.drop sz)
    simp only [chunks, encFixedArr, List.length_append, List.length_take, List.length_drop] at this ⊢
    omega

theorem c2_encFixedArr_normBool (xs : List Bytes) : (encFixedArr (xs.map normBool)).length = (encFixedArr xs).length := by
  induction xs with
  | nil => rfl
  | cons a t ih => simp [encFixedArr, c2_normBool_length, ih]

theorem c2_size_fixed (tc sz : Nat) (p : Bytes) (f : Field) (r : Bytes) (h : decFixed tc sz p = some (f, r)) :
    (encPayload f).length + r.length ≤ p.length := by
  unfold decFixed at h
  split at h
  · cases h
    split <;> simp [encPayload, encFixed, c2_normBool_length, List.length_take, List.length_drop] <;> omega
  · split at h
    · cases h
    · cases h
      have := c2_encFixedArr_chunks sz (p.length / sz) p
      split <;> simp [encPayload, encFixed, c2_encFixedArr_normBool] <;> omega

theorem c2_size_str : ∀ (k : Nat) (b : Bytes) (xs : List Bytes) (r : Bytes), decStrItems k b = some (xs, r) →
    (encStrItems xs).length + r.length ≤ b.length ∧ xs.length = k := by
  intro k
  induction k with
  | zero => intro b xs r h; simp only [decStrItems] at h; cases h; simp [encStrItems]
  | succ k ih =>
    intro b xs r h
    simp only [decStrItems] at h
    split at h
    · cases h
    · rename_i len b1 h1
      have l1 := rd32_length h1
      split at h
      · cases h
      · rename_i p b2 h2
        obtain ⟨l2, l2'⟩ := c2_takeN_len h2
        split at h
        · rename_i s xs' b3 hs h3
          cases h
          have := ih _ _ _ h3
          have := c2_cstr_len hs
          simp [encStrItems]; omega
        · cases h

theorem c2_size_raw : ∀ (k : Nat) (b : Bytes) (xs : List Bytes) (r : Bytes), decRawItems k b = some (xs, r) →
    (encRawItems xs).length + r.length ≤ b.length ∧ xs.length = k := by
  intro k
  induction k with
  | zero => intro b xs r h; simp only [decRawItems] at h; cases h; simp [encRawItems]
  | succ k ih =>
    intro b xs r h
    simp only [decRawItems] at h
    split at h
    · cases h
    · rename_i len b1 h1
      have l1 := rd32_length h1
      split at h
      · cases h
      · rename_i p b2 h2
        obtain ⟨l2, l2'⟩ := c2_takeN_len h2
        split at h
        · cases h
        · rename_i xs' b3 h3
          cases h
          have := ih _ _ _ h3
          simp [encRawItems]; omega

structure SizeAt (mx fuel : Nat) : Prop where
  msg : ∀ (lvl : Nat) (b : Bytes) (m : Msg) (r : Bytes), decMsg mx fuel lvl b = some (m, r) →
    (encMsg m).length + r.length ≤ b.length
  fields : ∀ (lvl k : Nat) (b : Bytes) (acc fs : List (Bytes × Field)) (r : Bytes),
    decFields mx fuel lvl k b acc = some (fs, r) → (encFields fs).length + r.length ≤ (encFields acc).length + b.length
  payload : ∀ (lvl tc : Nat) (p : Bytes) (f : Field) (r : Bytes),
    decPayload mx fuel lvl tc p = some (f, r) → (encPayload f).length + r.length ≤ p.length
  items : ∀ (lvl : Nat) (b : Bytes) (ms : List Msg), decMsgItems mx fuel lvl b = some ms → (encMsgItems ms).length ≤ b.length

theorem c2_size_msg_succ (mx fuel : Nat) (ih : SizeAt mx fuel) :
    ∀ (lvl : Nat) (b : Bytes) (m : Msg) (r : Bytes), decMsg mx (fuel + 1) lvl b = some (m, r) →
      (encMsg m).length + r.length ≤ b.length := by
  intro lvl b m r h
  rw [decMsg] at h
  split at h
  · cases h
  · split at h
    · cases h
    · rename_i ver b1 h1
      have l1 := rd32_length h1
      split at h
      · cases h
      · split at h
        · cases h
        · rename_i what b2 h2
          have l2 := rd32_length h2
          split at h
          · cases h
          · rename_i n b3 h3
            have l3 := rd32_length h3
            split at h
            · cases h
            · split at h
              · cases h
              · rename_i fs b4 h4
                cases h
                have := ih.fields _ _ _ _ _ _ h4
                simp [encMsg, encFields] at this ⊢
                omega

theorem c2_size_items_succ (mx fuel : Nat) (ih : SizeAt mx fuel) :
    ∀ (lvl : Nat) (b : Bytes) (ms : List Msg), decMsgItems mx (fuel + 1) lvl b = some ms →
      (encMsgItems ms).length ≤ b.length := by
  intro lvl b ms h
  cases b with
  | nil => simp only [decMsgItems] at h; cases h; simp [encMsgItems]
  | cons a t =>
    rw [decMsgItems] at h
    split at h
    · cases h
    · rename_i len b1 h1
      have l1 := rd32_length h1
      split at h
      · cases h
      · split at h
        · cases h
        · rename_i m rest h2
          have s2 := ih.msg _ _ _ _ h2
          split at h
          · cases h
          · rename_i ms' h3
            cases h
            have s3 := ih.items _ _ _ h3
            simp only [encMsgItems, List.length_append, le32_length, List.length_take, List.length_drop] at s2 s3 ⊢
            omega

theorem c2_size_payload (mx fuel : Nat)
    (hm : ∀ (lvl : Nat) (b : Bytes) (m : Msg) (r : Bytes), decMsg mx fuel lvl b = some (m, r) →
      (encMsg m).length + r.length ≤ b.length)
    (hi : ∀ (lvl : Nat) (b : Bytes) (ms : List Msg), decMsgItems mx fuel lvl b = some ms → (encMsgItems ms).length ≤ b.length) :
    ∀ (lvl tc : Nat) (p : Bytes) (f : Field) (r : Bytes),
      decPayload mx fuel lvl tc p = some (f, r) → (encPayload f).length + r.length ≤ p.length := by
  intro lvl tc p f r h
  unfold decPayload at h
  split at h
  · exact c2_size_fixed _ _ _ _ _ h
  · split at h
    · cases h
    · split at h
      · split at h
        · split at h
          · cases h; simp [encPayload, encMsgsF, encMsgItems]
          · cases h
        · split at h
          · split at h
            · cases h
            · rename_i m r' h2
              cases h
              have := hm _ _ _ _ h2
              simp only [encPayload, encMsgsF, List.length_append, le32_length, List.length_drop, List.length_nil] at this ⊢
              omega
          · split at h
            · cases h
            · rename_i ms h2
              cases h
              have := hi _ _ _ h2
              simp only [encPayload, encMsgsF, List.length_nil]; omega
      · split at h
        · cases h
        · rename_i cnt q h1
          have l1 := rd32_length h1
          split at h
          · split at h
            · cases h
            · rename_i xs rest h2
              cases h
              obtain ⟨s2, s2'⟩ := c2_size_str _ _ _ _ h2
              by_cases hc : cnt = 1
              · subst hc
                match xs, s2' with
                | [s], _ =>
                  simp [encPayload, encStrs, encStrItems] at s2 ⊢; omega
              · simp [encPayload, encStrs, hc] at s2 ⊢; omega
          · split at h
            · split at h
              · cases h
              · rename_i sz q2 h2
                have l2 := rd32_length h2
                split at h
                · cases h; simp [encPayload, encRaws]; omega
                · cases h
            · split at h
              · cases h
              · rename_i xs rest h2
                cases h
                obtain ⟨s2, s2'⟩ := c2_size_raw _ _ _ _ h2
                simp [encPayload, encRaws] at s2 ⊢; omega

theorem c2_size_fields_zero (mx : Nat) :
    ∀ (lvl k : Nat) (b : Bytes) (acc fs : List (Bytes × Field)) (r : Bytes),
      decFields mx 0 lvl k b acc = some (fs, r) → (encFields fs).length + r.length ≤ (encFields acc).length + b.length := by
  intro lvl k b acc fs r h
  cases k with
  | zero => simp only [decFields] at h; cases h; omega
  | succ k => simp only [decFields] at h; cases h

theorem c2_size_fields_succ (mx fuel : Nat) (ih : SizeAt mx fuel) :
    ∀ (lvl k : Nat) (b : Bytes) (acc fs : List (Bytes × Field)) (r : Bytes),
      decFields mx (fuel + 1) lvl k b acc = some (fs, r) →
        (encFields fs).length + r.length ≤ (encFields acc).length + b.length := by
  intro lvl k b acc fs r h
  cases k with
  | zero => simp only [decFields] at h; cases h; omega
  | succ k =>
    rw [decFields] at h
    split at h
    · cases h
    · rename_i nl b1 h1
      have l1 := rd32_length h1
      split at h
      · cases h
      · rename_i np b2 h2
        obtain ⟨l2, l2'⟩ := c2_takeN_len h2
        split at h
        · cases h
        · rename_i tc b3 h3
          have l3 := rd32_length h3
          split at h
          · cases h
          · rename_i el b4 h4
            have l4 := rd32_length h4
            split at h
            · cases h
            · rename_i nm hnm
              have lnm := c2_cstr_len hnm
              have key : ∀ tc', (match decPayload mx fuel lvl tc' (List.take el b4) with
                    | none => none
                    | some (f, rest) => decFields mx fuel lvl k (rest ++ List.drop el b4) (upsertField nm f acc)) = some (fs, r) →
                  (encFields fs).length + r.length ≤ (encFields acc).length + b.length := by
                intro tc' h
                split at h
                · cases h
                · rename_i f rest h5
                  have s5 := ih.payload _ _ _ _ _ h5
                  have s6 := ih.fields _ _ _ _ _ _ h
                  have s7 := c2_upsert_len nm f acc
                  have s8 := c2_entryLen_le nm f
                  simp only [List.length_append, List.length_take, List.length_drop] at s5 s6
                  omega
              split at h
              · rename_i f hf
                by_cases hc : tc = tcAny ∨ tc = f.typeCode
                · rw [if_pos hc] at h; exact key _ h
                · rw [if_neg hc] at h; cases h
              · exact key _ h

theorem c2_sizeAt (mx : Nat) : ∀ fuel, SizeAt mx fuel := by
  intro fuel
  induction fuel with
  | zero =>
    have hm : ∀ (lvl : Nat) (b : Bytes) (m : Msg) (r : Bytes), decMsg mx 0 lvl b = some (m, r) →
        (encMsg m).length + r.length ≤ b.length := by
      intro lvl b m r h; simp only [decMsg] at h; cases h
    have hi : ∀ (lvl : Nat) (b : Bytes) (ms : List Msg), decMsgItems mx 0 lvl b = some ms →
        (encMsgItems ms).length ≤ b.length := by
      intro lvl b ms h
      cases b with
      | nil => simp only [decMsgItems] at h; cases h; simp [encMsgItems]
      | cons a t => simp only [decMsgItems] at h; cases h
    exact ⟨hm, c2_size_fields_zero mx, c2_size_payload mx 0 hm hi, hi⟩
  | succ fuel ih =>
    have hm := c2_size_msg_succ mx fuel ih
    have hi := c2_size_items_succ mx fuel ih
    exact ⟨hm, c2_size_fields_succ mx fuel ih, c2_size_payload mx (fuel + 1) hm hi, hi⟩

end Muscle.Wire
