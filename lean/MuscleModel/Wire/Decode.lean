import MuscleModel.Wire.Msg

/-!
# The Message parser (`Message::Unflatten` and everything below it)

Mirrors, check for check, what the current code does with *arbitrary* bytes:
`Message::Unflatten`, `MessageField::Unflatten`, `GetNumItemsInFlattenedBuffer`,
`SingleUnflatten`, and the `TemplatedUnflatten` of the data-array classes, with
the `DataUnflattener` conventions (a read limiter narrows the view to
`min(declared, available)` bytes; after a limited read the position is where the
callee *stopped*, not the end of the declared region; `String::Unflatten` of a
view without NUL is an error).

`none` = the parser returns an error status.  Readers return the unread rest.
Every recursive call consumes one unit of fuel; `decode` supplies
`length + 2`, and the round-trip theorem shows any fuel ≥ the value's node count
suffices.
-/

namespace Muscle.Wire
open Muscle Muscle.Gen

/-- `String::Unflatten` on a limited view: the bytes up to the first NUL; a view without NUL (or an empty
    view) is an error (`ReadCString` flags it and `String::Unflatten` now returns that status) -/
def cstr (p : Bytes) : Option Bytes := if p.contains 0 then some (p.takeWhile (· != 0)) else none

/-- `ReadFlatsWithLengthPrefixes<String>` : `k` × (`len`, `len` bytes) -/
def decStrItems : Nat → Bytes → Option (List Bytes × Bytes)
  | 0, b => some ([], b)
  | k+1, b =>
    match rd32 b with
    | none => none
    | some (len, b) =>
      match takeN len b with
      | none => none
      | some (p, b) =>
        match cstr p, decStrItems k b with
        | some s, some (xs, b) => some (s :: xs, b)
        | _, _ => none

/-- `ByteBufferDataArray::TemplatedUnflatten` item loop -/
def decRawItems : Nat → Bytes → Option (List Bytes × Bytes)
  | 0, b => some ([], b)
  | k+1, b =>
    match rd32 b with
    | none => none
    | some (len, b) =>
      match takeN len b with
      | none => none
      | some (p, b) =>
        match decRawItems k b with
        | none => none
        | some (xs, b) => some (p :: xs, b)

/-- cut a byte list whose length is a multiple of `sz` into `sz`-byte items -/
def chunks (sz : Nat) : Nat → Bytes → List Bytes
  | 0, _ => []
  | k+1, b => b.take sz :: chunks sz k (b.drop sz)

/-- a wire byte read into a C++ `bool` and written back: `ReadByte() != 0` then `? 1 : 0` -/
def normBool (x : Bytes) : Bytes := x.map (fun b => if b = 0 then 0 else 1)

/-- fixed-size payloads (`wireItemSize tc = sz > 0`) -/
def decFixed (tc sz : Nat) (p : Bytes) : Option (Field × Bytes) :=
  if p.length / sz = 1 then
    -- SingleUnflatten reads exactly one item and leaves the rest unread
    let item := p.take sz
    some (.fixed tc .inl [if tc = tcBool then normBool item else item], p.drop sz)
  else if p.length % sz ≠ 0 then none
  else
    let items := chunks sz (p.length / sz) p
    some (.fixed tc .arr (if tc = tcBool then items.map normBool else items), [])

/-- look a field name up in the entries parsed so far -/
def lookupField (nm : Bytes) : List (Bytes × Field) → Option Field
  | [] => none
  | (n, f) :: r => if n = nm then some f else lookupField nm r

/-- `GetOrCreateMessageField` followed by the overwrite: same position if the name exists -/
def upsertField (nm : Bytes) (f : Field) : List (Bytes × Field) → List (Bytes × Field)
  | [] => [(nm, f)]
  | (n, g) :: r => if n = nm then (n, f) :: r else (n, g) :: upsertField nm f r

mutual
/-- `Message::Unflatten`; `mx` = `MUSCLE_MAX_MESSAGE_NESTING_DEPTH`, `lvl` = the per-thread nest count
    (1 for the outermost call) -/
def decMsg (mx : Nat) : Nat → Nat → Bytes → Option (Msg × Bytes)
  | 0, _, _ => none
  | fuel+1, lvl, b =>
    if mx < lvl then none else
    match rd32 b with
    | none => none
    | some (ver, b) =>
      if ver < oldestProtocolVersion ∨ protocolVersion < ver then none else
      match rd32 b with
      | none => none
      | some (what, b) =>
        match rd32 b with
        | none => none
        | some (n, b) =>
          if b.length / 12 < n then none else
          match decFields mx fuel lvl n b [] with
          | none => none
          | some (fs, b) => some (.mk what fs, b)
/-- the entry loop of `Message::Unflatten`; `acc` = entries created so far, in order -/
def decFields (mx : Nat) : Nat → Nat → Nat → Bytes → List (Bytes × Field) → Option (List (Bytes × Field) × Bytes)
  | _, _, 0, b, acc => some (acc, b)
  | 0, _, _+1, _, _ => none
  | fuel+1, lvl, k+1, b, acc =>
    match rd32 b with
    | none => none
    | some (nl, b) =>
      match takeN nl b with
      | none => none
      | some (np, b) =>
        match rd32 b with
        | none => none
        | some (tc, b) =>
          match rd32 b with
          | none => none
          | some (el, b) =>
            match cstr np with
            | none => none
            | some nm =>
            -- GetOrCreateMessageField: reuse a same-named field if the type agrees (or B_ANY_TYPE), else B_TYPE_MISMATCH
            let tc? : Option Nat :=
              match lookupField nm acc with
              | some f => if tc = tcAny ∨ tc = f.typeCode then some f.typeCode else none
              | none => some tc
            match tc? with
            | none => none
            | some tc =>
              match decPayload mx fuel lvl tc (b.take el) with
              | none => none
              | some (f, rest) => decFields mx fuel lvl k (rest ++ b.drop el) (upsertField nm f acc)
/-- `MessageField::Unflatten` on the limited view `p`; returns the unread rest of `p` -/
def decPayload (mx : Nat) : Nat → Nat → Nat → Bytes → Option (Field × Bytes)
  | fuel, lvl, tc, p =>
    if wireItemSize tc ≠ 0 then decFixed tc (wireItemSize tc) p
    else if tc = tcPointer ∨ tc = tcTag then none
    else if tc = tcMessage then
      if p.length < 4 then
        (if p.length = 0 then some (.msgs .arr [], []) else none)
      else if leVal (p.take 4) = p.length - 4 then
        -- exactly one sub-Message filling the view: inline
        match decMsg mx fuel (lvl + 1) (p.drop 4) with
        | none => none
        | some (m, _) => some (.msgs .inl [m], [])
      else
        match decMsgItems mx fuel lvl p with
        | none => none
        | some ms => some (.msgs .arr ms, [])
    else
      match rd32 p with
      | none => none
      | some (cnt, q) =>
        if tc = tcString then
          match decStrItems cnt q with
          | none => none
          | some (xs, rest) => some (.strs (if cnt = 1 then .inl else .arr) xs, rest)
        else if cnt = 1 then
          match rd32 q with
          | none => none
          | some (sz, q) => if sz = q.length then some (.raws tc .inl [q], []) else none
        else
          match decRawItems cnt q with
          | none => none
          | some (xs, rest) => some (.raws tc .arr xs, rest)
/-- `MessageDataArray::TemplatedUnflatten`: until the view is exhausted -/
def decMsgItems (mx : Nat) : Nat → Nat → Bytes → Option (List Msg)
  | _, _, [] => some []
  | 0, _, _ :: _ => none
  | fuel+1, lvl, b@(_ :: _) =>
    match rd32 b with
    | none => none
    | some (len, b) =>
      if b.length < len then none else
      match decMsg mx fuel (lvl + 1) (b.take len) with
      | none => none
      | some (m, rest) =>
        match decMsgItems mx fuel lvl (rest ++ b.drop len) with
        | none => none
        | some ms => some (m :: ms)
end

/-- `Message::UnflattenFromBytes` (trailing bytes are ignored, as the code ignores them) -/
def decode (mx : Nat) (b : Bytes) : Option Msg :=
  match decMsg mx (b.length + 2) 1 b with
  | some (m, _) => some m
  | none => none

/-- what `Flatten` makes of a Message -/
def encode (m : Msg) : Bytes := encMsg m

end Muscle.Wire
