import MuscleModel.Pulse.Proofs5

/-!
# Lemmas for C20, part 6: the invariant under the public operations and under the pulse sweep.
-/

set_option linter.unusedSimpArgs false
set_option linter.unusedVariables false

namespace Muscle.Pulse

/-- same links (parent, curList, the three lists) and same aggregate at every node -/
def SameLinks (f f' : Forest) : Prop :=
  ∀ x, (f' x).parent = (f x).parent ∧ (f' x).cur = (f x).cur ∧ (f' x).agg = (f x).agg ∧
    ∀ l, (f' x).list l = (f x).list l

theorem invEx_of_sameLinks (never : Nat) (Pc Pa : Nat → Prop) (f f' : Forest) (h : SameLinks f f')
    (haok : ∀ x, ¬ Pa x → Filed f x → AOK never f x → AOK never f' x) (hi : InvEx never Pc Pa f) :
    InvEx never Pc Pa f' := by
  refine ⟨?_, ?_, ?_, ?_, ?_, ?_, ?_, ?_, ?_⟩
  · intro q x l hx
    rw [(h q).2.2.2 l] at hx
    rw [(h x).1, (h x).2.1]; exact hi.sound q x l hx
  · intro q l; rw [(h q).2.2.2 l]; exact hi.nodup q l
  · intro x q l hx hp hc
    rw [(h x).1] at hp; rw [(h x).2.1] at hc
    rw [(h q).2.2.2 l]; exact hi.complete x q l hx hp hc
  · intro x hx
    obtain ⟨h1, h2⟩ := hi.pend x hx
    exact ⟨by rw [(h x).2.1]; exact h1, fun q l => by rw [(h q).2.2.2 l]; exact h2 q l⟩
  · intro x hx; rw [(h x).1] at hx; rw [(h x).2.1]; exact hi.rootcur x hx
  · intro x q hx; rw [(h x).1] at hx; rw [(h x).2.1]; exact hi.childcur x q hx
  · intro x q hx hne
    rw [(h x).1] at hx; rw [(h x).2.1]
    exact hi.marked x q hx (by have := (h x).2.2.2 .recalc; simp only [list_recalc] at this; rw [← this]; exact hne)
  · intro x hx hf
    have hf0 : Filed f x := by
      obtain ⟨⟨q, hq⟩, hc⟩ := hf
      exact ⟨⟨q, by rw [← (h x).1]; exact hq⟩, by rw [← (h x).2.1]; exact hc⟩
    exact haok x hx hf0 (hi.aok x hx hf0)
  · intro x; rw [(h x).2.2.1]; exact hi.aggle x

theorem allSorted_of_sameLinks (f f' : Forest) (h : SameLinks f f') (hs : AllSorted f) : AllSorted f' := by
  have ha : (fun i => (f' i).agg) = (fun i => (f i).agg) := by funext i; exact (h i).2.2.1
  intro p
  rw [ha]
  have := (h p).2.2.2 .sched
  simp only [list_sched] at this
  rw [this]; exact hs p

/-- exceptions in `Pa` can be dropped for nodes that are not filed -/
theorem drop_pa (never : Nat) (Pc Pa Pa' : Nat → Prop) (f : Forest) (hi : InvEx never Pc Pa' f)
    (h : ∀ x, Pa' x → ¬ Pa x → ¬ Filed f x) : InvEx never Pc Pa f :=
  { hi with aok := fun x hx hf => hi.aok x (fun hp => h x hp hx hf) hf }

/-- withdrawing a standing request (and possibly clearing the stored time) of one node -/
theorem unvalid_inv (never : Nat) (Pc Pa : Nat → Prop) (f : Forest) (n : Nat) (nd : Node)
    (h1 : nd.parent = (f n).parent) (h2 : nd.cur = (f n).cur) (h3 : nd.agg = (f n).agg)
    (h4 : nd.sched = (f n).sched) (h5 : nd.unsched = (f n).unsched) (h6 : nd.recalc = (f n).recalc)
    (hv : nd.valid = false) (ht : nd.myTime = (f n).myTime ∨ nd.myTime = never)
    (hi : InvEx never Pc Pa f) : InvEx never Pc Pa (upd f n nd) := by
  have hl : SameLinks f (upd f n nd) := by
    intro x
    unfold upd
    by_cases hx : x = n
    · subst hx
      simp only [if_true]
      refine ⟨h1, h2, h3, fun l => ?_⟩
      cases l <;> simp [Node.list, h4, h5, h6]
    · simp [hx]
  apply invEx_of_sameLinks never Pc Pa f _ hl _ hi
  intro x hx hf ha
  have hfs : firstSchedAgg never (upd f n nd) x = firstSchedAgg never f x :=
    firstSchedAgg_congr never f _ x (by have := (hl x).2.2.2 .sched; simpa using this) (fun i => (hl i).2.2.1)
  unfold AOK at ha ⊢
  rw [hfs, (hl x).2.2.1, (hl x).2.1]
  by_cases hxn : x = n
  · subst hxn
    have hval : (upd f x nd x).valid = false := by simp [upd, hv]
    have hmt : (upd f x nd x).myTime = nd.myTime := by simp [upd]
    rw [hval, hmt]
    refine ⟨?_, ha.2.1, fun h => absurd h (by decide), ha.2.2.2⟩
    rcases ht with ht | ht
    · rw [ht]; exact ha.1
    · rw [ht]; exact hi.aggle x
  · have e1 : (upd f n nd x).myTime = (f x).myTime := by simp [upd, hxn]
    have e2 : (upd f n nd x).valid = (f x).valid := by simp [upd, hxn]
    rw [e1, e2]; exact ha

theorem unvalid_sorted (f : Forest) (n : Nat) (nd : Node) (h3 : nd.agg = (f n).agg) (h4 : nd.sched = (f n).sched)
    (hs : AllSorted f) : AllSorted (upd f n nd) := allSorted_upd_same f n nd h4 h3 hs

/-- `InvalidatePulseTime` preserves the invariant -/
theorem invalidate_inv (never d : Nat) (f : Forest) (n : Nat) (clear : Bool) (f' : Forest)
    (hi : Inv never f) (h : invalidate never d f n clear = some f') : Inv never f' := by
  refine ⟨?_, invalidate_allSorted never d f n clear f' hi.2 h⟩
  simp only [invalidate] at h
  by_cases hv : (f n).valid = true
  · have hv1 : ((if clear then upd f n { (f n) with myTime := never } else f) n).valid = true := by
      cases clear <;> simp [upd, hv]
    simp only [hv1, if_true] at h
    -- the two assignments as one update of node n
    have e : (upd (if clear = true then upd f n { (f n) with myTime := never } else f) n
        { ((if clear = true then upd f n { (f n) with myTime := never } else f) n) with valid := false })
        = upd f n { (f n) with valid := false, myTime := if clear then never else (f n).myTime } := by
      funext x
      cases clear <;> (unfold upd; by_cases hx : x = n <;> simp [hx])
    rw [e] at h
    have i2 : InvEx never (fun _ => False) (fun _ => False)
        (upd f n { (f n) with valid := false, myTime := if clear then never else (f n).myTime }) :=
      unvalid_inv never _ _ f n _ rfl rfl rfl rfl rfl rfl rfl (by cases clear <;> simp) hi.1
    generalize (upd f n { (f n) with valid := false, myTime := if clear then never else (f n).myTime }) = f2 at h i2
    split at h
    · rename_i p hp
      exact (resched_recalc_inv never _ _ _ f2 p n f' i2 hp h).1
    · cases h; exact i2
  · have hv' : (f n).valid = false := by simpa using hv
    have hv1 : ((if clear then upd f n { (f n) with myTime := never } else f) n).valid = false := by
      cases clear <;> simp [upd, hv']
    simp only [hv1] at h
    simp at h
    subst h
    cases clear
    · exact hi.1
    · exact unvalid_inv never _ _ f n _ rfl rfl rfl rfl rfl rfl hv' (Or.inr rfl) hi.1


/-! ## `RemovePulseChild` -/

theorem resched_none_eq (never d : Nat) (f : Forest) (p c : Nat) (hc : (f c).cur ≠ none) :
    resched never (d+1) f p c none = some (half f p c none) := by
  have hcond : (none ≠ (f c).cur ∨ (f c).cur = some Which.sched) := Or.inl (fun e => hc e.symm)
  simp only [resched, hcond, if_true]
  rfl

theorem head_erase_ne (l : List Nat) (c : Nat) (h : l.head? ≠ some c) : (l.erase c).head? = l.head? := by
  cases l with
  | nil => rfl
  | cons a r =>
    have hac : a ≠ c := fun e => h (by simp [e])
    have : ¬ (a == c) = true := by simpa using hac
    rw [List.erase_cons_tail this]; rfl

theorem firstSchedAgg_head (never : Nat) (f f' : Forest) (x : Nat) (hs : (f' x).sched.head? = (f x).sched.head?)
    (ha : ∀ i, (f' i).agg = (f i).agg) : firstSchedAgg never f' x = firstSchedAgg never f x := by
  unfold firstSchedAgg
  cases h1 : (f' x).sched with
  | nil =>
    cases h2 : (f x).sched with
    | nil => rfl
    | cons b r => rw [h1, h2] at hs; simp at hs
  | cons a r =>
    cases h2 : (f x).sched with
    | nil => rw [h1, h2] at hs; simp at hs
    | cons b r2 =>
      rw [h1, h2] at hs
      have : a = b := by simpa using hs
      subst this; exact ha a

/-- the state after `ReschedulePulseChild(child, -1); child->_parent = NULL; child->_myScheduledTimeValid = false` -/
def cut (f : Forest) (p c : Nat) : Forest := orphan (half f p c none) c

theorem cut_cur (f : Forest) (p c x : Nat) : (cut f p c x).cur = if x = c then none else (f x).cur := by
  unfold cut orphan upd
  by_cases h : x = c
  · subst h; simp [half_cur]
  · simp [h, half_cur]

theorem cut_list (f : Forest) (p c q : Nat) (l : Which) : (cut f p c q).list l = (half f p c none q).list l := by
  unfold cut orphan upd
  by_cases h : q = c
  · subst h; cases l <;> simp [Node.list]
  · simp [h]

theorem cut_parent (f : Forest) (p c x : Nat) : (cut f p c x).parent = if x = c then none else (f x).parent := by
  unfold cut orphan upd
  by_cases h : x = c
  · subst h; simp
  · simp [h]; exact (half_scalars f p c none x).2.2.2

theorem cut_other (f : Forest) (p c x : Nat) (h : x ≠ c) :
    (cut f p c x).valid = (f x).valid ∧ (cut f p c x).myTime = (f x).myTime := by
  unfold cut orphan upd
  simp [h]
  exact ⟨(half_scalars f p c none x).1, (half_scalars f p c none x).2.1⟩

theorem cut_agg (f : Forest) (p c x : Nat) : (cut f p c x).agg = (f x).agg := by
  unfold cut orphan upd
  by_cases h : x = c
  · subst h; simp; exact (half_scalars f p x none x).2.2.1
  · simp [h]; exact (half_scalars f p c none x).2.2.1

theorem cut_inv (never : Nat) (f : Forest) (p c : Nat)
    (hi : InvEx never (fun _ => False) (fun _ => False) f) (hp : (f c).parent = some p) :
    InvEx never (fun _ => False) (fun x => x = p ∧ (f p).sched.head? = some c) (cut f p c) := by
  have notin : ∀ q l, c ∉ (cut f p c q).list l := by
    intro q l hm
    rw [cut_list] at hm
    have hm0 := half_list_sub f p c _ q l c hm
    obtain ⟨h1, h2⟩ := hi.sound q c l hm0
    have hq : q = p := by rw [hp] at h1; exact (Option.some.inj h1).symm
    rw [half_list] at hm
    simp only [hq, h2, true_and, if_true] at hm
    exact (List.Nodup.mem_erase_iff (hi.nodup p l)).mp hm |>.1 rfl
  refine ⟨?_, ?_, ?_, ?_, ?_, ?_, ?_, ?_, ?_⟩
  · intro q x l hx
    have hxc : x ≠ c := fun e => notin q l (e ▸ hx)
    rw [cut_list] at hx
    obtain ⟨h1, h2⟩ := hi.sound q x l (half_list_sub f p c _ q l x hx)
    rw [cut_parent, cut_cur]; simp [hxc]; exact ⟨h1, h2⟩
  · intro q l
    rw [cut_list, half_list]
    split
    · exact List.Nodup.erase c (hi.nodup p l)
    · exact hi.nodup q l
  · intro x q l _ hpar hcur
    rw [cut_parent] at hpar
    by_cases hxc : x = c
    · simp [hxc] at hpar
    · simp only [hxc, if_false] at hpar
      rw [cut_cur] at hcur; simp only [hxc, if_false] at hcur
      have := hi.complete x q l (fun h => h) hpar hcur
      rw [cut_list, half_list]
      split
      · rename_i hq; rw [← hq.1]; exact (List.mem_erase_of_ne hxc).mpr this
      · exact this
  · intro x hx; exact hx.elim
  · intro x hx
    rw [cut_parent] at hx; rw [cut_cur]
    by_cases hxc : x = c
    · simp [hxc]
    · simp only [hxc, if_false] at hx ⊢; exact hi.rootcur x hx
  · intro x q hx
    rw [cut_parent] at hx; rw [cut_cur]
    by_cases hxc : x = c
    · simp [hxc] at hx
    · simp only [hxc, if_false] at hx ⊢; exact hi.childcur x q hx
  · intro x q hx hne
    rw [cut_parent] at hx; rw [cut_cur]
    by_cases hxc : x = c
    · simp [hxc] at hx
    · simp only [hxc, if_false] at hx ⊢
      apply hi.marked x q hx
      intro he; apply hne
      have : (cut f p c x).list .recalc = (cut f p c x).recalc := rfl
      rw [← this, cut_list, half_list]
      split
      · rename_i hq; rw [← hq.1]
        have : (f x).list .recalc = [] := he
        rw [this]; rfl
      · exact he
  · intro x hx hf
    have hxc : x ≠ c := by
      intro e; subst e
      obtain ⟨⟨q, hq⟩, _⟩ := hf
      rw [cut_parent] at hq; simp at hq
    have hcur : (cut f p c x).cur = (f x).cur := by rw [cut_cur]; simp [hxc]
    have hf0 : Filed f x := by
      obtain ⟨⟨q, hq⟩, h⟩ := hf
      rw [cut_parent] at hq; simp only [hxc, if_false] at hq
      exact ⟨⟨q, hq⟩, by rw [hcur] at h; exact h⟩
    have ha := hi.aok x (fun h => h) hf0
    have hhead : (cut f p c x).sched.head? = (f x).sched.head? := by
      have e : (cut f p c x).sched = (cut f p c x).list .sched := rfl
      rw [e, cut_list, half_list]
      split
      · rename_i hq
        have hxp : x = p := hq.1
        subst hxp
        have hne : (f x).sched.head? ≠ some c := fun e => hx ⟨rfl, e⟩
        exact head_erase_ne _ c hne
      · rfl
    have hfs := firstSchedAgg_head never f (cut f p c) x hhead (cut_agg f p c)
    unfold AOK at ha ⊢
    rw [hfs, cut_agg, (cut_other f p c x hxc).1, (cut_other f p c x hxc).2, hcur]
    exact ha
  · intro x; rw [cut_agg]; exact hi.aggle x

/-- `RemovePulseChild` preserves the invariant -/
theorem removeChild_inv (never d : Nat) (f : Forest) (p c : Nat) (f' : Forest)
    (hi : Inv never f) (h : removeChild never d f p c = some f') : Inv never f' := by
  refine ⟨?_, removeChild_allSorted never d f p c f' hi.2 h⟩
  simp only [removeChild] at h
  split at h
  · rename_i hp
    have hcc := hi.1.childcur c p hp
    cases d with
    | zero => simp [resched] at h
    | succ d =>
      rw [resched_none_eq never d f p c hcc] at h
      simp only [] at h
      have ic := cut_inv never f p c hi.1 hp
      change (if (f p).sched.head? = some c then
          match (cut f p c p).parent with
          | some g => resched never (d+1) (cut f p c) g p (some .recalc)
          | none => some (cut f p c)
        else some (cut f p c)) = some f' at h
      split at h
      · split at h
        · rename_i g hg
          obtain ⟨i3, hc3⟩ := resched_recalc_inv never _ _ _ (cut f p c) g p f' ic hg h
          exact drop_pa never _ _ _ f' i3 (fun x hx _ hf => by
            obtain ⟨_, hcur⟩ := hf
            rw [hx.1, hc3] at hcur
            rcases hcur with e | e <;> cases e)
        · rename_i hg
          cases h
          exact drop_pa never _ _ _ _ ic (fun x hx _ hf => by
            obtain ⟨⟨q, hq⟩, _⟩ := hf
            rw [hx.1, hg] at hq; cases hq)
      · rename_i hne
        cases h
        exact drop_pa never _ _ _ _ ic (fun x hx _ _ => hne hx.2)
  · cases h; exact hi.1

theorem detach_inv (never d : Nat) (f : Forest) (c : Nat) (f' : Forest)
    (hi : Inv never f) (h : detach never d f c = some f') : Inv never f' := by
  simp only [detach] at h
  split at h
  · exact removeChild_inv never d f _ c f' hi h
  · cases h; exact hi


/-! ## `PutPulseChild` -/

/-- the tail of `ReschedulePulseChild(child, NEEDSRECALC)` after its first half -/
theorem recalc_tail (never d : Nat) (Pc Pa : Nat → Prop) (f2 : Forest) (p c : Nat) (f' : Forest)
    (i2 : InvEx never (fun x => Pc x ∨ x = c) (fun x => Pa x ∨ x = p) f2) (hpc : ¬ Pc c)
    (hp2 : (f2 c).parent = some p)
    (h : (match (match (f2 p).parent with
               | some g => resched never d f2 g p (some .recalc)
               | none => some f2) with
        | some f3 => some (setL f3 p .recalc (c :: (f3 p).recalc))
        | none => none) = some f') :
    InvEx never Pc Pa f' ∧ (f' c).cur = some .recalc := by
  split at h
  · rename_i f3 h3
    cases h
    split at h3
    · rename_i g hg
      obtain ⟨i3, hc3⟩ := resched_recalc_inv never d _ _ f2 g p f3 i2 hg h3
      have s3 := resched_sameScalars never _ _ _ _ _ _ h3
      exact prepend_inv never Pc Pa f3 p c i3 hpc (by rw [(s3 c).2.2.2]; exact hp2) (Or.inr hc3)
    · rename_i hg
      cases h3
      exact prepend_inv never Pc Pa f2 p c i2 hpc hp2 (Or.inl hg)
  · cases h

/-- a parent-less node gets a parent and is flagged NEEDSRECALC (not yet in the list) -/
theorem adopt_inv (never : Nat) (f g : Forest) (p c : Nat)
    (hi : InvEx never (fun _ => False) (fun _ => False) f) (hroot : (f c).parent = none)
    (hl : ∀ x l, (g x).list l = (f x).list l)
    (hsc : ∀ x, (g x).agg = (f x).agg ∧ (g x).myTime = (f x).myTime ∧ (g x).valid = (f x).valid)
    (hpar : ∀ x, (g x).parent = if x = c then some p else (f x).parent)
    (hcur : ∀ x, (g x).cur = if x = c then some .recalc else (f x).cur) :
    InvEx never (fun x => False ∨ x = c) (fun x => False ∨ x = p) g := by
  have notin : ∀ q l, c ∉ (f q).list l := by
    intro q l hm
    have := (hi.sound q c l hm).1
    rw [hroot] at this; cases this
  refine ⟨?_, ?_, ?_, ?_, ?_, ?_, ?_, ?_, ?_⟩
  · intro q x l hx
    rw [hl] at hx
    have hxc : x ≠ c := fun e => notin q l (e ▸ hx)
    rw [hpar, hcur]; simp only [hxc, if_false]; exact hi.sound q x l hx
  · intro q l; rw [hl]; exact hi.nodup q l
  · intro x q l hx hp hc
    have hxc : x ≠ c := fun e => hx (Or.inr e)
    rw [hpar] at hp; rw [hcur] at hc
    simp only [hxc, if_false] at hp hc
    rw [hl]; exact hi.complete x q l (fun h => h) hp hc
  · intro x hx
    rcases hx with hx | hx
    · exact hx.elim
    · subst hx
      exact ⟨by rw [hcur]; simp, fun q l => by rw [hl]; exact notin q l⟩
  · intro x hx
    rw [hpar] at hx; rw [hcur]
    by_cases hxc : x = c
    · simp [hxc] at hx
    · simp only [hxc, if_false] at hx ⊢; exact hi.rootcur x hx
  · intro x q hx
    rw [hpar] at hx; rw [hcur]
    by_cases hxc : x = c
    · simp [hxc]
    · simp only [hxc, if_false] at hx ⊢; exact hi.childcur x q hx
  · intro x q hx hne
    rw [hpar] at hx; rw [hcur]
    by_cases hxc : x = c
    · simp [hxc]
    · simp only [hxc, if_false] at hx ⊢
      apply hi.marked x q hx
      have := hl x .recalc
      simp only [list_recalc] at this
      rw [← this]; exact hne
  · intro x hx hf
    have hxc : x ≠ c := by
      intro e; subst e
      obtain ⟨_, h⟩ := hf
      rw [hcur] at h; simp at h
    have hc' : (g x).cur = (f x).cur := by rw [hcur]; simp [hxc]
    have hf0 : Filed f x := by
      obtain ⟨⟨q, hq⟩, h⟩ := hf
      rw [hpar] at hq; simp only [hxc, if_false] at hq
      exact ⟨⟨q, hq⟩, by rw [hc'] at h; exact h⟩
    have hsch : (g x).sched = (f x).sched := by have := hl x .sched; simpa using this
    exact AOK_congr never f g x hsch (fun i => (hsc i).1) (hsc x).2.1 (hsc x).2.2 hc' (hi.aok x (fun h => h) hf0)
  · intro x; rw [(hsc x).1]; exact hi.aggle x

theorem removeChild_parent (never d : Nat) (f : Forest) (p c : Nat) (f' : Forest) (hp : (f c).parent = some p)
    (hcc : (f c).cur ≠ none) (h : removeChild never d f p c = some f') : (f' c).parent = none := by
  simp only [removeChild, hp, if_true] at h
  cases d with
  | zero => simp [resched] at h
  | succ d =>
    rw [resched_none_eq never d f p c hcc] at h
    simp only [] at h
    have hc0 : (cut f p c c).parent = none := by rw [cut_parent]; simp
    change (if (f p).sched.head? = some c then
          match (cut f p c p).parent with
          | some g => resched never (d+1) (cut f p c) g p (some .recalc)
          | none => some (cut f p c)
        else some (cut f p c)) = some f' at h
    split at h
    · split at h
      · rw [(resched_sameScalars never _ _ _ _ _ _ h c).2.2.2]; exact hc0
      · cases h; exact hc0
    · cases h; exact hc0

/-- `PutPulseChild` preserves the invariant -/
theorem putChild_inv (never d : Nat) (f : Forest) (p c : Nat) (f' : Forest)
    (hi : Inv never f) (h : putChild never d f p c = some f') : Inv never f' := by
  refine ⟨?_, putChild_allSorted never d f p c f' hi.2 h⟩
  simp only [putChild] at h
  split at h
  · cases h
  · rename_i f1 hf1
    have i1 : Inv never f1 ∧ (f1 c).parent = none := by
      split at hf1
      · rename_i q hq
        exact ⟨removeChild_inv never d f q c f1 hi hf1,
          removeChild_parent never d f q c f1 hq (hi.1.childcur c q hq) hf1⟩
      · rename_i hq
        cases hf1; exact ⟨hi, hq⟩
    obtain ⟨i1, hroot⟩ := i1
    have hc1 : (f1 c).cur = none := i1.1.rootcur c hroot
    cases d with
    | zero => simp [resched] at h
    | succ d =>
      simp only [resched] at h
      have hc0 : (setParent f1 c p c).cur = none := by simp [setParent, upd, hc1]
      have hcond : (some Which.recalc ≠ (setParent f1 c p c).cur ∨ (setParent f1 c p c).cur = some Which.sched) := by
        rw [hc0]; simp
      simp only [hcond, if_true] at h
      change (match (match (half (setParent f1 c p) p c (some .recalc) p).parent with
               | some g => resched never d (half (setParent f1 c p) p c (some .recalc)) g p (some .recalc)
               | none => some (half (setParent f1 c p) p c (some .recalc))) with
        | some f3 => some (setL f3 p .recalc (c :: (f3 p).recalc))
        | none => none) = some f' at h
      have hs := half_scalars (setParent f1 c p) p c (some .recalc)
      have ia := adopt_inv never f1 (half (setParent f1 c p) p c (some .recalc)) p c i1.1 hroot
        (by intro x l
            rw [half_list]; simp only [hc0]
            have : ¬ (x = p ∧ (none : Option Which) = some l) := fun e => by cases e.2
            simp only [this, if_false]
            unfold setParent upd
            by_cases hx : x = c
            · subst hx; cases l <;> simp [Node.list]
            · simp [hx])
        (by intro x
            refine ⟨(hs x).2.2.1.trans ?_, (hs x).2.1.trans ?_, (hs x).1.trans ?_⟩ <;>
              (unfold setParent upd; by_cases hx : x = c <;> simp [hx]))
        (by intro x
            rw [(hs x).2.2.2]
            unfold setParent upd
            by_cases hx : x = c <;> simp [hx])
        (by intro x
            rw [half_cur]
            by_cases hx : x = c
            · simp [hx]
            · simp [hx, setParent, upd])
      have hp2 : (half (setParent f1 c p) p c (some .recalc) c).parent = some p := by
        rw [(hs c).2.2.2]; simp [setParent, upd]
      exact (recalc_tail never d (fun _ => False) (fun _ => False) _ p c f' ia (fun h => h) hp2 h).1

end Muscle.Pulse
