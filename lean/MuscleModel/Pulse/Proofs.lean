import MuscleModel.Pulse.Tree

/-!
# Lemmas for C20, part 1: the sorted insert of `ReschedulePulseChild`, frame lemmas for the list
maintenance (which fields an operation can change), the answer/log invariant behind `never_early`.
-/

set_option linter.unusedSimpArgs false
set_option linter.unusedVariables false

namespace Muscle.Pulse

/-! ## Sorted insert (`case LINKED_LIST_SCHEDULED`) -/

/-- a child list is sorted by aggregate time -/
def Sorted (a : Nat → Nat) (l : List Nat) : Prop := l.Pairwise (fun x y => a x ≤ a y)

theorem mem_insertBefore (a : Nat → Nat) (c x : Nat) (l : List Nat) :
    x ∈ insertBefore a c l ↔ x = c ∨ x ∈ l := by
  induction l with
  | nil => simp [insertBefore]
  | cons p r ih =>
    simp only [insertBefore]
    split
    · simp only [List.mem_cons, ih]
      constructor
      · rintro (h | h | h) <;> simp [h]
      · rintro (h | h | h) <;> simp [h]
    · simp [List.mem_cons]

theorem mem_insertSched (a : Nat → Nat) (c x : Nat) (l : List Nat) :
    x ∈ insertSched a c l ↔ x = c ∨ x ∈ l := by
  unfold insertSched
  split
  · rename_i h
    have : l = [] := by simpa using h
    simp [this]
  · split
    · simp [List.mem_append, or_comm]
    · exact mem_insertBefore a c x l

theorem insertBefore_sorted (a : Nat → Nat) (c : Nat) (l : List Nat) (h : Sorted a l) :
    Sorted a (insertBefore a c l) := by
  induction l with
  | nil => simp [insertBefore, Sorted]
  | cons p r ih =>
    have hp : ∀ y ∈ r, a p ≤ a y := (List.pairwise_cons.mp h).1
    have hr : Sorted a r := (List.pairwise_cons.mp h).2
    simp only [insertBefore]
    split
    · rename_i hlt
      refine List.pairwise_cons.mpr ⟨?_, ih hr⟩
      intro y hy
      rcases (mem_insertBefore a c y r).mp hy with rfl | hy
      · omega
      · exact hp y hy
    · rename_i hge
      refine List.pairwise_cons.mpr ⟨?_, h⟩
      intro y hy
      rcases List.mem_cons.mp hy with rfl | hy
      · omega
      · have := hp y hy; omega

/-- the tail shortcut is sound exactly because it is guarded by `>=` against the LAST element -/
theorem append_sorted (a : Nat → Nat) (c last : Nat) (l : List Nat) (h : Sorted a l)
    (hl : l.getLast? = some last) (hge : a c ≥ a last) : Sorted a (l ++ [c]) := by
  unfold Sorted
  rw [List.pairwise_append]
  refine ⟨h, by simp, ?_⟩
  intro x hx y hy
  have hy' : y = c := by simpa using hy
  subst hy'
  -- every element of a sorted list is ≤ its last element
  have key : ∀ (l : List Nat), Sorted a l → l.getLast? = some last → ∀ x ∈ l, a x ≤ a last := by
    intro l
    induction l with
    | nil => intro _ _ x hx; cases hx
    | cons p r ih =>
      intro hs hl x hx
      have hp : ∀ y ∈ r, a p ≤ a y := (List.pairwise_cons.mp hs).1
      have hr : Sorted a r := (List.pairwise_cons.mp hs).2
      cases r with
      | nil =>
        simp at hl; subst hl
        have : x = p := by simpa using hx
        subst this; exact Nat.le_refl _
      | cons q r' =>
        have hl' : (q :: r').getLast? = some last := by simpa [List.getLast?_cons_cons] using hl
        rcases List.mem_cons.mp hx with rfl | hx
        · have hq := hp q (by simp)
          have := ih hr hl' q (by simp)
          omega
        · exact ih hr hl' x hx
  have := key l h hl x hx
  omega

/-- `ReschedulePulseChild(child, SCHEDULED)` keeps the scheduled list sorted by aggregate time -/
theorem insertSched_sorted (a : Nat → Nat) (c : Nat) (l : List Nat) (h : Sorted a l) :
    Sorted a (insertSched a c l) := by
  unfold insertSched
  split
  · simp [Sorted]
  · rename_i last hl
    split
    · rename_i hge; exact append_sorted a c last l h hl hge
    · exact insertBefore_sorted a c l h

/-- the `O(N)` walk never runs off the end of the list when it is entered (`child < last`):
    the child is placed before some element, i.e. it is not the new last element -/
theorem insertBefore_not_last (a : Nat → Nat) (c last : Nat) (l : List Nat)
    (hl : l.getLast? = some last) (hlt : a c < a last) :
    (insertBefore a c l).getLast? = some last := by
  induction l with
  | nil => simp at hl
  | cons p r ih =>
    simp only [insertBefore]
    split
    · cases r with
      | nil =>
        simp at hl; subst hl; omega
      | cons q r' =>
        have hl' : (q :: r').getLast? = some last := by simpa [List.getLast?_cons_cons] using hl
        have := ih hl'
        cases hib : insertBefore a c (q :: r') with
        | nil => rw [hib] at this; simp at this
        | cons x xs => rw [hib] at this; simpa [List.getLast?_cons_cons] using this
    · simpa [List.getLast?_cons_cons] using hl

theorem erase_sorted (a : Nat → Nat) (c : Nat) (l : List Nat) (h : Sorted a l) : Sorted a (l.erase c) :=
  List.Pairwise.sublist (List.erase_sublist) h

/-! ## Frame: the list maintenance never touches `valid`, `myTime`, `agg`, `parent` -/

/-- the scheduler-relevant scalar fields of every node agree -/
def SameScalars (f f' : Forest) : Prop :=
  ∀ i, (f' i).valid = (f i).valid ∧ (f' i).myTime = (f i).myTime ∧ (f' i).agg = (f i).agg ∧ (f' i).parent = (f i).parent

theorem SameScalars.refl (f : Forest) : SameScalars f f := fun _ => ⟨rfl, rfl, rfl, rfl⟩

theorem SameScalars.trans {f g h : Forest} (a : SameScalars f g) (b : SameScalars g h) : SameScalars f h := by
  intro i
  obtain ⟨a1, a2, a3, a4⟩ := a i
  obtain ⟨b1, b2, b3, b4⟩ := b i
  exact ⟨b1.trans a1, b2.trans a2, b3.trans a3, b4.trans a4⟩

theorem sameScalars_setL (f : Forest) (p : Nat) (w : Which) (l : List Nat) :
    SameScalars f (setL f p w l) := by
  intro i
  unfold setL upd
  by_cases h : i = p
  · subst h; cases w <;> simp [Node.setList]
  · simp [h]

theorem sameScalars_unlink (f : Forest) (p c : Nat) : SameScalars f (unlink f p c) := by
  unfold unlink
  split
  · exact sameScalars_setL f p _ _
  · exact SameScalars.refl f

theorem sameScalars_setCur (f : Forest) (c : Nat) (w : Option Which) :
    SameScalars f (setCur f c w) := by
  intro i
  unfold setCur upd
  by_cases h : i = c
  · subst h; simp
  · simp [h]

theorem resched_sameScalars (never : Nat) : ∀ (d : Nat) (f : Forest) (p c : Nat) (w : Option Which) (f' : Forest),
    resched never d f p c w = some f' → SameScalars f f' := by
  intro d
  induction d with
  | zero => intro f p c w f' h; simp [resched] at h
  | succ d ih =>
    intro f p c w f' h
    simp only [resched] at h
    split at h
    · have h2 : SameScalars f (setCur (unlink f p c) c w) :=
        (sameScalars_unlink f p c).trans (sameScalars_setCur _ c w)
      generalize setCur (unlink f p c) c w = f2 at h h2
      split at h
      · cases h; exact h2.trans (sameScalars_setL f2 p _ _)
      · split at h
        · rename_i f3 hf3
          cases h
          have h3 : SameScalars f2 f3 := by
            split at hf3
            · exact ih _ _ _ _ _ hf3
            · cases hf3; exact SameScalars.refl _
          exact (h2.trans h3).trans (sameScalars_setL f3 p _ _)
        · cases h
      · cases h; exact h2.trans (sameScalars_setL f2 p _ _)
      · cases h; exact h2
    · cases h; exact SameScalars.refl f

/-! ## `Mono`: an operation can only take standing requests away, never invent or alter one -/

/-- every node whose request stands afterwards had the same standing request before -/
def Mono (f f' : Forest) : Prop :=
  ∀ i, (f' i).valid = true → (f i).valid = true ∧ (f' i).myTime = (f i).myTime

theorem Mono.refl (f : Forest) : Mono f f := fun _ h => ⟨h, rfl⟩

theorem Mono.trans {f g h : Forest} (a : Mono f g) (b : Mono g h) : Mono f h := by
  intro i hi
  obtain ⟨b1, b2⟩ := b i hi
  obtain ⟨a1, a2⟩ := a i b1
  exact ⟨a1, b2.trans a2⟩

theorem SameScalars.mono {f f' : Forest} (h : SameScalars f f') : Mono f f' := by
  intro i hi
  obtain ⟨h1, h2, _, _⟩ := h i
  exact ⟨h1 ▸ hi, h2⟩

theorem mono_unvalid (f : Forest) (n : Nat) (nd : Node) (h : nd.valid = false) : Mono f (upd f n nd) := by
  intro i hi
  unfold upd at hi ⊢
  by_cases hin : i = n
  · subst hin; simp [h] at hi
  · simp [hin] at hi ⊢; exact hi

theorem mono_of_invalid (f : Forest) (n : Nat) (nd : Node) (h : (f n).valid = false) (hv : nd.valid = (f n).valid) :
    Mono f (upd f n nd) := mono_unvalid f n nd (hv.trans h)

theorem invalidate_mono (never d : Nat) (f : Forest) (n : Nat) (clear : Bool) (f' : Forest)
    (h : invalidate never d f n clear = some f') : Mono f f' := by
  unfold invalidate at h
  by_cases hv : (f n).valid = true
  · -- a standing request is withdrawn
    have hv1 : ((if clear then upd f n { (f n) with myTime := never } else f) n).valid = true := by
      cases clear <;> simp [upd, hv]
    simp only [hv1, if_true] at h
    generalize hf1 : (if clear then upd f n { (f n) with myTime := never } else f) = f1 at h hv1
    have m1 : Mono f (upd f1 n { (f1 n) with valid := false }) := by
      intro i hi
      unfold upd at hi
      by_cases hin : i = n
      · subst hin; simp at hi
      · simp [hin] at hi
        subst hf1
        cases clear <;> simp [upd, hin] at hi ⊢ <;> exact hi
    generalize (upd f1 n { (f1 n) with valid := false }) = f2 at h m1
    split at h
    · exact m1.trans (resched_sameScalars never _ _ _ _ _ _ h).mono
    · cases h; exact m1
  · have hv' : (f n).valid = false := by simpa using hv
    have hv1 : ((if clear then upd f n { (f n) with myTime := never } else f) n).valid = false := by
      cases clear <;> simp [upd, hv']
    simp only [hv1] at h
    simp at h
    subst h
    cases clear
    · exact Mono.refl f
    · exact mono_of_invalid f n _ hv' rfl

theorem mono_orphan (f : Forest) (c : Nat) : Mono f (orphan f c) := mono_unvalid f c _ rfl

theorem mono_setParent (f : Forest) (c p : Nat) : Mono f (setParent f c p) := by
  intro i hi
  unfold setParent upd at hi ⊢
  by_cases hic : i = c
  · subst hic; simp at hi; exact ⟨hi, by simp⟩
  · simp [hic] at hi; exact ⟨hi, by simp [hic]⟩

theorem removeChild_mono (never d : Nat) (f : Forest) (p c : Nat) (f' : Forest)
    (h : removeChild never d f p c = some f') : Mono f f' := by
  simp only [removeChild] at h
  split at h
  · split at h
    · cases h
    · rename_i f1 hf1
      have m1 : Mono f f1 := (resched_sameScalars never _ _ _ _ _ _ hf1).mono
      have m2 : Mono f1 (orphan f1 c) := mono_orphan f1 c
      split at h
      · split at h
        · exact (m1.trans m2).trans (resched_sameScalars never _ _ _ _ _ _ h).mono
        · cases h; exact m1.trans m2
      · cases h; exact m1.trans m2
  · cases h; exact Mono.refl f

theorem detach_mono (never d : Nat) (f : Forest) (c : Nat) (f' : Forest)
    (h : detach never d f c = some f') : Mono f f' := by
  unfold detach at h
  split at h
  · exact removeChild_mono never d f _ c f' h
  · cases h; exact Mono.refl f

theorem putChild_mono (never d : Nat) (f : Forest) (p c : Nat) (f' : Forest)
    (h : putChild never d f p c = some f') : Mono f f' := by
  simp only [putChild] at h
  split at h
  · cases h
  · rename_i f1 hf1
    have m1 : Mono f f1 := by
      split at hf1
      · exact removeChild_mono never d f _ c f1 hf1
      · cases hf1; exact Mono.refl f
    exact (m1.trans (mono_setParent f1 c p)).trans (resched_sameScalars never _ _ _ _ _ _ h).mono

theorem removeAll_mono (never d p : Nat) : ∀ (l : List Nat) (f f' : Forest),
    removeAll never d p l f = some f' → Mono f f' := by
  intro l
  induction l with
  | nil => intro f f' h; simp [removeAll] at h; subst h; exact Mono.refl f
  | cons c r ih =>
    intro f f' h
    simp only [removeAll] at h
    split at h
    · rename_i f1 hf1
      exact (removeChild_mono never d f p c f1 hf1).trans (ih f1 f' h)
    · cases h

theorem clearChildren_mono (never d : Nat) (f : Forest) (p : Nat) (f' : Forest)
    (h : clearChildren never d f p = some f') : Mono f f' := by
  unfold clearChildren at h
  split at h
  · cases h
  · rename_i f1 h1
    split at h
    · cases h
    · rename_i f2 h2
      exact ((removeAll_mono never d p _ _ _ h1).trans (removeAll_mono never d p _ _ _ h2)).trans
        (removeAll_mono never d p _ _ _ h)

theorem destroy_mono (never d : Nat) (f : Forest) (n : Nat) (f' : Forest)
    (h : destroy never d f n = some f') : Mono f f' := by
  unfold destroy at h
  split at h
  · cases h
  · rename_i f1 h1
    split at h
    · cases h
    · rename_i f2 h2
      cases h
      exact ((detach_mono never d f n f1 h1).trans (clearChildren_mono never d f1 n f2 h2)).trans
        (mono_unvalid f2 n _ rfl)

end Muscle.Pulse
