import MuscleModel.Pulse.Proofs19
import MuscleModel.Pulse.Ops

/-!
# Lemmas for C20, part 20: every reachable state has finite support.
-/

set_option linter.unusedSimpArgs false
set_option linter.unusedVariables false

namespace Muscle.Pulse

/-- 1 + the largest node id an `attach` action mentions (0 for the other actions: only `attach` creates a parent pointer) -/
def actBound : Act → Nat
  | .attach c p => max c p + 1
  | _ => 0

def actsBound (l : List Act) : Nat := l.foldr (fun a m => max (actBound a) m) 0

def opBound : Op → Nat
  | .attach c p => max c p + 1
  | .script _ _ acts => actsBound acts
  | _ => 0

/-- `M` can be taken as this bound of the history -/
def opsBound (ops : List Op) : Nat := ops.foldr (fun o m => max (opBound o) m) 0

theorem actBound_le_actsBound : ∀ (l : List Act) (a : Act), a ∈ l → actBound a ≤ actsBound l := by
  intro l
  induction l with
  | nil => intro a h; cases h
  | cons b t ih =>
    intro a h
    simp only [actsBound, List.foldr_cons]
    rcases List.mem_cons.mp h with rfl | h
    · exact Nat.le_max_left _ _
    · exact Nat.le_trans (ih a h) (Nat.le_max_right _ _)

theorem opBound_le_opsBound : ∀ (l : List Op) (o : Op), o ∈ l → opBound o ≤ opsBound l := by
  intro l
  induction l with
  | nil => intro a h; cases h
  | cons b t ih =>
    intro a h
    simp only [opsBound, List.foldr_cons]
    rcases List.mem_cons.mp h with rfl | h
    · exact Nat.le_max_left _ _
    · exact Nat.le_trans (ih a h) (Nat.le_max_right _ _)

theorem FSupp.mono {M : Nat} {f f' : Forest} (h : FSupp M f) (s : ParSub f f') : FSupp M f' :=
  fun c p e => h c p (s c p e)

theorem putChild_fsupp (never d M : Nat) (f : Forest) (p c : Nat) (f' : Forest) (hF : FSupp M f)
    (hc : c < M) (hp : p < M) (h : putChild never d f p c = some f') : FSupp M f' := by
  simp only [putChild] at h
  split at h
  · cases h
  · rename_i f1 hf1
    have s1 : ParSub f f1 := by
      split at hf1
      · exact removeChild_parSub never d f _ c f1 hf1
      · cases hf1; exact ParSub.refl f
    intro x q e
    rw [(resched_sameScalars never _ _ _ _ _ _ h x).2.2.2] at e
    unfold setParent upd at e
    by_cases hx : x = c
    · subst hx; simp at e; subst e; exact ⟨hc, hp⟩
    · simp [hx] at e; exact hF x q (s1 x q e)

/-- the queued scripts only attach ids below `M` -/
def SQ (M : Nat) (w : World) : Prop :=
  ∀ n, (∀ acts ∈ w.gq n, ∀ a ∈ acts, actBound a ≤ M) ∧ (∀ acts ∈ w.pq n, ∀ a ∈ acts, actBound a ≤ M)

theorem runAct_fsupp (never d M : Nat) (w w' : World) (a : Act) (hF : FSupp M w.f) (ha : actBound a ≤ M)
    (h : runAct never d w a = some w') : FSupp M w'.f ∧ w'.gq = w.gq ∧ w'.pq = w.pq := by
  cases a with
  | inval id clear =>
    simp only [runAct, Option.map_eq_some_iff] at h
    obtain ⟨f', hf, rfl⟩ := h
    exact ⟨hF.mono (parSub_of_eq (invalidate_parent never d w.f id clear f' hf)), rfl, rfl⟩
  | setReq id t => simp only [runAct] at h; cases h; exact ⟨hF, rfl, rfl⟩
  | detach id =>
    simp only [runAct, Option.map_eq_some_iff] at h
    obtain ⟨f', hf, rfl⟩ := h
    exact ⟨hF.mono (detach_parSub never d w.f id f' hf), rfl, rfl⟩
  | attach c p =>
    simp only [runAct] at h
    simp only [actBound] at ha
    split at h
    · cases h; exact ⟨hF, rfl, rfl⟩
    · simp only [Option.map_eq_some_iff] at h
      obtain ⟨f', hf, rfl⟩ := h
      have hc : c < M := by have := Nat.le_max_left c p; omega
      have hp : p < M := by have := Nat.le_max_right c p; omega
      exact ⟨putChild_fsupp never d M w.f p c f' hF hc hp hf, rfl, rfl⟩

theorem runActs_fsupp (never d M : Nat) : ∀ (l : List Act) (w w' : World), FSupp M w.f → (∀ a ∈ l, actBound a ≤ M) →
    runActs never d w l = some w' → FSupp M w'.f ∧ w'.gq = w.gq ∧ w'.pq = w.pq := by
  intro l
  induction l with
  | nil => intro w w' g _ h; simp [runActs] at h; subst h; exact ⟨g, rfl, rfl⟩
  | cons a r ih =>
    intro w w' g hb h
    simp only [runActs] at h
    split at h
    · rename_i w1 h1
      obtain ⟨a1, a2, a3⟩ := runAct_fsupp never d M w w1 a g (hb a (by simp)) h1
      obtain ⟨b1, b2, b3⟩ := ih w1 w' a1 (fun x hx => hb x (List.mem_cons_of_mem _ hx)) h
      exact ⟨b1, b2.trans a2, b3.trans a3⟩
    · cases h

/-- finite support together with the bound on the queued scripts -/
def FSQ (M : Nat) (w : World) : Prop := FSupp M w.f ∧ SQ M w

theorem upd_fsupp {M : Nat} (f : Forest) (n : Nat) (nd : Node) (hp : nd.parent = (f n).parent) (hF : FSupp M f) :
    FSupp M (upd f n nd) := by
  apply hF.mono
  apply parSub_of_eq
  intro x; unfold upd
  by_cases hx : x = n
  · subst hx; simp [hp]
  · simp [hx]

theorem headD_bound {M : Nat} (q : List (List Act)) (h : ∀ acts ∈ q, ∀ a ∈ acts, actBound a ≤ M) :
    ∀ a ∈ q.headD [], actBound a ≤ M := by
  intro a ha
  cases q with
  | nil => simp at ha
  | cons x t => simp at ha; exact h x (by simp) a ha

theorem callG_fsq (never d M : Nat) (w w' : World) (n now : Nat) (hF : FSQ M w)
    (h : callG never d w n now = some w') : FSQ M w' := by
  simp only [callG] at h
  split at h
  · cases h
  · rename_i w2 h2
    cases h
    obtain ⟨a1, a2, a3⟩ := runActs_fsupp never d M _ _ w2 (upd_fsupp w.f n { (w.f n) with valid := true } rfl hF.1)
      (headD_bound (w.gq n) (hF.2 n).1) h2
    refine ⟨upd_fsupp w2.f n _ rfl a1, fun m => ?_⟩
    simp only [] at a2 a3 ⊢
    rw [a2, a3]
    refine ⟨fun acts ha => ?_, (hF.2 m).2⟩
    simp only [updF] at ha
    by_cases hm : m = n
    · subst hm; simp only [if_true] at ha; exact (hF.2 m).1 acts (List.mem_of_mem_tail ha)
    · simp only [hm, if_false] at ha; exact (hF.2 m).1 acts ha

theorem callP_fsq (never d M : Nat) (w w' : World) (n now : Nat) (hF : FSQ M w)
    (h : callP never d w n now = some w') : FSQ M w' := by
  simp only [callP] at h
  split at h
  · cases h
  · rename_i w2 h2
    cases h
    obtain ⟨a1, a2, a3⟩ := runActs_fsupp never d M _ _ w2 (by exact hF.1) (headD_bound (w.pq n) (hF.2 n).2) h2
    refine ⟨upd_fsupp w2.f n _ rfl a1, fun m => ?_⟩
    simp only [] at a2 a3 ⊢
    rw [a2, a3]
    refine ⟨(hF.2 m).1, fun acts ha => ?_⟩
    simp only [updF] at ha
    by_cases hm : m = n
    · subst hm; simp only [if_true] at ha; exact (hF.2 m).2 acts (List.mem_of_mem_tail ha)
    · simp only [hm, if_false] at ha; exact (hF.2 m).2 acts ha

theorem gptFinish_fsq (never d M : Nat) (w w' : World) (n mn mn' : Nat) (hF : FSQ M w)
    (h : gptFinish never d w n mn = some (w', mn')) : FSQ M w' := by
  refine ⟨hF.1.mono (parSub_of_eq (fun x => (gptFinish_other never d w w' n mn mn' h x).1)), ?_⟩
  simp only [gptFinish] at h
  split at h
  · cases h; exact hF.2
  · cases h

theorem pulseFinish_fsq (never d M : Nat) (w w' : World) (n : Nat) (hF : FSQ M w)
    (h : pulseFinish never d w n = some w') : FSQ M w' := by
  simp only [pulseFinish] at h
  split at h
  · simp only [Option.map_eq_some_iff] at h
    obtain ⟨f', hf, rfl⟩ := h
    exact ⟨hF.1.mono (parSub_of_eq (fun x => (resched_sameScalars never _ _ _ _ _ _ hf x).2.2.2)), hF.2⟩
  · cases h; exact hF

theorem gpt_fsq (never d M : Nat) : ∀ (k : Nat),
    (∀ (w w' : World) (n now mn m : Nat), FSQ M w → gptAux never d k w n now mn = some (w', m) → FSQ M w') ∧
    (∀ (w w' : World) (n now mn m : Nat), FSQ M w → gptLoop never d k w n now mn = some (w', m) → FSQ M w') := by
  intro k
  induction k with
  | zero => exact ⟨fun w w' n now mn m _ h => by simp [gptAux] at h, fun w w' n now mn m _ h => by simp [gptLoop] at h⟩
  | succ k ih =>
    refine ⟨?_, ?_⟩
    · intro w w' n now mn m hH h
      obtain ⟨w1, w2, m2, h1, h2, hr⟩ := gptAux_shape never d k w w' n now mn m h
      have a1 : FSQ M w1 := by
        split at h1
        · cases h1; exact hH
        · exact callG_fsq never d M w w1 n now hH h1
      have a2 := ih.2 w1 w2 n now mn m2 a1 h2
      rcases hr with ⟨_, hf⟩ | ⟨_, w3, w4, m4, h3, h4, hf⟩
      · exact gptFinish_fsq never d M w2 w' n m2 m a2 hf
      · exact gptFinish_fsq never d M w4 w' n m4 m
          (ih.2 w3 w4 n now m2 m4 (callG_fsq never d M w2 w3 n now a2 h3) h4) hf
    · intro w w' n now mn m hH h
      simp only [gptLoop] at h
      split at h
      · cases h; exact hH
      · rename_i c _ _
        split at h
        · cases h
        · rename_i w1 mn1 h1
          exact ih.2 w1 w' n now mn1 m (ih.1 w w1 c now mn mn1 hH h1) h

theorem pulse_fsq (never d M : Nat) : ∀ (k : Nat),
    (∀ (w w' : World) (n now : Nat), FSQ M w → pulseAux never d k w n now = some w' → FSQ M w') ∧
    (∀ (w w' : World) (n now : Nat), FSQ M w → pulseLoop never d k w n now = some w' → FSQ M w') := by
  intro k
  induction k with
  | zero => exact ⟨fun w w' n now _ h => by simp [pulseAux] at h, fun w w' n now _ h => by simp [pulseLoop] at h⟩
  | succ k ih =>
    refine ⟨?_, ?_⟩
    · intro w w' n now g h
      simp only [pulseAux] at h
      split at h
      · cases h
      · rename_i w1 h1
        have g1 : FSQ M w1 := by
          split at h1
          · exact callP_fsq never d M w w1 n now g h1
          · cases h1; exact g
        split at h
        · cases h
        · rename_i w2 h2
          exact pulseFinish_fsq never d M w2 w' n (ih.2 w1 w2 n now g1 h2) h
    · intro w w' n now g h
      simp only [pulseLoop] at h
      split at h
      · cases h; exact g
      · rename_i c _ _
        split at h
        · split at h
          · cases h
          · rename_i w1 h1
            exact ih.2 w1 w' n now (ih.1 w w1 c now g h1) h
        · cases h; exact g


theorem applyOp_fsq (never d k M : Nat) (w w' : World) (r : Res) (o : Op) (hF : FSQ M w) (hb : opBound o ≤ M)
    (h : applyOp never d k w o = some (w', r)) : FSQ M w' := by
  cases o with
  | attach c p =>
    simp only [applyOp] at h
    simp only [opBound] at hb
    split at h
    · cases h; exact hF
    · simp only [Option.map_eq_some_iff] at h
      obtain ⟨f', hf, he⟩ := h; cases he
      have hc : c < M := by have := Nat.le_max_left c p; omega
      have hp : p < M := by have := Nat.le_max_right c p; omega
      exact ⟨putChild_fsupp never d M w.f p c f' hF.1 hc hp hf, hF.2⟩
  | detach c =>
    simp only [applyOp, Option.map_eq_some_iff] at h
    obtain ⟨f', hf, he⟩ := h; cases he
    exact ⟨hF.1.mono (detach_parSub never d w.f c f' hf), hF.2⟩
  | destroy c =>
    simp only [applyOp, Option.map_eq_some_iff] at h
    obtain ⟨f', hf, he⟩ := h; cases he
    refine ⟨hF.1.mono (destroy_parSub never d w.f c f' hf), fun m => ?_⟩
    simp only [updF]
    by_cases hm : m = c
    · subst hm; simp
    · simp only [hm, if_false]; exact hF.2 m
  | inval c clear =>
    simp only [applyOp, Option.map_eq_some_iff] at h
    obtain ⟨f', hf, he⟩ := h; cases he
    exact ⟨hF.1.mono (parSub_of_eq (invalidate_parent never d w.f c clear f' hf)), hF.2⟩
  | setReq c t => simp only [applyOp] at h; cases h; exact hF
  | script g c acts =>
    simp only [opBound] at hb
    have hacts : ∀ a ∈ acts, actBound a ≤ M := fun a ha => Nat.le_trans (actBound_le_actsBound acts a ha) hb
    cases g
    · simp only [applyOp] at h; cases h
      refine ⟨hF.1, fun m => ⟨(hF.2 m).1, fun l hl => ?_⟩⟩
      simp only [updF] at hl
      by_cases hm : m = c
      · subst hm
        simp only [if_true] at hl
        rcases List.mem_append.mp hl with hl | hl
        · exact (hF.2 m).2 l hl
        · have : l = acts := by simpa using hl
          subst this; exact hacts
      · simp only [hm, if_false] at hl; exact (hF.2 m).2 l hl
    · simp only [applyOp] at h; cases h
      refine ⟨hF.1, fun m => ⟨fun l hl => ?_, (hF.2 m).2⟩⟩
      simp only [updF] at hl
      by_cases hm : m = c
      · subst hm
        simp only [if_true] at hl
        rcases List.mem_append.mp hl with hl | hl
        · exact (hF.2 m).1 l hl
        · have : l = acts := by simpa using hl
          subst this; exact hacts
      · simp only [hm, if_false] at hl; exact (hF.2 m).1 l hl
  | gpt root now =>
    simp only [applyOp] at h
    split at h
    · cases h; exact hF
    · simp only [Option.map_eq_some_iff] at h
      obtain ⟨⟨w1, m⟩, hf, he⟩ := h; cases he
      exact (gpt_fsq never d M k).1 w _ root now never _ hF hf
  | pulse root now =>
    simp only [applyOp] at h
    split at h
    · cases h; exact hF
    · simp only [Option.map_eq_some_iff] at h
      obtain ⟨w1, hf, he⟩ := h; cases he
      simp only [managerPulse] at hf
      split at hf
      · exact (pulse_fsq never d M k).1 w _ root now hF hf
      · cases hf; exact hF

theorem runOps_fsq (never d k M : Nat) : ∀ (ops : List Op) (w w' : World), FSQ M w → (∀ o ∈ ops, opBound o ≤ M) →
    runOps never d k w ops = some w' → FSQ M w' := by
  intro ops
  induction ops with
  | nil => intro w w' g _ h; simp [runOps] at h; subst h; exact g
  | cons o r ih =>
    intro w w' g hb h
    simp only [runOps] at h
    split at h
    · rename_i w1 r1 h1
      exact ih w1 w' (applyOp_fsq never d k M w w1 r1 o g (hb o (by simp)) h1)
        (fun o' ho' => hb o' (List.mem_cons_of_mem _ ho')) h
    · cases h

theorem fsq_init (never M : Nat) : FSQ M (World.init never) :=
  ⟨fun c p h => by simp [World.init, Node.fresh] at h,
   fun n => ⟨fun acts ha => by simp [World.init] at ha, fun acts ha => by simp [World.init] at ha⟩⟩

end Muscle.Pulse
