import MuscleModel.Pulse.Proofs7

/-!
# Lemmas for C20, part 8: the last statements of `GetPulseTimeAux` (recompute the aggregate, file the node in
SCHEDULED / UNSCHEDULED) preserve the invariant.
-/

set_option linter.unusedSimpArgs false
set_option linter.unusedVariables false

namespace Muscle.Pulse

/-- not in a SCHEDULED / UNSCHEDULED list: a root, or a node waiting in NEEDSRECALC -/
def Unfiled (f : Forest) (x : Nat) : Prop := (f x).cur ≠ some .sched ∧ (f x).cur ≠ some .unsched

theorem nodup_insertBefore (a : Nat → Nat) (c : Nat) : ∀ (l : List Nat), l.Nodup → c ∉ l → (insertBefore a c l).Nodup := by
  intro l
  induction l with
  | nil => intro _ _; simp [insertBefore]
  | cons p r ih =>
    intro hn hc
    have hcp : c ≠ p := fun e => hc (by simp [e])
    have hcr : c ∉ r := fun e => hc (List.mem_cons_of_mem _ e)
    simp only [insertBefore]
    split
    · refine List.nodup_cons.mpr ⟨?_, ih (List.nodup_cons.mp hn).2 hcr⟩
      intro hm
      rcases (mem_insertBefore a c p r).mp hm with e | e
      · exact hcp e.symm
      · exact (List.nodup_cons.mp hn).1 e
    · exact List.nodup_cons.mpr ⟨hc, hn⟩

theorem nodup_insertSched (a : Nat → Nat) (c : Nat) (l : List Nat) (hn : l.Nodup) (hc : c ∉ l) :
    (insertSched a c l).Nodup := by
  unfold insertSched
  split
  · simp
  · split
    · rw [List.nodup_append]
      refine ⟨hn, by simp, ?_⟩
      intro x hx y hy
      have : y = c := by simpa using hy
      subst this
      exact fun e => hc (e ▸ hx)
    · exact nodup_insertBefore a c l hn hc

/-- the filing step, described by what it does to each field -/
theorem file_inv (never : Nat) (f f' : Forest) (p n a : Nat) (tgt : Which) (ins : List Nat → List Nat)
    (hi : Inv never f) (hp : (f n).parent = some p) (hc : (f n).cur = some .recalc) (hr : (f n).recalc = [])
    (hup : Unfiled f p) (htr : tgt ≠ .recalc)
    (hins : ∀ l x, x ∈ ins l ↔ x = n ∨ x ∈ l) (hinsn : ∀ l, l.Nodup → n ∉ l → (ins l).Nodup)
    -- the new aggregate of n
    (ha1 : a ≤ (f n).myTime) (ha2 : a ≤ firstSchedAgg never f n)
    (ha3 : (f n).valid = true → a = min (f n).myTime (firstSchedAgg never f n))
    (ha4 : tgt = .sched ↔ a ≠ never)
    -- the fields of the result
    (hsc : ∀ x, (f' x).parent = (f x).parent ∧ (f' x).valid = (f x).valid ∧ (f' x).myTime = (f x).myTime)
    (hagg : ∀ x, (f' x).agg = if x = n then a else (f x).agg)
    (hcur : ∀ x, (f' x).cur = if x = n then some tgt else (f x).cur)
    (hlist : ∀ q l, (f' q).list l =
      if q = p ∧ l = tgt then ins ((f p).list tgt)
      else if q = p ∧ l = .recalc then ((f p).recalc).erase n else (f q).list l)
    (hsorted : AllSorted f') : Inv never f' := by
  have hI := hi.1
  have hnp : n ≠ p := by
    intro e
    have : n ∈ (f n).list .recalc := hI.complete n n .recalc (fun h => h) (e ▸ hp) hc
    rw [list_recalc, hr] at this; cases this
  -- n is in exactly one list of f: p's NEEDSRECALC list
  have honly : ∀ q l, n ∈ (f q).list l → q = p ∧ l = .recalc := by
    intro q l hm
    obtain ⟨h1, h2⟩ := hI.sound q n l hm
    rw [hp] at h1; rw [hc] at h2
    exact ⟨(Option.some.inj h1).symm, (Option.some.inj h2).symm⟩
  have hagg_le : a ≤ never := by
    have : firstSchedAgg never f n ≤ never := by
      unfold firstSchedAgg; split
      · exact hI.aggle _
      · exact Nat.le_refl _
    omega
  have hfsa : ∀ x, (f' x).sched = (f x).sched → firstSchedAgg never f' x = firstSchedAgg never f x := by
    intro x hs
    apply firstSchedAgg_congr' never f f' x hs
    intro i hi'
    rw [hagg]
    have : i ≠ n := by
      intro e; subst e
      have := honly x .sched hi'
      cases this.2
    simp [this]
  have hsched_other : ∀ x, x ≠ p → (f' x).sched = (f x).sched := by
    intro x hx
    have := hlist x .sched
    simp only [list_sched, hx, false_and, if_false] at this
    exact this
  refine ⟨⟨?_, ?_, ?_, ?_, ?_, ?_, ?_, ?_, ?_⟩, hsorted⟩
  · -- sound
    intro q x l hx
    rw [hlist] at hx
    rw [(hsc x).1, hcur]
    split at hx
    · rename_i hq
      rcases (hins _ x).mp hx with rfl | hx
      · simp [hq.1, hq.2]; exact hp
      · obtain ⟨h1, h2⟩ := hI.sound p x tgt hx
        have hxn : x ≠ n := fun e => by subst e; rw [hc] at h2; exact htr (Option.some.inj h2).symm
        simp only [hxn, if_false]; rw [hq.1, hq.2]; exact ⟨h1, h2⟩
    · split at hx
      · rename_i hq
        have hx0 := List.mem_of_mem_erase hx
        have hxn : x ≠ n := fun e => by
          subst e; exact (List.Nodup.mem_erase_iff (hI.nodup p .recalc)).mp hx |>.1 rfl
        simp only [hxn, if_false]; rw [hq.1, hq.2]; exact hI.sound p x .recalc hx0
      · rename_i h1 h2
        have hxn : x ≠ n := fun e => by subst e; exact h2 (honly q l hx)
        simp only [hxn, if_false]; exact hI.sound q x l hx
  · -- nodup
    intro q l
    rw [hlist]
    split
    · apply hinsn _ (hI.nodup p tgt)
      intro hm; exact htr (honly p tgt hm).2
    · split
      · exact List.Nodup.erase n (hI.nodup p .recalc)
      · exact hI.nodup q l
  · -- complete
    intro x q l _ hpar hcu
    rw [(hsc x).1] at hpar
    rw [hcur] at hcu
    rw [hlist]
    by_cases hxn : x = n
    · subst hxn
      simp only [if_true] at hcu
      have hq : q = p := by rw [hp] at hpar; exact (Option.some.inj hpar).symm
      have hl : l = tgt := (Option.some.inj hcu).symm
      simp only [hq, hl, and_self, if_true]
      exact (hins _ x).mpr (Or.inl rfl)
    · simp only [hxn, if_false] at hcu
      have hm := hI.complete x q l (fun h => h) hpar hcu
      split
      · rename_i hq; rw [hq.1, hq.2] at hm; exact (hins _ x).mpr (Or.inr hm)
      · split
        · rename_i hq; rw [hq.1, hq.2] at hm; exact (List.mem_erase_of_ne hxn).mpr hm
        · exact hm
  · intro x hx; exact hx.elim
  · -- rootcur
    intro x hx
    rw [(hsc x).1] at hx; rw [hcur]
    have hxn : x ≠ n := fun e => by subst e; rw [hp] at hx; cases hx
    simp only [hxn, if_false]; exact hI.rootcur x hx
  · -- childcur
    intro x q hx
    rw [(hsc x).1] at hx; rw [hcur]
    by_cases hxn : x = n
    · simp [hxn]
    · simp only [hxn, if_false]; exact hI.childcur x q hx
  · -- marked
    intro x q hx hne
    rw [(hsc x).1] at hx; rw [hcur]
    have hrl : (f' x).recalc = (f' x).list .recalc := rfl
    rw [hrl, hlist] at hne
    have h1 : ¬ (x = p ∧ Which.recalc = tgt) := fun e => htr e.2.symm
    simp only [h1, if_false] at hne
    by_cases hxn : x = n
    · subst hxn
      have : ¬ (x = p ∧ True) := fun e => hnp e.1
      simp only [this, if_false, list_recalc] at hne
      exact absurd hr hne
    · simp only [hxn, if_false]
      apply hI.marked x q hx
      intro he; apply hne
      split
      · rename_i hq; rw [← hq.1, he]; rfl
      · exact he
  · -- aok
    intro x _ hf
    obtain ⟨⟨q, hq⟩, hcx⟩ := hf
    rw [(hsc x).1] at hq
    by_cases hxn : x = n
    · subst hxn
      have hs : (f' x).sched = (f x).sched := hsched_other x hnp
      unfold AOK
      rw [hfsa x hs, hagg, (hsc x).2.2, (hsc x).2.1, hcur]
      simp only [if_true]
      refine ⟨ha1, ha2, ha3, ?_⟩
      constructor
      · intro e; exact ha4.mp (Option.some.inj e)
      · intro e; rw [ha4.mpr e]
    · rw [hcur] at hcx; simp only [hxn, if_false] at hcx
      have hf0 : Filed f x := ⟨⟨q, hq⟩, hcx⟩
      have hxp : x ≠ p := by
        intro e; subst e
        rcases hcx with e | e
        · exact hup.1 e
        · exact hup.2 e
      have hs : (f' x).sched = (f x).sched := hsched_other x hxp
      have ha := hI.aok x (fun h => h) hf0
      unfold AOK at ha ⊢
      rw [hfsa x hs, hagg, (hsc x).2.2, (hsc x).2.1, hcur]
      simp only [hxn, if_false]
      exact ha
  · -- aggle
    intro x
    rw [hagg]
    split
    · exact hagg_le
    · exact hI.aggle x


/-- a new aggregate time for a node that is not filed and in no SCHEDULED list -/
theorem setAgg_inv (never : Nat) (f : Forest) (n a : Nat) (hi : Inv never f) (hun : Unfiled f n)
    (hnl : ∀ q, n ∉ (f q).sched) (ha : a ≤ never) : Inv never (upd f n { (f n) with agg := a }) := by
  have lk : ∀ x, (upd f n { (f n) with agg := a } x).parent = (f x).parent ∧ (upd f n { (f n) with agg := a } x).cur = (f x).cur ∧
      (upd f n { (f n) with agg := a } x).valid = (f x).valid ∧ (upd f n { (f n) with agg := a } x).myTime = (f x).myTime ∧
      ∀ l, (upd f n { (f n) with agg := a } x).list l = (f x).list l := by
    intro x
    unfold upd
    by_cases hx : x = n
    · subst hx; simp only [if_true]; exact ⟨trivial, trivial, trivial, trivial, fun l => by cases l <;> rfl⟩
    · simp [hx]
  have hagg : ∀ x, x ≠ n → (upd f n { (f n) with agg := a } x).agg = (f x).agg := by
    intro x hx; simp [upd, hx]
  have hgn : (upd f n { (f n) with agg := a } n).agg = a := by simp [upd]
  generalize upd f n { (f n) with agg := a } = g at lk hagg hgn ⊢
  constructor
  · refine ⟨?_, ?_, ?_, ?_, ?_, ?_, ?_, ?_, ?_⟩
    · intro q x l hx
      rw [(lk q).2.2.2.2 l] at hx
      rw [(lk x).1, (lk x).2.1]; exact hi.1.sound q x l hx
    · intro q l; rw [(lk q).2.2.2.2 l]; exact hi.1.nodup q l
    · intro x q l hx hp hc
      rw [(lk x).1] at hp; rw [(lk x).2.1] at hc
      rw [(lk q).2.2.2.2 l]; exact hi.1.complete x q l hx hp hc
    · intro x hx; exact hx.elim
    · intro x hx; rw [(lk x).1] at hx; rw [(lk x).2.1]; exact hi.1.rootcur x hx
    · intro x q hx; rw [(lk x).1] at hx; rw [(lk x).2.1]; exact hi.1.childcur x q hx
    · intro x q hx hne
      rw [(lk x).1] at hx; rw [(lk x).2.1]
      exact hi.1.marked x q hx (by have := (lk x).2.2.2.2 .recalc; simp only [list_recalc] at this; rw [← this]; exact hne)
    · intro x _ hf
      have hf0 : Filed f x := by
        obtain ⟨⟨q, hq⟩, hc⟩ := hf
        exact ⟨⟨q, by rw [← (lk x).1]; exact hq⟩, by rw [← (lk x).2.1]; exact hc⟩
      have hxn : x ≠ n := by
        intro e; subst e
        rcases hf0.2 with e | e
        · exact hun.1 e
        · exact hun.2 e
      have ha' := hi.1.aok x (fun h => h) hf0
      have hsch : (g x).sched = (f x).sched := by have := (lk x).2.2.2.2 .sched; simpa using this
      have hfs := firstSchedAgg_congr' never f g x hsch (fun i hi' => hagg i (fun e => hnl x (e ▸ hi')))
      unfold AOK at ha' ⊢
      rw [hfs, hagg x hxn, (lk x).2.1, (lk x).2.2.2.1, (lk x).2.2.1]
      exact ha'
    · intro x
      by_cases hx : x = n
      · subst hx; rw [hgn]; exact ha
      · rw [hagg x hx]; exact hi.1.aggle x
  · intro p
    have hsch : (g p).sched = (f p).sched := by have := (lk p).2.2.2.2 .sched; simpa using this
    rw [hsch]
    exact List.Pairwise.imp_of_mem (l := (f p).sched)
      (R := fun x y => (f x).agg ≤ (f y).agg)
      (fun {x y} hx hy hxy => by
        show (g x).agg ≤ (g y).agg
        rw [hagg x (fun e => hnl p (e ▸ hx)), hagg y (fun e => hnl p (e ▸ hy))]
        exact hxy) (hi.2 p)


theorem setAgg_fields (f : Forest) (n a : Nat) (x : Nat) :
    (upd f n { (f n) with agg := a } x).parent = (f x).parent ∧ (upd f n { (f n) with agg := a } x).cur = (f x).cur ∧
    (upd f n { (f n) with agg := a } x).valid = (f x).valid ∧ (upd f n { (f n) with agg := a } x).myTime = (f x).myTime ∧
    (upd f n { (f n) with agg := a } x).agg = (if x = n then a else (f x).agg) ∧
    ∀ l, (upd f n { (f n) with agg := a } x).list l = (f x).list l := by
  unfold upd
  by_cases hx : x = n
  · subst hx; simp only [if_true]; exact ⟨trivial, trivial, trivial, trivial, trivial, fun l => by cases l <;> rfl⟩
  · simp [hx]

/-- the last statements of `GetPulseTimeAux` on a node that is not filed, has no needy child left and whose request stands
    preserve the invariant -/
theorem gptFinish_inv (never d : Nat) (w w' : World) (n mn mn' : Nat) (hi : Inv never w.f)
    (hr : (w.f n).recalc = []) (hv : (w.f n).valid = true) (hun : Unfiled w.f n)
    (h : gptFinish never d w n mn = some (w', mn')) : Inv never w'.f := by
  have hI := hi.1
  have hnl : ∀ q, n ∉ (w.f q).sched := fun q hm => hun.1 (hI.sound q n .sched hm).2
  have hfs_le : firstSchedAgg never w.f n ≤ never := by
    unfold firstSchedAgg; split
    · exact hI.aggle _
    · exact Nat.le_refl _
  simp only [gptFinish] at h
  have hm : (if (w.f n).valid = true then (w.f n).myTime else 0) = (w.f n).myTime := by simp [hv]
  rw [hm] at h
  generalize hdef : min (w.f n).myTime (firstSchedAgg never w.f n) = a at h
  have ha1 : a ≤ (w.f n).myTime := by rw [← hdef]; exact Nat.min_le_left _ _
  have ha2 : a ≤ firstSchedAgg never w.f n := by rw [← hdef]; exact Nat.min_le_right _ _
  have ha3 : (w.f n).valid = true → a = min (w.f n).myTime (firstSchedAgg never w.f n) := fun _ => hdef.symm
  have ha_le : a ≤ never := by omega
  have i3 := setAgg_inv never w.f n a hi hun hnl ha_le
  have lk := setAgg_fields w.f n a
  generalize upd w.f n { (w.f n) with agg := a } = f3 at h i3 lk
  split at h
  · rename_i f4 h4
    cases h
    show Inv never f4
    cases hp : (w.f n).parent with
    | none =>
      rw [(lk n).1, hp] at h4
      cases h4; exact i3
    | some p =>
      have hc : (w.f n).cur = some .recalc := by
        have h0 := hI.childcur n p hp
        cases hcc : (w.f n).cur with
        | none => exact absurd hcc h0
        | some l =>
          cases l
          · exact absurd hcc hun.1
          · exact absurd hcc hun.2
          · rfl
      rw [(lk n).1, hp] at h4
      simp only [(lk n).2.1, hc, true_or, if_true] at h4
      -- the parent is not filed either
      have hmem : n ∈ (w.f p).list .recalc := hI.complete n p .recalc (fun h => h) hp hc
      have hup : Unfiled w.f p := by
        have hne : (w.f p).recalc ≠ [] := fun e => by rw [list_recalc, e] at hmem; cases hmem
        cases hpp : (w.f p).parent with
        | none => have := hI.rootcur p hpp; exact ⟨by rw [this]; simp, by rw [this]; simp⟩
        | some g => have := hI.marked p g hpp hne; exact ⟨by rw [this]; simp, by rw [this]; simp⟩
      cases d with
      | zero => simp [resched] at h4
      | succ d =>
        have s4 := resched_allSorted never _ _ _ _ _ _ i3.2 h4
        simp only [resched] at h4
        have hc3 : (f3 n).cur = some .recalc := by rw [(lk n).2.1]; exact hc
        have htne : ∀ t : Which, t ≠ .recalc → (some t ≠ (f3 n).cur ∨ (f3 n).cur = some Which.sched) := by
          intro t ht; rw [hc3]; exact Or.inl (fun e => ht (Option.some.inj e))
        have s2 := half_scalars f3 p n
        have hl2 : ∀ t q l, (half f3 p n (some t) q).list l =
            if q = p ∧ l = .recalc then ((w.f p).recalc).erase n else (w.f q).list l := by
          intro t q l
          rw [half_list, hc3]
          by_cases hq : q = p ∧ l = .recalc
          · obtain ⟨hq1, hq2⟩ := hq
            subst hq1; subst hq2
            simp only [and_self, if_true]
            rw [(lk q).2.2.2.2.2 .recalc]; rfl
          · have : ¬ (q = p ∧ some Which.recalc = some l) := fun e => hq ⟨e.1, (Option.some.inj e.2).symm⟩
            simp only [this, hq, if_false]
            exact (lk q).2.2.2.2.2 l
        by_cases han : a = never
        · -- UNSCHEDULED
          simp only [han, if_true] at h4
          have hcond := htne .unsched (by decide)
          simp only [hcond, if_true] at h4
          change some (setL (half f3 p n (some .unsched)) p .unsched (n :: (half f3 p n (some .unsched) p).unsched)) = some f4 at h4
          cases h4
          apply file_inv never w.f _ p n a .unsched (fun l => n :: l) hi hp hc hr hup (by decide)
            (fun l x => by simp) (fun l hn hnm => List.nodup_cons.mpr ⟨hnm, hn⟩) ha1 ha2 ha3
            (by constructor
                · intro e; cases e
                · intro e; exact absurd han e)
          · intro x
            have e1 := sameScalars_setL (half f3 p n (some .unsched)) p .unsched (n :: (half f3 p n (some .unsched) p).unsched) x
            have e2 := s2 (some .unsched) x
            exact ⟨e1.2.2.2.trans (e2.2.2.2.trans (lk x).1), e1.1.trans (e2.1.trans (lk x).2.2.1),
              e1.2.1.trans (e2.2.1.trans (lk x).2.2.2.1)⟩
          · intro x
            have e1 := sameScalars_setL (half f3 p n (some .unsched)) p .unsched (n :: (half f3 p n (some .unsched) p).unsched) x
            have e2 := s2 (some .unsched) x
            exact e1.2.2.1.trans (e2.2.2.1.trans (lk x).2.2.2.2.1)
          · intro x
            rw [cur_setL, half_cur, (lk x).2.1]
          · intro q l
            rw [list_setL]
            by_cases hq : q = p ∧ l = .unsched
          
            · simp only [hq, and_self, if_true]
              have := hl2 .unsched p .unsched
              simp only [list_unsched] at this
              rw [this]; simp
            · simp only [hq, if_false]
              rw [hl2]
          · exact s4
        · -- SCHEDULED
          simp only [han, if_false] at h4
          have hcond := htne .sched (by decide)
          simp only [hcond, if_true] at h4
          change some (setL (half f3 p n (some .sched)) p .sched
            (insertSched (fun i => (half f3 p n (some .sched) i).agg) n (half f3 p n (some .sched) p).sched)) = some f4 at h4
          cases h4
          apply file_inv never w.f _ p n a .sched
            (fun l => insertSched (fun i => (half f3 p n (some .sched) i).agg) n l) hi hp hc hr hup (by decide)
            (fun l x => mem_insertSched _ n x l) (fun l hn hnm => nodup_insertSched _ n l hn hnm) ha1 ha2 ha3
            (by constructor
                · intro _; exact han
                · intro _; rfl)
          · intro x
            have e1 := sameScalars_setL (half f3 p n (some .sched)) p .sched
              (insertSched (fun i => (half f3 p n (some .sched) i).agg) n (half f3 p n (some .sched) p).sched) x
            have e2 := s2 (some .sched) x
            exact ⟨e1.2.2.2.trans (e2.2.2.2.trans (lk x).1), e1.1.trans (e2.1.trans (lk x).2.2.1),
              e1.2.1.trans (e2.2.1.trans (lk x).2.2.2.1)⟩
          · intro x
            have e1 := sameScalars_setL (half f3 p n (some .sched)) p .sched
              (insertSched (fun i => (half f3 p n (some .sched) i).agg) n (half f3 p n (some .sched) p).sched) x
            have e2 := s2 (some .sched) x
            exact e1.2.2.1.trans (e2.2.2.1.trans (lk x).2.2.2.2.1)
          · intro x
            rw [cur_setL, half_cur, (lk x).2.1]
          · intro q l
            rw [list_setL]
            by_cases hq : q = p ∧ l = .sched
            · simp only [hq, and_self, if_true]
              have := hl2 .sched p .sched
              simp only [list_sched] at this
              rw [this]; simp
            · simp only [hq, if_false]
              rw [hl2]
          · exact s4
  · cases h

end Muscle.Pulse
