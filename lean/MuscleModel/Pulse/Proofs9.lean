import MuscleModel.Pulse.Disc
import MuscleModel.Pulse.Proofs8

/-!
# Lemmas for C20, part 9: the `GetPulseTimeAux` sweep preserves the invariant when no callback touches a node
whose own `GetPulseTimeAux` is in progress.
-/

set_option linter.unusedSimpArgs false
set_option linter.unusedVariables false

namespace Muscle.Pulse

/-! ## dropping the verdict gives the model's sweep -/

theorem runActsC_erase (never d : Nat) (stk : List Nat) : ∀ (l : List Act) (w w' : World) (b : Bool),
    runActsC never d stk w l = some (w', b) → runActs never d w l = some w' := by
  intro l
  induction l with
  | nil => intro w w' b h; simp [runActsC] at h; simp [runActs, h.1]
  | cons a r ih =>
    intro w w' b h
    simp only [runActsC] at h
    simp only [runActs]
    split at h
    · rename_i w1 h1
      rw [h1]
      split at h
      · rename_i w2 b2 h2
        cases h
        exact ih w1 _ b2 h2
      · cases h
    · cases h

theorem callGC_erase (never d : Nat) (stk : List Nat) (w w' : World) (n now : Nat) (b : Bool)
    (h : callGC never d stk w n now = some (w', b)) : callG never d w n now = some w' := by
  simp only [callGC] at h
  simp only [callG]
  split at h
  · cases h
  · rename_i w2 b2 h2
    cases h
    rw [runActsC_erase never d stk _ _ _ _ h2]

theorem gptC_erase (never d : Nat) : ∀ (k : Nat),
    (∀ (w w' : World) (n now mn m : Nat) (stk : List Nat) (b : Bool),
      gptAuxC never d k w n now mn stk = some (w', m, b) → gptAux never d k w n now mn = some (w', m)) ∧
    (∀ (w w' : World) (n now mn m : Nat) (stk : List Nat) (b : Bool),
      gptLoopC never d k w n now mn stk = some (w', m, b) → gptLoop never d k w n now mn = some (w', m)) := by
  intro k
  induction k with
  | zero => exact ⟨fun w w' n now mn m stk b h => by simp [gptAuxC] at h, fun w w' n now mn m stk b h => by simp [gptLoopC] at h⟩
  | succ k ih =>
    refine ⟨?_, ?_⟩
    · intro w w' n now mn m stk b h
      simp only [gptAuxC] at h
      simp only [gptAux]
      split at h
      · cases h
      · rename_i w1 b1 h1
        have e1 : (if (w.f n).valid = true then some w else callG never d w n now) = some w1 := by
          split at h1
          · rename_i hv; simp only [hv, if_true]; cases h1; rfl
          · rename_i hv; simp only [hv, if_false]; exact callGC_erase never d _ w w1 n now b1 h1
        rw [e1]
        simp only []
        split at h
        · cases h
        · rename_i w2 mn2 b2 h2
          rw [ih.2 w1 w2 n now mn mn2 _ b2 h2]
          simp only []
          split at h
          · rename_i w5 m5 b5 h5
            cases h
            split at h5
            · rename_i hv
              simp only [hv, if_true]
              split at h5
              · rename_i w3 m3 h3; cases h5; exact h3
              · cases h5
            · rename_i hv
              simp only [hv, if_false]
              split at h5
              · cases h5
              · rename_i w3 b3 h3
                rw [callGC_erase never d _ w2 w3 n now b3 h3]
                simp only []
                split at h5
                · cases h5
                · rename_i w4 mn4 b4 h4
                  rw [ih.2 w3 w4 n now mn2 mn4 _ b4 h4]
                  simp only []
                  split at h5
                  · rename_i w6 m6 h6; cases h5; exact h6
                  · cases h5
          · cases h
    · intro w w' n now mn m stk b h
      simp only [gptLoopC] at h
      simp only [gptLoop]
      split at h
      · rename_i he
        rw [he]; cases h; rfl
      · rename_i c r he
        rw [he]
        simp only []
        split at h
        · cases h
        · rename_i w1 mn1 b1 h1
          rw [ih.1 w w1 c now mn mn1 stk b1 h1]
          simp only []
          split at h
          · rename_i w2 m2 b2 h2
            cases h
            exact ih.2 w1 _ n now mn1 _ stk b2 h2
          · cases h


/-! ## what the public operations can do to nodes they are not aimed at -/

/-- no node becomes filed; outside `T` the standing-request flag and the parent pointer are untouched -/
def Rel (T : Nat → Prop) (f f' : Forest) : Prop :=
  (∀ x, Unfiled f x → Unfiled f' x) ∧ (∀ x, ¬ T x → (f' x).valid = (f x).valid ∧ (f' x).parent = (f x).parent)

theorem Rel.refl (T : Nat → Prop) (f : Forest) : Rel T f f := ⟨fun _ h => h, fun _ _ => ⟨rfl, rfl⟩⟩

theorem Rel.trans {T : Nat → Prop} {f g h : Forest} (a : Rel T f g) (b : Rel T g h) : Rel T f h :=
  ⟨fun x hx => b.1 x (a.1 x hx), fun x hx => ⟨(b.2 x hx).1.trans (a.2 x hx).1, (b.2 x hx).2.trans (a.2 x hx).2⟩⟩

theorem Rel.mono {T T' : Nat → Prop} {f g : Forest} (a : Rel T f g) (h : ∀ x, T x → T' x) : Rel T' f g :=
  ⟨a.1, fun x hx => a.2 x (fun e => hx (h x e))⟩

theorem unfiled_of_cur {f f' : Forest} {x : Nat}
    (h : (f' x).cur = (f x).cur ∨ (f' x).cur = some .recalc ∨ (f' x).cur = none) (hu : Unfiled f x) : Unfiled f' x := by
  rcases h with h | h | h
  · exact ⟨by rw [h]; exact hu.1, by rw [h]; exact hu.2⟩
  · exact ⟨by rw [h]; simp, by rw [h]; simp⟩
  · exact ⟨by rw [h]; simp, by rw [h]; simp⟩

theorem resched_recalc_cur_or (never : Nat) : ∀ (d : Nat) (f : Forest) (p c : Nat) (f' : Forest),
    resched never d f p c (some .recalc) = some f' → ∀ x, (f' x).cur = (f x).cur ∨ (f' x).cur = some .recalc := by
  intro d
  induction d with
  | zero => intro f p c f' h; simp [resched] at h
  | succ d ih =>
    intro f p c f' h x
    simp only [resched] at h
    split at h
    · change (match (match (half f p c (some .recalc) p).parent with
               | some g => resched never d (half f p c (some .recalc)) g p (some .recalc)
               | none => some (half f p c (some .recalc))) with
        | some f3 => some (setL f3 p .recalc (c :: (f3 p).recalc))
        | none => none) = some f' at h
      have k2 : (half f p c (some .recalc) x).cur = (f x).cur ∨ (half f p c (some .recalc) x).cur = some .recalc := by
        rw [half_cur]; split <;> simp
      generalize half f p c (some .recalc) = f2 at h k2
      split at h
      · rename_i f3 h3
        cases h
        rw [cur_setL]
        have k3 : (f3 x).cur = (f2 x).cur ∨ (f3 x).cur = some .recalc := by
          split at h3
          · exact ih _ _ _ _ h3 x
          · cases h3; exact Or.inl rfl
        rcases k3 with k3 | k3
        · rw [k3]; exact k2
        · exact Or.inr k3
      · cases h
    · cases h; exact Or.inl rfl

theorem resched_recalc_rel (never d : Nat) (f : Forest) (p c : Nat) (f' : Forest)
    (h : resched never d f p c (some .recalc) = some f') : Rel (fun _ => False) f f' := by
  have s := resched_sameScalars never _ _ _ _ _ _ h
  refine ⟨fun x hx => ?_, fun x _ => ⟨(s x).1, (s x).2.2.2⟩⟩
  rcases resched_recalc_cur_or never d f p c f' h x with e | e
  · exact unfiled_of_cur (Or.inl e) hx
  · exact unfiled_of_cur (Or.inr (Or.inl e)) hx

theorem resched_none_rel (never d : Nat) (f : Forest) (p c : Nat) (f' : Forest)
    (h : resched never d f p c none = some f') : Rel (fun _ => False) f f' := by
  have s := resched_sameScalars never _ _ _ _ _ _ h
  refine ⟨fun x hx => ?_, fun x _ => ⟨(s x).1, (s x).2.2.2⟩⟩
  cases d with
  | zero => simp [resched] at h
  | succ d =>
    simp only [resched] at h
    split at h
    · cases h
      have : (half f p c none x).cur = (f x).cur ∨ (half f p c none x).cur = none := by
        rw [half_cur]; split <;> simp
      rcases this with e | e
      · exact unfiled_of_cur (Or.inl e) hx
      · exact unfiled_of_cur (Or.inr (Or.inr e)) hx
    · cases h; exact hx

/-- an update of node `n` that keeps `_curList` (and the parent, unless `n ∈ T`) -/
theorem upd_rel (f : Forest) (n : Nat) (nd : Node) (hc : nd.cur = (f n).cur) : Rel (fun x => x = n) f (upd f n nd) := by
  refine ⟨fun x hx => ?_, fun x hx => ?_⟩
  · unfold Unfiled upd at *
    by_cases h : x = n
    · subst h; simp [hc]; exact hx
    · simp [h]; exact hx
  · have : x ≠ n := hx
    simp [upd, this]

theorem invalidate_rel (never d : Nat) (f : Forest) (n : Nat) (clear : Bool) (f' : Forest)
    (h : invalidate never d f n clear = some f') : Rel (fun x => x = n) f f' := by
  simp only [invalidate] at h
  have r1 : Rel (fun x => x = n) f (if clear then upd f n { (f n) with myTime := never } else f) := by
    split
    · exact upd_rel f n _ rfl
    · exact Rel.refl _ f
  generalize (if clear then upd f n { (f n) with myTime := never } else f) = f1 at h r1
  split at h
  · have r2 : Rel (fun x => x = n) f1 (upd f1 n { (f1 n) with valid := false }) := upd_rel f1 n _ rfl
    generalize (upd f1 n { (f1 n) with valid := false }) = f2 at h r2
    split at h
    · exact (r1.trans r2).trans ((resched_recalc_rel never d f2 _ n f' h).mono (fun _ e => e.elim))
    · cases h; exact r1.trans r2
  · cases h; exact r1

theorem removeChild_rel (never d : Nat) (f : Forest) (p c : Nat) (f' : Forest)
    (h : removeChild never d f p c = some f') : Rel (fun x => x = c) f f' := by
  simp only [removeChild] at h
  split at h
  · split at h
    · cases h
    · rename_i f1 hf1
      have r1 : Rel (fun x => x = c) f f1 := (resched_none_rel never d f p c f1 hf1).mono (fun _ e => e.elim)
      have r2 : Rel (fun x => x = c) f1 (orphan f1 c) := upd_rel f1 c _ rfl
      split at h
      · split at h
        · exact (r1.trans r2).trans ((resched_recalc_rel never d _ _ p f' h).mono (fun _ e => e.elim))
        · cases h; exact r1.trans r2
      · cases h; exact r1.trans r2
  · cases h; exact Rel.refl _ f

theorem putChild_rel (never d : Nat) (f : Forest) (p c : Nat) (f' : Forest)
    (h : putChild never d f p c = some f') : Rel (fun x => x = c) f f' := by
  simp only [putChild] at h
  split at h
  · cases h
  · rename_i f1 hf1
    have r1 : Rel (fun x => x = c) f f1 := by
      split at hf1
      · exact removeChild_rel never d f _ c f1 hf1
      · cases hf1; exact Rel.refl _ f
    have r2 : Rel (fun x => x = c) f1 (setParent f1 c p) := upd_rel f1 c _ rfl
    exact (r1.trans r2).trans ((resched_recalc_rel never d _ p c f' h).mono (fun _ e => e.elim))

/-- one re-entrant action: nothing becomes filed; only the target can lose its request or change its parent -/
theorem runAct_rel (never d : Nat) (w w' : World) (a : Act) (h : runAct never d w a = some w') :
    Rel (fun x => a.target = some x) w.f w'.f := by
  cases a with
  | inval id clear =>
    simp only [runAct, Option.map_eq_some_iff] at h
    obtain ⟨f', hf, rfl⟩ := h
    exact (invalidate_rel never d w.f id clear f' hf).mono (fun x e => by simp [Act.target, e])
  | setReq id t => simp only [runAct] at h; cases h; exact Rel.refl _ _
  | detach id =>
    simp only [runAct, Option.map_eq_some_iff] at h
    obtain ⟨f', hf, rfl⟩ := h
    simp only [detach] at hf
    split at hf
    · exact (removeChild_rel never d w.f _ id f' hf).mono (fun x e => by simp [Act.target, e])
    · cases hf; exact Rel.refl _ _
  | attach c p =>
    simp only [runAct] at h
    split at h
    · cases h; exact Rel.refl _ _
    · simp only [Option.map_eq_some_iff] at h
      obtain ⟨f', hf, rfl⟩ := h
      exact (putChild_rel never d w.f p c f' hf).mono (fun x e => by simp [Act.target, e])

/-- the actions of one callback, with a positive verdict: the nodes in progress keep request flag and parent -/
theorem runActsC_rel (never d : Nat) (stk : List Nat) : ∀ (l : List Act) (w w' : World),
    runActsC never d stk w l = some (w', true) → Inv never w.f →
    Inv never w'.f ∧ Rel (fun x => x ∉ stk) w.f w'.f ∧ w'.req = w'.req := by
  intro l
  induction l with
  | nil => intro w w' h hi; simp [runActsC] at h; subst h; exact ⟨hi, Rel.refl _ _, rfl⟩
  | cons a r ih =>
    intro w w' h hi
    simp only [runActsC] at h
    split at h
    · rename_i w1 h1
      split at h
      · rename_i w2 b2 h2
        have hb : actOK stk a = true ∧ b2 = true := by
          have : (actOK stk a && b2) = true := by
            have := congrArg (fun o => o.map (fun (x : World × Bool) => x.2)) h
            simpa using this
          simpa using this
        have hw : w2 = w' := by
          have := congrArg (fun o => o.map (fun (x : World × Bool) => x.1)) h
          simpa using this
        subst hw
        rw [hb.2] at h2
        obtain ⟨i2, r2, _⟩ := ih w1 w2 h2 (runAct_inv never d w w1 a hi h1)
        refine ⟨i2, ?_, rfl⟩
        have r1 := runAct_rel never d w w1 a h1
        refine (r1.mono ?_).trans r2
        intro x hx hm
        -- the target is not on the stack
        have hok := hb.1
        unfold actOK at hok
        rw [hx] at hok
        simp at hok
        exact hok hm
      · cases h
    · cases h


/-! ## the pieces of one `GetPulseTimeAux` call -/

/-- the request flag / stored time of a node that is not filed may change freely -/
theorem set_unfiled_inv (never : Nat) (f : Forest) (n : Nat) (nd : Node) (hi : Inv never f) (hun : Unfiled f n)
    (h1 : nd.parent = (f n).parent) (h2 : nd.cur = (f n).cur) (h3 : nd.agg = (f n).agg)
    (h4 : nd.sched = (f n).sched) (h5 : nd.unsched = (f n).unsched) (h6 : nd.recalc = (f n).recalc) :
    Inv never (upd f n nd) := by
  have hl : SameLinks f (upd f n nd) := by
    intro x
    unfold upd
    by_cases hx : x = n
    · subst hx
      simp only [if_true]
      refine ⟨h1, h2, h3, fun l => ?_⟩
      cases l <;> simp [Node.list, h4, h5, h6]
    · simp [hx]
  refine ⟨invEx_of_sameLinks never _ _ f _ hl ?_ hi.1, allSorted_of_sameLinks f _ hl hi.2⟩
  intro x _ hf ha
  have hxn : x ≠ n := by
    intro e; subst e
    rcases hf.2 with e | e
    · exact hun.1 e
    · exact hun.2 e
  have hfs : firstSchedAgg never (upd f n nd) x = firstSchedAgg never f x :=
    firstSchedAgg_congr never f _ x (by have := (hl x).2.2.2 .sched; simpa using this) (fun i => (hl i).2.2.1)
  unfold AOK at ha ⊢
  rw [hfs, (hl x).2.2.1, (hl x).2.1]
  have e1 : (upd f n nd x).myTime = (f x).myTime := by simp [upd, hxn]
  have e2 : (upd f n nd x).valid = (f x).valid := by simp [upd, hxn]
  rw [e1, e2]; exact ha

/-- the scripted `GetPulseTime` with a positive verdict -/
theorem callGC_inv (never d : Nat) (stk : List Nat) (w w' : World) (n now : Nat) (hn : n ∈ stk)
    (h : callGC never d stk w n now = some (w', true)) (hi : Inv never w.f) (hun : Unfiled w.f n) :
    Inv never w'.f ∧ (w'.f n).valid = true ∧ (∀ x, Unfiled w.f x → Unfiled w'.f x) ∧
    (∀ y, y ∈ stk → (w'.f y).parent = (w.f y).parent ∧ (y ≠ n → (w'.f y).valid = (w.f y).valid)) := by
  simp only [callGC] at h
  split at h
  · cases h
  · rename_i w2 b2 h2
    have hb : b2 = true := by
      have := congrArg (fun o => o.map (fun (x : World × Bool) => x.2)) h
      simpa using this.symm
    subst hb
    cases h
    have i1 : Inv never (upd w.f n { (w.f n) with valid := true }) :=
      set_unfiled_inv never w.f n _ hi hun rfl rfl rfl rfl rfl rfl
    have r1 : Rel (fun x => x = n) w.f (upd w.f n { (w.f n) with valid := true }) := upd_rel w.f n _ rfl
    obtain ⟨i2, r2, _⟩ := runActsC_rel never d stk _ _ _ h2 (by exact i1)
    simp only [] at r2
    have hv1 : (upd w.f n { (w.f n) with valid := true } n).valid = true := by simp [upd]
    have hu2 : Unfiled w2.f n := r2.1 n (r1.1 n hun)
    have hv2 : (w2.f n).valid = true := by rw [(r2.2 n (fun e => e hn)).1]; exact hv1
    have i3 : Inv never (upd w2.f n { (w2.f n) with myTime := w2.req n }) :=
      set_unfiled_inv never w2.f n _ i2 hu2 rfl rfl rfl rfl rfl rfl
    have r3 : Rel (fun x => x = n) w2.f (upd w2.f n { (w2.f n) with myTime := w2.req n }) := upd_rel w2.f n _ rfl
    refine ⟨i3, by simp [upd, hv2], fun x hx => r3.1 x (r2.1 x (r1.1 x hx)), fun y hy => ⟨?_, fun hyn => ?_⟩⟩
    · -- parent: the three steps keep the parent of every node in progress (n's own updates keep it too)
      have e3 : (upd w2.f n { (w2.f n) with myTime := w2.req n } y).parent = (w2.f y).parent := by
        unfold upd; by_cases hy' : y = n
        · subst hy'; simp
        · simp [hy']
      have e1 : (upd w.f n { (w.f n) with valid := true } y).parent = (w.f y).parent := by
        unfold upd; by_cases hy' : y = n
        · subst hy'; simp
        · simp [hy']
      rw [e3, (r2.2 y (fun e => e hy)).2, e1]
    · rw [(r3.2 y hyn).1, (r2.2 y (fun e => e hy)).1, (r1.2 y hyn).1]

theorem resched_file_cur (never d : Nat) (f : Forest) (p c : Nat) (t : Which) (f' : Forest) (ht : t ≠ .recalc)
    (h : resched never d f p c (some t) = some f') : ∀ x, x ≠ c → (f' x).cur = (f x).cur := by
  intro x hx
  cases d with
  | zero => simp [resched] at h
  | succ d =>
    simp only [resched] at h
    split at h
    · cases t with
      | recalc => exact absurd rfl ht
      | sched =>
        change some (setL (half f p c (some .sched)) p .sched _) = some f' at h
        cases h
        rw [cur_setL, half_cur]; simp [hx]
      | unsched =>
        change some (setL (half f p c (some .unsched)) p .unsched _) = some f' at h
        cases h
        rw [cur_setL, half_cur]; simp [hx]
    · cases h; rfl

/-- the filing step changes the `_curList` of the filed node only, and nobody's request flag or parent -/
theorem gptFinish_other (never d : Nat) (w w' : World) (n mn mn' : Nat)
    (h : gptFinish never d w n mn = some (w', mn')) :
    ∀ x, (w'.f x).parent = (w.f x).parent ∧ (w'.f x).valid = (w.f x).valid ∧ (x ≠ n → (w'.f x).cur = (w.f x).cur) := by
  intro x
  simp only [gptFinish] at h
  generalize (min (if (w.f n).valid = true then (w.f n).myTime else 0) (firstSchedAgg never w.f n)) = a at h
  have lk := setAgg_fields w.f n a
  generalize upd w.f n { (w.f n) with agg := a } = f3 at h lk
  split at h
  · rename_i f4 h4
    cases h
    show (f4 x).parent = _ ∧ (f4 x).valid = _ ∧ (x ≠ n → (f4 x).cur = _)
    split at h4
    · split at h4
      · have s := resched_sameScalars never _ _ _ _ _ _ h4
        refine ⟨(s x).2.2.2.trans (lk x).1, (s x).1.trans (lk x).2.2.1, fun hx => ?_⟩
        have := resched_file_cur never d f3 _ n _ f4 (by split <;> decide) h4 x hx
        rw [this]; exact (lk x).2.1
      · cases h4; exact ⟨(lk x).1, (lk x).2.2.1, fun _ => (lk x).2.1⟩
    · cases h4; exact ⟨(lk x).1, (lk x).2.2.1, fun _ => (lk x).2.1⟩
  · cases h

/-! ## the call stack is a chain of parent pointers -/

/-- every node on the stack is a child of the next one; the bottom one is a root -/
def Chain (f : Forest) : List Nat → Prop
  | [] => True
  | [a] => (f a).parent = none
  | a :: b :: r => (f a).parent = some b ∧ Chain f (b :: r)

theorem chain_congr (f f' : Forest) : ∀ (l : List Nat), (∀ y ∈ l, (f' y).parent = (f y).parent) → Chain f l → Chain f' l := by
  intro l
  induction l with
  | nil => intro _ _; trivial
  | cons a r ih =>
    intro hp hc
    cases r with
    | nil => simp only [Chain] at hc ⊢; rw [hp a (by simp)]; exact hc
    | cons b r' =>
      simp only [Chain] at hc ⊢
      exact ⟨by rw [hp a (by simp)]; exact hc.1, ih (fun y hy => hp y (List.mem_cons_of_mem _ hy)) hc.2⟩

/-- the parent of a node on the stack is further down the stack -/
theorem chain_parent (f : Forest) : ∀ (a : Nat) (r : List Nat), Chain f (a :: r) →
    ∀ y ∈ a :: r, ∀ z, (f y).parent = some z → z ∈ r := by
  intro a r
  induction r generalizing a with
  | nil =>
    intro hc y hy z hz
    simp only [Chain] at hc
    have : y = a := by simpa using hy
    subst this; rw [hc] at hz; cases hz
  | cons b r' ih =>
    intro hc y hy z hz
    simp only [Chain] at hc
    rcases List.mem_cons.mp hy with rfl | hy
    · rw [hc.1] at hz; cases hz; simp
    · exact List.mem_cons_of_mem _ (ih b hc.2 y hy z hz)


/-! ## the sweep -/

/-- what a (part of a) sweep guarantees for the frames above it -/
def Keeps (stk : List Nat) (f f' : Forest) : Prop :=
  ∀ y ∈ stk, (f' y).parent = (f y).parent ∧ (f' y).valid = (f y).valid ∧ (Unfiled f y → Unfiled f' y)

theorem Keeps.refl (stk : List Nat) (f : Forest) : Keeps stk f f := fun _ _ => ⟨rfl, rfl, fun h => h⟩

theorem Keeps.trans {stk : List Nat} {f g h : Forest} (a : Keeps stk f g) (b : Keeps stk g h) : Keeps stk f h :=
  fun y hy => ⟨(b y hy).1.trans (a y hy).1, (b y hy).2.1.trans (a y hy).2.1, fun hu => (b y hy).2.2 ((a y hy).2.2 hu)⟩

theorem gptC_inv (never d : Nat) : ∀ (k : Nat),
    (∀ (w w' : World) (n now mn m : Nat) (stk : List Nat),
      gptAuxC never d k w n now mn stk = some (w', m, true) → Inv never w.f → Chain w.f (n :: stk) →
      (n :: stk).Nodup → (∀ y ∈ n :: stk, Unfiled w.f y) →
      Inv never w'.f ∧ Keeps stk w.f w'.f ∧ (w'.f n).parent = (w.f n).parent) ∧
    (∀ (w w' : World) (n now mn m : Nat) (rest : List Nat),
      gptLoopC never d k w n now mn (n :: rest) = some (w', m, true) → Inv never w.f → Chain w.f (n :: rest) →
      (n :: rest).Nodup → (∀ y ∈ n :: rest, Unfiled w.f y) →
      Inv never w'.f ∧ Keeps (n :: rest) w.f w'.f ∧ (w'.f n).recalc = []) := by
  intro k
  induction k with
  | zero =>
    exact ⟨fun w w' n now mn m stk h => by simp [gptAuxC] at h, fun w w' n now mn m rest h => by simp [gptLoopC] at h⟩
  | succ k ih =>
    refine ⟨?_, ?_⟩
    · intro w w' n now mn m stk h hi hch hnd hun
      simp only [gptAuxC] at h
      split at h
      · cases h
      · rename_i w1 b1 h1
        split at h
        · cases h
        · rename_i w2 mn2 b2 h2
          split at h
          · rename_i w5 m5 b5 h5
            simp only [Option.some.injEq, Prod.mk.injEq, Bool.and_eq_true] at h
            obtain ⟨hw5, hm5, ⟨hb1, hb2⟩, hb5⟩ := h
            subst hw5; subst hm5; subst hb1; subst hb2; subst hb5
            have hnstk : n ∉ stk := (List.nodup_cons.mp hnd).1
            -- pass 0: the node is asked, if its request does not stand
            have s1 : Inv never w1.f ∧ (w1.f n).valid = true ∧ (∀ x, Unfiled w.f x → Unfiled w1.f x) ∧
                (∀ y, y ∈ n :: stk → (w1.f y).parent = (w.f y).parent ∧ (y ≠ n → (w1.f y).valid = (w.f y).valid)) := by
              split at h1
              · rename_i hv
                cases h1
                exact ⟨hi, hv, fun _ hx => hx, fun _ _ => ⟨rfl, fun _ => rfl⟩⟩
              · exact callGC_inv never d (n :: stk) w w1 n now (by simp) h1 hi (hun n (by simp))
            obtain ⟨i1, hv1, u1, p1⟩ := s1
            have hch1 : Chain w1.f (n :: stk) := chain_congr w.f w1.f _ (fun y hy => (p1 y hy).1) hch
            obtain ⟨i2, k2, hr2⟩ := ih.2 w1 w2 n now mn mn2 stk h2 i1 hch1 hnd (fun y hy => u1 y (hun y hy))
            have hv2 : (w2.f n).valid = true := by rw [(k2 n (by simp)).2.1]; exact hv1
            have hun2 : Unfiled w2.f n := (k2 n (by simp)).2.2 (u1 n (hun n (by simp)))
            simp only [hv2, if_true] at h5
            split at h5
            · rename_i w3 m3 h3
              simp only [Option.some.injEq, Prod.mk.injEq] at h5
              obtain ⟨hw3, hm3, _⟩ := h5
              subst hw3; subst hm3
              have o3 := gptFinish_other never d w2 w3 n mn2 m3 h3
              refine ⟨gptFinish_inv never d w2 w3 n mn2 m3 i2 hr2 hv2 hun2 h3, ?_,
                (o3 n).1.trans ((k2 n (by simp)).1.trans (p1 n (by simp)).1)⟩
              intro y hy
              have hyn : y ≠ n := fun e => hnstk (e ▸ hy)
              have hy' : y ∈ n :: stk := List.mem_cons_of_mem _ hy
              refine ⟨(o3 y).1.trans ((k2 y hy').1.trans (p1 y hy').1),
                (o3 y).2.1.trans ((k2 y hy').2.1.trans ((p1 y hy').2 hyn)), fun hu => ?_⟩
              have := (k2 y hy').2.2 (u1 y hu)
              exact ⟨by rw [(o3 y).2.2 hyn]; exact this.1, by rw [(o3 y).2.2 hyn]; exact this.2⟩
            · cases h5
          · cases h
    · intro w w' n now mn m rest h hi hch hnd hun
      simp only [gptLoopC] at h
      split at h
      · rename_i he
        simp only [Option.some.injEq, Prod.mk.injEq] at h
        obtain ⟨hw, _, _⟩ := h
        subst hw
        exact ⟨hi, Keeps.refl _ _, he⟩
      · rename_i c r he
        split at h
        · cases h
        · rename_i w1 mn1 b1 h1
          split at h
          · rename_i w2 m2 b2 h2
            simp only [Option.some.injEq, Prod.mk.injEq, Bool.and_eq_true] at h
            obtain ⟨hw2, hm2, hb1, hb2⟩ := h
            subst hw2; subst hm2; subst hb1; subst hb2
            -- the first needy child: a child of n, waiting in NEEDSRECALC, not on the stack
            have hm : c ∈ (w.f n).list .recalc := by rw [list_recalc, he]; simp
            obtain ⟨hpc, hcc⟩ := hi.1.sound n c .recalc hm
            have hunc : Unfiled w.f c := ⟨by rw [hcc]; simp, by rw [hcc]; simp⟩
            have hcn : c ∉ n :: rest := by
              intro hmem
              have := chain_parent w.f n rest hch c hmem n hpc
              exact (List.nodup_cons.mp hnd).1 this
            have hchc : Chain w.f (c :: n :: rest) := ⟨hpc, hch⟩
            have hndc : (c :: n :: rest).Nodup := List.nodup_cons.mpr ⟨hcn, hnd⟩
            have hunc' : ∀ y ∈ c :: n :: rest, Unfiled w.f y := by
              intro y hy
              rcases List.mem_cons.mp hy with rfl | hy
              · exact hunc
              · exact hun y hy
            obtain ⟨i1, k1, _⟩ := ih.1 w w1 c now mn mn1 (n :: rest) h1 hi hchc hndc hunc'
            have hch1 : Chain w1.f (n :: rest) := chain_congr w.f w1.f _ (fun y hy => (k1 y hy).1) hch
            obtain ⟨i2, k2, hr2⟩ := ih.2 w1 w2 n now mn1 m2 rest h2 i1 hch1 hnd (fun y hy => (k1 y hy).2.2 (hun y hy))
            exact ⟨i2, k1.trans k2, hr2⟩
          · cases h

end Muscle.Pulse
